(* StringLaws.v — laws of the string built-ins: join/split round trip, replace as join of split,
   agreement of the byte-based and the character-based len/head/tail/slice on ASCII text
   (and its refutation on non-ASCII text), and what the character-based variants guarantee. *)
From Coq Require Import String Ascii List ZArith Bool Lia.
Require Import Blots.Num Blots.gen.Builtins Blots.Ast Blots.Value Blots.Outcome Blots.Access Blots.BuiltinsList.
Import ListNotations.
Open Scope list_scope.

(* ---------- basic facts on string append ---------- *)
Lemma sapp_nil_r (s : string) : (s ++ EmptyString)%string = s.
Proof. induction s as [|c s IH]; cbn [append]; [reflexivity | now rewrite IH]. Qed.

Lemma sapp_assoc (a b c : string) : ((a ++ b) ++ c)%string = (a ++ (b ++ c))%string.
Proof. induction a as [|x a IH]; cbn [append]; [reflexivity | now rewrite IH]. Qed.

Lemma sapp_length (a b : string) : String.length (a ++ b)%string = (String.length a + String.length b)%nat.
Proof. induction a as [|x a IH]; cbn [append String.length]; [reflexivity | now rewrite IH]. Qed.

Lemma snoc_app (cur : string) (c : ascii) (r : string) :
  (snoc cur c ++ r)%string = (cur ++ String c r)%string.
Proof. unfold snoc. rewrite sapp_assoc. reflexivity. Qed.

(* ---------- String.concat and str_join ---------- *)
Lemma concat_cons_nonempty sep x y l :
  String.concat sep (x :: y :: l) = (x ++ sep ++ String.concat sep (y :: l))%string.
Proof. reflexivity. Qed.

Lemma concat_empty_cons x l :
  String.concat EmptyString (x :: l) = (x ++ String.concat EmptyString l)%string.
Proof.
  destruct l as [|y l].
  - cbn [String.concat]. now rewrite sapp_nil_r.
  - rewrite concat_cons_nonempty. reflexivity.
Qed.

Lemma concat_empty_app l1 l2 :
  String.concat EmptyString (l1 ++ l2)
  = (String.concat EmptyString l1 ++ String.concat EmptyString l2)%string.
Proof.
  induction l1 as [|x l1 IH].
  - reflexivity.
  - cbn [app]. rewrite !concat_empty_cons, IH, sapp_assoc. reflexivity.
Qed.

Lemma str_join_concat sep l : str_join sep l = String.concat sep l.
Proof.
  induction l as [|x l IH]; [reflexivity|].
  destruct l as [|y l]; [reflexivity|].
  rewrite concat_cons_nonempty, <- IH. reflexivity.
Qed.

Lemma str_join_cons_nonempty sep x y l :
  str_join sep (x :: y :: l) = (x ++ sep ++ str_join sep (y :: l))%string.
Proof. reflexivity. Qed.

Lemma str_join_cons sep x l : l <> [] ->
  str_join sep (x :: l) = (x ++ sep ++ str_join sep l)%string.
Proof. destruct l as [|y l]; [congruence | reflexivity]. Qed.

(* ---------- chars ---------- *)
Lemma chars_acc_concat s owed cur : String.concat EmptyString (chars_acc s owed cur) = (cur ++ s)%string.
Proof.
  revert owed cur. induction s as [|c r IH]; intros owed cur.
  - cbn [chars_acc]. destruct cur; [reflexivity|].
    cbn [String.concat]. now rewrite sapp_nil_r.
  - cbn [chars_acc]. destruct owed as [|n].
    + rewrite concat_empty_app, IH. destruct cur as [|a cur]; [reflexivity|].
      cbn [String.concat]. reflexivity.
    + rewrite IH. apply sapp_assoc.
Qed.

Lemma chars_concat s : String.concat EmptyString (chars s) = s.
Proof. unfold chars. rewrite chars_acc_concat. reflexivity. Qed.

(* ---------- split ---------- *)
Lemma is_prefix_app d s : is_prefix d s = true -> exists s', s = (d ++ s')%string.
Proof.
  revert s. induction d as [|a d IH]; intros s H.
  - exists s. reflexivity.
  - destruct s as [|b s]; cbn [is_prefix] in H; [discriminate|].
    apply andb_true_iff in H. destruct H as [Hab H].
    apply Ascii.eqb_eq in Hab. subst b.
    destruct (IH _ H) as [s' ->]. exists s'. reflexivity.
Qed.

Lemma split_acc_skip d p s' cur :
  split_acc d (p ++ s')%string (String.length p) cur = split_acc d s' 0 cur.
Proof.
  induction p as [|c p IH]; [reflexivity|].
  cbn [append String.length split_acc]. exact IH.
Qed.

Lemma split_acc_nonempty d s skip cur : split_acc d s skip cur <> [].
Proof.
  revert skip cur. induction s as [|c r IH]; intros skip cur; cbn [split_acc].
  - discriminate.
  - destruct skip; [|apply IH].
    destruct (is_prefix d (String c r)); [discriminate | apply IH].
Qed.

Lemma str_len_pred a d : (str_len (String a d) - 1)%nat = String.length d.
Proof. unfold str_len. cbn [String.length]. lia. Qed.

Lemma join_split_acc a d' n : forall s cur, (String.length s <= n)%nat ->
  str_join (String a d') (split_acc (String a d') s 0 cur) = (cur ++ s)%string.
Proof.
  induction n as [|n IH]; intros s cur Hn.
  - destruct s; [|cbn [String.length] in Hn; lia].
    cbn [split_acc str_join]. now rewrite sapp_nil_r.
  - destruct s as [|c r].
    + cbn [split_acc str_join]. now rewrite sapp_nil_r.
    + cbn [String.length] in Hn. cbn [split_acc].
      destruct (is_prefix (String a d') (String c r)) eqn:Hp.
      * destruct (is_prefix_app _ _ Hp) as [s' Hs'].
        cbn [append] in Hs'. injection Hs' as Hc Hr. subst c r.
        rewrite str_len_pred, split_acc_skip.
        rewrite str_join_cons by apply split_acc_nonempty.
        rewrite IH by (rewrite sapp_length in Hn; lia).
        reflexivity.
      * rewrite IH by lia. apply snoc_app.
Qed.

Lemma join_split s d : str_join d (str_split s d) = s.
Proof.
  destruct d as [|a d'].
  - unfold str_split. rewrite str_join_concat.
    change (EmptyString :: chars s ++ [EmptyString]) with ([EmptyString] ++ chars s ++ [EmptyString]).
    rewrite !concat_empty_app, chars_concat. cbn [String.concat append].
    apply sapp_nil_r.
  - unfold str_split. rewrite (join_split_acc a d' (String.length s)) by lia. reflexivity.
Qed.

Lemma map_stringify_VStr num_str lam_str l :
  map (stringify num_str lam_str false) (map VStr l) = l.
Proof.
  induction l as [|x l IH]; [reflexivity|].
  cbn [map stringify]. now rewrite IH.
Qed.

Lemma bi_join_split num_str lam_str s d parts :
  bi_split [VStr s; VStr d] = Ok (VList parts) -> bi_join num_str lam_str [VList parts; VStr d] = Ok (VStr s).
Proof.
  intros H. cbv [bi_split arg nth_error obind as_string] in H.
  injection H as <-.
  cbv [bi_join arg nth_error obind as_string as_list].
  rewrite map_stringify_VStr, join_split. reflexivity.
Qed.

(* ---------- replace ---------- *)
Lemma replace_acc_skip old new p s' :
  replace_acc old new (p ++ s')%string (String.length p) = replace_acc old new s' 0.
Proof.
  induction p as [|c p IH]; [reflexivity|].
  cbn [append String.length replace_acc]. exact IH.
Qed.

Lemma join_split_acc_replace a d' new n : forall s cur, (String.length s <= n)%nat ->
  str_join new (split_acc (String a d') s 0 cur) = (cur ++ replace_acc (String a d') new s 0)%string.
Proof.
  induction n as [|n IH]; intros s cur Hn.
  - destruct s; [|cbn [String.length] in Hn; lia].
    cbn [split_acc str_join replace_acc]. now rewrite sapp_nil_r.
  - destruct s as [|c r].
    + cbn [split_acc str_join replace_acc]. now rewrite sapp_nil_r.
    + cbn [String.length] in Hn. cbn [split_acc replace_acc].
      destruct (is_prefix (String a d') (String c r)) eqn:Hp.
      * destruct (is_prefix_app _ _ Hp) as [s' Hs'].
        cbn [append] in Hs'. injection Hs' as Hc Hr. subst c r.
        rewrite str_len_pred, split_acc_skip, replace_acc_skip.
        rewrite str_join_cons by apply split_acc_nonempty.
        rewrite IH by (rewrite sapp_length in Hn; lia).
        reflexivity.
      * rewrite IH by lia. apply snoc_app.
Qed.

Lemma join_snoc_empty new l :
  str_join new (l ++ [EmptyString]) = String.concat EmptyString (map (fun ch => (ch ++ new)%string) l).
Proof.
  induction l as [|x l IH]; [reflexivity|].
  cbn [app map]. rewrite str_join_cons by (destruct l; discriminate).
  rewrite IH, concat_empty_cons, sapp_assoc. reflexivity.
Qed.

Lemma replace_is_join_split s old new : str_replace s old new = str_join new (str_split s old).
Proof.
  destruct old as [|a d'].
  - unfold str_replace, str_split.
    rewrite str_join_cons by (destruct (chars s); discriminate).
    rewrite join_snoc_empty. reflexivity.
  - unfold str_replace, str_split.
    rewrite (join_split_acc_replace a d' new (String.length s)) by lia. reflexivity.
Qed.

(* ---------- ASCII text: bytes and characters coincide ---------- *)
Definition singles (s : string) : list string :=
  map (fun c => String c EmptyString) (list_ascii_of_string s).

Lemma ascii_width c : (byte_of c <? 0x80)%Z = true -> utf8_width c = 1%nat.
Proof.
  intros H. apply Z.ltb_lt in H. unfold utf8_width.
  destruct (byte_of c <? 192)%Z eqn:E; [reflexivity|]. apply Z.ltb_ge in E. lia.
Qed.

Lemma ascii_not_cont c : (byte_of c <? 0x80)%Z = true -> is_cont c = false.
Proof.
  intros H. apply Z.ltb_lt in H. unfold is_cont.
  destruct (128 <=? byte_of c)%Z eqn:E; [|reflexivity]. apply Z.leb_le in E. lia.
Qed.

Lemma ascii_chars_acc s cur : is_ascii_str s = true ->
  chars_acc s 0 cur = match cur with EmptyString => [] | _ => [cur] end ++ singles s.
Proof.
  revert cur. induction s as [|c r IH]; intros cur H.
  - cbn [chars_acc]. unfold singles. cbn [list_ascii_of_string map]. now rewrite app_nil_r.
  - unfold is_ascii_str in H. cbn [list_ascii_of_string forallb] in H.
    apply andb_true_iff in H. destruct H as [Hc Hr].
    cbn [chars_acc]. rewrite (ascii_width c Hc). cbn [Nat.sub].
    rewrite (IH _ Hr). reflexivity.
Qed.

Lemma ascii_chars s : is_ascii_str s = true ->
  chars s = map (fun c => String c EmptyString) (list_ascii_of_string s).
Proof. intros H. unfold chars. rewrite (ascii_chars_acc s EmptyString H). reflexivity. Qed.

Lemma singles_length s : length (singles s) = String.length s.
Proof.
  unfold singles. rewrite map_length.
  induction s as [|c s IH]; cbn [list_ascii_of_string length String.length]; [reflexivity | now rewrite IH].
Qed.

Lemma singles_concat s : String.concat EmptyString (singles s) = s.
Proof.
  induction s as [|c s IH]; [reflexivity|].
  change (singles (String c s)) with (String c EmptyString :: singles s).
  rewrite concat_empty_cons, IH. reflexivity.
Qed.

Lemma singles_skipn n s : skipn n (singles s) = singles (str_drop n s).
Proof.
  revert s. induction n as [|n IH]; intros s; [reflexivity|].
  destruct s as [|c s]; [reflexivity|].
  change (singles (String c s)) with (String c EmptyString :: singles s).
  cbn [skipn str_drop]. apply IH.
Qed.

Lemma singles_firstn n s : firstn n (singles s) = singles (str_take n s).
Proof.
  revert s. induction n as [|n IH]; intros s; [reflexivity|].
  destruct s as [|c s]; [reflexivity|].
  change (singles (String c s)) with (String c EmptyString :: singles s).
  cbn [firstn str_take].
  change (singles (String c (str_take n s))) with (String c EmptyString :: singles (str_take n s)).
  now rewrite IH.
Qed.

Lemma str_take_all s : str_take (String.length s) s = s.
Proof. induction s as [|c s IH]; cbn [String.length str_take]; [reflexivity | now rewrite IH]. Qed.

Lemma ascii_drop_head n s : is_ascii_str s = true ->
  match str_drop n s with String c _ => is_cont c = false | EmptyString => True end.
Proof.
  revert s. induction n as [|n IH]; intros s H.
  - cbn [str_drop]. destruct s as [|c r]; [exact I|].
    unfold is_ascii_str in H. cbn [list_ascii_of_string forallb] in H.
    apply andb_true_iff in H. now apply ascii_not_cont.
  - destruct s as [|c r]; [exact I|]. cbn [str_drop]. apply IH.
    unfold is_ascii_str in H. cbn [list_ascii_of_string forallb] in H.
    apply andb_true_iff in H. apply H.
Qed.

Lemma str_drop_nonempty n s : (n < String.length s)%nat -> str_drop n s <> EmptyString.
Proof.
  revert s. induction n as [|n IH]; intros s H; destruct s as [|c r];
    cbn [String.length] in H; try lia; cbn [str_drop]; [discriminate|].
  apply IH. lia.
Qed.

Lemma ascii_boundary s i : is_ascii_str s = true ->
  (0 <= i <= Z.of_nat (str_len s))%Z -> is_char_boundary s i = true.
Proof.
  intros H Hi. unfold is_char_boundary.
  destruct (i =? 0)%Z eqn:E0; [reflexivity|].
  destruct (i =? Z.of_nat (str_len s))%Z eqn:E1; [reflexivity|].
  apply Z.eqb_neq in E0, E1.
  destruct ((i <? 0)%Z || (Z.of_nat (str_len s) <? i)%Z) eqn:E2.
  - apply orb_true_iff in E2. destruct E2 as [E2|E2]; apply Z.ltb_lt in E2; lia.
  - pose proof (ascii_drop_head (Z.to_nat i) s H) as Hd.
    pose proof (str_drop_nonempty (Z.to_nat i) s) as Hne.
    destruct (str_drop (Z.to_nat i) s) as [|c r].
    + exfalso. apply Hne; [|reflexivity]. unfold str_len in *. lia.
    + now rewrite Hd.
Qed.

Lemma ascii_str_get s a b : is_ascii_str s = true -> (0 <= a)%Z ->
  str_get s a b =
  if ((a <=? b)%Z && (b <=? Z.of_nat (str_len s))%Z)%bool
  then Some (str_take (Z.to_nat (b - a)) (str_drop (Z.to_nat a) s)) else None.
Proof.
  intros H Ha. unfold str_get.
  destruct ((a <=? b)%Z && (b <=? Z.of_nat (str_len s))%Z)%bool eqn:E; [|reflexivity].
  apply andb_true_iff in E. destruct E as [E1 E2]. apply Z.leb_le in E1, E2.
  rewrite !ascii_boundary by (auto; lia). reflexivity.
Qed.

Lemma as_usize_nonneg x : (0 <= as_usize x)%Z.
Proof.
  unfold as_usize, cast_int.
  assert (Hu : (0 <= U64_MAX)%Z) by (unfold U64_MAX; lia).
  assert (Hc : forall z, (0 <= clamp 0 U64_MAX z)%Z).
  { intros z. unfold clamp.
    destruct (z <? 0)%Z eqn:E1; [lia|]. apply Z.ltb_ge in E1.
    destruct (U64_MAX <? z)%Z eqn:E2; lia. }
  destruct x as [s| s | |s m e].
  - destruct (Z_of_num_trunc _); [apply Hc | lia].
  - destruct s; lia.
  - lia.
  - destruct (Z_of_num_trunc _); [apply Hc | lia].
Qed.

Lemma string_char_consistency_ascii s : is_ascii_str s = true ->
  bi_len [VStr s] = bi_len_chars [VStr s] /\
  bi_head [VStr s] = bi_head_chars [VStr s] /\
  bi_tail [VStr s] = bi_tail_chars [VStr s] /\
  (forall x y, bi_slice [VStr s; VNum x; VNum y] = bi_slice_chars [VStr s; VNum x; VNum y]).
Proof.
  intros H. pose proof (ascii_chars s H) as Hch. fold (singles s) in Hch.
  repeat split.
  - cbv [bi_len bi_len_chars arg nth_error obind].
    rewrite Hch, singles_length. reflexivity.
  - cbv [bi_head bi_head_chars arg nth_error obind].
    rewrite Hch, (ascii_str_get s 0 1 H) by lia.
    destruct s as [|c r]; [reflexivity|].
    unfold str_len. cbn [String.length].
    replace ((0 <=? 1)%Z && (1 <=? Z.of_nat (S (String.length r)))%Z)%bool with true
      by (symmetry; apply andb_true_iff; split; apply Z.leb_le; lia).
    reflexivity.
  - cbv [bi_tail bi_tail_chars arg nth_error obind]. unfold str_get_from.
    rewrite Hch, (ascii_str_get s 1 _ H) by lia.
    destruct s as [|c r]; [reflexivity|].
    unfold str_len. cbn [String.length].
    replace ((1 <=? Z.of_nat (S (String.length r)))%Z && (Z.of_nat (S (String.length r)) <=? Z.of_nat (S (String.length r)))%Z)%bool with true
      by (symmetry; apply andb_true_iff; split; apply Z.leb_le; lia).
    replace (Z.to_nat (Z.of_nat (S (String.length r)) - 1)) with (String.length r) by lia.
    change (Z.to_nat 1) with 1%nat. cbn [str_drop]. rewrite str_take_all.
    change (singles (String c r)) with (String c EmptyString :: singles r).
    cbn [tl]. now rewrite singles_concat.
  - intros x y. cbv [bi_slice bi_slice_chars arg nth_error obind as_number].
    rewrite Hch, (ascii_str_get s _ _ H) by apply as_usize_nonneg.
    unfold slice_get. rewrite singles_length. fold (str_len s).
    destruct ((as_usize x <=? as_usize y)%Z && (as_usize y <=? Z.of_nat (str_len s))%Z)%bool; [|reflexivity].
    rewrite singles_skipn, singles_firstn, singles_concat. reflexivity.
Qed.

Lemma string_char_consistency_refuted :
  exists s, bi_len [VStr s] <> bi_len_chars [VStr s] /\ bi_head [VStr s] <> bi_head_chars [VStr s] /\
            bi_tail [VStr s] <> bi_tail_chars [VStr s].
Proof.
  exists (String (ascii_of_nat 195) (String (ascii_of_nat 169) (String "a" EmptyString))).
  repeat split; vm_compute; discriminate.
Qed.

Lemma string_chars_fixed s :
  bi_len_chars [VStr s] = Ok (VNum (num_of_nat (length (chars s)))) /\
  bi_head_chars [VStr s] = Ok (VStr (hd EmptyString (chars s))) /\
  (exists t, bi_tail_chars [VStr s] = Ok (VStr t) /\ (hd EmptyString (chars s) ++ t)%string = s).
Proof.
  split; [reflexivity|]. split; [reflexivity|].
  exists (String.concat EmptyString (tl (chars s))). split; [reflexivity|].
  pose proof (chars_concat s) as H.
  destruct (chars s) as [|x l]; cbn [hd tl].
  - cbn [String.concat] in H. subst s. reflexivity.
  - rewrite concat_empty_cons in H. exact H.
Qed.
