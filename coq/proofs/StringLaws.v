(* StringLaws.v — laws of the string built-ins: join/split round trip, replace as join of split,
   agreement of the byte-based and the character-based len/head/tail/slice on ASCII text
   (and its refutation on non-ASCII text), and what the character-based variants guarantee. *)
From Coq Require Import String Ascii List ZArith Bool Lia.
Require Import Blots.Num Blots.gen.Builtins Blots.Ast Blots.Value Blots.Outcome Blots.Access Blots.BuiltinsList.
Import ListNotations.
Open Scope list_scope.

(* ---------- basic facts on string append ---------- *)
Lemma sapp_nil_r (s : string) : (s ++ EmptyString)%string = s.
Proof. induction s as [|c s IH]; cbn [append]; [reflexivity | now rewrite IH]. Qed.

Lemma sapp_assoc (a b c : string) : ((a ++ b) ++ c)%string = (a ++ (b ++ c))%string.
Proof. induction a as [|x a IH]; cbn [append]; [reflexivity | now rewrite IH]. Qed.

Lemma sapp_length (a b : string) : String.length (a ++ b)%string = (String.length a + String.length b)%nat.
Proof. induction a as [|x a IH]; cbn [append String.length]; [reflexivity | now rewrite IH]. Qed.

Lemma snoc_app (cur : string) (c : ascii) (r : string) :
  (snoc cur c ++ r)%string = (cur ++ String c r)%string.
Proof. unfold snoc. rewrite sapp_assoc. reflexivity. Qed.

(* ---------- String.concat and str_join ---------- *)
Lemma concat_cons_nonempty sep x y l :
  String.concat sep (x :: y :: l) = (x ++ sep ++ String.concat sep (y :: l))%string.
Proof. reflexivity. Qed.

Lemma concat_empty_cons x l :
  String.concat EmptyString (x :: l) = (x ++ String.concat EmptyString l)%string.
Proof.
  destruct l as [|y l].
  - cbn [String.concat]. now rewrite sapp_nil_r.
  - rewrite concat_cons_nonempty. reflexivity.
Qed.

Lemma concat_empty_app l1 l2 :
  String.concat EmptyString (l1 ++ l2)
  = (String.concat EmptyString l1 ++ String.concat EmptyString l2)%string.
Proof.
  induction l1 as [|x l1 IH].
  - reflexivity.
  - cbn [app]. rewrite !concat_empty_cons, IH, sapp_assoc. reflexivity.
Qed.

Lemma str_join_concat sep l : str_join sep l = String.concat sep l.
Proof.
  induction l as [|x l IH]; [reflexivity|].
  destruct l as [|y l]; [reflexivity|].
  rewrite concat_cons_nonempty, <- IH. reflexivity.
Qed.

Lemma str_join_cons_nonempty sep x y l :
  str_join sep (x :: y :: l) = (x ++ sep ++ str_join sep (y :: l))%string.
Proof. reflexivity. Qed.

Lemma str_join_cons sep x l : l <> [] ->
  str_join sep (x :: l) = (x ++ sep ++ str_join sep l)%string.
Proof. destruct l as [|y l]; [congruence | reflexivity]. Qed.

(* ---------- chars ---------- *)
Lemma chars_acc_concat s owed cur : String.concat EmptyString (chars_acc s owed cur) = (cur ++ s)%string.
Proof.
  revert owed cur. induction s as [|c r IH]; intros owed cur.
  - cbn [chars_acc]. destruct cur; [reflexivity|].
    cbn [String.concat]. now rewrite sapp_nil_r.
  - cbn [chars_acc]. destruct owed as [|n].
    + rewrite concat_empty_app, IH. destruct cur as [|a cur]; [reflexivity|].
      cbn [String.concat]. reflexivity.
    + rewrite IH. apply sapp_assoc.
Qed.

Lemma chars_concat s : String.concat EmptyString (chars s) = s.
Proof. unfold chars. rewrite chars_acc_concat. reflexivity. Qed.

(* ---------- split ---------- *)
Lemma is_prefix_app d s : is_prefix d s = true -> exists s', s = (d ++ s')%string.
Proof.
  revert s. induction d as [|a d IH]; intros s H.
  - exists s. reflexivity.
  - destruct s as [|b s]; cbn [is_prefix] in H; [discriminate|].
    apply andb_true_iff in H. destruct H as [Hab H].
    apply Ascii.eqb_eq in Hab. subst b.
    destruct (IH _ H) as [s' ->]. exists s'. reflexivity.
Qed.

Lemma split_acc_skip d p s' cur :
  split_acc d (p ++ s')%string (String.length p) cur = split_acc d s' 0 cur.
Proof.
  induction p as [|c p IH]; [reflexivity|].
  cbn [append String.length split_acc]. exact IH.
Qed.

Lemma split_acc_nonempty d s skip cur : split_acc d s skip cur <> [].
Proof.
  revert skip cur. induction s as [|c r IH]; intros skip cur; cbn [split_acc].
  - discriminate.
  - destruct skip; [|apply IH].
    destruct (is_prefix d (String c r)); [discriminate | apply IH].
Qed.

Lemma str_len_pred a d : (str_len (String a d) - 1)%nat = String.length d.
Proof. unfold str_len. cbn [String.length]. lia. Qed.

Lemma join_split_acc a d' n : forall s cur, (String.length s <= n)%nat ->
  str_join (String a d') (split_acc (String a d') s 0 cur) = (cur ++ s)%string.
Proof.
  induction n as [|n IH]; intros s cur Hn.
  - destruct s; [|cbn [String.length] in Hn; lia].
    cbn [split_acc str_join]. now rewrite sapp_nil_r.
  - destruct s as [|c r].
    + cbn [split_acc str_join]. now rewrite sapp_nil_r.
    + cbn [String.length] in Hn. cbn [split_acc].
      destruct (is_prefix (String a d') (String c r)) eqn:Hp.
      * destruct (is_prefix_app _ _ Hp) as [s' Hs'].
        cbn [append] in Hs'. injection Hs' as Hc Hr. subst c r.
        rewrite str_len_pred, split_acc_skip.
        rewrite str_join_cons by apply split_acc_nonempty.
        rewrite IH by (rewrite sapp_length in Hn; lia).
        reflexivity.
      * rewrite IH by lia. apply snoc_app.
Qed.

Lemma join_split s d : str_join d (str_split s d) = s.
Proof.
  destruct d as [|a d'].
  - unfold str_split. rewrite str_join_concat.
    change (EmptyString :: chars s ++ [EmptyString]) with ([EmptyString] ++ chars s ++ [EmptyString]).
    rewrite !concat_empty_app, chars_concat. cbn [String.concat append].
    apply sapp_nil_r.
  - unfold str_split. rewrite (join_split_acc a d' (String.length s)) by lia. reflexivity.
Qed.

Lemma map_stringify_VStr num_str lam_str l :
  map (stringify num_str lam_str false) (map VStr l) = l.
Proof.
  induction l as [|x l IH]; [reflexivity|].
  cbn [map stringify]. now rewrite IH.
Qed.

Lemma bi_join_split num_str lam_str s d parts :
  bi_split [VStr s; VStr d] = Ok (VList parts) -> bi_join num_str lam_str [VList parts; VStr d] = Ok (VStr s).
Proof.
  intros H. cbv [bi_split arg nth_error obind as_string] in H.
  injection H as <-.
  cbv [bi_join arg nth_error obind as_string as_list].
  rewrite map_stringify_VStr, join_split. reflexivity.
Qed.

(* ---------- replace ---------- *)
Lemma replace_acc_skip old new p s' :
  replace_acc old new (p ++ s')%string (String.length p) = replace_acc old new s' 0.
Proof.
  induction p as [|c p IH]; [reflexivity|].
  cbn [append String.length replace_acc]. exact IH.
Qed.

Lemma join_split_acc_replace a d' new n : forall s cur, (String.length s <= n)%nat ->
  str_join new (split_acc (String a d') s 0 cur) = (cur ++ replace_acc (String a d') new s 0)%string.
Proof.
  induction n as [|n IH]; intros s cur Hn.
  - destruct s; [|cbn [String.length] in Hn; lia].
    cbn [split_acc str_join replace_acc]. now rewrite sapp_nil_r.
  - destruct s as [|c r].
    + cbn [split_acc str_join replace_acc]. now rewrite sapp_nil_r.
    + cbn [String.length] in Hn. cbn [split_acc replace_acc].
      destruct (is_prefix (String a d') (String c r)) eqn:Hp.
      * destruct (is_prefix_app _ _ Hp) as [s' Hs'].
        cbn [append] in Hs'. injection Hs' as Hc Hr. subst c r.
        rewrite str_len_pred, split_acc_skip, replace_acc_skip.
        rewrite str_join_cons by apply split_acc_nonempty.
        rewrite IH by (rewrite sapp_length in Hn; lia).
        reflexivity.
      * rewrite IH by lia. apply snoc_app.
Qed.

Lemma join_snoc_empty new l :
  str_join new (l ++ [EmptyString]) = String.concat EmptyString (map (fun ch => (ch ++ new)%string) l).
Proof.
  induction l as [|x l IH]; [reflexivity|].
  cbn [app map]. rewrite str_join_cons by (destruct l; discriminate).
  rewrite IH, concat_empty_cons, sapp_assoc. reflexivity.
Qed.

Lemma replace_is_join_split s old new : str_replace s old new = str_join new (str_split s old).
Proof.
  destruct old as [|a d'].
  - unfold str_replace, str_split.
    rewrite str_join_cons by (destruct (chars s); discriminate).
    rewrite join_snoc_empty. reflexivity.
  - unfold str_replace, str_split.
    rewrite (join_split_acc_replace a d' new (String.length s)) by lia. reflexivity.
Qed.

(* ---------- ASCII text: bytes and characters coincide ---------- *)
Definition singles (s : string) : list string :=
  map (fun c => String c EmptyString) (list_ascii_of_string s).

Lemma ascii_width c : (byte_of c <? 0x80)%Z = true -> utf8_width c = 1%nat.
Proof.
  intros H. apply Z.ltb_lt in H. unfold utf8_width.
  destruct (byte_of c <? 192)%Z eqn:E; [reflexivity|]. apply Z.ltb_ge in E. lia.
Qed.

Lemma ascii_not_cont c : (byte_of c <? 0x80)%Z = true -> is_cont c = false.
Proof.
  intros H. apply Z.ltb_lt in H. unfold is_cont.
  destruct (128 <=? byte_of c)%Z eqn:E; [|reflexivity]. apply Z.leb_le in E. lia.
Qed.

Lemma ascii_chars_acc s cur : is_ascii_str s = true ->
  chars_acc s 0 cur = match cur with EmptyString => [] | _ => [cur] end ++ singles s.
Proof.
  revert cur. induction s as [|c r IH]; intros cur H.
  - cbn [chars_acc]. unfold singles. cbn [list_ascii_of_string map]. now rewrite app_nil_r.
  - unfold is_ascii_str in H. cbn [list_ascii_of_string forallb] in H.
    apply andb_true_iff in H. destruct H as [Hc Hr].
    cbn [chars_acc]. rewrite (ascii_width c Hc). cbn [Nat.sub].
    rewrite (IH _ Hr). reflexivity.
Qed.

Lemma ascii_chars s : is_ascii_str s = true ->
  chars s = map (fun c => String c EmptyString) (list_ascii_of_string s).
Proof. intros H. unfold chars. rewrite (ascii_chars_acc s EmptyString H). reflexivity. Qed.

(* ---------- string functions see the same characters as indexing and spreading ---------- *)
(* every one of len / head / tail / slice is a function of [chars s], the sequence that
   access_value (VStr s) and spreading expose (Access.v) *)
Lemma string_char_consistency s :
  bi_len [VStr s] = Ok (VNum (num_of_nat (length (chars s)))) /\
  bi_head [VStr s] = Ok (VStr (hd EmptyString (chars s))) /\
  (exists t, bi_tail [VStr s] = Ok (VStr t) /\ t = String.concat EmptyString (tl (chars s)) /\
             (hd EmptyString (chars s) ++ t)%string = s) /\
  (forall x y, bi_slice [VStr s; VNum x; VNum y] =
     match slice_get (chars s) (as_usize x) (as_usize y) with
     | Some cs => Ok (VStr (String.concat EmptyString cs))
     | None => Err
     end).
Proof.
  split; [reflexivity|]. split; [unfold bi_head; cbn [arg nth_error obind]; now destruct (chars s)|].
  split; [|reflexivity].
  exists (String.concat EmptyString (tl (chars s))). split; [reflexivity|]. split; [reflexivity|].
  pose proof (chars_concat s) as H.
  destruct (chars s) as [|x l]; cbn [hd tl].
  - cbn [String.concat] in H. subst s. reflexivity.
  - rewrite concat_empty_cons in H. exact H.
Qed.

(* head(s) is s[0] *)
Lemma head_is_first_index s x c rest :
  as_i64 x = 0%Z -> chars s = c :: rest ->
  access_value (VStr s) (VNum x) = Ok (VStr c) /\ bi_head [VStr s] = Ok (VStr c).
Proof.
  intros Hx Hc. split.
  - unfold access_value, index_get. rewrite Hx, Hc. reflexivity.
  - unfold bi_head. cbn [arg nth_error obind]. now rewrite Hc.
Qed.

(* the former byte-based behaviour is gone: the old witness now agrees *)
Example string_char_consistency_old_witness :
  let s := String (ascii_of_nat 195) (String (ascii_of_nat 169) (String "a" EmptyString)) in
  bi_len [VStr s] = Ok (VNum (num_of_nat 2)) /\ bi_head [VStr s] = Ok (VStr (String (ascii_of_nat 195) (String (ascii_of_nat 169) EmptyString))).
Proof. split; vm_compute; reflexivity. Qed.
