(* UnitsFloat2.v — the binary64 half of the C17 conversion laws, continued (UnitsFloat.v has the
   per-operation relative-error lemmas and linear there-and-back with range hypotheses on the
   computed intermediates).  Here:
     1. Coq's SpecFloat add / sub / mul / div bridged to Flocq's Bplus / Bminus / Bmult / Bdiv for
        every FINITE operand including zeros ([isB]: "is a finite binary64 of real value r"), with the
        result exposed as [rnd] of the exact result;
     2. exponent windows: a decidable sufficient condition ([pair_ok]) for every intermediate of a
        conversion chain to stay in the normal range, proved sufficient, and proved BY COMPUTATION
        over the regenerated table for every pair of linear/reciprocal units of one category;
     3. there-and-back for the linear AND reciprocal kinds with decidable hypotheses only;
     4. float-level composition  fl(A->B->C) vs fl(A->C)  for the linear kind (6 roundings);
     5. there-and-back for the temperature (affine) kind as an ABSOLUTE error bound;
     6. the same statements at the level of [convert] / the [convert] built-in on identifiers. *)
From Coq Require Import ZArith Reals Floats.SpecFloat Psatz Lra List Bool String.
From Flocq Require Import Core Relative Plus_error BinarySingleNaN.
Require Import Blots.Num Blots.UnitsBase Blots.gen.UnitsTable Blots.Units Blots.proofs.UnitsLaws Blots.proofs.UnitsFloat.
Import ListNotations.
Open Scope R_scope.

(* ================================================================ 1. the bridge, zeros included *)
Definition B64 := binary_float 53 1024.
Definition rnd (x : R) : R := round radix2 (fexp 53 1024) (round_mode mode_NE) x.
Definition Tmax : R := bpow radix2 1023.

(* x is a finite binary64 (zero allowed) whose real value is r *)
Definition isB (x : num) (r : R) : Prop :=
  exists b : B64, x = B2SF b /\ BinarySingleNaN.is_finite b = true /\ B2R b = r.

Lemma isB_Rv x r : isB x r -> Rv x = r.
Proof. intros [b [E [_ V]]]. subst x. unfold Rv. rewrite SF2R_B2SF. exact V. Qed.

Lemma isB_of_valid x : valid_binary 53 1024 x = true -> is_finite_SF x = true -> isB x (Rv x).
Proof.
  intros V F. exists (SF2B x V). split; [symmetry; apply B2SF_SF2B|]. split.
  - rewrite is_finite_SF2B. exact F.
  - rewrite B2R_SF2B. reflexivity.
Qed.

Lemma isB_of_fin x : fin x -> isB x (Rv x).
Proof. destruct x; simpl; try contradiction. intros H. apply isB_of_valid; [exact H|reflexivity]. Qed.

Lemma isB_valid x r : isB x r -> valid_binary 53 1024 x = true /\ is_finite_SF x = true.
Proof.
  intros [b [E [F _]]]. subst x. split; [apply valid_binary_B2SF|]. rewrite is_finite_SF_B2SF. exact F.
Qed.

Lemma binary_round_equiv s m e :
  SpecFloat.binary_round 53 1024 s m e = binary_round 53 1024 mode_NE s m e.
Proof.
  unfold SpecFloat.binary_round, binary_round, shl_align_fexp.
  set (mez := shl_align _ _ _); case mez as [mz ez].
  apply binary_round_aux_equiv.
Qed.
Lemma binary_normalize_equiv m e szero :
  SpecFloat.binary_normalize 53 1024 m e szero
  = B2SF (binary_normalize 53 1024 prec_gt_0_53 prec_lt_emax_53 mode_NE m e szero).
Proof.
  case m as [ | p | p].
  - now simpl.
  - simpl; rewrite B2SF_SF2B; apply binary_round_equiv.
  - simpl; rewrite B2SF_SF2B; apply binary_round_equiv.
Qed.

Lemma nadd_B (x y : B64) : nadd (B2SF x) (B2SF y) = B2SF (Bplus mode_NE x y).
Proof.
  unfold nadd, Num.prec, Num.emax.
  case x as [sx|sx| |sx mx ex Bx]; case y as [sy|sy| |sy my ey By];
    [now (trivial || simpl; case Bool.eqb).. | ].
  apply binary_normalize_equiv.
Qed.
Lemma nsub_B (x y : B64) : nsub (B2SF x) (B2SF y) = B2SF (Bminus mode_NE x y).
Proof.
  unfold nsub, Num.prec, Num.emax.
  case x as [sx|sx| |sx mx ex Bx]; case y as [sy|sy| |sy my ey By];
    [now (trivial || simpl; case Bool.eqb).. | ].
  simpl. unfold Zminus. rewrite <- cond_Zopp_negb.
  apply binary_normalize_equiv.
Qed.
Lemma nmul_B (x y : B64) : nmul (B2SF x) (B2SF y) = B2SF (Bmult mode_NE x y).
Proof.
  unfold nmul, Num.prec, Num.emax.
  case x as [sx|sx| |sx mx ex Bx]; case y as [sy|sy| |sy my ey By]; [now trivial.. | ].
  simpl. rewrite B2SF_SF2B. apply binary_round_aux_equiv.
Qed.
Lemma ndiv_B (x y : B64) : ndiv (B2SF x) (B2SF y) = B2SF (Bdiv mode_NE x y).
Proof.
  unfold ndiv, Num.prec, Num.emax.
  case x as [sx|sx| |sx mx ex Bx]; case y as [sy|sy| |sy my ey By];
    [now (trivial || simpl; case Bool.eqb).. | ].
  simpl. rewrite B2SF_SF2B.
  set (melz := SFdiv_core_binary _ _ _ _ _ _). case melz as [[mz ez] lz].
  apply binary_round_aux_equiv.
Qed.

(* no overflow when the exact result is at most 2^1023 in magnitude *)
Lemma Tmax_format : generic_format radix2 (fexp 53 1024) Tmax.
Proof. apply generic_format_bpow. vm_compute. discriminate. Qed.
Lemma rnd_no_overflow z : Rabs z <= Tmax -> Rabs (rnd z) < bpow radix2 1024.
Proof.
  intros H. apply Rle_lt_trans with Tmax.
  - apply abs_round_le_generic; [apply fexp_correct; reflexivity|apply valid_rnd_round_mode|apply Tmax_format|exact H].
  - apply bpow_lt. reflexivity.
Qed.

Lemma isB_add x y rx ry : isB x rx -> isB y ry -> Rabs (rx + ry) <= Tmax -> isB (nadd x y) (rnd (rx + ry)).
Proof.
  intros [bx [Ex [Fx Vx]]] [by_ [Ey [Fy Vy]]] H. subst x y rx ry.
  pose proof (Bplus_correct 53 1024 prec_gt_0_53 prec_lt_emax_53 mode_NE bx by_ Fx Fy) as C.
  rewrite Rlt_bool_true in C by (apply rnd_no_overflow; exact H).
  destruct C as [CR [CF _]].
  exists (Bplus mode_NE bx by_). split; [apply nadd_B|]. split; [exact CF|exact CR].
Qed.
Lemma isB_sub x y rx ry : isB x rx -> isB y ry -> Rabs (rx - ry) <= Tmax -> isB (nsub x y) (rnd (rx - ry)).
Proof.
  intros [bx [Ex [Fx Vx]]] [by_ [Ey [Fy Vy]]] H. subst x y rx ry.
  pose proof (Bminus_correct 53 1024 prec_gt_0_53 prec_lt_emax_53 mode_NE bx by_ Fx Fy) as C.
  rewrite Rlt_bool_true in C by (apply rnd_no_overflow; exact H).
  destruct C as [CR [CF _]].
  exists (Bminus mode_NE bx by_). split; [apply nsub_B|]. split; [exact CF|exact CR].
Qed.
Lemma isB_mul x y rx ry : isB x rx -> isB y ry -> Rabs (rx * ry) <= Tmax -> isB (nmul x y) (rnd (rx * ry)).
Proof.
  intros [bx [Ex [Fx Vx]]] [by_ [Ey [Fy Vy]]] H. subst x y rx ry.
  pose proof (Bmult_correct 53 1024 prec_gt_0_53 prec_lt_emax_53 mode_NE bx by_) as C.
  rewrite Rlt_bool_true in C by (apply rnd_no_overflow; exact H).
  destruct C as [CR [CF _]].
  exists (Bmult mode_NE bx by_). split; [apply nmul_B|]. split; [rewrite CF, Fx, Fy; reflexivity|exact CR].
Qed.
Lemma isB_div x y rx ry : isB x rx -> isB y ry -> ry <> 0 -> Rabs (rx / ry) <= Tmax -> isB (ndiv x y) (rnd (rx / ry)).
Proof.
  intros [bx [Ex [Fx Vx]]] [by_ [Ey [Fy Vy]]] N H. subst x y rx ry.
  pose proof (Bdiv_correct 53 1024 prec_gt_0_53 prec_lt_emax_53 mode_NE bx by_ N) as C.
  rewrite Rlt_bool_true in C by (apply rnd_no_overflow; exact H).
  destruct C as [CR [CF _]].
  exists (Bdiv mode_NE bx by_). split; [apply ndiv_B|]. split; [rewrite CF; exact Fx|exact CR].
Qed.

(* ================================================================ 2. exponent windows *)
(* 2^a <= |x| <= 2^b *)
Definition win (a b : Z) (x : R) : Prop := bpow radix2 a <= Rabs x <= bpow radix2 b.

Lemma win_neq0 a b x : win a b x -> x <> 0.
Proof. intros [H _] E. subst x. rewrite Rabs_R0 in H. pose proof (bpow_gt_0 radix2 a). lra. Qed.

Lemma win_mul a b c d x y : win a b x -> win c d y -> win (a + c) (b + d) (x * y).
Proof.
  intros [H1 H2] [H3 H4]. unfold win. rewrite Rabs_mult, !bpow_plus.
  pose proof (bpow_gt_0 radix2 a). pose proof (bpow_gt_0 radix2 c).
  split; apply Rmult_le_compat; lra.
Qed.
Lemma win_inv c d y : win c d y -> win (- d) (- c) (/ y).
Proof.
  intros W. pose proof (win_neq0 _ _ _ W) as N. destruct W as [H3 H4].
  unfold win. rewrite Rabs_inv, !bpow_opp.
  pose proof (bpow_gt_0 radix2 c). pose proof (bpow_gt_0 radix2 d).
  split; apply Rinv_le_contravar; lra.
Qed.
Lemma win_div a b c d x y : win a b x -> win c d y -> win (a - d) (b - c) (x / y).
Proof. intros Wx Wy. apply win_inv in Wy. apply (win_mul _ _ _ _ _ _ Wx Wy). Qed.
Lemma win_weaken a b a' b' x : (a' <= a)%Z -> (b <= b')%Z -> win a b x -> win a' b' x.
Proof.
  intros Ha Hb [H1 H2]. split.
  - eapply Rle_trans; [apply bpow_le; exact Ha|exact H1].
  - eapply Rle_trans; [exact H2|apply bpow_le; exact Hb].
Qed.

Definition wokZ (a b : Z) : Prop := (-1022 <= a)%Z /\ (b <= 1023)%Z.

Lemma format_bpow e : (-1022 <= e)%Z -> (e <= 1023)%Z -> generic_format radix2 (fexp 53 1024) (bpow radix2 e).
Proof.
  intros H1 H2. apply generic_format_bpow. unfold fexp, emin. lia.
Qed.
Lemma win_rnd a b x : wokZ a b -> win a b x -> win a b (rnd x).
Proof.
  intros [Ha Hb] [H1 H2].
  assert (a <= b)%Z as Hab.
  { apply (le_bpow radix2). lra. }
  split.
  - apply abs_round_ge_generic; [apply fexp_correct; reflexivity|apply valid_rnd_round_mode|apply format_bpow; lia|exact H1].
  - apply abs_round_le_generic; [apply fexp_correct; reflexivity|apply valid_rnd_round_mode|apply format_bpow; lia|exact H2].
Qed.
Lemma win_in_range a b x : wokZ a b -> win a b x -> in_range x.
Proof. intros [Ha Hb] W. apply (win_weaken _ _ _ _ _ Ha Hb W). Qed.

(* floor(log2 |x|) of a finite non-zero number: 2^(lo x) <= |x| < 2^(lo x + 1) *)
Definition lo (x : num) : Z :=
  match x with S754_finite _ m e => (Z.pos (digits2_pos m) + e - 1)%Z | _ => 0%Z end.
Lemma lo_win x : fin x -> win (lo x) (lo x + 1) (Rv x).
Proof.
  intros F. destruct x as [| | |s m e]; try (exfalso; exact F). clear F.
  unfold lo, Rv, SF2R. set (z := cond_Zopp s (Z.pos m)).
  assert (Nz : z <> 0%Z) by (unfold z; destruct s; discriminate).
  assert (Nr : F2R (Float radix2 z e) <> 0) by (apply F2R_neq_0; exact Nz).
  assert (M : mag radix2 (F2R (Float radix2 z e)) = (Z.pos (digits2_pos m) + e)%Z :> Z).
  { rewrite mag_F2R_Zdigits by exact Nz. unfold z. rewrite Zdigits_cond_Zopp, Zpos_digits2_pos. reflexivity. }
  split.
  - replace (Z.pos (digits2_pos m) + e - 1)%Z with (mag radix2 (F2R (Float radix2 z e)) - 1)%Z by (rewrite M; ring).
    apply bpow_mag_le. exact Nr.
  - replace (Z.pos (digits2_pos m) + e - 1 + 1)%Z with (mag radix2 (F2R (Float radix2 z e)) : Z) by (rewrite M; ring).
    apply Rlt_le. apply bpow_mag_gt.
Qed.

(* ---------------------------------------------------------------- accumulated relative error *)
(* q = 1/(1-u): 1-u <= 1+e <= 1+u <= q for |e| <= u.  [near n f]: f is a product of n factors (1+e)^(+-1). *)
Definition qq : R := / (1 - u53).
Definition near (n : nat) (f : R) : Prop := / qq ^ n <= f <= qq ^ n.

Lemma qq_ge1 : 1 <= qq.
Proof.
  unfold qq. pose proof u53_lt1. rewrite <- Rinv_1 at 1. apply Rinv_le_contravar; lra.
Qed.
Lemma qq_pow_ge1 n : 1 <= qq ^ n.
Proof. apply pow_R1_Rle. apply qq_ge1. Qed.
Lemma near_pos n f : near n f -> 0 < f.
Proof.
  intros [H _]. pose proof (qq_pow_ge1 n). assert (0 < / qq ^ n) by (apply Rinv_0_lt_compat; lra). lra.
Qed.
Lemma near_0 : near 0 1.
Proof. unfold near. simpl. rewrite Rinv_1. lra. Qed.
Lemma near_1 e : Rabs e <= u53 -> near 1 (1 + e).
Proof.
  intros H. unfold near. simpl. rewrite Rmult_1_r. unfold qq. rewrite Rinv_inv.
  pose proof u53_lt1 as U. apply Rabs_le_inv in H. split; [lra|].
  apply Rle_trans with (1 + u53); [lra|].
  apply Rmult_le_reg_r with (1 - u53); [lra|]. rewrite Rinv_l by lra. nra.
Qed.
Lemma near_mul n m f g : near n f -> near m g -> near (n + m) (f * g).
Proof.
  intros Hf Hg. pose proof (near_pos _ _ Hf). pose proof (near_pos _ _ Hg).
  destruct Hf as [F1 F2], Hg as [G1 G2]. unfold near. rewrite pow_add.
  pose proof (qq_pow_ge1 n). pose proof (qq_pow_ge1 m).
  rewrite Rinv_mult. split; apply Rmult_le_compat; try lra.
  - apply Rlt_le, Rinv_0_lt_compat; lra.
  - apply Rlt_le, Rinv_0_lt_compat; lra.
Qed.
Lemma near_inv n f : near n f -> near n (/ f).
Proof.
  intros Hf. pose proof (near_pos _ _ Hf). destruct Hf as [F1 F2]. pose proof (qq_pow_ge1 n).
  split.
  - apply Rinv_le_contravar; lra.
  - rewrite <- (Rinv_inv (qq ^ n)). apply Rinv_le_contravar; [apply Rinv_0_lt_compat; lra|exact F1].
Qed.
Lemma near_bound n f : near n f -> Rabs (f - 1) <= qq ^ n - 1.
Proof.
  intros [F1 F2]. pose proof (qq_pow_ge1 n) as Q.
  assert (1 - (qq ^ n - 1) <= / qq ^ n).
  { apply Rmult_le_reg_r with (qq ^ n); [lra|]. rewrite Rinv_l by lra. nra. }
  apply Rabs_le. lra.
Qed.

(* ---------------------------------------------------------------- one rounded operation on a tracked value *)
(* [st r i n a b]: r is a valid finite non-zero binary64 with 2^a <= |r| <= 2^b whose value is the ideal
   (exact) value i times a product of n factors (1+e)^(+-1), |e| <= 2^-53 *)
Definition st (r : num) (i : R) (n : nat) (a b : Z) : Prop :=
  fin r /\ win a b (Rv r) /\ exists f, near n f /\ Rv r = i * f.

Lemma st_init v a b : fin v -> win a b (Rv v) -> st v (Rv v) 0 a b.
Proof. intros F W. split; [exact F|]. split; [exact W|]. exists 1. split; [apply near_0|ring]. Qed.

Lemma rnd_rel z : in_range z -> exists e, Rabs e <= u53 /\ rnd z = z * (1 + e) /\ rnd z <> 0.
Proof.
  intros H. destruct (round_in_range z H) as [e [He [Hr [_ Hn]]]]. exists e. auto.
Qed.

Lemma fin_of_isB x r : isB x r -> r <> 0 -> fin x.
Proof.
  intros H N. pose proof (isB_Rv _ _ H) as E. destruct (isB_valid _ _ H) as [V F].
  apply fin_of_valid; auto. rewrite E. exact N.
Qed.

(* generic step: the exact result z of an operation on tracked values, rounded *)
Lemma st_step x z i' n a' b' :
  isB x (rnd z) -> wokZ a' b' -> win a' b' z -> (exists f, near n f /\ z = i' * f) ->
  st x i' (S n) a' b'.
Proof.
  intros HB OK W [f [Nf Ez]].
  destruct (rnd_rel z (win_in_range _ _ _ OK W)) as [e [He [Hr Hn]]].
  pose proof (isB_Rv _ _ HB) as E.
  split; [apply (fin_of_isB _ _ HB Hn)|]. rewrite E. split; [apply win_rnd; assumption|].
  exists (f * (1 + e)). split.
  - replace (S n) with (n + 1)%nat by lia. apply near_mul; [exact Nf|apply near_1; exact He].
  - rewrite Hr, Ez. ring.
Qed.

Lemma st_mulc r i n a b c k : st r i n a b -> fin c -> win k (k + 1) (Rv c) -> wokZ (a + k) (b + (k + 1)) ->
  st (nmul r c) (i * Rv c) (S n) (a + k) (b + (k + 1)).
Proof.
  intros [F [W [f [Nf E]]]] Fc Wc OK.
  pose proof (win_mul _ _ _ _ _ _ W Wc) as Wz.
  apply st_step with (z := Rv r * Rv c).
  - apply isB_mul; try (apply isB_of_fin; assumption).
    destruct OK as [_ Hb]. destruct Wz as [_ Wz]. eapply Rle_trans; [exact Wz|apply bpow_le; exact Hb].
  - exact OK.
  - exact Wz.
  - exists f. split; [exact Nf|]. rewrite E. ring.
Qed.
Lemma st_divc r i n a b c k : st r i n a b -> fin c -> win k (k + 1) (Rv c) -> wokZ (a - (k + 1)) (b - k) ->
  st (ndiv r c) (i / Rv c) (S n) (a - (k + 1)) (b - k).
Proof.
  intros [F [W [f [Nf E]]]] Fc Wc OK.
  pose proof (win_div _ _ _ _ _ _ W Wc) as Wz.
  pose proof (win_neq0 _ _ _ Wc) as Nc.
  apply st_step with (z := Rv r / Rv c).
  - apply isB_div; try (apply isB_of_fin; assumption); [exact Nc|].
    destruct OK as [_ Hb]. destruct Wz as [_ Wz]. eapply Rle_trans; [exact Wz|apply bpow_le; exact Hb].
  - exact OK.
  - exact Wz.
  - exists f. split; [exact Nf|]. rewrite E. field. exact Nc.
Qed.
Lemma st_rdiv r i n a b c k : st r i n a b -> fin c -> win k (k + 1) (Rv c) -> wokZ (k - b) (k + 1 - a) ->
  st (ndiv c r) (Rv c / i) (S n) (k - b) (k + 1 - a).
Proof.
  intros [F [W [f [Nf E]]]] Fc Wc OK.
  pose proof (win_div _ _ _ _ _ _ Wc W) as Wz.
  pose proof (win_neq0 _ _ _ W) as Nr.
  pose proof (near_pos _ _ Nf) as Pf.
  assert (Ni : i <> 0) by (intros Z0; apply Nr; rewrite E, Z0; ring).
  apply st_step with (z := Rv c / Rv r).
  - apply isB_div; try (apply isB_of_fin; assumption); [exact Nr|].
    destruct OK as [_ Hb]. destruct Wz as [_ Wz]. eapply Rle_trans; [exact Wz|apply bpow_le; exact Hb].
  - exact OK.
  - exact Wz.
  - exists (/ f). split; [apply near_inv; exact Nf|]. rewrite E. field. split; lra.
Qed.

(* ---------------------------------------------------------------- the conversion code on tracked values *)
(* coefficient of a linear / reciprocal unit as the binary64 the code holds *)
Definition cnum (u : unit) : num :=
  match coef_of u with Some c => num_of_bits (l_bits c) | None => nzero end.
Definition klo (u : unit) : Z := lo (cnum u).
Definition is_lr (u : unit) : bool := match u_conv u with Temperature _ _ => false | _ => true end.

(* exact (real-number) meaning of convert_to_base / convert_from_base for the linear and reciprocal kinds *)
Definition tbR (u : unit) (x : R) : R :=
  match u_conv u with Linear _ => x * Rv (cnum u) | Reciprocal _ => Rv (cnum u) / x | Temperature _ _ => x end.
Definition fbR (u : unit) (x : R) : R :=
  match u_conv u with Linear _ => x / Rv (cnum u) | Reciprocal _ => Rv (cnum u) / x | Temperature _ _ => x end.

(* exponent window after convert_to_base / convert_from_base, computed on integers from a summary of the
   unit: (kind, floor(log2 coefficient)), kind 0 = linear, 1 = reciprocal, 2 = temperature *)
Definition ksum := (Z * Z)%type.
Definition usum (u : unit) : ksum :=
  (match u_conv u with Linear _ => 0 | Reciprocal _ => 1 | Temperature _ _ => 2 end, klo u)%Z.
Definition stepS_to (s : ksum) (w : Z * Z) : Z * Z :=
  let (a, b) := w in let k := snd s in
  (if fst s =? 0 then (a + k, b + (k + 1)) else if fst s =? 1 then (k - b, k + 1 - a) else w)%Z.
Definition stepS_from (s : ksum) (w : Z * Z) : Z * Z :=
  let (a, b) := w in let k := snd s in
  (if fst s =? 0 then (a - (k + 1), b - k) else if fst s =? 1 then (k - b, k + 1 - a) else w)%Z.
Definition step_to (u : unit) (w : Z * Z) : Z * Z := stepS_to (usum u) w.
Definition step_from (u : unit) (w : Z * Z) : Z * Z := stepS_from (usum u) w.
Definition wok (w : Z * Z) : bool := ((-1022 <=? fst w) && (snd w <=? 1023))%Z.
Lemma wok_wokZ w : wok w = true -> wokZ (fst w) (snd w).
Proof. unfold wok, wokZ. intros H. apply andb_prop in H. destruct H as [H1 H2]. split; lia. Qed.

Lemma neqb_fin_zero v : fin v -> neqb v nzero = false.
Proof. destruct v as [| | |s m e]; simpl; try contradiction. intros _. destruct s; reflexivity. Qed.

Lemma st_to_base u r i n a b : is_lr u = true -> fin (cnum u) -> st r i n a b -> wok (step_to u (a, b)) = true ->
  st (convert_to_base fl u r) (tbR u i) (S n) (fst (step_to u (a, b))) (snd (step_to u (a, b))).
Proof.
  intros LR Fc S OK. pose proof (lo_win _ Fc) as Wc. fold (klo u) in Wc.
  apply wok_wokZ in OK. revert OK Wc LR Fc.
  unfold convert_to_base, tbR, step_to, stepS_to, usum, is_lr, cnum, klo, cnum, coef_of.
  destruct (u_conv u) as [c|c|t f]; cbn [fst snd a_mul a_div a_lit a_is_zero a_inf fl Z.eqb]; intros OK Wc LR Fc.
  - apply st_mulc; assumption.
  - rewrite (neqb_fin_zero r) by (destruct S; assumption). apply st_rdiv; assumption.
  - discriminate.
Qed.
Lemma st_from_base u r i n a b : is_lr u = true -> fin (cnum u) -> st r i n a b -> wok (step_from u (a, b)) = true ->
  st (convert_from_base fl u r) (fbR u i) (S n) (fst (step_from u (a, b))) (snd (step_from u (a, b))).
Proof.
  intros LR Fc S OK. pose proof (lo_win _ Fc) as Wc. fold (klo u) in Wc.
  apply wok_wokZ in OK. revert OK Wc LR Fc.
  unfold convert_from_base, fbR, step_from, stepS_from, usum, is_lr, cnum, klo, cnum, coef_of.
  destruct (u_conv u) as [c|c|t f]; cbn [fst snd a_mul a_div a_lit a_is_zero a_inf fl Z.eqb]; intros OK Wc LR Fc.
  - apply st_divc; assumption.
  - rewrite (neqb_fin_zero r) by (destruct S; assumption). apply st_rdiv; assumption.
  - discriminate.
Qed.

(* one conversion (through the base unit): decidable range condition and resulting window *)
Definition wokS (w : Z * Z) := wok w.
Definition tbS_win (sa sb : ksum) (w : Z * Z) : Z * Z := stepS_from sb (stepS_to sa w).
Definition tbS_ok (sa sb : ksum) (w : Z * Z) : bool := wok (stepS_to sa w) && wok (tbS_win sa sb w).
Definition tb_win (ua ub : unit) (w : Z * Z) : Z * Z := tbS_win (usum ua) (usum ub) w.
Definition tb_ok (ua ub : unit) (w : Z * Z) : bool := tbS_ok (usum ua) (usum ub) w.

Lemma st_through_base ua ub r i n w :
  is_lr ua = true -> is_lr ub = true -> fin (cnum ua) -> fin (cnum ub) ->
  st r i n (fst w) (snd w) -> tb_ok ua ub w = true ->
  st (through_base fl r ua ub) (fbR ub (tbR ua i)) (S (S n)) (fst (tb_win ua ub w)) (snd (tb_win ua ub w)).
Proof.
  intros La Lb Fa Fb S OK. unfold tb_ok, tbS_ok in OK. apply andb_prop in OK. destruct OK as [O1 O2].
  destruct w as [a b]. cbn [fst snd] in S. fold (step_to ua (a, b)) in O1.
  pose proof (st_to_base ua r i n a b La Fa S O1) as S1.
  unfold through_base, tb_win, tbS_win in *. fold (step_to ua (a, b)) in *. fold (step_from ub (step_to ua (a, b))) in *.
  destruct (step_to ua (a, b)) as [a1 b1] eqn:E1. cbn [fst snd] in S1.
  apply st_from_base; assumption.
Qed.

(* ================================================================ 3. there and back, linear and reciprocal kinds *)
Lemma tbR_neq0 u x : Rv (cnum u) <> 0 -> x <> 0 -> tbR u x <> 0.
Proof.
  intros Nc Nx. unfold tbR. destruct (u_conv u); [| |exact Nx].
  - intros H. apply Rmult_integral in H. tauto.
  - intros H. unfold Rdiv in H. apply Rmult_integral in H. destruct H as [H|H]; [tauto|].
    apply (Rinv_neq_0_compat _ Nx). exact H.
Qed.
Lemma fbR_neq0 u x : Rv (cnum u) <> 0 -> x <> 0 -> fbR u x <> 0.
Proof.
  intros Nc Nx. unfold fbR. destruct (u_conv u); [| |exact Nx].
  - intros H. unfold Rdiv in H. apply Rmult_integral in H. destruct H as [H|H]; [tauto|].
    apply (Rinv_neq_0_compat _ Nc). exact H.
  - intros H. unfold Rdiv in H. apply Rmult_integral in H. destruct H as [H|H]; [tauto|].
    apply (Rinv_neq_0_compat _ Nx). exact H.
Qed.
Lemma fb_tb_cancel u x : Rv (cnum u) <> 0 -> x <> 0 -> fbR u (tbR u x) = x.
Proof. intros Nc Nx. unfold fbR, tbR. destruct (u_conv u); [field; assumption|field; split; assumption|reflexivity]. Qed.
Lemma tb_fb_cancel u x : Rv (cnum u) <> 0 -> x <> 0 -> tbR u (fbR u x) = x.
Proof. intros Nc Nx. unfold fbR, tbR. destruct (u_conv u); [field; assumption|field; split; assumption|reflexivity]. Qed.

Lemma fin_neq0 c : fin c -> Rv c <> 0.
Proof. intros F. apply (win_neq0 _ _ _ (lo_win c F)). Qed.

(* decidable: every intermediate of  v -> B -> A  (four rounded operations) stays in the normal range
   whenever 2^(fst w) <= |v| <= 2^(snd w) *)
Definition tabS_ok (sa sb : ksum) (w : Z * Z) : bool := tbS_ok sa sb w && tbS_ok sb sa (tbS_win sa sb w).
Definition tab_ok (ua ub : unit) (w : Z * Z) : bool := tabS_ok (usum ua) (usum ub) w.

Theorem there_and_back_float_lr : forall ua ub v w,
  is_lr ua = true -> is_lr ub = true -> fin (cnum ua) -> fin (cnum ub) ->
  fin v -> win (fst w) (snd w) (Rv v) -> tab_ok ua ub w = true ->
  let r2 := through_base fl v ua ub in
  let r4 := through_base fl r2 ub ua in
  fin r2 /\ fin r4 /\ Rabs (Rv r4 - Rv v) <= (qq ^ 4 - 1) * Rabs (Rv v).
Proof.
  intros ua ub v w La Lb Fa Fb Fv Wv OK r2 r4.
  apply andb_prop in OK. destruct OK as [O1 O2].
  pose proof (st_through_base ua ub v _ _ w La Lb Fa Fb (st_init v _ _ Fv Wv) O1) as S2. fold r2 in S2.
  pose proof (st_through_base ub ua r2 _ _ _ Lb La Fb Fa S2 O2) as S4. fold r4 in S4.
  pose proof (fin_neq0 _ Fa) as Na. pose proof (fin_neq0 _ Fb) as Nb. pose proof (fin_neq0 _ Fv) as Nv.
  rewrite (tb_fb_cancel ub) in S4 by (try apply tbR_neq0; assumption).
  rewrite (fb_tb_cancel ua) in S4 by assumption.
  destruct S2 as [F2 _]. destruct S4 as [F4 [_ [f [Nf E]]]].
  split; [exact F2|]. split; [exact F4|].
  rewrite E. replace (Rv v * f - Rv v) with ((f - 1) * Rv v) by ring.
  rewrite Rabs_mult. apply Rmult_le_compat_r; [apply Rabs_pos|]. apply near_bound. exact Nf.
Qed.

(* ================================================================ 4. composition A->B->C vs A->C (six roundings) *)
Definition compS_ok (sa sb sc : ksum) (w : Z * Z) : bool :=
  tbS_ok sa sb w && tbS_ok sb sc (tbS_win sa sb w) && tbS_ok sa sc w.
Definition comp_ok (ua ub uc : unit) (w : Z * Z) : bool := compS_ok (usum ua) (usum ub) (usum uc) w.

Theorem composition_float_lr : forall ua ub uc v w,
  is_lr ua = true -> is_lr ub = true -> is_lr uc = true ->
  fin (cnum ua) -> fin (cnum ub) -> fin (cnum uc) ->
  fin v -> win (fst w) (snd w) (Rv v) -> comp_ok ua ub uc w = true ->
  let r_ab := through_base fl v ua ub in
  let r_abc := through_base fl r_ab ub uc in
  let r_ac := through_base fl v ua uc in
  fin r_abc /\ fin r_ac /\ Rabs (Rv r_abc - Rv r_ac) <= (qq ^ 6 - 1) * Rabs (Rv r_ac).
Proof.
  intros ua ub uc v w La Lb Lc Fa Fb Fc Fv Wv OK r_ab r_abc r_ac.
  apply andb_prop in OK. destruct OK as [OK O3]. apply andb_prop in OK. destruct OK as [O1 O2].
  pose proof (st_init v _ _ Fv Wv) as S0.
  pose proof (st_through_base ua ub v _ _ w La Lb Fa Fb S0 O1) as S2. fold r_ab in S2.
  pose proof (st_through_base ub uc r_ab _ _ _ Lb Lc Fb Fc S2 O2) as S4. fold r_abc in S4.
  pose proof (st_through_base ua uc v _ _ w La Lc Fa Fc S0 O3) as S2'. fold r_ac in S2'.
  pose proof (fin_neq0 _ Fa) as Na. pose proof (fin_neq0 _ Fb) as Nb. pose proof (fin_neq0 _ Fv) as Nv.
  rewrite (tb_fb_cancel ub) in S4 by (try apply tbR_neq0; assumption).
  destruct S4 as [F4 [_ [f [Nf E]]]]. destruct S2' as [F2 [_ [g [Ng E']]]].
  split; [exact F4|]. split; [exact F2|].
  pose proof (near_pos _ _ Ng) as Pg.
  rewrite E. replace (fbR uc (tbR ua (Rv v)) * f - Rv r_ac) with ((f * / g - 1) * Rv r_ac) by (rewrite E'; field; lra).
  rewrite Rabs_mult. apply Rmult_le_compat_r; [apply Rabs_pos|]. apply near_bound.
  change 6%nat with (4 + 2)%nat. apply near_mul; [exact Nf|apply near_inv; exact Ng].
Qed.

(* ================================================================ the regenerated table satisfies the range conditions *)
Definition same_cat (a b : unit) : bool := String.eqb (u_cat a) (u_cat b).
Definition Kv : Z := 40.
Definition Kw : Z := 800.
(* an ordered pair of linear/reciprocal units of one category: coefficients are valid finite non-zero
   binary64s and the four-operation chain stays in the normal range for 2^-K <= |v| <= 2^K *)
Definition pair_check (K : Z) (ua ub : unit) : bool :=
  if same_cat ua ub && is_lr ua && is_lr ub
  then finb (cnum ua) && finb (cnum ub) && tab_ok ua ub (- K, K)%Z else true.
(* ordered triples (ub, uc range over the linear/reciprocal units of ua's category) *)
Definition lr_mates (l : list unit) (ua : unit) : list unit := filter (fun x => same_cat ua x && is_lr x) l.
Definition triple_check_on (K : Z) (sa : ksum) (cs : list ksum) : bool :=
  forallb (fun sb => forallb (fun sc => compS_ok sa sb sc (- K, K)%Z) cs) cs.
Definition triple_check (K : Z) (l : list unit) (ua : unit) : bool :=
  if is_lr ua then triple_check_on K (usum ua) (map usum (lr_mates l ua)) else true.

(* exhaustive over the regenerated table (the statements are kept in forallb form: the kernel must not be
   asked to convert a folded name into the computation), for the window asked for (2^-40 .. 2^40) and for a
   much wider one (2^-800 .. 2^800) *)
Lemma table_lr_pairs_ok : forallb (fun ua => forallb (pair_check Kv ua) all_units) all_units = true.
Proof. vm_cast_no_check (eq_refl true). Qed.
Lemma table_lr_triples_ok : forallb (triple_check Kv all_units) all_units = true.
Proof. vm_cast_no_check (eq_refl true). Qed.
Lemma table_lr_pairs_ok_wide : forallb (fun ua => forallb (pair_check Kw ua) all_units) all_units = true.
Proof. vm_cast_no_check (eq_refl true). Qed.
Lemma table_lr_triples_ok_wide : forallb (triple_check Kw all_units) all_units = true.
Proof. vm_cast_no_check (eq_refl true). Qed.

Lemma same_cat_true a b : u_cat a = u_cat b -> same_cat a b = true.
Proof. intros H. unfold same_cat. rewrite H. apply String.eqb_refl. Qed.

Section AnyWindow.
  (* any window exponent K for which the two exhaustive table checks hold *)
  Variable K : Z.
  Hypothesis HP : forallb (fun ua => forallb (pair_check K ua) all_units) all_units = true.
  Hypothesis HT : forallb (triple_check K all_units) all_units = true.

Lemma table_pairK ua ub : In ua all_units -> In ub all_units -> u_cat ua = u_cat ub ->
  is_lr ua = true -> is_lr ub = true ->
  fin (cnum ua) /\ fin (cnum ub) /\ tab_ok ua ub (- K, K)%Z = true.
Proof.
  intros Ia Ib C La Lb. pose proof HP as H.
  rewrite forallb_forall in H. specialize (H ua Ia). rewrite forallb_forall in H. specialize (H ub Ib). unfold pair_check in H.
  rewrite (same_cat_true _ _ C), La, Lb in H. cbn [andb] in H.
  apply andb_prop in H. destruct H as [H H3]. apply andb_prop in H. destruct H as [H1 H2].
  split; [apply finb_fin; exact H1|]. split; [apply finb_fin; exact H2|exact H3].
Qed.
Lemma triple_extract (l : list unit) ua ub uc : forallb (triple_check K l) l = true ->
  In ua l -> In ub l -> In uc l ->
  u_cat ua = u_cat ub -> u_cat ub = u_cat uc ->
  is_lr ua = true -> is_lr ub = true -> is_lr uc = true -> comp_ok ua ub uc (- K, K)%Z = true.
Proof.
  intros H Ia Ib Ic C1 C2 La Lb Lc.
  rewrite forallb_forall in H. specialize (H ua Ia). unfold triple_check, triple_check_on in H. rewrite La in H.
  assert (Mb : In (usum ub) (map usum (lr_mates l ua))).
  { apply in_map. unfold lr_mates. apply filter_In. split; [exact Ib|]. rewrite (same_cat_true _ _ C1), Lb. reflexivity. }
  assert (Mc : In (usum uc) (map usum (lr_mates l ua))).
  { apply in_map. unfold lr_mates. apply filter_In. split; [exact Ic|]. rewrite (same_cat_true ua uc) by congruence. rewrite Lc. reflexivity. }
  rewrite forallb_forall in H. specialize (H _ Mb). rewrite forallb_forall in H. exact (H _ Mc).
Qed.
Lemma table_tripleK ua ub uc : In ua all_units -> In ub all_units -> In uc all_units ->
  u_cat ua = u_cat ub -> u_cat ub = u_cat uc ->
  is_lr ua = true -> is_lr ub = true -> is_lr uc = true -> comp_ok ua ub uc (- K, K)%Z = true.
Proof. exact (triple_extract all_units ua ub uc HT). Qed.

(* no range hypothesis left: any two linear/reciprocal units of one category of the table, any valid v
   with 2^-40 <= |v| <= 2^40 *)
Theorem there_and_back_float_tableK : forall ua ub v,
  In ua all_units -> In ub all_units -> u_cat ua = u_cat ub -> is_lr ua = true -> is_lr ub = true ->
  fin v -> win (- K) K (Rv v) ->
  let r2 := through_base fl v ua ub in
  let r4 := through_base fl r2 ub ua in
  fin r2 /\ fin r4 /\ Rabs (Rv r4 - Rv v) <= (qq ^ 4 - 1) * Rabs (Rv v).
Proof.
  intros ua ub v Ia Ib C La Lb Fv Wv.
  destruct (table_pairK ua ub Ia Ib C La Lb) as [Fa [Fb OK]].
  exact (there_and_back_float_lr ua ub v (- K, K)%Z La Lb Fa Fb Fv Wv OK).
Qed.

Theorem composition_float_tableK : forall ua ub uc v,
  In ua all_units -> In ub all_units -> In uc all_units ->
  u_cat ua = u_cat ub -> u_cat ub = u_cat uc ->
  is_lr ua = true -> is_lr ub = true -> is_lr uc = true ->
  fin v -> win (- K) K (Rv v) ->
  let r_ab := through_base fl v ua ub in
  let r_abc := through_base fl r_ab ub uc in
  let r_ac := through_base fl v ua uc in
  fin r_abc /\ fin r_ac /\ Rabs (Rv r_abc - Rv r_ac) <= (qq ^ 6 - 1) * Rabs (Rv r_ac).
Proof.
  intros ua ub uc v Ia Ib Ic C1 C2 La Lb Lc Fv Wv.
  destruct (table_pairK ua ub Ia Ib C1 La Lb) as [Fa [Fb _]].
  destruct (table_pairK ub uc Ib Ic C2 Lb Lc) as [_ [Fc _]].
  exact (composition_float_lr ua ub uc v (- K, K)%Z La Lb Lc Fa Fb Fc Fv Wv
           (table_tripleK ua ub uc Ia Ib Ic C1 C2 La Lb Lc)).
Qed.

(* ================================================================ 6a. the same at the level of convert / the built-in *)
Lemma same_ids_true a b : same_ids a b = true -> u_ids a = u_ids b.
Proof. unfold same_ids. destruct (list_eq_dec string_dec (u_ids a) (u_ids b)); [auto|discriminate]. Qed.
Lemma same_ids_sym a b : same_ids a b = same_ids b a.
Proof.
  unfold same_ids. destruct (list_eq_dec string_dec (u_ids a) (u_ids b)), (list_eq_dec string_dec (u_ids b) (u_ids a)); congruence.
Qed.
Lemma same_ids_unit a b : In a all_units -> In b all_units -> same_ids a b = true -> a = b.
Proof. intros Ia Ib H. apply same_ids_same_unit; auto. apply same_ids_true. exact H. Qed.

Lemma qq_pow_mono n m : (n <= m)%nat -> qq ^ n <= qq ^ m.
Proof. intros H. apply Rle_pow; [apply qq_ge1|exact H]. Qed.

(* what a user calls: convert(v, a, b) then convert(_, b, a), for ANY two identifiers that resolve to
   linear/reciprocal units of one category (the same unit included: then the result is v itself) *)
Theorem builtin_there_and_back_floatK : forall a b ua ub v,
  resolve_unit a = UOk ua -> resolve_unit b = UOk ub -> u_cat ua = u_cat ub ->
  is_lr ua = true -> is_lr ub = true -> fin v -> win (- K) K (Rv v) ->
  exists r1 r2,
    builtin_convert (ANum v) (AStr a) (AStr b) = UOk r1 /\
    builtin_convert (ANum r1) (AStr b) (AStr a) = UOk r2 /\
    Rabs (Rv r2 - Rv v) <= (qq ^ 4 - 1) * Rabs (Rv v).
Proof.
  intros a b ua ub v Ra Rb C La Lb Fv Wv.
  pose proof (resolve_unit_In _ _ Ra) as Ia. pose proof (resolve_unit_In _ _ Rb) as Ib.
  eexists. eexists. rewrite !builtin_is_convert.
  rewrite (same_category_converts fl v a b ua ub Ra Rb C).
  split; [reflexivity|].
  rewrite (same_category_converts fl _ b a ub ua Rb Ra (eq_sym C)).
  split; [reflexivity|]. rewrite (same_ids_sym ub ua).
  destruct (same_ids ua ub) eqn:E.
  - replace (Rv v - Rv v) with 0 by ring. rewrite Rabs_R0.
    apply Rmult_le_pos; [pose proof (qq_pow_ge1 4); lra|apply Rabs_pos].
  - apply (there_and_back_float_tableK ua ub v Ia Ib C La Lb Fv Wv).
Qed.

Theorem builtin_composition_floatK : forall a b c ua ub uc v,
  resolve_unit a = UOk ua -> resolve_unit b = UOk ub -> resolve_unit c = UOk uc ->
  u_cat ua = u_cat ub -> u_cat ub = u_cat uc ->
  is_lr ua = true -> is_lr ub = true -> is_lr uc = true -> fin v -> win (- K) K (Rv v) ->
  exists r1 r2 r3,
    builtin_convert (ANum v) (AStr a) (AStr b) = UOk r1 /\
    builtin_convert (ANum r1) (AStr b) (AStr c) = UOk r2 /\
    builtin_convert (ANum v) (AStr a) (AStr c) = UOk r3 /\
    Rabs (Rv r2 - Rv r3) <= (qq ^ 6 - 1) * Rabs (Rv r3).
Proof.
  intros a b c ua ub uc v Ra Rb Rc C1 C2 La Lb Lc Fv Wv.
  pose proof (resolve_unit_In _ _ Ra) as Ia. pose proof (resolve_unit_In _ _ Rb) as Ib.
  pose proof (resolve_unit_In _ _ Rc) as Ic.
  assert (C3 : u_cat ua = u_cat uc) by congruence.
  eexists. eexists. eexists. rewrite !builtin_is_convert.
  rewrite (same_category_converts fl v a b ua ub Ra Rb C1).
  split; [reflexivity|].
  rewrite (same_category_converts fl _ b c ub uc Rb Rc C2). split; [reflexivity|].
  rewrite (same_category_converts fl v a c ua uc Ra Rc C3). split; [reflexivity|].
  assert (Z0 : forall x, Rabs (x - x) <= (qq ^ 6 - 1) * Rabs x).
  { intros x. replace (x - x) with 0 by ring. rewrite Rabs_R0.
    apply Rmult_le_pos; [pose proof (qq_pow_ge1 6); lra|apply Rabs_pos]. }
  destruct (same_ids ua ub) eqn:Eab.
  { apply (same_ids_unit _ _ Ia Ib) in Eab. subst ub. apply Z0. }
  destruct (same_ids ub uc) eqn:Ebc.
  { apply (same_ids_unit _ _ Ib Ic) in Ebc. subst uc. rewrite Eab. apply Z0. }
  destruct (same_ids ua uc) eqn:Eac.
  { apply (same_ids_unit _ _ Ia Ic) in Eac. subst uc.
    destruct (there_and_back_float_tableK ua ub v Ia Ib C1 La Lb Fv Wv) as [_ [_ H]].
    eapply Rle_trans; [exact H|]. apply Rmult_le_compat_r; [apply Rabs_pos|].
    pose proof (qq_pow_mono 4 6 ltac:(lia)). lra. }
  apply (composition_float_tableK ua ub uc v Ia Ib Ic C1 C2 La Lb Lc Fv Wv).
Qed.

End AnyWindow.

(* the window asked for: 2^-40 <= |v| <= 2^40 *)
Definition table_pair := table_pairK Kv table_lr_pairs_ok.
Definition table_triple := table_tripleK Kv table_lr_triples_ok.
Definition there_and_back_float_table := there_and_back_float_tableK Kv table_lr_pairs_ok.
Definition composition_float_table := composition_float_tableK Kv table_lr_pairs_ok table_lr_triples_ok.
Definition builtin_there_and_back_float := builtin_there_and_back_floatK Kv table_lr_pairs_ok.
Definition builtin_composition_float := builtin_composition_floatK Kv table_lr_pairs_ok table_lr_triples_ok.
(* and 2^-800 <= |v| <= 2^800 *)
Definition table_pair_wide := table_pairK Kw table_lr_pairs_ok_wide.
Definition table_triple_wide := table_tripleK Kw table_lr_triples_ok_wide.
Definition there_and_back_float_table_wide := there_and_back_float_tableK Kw table_lr_pairs_ok_wide.
Definition composition_float_table_wide := composition_float_tableK Kw table_lr_pairs_ok_wide table_lr_triples_ok_wide.
Definition builtin_composition_float_wide := builtin_composition_floatK Kw table_lr_pairs_ok_wide table_lr_triples_ok_wide.

(* a decidable form of all the hypotheses, for instantiation *)
Definition vwin_b (v : num) : bool := (finb v && (- Kv <=? lo v) && (lo v + 1 <=? Kv))%Z.
Lemma vwin_b_ok v : vwin_b v = true -> fin v /\ win (- Kv) Kv (Rv v).
Proof.
  unfold vwin_b. intros H. apply andb_prop in H. destruct H as [H H3]. apply andb_prop in H. destruct H as [H1 H2].
  apply finb_fin in H1. split; [exact H1|].
  apply Z.leb_le in H2. apply Z.leb_le in H3.
  apply (win_weaken (lo v) (lo v + 1)); [exact H2|exact H3|apply lo_win; exact H1].
Qed.
Definition lr_hyps_b (a b : string) : bool :=
  match resolve_unit a, resolve_unit b with
  | UOk ua, UOk ub => same_cat ua ub && is_lr ua && is_lr ub
  | _, _ => false
  end.
Lemma lr_hyps_b_ok a b : lr_hyps_b a b = true ->
  exists ua ub, resolve_unit a = UOk ua /\ resolve_unit b = UOk ub /\ u_cat ua = u_cat ub /\
                is_lr ua = true /\ is_lr ub = true.
Proof.
  unfold lr_hyps_b. destruct (resolve_unit a) as [ua|]; [|discriminate]. destruct (resolve_unit b) as [ub|]; [|discriminate].
  intros H. apply andb_prop in H. destruct H as [H H3]. apply andb_prop in H. destruct H as [H1 H2].
  exists ua, ub. repeat split; auto. apply String.eqb_eq. exact H1.
Qed.

(* ================================================================ 5. the temperature (affine) kind: absolute error *)
(* rounding error of one operation, no range hypothesis except "no overflow": relative 2^-53 plus, in the
   subnormal range, at most half the smallest subnormal *)
Definition eta : R := / 2 * bpow radix2 (-1074).
Lemma rnd_err z : Rabs (rnd z - z) <= u53 * Rabs z + eta.
Proof.
  destruct (error_N_FLT radix2 (-1074) 53 ltac:(reflexivity) (fun x => negb (Z.even x)) z) as [eps [et [He [Ht [_ E]]]]].
  unfold rnd. rewrite fexp_eq. change (round_mode mode_NE) with ZnearestE. unfold ZnearestE in *. rewrite E.
  replace (z * (1 + eps) + et - z) with (z * eps + et) by ring.
  eapply Rle_trans; [apply Rabs_triang|]. rewrite Rabs_mult.
  apply Rplus_le_compat; [|exact Ht]. rewrite Rmult_comm. apply Rmult_le_compat_r; [apply Rabs_pos|exact He].
Qed.
(* one rounded step on an approximation: xh approximates the ideal x within d, |x| <= M *)
Definition stp (d M : R) : R := d + u53 * (M + d) + eta.
Lemma rnd_step xh x d M : Rabs (xh - x) <= d -> Rabs x <= M -> Rabs (rnd xh - x) <= stp d M.
Proof.
  intros H1 H2. unfold stp.
  replace (rnd xh - x) with ((rnd xh - xh) + (xh - x)) by ring.
  eapply Rle_trans; [apply Rabs_triang|]. pose proof (rnd_err xh) as E.
  assert (Rabs xh <= M + d).
  { replace xh with (x + (xh - x)) by ring. eapply Rle_trans; [apply Rabs_triang|]. lra. }
  pose proof u53_lt1. assert (u53 * Rabs xh <= u53 * (M + d)) by (apply Rmult_le_compat_l; lra). lra.
Qed.

Lemma u53_val : u53 = / 9007199254740992.
Proof. unfold u53. simpl bpow. lra. Qed.

(* the constants of the temperature functions as the binary64s the code holds *)
Definition n273 : num := num_of_bits (l_bits lit_273_15).
Definition n32 : num := num_of_bits (l_bits lit_32).
Definition n5 : num := num_of_bits (l_bits lit_5).
Definition n9 : num := num_of_bits (l_bits lit_9).
Definition c273 : R := 4805305618032230 / 17592186044416.   (* 273.15000000000003..., the double nearest 273.15 *)
Lemma n273_val : Rv n273 = c273.
Proof. unfold Rv, n273, c273. vm_compute num_of_bits. unfold SF2R, F2R. simpl. lra. Qed.
Lemma n32_val : Rv n32 = 32.
Proof. unfold Rv, n32. vm_compute num_of_bits. unfold SF2R, F2R. simpl. lra. Qed.
Lemma n5_val : Rv n5 = 5.
Proof. unfold Rv, n5. vm_compute num_of_bits. unfold SF2R, F2R. simpl. lra. Qed.
Lemma n9_val : Rv n9 = 9.
Proof. unfold Rv, n9. vm_compute num_of_bits. unfold SF2R, F2R. simpl. lra. Qed.
Lemma isB_n273 : isB n273 c273. Proof. rewrite <- n273_val. apply isB_of_valid; reflexivity. Qed.
Lemma isB_n32 : isB n32 32. Proof. rewrite <- n32_val. apply isB_of_valid; reflexivity. Qed.
Lemma isB_n5 : isB n5 5. Proof. rewrite <- n5_val. apply isB_of_valid; reflexivity. Qed.
Lemma isB_n9 : isB n9 9. Proof. rewrite <- n9_val. apply isB_of_valid; reflexivity. Qed.

(* [apx X i d]: X is a finite binary64 whose value is within d of the ideal real i *)
Definition apx (X : num) (i d : R) : Prop := exists r, isB X r /\ Rabs (r - i) <= d.

Lemma apx_mag X i d M : apx X i d -> Rabs i <= M -> exists r, isB X r /\ Rabs (r - i) <= d /\ Rabs r <= M + d.
Proof.
  intros [r [B H]] Hi. exists r. split; [exact B|]. split; [exact H|].
  replace r with (i + (r - i)) by ring. eapply Rle_trans; [apply Rabs_triang|]. lra.
Qed.

Lemma ap_add X i d C cr M : apx X i d -> isB C cr -> Rabs (i + cr) <= M -> M + d <= Tmax ->
  apx (nadd X C) (i + cr) (stp d M).
Proof.
  intros [r [B H]] BC Hi HT. exists (rnd (r + cr)).
  assert (E : Rabs (r + cr - (i + cr)) <= d) by (replace (r + cr - (i + cr)) with (r - i) by ring; exact H).
  split; [|apply rnd_step; assumption].
  apply isB_add; try assumption.
  replace (r + cr) with ((i + cr) + (r + cr - (i + cr))) by ring. eapply Rle_trans; [apply Rabs_triang|]. lra.
Qed.
Lemma ap_sub X i d C cr M : apx X i d -> isB C cr -> Rabs (i - cr) <= M -> M + d <= Tmax ->
  apx (nsub X C) (i - cr) (stp d M).
Proof.
  intros [r [B H]] BC Hi HT. exists (rnd (r - cr)).
  assert (E : Rabs (r - cr - (i - cr)) <= d) by (replace (r - cr - (i - cr)) with (r - i) by ring; exact H).
  split; [|apply rnd_step; assumption].
  apply isB_sub; try assumption.
  replace (r - cr) with ((i - cr) + (r - cr - (i - cr))) by ring. eapply Rle_trans; [apply Rabs_triang|]. lra.
Qed.
Lemma ap_mul X i d C cr M : apx X i d -> isB C cr -> 0 < cr -> Rabs (i * cr) <= M -> M + d * cr <= Tmax ->
  apx (nmul X C) (i * cr) (stp (d * cr) M).
Proof.
  intros [r [B H]] BC Pc Hi HT. exists (rnd (r * cr)).
  assert (E : Rabs (r * cr - i * cr) <= d * cr).
  { replace (r * cr - i * cr) with ((r - i) * cr) by ring. rewrite Rabs_mult, (Rabs_pos_eq cr) by lra.
    apply Rmult_le_compat_r; lra. }
  split; [|apply rnd_step; assumption].
  apply isB_mul; try assumption.
  replace (r * cr) with ((i * cr) + (r * cr - i * cr)) by ring. eapply Rle_trans; [apply Rabs_triang|]. lra.
Qed.
Lemma ap_div X i d C cr M : apx X i d -> isB C cr -> 0 < cr -> Rabs (i / cr) <= M -> M + d / cr <= Tmax ->
  apx (ndiv X C) (i / cr) (stp (d / cr) M).
Proof.
  intros [r [B H]] BC Pc Hi HT. exists (rnd (r / cr)).
  assert (E : Rabs (r / cr - i / cr) <= d / cr).
  { replace (r / cr - i / cr) with ((r - i) * / cr) by (field; lra).
    assert (0 < / cr) by (apply Rinv_0_lt_compat; lra).
    rewrite Rabs_mult, (Rabs_pos_eq (/ cr)) by lra. apply Rmult_le_compat_r; lra. }
  split; [|apply rnd_step; assumption].
  apply isB_div; try assumption; [lra|].
  replace (r / cr) with ((i / cr) + (r / cr - i / cr)) by ring. eapply Rle_trans; [apply Rabs_triang|]. lra.
Qed.

Lemma eta_small : 0 <= eta <= / 1267650600228229401496703205376.
Proof.
  unfold eta. pose proof (bpow_gt_0 radix2 (-1074)).
  assert (bpow radix2 (-1074) <= bpow radix2 (-100)) by (apply bpow_le; discriminate).
  simpl (bpow radix2 (-100)) in *. lra.
Qed.

(* the ideal (real-number) temperature functions, with the offset the code holds *)
Definition TFid (f : tempfn) (x : R) : R :=
  match f with
  | TF_celsius_to_kelvin => x + c273
  | TF_kelvin_to_celsius => x - c273
  | TF_fahrenheit_to_kelvin => (x - 32) * 5 / 9 + c273
  | TF_kelvin_to_fahrenheit => (x - c273) * 9 / 5 + 32
  | TF_kelvin_to_kelvin => x
  end.
(* |x| <= M -> |TFid f x| <= TFM f M *)
Definition TFM (f : tempfn) (M : R) : R :=
  match f with
  | TF_celsius_to_kelvin | TF_kelvin_to_celsius => M + c273
  | TF_fahrenheit_to_kelvin => (M + 32) * 5 / 9 + c273
  | TF_kelvin_to_fahrenheit => (M + c273) * 9 / 5 + 32
  | TF_kelvin_to_kelvin => M
  end.
(* error after the function: input within d of an ideal of magnitude <= M, ideal output of magnitude <= Mo *)
Definition TFd (f : tempfn) (d M Mo : R) : R :=
  match f with
  | TF_celsius_to_kelvin | TF_kelvin_to_celsius => stp d Mo
  | TF_fahrenheit_to_kelvin =>
      stp (stp (stp (stp d (M + 32) * 5) ((M + 32) * 5) / 9) ((M + 32) * 5 / 9)) Mo
  | TF_kelvin_to_fahrenheit =>
      stp (stp (stp (stp d (M + c273) * 9) ((M + c273) * 9) / 5) ((M + c273) * 9 / 5)) Mo
  | TF_kelvin_to_kelvin => d
  end.

Ltac absle :=
  repeat match goal with H : Rabs _ <= _ |- _ => apply Rabs_le_inv in H end;
  apply Rabs_le; unfold c273 in *; split; lra.

Lemma TFM_ok f x M : Rabs x <= M -> Rabs (TFid f x) <= TFM f M.
Proof. intros H. destruct f; unfold TFid, TFM; absle. Qed.

Lemma c273_bounds : 273 <= c273 <= 274.
Proof. unfold c273. lra. Qed.

Lemma tf_spec f X x d M Mo : apx X x d -> Rabs x <= M -> Rabs (TFid f x) <= Mo -> 0 <= d ->
  Mo + 64 * (M + d) + 16384 <= Tmax ->
  apx (tempfn_apply fl f X) (TFid f x) (TFd f d M Mo).
Proof.
  intros HX Hx Ho Hd HT.
  pose proof eta_small as He. pose proof c273_bounds as Hc.
  assert (HM : 0 <= M) by (pose proof (Rabs_pos x); lra).
  assert (HMo : 0 <= Mo) by (pose proof (Rabs_pos (TFid f x)); lra).
  destruct f; unfold TFid, TFd in *; cbn [tempfn_apply a_add a_sub a_mul a_div a_lit fl];
    fold n273 n32 n5 n9.
  - apply ap_add; auto using isB_n273. lra.
  - apply ap_sub; auto using isB_n273. lra.
  - assert (H1 : Rabs (x - 32) <= M + 32) by absle.
    assert (H2 : Rabs ((x - 32) * 5) <= (M + 32) * 5) by absle.
    assert (H3 : Rabs ((x - 32) * 5 / 9) <= (M + 32) * 5 / 9) by absle.
    assert (A1 : apx (nsub X n32) (x - 32) (stp d (M + 32))).
    { apply ap_sub; auto using isB_n32. lra. }
    assert (A2 : apx (nmul (nsub X n32) n5) ((x - 32) * 5) (stp (stp d (M + 32) * 5) ((M + 32) * 5))).
    { apply ap_mul; auto using isB_n5; [lra|]. unfold stp. rewrite u53_val. lra. }
    assert (A3 : apx (ndiv (nmul (nsub X n32) n5) n9) ((x - 32) * 5 / 9)
                     (stp (stp (stp d (M + 32) * 5) ((M + 32) * 5) / 9) ((M + 32) * 5 / 9))).
    { apply ap_div; auto using isB_n9; [lra|]. unfold stp. rewrite u53_val. lra. }
    apply ap_add; auto using isB_n273. unfold stp. rewrite u53_val. lra.
  - assert (H1 : Rabs (x - c273) <= M + c273) by absle.
    assert (H2 : Rabs ((x - c273) * 9) <= (M + c273) * 9) by absle.
    assert (H3 : Rabs ((x - c273) * 9 / 5) <= (M + c273) * 9 / 5) by absle.
    assert (A1 : apx (nsub X n273) (x - c273) (stp d (M + c273))).
    { apply ap_sub; auto using isB_n273. lra. }
    assert (A2 : apx (nmul (nsub X n273) n9) ((x - c273) * 9) (stp (stp d (M + c273) * 9) ((M + c273) * 9))).
    { apply ap_mul; auto using isB_n9; [lra|]. unfold stp. rewrite u53_val. lra. }
    assert (A3 : apx (ndiv (nmul (nsub X n273) n9) n5) ((x - c273) * 9 / 5)
                     (stp (stp (stp d (M + c273) * 9) ((M + c273) * 9) / 5) ((M + c273) * 9 / 5))).
    { apply ap_div; auto using isB_n5; [lra|]. unfold stp. rewrite u53_val. lra. }
    apply ap_add; auto using isB_n32. unfold stp. rewrite u53_val. lra.
  - exact HX.
Qed.

Lemma TF_inv1 t f x : inverse_pair t f = true -> TFid f (TFid t x) = x.
Proof. destruct t, f; try discriminate; intros _; unfold TFid; field. Qed.
Lemma TF_inv2 t f x : inverse_pair t f = true -> TFid t (TFid f x) = x.
Proof. destruct t, f; try discriminate; intros _; unfold TFid; field. Qed.

(* the proved absolute bound, by the to_kelvin functions of the two units:
   |there-and-back - v| <= 2^-53 * (1 + 1/1024) * (A * |v| + B) *)
Definition temp_AZ (ta tb : tempfn) : Z :=
  match ta, tb with
  | TF_kelvin_to_kelvin, TF_kelvin_to_kelvin => 0
  | TF_kelvin_to_kelvin, TF_celsius_to_kelvin | TF_celsius_to_kelvin, TF_kelvin_to_kelvin => 2
  | TF_kelvin_to_kelvin, TF_fahrenheit_to_kelvin | TF_fahrenheit_to_kelvin, TF_kelvin_to_kelvin => 8
  | TF_celsius_to_kelvin, TF_celsius_to_kelvin => 4
  | TF_celsius_to_kelvin, TF_fahrenheit_to_kelvin | TF_fahrenheit_to_kelvin, TF_celsius_to_kelvin => 10
  | TF_fahrenheit_to_kelvin, TF_fahrenheit_to_kelvin => 16
  | _, _ => 0
  end%Z.
Definition temp_A (ta tb : tempfn) : R := IZR (temp_AZ ta tb).
Definition temp_BZ (ta tb : tempfn) : Z :=
  match ta, tb with
  | TF_kelvin_to_kelvin, TF_kelvin_to_kelvin => 0
  | TF_kelvin_to_kelvin, TF_celsius_to_kelvin | TF_celsius_to_kelvin, TF_kelvin_to_kelvin => 274
  | TF_kelvin_to_kelvin, TF_fahrenheit_to_kelvin => 2037
  | TF_fahrenheit_to_kelvin, TF_kelvin_to_kelvin => 3666
  | TF_celsius_to_kelvin, TF_celsius_to_kelvin => 1093
  | TF_celsius_to_kelvin, TF_fahrenheit_to_kelvin => 4495
  | TF_fahrenheit_to_kelvin, TF_celsius_to_kelvin => 5205
  | TF_fahrenheit_to_kelvin, TF_fahrenheit_to_kelvin => 11521
  | _, _ => 0
  end%Z.
Definition temp_B (ta tb : tempfn) : R := IZR (temp_BZ ta tb).
Definition temp_bound (ta tb : tempfn) (a : R) : R := u53 * (1 + / 1024) * (temp_A ta tb * a + temp_B ta tb).

Lemma apx_weaken X i d d' : apx X i d -> d <= d' -> apx X i d'.
Proof. intros [r [B H]] L. exists r. split; [exact B|lra]. Qed.

Lemma temp_chain ta fa tb fb X v :
  isB X v -> inverse_pair ta fa = true -> inverse_pair tb fb = true -> Rabs v <= bpow radix2 1000 ->
  apx (tempfn_apply fl fa (tempfn_apply fl tb (tempfn_apply fl fb (tempfn_apply fl ta X)))) v
      (temp_bound ta tb (Rabs v)).
Proof.
  intros HX Ia Ib Hv.
  set (a := Rabs v) in *.
  assert (Ha : 0 <= a) by apply Rabs_pos.
  pose proof eta_small as He.
  assert (HT : Tmax = bpow radix2 1000 * 8388608).
  { unfold Tmax. change 1023%Z with (1000 + 23)%Z. rewrite bpow_plus. f_equal; simpl; try reflexivity; lra. }
  assert (HV : 1267650600228229401496703205376 <= bpow radix2 1000).
  { assert (bpow radix2 100 <= bpow radix2 1000) by (apply bpow_le; discriminate).
    simpl (bpow radix2 100) in *. lra. }
  set (V := bpow radix2 1000) in *.
  remember (TFM ta a) as M1 eqn:EM1. remember (TFM fb M1) as M2 eqn:EM2.
  assert (P1 : Rabs (TFid ta v) <= M1) by (subst M1; apply TFM_ok; apply Rle_refl).
  assert (P2 : Rabs (TFid fb (TFid ta v)) <= M2) by (subst M2; apply TFM_ok; exact P1).
  assert (P3 : Rabs (TFid tb (TFid fb (TFid ta v))) <= M1) by (rewrite (TF_inv2 tb fb) by exact Ib; exact P1).
  assert (P4 : Rabs (TFid fa (TFid tb (TFid fb (TFid ta v)))) <= a).
  { rewrite (TF_inv2 tb fb) by exact Ib. rewrite (TF_inv1 ta fa) by exact Ia. apply Rle_refl. }
  remember (TFd ta 0 a M1) as d1 eqn:E1. remember (TFd fb d1 M1 M2) as d2 eqn:E2.
  remember (TFd tb d2 M2 M1) as d3 eqn:E3.
  assert (N : 0 <= d1 /\ 0 <= d2 /\ 0 <= d3 /\
              M1 + 64 * (a + 0) + 16384 <= Tmax /\ M2 + 64 * (M1 + d1) + 16384 <= Tmax /\
              M1 + 64 * (M2 + d2) + 16384 <= Tmax /\ a + 64 * (M1 + d3) + 16384 <= Tmax /\
              TFd fa d3 M1 a <= temp_bound ta tb a).
  { clear P1 P2 P3 P4 HX.
    destruct ta, fa; try discriminate Ia; destruct tb, fb; try discriminate Ib;
      unfold TFd, TFM, temp_bound, temp_A, temp_B, temp_AZ, temp_BZ, stp in *; rewrite ?u53_val in *; unfold c273 in *;
      (repeat split); lra. }
  destruct N as [N1 [N2 [N3 [S1 [S2 [S3 [S4 NB]]]]]]].
  assert (A0 : apx X v 0).
  { exists v. split; [exact HX|]. replace (v - v) with 0 by ring. rewrite Rabs_R0. lra. }
  pose proof (tf_spec ta X v 0 a M1 A0 (Rle_refl a) P1 (Rle_refl 0) S1) as T1. rewrite <- E1 in T1.
  pose proof (tf_spec fb _ _ d1 M1 M2 T1 P1 P2 N1 S2) as T2. rewrite <- E2 in T2.
  pose proof (tf_spec tb _ _ d2 M2 M1 T2 P2 P3 N2 S3) as T3. rewrite <- E3 in T3.
  pose proof (tf_spec fa _ _ d3 M1 a T3 P3 P4 N3 S4) as T4.
  rewrite (TF_inv2 tb fb) in T4 by exact Ib. rewrite (TF_inv1 ta fa) in T4 by exact Ia.
  exact (apx_weaken _ _ _ _ T4 NB).
Qed.

(* valid and finite (zero allowed) *)
Definition finz (x : num) : Prop := valid_binary 53 1024 x = true /\ is_finite_SF x = true.
Lemma fin_finz x : fin x -> finz x.
Proof. destruct x; simpl; try contradiction. intros H. split; [exact H|reflexivity]. Qed.

Lemma temp_bound_nonneg ta tb a : 0 <= a -> 0 <= temp_bound ta tb a.
Proof.
  intros Ha. unfold temp_bound. pose proof u53_lt1.
  assert (0 <= temp_A ta tb) by (destruct ta, tb; unfold temp_A, temp_AZ; lra).
  assert (0 <= temp_B ta tb) by (destruct ta, tb; unfold temp_B, temp_BZ; lra).
  apply Rmult_le_pos; [apply Rmult_le_pos; lra|]. apply Rplus_le_le_0_compat; [apply Rmult_le_pos|]; assumption.
Qed.

(* binary64, two temperature units A and B: v -> B -> A returns v up to an ABSOLUTE error proportional to
   2^-53 * max-ish(|v|, offsets): relative error is meaningless near the offsets (v = -273.15 C is 0 K) *)
Theorem there_and_back_float_temperature : forall ua ub ta fa tb fb v,
  u_conv ua = Temperature ta fa -> u_conv ub = Temperature tb fb ->
  inverse_pair ta fa = true -> inverse_pair tb fb = true ->
  finz v -> Rabs (Rv v) <= bpow radix2 1000 ->
  let r2 := through_base fl v ua ub in
  let r4 := through_base fl r2 ub ua in
  finz r4 /\ Rabs (Rv r4 - Rv v) <= temp_bound ta tb (Rabs (Rv v)).
Proof.
  intros ua ub ta fa tb fb v Ca Cb Ia Ib [Vv Fv] Hv r2 r4.
  pose proof (temp_chain ta fa tb fb v (Rv v) (isB_of_valid v Vv Fv) Ia Ib Hv) as [r [B H]].
  assert (E : r4 = tempfn_apply fl fa (tempfn_apply fl tb (tempfn_apply fl fb (tempfn_apply fl ta v)))).
  { unfold r4, r2, through_base, convert_from_base, convert_to_base. rewrite Ca, Cb. reflexivity. }
  rewrite E. split; [exact (isB_valid _ _ B)|]. rewrite (isB_Rv _ _ B). exact H.
Qed.

Lemma table_inverse_pair u t f : In u all_units -> u_conv u = Temperature t f -> inverse_pair t f = true.
Proof. intros I C. pose proof (table_wellformed u I) as W. unfold unit_wf in W. rewrite C in W. exact W. Qed.

(* no category of the table mixes the temperature kind with the other two (exhaustive) *)
Lemma table_kinds_uniform_ok :
  forallb (fun ua => forallb (fun ub => if same_cat ua ub then Bool.eqb (is_lr ua) (is_lr ub) else true) all_units) all_units = true.
Proof. vm_cast_no_check (eq_refl true). Qed.
Lemma table_kinds_uniform ua ub : In ua all_units -> In ub all_units -> u_cat ua = u_cat ub -> is_lr ua = is_lr ub.
Proof.
  intros Ia Ib C. pose proof table_kinds_uniform_ok as H.
  rewrite forallb_forall in H. specialize (H ua Ia). rewrite forallb_forall in H. specialize (H ub Ib).
  rewrite (same_cat_true _ _ C) in H. apply Bool.eqb_prop. exact H.
Qed.

(* the bound for a pair of units, by kind *)
Definition tab_bound (ua ub : unit) (a : R) : R :=
  match u_conv ua, u_conv ub with
  | Temperature ta _, Temperature tb _ => temp_bound ta tb a
  | _, _ => (qq ^ 4 - 1) * a
  end.

Section AnyWindowAllKinds.
  Variable K : Z.
  Hypothesis HK : (K <= 1000)%Z.
  Hypothesis HP : forallb (fun ua => forallb (pair_check K ua) all_units) all_units = true.

(* ---- what a user calls, every kind: convert(v, a, b) then convert(_, b, a) for ANY two identifiers that
   resolve to units of one category, any valid v with 2^-40 <= |v| <= 2^40 *)
Theorem builtin_there_and_back_all_kindsK : forall a b ua ub v,
  resolve_unit a = UOk ua -> resolve_unit b = UOk ub -> u_cat ua = u_cat ub ->
  fin v -> win (- K) K (Rv v) ->
  exists r1 r2,
    builtin_convert (ANum v) (AStr a) (AStr b) = UOk r1 /\
    builtin_convert (ANum r1) (AStr b) (AStr a) = UOk r2 /\
    Rabs (Rv r2 - Rv v) <= tab_bound ua ub (Rabs (Rv v)).
Proof.
  intros a b ua ub v Ra Rb C Fv Wv.
  pose proof (resolve_unit_In _ _ Ra) as Ia. pose proof (resolve_unit_In _ _ Rb) as Ib.
  pose proof (table_kinds_uniform ua ub Ia Ib C) as KU.
  destruct (is_lr ua) eqn:La.
  - symmetry in KU.
    destruct (builtin_there_and_back_floatK K HP a b ua ub v Ra Rb C La KU Fv Wv) as [r1 [r2 [H1 [H2 H3]]]].
    exists r1, r2. split; [exact H1|]. split; [exact H2|].
    unfold tab_bound. unfold is_lr in La, KU.
    destruct (u_conv ua); try discriminate La; destruct (u_conv ub); try discriminate KU; exact H3.
  - symmetry in KU. unfold is_lr in La, KU. unfold tab_bound.
    destruct (u_conv ua) as [| |ta fa] eqn:Ca; try discriminate La.
    destruct (u_conv ub) as [| |tb fb] eqn:Cb; try discriminate KU.
    assert (Hv : Rabs (Rv v) <= bpow radix2 1000).
    { destruct Wv as [_ W]. eapply Rle_trans; [exact W|apply bpow_le; exact HK]. }
    eexists. eexists. rewrite !builtin_is_convert.
    rewrite (same_category_converts fl v a b ua ub Ra Rb C). split; [reflexivity|].
    rewrite (same_category_converts fl _ b a ub ua Rb Ra (eq_sym C)). split; [reflexivity|].
    rewrite (same_ids_sym ub ua).
    destruct (same_ids ua ub) eqn:E.
    + replace (Rv v - Rv v) with 0 by ring. rewrite Rabs_R0. apply temp_bound_nonneg. apply Rabs_pos.
    + apply (there_and_back_float_temperature ua ub ta fa tb fb v Ca Cb
               (table_inverse_pair _ _ _ Ia Ca) (table_inverse_pair _ _ _ Ib Cb) (fin_finz _ Fv) Hv).
Qed.

End AnyWindowAllKinds.
Definition builtin_there_and_back_all_kinds :=
  builtin_there_and_back_all_kindsK Kv ltac:(discriminate) table_lr_pairs_ok.
Definition builtin_there_and_back_all_kinds_wide :=
  builtin_there_and_back_all_kindsK Kw ltac:(discriminate) table_lr_pairs_ok_wide.

(* temperature only, on the full range (zero and the offsets included) *)
Theorem builtin_there_and_back_temperature : forall a b ua ub ta fa tb fb v,
  resolve_unit a = UOk ua -> resolve_unit b = UOk ub -> u_cat ua = u_cat ub ->
  u_conv ua = Temperature ta fa -> u_conv ub = Temperature tb fb ->
  finz v -> Rabs (Rv v) <= bpow radix2 1000 ->
  exists r1 r2,
    builtin_convert (ANum v) (AStr a) (AStr b) = UOk r1 /\
    builtin_convert (ANum r1) (AStr b) (AStr a) = UOk r2 /\
    Rabs (Rv r2 - Rv v) <= temp_bound ta tb (Rabs (Rv v)).
Proof.
  intros a b ua ub ta fa tb fb v Ra Rb C Ca Cb Fv Hv.
  pose proof (resolve_unit_In _ _ Ra) as Ia. pose proof (resolve_unit_In _ _ Rb) as Ib.
  eexists. eexists. rewrite !builtin_is_convert.
  rewrite (same_category_converts fl v a b ua ub Ra Rb C). split; [reflexivity|].
  rewrite (same_category_converts fl _ b a ub ua Rb Ra (eq_sym C)). split; [reflexivity|].
  rewrite (same_ids_sym ub ua).
  destruct (same_ids ua ub) eqn:E.
  - replace (Rv v - Rv v) with 0 by ring. rewrite Rabs_R0. apply temp_bound_nonneg. apply Rabs_pos.
  - apply (there_and_back_float_temperature ua ub ta fa tb fb v Ca Cb
             (table_inverse_pair _ _ _ Ia Ca) (table_inverse_pair _ _ _ Ib Cb) Fv Hv).
Qed.

(* ================================================================ the range hypotheses of UnitsFloat.there_and_back_float_linear
   follow from the decidable condition, so that theorem (four factors (1+e), |e| <= 2^-53) holds for every pair of
   linear units of one category of the table and every valid v with 2^-40 <= |v| <= 2^40 *)
Lemma linear_in_ranges ua ub la lb v w :
  u_conv ua = Linear la -> u_conv ub = Linear lb ->
  let ca := num_of_bits (l_bits la) in
  let cb := num_of_bits (l_bits lb) in
  fin ca -> fin cb -> fin v -> win (fst w) (snd w) (Rv v) -> tab_ok ua ub w = true ->
  let r1 := nmul v ca in
  let r2 := through_base fl v ua ub in
  let r3 := nmul r2 cb in
  in_range (Rv v * Rv ca) /\ in_range (Rv r1 / Rv cb) /\ in_range (Rv r2 * Rv cb) /\ in_range (Rv r3 / Rv ca).
Proof.
  intros Ha Hb ca cb Fa Fb Fv Wv OK r1 r2 r3. destruct w as [a b]. cbn [fst snd] in Wv.
  assert (Ka : klo ua = lo ca) by (unfold klo, cnum, coef_of; rewrite Ha; reflexivity).
  assert (Kb : klo ub = lo cb) by (unfold klo, cnum, coef_of; rewrite Hb; reflexivity).
  unfold tab_ok, tabS_ok, tbS_ok, tbS_win, stepS_to, stepS_from, usum in OK. rewrite Ha, Hb, Ka, Kb in OK.
  cbn [fst snd Z.eqb] in OK.
  apply andb_prop in OK. destruct OK as [OK O34]. apply andb_prop in OK. destruct OK as [O1 O2].
  apply andb_prop in O34. destruct O34 as [O3 O4].
  apply wok_wokZ in O1, O2, O3, O4. cbn [fst snd] in O1, O2, O3, O4.
  pose proof (lo_win _ Fa) as Wa. pose proof (lo_win _ Fb) as Wb.
  pose proof (st_init v a b Fv Wv) as S0.
  pose proof (st_mulc v _ _ a b ca (lo ca) S0 Fa Wa O1) as S1. fold r1 in S1.
  pose proof (st_divc r1 _ _ _ _ cb (lo cb) S1 Fb Wb O2) as S2.
  assert (E2 : r2 = ndiv r1 cb).
  { unfold r2, through_base, convert_from_base, convert_to_base. rewrite Ha, Hb. reflexivity. }
  rewrite <- E2 in S2.
  pose proof (st_mulc r2 _ _ _ _ cb (lo cb) S2 Fb Wb O3) as S3. fold r3 in S3.
  destruct S1 as [_ [W1 _]]. destruct S2 as [_ [W2 _]]. destruct S3 as [_ [W3 _]].
  split; [apply (win_in_range _ _ _ O1); apply win_mul; assumption|].
  split; [apply (win_in_range _ _ _ O2); apply win_div; assumption|].
  split; [apply (win_in_range _ _ _ O3); apply win_mul; assumption|].
  apply (win_in_range _ _ _ O4); apply win_div; assumption.
Qed.

Section AnyWindowLinear.
  Variable K : Z.
  Hypothesis HP : forallb (fun ua => forallb (pair_check K ua) all_units) all_units = true.
Theorem there_and_back_float_linear_tableK : forall ua ub la lb v,
  In ua all_units -> In ub all_units -> u_cat ua = u_cat ub ->
  u_conv ua = Linear la -> u_conv ub = Linear lb ->
  fin v -> win (- K) K (Rv v) ->
  let r2 := through_base fl v ua ub in
  let r4 := through_base fl r2 ub ua in
  exists e1 e2 e3 e4,
    Rabs e1 <= u53 /\ Rabs e2 <= u53 /\ Rabs e3 <= u53 /\ Rabs e4 <= u53 /\
    Rv r4 = Rv v * ((1 + e1) * (1 + e2) * (1 + e3) * (1 + e4)) /\
    Rabs (Rv r4 - Rv v) <= ((1 + u53) * (1 + u53) * (1 + u53) * (1 + u53) - 1) * Rabs (Rv v).
Proof.
  intros ua ub la lb v Ia Ib C Ha Hb Fv Wv.
  assert (La : is_lr ua = true) by (unfold is_lr; rewrite Ha; reflexivity).
  assert (Lb : is_lr ub = true) by (unfold is_lr; rewrite Hb; reflexivity).
  destruct (table_pairK K HP ua ub Ia Ib C La Lb) as [Fa [Fb OK]].
  assert (Ea : cnum ua = num_of_bits (l_bits la)) by (unfold cnum, coef_of; rewrite Ha; reflexivity).
  assert (Eb : cnum ub = num_of_bits (l_bits lb)) by (unfold cnum, coef_of; rewrite Hb; reflexivity).
  rewrite Ea in Fa. rewrite Eb in Fb.
  destruct (linear_in_ranges ua ub la lb v (- K, K)%Z Ha Hb Fa Fb Fv Wv OK) as [R1 [R2 [R3 R4]]].
  exact (there_and_back_float_linear ua ub la lb v Ha Hb Fv Fa Fb R1 R2 R3 R4).
Qed.
End AnyWindowLinear.
Definition there_and_back_float_linear_table := there_and_back_float_linear_tableK Kv table_lr_pairs_ok.
Definition there_and_back_float_linear_table_wide := there_and_back_float_linear_tableK Kw table_lr_pairs_ok_wide.


(* ================================================================ 5b. composition for the temperature kind:
   fl(A->B->C) and fl(A->C) both approximate the same ideal value; the bound is the sum of the two accumulated errors.
   [tcomp_bound ta tb tc a] = 2^-53 * (1 + 1/1024) * (A * a + B), (A, B) by the to_kelvin functions of A, B, C *)
Definition tcomp_AZ (ta tb tc : tempfn) : Z :=
  match ta, tb, tc with
  | TF_kelvin_to_kelvin, TF_kelvin_to_kelvin, TF_kelvin_to_kelvin => 0
  | TF_kelvin_to_kelvin, TF_kelvin_to_kelvin, TF_celsius_to_kelvin => 2
  | TF_kelvin_to_kelvin, TF_kelvin_to_kelvin, TF_fahrenheit_to_kelvin => 15
  | TF_kelvin_to_kelvin, TF_celsius_to_kelvin, TF_kelvin_to_kelvin => 2
  | TF_kelvin_to_kelvin, TF_celsius_to_kelvin, TF_celsius_to_kelvin => 4
  | TF_kelvin_to_kelvin, TF_celsius_to_kelvin, TF_fahrenheit_to_kelvin => 18
  | TF_kelvin_to_kelvin, TF_fahrenheit_to_kelvin, TF_kelvin_to_kelvin => 8
  | TF_kelvin_to_kelvin, TF_fahrenheit_to_kelvin, TF_celsius_to_kelvin => 10
  | TF_kelvin_to_kelvin, TF_fahrenheit_to_kelvin, TF_fahrenheit_to_kelvin => 29
  | TF_celsius_to_kelvin, TF_kelvin_to_kelvin, TF_kelvin_to_kelvin => 2
  | TF_celsius_to_kelvin, TF_kelvin_to_kelvin, TF_celsius_to_kelvin => 4
  | TF_celsius_to_kelvin, TF_kelvin_to_kelvin, TF_fahrenheit_to_kelvin => 18
  | TF_celsius_to_kelvin, TF_celsius_to_kelvin, TF_kelvin_to_kelvin => 4
  | TF_celsius_to_kelvin, TF_celsius_to_kelvin, TF_celsius_to_kelvin => 6
  | TF_celsius_to_kelvin, TF_celsius_to_kelvin, TF_fahrenheit_to_kelvin => 22
  | TF_celsius_to_kelvin, TF_fahrenheit_to_kelvin, TF_kelvin_to_kelvin => 10
  | TF_celsius_to_kelvin, TF_fahrenheit_to_kelvin, TF_celsius_to_kelvin => 12
  | TF_celsius_to_kelvin, TF_fahrenheit_to_kelvin, TF_fahrenheit_to_kelvin => 33
  | TF_fahrenheit_to_kelvin, TF_kelvin_to_kelvin, TF_kelvin_to_kelvin => 5
  | TF_fahrenheit_to_kelvin, TF_kelvin_to_kelvin, TF_celsius_to_kelvin => 6
  | TF_fahrenheit_to_kelvin, TF_kelvin_to_kelvin, TF_fahrenheit_to_kelvin => 16
  | TF_fahrenheit_to_kelvin, TF_celsius_to_kelvin, TF_kelvin_to_kelvin => 6
  | TF_fahrenheit_to_kelvin, TF_celsius_to_kelvin, TF_celsius_to_kelvin => 7
  | TF_fahrenheit_to_kelvin, TF_celsius_to_kelvin, TF_fahrenheit_to_kelvin => 18
  | TF_fahrenheit_to_kelvin, TF_fahrenheit_to_kelvin, TF_kelvin_to_kelvin => 9
  | TF_fahrenheit_to_kelvin, TF_fahrenheit_to_kelvin, TF_celsius_to_kelvin => 10
  | TF_fahrenheit_to_kelvin, TF_fahrenheit_to_kelvin, TF_fahrenheit_to_kelvin => 24
  | _, _, _ => 0
  end%Z.
Definition tcomp_A (ta tb tc : tempfn) : R := IZR (tcomp_AZ ta tb tc).
Definition tcomp_BZ (ta tb tc : tempfn) : Z :=
  match ta, tb, tc with
  | TF_kelvin_to_kelvin, TF_kelvin_to_kelvin, TF_kelvin_to_kelvin => 1
  | TF_kelvin_to_kelvin, TF_kelvin_to_kelvin, TF_celsius_to_kelvin => 547
  | TF_kelvin_to_kelvin, TF_kelvin_to_kelvin, TF_fahrenheit_to_kelvin => 3998
  | TF_kelvin_to_kelvin, TF_celsius_to_kelvin, TF_kelvin_to_kelvin => 274
  | TF_kelvin_to_kelvin, TF_celsius_to_kelvin, TF_celsius_to_kelvin => 820
  | TF_kelvin_to_kelvin, TF_celsius_to_kelvin, TF_fahrenheit_to_kelvin => 4490
  | TF_kelvin_to_kelvin, TF_fahrenheit_to_kelvin, TF_kelvin_to_kelvin => 2037
  | TF_kelvin_to_kelvin, TF_fahrenheit_to_kelvin, TF_celsius_to_kelvin => 2584
  | TF_kelvin_to_kelvin, TF_fahrenheit_to_kelvin, TF_fahrenheit_to_kelvin => 7664
  | TF_celsius_to_kelvin, TF_kelvin_to_kelvin, TF_kelvin_to_kelvin => 547
  | TF_celsius_to_kelvin, TF_kelvin_to_kelvin, TF_celsius_to_kelvin => 1640
  | TF_celsius_to_kelvin, TF_kelvin_to_kelvin, TF_fahrenheit_to_kelvin => 8915
  | TF_celsius_to_kelvin, TF_celsius_to_kelvin, TF_kelvin_to_kelvin => 1367
  | TF_celsius_to_kelvin, TF_celsius_to_kelvin, TF_celsius_to_kelvin => 2459
  | TF_celsius_to_kelvin, TF_celsius_to_kelvin, TF_fahrenheit_to_kelvin => 10390
  | TF_celsius_to_kelvin, TF_fahrenheit_to_kelvin, TF_kelvin_to_kelvin => 4769
  | TF_celsius_to_kelvin, TF_fahrenheit_to_kelvin, TF_celsius_to_kelvin => 5861
  | TF_celsius_to_kelvin, TF_fahrenheit_to_kelvin, TF_fahrenheit_to_kelvin => 16514
  | TF_fahrenheit_to_kelvin, TF_kelvin_to_kelvin, TF_kelvin_to_kelvin => 689
  | TF_fahrenheit_to_kelvin, TF_kelvin_to_kelvin, TF_celsius_to_kelvin => 1817
  | TF_fahrenheit_to_kelvin, TF_kelvin_to_kelvin, TF_fahrenheit_to_kelvin => 9427
  | TF_fahrenheit_to_kelvin, TF_celsius_to_kelvin, TF_kelvin_to_kelvin => 1544
  | TF_fahrenheit_to_kelvin, TF_celsius_to_kelvin, TF_celsius_to_kelvin => 2672
  | TF_fahrenheit_to_kelvin, TF_celsius_to_kelvin, TF_fahrenheit_to_kelvin => 10966
  | TF_fahrenheit_to_kelvin, TF_fahrenheit_to_kelvin, TF_kelvin_to_kelvin => 5053
  | TF_fahrenheit_to_kelvin, TF_fahrenheit_to_kelvin, TF_celsius_to_kelvin => 6181
  | TF_fahrenheit_to_kelvin, TF_fahrenheit_to_kelvin, TF_fahrenheit_to_kelvin => 17282
  | _, _, _ => 0
  end%Z.
Definition tcomp_B (ta tb tc : tempfn) : R := IZR (tcomp_BZ ta tb tc).
Definition tcomp_bound (ta tb tc : tempfn) (a : R) : R := u53 * (1 + / 1024) * (tcomp_A ta tb tc * a + tcomp_B ta tb tc).

Lemma temp_comp_chain ta fa tb fb tc fc X v :
  isB X v -> inverse_pair ta fa = true -> inverse_pair tb fb = true -> inverse_pair tc fc = true ->
  Rabs v <= bpow radix2 1000 ->
  exists r s,
    isB (tempfn_apply fl fc (tempfn_apply fl tb (tempfn_apply fl fb (tempfn_apply fl ta X)))) r /\
    isB (tempfn_apply fl fc (tempfn_apply fl ta X)) s /\
    Rabs (r - s) <= tcomp_bound ta tb tc (Rabs v).
Proof.
  intros HX Ia Ib Ic Hv.
  set (a := Rabs v) in *.
  assert (Ha : 0 <= a) by apply Rabs_pos.
  pose proof eta_small as He.
  assert (HT : Tmax = bpow radix2 1000 * 8388608).
  { unfold Tmax. change 1023%Z with (1000 + 23)%Z. rewrite bpow_plus. f_equal; simpl; try reflexivity; lra. }
  assert (HV : 1267650600228229401496703205376 <= bpow radix2 1000).
  { assert (bpow radix2 100 <= bpow radix2 1000) by (apply bpow_le; discriminate).
    simpl (bpow radix2 100) in *. lra. }
  set (V := bpow radix2 1000) in *.
  remember (TFM ta a) as M1 eqn:EM1. remember (TFM fb M1) as M2 eqn:EM2. remember (TFM fc M1) as M3 eqn:EM3.
  assert (P1 : Rabs (TFid ta v) <= M1) by (subst M1; apply TFM_ok; apply Rle_refl).
  assert (P2 : Rabs (TFid fb (TFid ta v)) <= M2) by (subst M2; apply TFM_ok; exact P1).
  assert (P3 : Rabs (TFid tb (TFid fb (TFid ta v))) <= M1) by (rewrite (TF_inv2 tb fb) by exact Ib; exact P1).
  assert (P4 : Rabs (TFid fc (TFid tb (TFid fb (TFid ta v)))) <= M3).
  { rewrite (TF_inv2 tb fb) by exact Ib. subst M3. apply TFM_ok. exact P1. }
  assert (P5 : Rabs (TFid fc (TFid ta v)) <= M3) by (subst M3; apply TFM_ok; exact P1).
  remember (TFd ta 0 a M1) as d1 eqn:E1. remember (TFd fb d1 M1 M2) as d2 eqn:E2.
  remember (TFd tb d2 M2 M1) as d3 eqn:E3.
  assert (N : 0 <= d1 /\ 0 <= d2 /\ 0 <= d3 /\
              M1 + 64 * (a + 0) + 16384 <= Tmax /\ M2 + 64 * (M1 + d1) + 16384 <= Tmax /\
              M1 + 64 * (M2 + d2) + 16384 <= Tmax /\ M3 + 64 * (M1 + d3) + 16384 <= Tmax /\
              M3 + 64 * (M1 + d1) + 16384 <= Tmax /\
              TFd fc d3 M1 M3 + TFd fc d1 M1 M3 <= tcomp_bound ta tb tc a).
  { clear P1 P2 P3 P4 P5 HX.
    destruct ta, fa; try discriminate Ia; destruct tb, fb; try discriminate Ib; destruct tc, fc; try discriminate Ic;
      unfold TFd, TFM, tcomp_bound, tcomp_A, tcomp_B, tcomp_AZ, tcomp_BZ, stp in *; rewrite ?u53_val in *; unfold c273 in *;
      (repeat split); lra. }
  destruct N as [N1 [N2 [N3 [S1 [S2 [S3 [S4 [S5 NB]]]]]]]].
  assert (A0 : apx X v 0).
  { exists v. split; [exact HX|]. replace (v - v) with 0 by ring. rewrite Rabs_R0. lra. }
  pose proof (tf_spec ta X v 0 a M1 A0 (Rle_refl a) P1 (Rle_refl 0) S1) as T1. rewrite <- E1 in T1.
  pose proof (tf_spec fb _ _ d1 M1 M2 T1 P1 P2 N1 S2) as T2. rewrite <- E2 in T2.
  pose proof (tf_spec tb _ _ d2 M2 M1 T2 P2 P3 N2 S3) as T3. rewrite <- E3 in T3.
  pose proof (tf_spec fc _ _ d3 M1 M3 T3 P3 P4 N3 S4) as T4.
  pose proof (tf_spec fc _ _ d1 M1 M3 T1 P1 P5 N1 S5) as T5.
  rewrite (TF_inv2 tb fb) in T4 by exact Ib.
  destruct T4 as [r [Br Hr]]. destruct T5 as [s [Bs Hs]].
  exists r, s. split; [exact Br|]. split; [exact Bs|].
  replace (r - s) with ((r - TFid fc (TFid ta v)) - (s - TFid fc (TFid ta v))) by ring.
  eapply Rle_trans; [apply Rabs_triang|]. rewrite Rabs_Ropp. lra.
Qed.

Theorem composition_float_temperature : forall ua ub uc ta fa tb fb tc fc v,
  u_conv ua = Temperature ta fa -> u_conv ub = Temperature tb fb -> u_conv uc = Temperature tc fc ->
  inverse_pair ta fa = true -> inverse_pair tb fb = true -> inverse_pair tc fc = true ->
  finz v -> Rabs (Rv v) <= bpow radix2 1000 ->
  let r_ab := through_base fl v ua ub in
  let r_abc := through_base fl r_ab ub uc in
  let r_ac := through_base fl v ua uc in
  finz r_abc /\ finz r_ac /\ Rabs (Rv r_abc - Rv r_ac) <= tcomp_bound ta tb tc (Rabs (Rv v)).
Proof.
  intros ua ub uc ta fa tb fb tc fc v Ca Cb Cc Ia Ib Ic [Vv Fv] Hv r_ab r_abc r_ac.
  destruct (temp_comp_chain ta fa tb fb tc fc v (Rv v) (isB_of_valid v Vv Fv) Ia Ib Ic Hv) as [r [s [Br [Bs H]]]].
  assert (E1 : r_abc = tempfn_apply fl fc (tempfn_apply fl tb (tempfn_apply fl fb (tempfn_apply fl ta v)))).
  { unfold r_abc, r_ab, through_base, convert_from_base, convert_to_base. rewrite Ca, Cb, Cc. reflexivity. }
  assert (E2 : r_ac = tempfn_apply fl fc (tempfn_apply fl ta v)).
  { unfold r_ac, through_base, convert_from_base, convert_to_base. rewrite Ca, Cc. reflexivity. }
  rewrite E1, E2. split; [exact (isB_valid _ _ Br)|]. split; [exact (isB_valid _ _ Bs)|].
  rewrite (isB_Rv _ _ Br), (isB_Rv _ _ Bs). exact H.
Qed.

Lemma tcomp_bound_nonneg ta tb tc a : 0 <= a -> 0 <= tcomp_bound ta tb tc a.
Proof.
  intros Ha. unfold tcomp_bound. pose proof u53_lt1.
  assert (0 <= tcomp_A ta tb tc) by (destruct ta, tb, tc; unfold tcomp_A, tcomp_AZ; lra).
  assert (0 <= tcomp_B ta tb tc) by (destruct ta, tb, tc; unfold tcomp_B, tcomp_BZ; lra).
  apply Rmult_le_pos; [apply Rmult_le_pos; lra|]. apply Rplus_le_le_0_compat; [apply Rmult_le_pos|]; assumption.
Qed.
Lemma temp_bound_le_tcomp ta fa tb fb a : inverse_pair ta fa = true -> inverse_pair tb fb = true -> 0 <= a ->
  temp_bound ta tb a <= tcomp_bound ta tb ta a.
Proof.
  intros Ia Ib Ha. pose proof u53_lt1. unfold temp_bound, tcomp_bound.
  apply Rmult_le_compat_l; [apply Rmult_le_pos; lra|].
  destruct ta, fa; try discriminate Ia; destruct tb, fb; try discriminate Ib;
    unfold temp_A, temp_B, tcomp_A, tcomp_B, temp_AZ, temp_BZ, tcomp_AZ, tcomp_BZ; lra.
Qed.

Theorem builtin_composition_temperature : forall a b c ua ub uc ta fa tb fb tc fc v,
  resolve_unit a = UOk ua -> resolve_unit b = UOk ub -> resolve_unit c = UOk uc ->
  u_cat ua = u_cat ub -> u_cat ub = u_cat uc ->
  u_conv ua = Temperature ta fa -> u_conv ub = Temperature tb fb -> u_conv uc = Temperature tc fc ->
  finz v -> Rabs (Rv v) <= bpow radix2 1000 ->
  exists r1 r2 r3,
    builtin_convert (ANum v) (AStr a) (AStr b) = UOk r1 /\
    builtin_convert (ANum r1) (AStr b) (AStr c) = UOk r2 /\
    builtin_convert (ANum v) (AStr a) (AStr c) = UOk r3 /\
    Rabs (Rv r2 - Rv r3) <= tcomp_bound ta tb tc (Rabs (Rv v)).
Proof.
  intros a b c ua ub uc ta fa tb fb tc fc v Ra Rb Rc C1 C2 Ca Cb Cc Fv Hv.
  pose proof (resolve_unit_In _ _ Ra) as Ia. pose proof (resolve_unit_In _ _ Rb) as Ib.
  pose proof (resolve_unit_In _ _ Rc) as Ic.
  pose proof (table_inverse_pair _ _ _ Ia Ca) as Pa. pose proof (table_inverse_pair _ _ _ Ib Cb) as Pb.
  pose proof (table_inverse_pair _ _ _ Ic Cc) as Pc.
  assert (C3 : u_cat ua = u_cat uc) by congruence.
  eexists. eexists. eexists. rewrite !builtin_is_convert.
  rewrite (same_category_converts fl v a b ua ub Ra Rb C1). split; [reflexivity|].
  rewrite (same_category_converts fl _ b c ub uc Rb Rc C2). split; [reflexivity|].
  rewrite (same_category_converts fl v a c ua uc Ra Rc C3). split; [reflexivity|].
  assert (Z0 : forall x, Rabs (x - x) <= tcomp_bound ta tb tc (Rabs (Rv v))).
  { intros x. replace (x - x) with 0 by ring. rewrite Rabs_R0. apply tcomp_bound_nonneg. apply Rabs_pos. }
  destruct (same_ids ua ub) eqn:Eab.
  { apply (same_ids_unit _ _ Ia Ib) in Eab. subst ub. apply Z0. }
  destruct (same_ids ub uc) eqn:Ebc.
  { apply (same_ids_unit _ _ Ib Ic) in Ebc. subst uc. rewrite Eab. apply Z0. }
  destruct (same_ids ua uc) eqn:Eac.
  { apply (same_ids_unit _ _ Ia Ic) in Eac. subst uc.
    assert (tc = ta) by congruence. subst tc.
    destruct (there_and_back_float_temperature ua ub ta fa tb fb v Ca Cb Pa Pb Fv Hv) as [_ H].
    eapply Rle_trans; [exact H|]. apply (temp_bound_le_tcomp ta fa tb fb); auto. apply Rabs_pos. }
  apply (composition_float_temperature ua ub uc ta fa tb fb tc fc v Ca Cb Cc Pa Pb Pc Fv Hv).
Qed.

(* the constant tables as text, for the check to compare with the tolerances it uses (checks/c17.py TEMP_AB / TCOMP_AB) *)
Definition tf_to_list : list tempfn := [TF_kelvin_to_kelvin; TF_celsius_to_kelvin; TF_fahrenheit_to_kelvin].
Definition temp_tables : list Z :=
  flat_map (fun ta => flat_map (fun tb => [temp_AZ ta tb; temp_BZ ta tb]) tf_to_list) tf_to_list.
Definition tcomp_tables : list Z :=
  flat_map (fun ta => flat_map (fun tb => flat_map (fun tc => [tcomp_AZ ta tb tc; tcomp_BZ ta tb tc]) tf_to_list) tf_to_list) tf_to_list.
