(* C02Wf.v — WELL-FORMEDNESS IS AN INVARIANT OF EVALUATION (C02).

   [cfg_wf c] (C02Twice.v): the scope chain of c mentions only function cells that exist in the store of c
   (no dangling index).  The eval-twice / let-abstraction theorems take it as a hypothesis on the configuration
   they start from.  Here: every evaluation — every expression form (assignments and do-blocks too),
   FunctionDef::call, every depth — takes a well-formed configuration to a well-formed configuration and
   returns a value that mentions existing cells only ([evalE_wf], [AD_wf], [evalD_wf]); generic in operators /
   built-ins that "create no dangling cell" ([ops_wf]: on arguments that mention existing cells only, with a
   callback that returns such values, the result mentions existing cells only and the store does not shrink),
   discharged for [binop_impl] / [builtin_impl] by instantiating GenOps.v (the unary parametricity argument,
   with the predicate "every index is below the store length" and the order "not shorter") and for the 32 pure
   arms of [builtin_full] by instantiating RelPure.v at the relation "equal and mentioning cells below n"
   (a partial identity: the binary parametricity lemma read as a unary one); sort_by / group_by / count_by
   directly (their results consist of argument items and strings).

   Consequences: well-formedness holds after ANY sequence of statements run from the initial configuration
   of Program.v ([run_wf], [init_wf]), so the eval-twice theorem needs no hypothesis there
   ([eval_twice_after_any_program]). *)
From Coq Require Import String Ascii List ZArith Bool Lia.
Require Import Blots.Num Blots.gen.Builtins Blots.Ast Blots.Value Blots.Outcome Blots.Binop
               Blots.Env Blots.Eval Blots.BuiltinsHof Blots.Program Blots.EvalInst Blots.EvalFull
               Blots.proofs.ExprInd Blots.proofs.ValueInd Blots.proofs.GenOps Blots.proofs.StoreMono
               Blots.proofs.C02Ren Blots.proofs.C02Twice Blots.proofs.C02Let.
Require Blots.BuiltinsList.
Import ListNotations.
Open Scope string_scope.
Open Scope list_scope.
Open Scope nat_scope.

(* ---- the predicate, Prop-level readings of the boolean definitions of C02Twice.v ---- *)
Definition vlt (n : nat) (v : value) : Prop := ids_lt n v = true.
Definition flt (n : nat) (f : frame) : Prop := Forall (fun kv => vlt n (snd kv)) f.
Definition frs_lt (n : nat) (fr : frames) : Prop := Forall (fun kf => flt n (snd kf)) fr.

Lemma frame_lt_iff : forall n f, frame_lt n f = true <-> flt n f.
Proof.
  intros n f. unfold frame_lt, flt. rewrite forallb_forall, Forall_forall. split.
  - intros H [k x] Hx. exact (H (k, x) Hx).
  - intros H [k x] Hx. exact (H (k, x) Hx).
Qed.
Lemma frames_lt_iff : forall n fr, frames_lt n fr = true <-> frs_lt n fr.
Proof.
  intros n fr. unfold frames_lt, frs_lt. rewrite forallb_forall, Forall_forall. split.
  - intros H kf Hx. apply frame_lt_iff. exact (H kf Hx).
  - intros H kf Hx. apply frame_lt_iff. exact (H kf Hx).
Qed.
Lemma vlt_VList : forall n l, vlt n (VList l) <-> Forall (vlt n) l.
Proof. intros n l. unfold vlt. cbn [ids_lt]. rewrite forallb_forall, Forall_forall. reflexivity. Qed.
Lemma vlt_VRec : forall n r, vlt n (VRec r) <-> flt n r.
Proof. intros n r. exact (frame_lt_iff n r). Qed.
Lemma vlt_VLam : forall n id a b sc, vlt n (VLam id a b sc) <-> id < n /\ flt n sc.
Proof.
  intros n id a b sc. unfold vlt. cbn [ids_lt]. rewrite andb_true_iff, Nat.ltb_lt.
  split; intros [H1 H2]; (split; [exact H1|]); apply (frame_lt_iff n sc); exact H2.
Qed.
Lemma vlt_VSpread : forall n x, vlt n (VSpread x) <-> vlt n x.
Proof. intros; reflexivity. Qed.
Lemma vlt_atomic : forall n v, atomic v -> vlt n v.
Proof. intros n v H. destruct v; try contradiction; reflexivity. Qed.

Lemma vlt_mono : forall n m v, n <= m -> vlt n v -> vlt m v.
Proof. intros n m v H. exact (ids_lt_mono n m H v). Qed.
Lemma Forall_vlt_mono : forall n m l, n <= m -> Forall (vlt n) l -> Forall (vlt m) l.
Proof. intros n m l H. apply Forall_impl. intros a. apply vlt_mono; exact H. Qed.
Lemma flt_mono : forall n m f, n <= m -> flt n f -> flt m f.
Proof. intros n m f H. apply Forall_impl. intros a. apply vlt_mono; exact H. Qed.
Lemma frs_lt_mono : forall n m fr, n <= m -> frs_lt n fr -> frs_lt m fr.
Proof. intros n m fr H. apply Forall_impl. intros a. apply flt_mono; exact H. Qed.

(* ---- frames ---- *)
Lemma lookup_frame_vlt : forall n f y v, flt n f -> lookup_frame f y = Some v -> vlt n v.
Proof.
  intros n f y v H. induction H as [|[k w] f Hw _ IH]; cbn [lookup_frame]; [discriminate|].
  destruct (String.eqb y k); [intros E; inversion E; subst; exact Hw|exact IH].
Qed.
Lemma lookup_vlt : forall n fr y v, frs_lt n fr -> lookup fr y = Some v -> vlt n v.
Proof.
  intros n fr y v H. induction H as [|[k f] fr Hf _ IH]; cbn [lookup]; [discriminate|].
  destruct (lookup_frame f y) eqn:E; [intros E2; inversion E2; subst; eapply lookup_frame_vlt; eauto|exact IH].
Qed.
Lemma rec_get_vlt : forall n r k v, flt n r -> rec_get r k = Some v -> vlt n v.
Proof.
  intros n r k v H. induction H as [|[k' w] f Hw _ IH]; cbn [rec_get]; [discriminate|].
  destruct (String.eqb k k'); [intros E; inversion E; subst; exact Hw|exact IH].
Qed.
Lemma rec_insert_flt : forall n r k v, flt n r -> vlt n v -> flt n (rec_insert r k v).
Proof.
  intros n r k v H Hv. induction H as [|[k' w] f Hw Hf IH]; cbn [rec_insert].
  - constructor; [exact Hv|constructor].
  - destruct (String.eqb k k'); constructor; assumption.
Qed.
Lemma rec_insert_all_flt : forall n es r, flt n r -> flt n es -> flt n (rec_insert_all r es).
Proof.
  intros n es. unfold rec_insert_all. induction es as [|[k v] es IH]; intros r Hr He; cbn [fold_left]; [exact Hr|].
  inversion He; subst. apply IH; [apply rec_insert_flt; assumption|assumption].
Qed.
Lemma capture_flt : forall n fr vars acc, frs_lt n fr -> flt n acc -> flt n (capture fr vars acc).
Proof.
  intros n fr vars. induction vars as [|x vars IH]; intros acc Hfr Hacc; cbn [capture]; [exact Hacc|].
  destruct (lookup fr x) as [v|] eqn:E; [|apply IH; assumption].
  destruct (is_builtin_name x); [apply IH; assumption|].
  apply IH; [assumption|]. constructor; [|exact Hacc]. cbn [snd]. eapply lookup_vlt; eauto.
Qed.
Lemma insert_head_frs : forall n fr x v fr', frs_lt n fr -> vlt n v -> insert_head fr x v = Some fr' -> frs_lt n fr'.
Proof.
  intros n fr x v fr' H Hv E. destruct fr as [|[[|] f] r]; cbn [insert_head] in E; try discriminate.
  inversion E; subst. inversion H; subst. constructor; [|assumption]. cbn [snd] in *. constructor; assumption.
Qed.

(* ---- value-level operations of evaluate_ast ---- *)
Lemma atoms_vlt : forall n (l : list string), Forall (vlt n) (map VStr l).
Proof. intros n l. induction l; cbn [map]; constructor; [reflexivity|assumption]. Qed.
Lemma spread_items_vlt : forall n v, vlt n v -> Forall (vlt n) (spread_items v).
Proof.
  intros n v H. destruct v; cbn [spread_items]; try constructor.
  - apply atoms_vlt.
  - apply vlt_VList; exact H.
  - apply vlt_VRec in H. induction H as [|[k w] r Hw _ IH]; cbn [map]; constructor; [|exact IH].
    apply vlt_VList. constructor; [reflexivity|constructor; [exact Hw|constructor]].
Qed.
Lemma flatten_spreads_vlt : forall n l, Forall (vlt n) l -> Forall (vlt n) (flatten_spreads l).
Proof.
  intros n l H. induction H as [|v l Hv _ IH]; cbn [flatten_spreads]; [constructor|].
  destruct v; try (constructor; assumption).
  apply Forall_app. split; [apply spread_items_vlt; exact Hv|exact IH].
Qed.
Lemma nth_vlt : forall n l k, Forall (vlt n) l -> vlt n (nth k l VNull).
Proof.
  intros n l k H. destruct (nth_in_or_default k l VNull) as [Hin|E]; [|rewrite E; reflexivity].
  rewrite Forall_forall in H. apply H; exact Hin.
Qed.
Lemma access_val_vlt : forall n v i r, vlt n v -> access_val v i = Ok r -> vlt n r.
Proof.
  intros n v i r Hv E. destruct v as [y|y| |y|l|rr|id ar bd sc|bb|y]; cbn [access_val] in E; try discriminate.
  - destruct (as_number i) as [m| | | |]; try discriminate. cbn [obind] in E.
    destruct (index_from _ m) as [k|]; inversion E; subst; try reflexivity.
    destruct (nth_error (chars y) k); reflexivity.
  - destruct (as_number i) as [m| | | |]; try discriminate. cbn [obind] in E. inversion E; subst.
    destruct (index_from _ m) as [k|]; [|reflexivity]. apply nth_vlt. apply vlt_VList; exact Hv.
  - destruct (as_string i) as [m| | | |]; try discriminate. cbn [obind] in E. inversion E; subst.
    destruct (rec_get rr m) eqn:Eg; [|reflexivity]. eapply rec_get_vlt; [|exact Eg]. apply vlt_VRec; exact Hv.
Qed.
Lemma dot_val_vlt : forall n v f r, vlt n v -> dot_val v f = Ok r -> vlt n r.
Proof.
  intros n v f r Hv E. destruct v as [y|y| |y|l|rr|id ar bd sc|bb|y]; cbn [dot_val] in E; try discriminate. inversion E; subst.
  destruct (rec_get rr f) eqn:Eg; [|reflexivity]. eapply rec_get_vlt; [|exact Eg]. apply vlt_VRec; exact Hv.
Qed.
Lemma spread_val_vlt : forall n v r, vlt n v -> spread_val v = Ok r -> vlt n r.
Proof. intros n v r Hv E. destruct v; cbn [spread_val] in E; try discriminate; inversion E; subst; exact Hv. Qed.
Lemma enum_from_flt : forall {A} n (g : A -> value) (l : list A) k,
  (forall a, In a l -> vlt n (g a)) ->
  flt n (map (fun iv => (nat_to_dec (fst iv), g (snd iv))) (enum_from k l)).
Proof.
  intros A n g l. induction l as [|a l IH]; intros k H; cbn [enum_from map]; constructor.
  - cbn [snd]. apply H. left; reflexivity.
  - apply IH. intros b Hb. apply H. right; exact Hb.
Qed.
Lemma record_spread_entries_flt : forall n v, vlt n v -> flt n (record_spread_entries v).
Proof.
  intros n v H. destruct v; cbn [record_spread_entries]; try constructor.
  destruct v; try constructor.
  - apply (enum_from_flt n VStr). intros; reflexivity.
  - apply (enum_from_flt n (fun x => x)). apply vlt_VSpread, vlt_VList in H. rewrite Forall_forall in H. exact H.
  - apply vlt_VSpread, vlt_VRec in H. exact H.
Qed.
Lemma constants_vlt : forall n, vlt n (VRec constants_record).
Proof. intros n. reflexivity. Qed.

Lemma length_name_if_created : forall n0 st v x, length (name_if_created n0 st v x) = length st.
Proof.
  intros n0 st v x. destruct v; try reflexivity. cbn [name_if_created].
  destruct (Nat.leb n0 id); [|reflexivity]. cbn [name_if_lambda].
  destruct (lam_name st id); [reflexivity|apply length_set_nth].
Qed.

Lemma bind_params_flt : forall n ps idx args acc fr,
  Forall (vlt n) args -> flt n acc -> bind_params ps idx args acc = Some fr -> flt n fr.
Proof.
  intros n ps. induction ps as [|p ps IH]; intros idx args acc fr Ha Hacc E; cbn [bind_params] in E.
  - inversion E; subst; exact Hacc.
  - destruct p as [x|x|x].
    + destruct (nth_error args idx) as [v|] eqn:En; [|discriminate].
      eapply IH; [exact Ha| |exact E]. constructor; [|exact Hacc]. cbn [snd].
      rewrite Forall_forall in Ha. apply Ha. eapply nth_error_In; eauto.
    + eapply IH; [exact Ha| |exact E]. constructor; [|exact Hacc]. cbn [snd].
      destruct (nth_error args idx) as [v|] eqn:En; [|reflexivity].
      rewrite Forall_forall in Ha. apply Ha. eapply nth_error_In; eauto.
    + eapply IH; [exact Ha| |exact E]. constructor; [|exact Hacc]. cbn [snd].
      apply vlt_VList. rewrite Forall_forall in *. intros y Hy. apply Ha.
      rewrite <- (firstn_skipn idx args). apply in_or_app. right; exact Hy.
Qed.

(* ================= the evaluator ================= *)
Definition slen_le (s s' : store) : Prop := length s <= length s'.
Definition wfv (st : store) (v : value) : Prop := vlt (length st) v.
Lemma slen_refl : forall s, slen_le s s. Proof. intros; unfold slen_le; lia. Qed.
Lemma slen_trans : forall a b c, slen_le a b -> slen_le b c -> slen_le a c.
Proof. unfold slen_le; intros; lia. Qed.
Lemma wfv_mono : forall v st st', slen_le st st' -> wfv st v -> wfv st' v.
Proof. intros v st st' H. apply vlt_mono. exact H. Qed.
Lemma wfv_VList : forall st l, wfv st (VList l) <-> closed_list wfv st l.
Proof. intros st l. apply vlt_VList. Qed.
Lemma wfv_atomic : forall st v, atomic v -> wfv st v.
Proof. intros st v. apply vlt_atomic. Qed.

(* a callback creates no dangling cell, from every store not shorter than s0 *)
Definition cb_wf (s0 : store) (cb : callback) : Prop := cb_closed slen_le wfv s0 cb.
(* operators / built-ins create no dangling cell when their callback does not *)
Definition binop_wf (bi : callback -> binop -> value -> value -> store -> outcome value * store) : Prop :=
  forall cb s0, cb_wf s0 cb -> forall op l r st res st',
    slen_le s0 st -> wfv st l -> wfv st r -> bi cb op l r st = (res, st') ->
    slen_le st st' /\ (forall v, res = Ok v -> wfv st' v).
Definition builtin_wf (bu : callback -> builtin -> list value -> store -> outcome value * store) : Prop :=
  forall cb s0, cb_wf s0 cb -> forall b args st res st',
    slen_le s0 st -> Forall (wfv st) args -> bu cb b args st = (res, st') ->
    slen_le st st' /\ (forall v, res = Ok v -> wfv st' v).
Definition ops_wf bi bu : Prop := binop_wf bi /\ builtin_wf bu.

Definition wfc (c : cfg) : Prop := frs_lt (length (fst c)) (snd c).
Lemma cfg_wf_iff : forall c, cfg_wf c = true <-> wfc c.
Proof. intros c. apply frames_lt_iff. Qed.

(* what one evaluation step guarantees *)
Definition post (c : cfg) (x : result) : Prop :=
  slen_le (fst c) (fst (snd x)) /\ wfc (snd x) /\ (forall v, fst x = Ok v -> wfv (fst (snd x)) v).
Definition wf_ok (ev : cfg -> expr -> result) (e : expr) : Prop :=
  forall c, wfc c -> post c (ev c e).

Lemma post_same : forall c o, wfc c -> (forall v, o = Ok v -> wfv (fst c) v) -> post c (o, c).
Proof. intros c o H Hv. split; [apply slen_refl|split; [exact H|exact Hv]]. Qed.
Lemma post_fail : forall c c1 (o : outcome value), slen_le (fst c) (fst c1) -> wfc c1 -> is_ok o = false -> post c (o, c1).
Proof. intros c c1 o H1 H2 Ho. split; [exact H1|split; [exact H2|]]. intros v E; cbn [fst] in E; subst o; discriminate Ho. Qed.
Lemma post_trans : forall c c1 x, slen_le (fst c) (fst c1) -> post c1 x -> post c x.
Proof. intros c c1 x H [H1 H2]. split; [eapply slen_trans; eauto|exact H2]. Qed.

Section EvalWf.
  Variable release : bool.
  Variable binop_impl : callback -> binop -> value -> value -> store -> outcome value * store.
  Variable builtin_impl : callback -> builtin -> list value -> store -> outcome value * store.
  Hypothesis Hbin : binop_wf binop_impl.
  Hypothesis Hbu : builtin_wf builtin_impl.

  Section E.
  Variable apply : frames -> callback.
  Hypothesis Happly : forall fr s0, frs_lt (length s0) fr -> cb_wf s0 (apply fr).
  Notation evalE := (evalE release binop_impl apply).

  (* lists of sub-expressions: the values collected so far stay valid while the store grows *)
  Lemma evalL_wf : forall ev l, Forall (wf_ok ev) l ->
    forall c, wfc c ->
      slen_le (fst c) (fst (snd (evalL ev c l))) /\ wfc (snd (evalL ev c l)) /\
      (forall vs, fst (evalL ev c l) = Ok vs -> Forall (wfv (fst (snd (evalL ev c l)))) vs).
  Proof.
    intros ev l HF; induction HF as [|x l Hx _ IH]; intros c Hc; cbn [evalL].
    - split; [apply slen_refl|split; [exact Hc|]]. intros vs E; inversion E; constructor.
    - destruct (Hx c Hc) as (L1 & W1 & V1). destruct (ev c x) as [o c1]. cbn [fst snd] in *.
      destruct o; try (split; [exact L1|split; [exact W1|intros ? E; discriminate E]]).
      destruct (IH c1 W1) as (L2 & W2 & V2). destruct (evalL ev c1 l) as [o2 c2]. cbn [fst snd] in *.
      destruct o2; (split; [eapply slen_trans; eauto|split; [exact W2|]]); intros vs E; inversion E; subst.
      constructor; [eapply wfv_mono; [exact L2|apply V1; reflexivity]|apply V2; reflexivity].
  Qed.
  Lemma evalCL_wf : forall ev (l : list (commented expr)), Forall (fun cm => wf_ok ev (cnode cm)) l ->
    forall c, wfc c ->
      slen_le (fst c) (fst (snd (evalCL ev c l))) /\ wfc (snd (evalCL ev c l)) /\
      (forall vs, fst (evalCL ev c l) = Ok vs -> Forall (wfv (fst (snd (evalCL ev c l)))) vs).
  Proof.
    intros ev l HF; induction HF as [|[ld x tr] l Hx _ IH]; intros c Hc; cbn [evalCL].
    - split; [apply slen_refl|split; [exact Hc|]]. intros vs E; inversion E; constructor.
    - cbn [cnode] in Hx. destruct (Hx c Hc) as (L1 & W1 & V1). destruct (ev c x) as [o c1]. cbn [fst snd] in *.
      destruct o; try (split; [exact L1|split; [exact W1|intros ? E; discriminate E]]).
      destruct (IH c1 W1) as (L2 & W2 & V2). destruct (evalCL ev c1 l) as [o2 c2]. cbn [fst snd] in *.
      destruct o2; (split; [eapply slen_trans; eauto|split; [exact W2|]]); intros vs E; inversion E; subst.
      constructor; [eapply wfv_mono; [exact L2|apply V1; reflexivity]|apply V2; reflexivity].
  Qed.

  Lemma evalRecL_wf : forall ev (l : list (commented rentry)),
    Forall (fun cm => Pentry (wf_ok ev) (cnode cm)) l ->
    forall c acc, wfc c -> flt (length (fst c)) acc -> post c (evalRecL ev c acc l).
  Proof.
    intros ev l HF; induction HF as [|[ld [k v] tr] l Hx _ IH]; intros c acc Hc Hacc; cbn [evalRecL].
    - apply post_same; [exact Hc|]. intros w E; inversion E; subst. apply vlt_VRec. exact Hacc.
    - cbn [cnode Pentry] in Hx. destruct Hx as [Hk Hv].
      destruct k as [key|ke|x|se]; cbn [Pkey] in Hk.
      + destruct (Hv c Hc) as (L1 & W1 & V1). destruct (ev c v) as [o c1]. cbn [fst snd] in *.
        destruct o; try (apply post_fail; [exact L1|exact W1|reflexivity]).
        eapply post_trans; [exact L1|]. apply IH; [exact W1|].
        apply rec_insert_flt; [eapply flt_mono; [exact L1|exact Hacc]|apply V1; reflexivity].
      + destruct (Hk c Hc) as (L1 & W1 & V1). destruct (ev c ke) as [o c1]. cbn [fst snd] in *.
        destruct o; try (apply post_fail; [exact L1|exact W1|reflexivity]).
        destruct (as_string a); cbn [cast_fail]; try (apply post_fail; [exact L1|exact W1|reflexivity]).
        destruct (Hv c1 W1) as (L2 & W2 & V2). destruct (ev c1 v) as [o2 c2]. cbn [fst snd] in *.
        assert (L : slen_le (fst c) (fst c2)) by (eapply slen_trans; eauto).
        destruct o2; try (apply post_fail; [exact L|exact W2|reflexivity]).
        eapply post_trans; [exact L|]. apply IH; [exact W2|].
        apply rec_insert_flt; [eapply flt_mono; [exact L|exact Hacc]|apply V2; reflexivity].
      + destruct (lookup (snd c) x) as [x'|] eqn:El.
        * apply IH; [exact Hc|]. apply rec_insert_flt; [exact Hacc|]. eapply lookup_vlt; [exact Hc|exact El].
        * apply post_fail; [apply slen_refl|exact Hc|reflexivity].
      + destruct (Hk c Hc) as (L1 & W1 & V1). destruct (ev c se) as [o c1]. cbn [fst snd] in *.
        destruct o; try (apply post_fail; [exact L1|exact W1|reflexivity]).
        eapply post_trans; [exact L1|]. apply IH; [exact W1|].
        apply rec_insert_all_flt; [eapply flt_mono; [exact L1|exact Hacc]|].
        apply record_spread_entries_flt. apply V1; reflexivity.
  Qed.

  Lemma bind_value_wf : forall n0 c1 x v, wfc c1 -> wfv (fst c1) v -> post c1 (bind_value n0 c1 x v).
  Proof.
    intros n0 [st1 fr1] x v Hc Hv. unfold bind_value. cbn [fst snd] in *.
    destruct (insert_head fr1 x v) as [fr2|] eqn:E.
    - split; [unfold slen_le; cbn [fst snd]; rewrite length_name_if_created; lia|].
      split; [|intros w Ew; inversion Ew; subst; unfold wfv; cbn [fst snd]; rewrite length_name_if_created; exact Hv].
      unfold wfc. cbn [fst snd]. rewrite length_name_if_created. eapply insert_head_frs; eauto.
    - split; [unfold slen_le; cbn [fst snd]; rewrite length_name_if_created; lia|].
      split; [|intros w Ew; discriminate Ew].
      unfold wfc. cbn [fst snd]. rewrite length_name_if_created. exact Hc.
  Qed.
  Lemma assign_value_wf : forall ev x ve, wf_ok ev ve -> forall c, wfc c -> post c (assign_value ev c x ve).
  Proof.
    intros ev x ve Hve c Hc. unfold assign_value.
    destruct (Hve c Hc) as (L1 & W1 & V1). destruct (ev c ve) as [o c1]. cbn [fst snd] in *.
    destruct o; try (apply post_fail; [exact L1|exact W1|reflexivity]).
    eapply post_trans; [exact L1|]. apply bind_value_wf; [exact W1|apply V1; reflexivity].
  Qed.
  Lemma assign_checked_wf : forall ev x ve, wf_ok ev ve -> forall c, wfc c -> post c (assign_checked ev c x ve).
  Proof.
    intros ev x ve Hve c Hc. unfold assign_checked.
    destruct (Hve c Hc) as (L1 & W1 & V1). destruct (ev c ve) as [o c1]. cbn [fst snd] in *.
    destruct o; try (apply post_fail; [exact L1|exact W1|reflexivity]).
    destruct (contains (snd c1) x); [apply post_fail; [exact L1|exact W1|reflexivity]|].
    eapply post_trans; [exact L1|]. apply bind_value_wf; [exact W1|apply V1; reflexivity].
  Qed.
  Lemma do_step_wf : forall ev s, wf_ok ev s -> (forall x ve, s = EAssign x ve -> wf_ok ev ve) ->
    forall c, wfc c -> post c (do_step ev c s).
  Proof.
    intros ev s Hs Hsub c Hc. unfold do_step. destruct s; try (apply Hs; exact Hc).
    destruct (mem x do_assign_keywords); [apply post_fail; [apply slen_refl|exact Hc|reflexivity]|].
    apply assign_value_wf; [eapply Hsub; reflexivity|exact Hc].
  Qed.

  Ltac fail1 L W := apply post_fail; [exact L|exact W|reflexivity].

  Theorem evalE_wf : forall e, wf_ok evalE e.
  Proof.
    intros e.
    enough (HH : wf_ok evalE e /\ (forall x ve, e = EAssign x ve -> wf_ok evalE ve)) by apply HH.
    induction e using expr_ind';
      (split; [intros c Hc; cbn [Eval.evalE]|try (intros ? ? Heq; discriminate Heq)]).
    - apply post_same; [exact Hc|intros v E; inversion E; reflexivity].
    - apply post_same; [exact Hc|intros v E; inversion E; reflexivity].
    - apply post_same; [exact Hc|intros v E; inversion E; reflexivity].
    - apply post_same; [exact Hc|intros v E; inversion E; reflexivity].
    - (* EId *)
      destruct (_ || _); [apply post_same; [exact Hc|intros v E; inversion E; reflexivity]|].
      destruct (String.eqb x "constants"); [apply post_same; [exact Hc|intros v E; inversion E; apply constants_vlt]|].
      apply post_same; [exact Hc|]. intros v E. destruct (lookup (snd c) x) eqn:El; inversion E; subst.
      eapply lookup_vlt; [exact Hc|exact El].
    - (* EInRef *)
      apply post_same; [exact Hc|]. intros v E.
      destruct (lookup (snd c) "inputs") as [w|] eqn:El; [|discriminate E].
      destruct w; try discriminate E. inversion E; subst.
      match goal with |- context [rec_get ?r ?f] => destruct (rec_get r f) eqn:Eg end; [|reflexivity].
      eapply rec_get_vlt; [|exact Eg]. apply vlt_VRec. eapply lookup_vlt; [exact Hc|exact El].
    - apply post_same; [exact Hc|intros v E; inversion E; reflexivity].
    - (* EList *)
      match goal with HF : Forall _ items |- _ =>
        assert (HF' : Forall (fun cm => wf_ok evalE (cnode cm)) items)
          by (eapply Forall_impl; [|exact HF]; intros a Ha; apply Ha) end.
      destruct (evalCL_wf evalE items HF' c Hc) as (L1 & W1 & V1).
      destruct (evalCL evalE c items) as [o c1]. cbn [fst snd] in *.
      split; [exact L1|split; [exact W1|]]. intros v E. destruct o; try discriminate E.
      cbn [omap obind] in E. inversion E; subst. apply vlt_VList. apply flatten_spreads_vlt. apply V1; reflexivity.
    - (* ERec *)
      apply evalRecL_wf; [|exact Hc|constructor].
      eapply Forall_impl; [|eassumption]. intros [ld [k v] tr] Ha. cbn [cnode Pentry] in *.
      destruct Ha as [Hk Hv]. split; [|apply Hv].
      destruct k; cbn [Pkey] in *; auto; apply Hk.
    - (* ELam *)
      unfold fresh_lambda. cbn [fst snd].
      split; [unfold slen_le; cbn [fst snd]; rewrite app_length; cbn; lia|].
      assert (Hl : length (fst c) <= length (fst c ++ [None])) by (rewrite app_length; cbn; lia).
      split; [unfold wfc; cbn [fst snd]; eapply frs_lt_mono; [exact Hl|exact Hc]|].
      intros v E; inversion E; subst. unfold wfv. cbn [fst snd]. apply vlt_VLam.
      split; [rewrite app_length; cbn; lia|]. eapply flt_mono; [exact Hl|].
      apply capture_flt; [exact Hc|constructor].
    - (* ECond *)
      destruct IHe1 as [IH1 _], IHe2 as [IH2 _], IHe3 as [IH3 _].
      destruct (IH1 c Hc) as (L1 & W1 & V1). destruct (evalE c e1) as [o c1]. cbn [fst snd] in *.
      destruct o; try fail1 L1 W1.
      destruct (as_bool a) as [[|]| | | |]; cbn [cast_fail]; try fail1 L1 W1.
      + eapply post_trans; [exact L1|apply IH2; exact W1].
      + eapply post_trans; [exact L1|apply IH3; exact W1].
    - (* EDo *)
      match goal with
      | HF : Forall _ stmts, HR : _ /\ _ |- _ => rename HF into HFs; rename HR into HRet
      end.
      destruct ret as [ld rt tr]. cbn [cnode] in *.
      assert (HS : forall c0, wfc c0 ->
                   slen_le (fst c0) (fst (snd (evalDoL evalE c0 stmts))) /\ wfc (snd (evalDoL evalE c0 stmts))).
      { induction HFs as [|[l1 s t1] l Hs _ IHl]; intros c0 Hc0; cbn [evalDoL].
        - split; [apply slen_refl|exact Hc0].
        - cbn [cnode] in Hs. destruct Hs as [Hs1 Hs2].
          destruct (do_step_wf evalE s Hs1 Hs2 c0 Hc0) as (L1 & W1 & _).
          destruct (do_step evalE c0 s) as [o c1]. cbn [fst snd] in *.
          destruct o; try (split; assumption).
          destruct (IHl c1 W1) as [L2 W2]. split; [eapply slen_trans; eauto|exact W2]. }
      assert (Hc0 : wfc (fst c, (FOwned, []) :: snd c)).
      { unfold wfc. cbn [fst snd]. constructor; [constructor|exact Hc]. }
      destruct (HS _ Hc0) as [L1 W1].
      destruct (evalDoL evalE (fst c, (FOwned, []) :: snd c) stmts) as [o c1]. cbn [fst snd] in *.
      assert (Hback : forall st', slen_le (fst c) st' -> wfc (st', snd c)).
      { intros st' L. unfold wfc. cbn [fst snd]. eapply frs_lt_mono; [exact L|exact Hc]. }
      destruct o; cbn [cast_fail fst snd];
        try (split; [exact L1|split; [apply Hback; exact L1|intros ? E; discriminate E]]).
      destruct HRet as [Hr1 Hr2].
      destruct (do_step_wf evalE rt Hr1 Hr2 c1 W1) as (L2 & W2 & V2).
      destruct (do_step evalE c1 rt) as [o2 c2]. cbn [fst snd] in *.
      assert (L : slen_le (fst c) (fst c2)) by (eapply slen_trans; eauto).
      split; [exact L|split; [apply Hback; exact L|exact V2]].
    - (* EAssign *)
      destruct IHe as [IH _].
      destruct (is_builtin_name x); [apply post_fail; [apply slen_refl|exact Hc|reflexivity]|].
      destruct (mem x assign_keywords); [apply post_fail; [apply slen_refl|exact Hc|reflexivity]|].
      destruct (contains (snd c) x); [apply post_fail; [apply slen_refl|exact Hc|reflexivity]|].
      apply assign_checked_wf; assumption.
    - (* EAssign, second component *)
      intros x0 ve Heq. inversion Heq; subst. apply IHe.
    - (* EOutput *) destruct IHe as [IH _]. apply IH; exact Hc.
    - (* ECall *)
      destruct IHe as [IH _].
      destruct (IH c Hc) as (L1 & W1 & V1). destruct (evalE c e) as [o c1]. cbn [fst snd] in *.
      destruct o; try fail1 L1 W1.
      match goal with HF : Forall _ args |- _ =>
        assert (HF' : Forall (wf_ok evalE) args)
          by (eapply Forall_impl; [|exact HF]; intros a0 Ha; apply Ha) end.
      destruct (evalL_wf evalE args HF' c1 W1) as (L2 & W2 & V2).
      destruct (evalL evalE c1 args) as [o2 [st2 fr2]]. cbn [fst snd] in *.
      assert (L : slen_le (fst c) st2) by (eapply slen_trans; eauto).
      destruct o2; cbn [cast_fail]; try (apply post_fail; [exact L|exact W2|reflexivity]).
      destruct (negb (is_function a)); [apply post_fail; [exact L|exact W2|reflexivity]|].
      destruct (apply fr2 a a (flatten_spreads a0) st2) as [rr st3] eqn:Ea.
      assert (Ha : wfv st2 a) by (eapply wfv_mono; [exact L2|apply V1; reflexivity]).
      destruct (Happly fr2 st2 W2 a a (flatten_spreads a0) st2 rr st3 (slen_refl _) Ha Ha
                  (flatten_spreads_vlt _ _ (V2 a0 eq_refl)) Ea) as [L3 V3].
      split; [cbn [fst snd]; eapply slen_trans; eauto|].
      split; [unfold wfc; cbn [fst snd]; eapply frs_lt_mono; [exact L3|exact W2]|exact V3].
    - (* EAccess *)
      destruct IHe1 as [IH1 _], IHe2 as [IH2 _].
      destruct (IH1 c Hc) as (L1 & W1 & V1). destruct (evalE c e1) as [o c1]. cbn [fst snd] in *.
      destruct o; try fail1 L1 W1.
      destruct (IH2 c1 W1) as (L2 & W2 & V2). destruct (evalE c1 e2) as [o2 c2]. cbn [fst snd] in *.
      assert (L : slen_le (fst c) (fst c2)) by (eapply slen_trans; eauto).
      destruct o2; try fail1 L W2.
      split; [exact L|split; [exact W2|]]. cbn [fst snd]. intros v E.
      eapply access_val_vlt; [|exact E]. eapply wfv_mono; [exact L2|apply V1; reflexivity].
    - (* EDot *)
      destruct IHe as [IH _].
      destruct (IH c Hc) as (L1 & W1 & V1). destruct (evalE c e) as [o c1]. cbn [fst snd] in *.
      destruct o; try fail1 L1 W1.
      split; [exact L1|split; [exact W1|]]. cbn [fst snd]. intros v E.
      eapply dot_val_vlt; [|exact E]. apply V1; reflexivity.
    - (* EBin *)
      destruct IHe1 as [IH1 _], IHe2 as [IH2 _].
      destruct (IH1 c Hc) as (L1 & W1 & V1). destruct (evalE c e1) as [o c1]. cbn [fst snd] in *.
      destruct o; try fail1 L1 W1.
      destruct (IH2 c1 W1) as (L2 & W2 & V2). destruct (evalE c1 e2) as [o2 [st2 fr2]]. cbn [fst snd] in *.
      assert (L : slen_le (fst c) st2) by (eapply slen_trans; eauto).
      destruct o2; try (apply post_fail; [exact L|exact W2|reflexivity]).
      destruct (binop_impl (apply fr2) op a a0 st2) as [res st3] eqn:Eb.
      assert (Ha : wfv st2 a) by (eapply wfv_mono; [exact L2|apply V1; reflexivity]).
      destruct (Hbin (apply fr2) st2 (Happly fr2 st2 W2) op a a0 st2 res st3 (slen_refl _) Ha (V2 a0 eq_refl) Eb)
        as [L3 V3].
      split; [cbn [fst snd]; eapply slen_trans; eauto|].
      split; [unfold wfc; cbn [fst snd]; eapply frs_lt_mono; [exact L3|exact W2]|exact V3].
    - (* EUn *)
      destruct IHe as [IH _].
      destruct (IH c Hc) as (L1 & W1 & V1). destruct (evalE c e) as [o c1]. cbn [fst snd] in *.
      destruct o; try fail1 L1 W1.
      split; [exact L1|split; [exact W1|]]. cbn [fst snd]. intros v E.
      destruct op; [destruct (as_number a)|destruct (as_bool a)|destruct (as_bool a)]; inversion E; reflexivity.
    - (* EFact *)
      destruct IHe as [IH _].
      destruct (IH c Hc) as (L1 & W1 & V1). destruct (evalE c e) as [o c1]. cbn [fst snd] in *.
      destruct o; try fail1 L1 W1.
      split; [exact L1|split; [exact W1|]]. cbn [fst snd]. intros v E.
      destruct (as_number a); try discriminate E. unfold factorial_val in E.
      destruct (_ && _); inversion E; reflexivity.
    - (* ESpread *)
      destruct IHe as [IH _].
      destruct (IH c Hc) as (L1 & W1 & V1). destruct (evalE c e) as [o c1]. cbn [fst snd] in *.
      destruct o; try fail1 L1 W1.
      split; [exact L1|split; [exact W1|]]. cbn [fst snd]. intros v E.
      eapply spread_val_vlt; [|exact E]. apply V1; reflexivity.
  Qed.
  End E.

  (* ---- FunctionDef::call at every depth ---- *)
  Lemma call_too_deep_wf : forall s0, cb_wf s0 (fun _ f a s => call_too_deep f a s).
  Proof.
    intros s0 this f args st r st' _ _ _ _ H. unfold call_too_deep in H.
    destruct (check_arity _ _); inversion H; subst; (split; [apply slen_refl|intros ? E; discriminate E]).
  Qed.

  Theorem AD_wf : forall d fr s0, frs_lt (length s0) fr -> cb_wf s0 (AD release binop_impl builtin_impl d fr).
  Proof.
    intros d. induction d as [d IH] using lt_wf_ind. intros fr s0 Hfr this f args st r st' Hs0 Hthis Hf Hargs H.
    assert (Hsame : forall (o : outcome value), is_ok o = false -> (r, st') = (o, st) ->
              slen_le st st' /\ (forall v, r = Ok v -> wfv st' v)).
    { intros o Ho E. inversion E; subst. split; [apply slen_refl|intros v Ev; subst; discriminate Ho]. }
    destruct d as [|d']; cbn [AD] in H; unfold apply_at in H.
    - destruct (negb _); symmetry in H; eapply Hsame; try exact H; reflexivity.
    - destruct (negb _); [symmetry in H; eapply Hsame; try exact H; reflexivity|].
      unfold call_passed in H.
      destruct f; try (symmetry in H; eapply Hsame; try exact H; reflexivity).
      + (* lambda *)
        apply vlt_VLam in Hf. destruct Hf as [Hid Hsc].
        assert (Hfr' : frs_lt (length st) fr) by (eapply frs_lt_mono; [exact Hs0|exact Hfr]).
        match type of H with context [bind_params ?ps 0 args ?acc] =>
          assert (Hacc : flt (length st) acc); [|(destruct (bind_params ps 0 args acc) as [local|] eqn:Eb)] end.
        { apply Forall_app. split.
          - destruct (lookup_frame scope "inputs"); [constructor|].  (* F9 repaired *)
            destruct (lookup fr "inputs") eqn:El; constructor; [|constructor]. cbn [snd]. eapply lookup_vlt; eauto.
          - destruct (lam_name st id); [|constructor]. destruct (lookup_frame scope s); constructor; [|constructor].
            exact Hthis. }
        2:{ symmetry in H; eapply Hsame; try exact H; reflexivity. }
        pose proof (bind_params_flt _ _ _ _ _ _ Hargs Hacc Eb) as Hlocal.
        match type of H with context [evalE ?rl ?b ?a ?c ?e] =>
          assert (Hc : wfc c);
          [|(pose proof (evalE_wf (AD release binop_impl builtin_impl d')
                          (fun fr0 s1 Hf0 => IH d' (Nat.lt_succ_diag_r d') fr0 s1 Hf0) e c Hc) as HP;
             destruct (evalE rl b a c e) as [rr [st1 fr1]])] end.
        { unfold wfc. cbn [fst snd]. constructor; [exact Hlocal|].
          destruct scope; [exact Hfr'|]. constructor; [exact Hsc|exact Hfr']. }
        destruct HP as (L & _ & V). cbn [fst snd] in *. inversion H; subst. split; [exact L|exact V].
      + (* built-in *)
        eapply (Hbu _ s0); [|exact Hs0|exact Hargs|exact H].
        destruct d' as [|d'']; [apply call_too_deep_wf|apply IH; [lia|exact Hfr]].
  Qed.

  Corollary evalD_wf : forall d e, wf_ok (evalD release binop_impl builtin_impl d) e.
  Proof. intros d e. unfold evalD. apply evalE_wf. intros fr s0. apply AD_wf. Qed.
End EvalWf.

(* ================= the operators and built-ins of EvalInst.v: GenOps.v instantiated ================= *)
Lemma cb_agree_refl : forall s0 cb, cb_agree slen_le wfv s0 cb cb.
Proof. intros s0 cb this f args st _ _ _ _. reflexivity. Qed.

Lemma binop_impl_wf : binop_wf binop_impl.
Proof.
  intros cb s0 Hcb op l r st res st' Hs0 Hl Hr H. unfold binop_impl in H.
  destruct op;
    match type of H with
    | eval_binop _ _ _ _ ?o _ _ _ = _ =>
        destruct (eval_binop_agree slen_le slen_refl slen_trans wfv wfv_mono wfv_VList wfv_atomic
                    cb cb s0 (cb_agree_refl s0 cb) Hcb fn_accepts2_of_value powf_stub o l r st Hs0 Hl Hr) as [_ Hpost];
        exact (Hpost _ _ H)
    | _ => inversion H; subst; split; [apply slen_refl|intros ? E; discriminate E]
    end.
Qed.

Lemma builtin_impl_wf : builtin_wf builtin_impl.
Proof.
  intros cb s0 Hcb b args st res st' Hs0 Ha H.
  destruct (builtin_impl_agree slen_le slen_refl slen_trans wfv wfv_mono wfv_VList wfv_atomic
              cb cb s0 (cb_agree_refl s0 cb) Hcb b args st Hs0 Ha) as [_ [Hle Hpost]].
  rewrite H in Hle, Hpost. cbn [fst snd] in Hle, Hpost. split; assumption.
Qed.

Theorem ops_wf_inst : ops_wf binop_impl builtin_impl.
Proof. split; [exact binop_impl_wf|exact builtin_impl_wf]. Qed.

(* ================= the full dispatcher (EvalFull.v) ================= *)
Require Import Blots.proofs.EmitHO Blots.proofs.RelPure.

(* the 32 pure arms: RelPure.v at the partial identity "equal, and mentioning cells below n" *)
Section PureWf.
  Variable n : nat.
  Definition Rn (v v' : value) : Prop := v' = v /\ vlt n v.
  Lemma Rn_list_inv : forall l l', Forall2 Rn l l' -> l' = l /\ Forall (vlt n) l.
  Proof.
    induction 1 as [|x x' l l' [E Hx] _ [IH1 IH2]]; [split; [reflexivity|constructor]|].
    subst. split; [reflexivity|constructor; assumption].
  Qed.
  Lemma Rn_list_refl : forall l, Forall (vlt n) l -> Forall2 Rn l l.
  Proof. induction 1; constructor; [split; [reflexivity|assumption]|assumption]. Qed.
  Lemma Rn_rec_inv : forall r r', Forall2 (RRf Rn) r r' -> r' = r /\ flt n r.
  Proof.
    induction 1 as [|[k x] [k' x'] r r' [E [E2 Hx]] _ [IH1 IH2]]; [split; [reflexivity|constructor]|].
    cbn [fst snd] in *. subst. split; [reflexivity|constructor; assumption].
  Qed.
  Lemma Rn_rec_refl : forall r, flt n r -> Forall2 (RRf Rn) r r.
  Proof. induction 1; constructor; [split; [reflexivity|split; [reflexivity|assumption]]|assumption]. Qed.

  Lemma Rn_inv : forall v v', Rn v v' ->
    match v with
    | VNum x => v' = VNum x
    | VBool b => v' = VBool b
    | VNull => v' = VNull
    | VStr s => v' = VStr s
    | VList l => exists l', v' = VList l' /\ Forall2 Rn l l'
    | VRec r => exists r', v' = VRec r' /\ Forall2 (RRf Rn) r r'
    | VLam _ _ _ _ => exists id' ps' b' sc', v' = VLam id' ps' b' sc'
    | VBuiltin b => v' = VBuiltin b
    | VSpread w => exists w', v' = VSpread w' /\ Rn w w'
    end.
  Proof.
    intros v v' [E H]. subst v'. destruct v; try reflexivity.
    - eexists; split; [reflexivity|]. apply Rn_list_refl. apply vlt_VList; exact H.
    - eexists; split; [reflexivity|]. apply Rn_rec_refl. apply vlt_VRec; exact H.
    - repeat eexists.
    - eexists; split; [reflexivity|]. split; [reflexivity|exact H].
  Qed.
  Lemma Rn_list : forall l l', Forall2 Rn l l' -> Rn (VList l) (VList l').
  Proof. intros l l' H. destruct (Rn_list_inv l l' H) as [-> H2]. split; [reflexivity|apply vlt_VList; exact H2]. Qed.
  Lemma Rn_rec : forall r r', Forall2 (RRf Rn) r r' -> Rn (VRec r) (VRec r').
  Proof. intros r r' H. destruct (Rn_rec_inv r r' H) as [-> H2]. split; [reflexivity|apply vlt_VRec; exact H2]. Qed.
  Lemma Rn_compare : forall a a' b b', Rn a a' -> Rn b b' -> compare a b = compare a' b'.
  Proof. intros a a' b b' [-> _] [-> _]. reflexivity. Qed.
  Lemma Rn_equals : forall a a' b b', Rn a a' -> Rn b b' -> equals a b = equals a' b'.
  Proof. intros a a' b b' [-> _] [-> _]. reflexivity. Qed.

  Theorem pure_arms_wf : forall b f, pure_arm_of b = Some f ->
    forall args v, Forall (vlt n) args -> f args = Ok v -> vlt n v.
  Proof.
    intros b f E args v Ha Ev.
    pose proof (pure_arms_R_eq Rn Rn_inv (fun x => conj eq_refl eq_refl) (fun x => conj eq_refl eq_refl)
                  (conj eq_refl eq_refl) (fun x => conj eq_refl eq_refl) Rn_list Rn_compare Rn_equals
                  b f E args args (Rn_list_refl args Ha)) as H.
    rewrite Ev in H. cbn in H. exact (proj2 H).
  Qed.
End PureWf.

(* sort_by / group_by / count_by: results are made of argument items, strings and numbers *)
Import Blots.BuiltinsList.
Section ListWf.
  Variable call : callback.
  Variable s0 : store.
  Hypothesis Hcall : cb_wf s0 call.

  Definition postL (st : store) (x : outcome (list value) * store) : Prop :=
    slen_le st (snd x) /\ (forall l, fst x = Ok l -> Forall (wfv (snd x)) l).

  Lemma sort_by_cmp_wf : forall func a b st r st',
    slen_le s0 st -> wfv st func -> wfv st a -> wfv st b ->
    sort_by_cmp store call func a b st = (r, st') -> slen_le st st'.
  Proof.
    intros func a b st r st' Hs0 Hf Ha Hb H. unfold sort_by_cmp in H.
    destruct (is_function func); [|inversion H; subst; apply slen_refl].
    destruct (call func func [a] st) as [ra st1] eqn:E1.
    destruct (Hcall func func [a] st ra st1 Hs0 Hf Hf (Forall_cons _ Ha (Forall_nil _)) E1) as [L1 _].
    destruct ra; try (inversion H; subst; exact L1).
    destruct (call func func [b] st1) as [rb st2] eqn:E2.
    assert (Hs1 : slen_le s0 st1) by (eapply slen_trans; eauto).
    destruct (Hcall func func [b] st1 rb st2 Hs1 (wfv_mono _ _ _ L1 Hf) (wfv_mono _ _ _ L1 Hf)
                (Forall_cons _ (wfv_mono _ _ _ L1 Hb) (Forall_nil _)) E2) as [L2 _].
    assert (slen_le st st2) by (eapply slen_trans; eauto).
    destruct rb; inversion H; subst; assumption.
  Qed.

  Lemma Forall_wfv_mono : forall st st' l, slen_le st st' -> Forall (wfv st) l -> Forall (wfv st') l.
  Proof. intros st st' l H. apply Forall_impl. intros a. apply wfv_mono; exact H. Qed.

  Lemma merge_by_wf : forall func left right st,
    slen_le s0 st -> wfv st func -> Forall (wfv st) left -> Forall (wfv st) right ->
    postL st (merge_by store call func left right st).
  Proof.
    intros func left. induction left as [|a left' IHl]; intros right st Hs0 Hf Hl Hr.
    - destruct right; cbn; (split; [apply slen_refl|intros l E; inversion E; subst; assumption]).
    - revert st Hs0 Hf Hl Hr. induction right as [|b right' IHr]; intros st Hs0 Hf Hl Hr.
      + cbn. split; [apply slen_refl|intros l E; inversion E; subst; assumption].
      + cbn [merge_by].
        inversion Hl as [|? ? Ha Hl']; subst. inversion Hr as [|? ? Hb Hr']; subst.
        destruct (sort_by_cmp store call func b a st) as [c st1] eqn:Ec.
        pose proof (sort_by_cmp_wf _ _ _ _ _ _ Hs0 Hf Hb Ha Ec) as L1.
        assert (Hs1 : slen_le s0 st1) by (eapply slen_trans; eauto).
        pose proof (wfv_mono _ _ _ L1 Hf) as Hf1.
        pose proof (Forall_wfv_mono _ _ _ L1 Hl) as Hl1. pose proof (Forall_wfv_mono _ _ _ L1 Hr) as Hr1.
        inversion Hl1 as [|? ? Ha1 Hl1']; subst. inversion Hr1 as [|? ? Hb1 Hr1']; subst.
        destruct c as [[]| | | |]; try (split; [exact L1|intros l E; discriminate E]).
        * destruct (IHl (b :: right') st1 Hs1 Hf1 Hl1' Hr1) as [L2 V2].
          destruct (merge_by store call func left' (b :: right') st1) as [res st2]. cbn [fst snd] in *.
          split; [eapply slen_trans; eauto|]. intros l E. destruct res; try discriminate E. inversion E; subst.
          constructor; [eapply wfv_mono; eauto|apply V2; reflexivity].
        * specialize (IHr st1 Hs1 Hf1 Hl1 Hr1'). cbn [merge_by] in IHr. destruct IHr as [L2 V2].
          match goal with |- context [(fix merge_right (r : list value) (s : store) {struct r} := _) right' st1] =>
            destruct ((fix merge_right (r : list value) (s : store) {struct r} := _) right' st1) as [res st2] end.
          cbn [fst snd] in *.
          split; [eapply slen_trans; eauto|]. intros l E. destruct res; try discriminate E. inversion E; subst.
          constructor; [eapply wfv_mono; eauto|apply V2; reflexivity].
        * destruct (IHl (b :: right') st1 Hs1 Hf1 Hl1' Hr1) as [L2 V2].
          destruct (merge_by store call func left' (b :: right') st1) as [res st2]. cbn [fst snd] in *.
          split; [eapply slen_trans; eauto|]. intros l E. destruct res; try discriminate E. inversion E; subst.
          constructor; [eapply wfv_mono; eauto|apply V2; reflexivity].
  Qed.

  Lemma Forall_firstn : forall {A} (P : A -> Prop) k l, Forall P l -> Forall P (firstn k l).
  Proof. intros A P k l H. rewrite Forall_forall in *. intros x Hx. apply H. rewrite <- (firstn_skipn k l). apply in_or_app; left; exact Hx. Qed.
  Lemma Forall_skipn : forall {A} (P : A -> Prop) k l, Forall P l -> Forall P (skipn k l).
  Proof. intros A P k l H. rewrite Forall_forall in *. intros x Hx. apply H. rewrite <- (firstn_skipn k l). apply in_or_app; right; exact Hx. Qed.

  Lemma merge_sort_by_fuel_wf : forall fuel func l st,
    slen_le s0 st -> wfv st func -> Forall (wfv st) l ->
    postL st (merge_sort_by_fuel store call fuel func l st).
  Proof.
    induction fuel as [|f IH]; intros func l st Hs0 Hf Hl; cbn [merge_sort_by_fuel].
    - split; [apply slen_refl|intros l0 E; inversion E; subst; exact Hl].
    - destruct (Datatypes.length l <? 2)%nat; [split; [apply slen_refl|intros l0 E; inversion E; subst; exact Hl]|].
      destruct (IH func (firstn (Datatypes.length l / 2) l) st Hs0 Hf (Forall_firstn _ _ _ Hl)) as [L1 V1].
      destruct (merge_sort_by_fuel store call f func (firstn (Datatypes.length l / 2) l) st) as [sl st1]. cbn [fst snd] in *.
      destruct sl as [left'| | | |]; try (split; [exact L1|intros l0 E; discriminate E]).
      assert (Hs1 : slen_le s0 st1) by (eapply slen_trans; eauto).
      destruct (IH func (skipn (Datatypes.length l / 2) l) st1 Hs1 (wfv_mono _ _ _ L1 Hf)
                  (Forall_skipn _ _ _ (Forall_wfv_mono _ _ _ L1 Hl))) as [L2 V2].
      destruct (merge_sort_by_fuel store call f func (skipn (Datatypes.length l / 2) l) st1) as [sr st2]. cbn [fst snd] in *.
      assert (L : slen_le st st2) by (eapply slen_trans; eauto).
      destruct sr as [right'| | | |]; try (split; [exact L|intros l0 E; discriminate E]).
      assert (Hs2 : slen_le s0 st2) by (eapply slen_trans; eauto).
      destruct (merge_by_wf func left' right' st2 Hs2 (wfv_mono _ _ _ L Hf)
                  (Forall_wfv_mono _ _ _ L2 (V1 _ eq_refl)) (V2 _ eq_refl)) as [L3 V3].
      split; [eapply slen_trans; eauto|exact V3].
  Qed.

  Lemma barg_wfv : forall st args i v, Forall (wfv st) args -> arg args i = Ok v -> wfv st v.
  Proof.
    intros st args i v Hc H. unfold arg in H. destruct (nth_error args i) eqn:E; inversion H; subst.
    rewrite Forall_forall in Hc. apply Hc. eapply nth_error_In; eauto.
  Qed.

  Definition postV (st : store) (x : outcome value * store) : Prop :=
    slen_le st (snd x) /\ (forall v, fst x = Ok v -> wfv (snd x) v).
  Lemma postV_same : forall st (o : outcome value), is_ok o = false -> postV st (o, st).
  Proof. intros st o Ho. split; [apply slen_refl|intros v E; cbn [fst] in E; subst; discriminate Ho]. Qed.

  Lemma bi_sort_by_wf : forall args st, slen_le s0 st -> Forall (wfv st) args -> postV st (bi_sort_by store call args st).
  Proof.
    intros args st Hs0 Ha. unfold bi_sort_by.
    destruct (arg args 1) as [func| | | |] eqn:E1; try (apply postV_same; reflexivity).
    destruct (arg args 0) as [a0| | | |] eqn:E0; cbn [obind]; try (apply postV_same; reflexivity).
    destruct (as_list a0) as [l| | | |] eqn:El; try (apply postV_same; reflexivity).
    destruct a0; try discriminate El. inversion El; subst.
    pose proof (barg_wfv _ _ _ _ Ha E1) as Hf. pose proof (barg_wfv _ _ _ _ Ha E0) as Hl. apply vlt_VList in Hl.
    unfold sort_by_list.
    destruct (merge_sort_by_fuel_wf (Datatypes.length l) func l st Hs0 Hf Hl) as [L V].
    destruct (merge_sort_by_fuel store call (Datatypes.length l) func l st) as [res st1]. cbn [fst snd] in *.
    split; [exact L|]. intros v E. destruct res; try discriminate E. inversion E; subst. apply vlt_VList. apply V; reflexivity.
  Qed.

  Lemma keyed_items_wf : forall func l st,
    slen_le s0 st -> wfv st func -> Forall (wfv st) l ->
    slen_le st (snd (keyed_items store call func l st)) /\
    (forall k, fst (keyed_items store call func l st) = Ok k ->
       Forall (fun kv => wfv (snd (keyed_items store call func l st)) (snd kv)) k).
  Proof.
    intros func l. induction l as [|item rest IH]; intros st Hs0 Hf Hl; cbn [keyed_items].
    - split; [apply slen_refl|intros k E; inversion E; constructor].
    - inversion Hl as [|? ? Hi Hr]; subst.
      destruct (call func func [item] st) as [k st1] eqn:E.
      destruct (Hcall func func [item] st k st1 Hs0 Hf Hf (Forall_cons _ Hi (Forall_nil _)) E) as [L1 _].
      destruct k as [v| | | |]; try (split; [exact L1|intros k E2; discriminate E2]).
      destruct v; try (split; [exact L1|intros k E2; discriminate E2]).
      assert (Hs1 : slen_le s0 st1) by (eapply slen_trans; eauto).
      destruct (IH st1 Hs1 (wfv_mono _ _ _ L1 Hf) (Forall_wfv_mono _ _ _ L1 Hr)) as [L2 V2].
      destruct (keyed_items store call func rest st1) as [more st2]. cbn [fst snd] in *.
      split; [eapply slen_trans; eauto|]. intros k E2. destruct more; try discriminate E2. inversion E2; subst.
      constructor; [cbn [snd]; eapply wfv_mono; [|exact Hi]; eapply slen_trans; eauto|apply V2; reflexivity].
  Qed.

  Lemma group_push_wf : forall n groups key item,
    Forall (fun g => Forall (vlt n) (snd g)) groups -> vlt n item ->
    Forall (fun g => Forall (vlt n) (snd g)) (group_push groups key item).
  Proof.
    intros n groups key item H Hi. induction H as [|[k items] rest Hg Hrest IH]; cbn [group_push].
    - constructor; [cbn [snd]; constructor; [exact Hi|constructor]|constructor].
    - destruct (String.eqb key k).
      + constructor; [|assumption]. cbn [snd] in *. apply Forall_app. split; [exact Hg|constructor; [exact Hi|constructor]].
      + constructor; [exact Hg|exact IH].
  Qed.
  Lemma groups_of_wf : forall n keyed, Forall (fun kv => vlt n (snd kv)) keyed ->
    Forall (fun g => Forall (vlt n) (snd g)) (groups_of keyed).
  Proof.
    intros n keyed. unfold groups_of.
    assert (G : forall acc, Forall (fun g => Forall (vlt n) (snd g)) acc -> Forall (fun kv => vlt n (snd kv)) keyed ->
              Forall (fun g => Forall (vlt n) (snd g))
                (fold_left (fun groups kv => group_push groups (fst kv) (snd kv)) keyed acc)).
    { induction keyed as [|kv keyed IH]; intros acc Hacc Hk; cbn [fold_left]; [exact Hacc|].
      inversion Hk; subst. apply IH; [apply group_push_wf; assumption|assumption]. }
    apply G. constructor.
  Qed.

  Lemma by_prologue_wf : forall st args func l, Forall (wfv st) args -> by_prologue args = Ok (func, l) ->
    wfv st func /\ Forall (wfv st) l.
  Proof.
    intros st args func l Ha H. unfold by_prologue in H.
    destruct (arg args 1) as [f0| | | |] eqn:E1; try discriminate. cbn [obind] in H.
    destruct (arg args 0) as [a0| | | |] eqn:E0; try discriminate. cbn [obind] in H.
    destruct (as_list a0) as [l0| | | |] eqn:El; try discriminate. cbn [obind] in H.
    destruct (is_function f0); try discriminate. inversion H; subst.
    destruct a0; try discriminate El. inversion El; subst.
    split; [eapply barg_wfv; eauto|]. apply vlt_VList. eapply barg_wfv; eauto.
  Qed.

  Lemma bi_group_by_wf : forall args st, slen_le s0 st -> Forall (wfv st) args -> postV st (bi_group_by store call args st).
  Proof.
    intros args st Hs0 Ha. unfold bi_group_by.
    destruct (by_prologue args) as [[func l]| | | |] eqn:E; try (apply postV_same; reflexivity).
    destruct (by_prologue_wf _ _ _ _ Ha E) as [Hf Hl].
    destruct (keyed_items_wf func l st Hs0 Hf Hl) as [L V].
    destruct (keyed_items store call func l st) as [keyed st1]. cbn [fst snd] in *.
    split; [exact L|]. intros v Ev. destruct keyed as [k| | | |]; try discriminate Ev. inversion Ev; subst.
    unfold wfv. cbn [fst snd]. apply vlt_VRec. pose proof (groups_of_wf _ _ (V k eq_refl)) as G. clear - G.
    induction G as [|g gs Hg _ IHg]; cbn [map]; constructor; [|exact IHg]. cbn [snd]. apply vlt_VList. exact Hg.
  Qed.
  Lemma bi_count_by_wf : forall args st, slen_le s0 st -> Forall (wfv st) args -> postV st (bi_count_by store call args st).
  Proof.
    intros args st Hs0 Ha. unfold bi_count_by.
    destruct (by_prologue args) as [[func l]| | | |] eqn:E; try (apply postV_same; reflexivity).
    destruct (by_prologue_wf _ _ _ _ Ha E) as [Hf Hl].
    destruct (keyed_items_wf func l st Hs0 Hf Hl) as [L V].
    destruct (keyed_items store call func l st) as [keyed st1]. cbn [fst snd] in *.
    split; [exact L|]. intros v Ev. destruct keyed as [k| | | |]; try discriminate Ev. inversion Ev; subst.
    unfold wfv. cbn [fst snd]. apply vlt_VRec. generalize (counts_of k). intros cs. induction cs; cbn [map]; constructor; [reflexivity|assumption].
  Qed.
End ListWf.

Lemma builtin_full_wf : builtin_wf builtin_full.
Proof.
  intros cb s0 Hcb b args st res st' Hs0 Ha H.
  destruct (pure_arm_of b) as [f|] eqn:E.
  - rewrite (builtin_full_pure cb b f E) in H. unfold pure_bi in H. inversion H; subst.
    split; [apply slen_refl|]. intros v Ev. exact (pure_arms_wf (length st') b f E args v Ha Ev).
  - destruct (callback_arm b) eqn:C.
    + destruct b; cbn in E, C; try discriminate; cbn [builtin_full] in H.
      * pose proof (bi_sort_by_wf cb s0 Hcb args st Hs0 Ha) as P. rewrite H in P. exact P.
      * pose proof (bi_group_by_wf cb s0 Hcb args st Hs0 Ha) as P. rewrite H in P. exact P.
      * pose proof (bi_count_by_wf cb s0 Hcb args st Hs0 Ha) as P. rewrite H in P. exact P.
    + rewrite (builtin_full_other cb b E C) in H. exact (builtin_impl_wf cb s0 Hcb b args st res st' Hs0 Ha H).
Qed.

Theorem ops_wf_full : ops_wf binop_impl builtin_full.
Proof. split; [exact binop_impl_wf|exact builtin_full_wf]. Qed.

(* ================= statement sequences (Program.v) ================= *)
Open Scope nat_scope.
Section Prog.
  Variable eval : cfg -> expr -> result.
  Hypothesis Heval : forall e, wf_ok eval e.

  Lemma exec_stmt_wf : forall s t, wfc (s_cfg s) -> wfc (s_cfg (fst (exec_stmt eval s t))).
  Proof.
    intros s t Hs. destruct t as [e|e|]; cbn [exec_stmt]; [| |exact Hs].
    - destruct (Heval e (s_cfg s) Hs) as (_ & W & _). destruct (eval (s_cfg s) e) as [r c']. exact W.
    - destruct (Heval e (s_cfg s) Hs) as (_ & W & _). destruct (eval (s_cfg s) e) as [r [st' fr']]. cbn [fst snd] in W.
      match goal with |- context [match ?d with Some _ => _ | None => _ end] => destruct d as [[x v]|] end;
        [destruct (validate_portable st' fr' v)|]; exact W.
  Qed.

  (* after ANY statement sequence (CLI semantics: the loop stops at the first failing statement) *)
  Theorem run_wf : forall prog s, wfc (s_cfg s) -> wfc (s_cfg (fst (run eval s prog))).
  Proof.
    induction prog as [|t rest IH]; intros s Hs; cbn [run]; [exact Hs|].
    pose proof (exec_stmt_wf s t Hs) as H1. destruct (exec_stmt eval s t) as [s' r]. cbn [fst] in H1.
    destruct r; try exact H1.
    - specialize (IH s' H1). destruct (run eval s' rest) as [s'' rs]. exact IH.
    - apply IH. exact H1.
  Qed.
  (* session semantics: the configuration after every statement, failures included *)
  Theorem run_trace_wf : forall stop prog s, wfc (s_cfg s) ->
    Forall (fun rc => wfc (snd rc)) (run_trace eval stop s prog).
  Proof.
    intros stop. induction prog as [|t rest IH]; intros s Hs; cbn [run_trace]; [constructor|].
    pose proof (exec_stmt_wf s t Hs) as H1. destruct (exec_stmt eval s t) as [s' r]. cbn [fst] in H1.
    destruct r; try (constructor; [exact H1|destruct stop; [constructor|apply IH; exact H1]]).
    - constructor; [exact H1|apply IH; exact H1].
    - apply IH; exact H1.
  Qed.
End Prog.

(* the initial configuration: empty store, one frame binding `inputs` (function-free: it comes from JSON) *)
Lemma init_wf : forall inputs, frame_lt 0 inputs = true -> wfc (s_cfg (init_session inputs)).
Proof.
  intros inputs H. unfold wfc, init_session. cbn [s_cfg fst snd length].
  constructor; [|constructor]. cbn [snd]. constructor; [|constructor]. cbn [snd]. exact H.
Qed.
Lemma init_wf_empty : wfc (s_cfg (init_session [])).
Proof. apply init_wf. reflexivity. Qed.

(* ---- the evaluators of EvalInst.v / EvalFull.v ---- *)
Theorem evalD_cfg_wf : forall release d e c r c',
  cfg_wf c = true -> evalD release binop_impl builtin_impl d c e = (r, c') ->
  cfg_wf c' = true /\ length (fst c) <= length (fst c') /\ (forall v, r = Ok v -> ids_lt (length (fst c')) v = true).
Proof.
  intros release d e c r c' Hc H. apply cfg_wf_iff in Hc.
  destruct (evalD_wf release binop_impl builtin_impl binop_impl_wf builtin_impl_wf d e c Hc) as (L & W & V).
  rewrite H in L, W, V. cbn [fst snd] in *. split; [apply cfg_wf_iff; exact W|split; [exact L|exact V]].
Qed.
Theorem evalD_cfg_wf_full : forall release d e c r c',
  cfg_wf c = true -> evalD release binop_impl builtin_full d c e = (r, c') ->
  cfg_wf c' = true /\ length (fst c) <= length (fst c') /\ (forall v, r = Ok v -> ids_lt (length (fst c')) v = true).
Proof.
  intros release d e c r c' Hc H. apply cfg_wf_iff in Hc.
  destruct (evalD_wf release binop_impl builtin_full binop_impl_wf builtin_full_wf d e c Hc) as (L & W & V).
  rewrite H in L, W, V. cbn [fst snd] in *. split; [apply cfg_wf_iff; exact W|split; [exact L|exact V]].
Qed.

Theorem program_cfg_wf : forall release d0 inputs prog,
  frame_lt 0 inputs = true ->
  cfg_wf (s_cfg (fst (run (evalD release binop_impl builtin_impl d0) (init_session inputs) prog))) = true.
Proof.
  intros release d0 inputs prog Hi. apply cfg_wf_iff. apply run_wf; [|apply init_wf; exact Hi].
  intros e. apply evalD_wf; [exact binop_impl_wf|exact builtin_impl_wf].
Qed.
Theorem program_cfg_wf_full : forall release d0 inputs prog,
  frame_lt 0 inputs = true ->
  cfg_wf (s_cfg (fst (run (evalD release binop_impl builtin_full d0) (init_session inputs) prog))) = true.
Proof.
  intros release d0 inputs prog Hi. apply cfg_wf_iff. apply run_wf; [|apply init_wf; exact Hi].
  intros e. apply evalD_wf; [exact binop_impl_wf|exact builtin_full_wf].
Qed.
Theorem session_cfg_wf_full : forall release d0 stop inputs prog,
  frame_lt 0 inputs = true ->
  Forall (fun rc => cfg_wf (snd rc) = true)
         (run_trace (evalD release binop_impl builtin_full d0) stop (init_session inputs) prog).
Proof.
  intros release d0 stop inputs prog Hi.
  eapply Forall_impl; [|apply (run_trace_wf (evalD release binop_impl builtin_full d0))].
  - intros rc H. apply cfg_wf_iff. exact H.
  - intros e. apply evalD_wf; [exact binop_impl_wf|exact builtin_full_wf].
  - apply init_wf; exact Hi.
Qed.

(* EVAL-TWICE after ANY program: no hypothesis on the configuration is left *)
Require Import Blots.proofs.Scoping Blots.proofs.C02OpsFull.
Theorem eval_twice_after_any_program : forall release d0 d inputs prog e r1 c1 r2 c2,
  frame_lt 0 inputs = true -> no_assign e = true ->
  let c := s_cfg (fst (run (evalD release binop_impl builtin_impl d0) (init_session inputs) prog)) in
  evalD release binop_impl builtin_impl d c e = (r1, c1) ->
  evalD release binop_impl builtin_impl d c1 e = (r2, c2) ->
  osame r1 r2 /\ snd c2 = snd c /\ snd c1 = snd c.
Proof.
  intros release d0 d inputs prog e r1 c1 r2 c2 Hi Hna c HA HB.
  exact (eval_twice_inst_uncond release d e c r1 c1 r2 c2 Hna (program_cfg_wf release d0 inputs prog Hi) HA HB).
Qed.
Theorem eval_twice_after_any_program_full : forall release d0 d inputs prog e r1 c1 r2 c2,
  frame_lt 0 inputs = true -> no_assign e = true ->
  let c := s_cfg (fst (run (evalD release binop_impl builtin_full d0) (init_session inputs) prog)) in
  evalD release binop_impl builtin_full d c e = (r1, c1) ->
  evalD release binop_impl builtin_full d c1 e = (r2, c2) ->
  osame r1 r2 /\ snd c2 = snd c /\ snd c1 = snd c.
Proof.
  intros release d0 d inputs prog e r1 c1 r2 c2 Hi Hna c HA HB.
  exact (eval_twice_full release d e c r1 c1 r2 c2 Hna (program_cfg_wf_full release d0 inputs prog Hi) HA HB).
Qed.
