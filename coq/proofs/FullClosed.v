(* FullClosed.v — the pure built-ins added by EvalFull.v (aggregates of BuiltinsAgg.v; list,
   string and record built-ins of BuiltinsList.v) return hereditarily closed values on
   hereditarily closed arguments: every function inside their result was inside an argument.
   Needed to extend C04's call-site independence to the evaluator with every built-in. *)
From Coq Require Import String Ascii List ZArith Bool Lia Permutation.
Require Import Blots.Num Blots.gen.Builtins Blots.Ast Blots.Value Blots.Outcome Blots.Binop
               Blots.Env Blots.Eval Blots.BuiltinsHof Blots.Program Blots.EvalInst Blots.EvalFull
               Blots.BuiltinsList Blots.BuiltinsAgg Blots.BuiltinsText Blots.NumText
               Blots.proofs.ValueInd Blots.proofs.StoreMono Blots.proofs.Closed Blots.proofs.ClosedOps
               Blots.proofs.SortLaws.
Import ListNotations.
Open Scope list_scope.
Open Scope nat_scope.

(* the result is a number, a boolean, a string or null: closed in every store *)
Ltac atomic_result H :=
  repeat match type of H with
  | obind ?x _ = Ok _ => destruct x; cbn [obind] in H; try discriminate H
  | (if ?c then _ else _) = Ok _ => destruct c; try discriminate H
  | (match ?x with _ => _ end) = Ok _ => destruct x; try discriminate H
  end;
  try (inversion H; subst; exact I).

Section Pure.
  Variable st : store.

  Lemma closed_incl : forall l l', closed_list st l -> (forall x, In x l' -> In x l) -> closed_list st l'.
  Proof.
    intros l l' Hc Hin. unfold closed_list in *. rewrite Forall_forall in *. intros x Hx. apply Hc, Hin, Hx.
  Qed.
  Lemma closed_atoms : forall {A} (f : A -> value) l, (forall a, atomic (f a)) -> closed_list st (map f l).
  Proof.
    intros A f l Hf. unfold closed_list. rewrite Forall_forall. intros x Hx. apply in_map_iff in Hx.
    destruct Hx as [a [<- _]]. apply atomic_closed. apply Hf.
  Qed.
  Lemma barg_closed : forall args i v, closed_list st args -> BuiltinsList.arg args i = Ok v -> closed_value st v.
  Proof.
    intros args i v Hc H. unfold BuiltinsList.arg in H. destruct (nth_error args i) eqn:E; inversion H; subst.
    unfold closed_list in Hc. rewrite Forall_forall in Hc. apply Hc. eapply nth_error_In; eauto.
  Qed.
  Lemma aarg_closed : forall args i v, closed_list st args -> BuiltinsAgg.arg args i = Ok v -> closed_value st v.
  Proof.
    intros args i v Hc H. unfold BuiltinsAgg.arg in H. destruct (nth_error args i) eqn:E; inversion H; subst.
    unfold closed_list in Hc. rewrite Forall_forall in Hc. apply Hc. eapply nth_error_In; eauto.
  Qed.

  (* ---- aggregates: always a number ---- *)
  Lemma bi_min_closed : forall args v, bi_min args = Ok v -> closed_value st v.
  Proof. intros args v H. unfold bi_min in H. atomic_result H. Qed.
  Lemma bi_max_closed : forall args v, bi_max args = Ok v -> closed_value st v.
  Proof. intros args v H. unfold bi_max in H. atomic_result H. Qed.
  Lemma bi_avg_closed : forall args v, bi_avg args = Ok v -> closed_value st v.
  Proof. intros args v H. unfold bi_avg in H. atomic_result H. Qed.
  Lemma bi_sum_closed : forall args v, bi_sum args = Ok v -> closed_value st v.
  Proof. intros args v H. unfold bi_sum in H. atomic_result H. Qed.
  Lemma bi_prod_closed : forall args v, bi_prod args = Ok v -> closed_value st v.
  Proof. intros args v H. unfold bi_prod in H. atomic_result H. Qed.
  Lemma bi_median_closed : forall args v, bi_median args = Ok v -> closed_value st v.
  Proof. intros args v H. unfold bi_median in H. atomic_result H. Qed.
  Lemma bi_percentile_closed : forall args v, bi_percentile args = Ok v -> closed_value st v.
  Proof. intros args v H. unfold bi_percentile, bi_percentile_gen in H. atomic_result H. Qed.
  Lemma bi_dot_closed : forall args v, bi_dot args = Ok v -> closed_value st v.
  Proof. intros args v H. unfold bi_dot in H. atomic_result H. Qed.

  (* ---- list built-ins ---- *)
  Lemma bi_range_closed : forall args v, bi_range args = Ok v -> closed_value st v.
  Proof.
    assert (Hb : forall a b v, range_body a b = Ok v -> closed_value st v).
    { intros a b v H. unfold range_body in H.
      destruct (ngtb a b); try discriminate. destruct (_ || _); try discriminate.
      destruct (_ <? _)%Z; try discriminate. inversion H; subst.
      apply closed_VList. apply closed_atoms. intros z; exact I. }
    intros args v H. unfold bi_range in H.
    destruct args as [|[] [|[] [|? ?]]]; try discriminate; eapply Hb; exact H.
  Qed.

  Lemma bi_len_closed : forall args v, bi_len args = Ok v -> closed_value st v.
  Proof. intros args v H. unfold bi_len in H. atomic_result H. Qed.

  Lemma bi_head_closed : forall args v, closed_list st args -> bi_head args = Ok v -> closed_value st v.
  Proof.
    intros args v Hc H. unfold bi_head in H.
    destruct (BuiltinsList.arg args 0) as [a0| | | |] eqn:E0; try discriminate. cbn [obind] in H.
    pose proof (barg_closed _ _ _ Hc E0) as Ha0.
    destruct a0; try discriminate; inversion H; subst; try exact I.
    apply closed_VList in Ha0. destruct l; [exact I|]. inversion Ha0; assumption.
  Qed.

  Lemma in_firstn_in : forall {A} n (l : list A) x, In x (firstn n l) -> In x l.
  Proof.
    intros A n; induction n as [|n IH]; intros l x H; [destruct H|].
    destruct l as [|a l]; [destruct H|]. cbn [firstn] in H. destruct H as [<-|H]; [left; reflexivity|right; apply IH; exact H].
  Qed.
  Lemma in_skipn_in : forall {A} n (l : list A) x, In x (skipn n l) -> In x l.
  Proof.
    intros A n; induction n as [|n IH]; intros l x H; [exact H|].
    destruct l as [|a l]; [destruct H|]. cbn [skipn] in H. right; apply IH; exact H.
  Qed.
  Lemma slice_get_in : forall {A} (l : list A) a b x y, slice_get l a b = Some x -> In y x -> In y l.
  Proof.
    intros A l a b x y H Hy. unfold slice_get in H. destruct (_ && _); try discriminate.
    inversion H; subst. apply in_firstn_in in Hy. eapply in_skipn_in. exact Hy.
  Qed.

  Lemma bi_tail_closed : forall args v, closed_list st args -> bi_tail args = Ok v -> closed_value st v.
  Proof.
    intros args v Hc H. unfold bi_tail in H.
    destruct (BuiltinsList.arg args 0) as [a0| | | |] eqn:E0; try discriminate. cbn [obind] in H.
    pose proof (barg_closed _ _ _ Hc E0) as Ha0.
    destruct a0; try discriminate; inversion H; subst; try exact I.
    apply closed_VList in Ha0. apply closed_VList.
    destruct (slice_get l 1 (Z.of_nat (Datatypes.length l))) eqn:E; [|constructor].
    eapply closed_incl; [exact Ha0|]. intros x Hx. eapply slice_get_in; eauto.
  Qed.

  Lemma bi_slice_closed : forall args v, closed_list st args -> bi_slice args = Ok v -> closed_value st v.
  Proof.
    intros args v Hc H. unfold bi_slice in H.
    destruct (BuiltinsList.arg args 1); try discriminate; cbn [obind] in H.
    destruct (BuiltinsList.as_number a); try discriminate; cbn [obind] in H.
    destruct (BuiltinsList.arg args 2); try discriminate; cbn [obind] in H.
    destruct (BuiltinsList.as_number a1); try discriminate; cbn [obind] in H.
    destruct (BuiltinsList.arg args 0) as [a0'| | | |] eqn:E0; try discriminate. cbn [obind] in H.
    pose proof (barg_closed _ _ _ Hc E0) as Ha0.
    destruct a0'; try discriminate.
    - match type of H with match ?x with _ => _ end = _ => destruct x end; inversion H; exact I.
    - match type of H with match ?x with _ => _ end = _ => destruct x eqn:E end; inversion H; subst.
      apply closed_VList in Ha0. apply closed_VList.
      eapply closed_incl; [exact Ha0|]. intros x Hx. eapply slice_get_in; eauto.
  Qed.

  Lemma concat_args_closed : forall args, closed_list st args -> closed_list st (concat_args args).
  Proof.
    induction args as [|a rest IH]; intros Hc; cbn [concat_args]; [constructor|].
    inversion Hc as [|? ? Ha Hr]; subst. specialize (IH Hr).
    assert (Hdef : closed_list st (a :: concat_args rest)) by (constructor; assumption).
    destruct a; try exact Hdef.
    - apply closed_VList in Ha. apply Forall_app. split; assumption.
    - destruct a; try exact Hdef.
      + apply Forall_app. split; [apply closed_atoms; intros; exact I|exact IH].
      + cbn [closed_value] in Ha. apply closed_VList in Ha. apply Forall_app. split; assumption.
  Qed.
  Lemma bi_concat_closed : forall args v, closed_list st args -> bi_concat args = Ok v -> closed_value st v.
  Proof.
    intros args v Hc H. unfold bi_concat in H. inversion H; subst. apply closed_VList.
    apply concat_args_closed; exact Hc.
  Qed.

  Lemma unique_go_in : forall items acc x, In x (unique_go items acc) -> In x items \/ In x acc.
  Proof.
    induction items as [|i rest IH]; intros acc x H; cbn [unique_go] in H; [right; exact H|].
    destruct (existsb _ acc).
    - destruct (IH _ _ H) as [Hr|Ha]; [left; right; exact Hr|right; exact Ha].
    - destruct (IH _ _ H) as [Hr|Ha]; [left; right; exact Hr|].
      apply in_app_or in Ha. destruct Ha as [Ha|[<-|[]]]; [right; exact Ha|left; left; reflexivity].
  Qed.
  Lemma bi_unique_closed : forall args v, closed_list st args -> bi_unique args = Ok v -> closed_value st v.
  Proof.
    intros args v Hc H. unfold bi_unique in H.
    destruct (BuiltinsList.arg args 0) as [a0| | | |] eqn:E0; try discriminate. cbn [obind] in H.
    pose proof (barg_closed _ _ _ Hc E0) as Ha0.
    destruct a0; try discriminate. cbn in H. inversion H; subst.
    apply closed_VList in Ha0. apply closed_VList. eapply closed_incl; [exact Ha0|].
    intros x Hx. destruct (unique_go_in _ _ _ Hx) as [Hi|[]]. exact Hi.
  Qed.

  Lemma bi_sort_closed : forall args v, closed_list st args -> bi_sort args = Ok v -> closed_value st v.
  Proof.
    intros args v Hc H. unfold bi_sort in H.
    destruct (BuiltinsList.arg args 0) as [a0| | | |] eqn:E0; try discriminate. cbn [obind] in H.
    pose proof (barg_closed _ _ _ Hc E0) as Ha0.
    destruct a0; try discriminate. cbn in H. inversion H; subst.
    apply closed_VList in Ha0. apply closed_VList. eapply closed_incl; [exact Ha0|].
    intros x Hx. eapply Permutation_in; [symmetry; apply merge_sort_perm|exact Hx].
  Qed.

  Lemma bi_reverse_closed : forall args v, closed_list st args -> bi_reverse args = Ok v -> closed_value st v.
  Proof.
    intros args v Hc H. unfold bi_reverse in H.
    destruct (BuiltinsList.arg args 0) as [a0| | | |] eqn:E0; try discriminate. cbn [obind] in H.
    pose proof (barg_closed _ _ _ Hc E0) as Ha0.
    destruct a0; try discriminate. cbn in H. inversion H; subst.
    apply closed_VList in Ha0. apply closed_VList. eapply closed_incl; [exact Ha0|].
    intros x Hx. apply in_rev. exact Hx.
  Qed.

  Lemma bi_split_closed : forall args v, bi_split args = Ok v -> closed_value st v.
  Proof.
    intros args v H. unfold bi_split in H.
    destruct (BuiltinsList.arg args 0); try discriminate; cbn [obind] in H.
    destruct (BuiltinsList.as_string a); try discriminate; cbn [obind] in H.
    destruct (BuiltinsList.arg args 1); try discriminate; cbn [obind] in H.
    destruct (BuiltinsList.as_string a1); try discriminate; cbn [obind] in H.
    inversion H; subst. apply closed_VList. apply closed_atoms. intros; exact I.
  Qed.
  Lemma bi_replace_closed : forall args v, bi_replace args = Ok v -> closed_value st v.
  Proof. intros args v H. unfold bi_replace in H. atomic_result H. Qed.
  Lemma bi_includes_closed : forall args v, bi_includes args = Ok v -> closed_value st v.
  Proof.
    intros args v H. unfold bi_includes in H.
    destruct (BuiltinsList.arg args 0) as [a0| | | |]; try discriminate. cbn [obind] in H.
    destruct a0; try discriminate.
    - atomic_result H.
    - induction l as [|item rest IH]; [inversion H; exact I|].
      destruct (BuiltinsList.arg args 1); try discriminate. cbn [obind] in H.
      destruct (equals item a); [inversion H; exact I|apply IH; exact H].
  Qed.

  (* ---- records ---- *)
  Lemma bi_keys_closed : forall args v, bi_keys args = Ok v -> closed_value st v.
  Proof.
    intros args v H. unfold bi_keys in H.
    destruct (BuiltinsList.arg args 0); try discriminate; cbn [obind] in H.
    destruct (as_record a); try discriminate; cbn [obind] in H.
    inversion H; subst. apply closed_VList. apply closed_atoms. intros; exact I.
  Qed.
  Lemma bi_values_closed : forall args v, closed_list st args -> bi_values args = Ok v -> closed_value st v.
  Proof.
    intros args v Hc H. unfold bi_values in H.
    destruct (BuiltinsList.arg args 0) as [a0| | | |] eqn:E0; try discriminate. cbn [obind] in H.
    pose proof (barg_closed _ _ _ Hc E0) as Ha0.
    destruct a0; try discriminate. cbn in H. inversion H; subst.
    apply closed_VRec in Ha0. apply closed_VList. unfold closed_list, closed_frame in *.
    rewrite Forall_forall in *. intros x Hx. apply in_map_iff in Hx. destruct Hx as [kv [<- Hkv]].
    apply Ha0; exact Hkv.
  Qed.
  Lemma bi_entries_closed : forall args v, closed_list st args -> bi_entries args = Ok v -> closed_value st v.
  Proof.
    intros args v Hc H. unfold bi_entries in H.
    destruct (BuiltinsList.arg args 0) as [a0| | | |] eqn:E0; try discriminate. cbn [obind] in H.
    pose proof (barg_closed _ _ _ Hc E0) as Ha0.
    destruct a0; try discriminate. cbn in H. inversion H; subst.
    apply closed_VRec in Ha0. apply closed_VList. unfold closed_list, closed_frame in *.
    rewrite Forall_forall in *. intros x Hx. apply in_map_iff in Hx. destruct Hx as [kv [<- Hkv]].
    apply closed_VList. repeat constructor. apply Ha0; exact Hkv.
  Qed.

  (* ---- flatten zip chunk ---- *)
  Lemma flatten_items_closed : forall l, closed_list st l -> closed_list st (flatten_items l).
  Proof.
    induction l as [|a rest IH]; intros Hc; cbn [flatten_items]; [constructor|].
    inversion Hc as [|? ? Ha Hr]; subst. specialize (IH Hr).
    destruct a; try (constructor; assumption).
    apply closed_VList in Ha. apply Forall_app. split; assumption.
  Qed.
  Lemma bi_flatten_closed : forall args v, closed_list st args -> bi_flatten args = Ok v -> closed_value st v.
  Proof.
    intros args v Hc H. unfold bi_flatten in H.
    destruct (BuiltinsList.arg args 0) as [a0| | | |] eqn:E0; try discriminate. cbn [obind] in H.
    pose proof (barg_closed _ _ _ Hc E0) as Ha0.
    destruct a0; try discriminate. cbn in H. inversion H; subst.
    apply closed_VList in Ha0. apply closed_VList. apply flatten_items_closed; exact Ha0.
  Qed.

  Lemma zip_lists_closed : forall args lists,
    closed_list st args ->
    mapM (fun a => match a with VList l => Ok l | _ => Err end) args = Ok lists ->
    Forall (closed_list st) lists.
  Proof.
    induction args as [|a rest IH]; intros lists Hc H; cbn [mapM] in H.
    - inversion H; constructor.
    - inversion Hc as [|? ? Ha Hr]; subst.
      destruct a; try discriminate. cbn [obind] in H.
      destruct (mapM _ rest) eqn:E; try discriminate. cbn [obind] in H. inversion H; subst.
      constructor; [apply closed_VList; exact Ha|apply IH; auto].
  Qed.
  Lemma bi_zip_closed : forall args v, closed_list st args -> bi_zip args = Ok v -> closed_value st v.
  Proof.
    intros args v Hc H. unfold bi_zip in H.
    destruct (mapM _ args) as [lists| | | |] eqn:E; try discriminate. cbn [obind] in H.
    inversion H; subst. pose proof (zip_lists_closed _ _ Hc E) as Hl.
    apply closed_VList. unfold closed_list. rewrite Forall_forall. intros x Hx.
    apply in_map_iff in Hx. destruct Hx as [i [<- _]]. unfold zip_tuple.
    apply closed_VList. unfold closed_list. rewrite Forall_forall. intros y Hy.
    apply in_map_iff in Hy. destruct Hy as [l [<- Hin]].
    rewrite Forall_forall in Hl. specialize (Hl l Hin). unfold closed_list in Hl. rewrite Forall_forall in Hl.
    destruct (nth_in_or_default i l VNull) as [Hn|Hn]; [apply Hl; exact Hn|rewrite Hn; exact I].
  Qed.

  Lemma chunk_acc_in : forall {A} (l : list A) n room cur c x,
    In c (chunk_acc l n room cur) -> In x c -> In x l \/ In x cur.
  Proof.
    intros A l. induction l as [|y rest IH]; intros n room cur c x Hc Hx; cbn [chunk_acc] in Hc.
    - destruct cur; [destruct Hc|]. destruct Hc as [<-|[]]. right; exact Hx.
    - destruct room.
      + destruct Hc as [<-|Hc]; [right; exact Hx|].
        destruct (IH _ _ _ _ _ Hc Hx) as [Hr|[<-|[]]]; [left; right; exact Hr|left; left; reflexivity].
      + destruct (IH _ _ _ _ _ Hc Hx) as [Hr|Hr]; [left; right; exact Hr|].
        apply in_app_or in Hr. destruct Hr as [Hr|[<-|[]]]; [right; exact Hr|left; left; reflexivity].
  Qed.
  Lemma bi_chunk_closed : forall args v, closed_list st args -> bi_chunk args = Ok v -> closed_value st v.
  Proof.
    intros args v Hc H. unfold bi_chunk in H.
    destruct (BuiltinsList.arg args 1); try discriminate; cbn [obind] in H.
    destruct (BuiltinsList.as_number a); try discriminate; cbn [obind] in H.
    destruct (_ =? 0)%Z; try discriminate.
    destruct (BuiltinsList.arg args 0) as [a0'| | | |] eqn:E0; try discriminate. cbn [obind] in H.
    pose proof (barg_closed _ _ _ Hc E0) as Ha0.
    destruct a0'; try discriminate. cbn [BuiltinsList.as_list obind] in H. inversion H; subst.
    apply closed_VList in Ha0. apply closed_VList. unfold closed_list. rewrite Forall_forall.
    intros x Hx. apply in_map_iff in Hx. destruct Hx as [c [<- Hin]].
    apply closed_VList. eapply closed_incl; [exact Ha0|]. intros y Hy.
    unfold chunks in Hin. destruct (chunk_acc_in _ _ _ _ _ _ Hin Hy) as [Hl|[]]. exact Hl.
  Qed.
  (* ---- convert round to_number to_string join: a number or a string ---- *)
  Lemma obind_ok : forall {A B} (m : outcome A) (f : A -> outcome B) v,
    obind m f = Ok v -> exists a, m = Ok a /\ f a = Ok v.
  Proof. intros A B m f v H. destruct m; try discriminate H. eexists; split; [reflexivity|exact H]. Qed.
  Ltac ob H x := apply obind_ok in H; destruct H as [x [_ H]].

  Lemma bi_convert_closed : forall args v, bi_convert args = Ok v -> closed_value st v.
  Proof.
    intros args v H. unfold bi_convert in H.
    ob H a0. ob H x0. ob H a1. ob H x1. ob H a2. ob H x2.
    revert H. generalize (Units.convert UnitsBase.fl x0 x1 x2). intros r H.
    destruct r; [|discriminate H]. injection H as <-. exact I.
  Qed.
  Lemma bi_round_closed : forall args v, bi_round args = Ok v -> closed_value st v.
  Proof.
    intros args v H. unfold bi_round in H.
    ob H a0. ob H x0.
    destruct args as [|x [|y rest]].
    - ob H a1. ob H x1. injection H as <-. exact I.
    - injection H as <-. exact I.
    - ob H a1. ob H x1. injection H as <-. exact I.
  Qed.
  Lemma bi_random_closed : forall args v, bi_random args = Ok v -> closed_value st v.
  Proof. intros args v H. unfold bi_random in H. ob H a0. ob H x0. injection H as <-. exact I. Qed.
  Lemma bi_to_number_closed : forall args v, bi_to_number args = Ok v -> closed_value st v.
  Proof.
    intros args v H. unfold bi_to_number in H.
    ob H a0.
    destruct a0; try (injection H as <-; exact I);
      (ob H s0; cbv beta in H; unfold parse_result in H;
       destruct (NumText.ref_str_parse s0); [|discriminate H]; injection H as <-; exact I).
  Qed.
  Lemma bi_to_string_closed : forall args v, bi_to_string args = Ok v -> closed_value st v.
  Proof.
    intros args v H. unfold bi_to_string in H.
    ob H a0.
    destruct a0; try (injection H as <-; exact I); (ob H s0; injection H as <-; exact I).
  Qed.
  Lemma bi_join_full_closed : forall args v, bi_join_full args = Ok v -> closed_value st v.
  Proof.
    intros args v H. unfold bi_join_full in H.
    ob H a1. ob H d. ob H a0. ob H l. ob H strs. injection H as <-. exact I.
  Qed.
End Pure.
