(* JsonTextDoc.v — property C06, text level, whole documents: the parser reads back every
   document the printer writes (arrays, objects, keys, any member order, duplicate keys kept in
   text order), up to serde_json's recursion limit, under the library hypotheses on numbers. *)
From Coq Require Import String Ascii List ZArith Bool Lia.
Require Import ZifyBool ZifyNat.
Require Import Blots.Num Blots.Json Blots.JsonText Blots.proofs.JsonTextRT.
Require Blots.proofs.JsonRT.
Import ListNotations.
Open Scope Z_scope.

Fixpoint jsize (j : json) : nat :=
  match j with
  | JArr l => S (fold_right (fun x acc => (jsize x + acc)%nat) O l)
  | JObj m => S (fold_right (fun kv acc => (jsize (snd kv) + acc)%nat) O m)
  | _ => 1%nat
  end.

(* first character of a printed value: one of n t f quote [ { - 0-9 *)
Definition value_start (c : ascii) : bool :=
  let n := byte c in
  (n =? 110) || (n =? 116) || (n =? 102) || (n =? 34) || (n =? 91) || (n =? 123) || (n =? 45) || is_digit c.
Lemma value_start_facts c : value_start c = true ->
  is_ws c = false /\ byte c <> 93 /\ byte c <> 125 /\ byte c <> 44 /\ byte c <> 58.
Proof.
  unfold value_start, is_ws, is_digit. intros H. repeat split; lia.
Qed.
Lemma skip_ws_start c r : is_ws c = false -> skip_ws (String c r) = String c r.
Proof. intros H. cbn. now rewrite H. Qed.

Section Doc.
  Variable fmt_pieces : num -> numtok.
  Variable float_of_tok : numtok -> option num.
  Hypothesis H_print_wf : forall x, is_finite x = true ->
    tok_wf (fmt_pieces x) = true /\ tok_is_float (fmt_pieces x) = true.
  Hypothesis H_roundtrip : forall x, is_finite x = true -> float_of_tok (fmt_pieces x) = Some x.
  Notation jprint := (JsonText.jprint fmt_pieces).
  Notation parse_value := (JsonText.parse_value float_of_tok).

  (* ---------------------------------------------------------------- named inner loops *)
  Definition jitems := fix items (l : list json) : string :=
    match l with
    | [] => ""
    | [x] => jprint x
    | x :: r => jprint x ++ "," ++ items r
    end%string.
  Definition jmembers := fix members (m : list (string * json)) : string :=
    match m with
    | [] => ""
    | [(k, x)] => print_str k ++ ":" ++ jprint x
    | (k, x) :: r => print_str k ++ ":" ++ jprint x ++ "," ++ members r
    end%string.
  Lemma jprint_arr l : jprint (JArr l) = ("[" ++ jitems l ++ "]")%string.
  Proof. reflexivity. Qed.
  Lemma jprint_obj m : jprint (JObj m) = ("{" ++ jmembers m ++ "}")%string.
  Proof. reflexivity. Qed.

  Definition elems_of (pv : string -> option (json * string)) :=
    fix elems (k : nat) (s : string) : option (json * string) :=
      match k with
      | O => None
      | S k' =>
          match pv s with
          | None => None
          | Some (x, r1) =>
              let r1 := skip_ws r1 in
              if byte (ch r1) =? 44 then
                match elems k' (drop 1 r1) with
                | Some (JArr xs, r2) => Some (JArr (x :: xs), r2)
                | _ => None
                end
              else if byte (ch r1) =? 93 then Some (JArr [x], drop 1 r1)
              else None
          end
      end.
  Definition members_of (pv : string -> option (json * string)) :=
    fix members (k : nat) (s : string) : option (json * string) :=
      match k with
      | O => None
      | S k' =>
          let s := skip_ws s in
          if byte (ch s) =? 34 then
            match parse_str (drop 1 s) with
            | None => None
            | Some (key, r1) =>
                let r1 := skip_ws r1 in
                if byte (ch r1) =? 58 then
                  match pv (drop 1 r1) with
                  | None => None
                  | Some (x, r2) =>
                      let r2 := skip_ws r2 in
                      if byte (ch r2) =? 44 then
                        match members k' (drop 1 r2) with
                        | Some (JObj xs, r3) => Some (JObj ((key, x) :: xs), r3)
                        | _ => None
                        end
                      else if byte (ch r2) =? 125 then Some (JObj [(key, x)], drop 1 r2)
                      else None
                  end
                else None
            end
          else None
      end.

  Lemma parse_value_arr f rd' r :
    parse_value (S f) (S (S rd')) (String "[" r) =
    let r0 := skip_ws r in
    if byte (ch r0) =? 93 then Some (JArr [], drop 1 r0)
    else elems_of (parse_value f (S rd')) f r0.
  Proof. reflexivity. Qed.
  Lemma parse_value_obj f rd' r :
    parse_value (S f) (S (S rd')) (String "{" r) =
    let r0 := skip_ws r in
    if byte (ch r0) =? 125 then Some (JObj [], drop 1 r0)
    else members_of (parse_value f (S rd')) f r0.
  Proof. reflexivity. Qed.

  (* ---------------------------------------------------------------- heads *)
  Lemma render_tok_head t rest : tok_wf t = true ->
    exists c r, (render_tok t ++ rest)%string = String c r /\ value_start c = true.
  Proof.
    destruct t as [neg ip fp ep]. unfold tok_wf, render_tok. cbn [t_neg t_int t_frac t_exp].
    intros H. apply andb_prop in H as [H _]. apply andb_prop in H as [H _]. apply andb_prop in H as [Hip Hl].
    destruct neg.
    - eexists _, _. split; [reflexivity|reflexivity].
    - destruct ip as [|d0 more]; [discriminate|]. cbn in Hip. apply andb_prop in Hip as [Hd0 _].
      eexists _, _. split; [cbn; reflexivity|].
      unfold value_start. destruct (digit_char_digit d0 Hd0) as [E _]. rewrite E. now rewrite !orb_true_r.
  Qed.
  Lemma tok_of_jnumber_wf n : jnum_text_ok n = true -> tok_wf (tok_of_jnumber fmt_pieces n) = true.
  Proof.
    destruct n as [z|z|x]; cbn [jnum_text_ok tok_of_jnumber]; intros Hn.
    - assert (Hz : 0 <= z < 10 ^ 40) by (unfold U64_MAX' in Hn; lia).
      destruct (digits_of_val z Hz) as [_ Hok].
      pose proof (dec_list_head 40 z [] ltac:(lia) ltac:(lia) ltac:(lia)) as Hh. fold (digits_of z) in Hh.
      unfold tok_wf. cbn [t_int t_frac t_exp]. rewrite Hok. clear Hok.
      destruct (digits_of z) as [|d0 [|d1 more]]; [contradiction|reflexivity|].
      destruct (d0 =? 0) eqn:E; [|reflexivity]. apply Z.eqb_eq in E. destruct (Hh E) as [_ Hm]. discriminate.
    - assert (Hz : 0 <= - z < 10 ^ 40) by lia.
      destruct (digits_of_val (- z) Hz) as [_ Hok].
      pose proof (dec_list_head 40 (- z) [] ltac:(lia) ltac:(lia) ltac:(lia)) as Hh. fold (digits_of (- z)) in Hh.
      unfold tok_wf. cbn [t_int t_frac t_exp]. rewrite Hok. clear Hok.
      destruct (digits_of (- z)) as [|d0 [|d1 more]]; [contradiction|reflexivity|].
      destruct (d0 =? 0) eqn:E; [|reflexivity]. apply Z.eqb_eq in E. destruct (Hh E) as [_ Hm]. discriminate.
    - now destruct (H_print_wf x Hn).
  Qed.
  Lemma jprint_head j rest : json_text_ok j = true ->
    exists c r, (jprint j ++ rest)%string = String c r /\ value_start c = true.
  Proof.
    destruct j as [|[]|n|s|l|m]; intros H; try (eexists _, _; split; [reflexivity|reflexivity]).
    cbn [JsonText.jprint]. apply render_tok_head. now apply tok_of_jnumber_wf.
  Qed.

  (* what follows a value inside a container: , ] } — none of them continues a number *)
  Lemma no_cont_sep c r : (byte c = 44 \/ byte c = 93 \/ byte c = 125) -> no_cont (String c r) = true.
  Proof. unfold no_cont, is_digit. cbn [ch]. lia. Qed.

  (* ---------------------------------------------------------------- the loops *)
  Lemma elems_items pv rest : forall l k,
    l <> [] -> (length l <= k)%nat ->
    Forall (fun x => json_text_ok x = true /\
                     forall rest', no_cont rest' = true -> pv (jprint x ++ rest')%string = Some (x, rest')) l ->
    elems_of pv k (jitems l ++ String "]" rest)%string = Some (JArr l, rest).
  Proof.
    induction l as [|x l IH]; intros k Hne Hk HF; [congruence|].
    destruct k as [|k']; [cbn in Hk; lia|]. inversion HF as [|? ? [Hok Hx] HF']; subst.
    destruct l as [|y l'].
    - cbn [jitems elems_of]. rewrite Hx by (apply no_cont_sep; cbn; lia). reflexivity.
    - change (jitems (x :: y :: l')) with (jprint x ++ "," ++ jitems (y :: l'))%string.
      rewrite !append_assoc. cbn [elems_of].
      rewrite Hx by (apply no_cont_sep; cbn; lia).
      cbn [append skip_ws]. change (is_ws ",") with false. cbv iota. cbn [ch]. change (byte "," =? 44) with true.
      cbv iota. cbn [drop].
      fold (elems_of pv). rewrite (IH k'); [reflexivity|discriminate|cbn in *; lia|exact HF'].
  Qed.

  Lemma members_items pv rest : forall m k,
    m <> [] -> (length m <= k)%nat ->
    Forall (fun kv => json_text_ok (snd kv) = true /\
                      forall rest', no_cont rest' = true -> pv (jprint (snd kv) ++ rest')%string = Some (snd kv, rest')) m ->
    members_of pv k (jmembers m ++ String "}" rest)%string = Some (JObj m, rest).
  Proof.
    induction m as [|[key x] m IH]; intros k Hne Hk HF; [congruence|].
    destruct k as [|k']; [cbn in Hk; lia|]. inversion HF as [|? ? [Hok Hx] HF']; subst. cbn [snd] in *.
    assert (Hkey : forall tail, members_of pv (S k') (print_str key ++ ":" ++ tail)%string =
              match pv tail with
              | None => None
              | Some (x, r2) =>
                  let r2 := skip_ws r2 in
                  if byte (ch r2) =? 44 then
                    match members_of pv k' (drop 1 r2) with
                    | Some (JObj xs, r3) => Some (JObj ((key, x) :: xs), r3)
                    | _ => None
                    end
                  else if byte (ch r2) =? 125 then Some (JObj [(key, x)], drop 1 r2)
                  else None
              end).
    { intros tail. unfold print_str. cbn [append members_of skip_ws].
      change (is_ws QUOTE) with false. cbv iota. cbn [ch]. change (byte QUOTE =? 34) with true. cbv iota.
      cbn [drop]. rewrite append_assoc. cbn [str1 append]. rewrite parse_str_escape.
      cbn [skip_ws]. change (is_ws ":") with false. cbv iota. cbn [ch]. change (byte ":" =? 58) with true.
      cbv iota. cbn [drop]. reflexivity. }
    destruct m as [|[key2 y] m'].
    - change (jmembers [(key, x)]) with (print_str key ++ ":" ++ jprint x)%string.
      rewrite !append_assoc. rewrite Hkey. rewrite Hx by (apply no_cont_sep; cbn; lia). reflexivity.
    - change (jmembers ((key, x) :: (key2, y) :: m'))
        with (print_str key ++ ":" ++ jprint x ++ "," ++ jmembers ((key2, y) :: m'))%string.
      rewrite !append_assoc. rewrite Hkey. rewrite Hx by (apply no_cont_sep; cbn; lia).
      cbn [append skip_ws]. change (is_ws ",") with false. cbv iota. cbn [ch]. change (byte "," =? 44) with true.
      cbv iota. cbn [drop].
      rewrite (IH k'); [reflexivity|discriminate|cbn in *; lia|exact HF'].
  Qed.

  (* ---------------------------------------------------------------- the theorem *)
  Lemma fold_size_ge_length l : (length l <= fold_right (fun x acc => jsize x + acc) 0 l)%nat.
  Proof.
    induction l as [|x l IH]; cbn; [lia|]. assert (1 <= jsize x)%nat by (destruct x; cbn; lia). lia.
  Qed.
  Lemma fold_size_ge_length_m (m : list (string * json)) :
    (length m <= fold_right (fun kv acc => jsize (snd kv) + acc) 0 m)%nat.
  Proof.
    induction m as [|[k x] m IH]; cbn; [lia|]. assert (1 <= jsize x)%nat by (destruct x; cbn; lia). lia.
  Qed.

  Lemma size_in l y : In y l -> (jsize y <= fold_right (fun x acc => jsize x + acc) 0 l)%nat.
  Proof. induction l as [|z t IH]; cbn; [tauto|]. intros [->|H]; [lia|]. specialize (IH H). lia. Qed.
  Lemma depth_in l y : In y l -> (jdepth y <= fold_right (fun x acc => Nat.max (jdepth x) acc) 0 l)%nat.
  Proof. induction l as [|z t IH]; cbn; [tauto|]. intros [->|H]; [lia|]. specialize (IH H). lia. Qed.
  Lemma size_in_m (m : list (string * json)) y :
    In y m -> (jsize (snd y) <= fold_right (fun kv acc => jsize (snd kv) + acc) 0 m)%nat.
  Proof. induction m as [|z t IH]; cbn; [tauto|]. intros [->|H]; [lia|]. specialize (IH H). lia. Qed.
  Lemma depth_in_m (m : list (string * json)) y :
    In y m -> (jdepth (snd y) <= fold_right (fun kv acc => Nat.max (jdepth (snd kv)) acc) 0 m)%nat.
  Proof. induction m as [|z t IH]; cbn; [tauto|]. intros [->|H]; [lia|]. specialize (IH H). lia. Qed.

  Theorem parse_value_print j : forall fuel rd rest,
    json_text_ok j = true -> (jsize j <= fuel)%nat -> (jdepth j < rd)%nat -> no_cont rest = true ->
    parse_value fuel rd (jprint j ++ rest)%string = Some (j, rest).
  Proof.
    induction j as [| |n|s|l IH|m IH] using Blots.proofs.JsonRT.json_ind'; intros fuel rd rest Hok Hsz Hd Hrest;
      (destruct fuel as [|f]; [cbn in Hsz; lia|]).
    - vm_compute. reflexivity.
    - destruct b; vm_compute; reflexivity.
    - (* number *)
      cbn [JsonText.jprint]. cbn [json_text_ok] in Hok.
      destruct (render_tok_head (tok_of_jnumber fmt_pieces n) rest (tok_of_jnumber_wf n Hok)) as (c & r & E & Hc).
      pose proof (parse_print_number fmt_pieces float_of_tok H_print_wf H_roundtrip n rest Hok Hrest) as Hp.
      rewrite E in *. cbn [JsonText.parse_value]. destruct (value_start_facts c Hc) as (Hws & _).
      rewrite (skip_ws_start c r Hws).
      (* the head of a number token is '-' or a digit *)
      assert (Hnum : (byte c =? 45) || is_digit c = true).
      { unfold JsonText.parse_number, scan_number in Hp. cbn [ch] in Hp.
        destruct (byte c =? 45) eqn:E45; [reflexivity|]. cbn [orb].
        cbn [span_digits] in Hp. destruct (is_digit c); [reflexivity|]. discriminate. }
      assert (Hn4 : byte c <> 110 /\ byte c <> 116 /\ byte c <> 102 /\ byte c <> 34 /\ byte c <> 91 /\ byte c <> 123).
      { unfold is_digit in Hnum. lia. }
      destruct Hn4 as (N1 & N2 & N3 & N4 & N5 & N6).
      apply Z.eqb_neq in N1, N2, N3, N4, N5, N6. rewrite N1, N2, N3, N4, N5, N6, Hnum, Hp. reflexivity.
    - (* string *)
      unfold JsonText.jprint, print_str. cbn [append JsonText.parse_value skip_ws].
      change (is_ws QUOTE) with false. cbv iota.
      change (byte QUOTE =? 110) with false. change (byte QUOTE =? 116) with false.
      change (byte QUOTE =? 102) with false. change (byte QUOTE =? 34) with true. cbv iota.
      rewrite append_assoc. cbn [str1 append]. rewrite parse_str_escape. reflexivity.
    - (* array *)
      rewrite jprint_arr. cbn [json_text_ok jsize jdepth] in *.
      destruct rd as [|[|rd']]; try lia.
      rewrite !append_assoc. change ("[" ++ jitems l ++ "]" ++ rest)%string with (String "[" (jitems l ++ String "]" rest))%string.
      rewrite parse_value_arr. cbv zeta.
      destruct l as [|x l'].
      + reflexivity.
      + assert (Hhead : exists c r, (jitems (x :: l') ++ String "]" rest)%string = String c r /\ value_start c = true).
        { cbn [forallb] in Hok. apply andb_prop in Hok as [Hx _].
          destruct l' as [|y l''].
          - cbn [jitems]. now apply jprint_head.
          - change (jitems (x :: y :: l'')) with (jprint x ++ "," ++ jitems (y :: l''))%string.
            rewrite append_assoc. now apply jprint_head. }
        destruct Hhead as (c & r & E & Hc). destruct (value_start_facts c Hc) as (Hws & H93 & _).
        rewrite E, (skip_ws_start c r Hws). cbn [ch]. apply Z.eqb_neq in H93. rewrite H93. rewrite <- E.
        apply elems_items; [discriminate|pose proof (fold_size_ge_length (x :: l')); cbn in *; lia|].
        rewrite Forall_forall in *. rewrite forallb_forall in Hok. intros y Hy. split; [now apply Hok|].
        intros rest' Hr'. apply (IH y Hy); [now apply Hok| | |exact Hr'].
        * pose proof (size_in _ _ Hy). lia.
        * pose proof (depth_in _ _ Hy). lia.
    - (* object *)
      rewrite jprint_obj. cbn [json_text_ok jsize jdepth] in *.
      destruct rd as [|[|rd']]; try lia.
      rewrite !append_assoc. change ("{" ++ jmembers m ++ "}" ++ rest)%string with (String "{" (jmembers m ++ String "}" rest))%string.
      rewrite parse_value_obj. cbv zeta.
      destruct m as [|[k x] m'].
      + reflexivity.
      + assert (Hhead : exists r, (jmembers ((k, x) :: m') ++ String "}" rest)%string = String QUOTE r).
        { destruct m' as [|[k2 y] m'']; eexists; unfold print_str; cbn; reflexivity. }
        destruct Hhead as (r & E).
        rewrite E. cbn [skip_ws]. change (is_ws QUOTE) with false. cbv iota. cbn [ch].
        change (byte QUOTE =? 125) with false. cbv iota. rewrite <- E.
        apply members_items; [discriminate|pose proof (fold_size_ge_length_m ((k, x) :: m')); cbn in *; lia|].
        rewrite Forall_forall in *. rewrite forallb_forall in Hok. intros y Hy. split; [now apply Hok|].
        intros rest' Hr'. apply (IH y Hy); [now apply Hok| | |exact Hr'].
        * pose proof (size_in_m _ _ Hy). lia.
        * pose proof (depth_in_m _ _ Hy). lia.
  Qed.

  (* ---------------------------------------------------------------- from_str *)
  Lemma length_append (a b : string) : String.length (a ++ b) = (String.length a + String.length b)%nat.
  Proof. induction a as [|c a IH]; cbn; [reflexivity|]. now rewrite IH. Qed.
  Lemma append_nil_r (a : string) : (a ++ "")%string = a.
  Proof. induction a as [|c a IH]; cbn; [reflexivity|]. now rewrite IH. Qed.

  Lemma jprint_length j : json_text_ok j = true -> (jsize j <= String.length (jprint j))%nat.
  Proof.
    induction j as [| |n|s|l IH|m IH] using Blots.proofs.JsonRT.json_ind'; intros Hok.
    - cbn. lia.
    - destruct b; cbn; lia.
    - destruct (jprint_head (JNum n) "" Hok) as (c & r & E & _). rewrite append_nil_r in E. rewrite E. cbn. lia.
    - cbn. lia.
    - rewrite jprint_arr, !length_append. cbn [jsize json_text_ok String.length] in *.
      assert (H : (fold_right (fun x acc => jsize x + acc) 0 l <= String.length (jitems l))%nat).
      { induction l as [|x l' IHl]; [cbn; lia|].
        inversion IH as [|? ? Hx IH']; subst. cbn [forallb] in Hok. apply andb_prop in Hok as [Hox Hol].
        specialize (IHl IH' Hol). specialize (Hx Hox). destruct l' as [|y l''].
        - cbn in *. lia.
        - change (jitems (x :: y :: l'')) with (jprint x ++ "," ++ jitems (y :: l''))%string.
          rewrite !length_append. cbn [fold_right String.length] in *. lia. }
      lia.
    - rewrite jprint_obj, !length_append. cbn [jsize json_text_ok String.length] in *.
      assert (H : (fold_right (fun kv acc => jsize (snd kv) + acc) 0 m <= String.length (jmembers m))%nat).
      { induction m as [|[k x] m' IHm]; [cbn; lia|].
        inversion IH as [|? ? Hx IH']; subst. cbn [forallb snd] in *. apply andb_prop in Hok as [Hox Hom].
        specialize (IHm IH' Hom). specialize (Hx Hox). destruct m' as [|[k2 y] m''].
        - change (jmembers [(k, x)]) with (print_str k ++ ":" ++ jprint x)%string.
          rewrite !length_append. cbn [fold_right snd String.length] in *. lia.
        - change (jmembers ((k, x) :: (k2, y) :: m'')) with (print_str k ++ ":" ++ jprint x ++ "," ++ jmembers ((k2, y) :: m''))%string.
          rewrite !length_append. cbn [fold_right snd String.length] in *. lia. }
      lia.
  Qed.

  (* json_text_roundtrip: serde_json::from_str(serde_json::to_string(j)) = j, as a document
     (members in the order written), for every document whose numbers are in range and that has
     at most 127 nested containers *)
  Theorem json_text_roundtrip j :
    json_text_ok j = true -> (jdepth j <= 127)%nat ->
    json_from_str float_of_tok (jprint j) = Some j.
  Proof.
    intros Hok Hd. unfold json_from_str.
    rewrite <- (append_nil_r (jprint j)) at 2.
    rewrite parse_value_print; [reflexivity|exact Hok| |lia|reflexivity].
    pose proof (jprint_length j Hok). lia.
  Qed.
End Doc.
