(* DisplayNumSpec.v — C20: the numeral grammar of the property, the value a numeral denotes,
   the documented shapes of the library outputs, and the basic text lemmas.
   The grammar recognisers are written independently of the formatter. *)
From Coq Require Import ZArith Bool String Ascii List Lia QArith.
Require Import Blots.Num Blots.Outcome Blots.DisplayNum Blots.proofs.DisplayNumGroup.
Import ListNotations.
Open Scope char_scope.
Open Scope Z_scope.

(* ---------- the numeral grammar ---------- *)
Definition is_nil {A} (l : list A) : bool := match l with [] => true | _ => false end.
(* d+ *)
Definition all_digits (l : text) : bool := negb (is_nil l) && forallb is_digit l.
(* optional fraction: nothing, or '.' d+ *)
Definition wf_fraction (rest : option text) : bool :=
  match rest with
  | None => true
  | Some (_ :: fp) => all_digits fp
  | Some [] => false
  end.
Definition strip_sign (l : text) : text := if starts_with "-" l then tl l else l.
(* d+ (. d+)?   — the mantissa of a scientific numeral, and the documented library shape *)
Definition wf_plain_body (l : text) : bool :=
  let '(ip, rest) := break_at "." l in all_digits ip && wf_fraction rest.
Definition plain_shape (l : text) : bool := wf_plain_body (strip_sign l).
(* integer digits grouped in threes by commas, optional fraction *)
Definition wf_standard_body (l : text) : bool :=
  let '(ip, rest) := break_at "." l in wf_grouped_int ip && wf_fraction rest.
(* -? d+ *)
Definition wf_exponent (l : text) : bool := all_digits (strip_sign l).
(* mantissa 'e' exponent *)
Definition wf_sci_body (l : text) : bool :=
  match split_once "e" l with
  | Some (m, e) => wf_plain_body m && wf_exponent e
  | None => false
  end.
Definition text_is (t : text) (s : string) : bool := String.eqb (display_string t) s.
(* the numeral grammar of C20 *)
Definition wf_numeral (t : text) : bool :=
  text_is t "NaN" || text_is t "Infinity" || text_is t "-Infinity" ||
  (let b := strip_sign t in wf_standard_body b || wf_sci_body b).

(* ---------- the value a numeral denotes (exact rational) ---------- *)
Definition pow10 (n : nat) : Z := 10 ^ Z.of_nat n.
Definition dec_value (ip fp : text) : Q :=
  Qmake (digits_value (ip ++ fp)) (Z.to_pos (pow10 (length fp))).
Definition frac_digits (rest : option text) : text :=
  match rest with Some (_ :: f) => f | _ => [] end.
Definition denote_body (b : text) : Q :=
  let '(ip, rest) := break_at "." b in dec_value ip (frac_digits rest).
(* -? d+ (. d+)? *)
Definition denote_plain (s : text) : Q :=
  if starts_with "-" s then - denote_body (tl s) else denote_body s.
(* -? d+ *)
Definition int_value (s : text) : Z :=
  if starts_with "-" s then - digits_value (tl s) else digits_value s.
Definition denote_std (s : text) : Q := denote_plain (ungroup s).
Definition denote_sci (s : text) : Q :=
  match split_once "e" s with
  | Some (m, e) => denote_plain m * Qpower (10 # 1) (int_value e)
  | None => 0
  end.
Definition denote (s : text) : Q := if contains "e" s then denote_sci s else denote_std s.

(* ---------- documented shapes of the library outputs ---------- *)
(* format!("{:.n$}", x) of a finite x:  -? d+  followed, when n > 0, by '.' and exactly n digits *)
Definition prec_body_shape (n : Z) (b : text) : bool :=
  let '(ip, rest) := break_at "." b in
  all_digits ip &&
  match rest with
  | None => n =? 0
  | Some (_ :: fp) => (0 <? n) && all_digits fp && (Z.of_nat (length fp) =? n)
  | Some [] => false
  end.
Definition prec_shape (n : Z) (s : text) : bool := prec_body_shape n (strip_sign s).
(* -? d . d+ : the mantissa text of {:e} *)
Definition mant_shape (s : text) : bool :=
  match strip_sign s with
  | d :: dot :: fp => is_digit d && Ascii.eqb dot "." && all_digits fp
  | _ => false
  end.
(* format!("{:.14e}", x) of a finite x:  -? d . d+ e -? d+ *)
Definition exp_shape (s : text) : bool :=
  match split_once "e" s with
  | Some (m, e) => mant_shape m && wf_exponent e
  | None => false
  end.

(* ====================================================================================
   basic text lemmas
   ==================================================================================== *)
Lemma is_digit_not : forall a c, is_digit a = true -> is_digit c = false -> Ascii.eqb a c = false.
Proof.
  intros a c Ha Hc. destruct (Ascii.eqb a c) eqn:E; [|reflexivity].
  apply Ascii.eqb_eq in E. subst. congruence.
Qed.

Lemma forallb_digit_contains : forall c l,
  is_digit c = false -> forallb is_digit l = true -> contains c l = false.
Proof.
  intros c l Hc. induction l as [|a l IH]; intros H; [reflexivity|].
  cbn [forallb] in H. apply andb_true_iff in H. destruct H as [Ha Hl].
  cbn [contains]. rewrite (is_digit_not a c Ha Hc). now apply IH.
Qed.

Lemma break_at_none : forall c l, contains c l = false -> break_at c l = (l, None).
Proof.
  intros c l. induction l as [|a l IH]; intros H; [reflexivity|].
  cbn [contains] in H. apply orb_false_iff in H. destruct H as [Ha Hl].
  cbn [break_at]. rewrite Ha. now rewrite (IH Hl).
Qed.

Lemma break_at_app : forall c l r, contains c l = false -> break_at c (l ++ c :: r) = (l, Some (c :: r)).
Proof.
  intros c l r. induction l as [|a l IH]; intros H.
  - cbn [app break_at]. now rewrite Ascii.eqb_refl.
  - cbn [contains] in H. apply orb_false_iff in H. destruct H as [Ha Hl].
    cbn [app break_at]. rewrite Ha. now rewrite (IH Hl).
Qed.

(* break_at decomposes the text *)
Lemma break_at_spec : forall c l,
  match break_at c l with
  | (b, None) => l = b /\ contains c l = false
  | (b, Some d) => l = b ++ d /\ contains c b = false /\ exists r, d = c :: r
  end.
Proof.
  intros c l. induction l as [|a l IH]; cbn [break_at].
  - auto.
  - destruct (Ascii.eqb a c) eqn:E.
    + apply Ascii.eqb_eq in E. subst. repeat split. now exists l.
    + destruct (break_at c l) as [b [d|]].
      * destruct IH as (-> & Hb & r & ->). repeat split.
        -- cbn [contains]. now rewrite E.
        -- now exists r.
      * destruct IH as (-> & Hb). split; [reflexivity|]. cbn [contains]. now rewrite E.
Qed.

Lemma contains_app : forall c l1 l2, contains c (l1 ++ l2) = contains c l1 || contains c l2.
Proof.
  intros. induction l1 as [|a l1 IH]; [reflexivity|]. cbn [app contains]. rewrite IH. now rewrite orb_assoc.
Qed.

(* ---------- trim_end ---------- *)
Lemma trim_end_cons_ne : forall c a r, Ascii.eqb a c = false -> trim_end c (a :: r) = a :: trim_end c r.
Proof. intros. cbn [trim_end]. rewrite H. now destruct (trim_end c r). Qed.

Lemma trim_end_app_ne : forall c l a r,
  Ascii.eqb a c = false -> trim_end c (l ++ a :: r) = l ++ a :: trim_end c r.
Proof.
  intros c l a r H. induction l as [|x l IH].
  - now apply trim_end_cons_ne.
  - cbn [app trim_end]. rewrite IH. now destruct l.
Qed.

Lemma trim_end_all : forall c k, trim_end c (repeat c k) = [].
Proof.
  intros. induction k; [reflexivity|]. cbn [repeat trim_end]. rewrite IHk. now rewrite Ascii.eqb_refl.
Qed.

(* l = trim_end c l ++ c^k, and the kept part does not end with c *)
Lemma trim_end_spec : forall c l, exists k, l = trim_end c l ++ repeat c k.
Proof.
  intros c l. induction l as [|a l [k IH]].
  - now exists O.
  - cbn [trim_end]. destruct (trim_end c l) as [|x r] eqn:E.
    + destruct (Ascii.eqb a c) eqn:Ea.
      * apply Ascii.eqb_eq in Ea. subst a. exists (S k). cbn [app repeat]. now rewrite IH at 1.
      * exists k. cbn [app]. now rewrite IH at 1.
    + exists k. rewrite IH at 1. reflexivity.
Qed.

Lemma trim_end_last : forall c l, starts_with c (rev (trim_end c l)) = false.
Proof.
  intros c l. induction l as [|a l IH]; [reflexivity|].
  cbn [trim_end]. destruct (trim_end c l) as [|x r] eqn:E.
  - destruct (Ascii.eqb a c) eqn:Ea; [reflexivity|]. cbn. exact Ea.
  - change (rev (a :: x :: r)) with (rev (x :: r) ++ [a]).
    destruct (rev (x :: r)) as [|y t] eqn:Er.
    + apply (f_equal (@length _)) in Er. rewrite rev_length in Er. discriminate.
    + cbn [app starts_with] in *. exact IH.
Qed.

Lemma trim_end_id : forall c l, starts_with c (rev l) = false -> trim_end c l = l.
Proof.
  intros c l H. destruct (trim_end_spec c l) as [k Hk].
  destruct k; [now rewrite app_nil_r in Hk|].
  exfalso. rewrite Hk in H. rewrite rev_app_distr in H.
  replace (repeat c (S k)) with (repeat c k ++ [c]) in H.
  - rewrite rev_app_distr in H. cbn in H. now rewrite Ascii.eqb_refl in H.
  - clear. induction k; [reflexivity|]. cbn [repeat app] in *. now rewrite IHk.
Qed.

Lemma forallb_trim_end : forall c l, forallb is_digit l = true -> forallb is_digit (trim_end c l) = true.
Proof.
  intros c l H. destruct (trim_end_spec c l) as [k Hk]. rewrite Hk in H.
  rewrite forallb_app in H. now apply andb_true_iff in H.
Qed.

(* ---------- digits_value ---------- *)
Lemma digits_value_acc : forall l a,
  fold_left (fun acc c => 10 * acc + digit_val c) l a = a * pow10 (length l) + digits_value l.
Proof.
  unfold digits_value, pow10. induction l as [|c l IH]; intros a.
  - cbn. lia.
  - cbn [fold_left length]. rewrite IH. rewrite (IH (10 * 0 + digit_val c)).
    rewrite Nat2Z.inj_succ, Z.pow_succ_r by lia. ring.
Qed.

Lemma digits_value_app : forall l1 l2,
  digits_value (l1 ++ l2) = digits_value l1 * pow10 (length l2) + digits_value l2.
Proof.
  intros. unfold digits_value at 1. rewrite fold_left_app. rewrite digits_value_acc. reflexivity.
Qed.

Lemma digits_value_zeros : forall k, digits_value (repeat "0" k) = 0.
Proof.
  induction k; [reflexivity|]. change (repeat "0" (S k)) with (["0"] ++ repeat "0" k).
  rewrite digits_value_app, IHk. reflexivity.
Qed.

Lemma pow10_pos : forall n, 0 < pow10 n.
Proof. intros. unfold pow10. apply Z.pow_pos_nonneg; lia. Qed.

Lemma pow10_add : forall a b, pow10 (a + b) = pow10 a * pow10 b.
Proof. intros. unfold pow10. rewrite Nat2Z.inj_add, Z.pow_add_r by lia. reflexivity. Qed.

(* trailing zeros of the fraction change no value *)
Lemma dec_value_trailing_zeros : forall ip fp k,
  (dec_value ip (fp ++ repeat "0" k) == dec_value ip fp)%Q.
Proof.
  intros. unfold dec_value, Qeq. cbn [Qnum Qden].
  rewrite !Z2Pos.id by apply pow10_pos.
  rewrite app_assoc, digits_value_app, digits_value_zeros, app_length, repeat_length, pow10_add.
  ring.
Qed.

Lemma dec_value_no_frac : forall ip, (dec_value ip [] == inject_Z (digits_value ip))%Q.
Proof.
  intros. unfold dec_value, Qeq, inject_Z. cbn [Qnum Qden length]. rewrite app_nil_r. reflexivity.
Qed.
