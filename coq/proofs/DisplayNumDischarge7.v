(* DisplayNumDischarge7.v — C20: the display of the executable model is TOTAL (no i32 / i64 overflow
   panic) for every valid double under log10_sane alone, for the code as it is (fx = true).
   display_no_panic (proofs/DisplayNum.v) needs a bound on floor(log10 a) for every a; here the
   two arguments on which log10 is actually called (|x| and the rounded value) are shown to be
   valid non-zero doubles in a known decade (round_sig_explicit, rounded_decade, places_exact of
   DisplayNumAccStd.v, instantiated with the proved facts about powi_exec), so log10_sane applies.
   The summary theorem display_exec_complete: total, well-formed, accurate. *)
From Coq Require Import ZArith Reals Bool String Ascii List Lia Lra QArith Qreals Qabs Qpower Floats.SpecFloat.
From Flocq Require Import Core.Core IEEE754.BinarySingleNaN.
Require Import Blots.Num Blots.Outcome Blots.DisplayNum.
Require Import Blots.proofs.DisplayNumGroup Blots.proofs.DisplayNumSpec Blots.proofs.DisplayNumText
               Blots.proofs.DisplayNumInt Blots.proofs.DisplayNum Blots.proofs.DisplayNumAcc
               Blots.proofs.DisplayNumFloat Blots.proofs.DisplayNumFinite Blots.proofs.DisplayNumAccStd
               Blots.proofs.DisplayNumAccAll Blots.proofs.DisplayNumExec
               Blots.proofs.DisplayNumDischarge1 Blots.proofs.DisplayNumDischarge2
               Blots.proofs.DisplayNumDischarge3 Blots.proofs.DisplayNumDischarge4
               Blots.proofs.DisplayNumDischarge6.
Import ListNotations.
Open Scope R_scope.

Definition log10_sane_R (log10 : num -> num) : Prop :=
  forall a K, valid a -> Num.is_finite a = true -> p10 K <= RV a < p10 (K + 1) ->
              (K <= as_i32 (nfloor (log10 a)) <= K + 1)%Z.

Lemma log10_sane_to_R : forall log10,
  (forall a k, valid_binary prec emax a = true -> nsign a = false -> in_decade a k ->
               (k <= as_i32 (nfloor (log10 a)) <= k + 1)%Z) -> log10_sane_R log10.
Proof.
  intros log10 HL a K Va Fa HA. pose proof (p10_pos K) as PK. apply (HL a K Va).
  - apply RV_pos_nsign. lra.
  - apply in_decade_of_R. rewrite Rabs_pos_eq; [exact HA|lra].
Qed.

Theorem display_total_exec_pos : forall log10,
  (forall a k, valid_binary prec emax a = true -> nsign a = false -> in_decade a k ->
               (k <= as_i32 (nfloor (log10 a)) <= k + 1)%Z) ->
  forall x, valid_binary prec emax x = true ->
  exists t, format_display_number log10 powi_exec fmt_prec_exec fmt_exp14_exec parse_f64_exec true x = Ok t.
Proof.
  intros log10 HLs x Hv. pose proof (log10_sane_to_R log10 HLs) as HL. unfold log10_sane_R in HL.
  unfold format_display_number.
  destruct (is_nan x) eqn:Hn; [eauto|]. destruct (is_inf x) eqn:Hi; [eauto|].
  destruct (neqb x nzero) eqn:Hz; [eauto|].
  destruct (scientific_range (nabs x)) eqn:Hs; [eauto|].
  unfold format_standard. destruct (nfract_is_zero x && nltb (nabs x) c_2p53) eqn:Hint.
  - apply andb_true_iff in Hint. destruct Hint as [_ Hlt].
    destruct x as [s|s| |s m e]; try discriminate Hz; try discriminate Hi; try discriminate Hn.
    destruct (split_int m e) as [[q r] d] eqn:Hsp.
    destruct (as_i64_small s m e q r d Hv Hlt Hsp) as [Has Hq]. rewrite Has.
    rewrite format_integer_text; [eauto|].
    unfold I64_MIN. change (2 ^ 53)%Z with 9007199254740992%Z in Hq.
    change (2 ^ 63)%Z with 9223372036854775808%Z. destruct s; cbn [cond_Zopp]; lia.
  - destruct x as [s|s| |s m e]; try discriminate Hz; try discriminate Hi; try discriminate Hn.
    assert (Hp : std_nonint_path (S754_finite s m e) = true).
    { unfold std_nonint_path. rewrite Hz, Hs, Hint. reflexivity. }
    destruct (valid_decade s m e Hv) as (K & HK & _). apply in_decade_R in HK.
    pose proof (std_decade_range _ K Hv Hp HK) as RK.
    destruct (round_sig_explicit log10 powi_exec HL powi_exec_exact powi_exec_neg _ K Hv Hp RK HK)
      as (r & s' & n & Er & Vr & Fr & Bn & ERr & _).
    rewrite Er. cbn [obind].
    set (N := IZR (cond_Zopp s' n)) in *. set (u := p10 (K - 14)) in *.
    assert (Pu : 0 < u) by apply p10_pos.
    set (y := N * u) in *.
    assert (AN : Rabs N = IZR n) by (apply Rabs_signed; lia).
    assert (Ay : Rabs y = IZR n * u).
    { unfold y. rewrite Rabs_mult, AN, (Rabs_pos_eq u) by lra. reflexivity. }
    destruct (rounded_decade powi_exec powi_exec_exact powi_exec_neg K n u (Rabs y) RK Bn eq_refl Ay) as [Dec _].
    cbv zeta in Dec.
    set (K' := if (n =? 10 ^ 15)%Z then (K + 1)%Z else K) in *.
    assert (HK' : (-4 <= K' <= 15)%Z) by (unfold K'; destruct (n =? 10 ^ 15)%Z; lia).
    assert (Ar : Rabs (RV r) = rnd64 (Rabs y)) by (rewrite ERr; symmetry; apply rnd_abs).
    rewrite <- Ar in Dec.
    pose proof (places_exact log10 powi_exec fmt_exp14_exec parse_f64_exec HL powi_exec_exact powi_exec_neg
                  r K' Vr Fr HK' Dec) as Epl.
    unfold format_float_significant. rewrite Epl. cbn [obind]. eauto.
Qed.

(* ---- summary: under log10_sane the executable model displays EVERY valid double, as a well-formed
        numeral, which for finite non-zero x is less than one unit of the 15th digit away from x ---- *)
Theorem display_exec_complete_pos : forall log10,
  (forall a k, valid_binary prec emax a = true -> nsign a = false -> in_decade a k ->
               (k <= as_i32 (nfloor (log10 a)) <= k + 1)%Z) ->
  forall x, valid_binary prec emax x = true ->
  exists t,
    format_display_number log10 powi_exec fmt_prec_exec fmt_exp14_exec parse_f64_exec true x = Ok t /\
    wf_numeral t = true /\
    (Num.is_finite x = true -> neqb x nzero = false ->
     forall k, in_decade x k -> (Qabs (denote t - num_to_Q x) < Qpower (10 # 1) (k - 14)%Z)%Q).
Proof.
  intros log10 HL x V. destruct (display_total_exec_pos log10 HL x V) as (t & Et).
  exists t. split; [exact Et|]. split.
  - exact (display_wellformed_exec_pos log10 true HL x t V Et).
  - intros F NZ. exact (display_accurate_exec_pos log10 HL x t V F NZ Et).
Qed.

Theorem display_total_exec : forall log10,
  (forall a k, valid_binary prec emax a = true -> in_decade a k ->
               (k <= as_i32 (nfloor (log10 a)) <= k + 1)%Z) ->
  forall x, valid_binary prec emax x = true ->
  exists t, format_display_number log10 powi_exec fmt_prec_exec fmt_exp14_exec parse_f64_exec true x = Ok t.
Proof. intros log10 HL. apply display_total_exec_pos. intros a k V _ D. exact (HL a k V D). Qed.

Theorem display_exec_complete : forall log10,
  (forall a k, valid_binary prec emax a = true -> in_decade a k ->
               (k <= as_i32 (nfloor (log10 a)) <= k + 1)%Z) ->
  forall x, valid_binary prec emax x = true ->
  exists t,
    format_display_number log10 powi_exec fmt_prec_exec fmt_exp14_exec parse_f64_exec true x = Ok t /\
    wf_numeral t = true /\
    (Num.is_finite x = true -> neqb x nzero = false ->
     forall k, in_decade x k -> (Qabs (denote t - num_to_Q x) < Qpower (10 # 1) (k - 14)%Z)%Q).
Proof. intros log10 HL. apply display_exec_complete_pos. intros a k V _ D. exact (HL a k V D). Qed.
