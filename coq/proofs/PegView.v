(* proofs/PegView.v — grammar-level half of C09_view_items (forest_view_ok of every Peg.parse result): a UNIFORM
   per-rule postcondition [C_view], computed from gen/Grammar.v, proved of every node of every tree Peg.parse produces
   by the generic machinery of PegShape.v (run_nodes / run_tops / tops_enum / tops_names):
     - [vnames r]: every inner pair of a pair of rule r has its rule name in this list (silent rules unfolded through
       the table [VS], itself COMPUTED from the grammar by iterating PegShape.enum);
     - [venum r]: where the body of r has no repetition that yields pairs, the finite list of possible sequences of
       inner-pair rule names;
     - atomic rules (@): their bodies reach only pair-less silent rules, hence NO inner pair (PegQuiet on the set Q2).
   Nothing here unfolds Peg.run on the concrete grammar: per-rule facts are vm_compute checks on the rule bodies. *)
From Coq Require Import String Ascii List NArith Bool Arith Lia.
Require Import Blots.Peg Blots.proofs.PegGeneric Blots.proofs.PegQuiet Blots.proofs.PegShape.
Require Import Blots.gen.Grammar Blots.PegToItems Blots.PegComments Blots.proofs.PegCommentsCompose.
Import ListNotations.
Local Open Scope list_scope.

Local Notation BQ := in_newline_quiet.
Definition vbody (r : grule) : expr grule := rd_body (grule_def r).
Definition nonquiet_silent (r : grule) : bool := silentb grule blots_grammar r && negb (BQ r).

(* the top-level pair names of the silent rules, computed: iterate [enum] from the empty table *)
Fixpoint senum_iter (n : nat) (r : grule) : option (list (list grule)) :=
  match n with
  | O => None
  | S n' => if nonquiet_silent r then enum grule blots_grammar BQ (senum_iter n') (vbody r) else None
  end.
Definition VS : grule -> option (list (list grule)) := senum_iter 4.

Local Notation VSs := (S_of grule VS).
Local Notation vtops := (tops grule blots_grammar BQ VSs).
Local Notation venum_e := (enum grule blots_grammar BQ VS).
Local Notation vnames_e := (names grule blots_grammar BQ VS all_grules).

(* the table is a fixed point of the unfolding (checked by computation, rule by rule) *)
Lemma VS_fix : forall r, VS r = None \/ VS r = venum_e (vbody r).
Proof. intro r. destruct r; vm_compute; auto. Qed.

Lemma VS_sound : forall r, silentb grule blots_grammar r = true -> BQ r = false ->
  forall l, vtops (rd_body (g_def blots_grammar r)) l -> VSs r l.
Proof.
  intros r _ _ l H. unfold S_of. destruct (VS r) as [ls|] eqn:E; [|exact I].
  destruct (VS_fix r) as [F|F]; [congruence|].
  refine (tops_enum grule blots_grammar BQ VS _ l ls H _). rewrite <- E. symmetry. exact F.
Qed.

Definition view_run_tops :=
  run_tops grule blots_grammar BQ BQ_silent BQ_closed BQ_ws BQ_comment BQ_trivia VSs VS_sound.

(* ---------------------------------------------------------------- atomic rules have no inner pairs *)
Definition atomicb (r : grule) : bool := match rd_mod (grule_def r) with MAtomic => true | _ => false end.
Definition Q2set : list grule :=
  [PG_WHITESPACE; PG_plain_newline; PG_NEWLINE; PG_inline_comment; PG_binary_number; PG_hex_number; PG_decimal_number;
   PG_binary_digits; PG_hex_digits; PG_integer; PG_reserved_word; PG_identifier_rest].
Definition Q2 (r : grule) : bool := existsb (grule_eqb r) Q2set.
Lemma Q2_ok : forall r, Q2 r = true ->
  is_silent r = true /\ forallb Q2 (expr_idents (rd_body (grule_def r))) = true.
Proof. intros r. destruct r; vm_compute; intro H; try discriminate H; split; reflexivity. Qed.
Lemma atomic_bodies_quiet : forall r, atomicb r = true -> forallb Q2 (expr_idents (vbody r)) = true.
Proof. intros r. destruct r; vm_compute; intro H; try discriminate H; reflexivity. Qed.

(* ---------------------------------------------------------------- the per-rule postcondition *)
Definition vnames (r : grule) : list grule := if atomicb r then [] else vnames_e (vbody r).
Definition venum (r : grule) : option (list (list grule)) := if atomicb r then Some [[]] else venum_e (vbody r).
Definition vspec (r : grule) (l : list grule) : Prop :=
  Forall (fun x => In x (vnames r)) l /\ match venum r with Some ls => In l ls | None => True end.
Definition C_view (r : grule) (txt : string) (kids : list (tree grule)) : Prop := vspec r (map trule kids).

Lemma view_body_gives : forall text f, body_gives grule blots_grammar text C_view (run blots_grammar f).
Proof.
  intros text f r a s s1 Hns Hem Ht Ho H Hf. unfold C_view, vspec, vnames, venum.
  destruct (atomicb r) eqn:Ea.
  - assert (E : out s1 = out s).
    { refine (quiet_rules_emit_no_pairs_blots Q2 Q2_ok _ _ f _ _ false _ s s1 (atomic_bodies_quiet r Ea) (or_introl H)).
      - intros w Hw. vm_compute in Hw. inversion Hw. reflexivity.
      - intros w Hw. vm_compute in Hw. discriminate Hw. }
    rewrite E, Ho. cbn [rev map]. split; [constructor|left; reflexivity].
  - assert (Ha : r_body_atom grule (g_def blots_grammar r) a <> Atomic).
    { destruct r; try discriminate Ea;
        first [ discriminate | (apply emits_not_atomic; exact Hem) | (exfalso; apply Hns; reflexivity) ]. }
    pose proof (view_run_tops f (r_mode grule (g_def blots_grammar r)) _ (rd_body (g_def blots_grammar r)) Ha s) as Hr.
    rewrite H in Hr. destruct Hr as (new & O & Hr). rewrite Ho, app_nil_r in O. rewrite O.
    split.
    + exact (tops_names grule blots_grammar BQ VS all_grules all_grules_all _ _ Hr).
    + destruct (venum_e (vbody r)) as [ls|] eqn:E; [|exact I].
      exact (tops_enum grule blots_grammar BQ VS _ _ ls Hr E).
Qed.

(* every node of every tree of every parse satisfies C_view *)
Theorem view_nodes : forall fuel text s',
  Peg.parse blots_grammar fuel PG_input text = Peg.Ok s' ->
  forest_all grule text C_view (rev (out s')).
Proof.
  intros fuel text s' H. unfold forest_all. apply Forall_rev.
  exact (parse_nodes grule blots_grammar text C_view (view_body_gives text) fuel PG_input s' H).
Qed.

(* the top-level pairs of a parse are `statement` pairs and the EOI pair *)
Theorem view_top_names : forall fuel text s',
  Peg.parse blots_grammar fuel PG_input text = Peg.Ok s' ->
  Forall (fun t => trule t = PG_statement \/ trule t = PG_EOI) (rev (out s')).
Proof.
  intros fuel text s' H. unfold Peg.parse in H.
  change (run blots_grammar fuel false NonAtomic false (vbody PG_input) (init text) = Peg.Ok s') in H.
  assert (Ha : NonAtomic <> Atomic) by discriminate.
  pose proof (view_run_tops fuel false NonAtomic (vbody PG_input) Ha (init text)) as Hr.
  rewrite H in Hr. destruct Hr as (new & O & Hr). cbn [init out] in O. rewrite app_nil_r in O. rewrite O.
  apply (tops_names grule blots_grammar BQ VS all_grules all_grules_all) in Hr.
  assert (E : forall t : tree grule, troot grule t = trule t) by (intros [? ? ? ?]; reflexivity).
  revert Hr. generalize (rev new). intros l Hr. induction l as [|t l IH]; [constructor|].
  cbn [map] in Hr. inversion Hr as [|? ? H1 H2]; subst. constructor; [|apply IH; exact H2].
  clear E. destruct t as [r0 ? ? ?]. cbn [troot trule] in *. vm_compute in H1.
  repeat (destruct H1 as [H1|H1]; [rewrite <- H1; auto|]). destruct H1.
Qed.
