(* FullInst.v — the evaluator with EVERY transcribed built-in (EvalFull.builtin_full) meets the
   two hypotheses of the evaluator theorems:
     builtin_mono : a built-in moves the store only through its callback (StoreMono.v), and
     builtin_le   : a built-in is monotone in its callback w.r.t. "is the depth error, or equal"
                    (DepthMono.v) — it never swallows the depth error of its callback.
   The second is what the repaired sort_by (fix 3b066f5) satisfies and the old one did not: the
   old comparator read a failing key call as Ordering::Equal. *)
From Coq Require Import String List ZArith Bool Lia.
Require Import Blots.Num Blots.gen.Builtins Blots.Ast Blots.Value Blots.Outcome Blots.Binop
               Blots.Env Blots.Eval Blots.BuiltinsHof Blots.Program Blots.EvalInst Blots.EvalFull
               Blots.BuiltinsList
               Blots.proofs.StoreMono Blots.proofs.InstMono Blots.proofs.DepthMono Blots.proofs.InstDepth.
Import ListNotations.

(* ================= store monotonicity ================= *)
Section ListMono.
  Variable call : callback.
  Hypothesis call_mono : cb_mono call.

  Lemma sort_by_cmp_mono : forall func a b st r st',
    sort_by_cmp store call func a b st = (r, st') -> store_le st st'.
  Proof.
    intros func a b st r st' H. unfold sort_by_cmp in H.
    destruct (is_function func); [|inversion H; subst; apply store_le_refl].
    destruct (call func func [a] st) as [ra st1] eqn:E1. apply call_mono in E1.
    destruct ra; try (inversion H; subst; exact E1).
    destruct (call func func [b] st1) as [rb st2] eqn:E2. apply call_mono in E2.
    assert (store_le st st2) by (eapply store_le_trans; eauto).
    destruct rb; inversion H; subst; assumption.
  Qed.

  Lemma merge_by_mono : forall func left right st r st',
    merge_by store call func left right st = (r, st') -> store_le st st'.
  Proof.
    intros func left. induction left as [|a left' IHl]; intros right st r st' H.
    - destruct right; cbn in H; inversion H; subst; apply store_le_refl.
    - revert st r st' H. induction right as [|b right' IHr]; intros st r st' H.
      + cbn in H. inversion H; subst; apply store_le_refl.
      + cbn [merge_by] in H.
        destruct (sort_by_cmp store call func b a st) as [c st1] eqn:Ec.
        apply sort_by_cmp_mono in Ec.
        destruct c as [[]| | | |]; try (inversion H; subst; exact Ec).
        * destruct (merge_by store call func left' (b :: right') st1) as [res st2] eqn:Em.
          apply IHl in Em. inversion H; subst. eapply store_le_trans; eauto.
        * match type of H with context [(fix merge_right (r : list value) (s : store) {struct r} := _) right' st1] =>
            destruct ((fix merge_right (r : list value) (s : store) {struct r} := _) right' st1) as [res st2] eqn:Em end.
          specialize (IHr st1 res st2). cbn [merge_by] in IHr. apply IHr in Em.
          inversion H; subst. eapply store_le_trans; eauto.
        * destruct (merge_by store call func left' (b :: right') st1) as [res st2] eqn:Em.
          apply IHl in Em. inversion H; subst. eapply store_le_trans; eauto.
  Qed.

  Lemma merge_sort_by_fuel_mono : forall fuel func l st r st',
    merge_sort_by_fuel store call fuel func l st = (r, st') -> store_le st st'.
  Proof.
    induction fuel as [|f IH]; intros func l st r st' H; cbn [merge_sort_by_fuel] in H.
    - inversion H; subst; apply store_le_refl.
    - destruct (Datatypes.length l <? 2)%nat; [inversion H; subst; apply store_le_refl|].
      destruct (merge_sort_by_fuel store call f func (firstn (Datatypes.length l / 2) l) st) as [sl st1] eqn:E1.
      apply IH in E1.
      destruct sl; try (inversion H; subst; exact E1).
      destruct (merge_sort_by_fuel store call f func (skipn (Datatypes.length l / 2) l) st1) as [sr st2] eqn:E2.
      apply IH in E2.
      assert (store_le st st2) by (eapply store_le_trans; eauto).
      destruct sr; try (inversion H; subst; assumption).
      apply merge_by_mono in H. eapply store_le_trans; eauto.
  Qed.

  Lemma bi_sort_by_mono : forall args st r st',
    bi_sort_by store call args st = (r, st') -> store_le st st'.
  Proof.
    intros args st r st' H. unfold bi_sort_by in H.
    destruct (BuiltinsList.arg args 1); try (inversion H; subst; apply store_le_refl).
    destruct (obind (BuiltinsList.arg args 0) BuiltinsList.as_list);
      try (inversion H; subst; apply store_le_refl).
    unfold sort_by_list in H.
    destruct (merge_sort_by_fuel store call (Datatypes.length a0) a a0 st) as [res st1] eqn:E.
    apply merge_sort_by_fuel_mono in E. inversion H; subst. exact E.
  Qed.

  Lemma keyed_items_mono : forall func l st r st',
    keyed_items store call func l st = (r, st') -> store_le st st'.
  Proof.
    intros func l. induction l as [|item rest IH]; intros st r st' H; cbn [keyed_items] in H.
    - inversion H; subst; apply store_le_refl.
    - destruct (call func func [item] st) as [k st1] eqn:E. apply call_mono in E.
      destruct k as [v| | | |]; try (inversion H; subst; exact E).
      destruct v; try (inversion H; subst; exact E).
      destruct (keyed_items store call func rest st1) as [more st2] eqn:E2. apply IH in E2.
      inversion H; subst. eapply store_le_trans; eauto.
  Qed.

  Lemma bi_group_by_mono : forall args st r st',
    bi_group_by store call args st = (r, st') -> store_le st st'.
  Proof.
    intros args st r st' H. unfold bi_group_by in H.
    destruct (by_prologue args) as [[func l]| | | |]; try (inversion H; subst; apply store_le_refl).
    destruct (keyed_items store call func l st) as [keyed st1] eqn:E. apply keyed_items_mono in E.
    inversion H; subst. exact E.
  Qed.
  Lemma bi_count_by_mono : forall args st r st',
    bi_count_by store call args st = (r, st') -> store_le st st'.
  Proof.
    intros args st r st' H. unfold bi_count_by in H.
    destruct (by_prologue args) as [[func l]| | | |]; try (inversion H; subst; apply store_le_refl).
    destruct (keyed_items store call func l st) as [keyed st1] eqn:E. apply keyed_items_mono in E.
    inversion H; subst. exact E.
  Qed.
End ListMono.

Lemma builtin_full_mono : builtin_mono builtin_full.
Proof.
  intros cb Hcb b args st res st' H.
  destruct b; cbn [builtin_full] in H;
    try (eapply pure_bi_mono; exact H);
    try (eapply (builtin_impl_mono cb Hcb); exact H).
  - eapply bi_sort_by_mono; eauto.
  - eapply bi_group_by_mono; eauto.
  - eapply bi_count_by_mono; eauto.
Qed.

(* ================= monotone in the callback: the depth error is never swallowed ================= *)
Section ListLe.
  Variable call1 call2 : callback.
  Hypothesis Hcall : cb_le call1 call2.

  Ltac callstep o' s' :=
    let H := fresh "H" in let o1 := fresh "o1" in let s1 := fresh "s1" in
    let E1 := fresh "E1" in let E2 := fresh "E2" in
    pose proof (Hcall) as H;
    match goal with
    | |- context [call1 ?f ?f ?a ?s] =>
        specialize (H f f a s);
        destruct (call1 f f a s) as [o1 s1], (call2 f f a s) as [o' s'];
        destruct H as [H|H];
        [cbn in H; subst; left; reflexivity
        |apply pair_equal_spec in H; destruct H as [E1 E2]; subst o1 s1]
    end.

  Lemma sort_by_cmp_le : forall func a b st,
    rle (sort_by_cmp store call1 func a b st) (sort_by_cmp store call2 func a b st).
  Proof.
    intros func a b st. unfold sort_by_cmp. destruct (is_function func); [|apply rle_refl].
    callstep ra st1. destruct ra; try apply rle_refl.
    callstep rb st2. apply rle_refl.
  Qed.

  (* the shape used below: a sub-computation related by rle, then the same continuation *)
  Lemma rle_bind : forall A B (x y : outcome A * store) (k : outcome A * store -> outcome B * store),
    rle x y -> (fst x = ErrDepth -> fst (k x) = ErrDepth) -> rle (k x) (k y).
  Proof. intros A B x y k [Hd|Heq] Hk; [left; auto|subst; apply rle_refl]. Qed.

  Lemma merge_by_le : forall func left right st,
    rle (merge_by store call1 func left right st) (merge_by store call2 func left right st).
  Proof.
    intros func left. induction left as [|a left' IHl]; intros right st.
    - destruct right; cbn; apply rle_refl.
    - revert st. induction right as [|b right' IHr]; intros st; [cbn; apply rle_refl|].
      cbn [merge_by].
      pose proof (sort_by_cmp_le func b a st) as Hc.
      destruct (sort_by_cmp store call1 func b a st) as [c1 t1], (sort_by_cmp store call2 func b a st) as [c2 t2].
      destruct Hc as [Hd|Heq]; [cbn in Hd; subst; left; reflexivity|].
      inversion Heq; subst c2 t2. clear Heq.
      destruct c1 as [[]| | | |]; try apply rle_refl.
      + specialize (IHl (b :: right') t1).
        destruct (merge_by store call1 func left' (b :: right') t1) as [p1 u1],
                 (merge_by store call2 func left' (b :: right') t1) as [p2 u2].
        destruct IHl as [Hd|Heq]; [cbn in Hd; subst; left; reflexivity|inversion Heq; subst; apply rle_refl].
      + specialize (IHr t1). cbn [merge_by] in IHr.
        match goal with |- rle (let '(_, _) := ?X in _) (let '(_, _) := ?Y in _) =>
          destruct X as [p1 u1], Y as [p2 u2] end.
        destruct IHr as [Hd|Heq]; [cbn in Hd; subst; left; reflexivity|inversion Heq; subst; apply rle_refl].
      + specialize (IHl (b :: right') t1).
        destruct (merge_by store call1 func left' (b :: right') t1) as [p1 u1],
                 (merge_by store call2 func left' (b :: right') t1) as [p2 u2].
        destruct IHl as [Hd|Heq]; [cbn in Hd; subst; left; reflexivity|inversion Heq; subst; apply rle_refl].
  Qed.

  Lemma merge_sort_by_fuel_le : forall fuel func l st,
    rle (merge_sort_by_fuel store call1 fuel func l st) (merge_sort_by_fuel store call2 fuel func l st).
  Proof.
    induction fuel as [|f IH]; intros func l st; cbn [merge_sort_by_fuel]; [apply rle_refl|].
    destruct (Datatypes.length l <? 2)%nat; [apply rle_refl|].
    pose proof (IH func (firstn (Datatypes.length l / 2) l) st) as H1.
    destruct (merge_sort_by_fuel store call1 f func (firstn (Datatypes.length l / 2) l) st) as [sl1 t1],
             (merge_sort_by_fuel store call2 f func (firstn (Datatypes.length l / 2) l) st) as [sl2 t2].
    destruct H1 as [Hd|Heq]; [cbn in Hd; subst; left; reflexivity|].
    inversion Heq; subst sl2 t2; clear Heq.
    destruct sl1; try apply rle_refl.
    pose proof (IH func (skipn (Datatypes.length l / 2) l) t1) as H2.
    destruct (merge_sort_by_fuel store call1 f func (skipn (Datatypes.length l / 2) l) t1) as [sr1 u1],
             (merge_sort_by_fuel store call2 f func (skipn (Datatypes.length l / 2) l) t1) as [sr2 u2].
    destruct H2 as [Hd|Heq]; [cbn in Hd; subst; left; reflexivity|].
    inversion Heq; subst sr2 u2; clear Heq.
    destruct sr1; try apply rle_refl. apply merge_by_le.
  Qed.

  Lemma bi_sort_by_le : forall args st,
    rle (bi_sort_by store call1 args st) (bi_sort_by store call2 args st).
  Proof.
    intros args st. unfold bi_sort_by.
    destruct (BuiltinsList.arg args 1); try apply rle_refl.
    destruct (obind (BuiltinsList.arg args 0) BuiltinsList.as_list); try apply rle_refl.
    unfold sort_by_list.
    pose proof (merge_sort_by_fuel_le (Datatypes.length a0) a a0 st) as H.
    destruct (merge_sort_by_fuel store call1 (Datatypes.length a0) a a0 st) as [o1 s1],
             (merge_sort_by_fuel store call2 (Datatypes.length a0) a a0 st) as [o2 s2].
    exact (rle_omap _ _ _ VList _ _ H).
  Qed.

  Lemma keyed_items_le : forall func l st,
    rle (keyed_items store call1 func l st) (keyed_items store call2 func l st).
  Proof.
    intros func l. induction l as [|item rest IH]; intros st; cbn [keyed_items]; [apply rle_refl|].
    callstep k st1. destruct k as [v| | | |]; try apply rle_refl.
    destruct v; try apply rle_refl.
    specialize (IH st1).
    destruct (keyed_items store call1 func rest st1) as [p1 u1], (keyed_items store call2 func rest st1) as [p2 u2].
    destruct IH as [Hd|Heq]; [cbn in Hd; subst; left; reflexivity|inversion Heq; subst; apply rle_refl].
  Qed.

  Lemma bi_group_by_le : forall args st,
    rle (bi_group_by store call1 args st) (bi_group_by store call2 args st).
  Proof.
    intros args st. unfold bi_group_by.
    destruct (by_prologue args) as [[func l]| | | |]; try apply rle_refl.
    pose proof (keyed_items_le func l st) as H.
    destruct (keyed_items store call1 func l st) as [o1 s1], (keyed_items store call2 func l st) as [o2 s2].
    exact (rle_omap _ _ _ _ _ _ H).
  Qed.
  Lemma bi_count_by_le : forall args st,
    rle (bi_count_by store call1 args st) (bi_count_by store call2 args st).
  Proof.
    intros args st. unfold bi_count_by.
    destruct (by_prologue args) as [[func l]| | | |]; try apply rle_refl.
    pose proof (keyed_items_le func l st) as H.
    destruct (keyed_items store call1 func l st) as [o1 s1], (keyed_items store call2 func l st) as [o2 s2].
    exact (rle_omap _ _ _ _ _ _ H).
  Qed.
End ListLe.

Lemma builtin_full_le : builtin_le builtin_full.
Proof.
  intros cb1 cb2 Hcb b args st.
  destruct b; cbn [builtin_full]; try apply rle_refl;
    try (apply (builtin_impl_le cb1 cb2 Hcb)).
  - apply bi_sort_by_le; exact Hcb.
  - apply bi_group_by_le; exact Hcb.
  - apply bi_count_by_le; exact Hcb.
Qed.
