(* CountExact.v — C14: count_by's counter is exact.
   The Rust loop `*count += 1.0` run n times from 0.0 yields exactly the double n for every
   n < 2^53 (indeed up to n = 2^53): SFadd of the integers k and 1 is Flocq's Bplus, whose
   result is round(k + 1) = k + 1 because every integer of magnitude <= 2^53 is a binary64
   number; two finite doubles with the same real value and sign are the same double.
   Uses Flocq's real-number layer (the four allow-listed axioms). *)
From Coq Require Import ZArith Reals Bool List Lia Lra Floats.SpecFloat.
From Flocq Require Import Core.Core IEEE754.BinarySingleNaN.
Require Import Blots.Num Blots.Ast Blots.Value Blots.Outcome Blots.BuiltinsList Blots.proofs.AggPercentile
               Blots.proofs.AggRounding Blots.proofs.RecordLaws.
Import ListNotations.
Open Scope Z_scope.

#[local] Existing Instance Hprec.
#[local] Existing Instance Hmax.

Local Notation fexp64 := (SpecFloat.fexp prec emax).
Local Notation BN := (BinarySingleNaN.binary_normalize prec emax Hprec Hmax mode_NE).

(* integers of magnitude at most 2^53 are binary64 numbers *)
Lemma int_format_le : forall z, Z.abs z <= 2 ^ 53 -> generic_format radix2 fexp64 (IZR z).
Proof.
  intros z H. destruct (Z.eq_dec (Z.abs z) (2 ^ 53)) as [E|N].
  - assert (C : z = 2 ^ 53 \/ z = - 2 ^ 53) by lia.
    destruct C as [-> | ->].
    + change (IZR (2 ^ 53)) with (IZR (Zpower radix2 53)). rewrite IZR_Zpower by lia.
      apply generic_format_bpow. vm_compute. discriminate.
    + rewrite opp_IZR. apply generic_format_opp.
      change (IZR (2 ^ 53)) with (IZR (Zpower radix2 53)). rewrite IZR_Zpower by lia.
      apply generic_format_bpow. vm_compute. discriminate.
  - apply generic_format_FLT.
    apply (FLT_spec radix2 (3 - 1024 - 53) 53 (IZR z) (Float radix2 z 0)).
    + unfold F2R. cbn [Fnum Fexp bpow]. ring.
    + cbn [Fnum]. change (radix2 ^ 53) with (2 ^ 53). lia.
    + cbn [Fexp]. lia.
Qed.

Lemma F2R_int : forall z, @F2R radix2 (Float radix2 z 0) = IZR z.
Proof. intros. unfold F2R. cbn [Fnum Fexp bpow]. ring. Qed.

Lemma bpow_1024_gt : forall z, Z.abs z <= 2 ^ 53 -> (Rabs (IZR z) < bpow radix2 emax)%R.
Proof.
  intros z H. rewrite <- abs_IZR.
  apply Rle_lt_trans with (IZR (2 ^ 53)); [now apply IZR_le|].
  change (IZR (2 ^ 53)) with (IZR (Zpower radix2 53)). rewrite IZR_Zpower by lia.
  apply bpow_lt. reflexivity.
Qed.

(* `k as f64` for 0 <= k <= 2^53: finite, value k, sign + *)
Lemma BN_int : forall k, 0 <= k <= 2 ^ 53 ->
  B2R (BN k 0 false) = IZR k /\ BinarySingleNaN.is_finite (BN k 0 false) = true /\ Bsign (BN k 0 false) = false.
Proof.
  intros k Hk.
  pose proof (binary_normalize_correct prec emax Hprec Hmax mode_NE k 0 false) as C.
  cbv zeta in C. rewrite F2R_int in C. cbn [round_mode] in C.
  rewrite round_generic in C by (try apply valid_rnd_N; apply int_format_le; lia).
  rewrite Rlt_bool_true in C by (apply bpow_1024_gt; lia).
  destruct C as (E & F & S). repeat split; [exact E|exact F|].
  rewrite S. destruct (Rcompare_spec (IZR k) 0) as [L| |]; try reflexivity.
  exfalso. assert (0 <= IZR k)%R by (apply (IZR_le 0 k); lia). lra.
Qed.

(* k + 1.0 = k + 1 exactly, as doubles *)
Lemma nadd_int_one : forall k, 0 <= k -> k + 1 <= 2 ^ 53 ->
  nadd (num_of_Z k) one = num_of_Z (k + 1).
Proof.
  intros k H0 H1. unfold one, num_of_Z. rewrite !binary_normalize_equiv, nadd_Bplus. f_equal.
  destruct (BN_int k ltac:(lia)) as (Rk & Fk & Sk).
  destruct (BN_int 1 ltac:(lia)) as (R1 & F1 & S1).
  destruct (BN_int (k + 1) ltac:(lia)) as (Rs & Fs & Ss).
  pose proof (Bplus_correct prec emax Hprec Hmax mode_NE (BN k 0 false) (BN 1 0 false) Fk F1) as C.
  rewrite Rk, R1, <- plus_IZR in C. cbn [round_mode] in C.
  rewrite round_generic in C by (try apply valid_rnd_N; apply int_format_le; lia).
  rewrite Rlt_bool_true in C by (apply bpow_1024_gt; lia).
  destruct C as (E & F & S).
  apply B2R_Bsign_inj; try assumption.
  - now rewrite E, Rs.
  - rewrite S, Ss. destruct (Rcompare_spec (IZR (k + 1)) 0) as [L|L|L]; try reflexivity.
    + exfalso. assert (1 <= IZR (k + 1))%R by (apply (IZR_le 1); lia). lra.
    + exfalso. assert (1 <= IZR (k + 1))%R by (apply (IZR_le 1); lia). lra.
Qed.

(* the counter of count_by after n increments is the double n, for every n <= 2^53 *)
Theorem count_num_exact_le : forall n, Z.of_nat n <= 2 ^ 53 -> count_num n = num_of_nat n.
Proof.
  induction n as [|n IH]; intros H; [reflexivity|].
  change (count_num (S n)) with (nadd (count_num n) one). rewrite IH by lia.
  unfold num_of_nat. rewrite Nat2Z.inj_succ. unfold Z.succ.
  apply nadd_int_one; lia.
Qed.

Theorem count_num_exact : forall n, Z.of_nat n < 2 ^ 53 -> count_num n = num_of_nat n.
Proof. intros n H. apply count_num_exact_le. lia. Qed.

(* the bound is sharp: 2^53 + 1.0 = 2^53 (round to even), so one more increment is lost *)
Lemma count_step_stalls_at_2p53 : nadd (num_of_Z (2 ^ 53)) one = num_of_Z (2 ^ 53).
Proof. vm_compute. reflexivity. Qed.

(* ---------- count_by: the counts are the group sizes, as doubles, exactly ---------- *)
Lemma items_with_length_le : forall k keyed, (length (items_with k keyed) <= length keyed)%nat.
Proof.
  intros k keyed. unfold items_with. rewrite map_length.
  induction keyed as [|a keyed IH]; [apply le_n|].
  cbn [filter]. destruct (String.eqb (fst a) k); cbn [length]; lia.
Qed.

Theorem count_by_counts_exact :
  forall St (call : value -> value -> list value -> St -> outcome value * St) func l st r st',
  Z.of_nat (length l) < 2 ^ 53 ->
  bi_count_by St call [VList l; func] st = (Ok r, st') ->
  exists keyed, map snd keyed = l /\
    r = VRec (map (fun k => (k, VNum (num_of_nat (length (items_with k keyed))))) (first_keys [] (map fst keyed))).
Proof.
  intros St call func l st r st' Hl H.
  destruct (count_by_counts St call func l st r st' H) as (keyed & E & R).
  exists keyed. split; [exact E|]. rewrite R. f_equal. apply map_ext. intros k.
  rewrite count_num_exact; [reflexivity|].
  pose proof (items_with_length_le k keyed) as L.
  assert (length keyed = length l) by (rewrite <- E; now rewrite map_length). lia.
Qed.
