(* FreeVars.v — two facts about collect_free_variables (Env.free_vars): a collected name is
   not in the bound set, and the result only shrinks when the bound set grows. *)
From Coq Require Import String Ascii List ZArith Bool Lia.
Require Import Blots.Num Blots.gen.Builtins Blots.Ast Blots.Value Blots.Outcome Blots.Binop
               Blots.Env Blots.proofs.ExprInd.
Import ListNotations.
Open Scope string_scope.
Open Scope list_scope.

Lemma mem_In : forall x l, mem x l = true <-> In x l.
Proof.
  intros x l. unfold mem. rewrite existsb_exists. split.
  - intros [y [Hy He]]. apply String.eqb_eq in He. subst. exact Hy.
  - intros H. exists x. split; [exact H|apply String.eqb_refl].
Qed.
Lemma mem_false_notin : forall x l, mem x l = false <-> ~ In x l.
Proof. intros x l. rewrite <- mem_In. destruct (mem x l); split; intros; try congruence; tauto. Qed.

(* a name is "visible" for the bound set b2 if it is collected there or bound there *)
Definition fv_weak (e : expr) : Prop :=
  forall b1 b2 x, In x (free_vars e b1) -> In x (free_vars e b2) \/ In x b2.
Definition fv_nb (e : expr) : Prop :=
  forall b x, In x (free_vars e b) -> ~ In x b.

Lemma fv_both : forall e, fv_weak e /\ fv_nb e.
Proof.
  induction e using expr_ind'; split; unfold fv_weak, fv_nb; cbn [free_vars];
    try (intros; contradiction); try (intros ? ? H0; contradiction).
  - (* EId weak *)
    intros b1 b2 y Hin.
    destruct (mem x b1 || String.eqb x "infinity" || String.eqb x "inf" || String.eqb x "constants") eqn:E1;
      [contradiction|]. destruct Hin as [Hin|[]]; subst y.
    apply orb_false_iff in E1. destruct E1 as [E1 Ec]. apply orb_false_iff in E1. destruct E1 as [E1 Ei].
    apply orb_false_iff in E1. destruct E1 as [Em Einf]. rewrite Einf, Ei, Ec.
    destruct (mem x b2) eqn:E2; cbn [orb]; [right; apply mem_In; exact E2|left; left; reflexivity].
  - (* EId nb *)
    intros b y Hin.
    destruct (mem x b || String.eqb x "infinity" || String.eqb x "inf" || String.eqb x "constants") eqn:E1;
      [contradiction|]. destruct Hin as [Hin|[]]; subst y.
    apply orb_false_iff in E1. destruct E1 as [E1 _]. apply orb_false_iff in E1. destruct E1 as [E1 _].
    apply orb_false_iff in E1. destruct E1 as [Em _]. apply mem_false_notin. exact Em.
  - (* EInRef weak: `#field` reads `inputs` *)
    intros b1 b2 y Hin. destruct (mem "inputs" b1); [contradiction|]. destruct Hin as [Hin|[]]; subst y.
    destruct (mem "inputs" b2) eqn:E2; [right; apply mem_In; exact E2|left; left; reflexivity].
  - (* EInRef nb *)
    intros b y Hin. destruct (mem "inputs" b) eqn:E; [contradiction|]. destruct Hin as [Hin|[]]; subst y.
    apply mem_false_notin. exact E.
  - (* EList weak *)
    intros b1 b2 x. match goal with HF : Forall _ items |- _ => induction HF as [|[ld a tr] l Ha _ IHl] end;
      [intros []|]. cbn [cnode] in Ha. intros Hin. apply in_app_or in Hin. destruct Hin as [Hin|Hin].
    + destruct (proj1 Ha b1 b2 x Hin) as [A|A]; [left; apply in_or_app; left; exact A|right; exact A].
    + destruct (IHl Hin) as [A|A]; [left; apply in_or_app; right; exact A|right; exact A].
  - (* EList nb *)
    intros b x. match goal with HF : Forall _ items |- _ => induction HF as [|[ld a tr] l Ha _ IHl] end;
      [intros []|]. cbn [cnode] in Ha. intros Hin. apply in_app_or in Hin. destruct Hin as [Hin|Hin];
      [exact (proj2 Ha b x Hin)|exact (IHl Hin)].
  - (* ERec weak *)
    intros b1 b2 x. match goal with HF : Forall _ entries |- _ => induction HF as [|[ld [k v] tr] l Ha _ IHl] end;
      [intros []|]. cbn [cnode Pentry] in Ha. destruct Ha as [Hk Hv]. intros Hin. apply in_app_or in Hin.
    destruct Hin as [Hin|Hin]; [|destruct (IHl Hin) as [A|A]; [left; apply in_or_app; right; exact A|right; exact A]].
    destruct k as [key|ke|y|se]; cbn [Pkey] in Hk.
    + destruct (proj1 Hv b1 b2 x Hin) as [A|A]; [left; apply in_or_app; left; exact A|right; exact A].
    + apply in_app_or in Hin. destruct Hin as [Hin|Hin].
      * destruct (proj1 Hk b1 b2 x Hin) as [A|A]; [left; apply in_or_app; left; apply in_or_app; left; exact A|right; exact A].
      * destruct (proj1 Hv b1 b2 x Hin) as [A|A]; [left; apply in_or_app; left; apply in_or_app; right; exact A|right; exact A].
    + destruct (mem y b1) eqn:E1; [contradiction|]. destruct Hin as [Hin|[]]; subst x.
      destruct (mem y b2) eqn:E2; [right; apply mem_In; exact E2|left; apply in_or_app; left; left; reflexivity].
    + destruct (proj1 Hk b1 b2 x Hin) as [A|A]; [left; apply in_or_app; left; exact A|right; exact A].
  - (* ERec nb *)
    intros b x. match goal with HF : Forall _ entries |- _ => induction HF as [|[ld [k v] tr] l Ha _ IHl] end;
      [intros []|]. cbn [cnode Pentry] in Ha. destruct Ha as [Hk Hv]. intros Hin. apply in_app_or in Hin.
    destruct Hin as [Hin|Hin]; [|exact (IHl Hin)].
    destruct k as [key|ke|y|se]; cbn [Pkey] in Hk.
    + exact (proj2 Hv b x Hin).
    + apply in_app_or in Hin. destruct Hin as [Hin|Hin]; [exact (proj2 Hk b x Hin)|exact (proj2 Hv b x Hin)].
    + destruct (mem y b) eqn:E1; [contradiction|]. destruct Hin as [Hin|[]]; subst x. apply mem_false_notin; exact E1.
    + exact (proj2 Hk b x Hin).
  - (* ELam weak *)
    intros b1 b2 x Hin. destruct IHe as [Hw Hn].
    destruct (Hw _ (map arg_name args ++ b2) x Hin) as [A|A]; [left; exact A|].
    apply in_app_or in A. destruct A as [A|A]; [|right; exact A].
    exfalso. apply (Hn _ x Hin). apply in_or_app. left. exact A.
  - (* ELam nb *)
    intros b x Hin. destruct IHe as [_ Hn]. intros Hb. apply (Hn _ x Hin). apply in_or_app. right. exact Hb.
  - (* ECond weak *)
    intros b1 b2 x Hin. apply in_app_or in Hin. destruct Hin as [Hin|Hin].
    + destruct (proj1 IHe1 b1 b2 x Hin) as [A|A]; [left; apply in_or_app; left; exact A|right; exact A].
    + apply in_app_or in Hin. destruct Hin as [Hin|Hin].
      * destruct (proj1 IHe2 b1 b2 x Hin) as [A|A]; [left; apply in_or_app; right; apply in_or_app; left; exact A|right; exact A].
      * destruct (proj1 IHe3 b1 b2 x Hin) as [A|A]; [left; apply in_or_app; right; apply in_or_app; right; exact A|right; exact A].
  - (* ECond nb *)
    intros b x Hin. apply in_app_or in Hin. destruct Hin as [Hin|Hin]; [exact (proj2 IHe1 b x Hin)|].
    apply in_app_or in Hin. destruct Hin as [Hin|Hin]; [exact (proj2 IHe2 b x Hin)|exact (proj2 IHe3 b x Hin)].
  - (* EDo weak *)
    match goal with HF : Forall _ stmts, HR : _ /\ _ |- _ => rename HF into HFs; rename HR into HRet end.
    destruct ret as [ld rt tr]. cbn [cnode] in HRet.
    intros b1 b2. revert b1 b2. induction HFs as [|[l1 s t1] l Hs HFl IHl]; intros b1 b2 x Hin.
    + exact (proj1 HRet b1 b2 x Hin).
    + cbn [cnode] in Hs. destruct s; try (apply in_app_or in Hin; destruct Hin as [Hin|Hin];
        [destruct (proj1 Hs b1 b2 x Hin) as [A|A]; [left; apply in_or_app; left; exact A|right; exact A]
        |destruct (IHl b1 b2 x Hin) as [A|A]; [left; apply in_or_app; right; exact A|right; exact A]]).
      (* EAssign y v : the rest sees y bound *)
      apply in_app_or in Hin. destruct Hin as [Hin|Hin].
      * cbn [free_vars] in Hs.
        destruct (proj1 Hs b1 b2 x Hin) as [A|A]; [left; apply in_or_app; left; exact A|right; exact A].
      * destruct (IHl (x0 :: b1) (x0 :: b2) x Hin) as [A|A]; [left; apply in_or_app; right; exact A|].
        destruct A as [A|A]; [|right; exact A]. subst x0.
        (* x is collected under (x :: b1): impossible *)
        exfalso.
        assert (Hnb : forall l0 b y, In y ((fix go (l : list (commented expr)) (bnd : list string) {struct l} : list string :=
                     match l with
                     | [] => free_vars rt bnd
                     | Cm _ s _ :: r =>
                         match s with
                         | EAssign x v => free_vars v bnd ++ go r (x :: bnd)
                         | _ => free_vars s bnd ++ go r bnd
                         end
                     end) l0 b) -> Forall (fun cm => fv_weak (cnode cm) /\ fv_nb (cnode cm)) l0 -> ~ In y b).
        { clear - HRet. induction l0 as [|[l2 s2 t2] l0 IH0]; intros b y Hy HF0.
          - exact (proj2 HRet b y Hy).
          - inversion HF0 as [|? ? Hs2 HF0']; subst. cbn [cnode] in Hs2.
            destruct s2; try (apply in_app_or in Hy; destruct Hy as [Hy|Hy];
              [exact (proj2 Hs2 b y Hy)|exact (IH0 b y Hy HF0')]).
            apply in_app_or in Hy. destruct Hy as [Hy|Hy].
            + cbn [free_vars] in Hs2. exact (proj2 Hs2 b y Hy).
            + intros Hb. apply (IH0 (x :: b) y Hy HF0'). right. exact Hb. }
        apply (Hnb l (x :: b1) x Hin); [exact HFl|left; reflexivity].
  - (* EDo nb *)
    match goal with HF : Forall _ stmts, HR : _ /\ _ |- _ => rename HF into HFs; rename HR into HRet end.
    destruct ret as [ld rt tr]. cbn [cnode] in HRet.
    intros b. revert b. induction HFs as [|[l1 s t1] l Hs _ IHl]; intros b x Hin.
    + exact (proj2 HRet b x Hin).
    + cbn [cnode] in Hs. destruct s; try (apply in_app_or in Hin; destruct Hin as [Hin|Hin];
        [exact (proj2 Hs b x Hin)|exact (IHl b x Hin)]).
      apply in_app_or in Hin. destruct Hin as [Hin|Hin].
      * cbn [free_vars] in Hs. exact (proj2 Hs b x Hin).
      * intros Hb. apply (IHl (x0 :: b) x Hin). right. exact Hb.
  - (* EAssign weak *) intros b1 b2 y Hin. exact (proj1 IHe b1 b2 y Hin).
  - intros b y Hin. exact (proj2 IHe b y Hin).
  - (* ECall weak *)
    intros b1 b2 x Hin. apply in_app_or in Hin. destruct Hin as [Hin|Hin].
    + destruct (proj1 IHe b1 b2 x Hin) as [A|A]; [left; apply in_or_app; left; exact A|right; exact A].
    + match goal with HF : Forall _ args |- _ => induction HF as [|a l Ha _ IHl] end; [destruct Hin|].
      apply in_app_or in Hin. destruct Hin as [Hin|Hin].
      * destruct (proj1 Ha b1 b2 x Hin) as [A|A]; [left; apply in_or_app; right; apply in_or_app; left; exact A|right; exact A].
      * destruct (IHl Hin) as [A|A]; [|right; exact A]. left. apply in_app_or in A. destruct A as [A|A].
        -- apply in_or_app; left; exact A.
        -- apply in_or_app; right. apply in_or_app; right; exact A.
  - (* ECall nb *)
    intros b x Hin. apply in_app_or in Hin. destruct Hin as [Hin|Hin]; [exact (proj2 IHe b x Hin)|].
    match goal with HF : Forall _ args |- _ => induction HF as [|a l Ha _ IHl] end; [destruct Hin|].
    apply in_app_or in Hin. destruct Hin as [Hin|Hin]; [exact (proj2 Ha b x Hin)|exact (IHl Hin)].
  - (* EAccess *)
    intros b1 b2 x Hin. apply in_app_or in Hin. destruct Hin as [Hin|Hin].
    + destruct (proj1 IHe1 b1 b2 x Hin) as [A|A]; [left; apply in_or_app; left; exact A|right; exact A].
    + destruct (proj1 IHe2 b1 b2 x Hin) as [A|A]; [left; apply in_or_app; right; exact A|right; exact A].
  - intros b x Hin. apply in_app_or in Hin. destruct Hin as [Hin|Hin]; [exact (proj2 IHe1 b x Hin)|exact (proj2 IHe2 b x Hin)].
  - (* EDot *) intros b1 b2 x Hin. exact (proj1 IHe b1 b2 x Hin).
  - intros b x Hin. exact (proj2 IHe b x Hin).
  - (* EBin *)
    intros b1 b2 x Hin. apply in_app_or in Hin. destruct Hin as [Hin|Hin].
    + destruct (proj1 IHe1 b1 b2 x Hin) as [A|A]; [left; apply in_or_app; left; exact A|right; exact A].
    + destruct (proj1 IHe2 b1 b2 x Hin) as [A|A]; [left; apply in_or_app; right; exact A|right; exact A].
  - intros b x Hin. apply in_app_or in Hin. destruct Hin as [Hin|Hin]; [exact (proj2 IHe1 b x Hin)|exact (proj2 IHe2 b x Hin)].
  - intros b1 b2 x Hin. exact (proj1 IHe b1 b2 x Hin).
  - intros b x Hin. exact (proj2 IHe b x Hin).
  - intros b1 b2 x Hin. exact (proj1 IHe b1 b2 x Hin).
  - intros b x Hin. exact (proj2 IHe b x Hin).
  - intros b1 b2 x Hin. exact (proj1 IHe b1 b2 x Hin).
  - intros b x Hin. exact (proj2 IHe b x Hin).
Qed.

Lemma fv_weaken : forall e b1 b2 x, In x (free_vars e b1) -> In x (free_vars e b2) \/ In x b2.
Proof. intros e. exact (proj1 (fv_both e)). Qed.
Lemma fv_not_bound : forall e b x, In x (free_vars e b) -> ~ In x b.
Proof. intros e. exact (proj2 (fv_both e)). Qed.

(* every collected name passes P when every identifier / shorthand key of the expression does *)
Section FvAll.
  Variable P : string -> Prop.
  Fixpoint ids_ok (e : expr) {struct e} : Prop :=
    match e with
    | EId x => P x
    | EInRef _ => P "inputs"
    | ELam _ body => ids_ok body
    | EList items =>
        (fix go (l : list (commented expr)) : Prop :=
           match l with [] => True | Cm _ a _ :: r => ids_ok a /\ go r end) items
    | ERec entries =>
        (fix go (l : list (commented rentry)) : Prop :=
           match l with
           | [] => True
           | Cm _ (REntry k v) _ :: r =>
               (match k with
                | KDyn a => ids_ok a /\ ids_ok v
                | KSpread a => ids_ok a
                | KStatic _ => ids_ok v
                | KShort x => P x
                end) /\ go r
           end) entries
    | ECond c t f => ids_ok c /\ ids_ok t /\ ids_ok f
    | EDo stmts (Cm _ ret _) =>
        (fix go (l : list (commented expr)) : Prop :=
           match l with [] => True | Cm _ a _ :: r => ids_ok a /\ go r end) stmts /\ ids_ok ret
    | EAssign _ v => ids_ok v
    | EOutput a | EUn _ a | EFact a | ESpread a | EDot a _ => ids_ok a
    | ECall f args =>
        ids_ok f /\ (fix go (l : list expr) : Prop :=
                       match l with [] => True | a :: r => ids_ok a /\ go r end) args
    | EAccess a i => ids_ok a /\ ids_ok i
    | EBin _ l r => ids_ok l /\ ids_ok r
    | _ => True
    end.

  Lemma fv_ids_ok : forall e bnd x, ids_ok e -> In x (free_vars e bnd) -> P x.
  Proof.
    induction e using expr_ind'; intros bnd y Hok Hin; cbn [free_vars ids_ok] in *; try contradiction.
    - destruct (_ || _) in Hin; [contradiction|]. destruct Hin as [<-|[]]. exact Hok.
    - destruct (mem "inputs" bnd) in Hin; [contradiction|]. destruct Hin as [<-|[]]. exact Hok.
    - match goal with HF : Forall _ items |- _ => induction HF as [|[ld a tr] l Ha _ IHl] end; [contradiction|].
      cbn [cnode] in Ha. destruct Hok as [H1 H2]. apply in_app_or in Hin. destruct Hin as [Hin|Hin]; eauto.
    - match goal with HF : Forall _ entries |- _ => induction HF as [|[ld [k v] tr] l Ha _ IHl] end; [contradiction|].
      cbn [cnode Pentry] in Ha. destruct Ha as [Hk Hv]. destruct Hok as [H1 H2].
      apply in_app_or in Hin. destruct Hin as [Hin|Hin]; [|eauto].
      destruct k as [key|ke|z|se]; cbn [Pkey] in Hk.
      + eauto.
      + destruct H1 as [H1a H1b]. apply in_app_or in Hin. destruct Hin as [Hin|Hin]; eauto.
      + destruct (mem z bnd); [contradiction|]. destruct Hin as [<-|[]]. exact H1.
      + eauto.
    - eauto.
    - destruct Hok as (H1 & H2 & H3). apply in_app_or in Hin. destruct Hin as [Hin|Hin]; [eauto|].
      apply in_app_or in Hin. destruct Hin as [Hin|Hin]; eauto.
    - match goal with HF : Forall _ stmts, HR : forall _ _, _ |- _ => rename HF into HFs; rename HR into HRet end.
      destruct ret as [ld rt tr]. cbn [cnode] in HRet. destruct Hok as [Hs Hr].
      revert bnd Hin. induction HFs as [|[l1 s t1] l Hs1 _ IHl]; intros bnd Hin; [eauto|].
      cbn [cnode] in Hs1. destruct Hs as [Ha Hb].
      destruct s; apply in_app_or in Hin; (destruct Hin as [Hin|Hin]; [eauto|eapply IHl; eauto]).
    - eauto.
    - destruct Hok as [H1 H2]. apply in_app_or in Hin. destruct Hin as [Hin|Hin]; [eauto|].
      match goal with HF : Forall _ args |- _ => induction HF as [|a l Ha _ IHl] end; [contradiction|].
      destruct H2 as [H2a H2b]. apply in_app_or in Hin. destruct Hin as [Hin|Hin]; eauto.
    - destruct Hok as [H1 H2]. apply in_app_or in Hin. destruct Hin as [Hin|Hin]; eauto.
    - eauto.
    - destruct Hok as [H1 H2]. apply in_app_or in Hin. destruct Hin as [Hin|Hin]; eauto.
    - eauto.
    - eauto.
    - eauto.
  Qed.
End FvAll.
