(* proofs/PegShapeFirst.v — FIRST-byte analysis of the PEG interpreter (every grammar) and its use on gen/Grammar.v:
   a do_statement that starts with a `comment` pair has no second pair (the `comment` rule runs to the line break /
   end of input, and `WHITESPACE* ~ comment` cannot start there) — the one conjunct of PegComments.do_shape that is
   not a rule-shape fact.
   [run_first]: if an expression succeeds, either the remaining input is unchanged or its first byte is in the
   (over-approximated) set [first e], read off the expression; rule references through a table [Fst] closed under
   unfolding rule bodies. *)
From Coq Require Import String Ascii List NArith Bool Arith Lia ZifyBool ZifyNat ZifyN.
Require Import Blots.Peg Blots.proofs.PegGeneric.
Import ListNotations.

Section First.
  Variable R : Type.
  Variable G : grammar R.
  Notation st := (st R).
  Notation res := (res R).
  Variable Fst : R -> ascii -> bool.

  Definition head_is (x : string) (c : ascii) : bool :=
    match x with String a _ => Ascii.eqb a c | EmptyString => false end.
  Definition head_is_ci (x : string) (c : ascii) : bool :=
    match x with String a _ => Ascii.eqb (lower a) (lower c) | EmptyString => false end.
  Variable Nul : R -> bool.
  Definition wsf (c : ascii) : bool :=
    (match g_ws G with Some w => Fst w c | None => false end) ||
    (match g_comment G with Some w => Fst w c | None => false end).
  Definition is_empty (x : string) : bool := match x with EmptyString => true | _ => false end.

  (* may the expression succeed without consuming a byte? (over-approximation) *)
  Fixpoint nullable (e : expr R) : bool :=
    match e with
    | Str x | Insens x => is_empty x
    | Range _ _ => false
    | Ident r => Nul r
    | Builtin BAny => false
    | Builtin _ => true
    | PosPred _ | NegPred _ => true
    | Seq a b => nullable a && nullable b
    | Choice a b => nullable a || nullable b
    | Opt _ | Rep _ | SkipUntil _ => true
    | Push x | RestoreOnErr x => nullable x
    end.
  (* the first byte of the input when the expression succeeds and consumes something (over-approximation) *)
  Fixpoint first (e : expr R) (c : ascii) : bool :=
    match e with
    | Str x => head_is x c
    | Insens x => head_is_ci x c
    | Range lo hi => in_range lo hi c
    | Ident r => Fst r c
    | Builtin BAny | Builtin BPeek | Builtin BPop => true
    | Builtin _ => false
    | PosPred _ | NegPred _ => false
    | Seq a b => first a c || (nullable a && (wsf c || first b c))
    | Choice a b => first a c || first b c
    | Opt x | Rep x => first x c || wsf c
    | SkipUntil _ => true
    | Push x | RestoreOnErr x => first x c
    end.

  Hypothesis Fst_sound : forall r c, first (rd_body (g_def G r)) c = true -> Fst r c = true.
  Hypothesis Nul_sound : forall r, nullable (rd_body (g_def G r)) = true -> Nul r = true.

  (* either nothing was consumed (and N allows it), or the first byte of the input is in F *)
  Definition step (N : bool) (F : ascii -> bool) (s s' : st) : Prop :=
    (rest s' = rest s /\ N = true) \/ exists c r, rest s = String c r /\ F c = true.
  Definition stepr (N : bool) (F : ascii -> bool) (s : st) (r : res) : Prop :=
    match r with Ok s' => step N F s s' | Fail s' => rest s' = rest s | _ => True end.
  Definition step_fun (N : bool) (F : ascii -> bool) (g : st -> res) : Prop := forall s, stepr N F s (g s).

  Lemma step_weaken : forall (N N' : bool) (F F' : ascii -> bool) s s',
    (N = true -> N' = true) -> (forall c, F c = true -> F' c = true) -> step N F s s' -> step N' F' s s'.
  Proof. intros N N' F F' s s' HN H [[E En]|(c & r & E & Hc)]; [left; auto|right; exists c, r; auto]. Qed.
  Lemma stepr_weaken : forall (N N' : bool) (F F' : ascii -> bool) s r,
    (N = true -> N' = true) -> (forall c, F c = true -> F' c = true) -> stepr N F s r -> stepr N' F' s r.
  Proof. intros N N' F F' s r HN H Hs. destruct r; simpl in *; auto. eapply step_weaken; eassumption. Qed.
  Lemma step_trans : forall N1 N2 (F1 F2 : ascii -> bool) s s1 s2, step N1 F1 s s1 -> step N2 F2 s1 s2 ->
    step (N1 && N2) (fun c => F1 c || (N1 && F2 c)) s s2.
  Proof.
    intros N1 N2 F1 F2 s s1 s2 [[E1 En1]|(c & r & E & Hc)] H2.
    - subst N1. destruct H2 as [[E2 En2]|(c & r & E & Hc)].
      + left. split; [congruence|exact En2].
      + right. exists c, r. rewrite <- E1. split; [exact E|]. rewrite Hc. apply orb_true_r.
    - right. exists c, r. split; [exact E|]. rewrite Hc. reflexivity.
  Qed.

  (* sequence s (bind r f) *)
  Lemma stepr_seq_bind : forall N1 N2 (F1 F2 : ascii -> bool) s r f, stepr N1 F1 s r -> step_fun N2 F2 f ->
    stepr (N1 && N2) (fun c => F1 c || (N1 && F2 c)) s (sequence s (bind r f)).
  Proof.
    intros N1 N2 F1 F2 s r f Hr Hf. destruct r as [s1|s1| |]; simpl in *; auto.
    pose proof (Hf s1) as H. destruct (f s1) as [s2|s2| |]; simpl in *; auto.
    eapply step_trans; eassumption.
  Qed.
  Lemma stepr_optional : forall N F s r, stepr N F s r -> stepr true F s (optional r).
  Proof.
    intros N F s r H. destruct r; simpl in *; auto.
    - eapply step_weaken; [| |exact H]; auto.
    - left. auto.
  Qed.
  Lemma step_repeat : forall N F n g, step_fun N F g -> step_fun true F (repeat_loop n g).
  Proof.
    intros N F n g Hg. induction n as [|n IH]; intro s; simpl; [exact I|].
    pose proof (Hg s) as H. destruct (g s) as [s1|s1| |] eqn:E; simpl in *; auto.
    - pose proof (IH s1) as H2. destruct (repeat_loop n g s1) as [s2|s2| |] eqn:E2; simpl in *; auto.
      + eapply step_weaken; [| |eapply step_trans; eassumption]; [auto|].
        intros c Hc. cbv beta in Hc. destruct (F c); [reflexivity|]. destruct N; simpl in Hc; discriminate.
      + exfalso. eapply repeat_never_fails. exact E2.
    - left. auto.
  Qed.

  Definition first_runner (rf : runner R) : Prop := forall m a la e, step_fun (nullable e) (first e) (rf m a la e).

  Lemma step_rule_wrap : forall N F r a la f, step_fun N F f -> step_fun N F (rule_wrap r a la f).
  Proof.
    intros N F r a la f Hf s. unfold rule_wrap. destruct (emits a la); [|apply Hf].
    pose proof (Hf (set_out s [])) as H. destruct (f (set_out s [])); simpl in *; auto.
  Qed.

  Lemma step_call : forall rf, first_runner rf -> forall a la r, step_fun (Nul r) (Fst r) (call_with G rf a la r).
  Proof.
    intros rf H a la r s. unfold call_with.
    assert (Hb : forall m a', step_fun (Nul r) (Fst r) (rf m a' la (rd_body (g_def G r)))).
    { intros m a' s0. eapply stepr_weaken; [| |apply H]; [apply Nul_sound|intros c; apply Fst_sound]. }
    destruct (rd_mod (g_def G r)); try (apply step_rule_wrap; intro s0; apply Hb); apply Hb.
  Qed.

  Lemma step_skip : forall n rf, first_runner rf -> forall a la, step_fun true wsf (skip_with G n (call_with G rf) a la).
  Proof.
    intros n rf H a la s. unfold skip_with, wsf.
    destruct a; try (simpl; left; auto).
    destruct (g_ws G) as [w|], (g_comment G) as [c|]; try (simpl; left; auto).
    - eapply stepr_weaken; [| |apply stepr_seq_bind; [apply (step_repeat (Nul w) (Fst w)); apply step_call; exact H|]].
      3:{ apply (step_repeat (Nul c && true) (fun x => Fst c x || (Nul c && Fst w x))). intro s1.
          apply stepr_seq_bind; [apply step_call; exact H|apply (step_repeat (Nul w)); apply step_call; exact H]. }
      + auto.
      + intros x Hx. cbv beta in Hx. destruct (Fst w x); [reflexivity|]. destruct (Fst c x); [apply orb_true_r|].
        simpl in Hx. destruct (Nul c); simpl in Hx; discriminate.
    - eapply stepr_weaken; [| |apply (step_repeat (Nul w) (Fst w)); apply step_call; exact H]; [auto|].
      intros x Hx. rewrite Hx. reflexivity.
    - eapply stepr_weaken; [| |apply (step_repeat (Nul c) (Fst c)); apply step_call; exact H]; [auto|].
      intros x Hx. rewrite Hx. reflexivity.
  Qed.

  Lemma drop_prefix_head : forall x t r, drop_prefix x t = Some r ->
    r = t \/ exists c t', t = String c t' /\ head_is x c = true.
  Proof.
    intros [|a x] t r H; simpl in *; [inversion H; left; reflexivity|].
    destruct t as [|b t]; [discriminate|]. destruct (Ascii.eqb a b) eqn:E; [|discriminate].
    right. exists b, t. split; [reflexivity|exact E].
  Qed.
  Lemma drop_prefix_ci_head : forall x t r, drop_prefix_ci x t = Some r ->
    r = t \/ exists c t', t = String c t' /\ head_is_ci x c = true.
  Proof.
    intros [|a x] t r H; simpl in *; [inversion H; left; reflexivity|].
    destruct t as [|b t]; [discriminate|]. destruct (Ascii.eqb (lower a) (lower b)) eqn:E; [|discriminate].
    right. exists b, t. split; [reflexivity|exact E].
  Qed.

  Lemma step_match_string : forall x N F, (is_empty x = true -> N = true) ->
    (forall c, head_is x c = true -> F c = true) -> step_fun N F (match_string x).
  Proof.
    intros x N F HN HF s. unfold match_string. destruct (drop_prefix x (rest s)) eqn:E; simpl; [|reflexivity].
    destruct x as [|a x].
    - simpl in E. inversion E. left. auto.
    - destruct (drop_prefix_head _ _ _ E) as [->|(c & t & Et & Hc)]; [|right; exists c, t; auto].
      (* a non-empty prefix was dropped and the rest is unchanged: impossible *)
      exfalso. apply drop_prefix_sdrop in E. destruct E as [L E]. apply (f_equal String.length) in E.
      rewrite sdrop_length in E by assumption. simpl in E, L. lia.
  Qed.

  Ltac bool_solve Hc :=
    cbv beta in Hc;
    repeat match goal with
           | |- context [first ?x ?c] => destruct (first x c)
           | |- context [wsf ?c] => destruct (wsf c)
           | |- context [nullable ?x] => destruct (nullable x)
           | H : context [first ?x ?c] |- _ => destruct (first x c)
           | H : context [wsf ?c] |- _ => destruct (wsf c)
           | H : context [nullable ?x] |- _ => destruct (nullable x)
           end; simpl in *; congruence.

  Theorem run_first : forall f, first_runner (run G f).
  Proof.
    induction f as [|f IH]; intros m a la e s; [exact I|].
    pose proof (step_call _ IH) as IHc.
    pose proof (fun a la => step_skip f _ IH a la) as IHs.
    rewrite run_S. cbv zeta.
    destruct e as [x|x|lo hi|r|b|x|x|x y|x y|x|x|ss|x|x]; cbn [first nullable].
    - apply step_match_string; auto.
    - unfold match_insensitive. destruct (drop_prefix_ci x (rest s)) eqn:E; simpl; [|reflexivity].
      destruct x as [|a0 x]; [simpl in E; inversion E; left; auto|].
      destruct (drop_prefix_ci_head _ _ _ E) as [->|(c & t & Et & Hc)]; [|right; exists c, t; auto].
      exfalso. apply drop_prefix_ci_sdrop in E. destruct E as [L E]. apply (f_equal String.length) in E.
      rewrite sdrop_length in E by assumption. simpl in E, L. lia.
    - unfold match_range. destruct (rest s) as [|c t] eqn:E; simpl; [reflexivity|].
      destruct (in_range lo hi c) eqn:Ei; simpl; [|first [reflexivity|exact E]]. right. exists c, t. rewrite ?E. auto.
    - apply IHc.
    - destruct b; simpl.
      + destruct (rest s) as [|c t] eqn:E; simpl; [reflexivity|]. right. exists c, t. auto.
      + destruct (N.eqb (pos s) 0); simpl; [left; auto|reflexivity].
      + destruct (rest s); simpl; [left; auto|reflexivity].
      + destruct (stack_peek (stk s)); [|exact I]. apply step_match_string; auto.
      + destruct (stack_pop (stk s)) as [[x|] k]; [|exact I].
        exact (step_match_string x true (fun _ => true) (fun _ => eq_refl) (fun _ _ => eq_refl) (set_stk s k)).
      + destruct (stack_pop (stk s)) as [[x|] k]; simpl; [left; auto|reflexivity].
    - unfold lookahead. pose proof (IH m a true x (set_stk s (stack_snapshot (stk s)))) as H.
      destruct (run G f m a true x (set_stk s (stack_snapshot (stk s)))); simpl in *; auto; try (left; auto).
    - unfold lookahead. pose proof (IH m a true x (set_stk s (stack_snapshot (stk s)))) as H.
      destruct (run G f m a true x (set_stk s (stack_snapshot (stk s)))); simpl in *; auto; try (left; auto).
    - destruct m.
      + eapply stepr_weaken; [| |apply stepr_seq_bind; [apply (IH true a la x)|apply (IH true a la y)]]; [auto|].
        intros c Hc. bool_solve Hc.
      + pose proof (IH false a la x s) as H1.
        destruct (run G f false a la x s) as [s1|s1| |] eqn:E1; simpl in *; auto.
        pose proof (IHs a la s1) as H2.
        destruct (skip_with G f (call_with G (run G f)) a la s1) as [s2|s2| |] eqn:E2; simpl in *; auto.
        pose proof (IH false a la y s2) as H3.
        destruct (run G f false a la y s2) as [s3|s3| |] eqn:E3; simpl in *; auto.
        pose proof (step_trans _ _ _ _ _ _ _ (step_trans _ _ _ _ _ _ _ H1 H2) H3) as H.
        eapply step_weaken; [| |exact H].
        * intro Hn. rewrite andb_true_r in Hn. exact Hn.
        * intros c Hc. bool_solve Hc.
    - pose proof (IH m a la x s) as H1. destruct (run G f m a la x s) as [s1|s1| |] eqn:E1; simpl in *; auto.
      + eapply step_weaken; [| |exact H1]; [intro Hn; rewrite Hn; reflexivity|intros c Hc; rewrite Hc; reflexivity].
      + pose proof (IH m a la y s1) as H2. destruct (run G f m a la y s1) as [s2|s2| |]; simpl in *; auto.
        * destruct H2 as [[E En]|(c & r & E & Hc)]; [left; split; [congruence|rewrite En; apply orb_true_r]|].
          right. exists c, r. rewrite <- H1. split; [exact E|]. rewrite Hc. apply orb_true_r.
        * congruence.
    - eapply stepr_weaken; [| |apply (stepr_optional _ _ _ _ (IH m a la x s))]; [auto|].
      intros c Hc. rewrite Hc. reflexivity.
    - destruct m.
      + eapply stepr_weaken; [| |apply (step_repeat (nullable x) (first x)); apply (IH true a la x)]; [auto|].
        intros c Hc. rewrite Hc. reflexivity.
      + pose proof (IH false a la x s) as H1.
        destruct (run G f false a la x s) as [s1|s1| |] eqn:E1; cbn [bind optional sequence]; simpl; auto.
        * assert (Hg : step_fun (true && nullable x) (fun c => wsf c || (true && first x c))
                         (fun s1 => sequence s1 (bind (skip_with G f (call_with G (run G f)) a la s1) (run G f false a la x)))).
          { intro s0. apply stepr_seq_bind; [apply IHs|apply (IH false a la x)]. }
          pose proof (step_repeat _ _ f _ Hg s1) as H2.
          destruct (repeat_loop f _ s1) as [s2|s2| |] eqn:E2; simpl in *; auto.
          -- eapply step_weaken; [| |eapply step_trans; eassumption]; [auto|].
             intros c Hc. bool_solve Hc.
          -- exfalso. eapply repeat_never_fails. exact E2.
        * left. auto.
    - destruct (skip_until_pos ss (pos s) (rest s)) as [p r] eqn:E. simpl.
      destruct (rest s) as [|c t] eqn:Er; [|right; exists c, t; auto].
      left. split; [|reflexivity]. simpl in E. destruct (existsb _ ss) in E; inversion E; subst; simpl; symmetry; exact Er.
    - unfold do_push. pose proof (IH m a la x s) as H. destruct (run G f m a la x s); simpl in *; auto.
    - unfold restore_on_err. pose proof (IH m a la x (set_stk s (stack_snapshot (stk s)))) as H.
      destruct (run G f m a la x (set_stk s (stack_snapshot (stk s)))); simpl in *; auto.
  Qed.
End First.

(* ---------------------------------------------------------------- inversion of one interpreter step (every grammar) *)
Section Inv.
  Variable R : Type.
  Variable G : grammar R.
  Lemma run_ok_fuel : forall f m a la e (s s1 : st R), run G f m a la e s = Ok s1 -> exists f', f = S f'.
  Proof. intros [|f] m a la e s s1 H; [discriminate H|eauto]. Qed.
  Lemma seq_false_inv : forall f a la x y (s s1 : st R),
    run G (S f) false a la (Seq x y) s = Ok s1 ->
    exists sx sy, run G f false a la x s = Ok sx /\ skip_with G f (call_with G (run G f)) a la sx = Ok sy
                  /\ run G f false a la y sy = Ok s1.
  Proof.
    intros f a la x y s s1 H. rewrite run_S in H. cbv zeta in H.
    destruct (run G f false a la x s) as [sx|sx| |] eqn:E1; try discriminate H. cbn [bind] in H.
    destruct (skip_with G f (call_with G (run G f)) a la sx) as [sy|sy| |] eqn:E2; try discriminate H. cbn [bind] in H.
    destruct (run G f false a la y sy) as [s2|s2| |] eqn:E3; try discriminate H. cbn [sequence] in H.
    exists sx, sy. inversion H; subst s2. auto.
  Qed.
  Lemma choice_inv : forall f m a la x y (s s1 : st R),
    run G (S f) m a la (Choice x y) s = Ok s1 ->
    run G f m a la x s = Ok s1 \/ exists s', run G f m a la x s = Fail s' /\ run G f m a la y s' = Ok s1.
  Proof.
    intros f m a la x y s s1 H. rewrite run_S in H. cbv zeta in H.
    destruct (run G f m a la x s) as [sx|sx| |] eqn:E1; try discriminate H; [left; exact H|right; eauto].
  Qed.
  Lemma opt_inv : forall f m a la x (s s1 : st R),
    run G (S f) m a la (Opt x) s = Ok s1 -> run G f m a la x s = Ok s1 \/ run G f m a la x s = Fail s1.
  Proof.
    intros f m a la x s s1 H. rewrite run_S in H. cbv zeta in H.
    destruct (run G f m a la x s) as [sx|sx| |] eqn:E1; try discriminate H; cbn [optional] in H; inversion H; subst; auto.
  Qed.

  (* where skip_until stops *)
  Lemma skip_until_stops : forall ss t p,
    (snd (skip_until_pos ss p t) = EmptyString \/
     existsb (fun x => match drop_prefix x (snd (skip_until_pos ss p t)) with Some _ => true | None => false end) ss = true)
    /\ String.length (snd (skip_until_pos ss p t)) <= String.length t.
  Proof.
    intros ss. induction t as [|c t IH]; intro p; cbn [skip_until_pos].
    - destruct (existsb _ ss); simpl; auto.
    - destruct (existsb (fun x => match drop_prefix x (String c t) with Some _ => true | None => false end) ss) eqn:Ex.
      + cbn [snd]. split; [right; exact Ex|lia].
      + destruct (IH (p + 1)%N) as [H1 H2]. split; [exact H1|simpl; lia].
  Qed.

  (* the atomic body "//" ~ skip_until ss: where it ends, and that it consumed at least the two slashes *)
  Lemma comment_body_post : forall fu a la ss (s s1 : st R),
    run G fu true a la (Seq (Str "//") (SkipUntil ss)) s = Ok s1 ->
    (rest s1 = EmptyString \/
     existsb (fun x => match drop_prefix x (rest s1) with Some _ => true | None => false end) ss = true)
    /\ String.length (rest s1) + 2 <= String.length (rest s).
  Proof.
    intros fu a la ss s s1 H.
    destruct fu as [|[|fu]]; [discriminate H|discriminate H|].
    rewrite run_S in H. cbv zeta in H. rewrite run_S in H. cbv zeta in H.
    unfold match_string in H. destruct (drop_prefix "//" (rest s)) as [t|] eqn:Ed; [|discriminate H].
    cbn [bind] in H. rewrite run_S in H. cbv zeta in H. cbn [set_pos pos rest] in H.
    pose proof (skip_until_stops ss t (pos s + slen "//")%N) as [H1 H2].
    destruct (skip_until_pos ss (pos s + slen "//") t) as [p r]. cbn [snd] in H1, H2.
    cbn [sequence] in H. inversion H; subst s1. cbn [rest set_pos].
    split; [exact H1|]. apply drop_prefix_sdrop in Ed. destruct Ed as [L Et].
    apply (f_equal String.length) in Et. rewrite sdrop_length in Et by assumption. simpl in Et, L. lia.
  Qed.
End Inv.

(* ================================================================== gen/Grammar.v *)
Require Import Blots.Formatter Blots.gen.Grammar Blots.PegToItems Blots.PegComments Blots.proofs.PegQuiet
               Blots.proofs.PegShape.
Local Open Scope list_scope.

Definition bFst (r : grule) (c : ascii) : bool :=
  match r with
  | PG_WHITESPACE => Ascii.eqb " " c || Ascii.eqb "009" c
  | PG_plain_newline => Ascii.eqb "013" c || Ascii.eqb "010" c
  | PG_comment | PG_eol_comment | PG_inline_comment => Ascii.eqb "/" c
  | _ => true
  end.
Definition bNul (r : grule) : bool :=
  match r with
  | PG_WHITESPACE | PG_plain_newline | PG_comment | PG_eol_comment | PG_inline_comment => false
  | _ => true
  end.
Lemma bFst_sound : forall r c,
  first grule blots_grammar bFst bNul (rd_body (g_def blots_grammar r)) c = true -> bFst r c = true.
Proof.
  intros r c. destruct r; try (intros _; reflexivity);
    cbn; rewrite ?orb_false_r, ?andb_false_r, ?orb_false_r; intro H; exact H.
Qed.
Lemma bNul_sound : forall r, nullable grule bNul (rd_body (g_def blots_grammar r)) = true -> bNul r = true.
Proof. intros r. destruct r; try (intros _; reflexivity); vm_compute; intro H; exact H. Qed.
Definition blots_run_first := run_first grule blots_grammar bFst bNul bFst_sound bNul_sound.

(* the input is at its end or at a line break *)
Definition stops (r : string) : Prop :=
  match r with EmptyString => True | String c _ => c = "013"%char \/ c = "010"%char end.
Definition blank_or_slash (c : ascii) : bool := Ascii.eqb " " c || Ascii.eqb "009" c || Ascii.eqb "/" c.

Lemma step_stays : forall N (F : ascii -> bool) (s s' : st grule),
  stops (rest s) -> (forall c, F c = true -> blank_or_slash c = true) -> step grule N F s s' -> rest s' = rest s.
Proof.
  intros N F s s' Hs HF [[E _]|(c & r & E & Hc)]; [exact E|exfalso].
  rewrite E in Hs. simpl in Hs. apply HF in Hc. destruct Hs as [->| ->]; vm_compute in Hc; discriminate Hc.
Qed.

Lemma comment_call_post : forall f m a la (s s1 : st grule),
  run blots_grammar f m a la (Ident PG_comment) s = Ok s1 ->
  stops (rest s1) /\ String.length (rest s1) + 2 <= String.length (rest s).
Proof.
  intros f m a la s s1 H. destruct f as [|f]; [discriminate H|]. rewrite run_S in H. cbv zeta in H.
  unfold call_with in H. cbn [blots_grammar g_def grule_def rd_mod rd_trivia rd_body orb andb negb] in H.
  assert (Hconv : forall r : string,
            (r = EmptyString \/
             existsb (fun x => match drop_prefix x r with Some _ => true | None => false end)
                     [String "013" (String "010" EmptyString); String "010" EmptyString] = true) -> stops r).
  { intros [|c t] Hr; [exact I|]. simpl. destruct Hr as [Hr|Hr]; [discriminate Hr|].
    cbn [existsb drop_prefix] in Hr.
    destruct (Ascii.eqb "013" c) eqn:E1; [left; symmetry; apply Ascii.eqb_eq; exact E1|].
    destruct (Ascii.eqb "010" c) eqn:E2; [right; symmetry; apply Ascii.eqb_eq; exact E2|]. discriminate Hr. }
  unfold rule_wrap in H. destruct (emits a la).
  - destruct (run blots_grammar f true Atomic la _ (set_out s [])) as [s2|s2| |] eqn:E; try discriminate H.
    inversion H; subst s1. cbn [rest set_out]. apply comment_body_post in E. cbn [rest set_out] in E.
    destruct E as [E1 E2]. split; [apply Hconv; exact E1|exact E2].
  - apply comment_body_post in H. destruct H as [E1 E2]. split; [apply Hconv; exact E1|exact E2].
Qed.

Lemma wsf_blank : forall c, wsf grule blots_grammar bFst c = true -> blank_or_slash c = true.
Proof.
  intros c H. unfold wsf in H. cbn [blots_grammar g_ws g_comment ws_rule comment_rule bFst] in H.
  unfold blank_or_slash. rewrite orb_false_r in H. rewrite H. reflexivity.
Qed.

(* `WHITESPACE* ~ comment` cannot succeed at the end of the input or at a line break *)
Lemma second_comment_impossible : forall f a la (s s1 : st grule),
  stops (rest s) ->
  run blots_grammar f false a la (Seq (Rep (Ident PG_WHITESPACE)) (Ident PG_comment)) s = Ok s1 -> False.
Proof.
  intros f a la s s1 Hs H. destruct (run_ok_fuel _ _ _ _ _ _ _ _ _ H) as [f' ->].
  apply seq_false_inv in H. destruct H as (s2 & s3 & H2 & H3 & H4).
  assert (E2 : rest s2 = rest s).
  { pose proof (blots_run_first f' false a la (Rep (Ident PG_WHITESPACE)) s) as P. rewrite H2 in P.
    refine (step_stays _ _ _ _ Hs _ P). intros c Hc. cbn [first] in Hc.
    unfold blank_or_slash. apply orb_prop in Hc as [Hc|Hc].
    - cbn [bFst] in Hc. rewrite Hc. reflexivity.
    - apply wsf_blank in Hc. exact Hc. }
  assert (E3 : rest s3 = rest s2).
  { pose proof (step_skip grule blots_grammar bFst bNul bFst_sound bNul_sound f' _ (blots_run_first f') a la s2) as P.
    rewrite H3 in P. refine (step_stays _ _ _ _ _ wsf_blank P). rewrite E2. exact Hs. }
  pose proof (blots_run_first f' false a la (Ident PG_comment) s3) as P. rewrite H4 in P.
  destruct P as [[_ En]|(c & r & E & Hc)]; [discriminate En|].
  rewrite E3, E2 in E. rewrite E in Hs. simpl in Hs. cbn [first bFst] in Hc.
  destruct Hs as [->| ->]; vm_compute in Hc; discriminate Hc.
Qed.

Lemma app_nil_inv_tail : forall (A : Type) (n l : list A), n ++ l = l -> n = [].
Proof. intros A n l H. apply (app_inv_tail l n []). exact H. Qed.

(* do_statement = (expression | comment) ~ (WHITESPACE* ~ comment)? : after a leading `comment` there is no second pair *)
Lemma do_statement_kids : forall f a (s s1 : st grule), a <> Atomic -> out s = [] ->
  run blots_grammar f false a false (rd_body (grule_def PG_do_statement)) s = Ok s1 ->
  In (map trule (rev (out s1))) [[PG_expression]; [PG_expression; PG_comment]; [PG_comment]].
Proof.
  intros f a s s1 Ha Ho H. cbn [grule_def rd_body] in H.
  destruct (run_ok_fuel _ _ _ _ _ _ _ _ _ H) as [f1 ->].
  apply seq_false_inv in H. destruct H as (sx & sy & HX & HS & HY).
  (* the pairs each part appends *)
  pose proof (blots_run_tops f1 false a (Choice (RestoreOnErr (Ident PG_expression)) (Ident PG_comment)) Ha s) as TX. rewrite HX in TX. destruct TX as (nx & Ox & Tx).
  assert (Ex : In (map (troot grule) (rev nx)) [[PG_expression]; [PG_comment]]).
  { refine (tops_enum grule blots_grammar in_newline_quiet blots_Senum _ _ _ Tx _). vm_compute. reflexivity. }
  pose proof (quiet_skip grule blots_grammar in_newline_quiet BQ_silent BQ_closed BQ_ws BQ_comment f1 (run blots_grammar f1)
                (run_quiet grule blots_grammar in_newline_quiet BQ_silent BQ_closed BQ_ws BQ_comment f1) a false sx) as Qs.
  rewrite HS in Qs. simpl in Qs.
  pose proof (blots_run_tops f1 false a (Opt (Seq (Rep (Ident PG_WHITESPACE)) (Ident PG_comment))) Ha sy) as TY. rewrite HY in TY. destruct TY as (ny & Oy & Ty).
  assert (Ey : In (map (troot grule) (rev ny)) [[]; [PG_comment]]).
  { refine (tops_enum grule blots_grammar in_newline_quiet blots_Senum _ _ _ Ty _). vm_compute. reflexivity. }
  assert (Eall : map trule (rev (out s1)) = map (troot grule) (rev nx) ++ map (troot grule) (rev ny)).
  { rewrite Oy, Qs, Ox, Ho, app_nil_r, rev_app_distr, map_app. reflexivity. }
  rewrite Eall.
  destruct Ex as [Ex|[Ex|[]]]; destruct Ey as [Ey|[Ey|[]]]; rewrite <- Ex, <- Ey; cbn [app In]; auto.
  (* [comment] then [comment]: impossible *)
  exfalso.
  destruct (run_ok_fuel _ _ _ _ _ _ _ _ _ HX) as [f2 ->].
  apply choice_inv in HX. destruct HX as [HA|(s' & HA & HB)].
  - pose proof (blots_run_tops f2 false a (RestoreOnErr (Ident PG_expression)) Ha s) as TA. rewrite HA in TA. destruct TA as (nA & OA & TA).
    assert (EA : In (map (troot grule) (rev nA)) [[PG_expression]]).
    { refine (tops_enum grule blots_grammar in_newline_quiet blots_Senum _ _ _ TA _). vm_compute. reflexivity. }
    rewrite OA in Ox. apply app_inv_tail in Ox. subst nA. rewrite <- Ex in EA. destruct EA as [EA|[]]. discriminate EA.
  - apply comment_call_post in HB. destruct HB as [Hst _].
    assert (Esy : rest sy = rest sx).
    { pose proof (step_skip grule blots_grammar bFst bNul bFst_sound bNul_sound (S f2) _ (blots_run_first (S f2)) a false sx) as P.
      rewrite HS in P. exact (step_stays _ _ _ _ Hst wsf_blank P). }
    apply opt_inv in HY. destruct HY as [HY|HY].
    + refine (second_comment_impossible f2 a false sy s1 _ HY). rewrite Esy. exact Hst.
    + apply (run_fail_unchanged grule blots_grammar) in HY. destruct HY as (_ & _ & HO).
      rewrite HO in Oy. symmetry in Oy. apply app_nil_inv_tail in Oy. subst ny. discriminate Ey.
Qed.

Definition C_do_statement (r : grule) (txt : string) (kids : list (tree grule)) : Prop :=
  match r with
  | PG_do_statement => In (map trule kids) [[PG_expression]; [PG_expression; PG_comment]; [PG_comment]]
  | _ => True
  end.

Lemma blots_do_statement_body_gives : forall text f,
  body_gives grule blots_grammar text C_do_statement (run blots_grammar f).
Proof.
  intros text f r a s s1 Hns Hem Ht Ho H Hf. destruct r; try exact I. unfold C_do_statement.
  apply (do_statement_kids f a s s1); [apply emits_not_atomic; exact Hem|exact Ho|exact H].
Qed.

(* SHAPE: for EVERY accepted text, a do_statement pair that starts with a comment has no second inner pair
   (third conjunct of PegComments.do_shape, at tree level) *)
Theorem shape_do_statement : forall fuel text s',
  Peg.parse blots_grammar fuel PG_input text = Peg.Ok s' ->
  forest_all grule text C_do_statement (rev (out s')).
Proof.
  intros fuel text s' H. unfold forest_all. apply Forall_rev.
  exact (parse_nodes grule blots_grammar text C_do_statement (blots_do_statement_body_gives text) fuel PG_input s' H).
Qed.
