(* FmtToksCall.v — the call family at the VIEW level (property C07, extension TOK).

   format_call_multiline prints `,` after EVERY argument (the grammar admits the last one only
   because a line break follows), expr_to_source between arguments: with chunk-equal callee and
   arguments the two chunk lists differ exactly by one `,` before the final `)`, which `canon`
   drops (canon_trailing).  The formatter asks needs_parens_in_postfix for the callee, Printer.v's
   policy has the separate field pC: hypothesis pC = pP (true of the repaired policy). *)
From Coq Require Import String Ascii List Bool Arith Lia.
Require Import Blots.Num Blots.Ast Blots.PrattRender Blots.Printer Blots.Formatter Blots.FmtTokens
               Blots.proofs.FmtToks Blots.proofs.FmtToksDoc Blots.proofs.FmtToksAll Blots.proofs.FmtToksBin
               Blots.proofs.FmtToksCanon Blots.proofs.FmtToksList.
Import ListNotations.
Local Open Scope list_scope.

Section CallFam.
  Variable fx : fixes.
  Variable pol : policy.
  Variable numtxt : num -> string.
  Variable keepc : bool.
  Variable w : nat.
  Hypothesis HC : forall c, pC pol c = pP pol c.
  Notation O := (printer_oracles fx pol numtxt keepc).
  Notation pt := (print_text fx pol numtxt).
  Notation fd := (fmtd O w).
  Notation ok := (lchild_ok fx pol numtxt keepc w).

  Definition Te (x : expr) : list string := toks (pt x).
  Definition go_args (args : list expr) : list string :=
    (fix go (l : list expr) : list string :=
       match l with [] => [] | a :: l' => pt a :: go l' end) args.

  Ltac norm := repeat (progress (repeat rewrite <- app_assoc; cbn [app])).

  Lemma L_args : forall args inner tail, Forall ok args ->
    flat_map piece_toks (flat_map (fun a => [Nl; ind inner] ++ fd a inner ++ [Code ","]) args ++ tail) =
    flat_map (fun a => Te a ++ [","%string]) args ++ flat_map piece_toks tail.
  Proof.
    induction args as [|x args IH]; intros inner tail HF; [reflexivity|].
    inversion HF as [|? ? Hx HF']; subst. destruct Hx as [Hk [_ HS]].
    cbn [flat_map]. rewrite <- app_assoc, flat_map_app, (IH inner tail HF').
    cbn [app]. rewrite fm_nl, fm_ind, flat_map_app, (pieces_toks fx pol numtxt keepc w x inner Hk), HS.
    unfold Te at 1. cbn [flat_map]. rewrite <- !app_assoc. reflexivity.
  Qed.

  Lemma trailing_join_e : forall r x,
    flat_map (fun a => Te a ++ [","%string]) (x :: r) = joinc (map Te (x :: r)) ++ [","%string].
  Proof.
    induction r as [|y r IH]; intro x.
    - cbn [flat_map map joinc]. now rewrite app_nil_r.
    - change (flat_map (fun a => Te a ++ [","%string]) (x :: y :: r))
        with ((Te x ++ [","%string]) ++ flat_map (fun a => Te a ++ [","%string]) (y :: r)).
      rewrite (IH y). change (joinc (map Te (x :: y :: r))) with (Te x ++ [","%string] ++ joinc (map Te (y :: r))).
      now rewrite <- !app_assoc.
  Qed.

  Local Open Scope string_scope.
  Lemma T_join_e : forall r x A, ends_closed A = true -> Forall ok (x :: r) ->
    toks (A ++ PrattRender.sjoin ", " (go_args (x :: r)) ++ ")") =
    (toks A ++ joinc (map Te (x :: r)) ++ [")"])%list.
  Proof.
    induction r as [|y r IH]; intros x A HA HF; inversion HF as [|? ? Hx HF']; subst;
      destruct Hx as [Hk _]; destruct (node_of fx pol numtxt keepc x Hk) as [_ [Ex _]].
    - cbn [go_args PrattRender.sjoin map joinc]. unfold Te.
      rewrite (toks_app_closed A _ HA), (toks_app_break (pt x) ")" Ex eq_refl). reflexivity.
    - change (PrattRender.sjoin ", " (go_args (x :: y :: r)))
        with (pt x ++ ", " ++ PrattRender.sjoin ", " (go_args (y :: r))).
      change (joinc (map Te (x :: y :: r))) with (toks (pt x) ++ [","] ++ joinc (map Te (y :: r)))%list.
      set (S' := PrattRender.sjoin ", " (go_args (y :: r))).
      set (A' := A ++ pt x ++ ", ").
      assert (EQ : A ++ (pt x ++ ", " ++ S') ++ ")" = A' ++ S' ++ ")")
        by (unfold A'; rewrite !sapp_assoc; reflexivity).
      destruct (kw_suffix (pt x) ", " Ex eq_refl eq_refl) as [K1 [K2 K3]].
      assert (Bd : boundary A (pt x ++ ", ") = true).
      { unfold boundary. unfold ends_closed in HA. apply andb_prop in HA. destruct HA as [H1 H2].
        rewrite H1. unfold ends_closed. rewrite H1, H2. reflexivity. }
      assert (TA : toks A' = (toks A ++ toks (pt x) ++ [","])%list).
      { unfold A'. rewrite (toks_app_boundary _ _ Bd).
        rewrite (toks_app_break (pt x) ", " Ex eq_refl). reflexivity. }
      assert (CA : ends_closed A' = true).
      { unfold A'. rewrite (ends_closed_tst _ (pt x ++ ", ")); [rewrite K2; reflexivity|].
        apply tst_boundary; [exact Bd|]. destruct (pt x); discriminate. }
      rewrite EQ. unfold S'. rewrite (IH y A' CA HF'), TA. now rewrite <- !app_assoc.
  Qed.
  Local Close Scope string_scope.

  Lemma fm_wrap : forall b d, flat_map piece_toks (wrap_parens b d) = wrapT b (flat_map piece_toks d).
  Proof.
    intros [|] d; unfold wrap_parens, wrapT; [|reflexivity].
    cbn [app]. rewrite fm_code, flat_map_app. reflexivity.
  Qed.

  Lemma fsl_call : forall f args, ok f -> Forall ok args -> fsl O (ECall f args) = pt (ECall f args).
  Proof.
    intros f args [_ [Ef _]] HF. cbn [fsl print_text].
    change (o_postfix_parens O f) with (pP pol f). rewrite HC, Ef, sjoin_same.
    assert (EL : map (fsl O) args = go_args args).
    { induction args as [|a args IH]; [reflexivity|].
      inversion HF as [|? ? Hx HF']; subst. destruct Hx as [_ [E _]].
      change (go_args (a :: args)) with (pt a :: go_args args).
      cbn [map]. rewrite E, (IH HF'). reflexivity. }
    rewrite EL. unfold paren_s. destruct (pP pol f); reflexivity.
  Qed.

  Theorem call_family : forall f args i,
    tok_ok O (ECall f args) = true -> ok f -> Forall ok args ->
    last (wrapT (pP pol f) (Te f) ++ "("%string :: joinc (map Te args)) ""%string <> ","%string ->
    lview (render (fd (ECall f args) i)) = lview (pt (ECall f args)).
  Proof.
    intros f args i Hk Hf HF Hlast.
    rewrite fmtd_unfold. unfold impl_doc.
    match goal with |- context [if ?b then _ else _] => destruct b end.
    { rewrite opaque_toks, (fsl_call f args Hf HF). reflexivity. }
    unfold multiline_doc, lview.
    destruct Hf as [Kf [_ Sf]]. destruct (node_of fx pol numtxt keepc f Kf) as [_ [Ef _]].
    assert (Hd : dok true (call_doc O fd f args i) = true).
    { apply dok_call_doc with (G := Gd O w); [exact (Hrec_fd O w)|exact (proj1 (dok_fmtd_all O w f Kf))|].
      clear - HF. induction HF as [|a l [Hk' _] _ IH]; constructor; [|exact IH].
      exact (proj1 (dok_fmtd_all O w a Hk')). }
    rewrite (proj1 (doc_toks _ Hd)).
    destruct (paren_facts (pP pol f) _ Ef) as [TP EP].
    change (pt (ECall f args))
      with (paren_s (pC pol f) (pt f) +++ "(" +++ PrattRender.sjoin ", " (go_args args) +++ ")").
    rewrite HC.
    unfold call_doc. change (o_postfix_parens O f) with (pP pol f).
    destruct args as [|a args].
    - rewrite flat_map_app, fm_wrap, (pieces_toks fx pol numtxt keepc w f i Kf), Sf.
      rewrite (toks_app_break _ ("(" +++ PrattRender.sjoin ", " (go_args []) +++ ")") EP eq_refl), TP. reflexivity.
    - cbv zeta. rewrite flat_map_app, fm_wrap, (pieces_toks fx pol numtxt keepc w f i Kf), Sf.
      rewrite (flat_map_app piece_toks [Code "("]).
      change (flat_map piece_toks [Code "("]) with ["("%string].
      rewrite (L_args (a :: args) _ _ HF), trailing_join_e.
      rewrite fm_nl, fm_ind, fm_code. cbn [flat_map].
      rewrite (toks_app_break _ ("(" +++ PrattRender.sjoin ", " (go_args (a :: args)) +++ ")") EP eq_refl), TP.
      rewrite (T_join_e args a "(" eq_refl HF).
      change (toks "(") with ["("%string]. change (toks ")") with [")"%string].
      rewrite app_nil_r. cbn [app].
      rewrite <- (app_assoc (joinc (map Te (a :: args))) [","%string] [")"%string]).
      change ([","%string] ++ [")"%string]) with [","%string; ")"%string].
      change (canon (wrapT (pP pol f) (toks (pt f)) ++ ("("%string :: joinc (map Te (a :: args))) ++ [","%string; ")"%string])
              = canon (wrapT (pP pol f) (toks (pt f)) ++ ("("%string :: joinc (map Te (a :: args))) ++ [")"%string])).
      rewrite !app_assoc.
      exact (canon_trailing _ ")" eq_refl (or_intror Hlast)).
  Qed.
End CallFam.
