(* FmtToksAll.v — the knot: EVERY document format_expr_impl builds (Formatter.v fmtd, any oracle
   record, any width and indentation) passes the seam check `dok` of FmtToksDoc.v, hence
       toks (render (fmtd O w e i)) = flat_map piece_toks (fmtd O w e i)       (layout_toks)
   for every tree with `tok_ok O e`: a decidable predicate saying that
     - no node carries a comment (true of every `wf` tree of PrattRT.v: plain_cm) — so the five
       comment-keeping arms of format_multiline (`-x`, `x!`, `a[i]`, `a.f`, `...x`, whose
       operator is glued to the operand's chunk) are not taken;
     - the texts the layouts take from elsewhere stop in code state (`ends_code`: every string
       literal closed, not inside a comment): expr_to_source's and format_single_line's text of
       every sub-expression, assigned names, lambda parameter lists, record keys. *)
From Coq Require Import String Ascii List Bool Arith Lia.
Require Import Blots.Num Blots.Ast Blots.Formatter Blots.FmtTokens Blots.proofs.PrattRT
               Blots.proofs.FmtToks Blots.proofs.FmtToksDoc.
Import ListNotations.
Local Open Scope list_scope.

Section Knot.
  Variable O : oracles.
  Variable w : nat.
  Notation fd := (fmtd O w).

  Definition node_ok (e : expr) : bool :=
    ends_code (fsl O e) && ends_code (o_e2s O e) && negb (contains_comments e).

  Fixpoint tok_ok (e : expr) : bool :=
    node_ok e &&
    match e with
    | EList items =>
        (fix go (l : list (commented expr)) : bool :=
           match l with [] => true | Cm [] x None :: l' => tok_ok x && go l' | _ => false end) items
    | ERec entries =>
        (fix go (l : list (commented rentry)) : bool :=
           match l with
           | [] => true
           | Cm [] (REntry k v) None :: l' =>
               match k with
               | KStatic s => ends_code (o_record_key O s)
               | KDyn d => tok_ok d
               | KShort n => ends_code n && nonempty n
               | KSpread x => tok_ok x
               end && tok_ok v && go l'
           | _ => false
           end) entries
    | ELam args body => ends_code (lambda_args_part args) && tok_ok body
    | ECond c t f => tok_ok c && tok_ok t && tok_ok f
    | EDo stmts (Cm rl ret rt) =>
        (fix go (l : list (commented expr)) : bool :=
           match l with [] => true | Cm [] x None :: l' => tok_ok x && go l' | _ => false end) stmts
        && match rl, rt with [], None => true | _, _ => false end && tok_ok ret
    | EAssign x v => ends_code x && tok_ok v
    | EOutput x => tok_ok x
    | ECall f args =>
        tok_ok f && (fix go (l : list expr) : bool :=
                       match l with [] => true | a :: l' => tok_ok a && go l' end) args
    | EAccess x i => tok_ok x && tok_ok i
    | EDot x _ => tok_ok x
    | EBin _ l r => tok_ok l && tok_ok r
    | EUn _ x => tok_ok x
    | EFact x => tok_ok x
    | ESpread x => tok_ok x
    | _ => true
    end.

  Definition Gd (e : expr) : Prop := forall j, dok true (fd e j) = true.
  Lemma Hrec_fd : forall x j, Gd x -> dok true (fd x j) = true.
  Proof. intros x j H. exact (H j). Qed.

  Lemma fmtd_unfold : forall e i, fd e i = impl_doc O w fd e i.
  Proof. intros e i. destruct e; reflexivity. Qed.

  Lemma dok_opaque : forall e s, ends_code s = true -> dok true [Opaque e s] = true.
  Proof. intros e s H. cbn [dok render_piece]. rewrite H. reflexivity. Qed.

  Definition Pdok (e : expr) : Prop := tok_ok e = true -> Gd e /\ gchain Gd e.

  Ltac split_ok Hok Hf He Hcc :=
    cbn [tok_ok] in Hok; apply andb_prop in Hok; let Hn := fresh "Hn" in destruct Hok as [Hn Hok];
    unfold node_ok in Hn; apply andb_prop in Hn; destruct Hn as [Hn Hcc];
    apply andb_prop in Hn; destruct Hn as [Hf He]; apply negb_true_iff in Hcc.

  (* the single-line test, then format_multiline: the goal left is the layout function *)
  Ltac enter Hf :=
    intro j; rewrite fmtd_unfold; unfold impl_doc;
    match goal with |- context [if ?b then _ else _] => destruct b end;
    [apply dok_opaque; exact Hf|].

  Ltac leaf :=
    let Hok := fresh "Hok" in let Hf := fresh "Hf" in let He := fresh "He" in let Hcc := fresh "Hcc" in
    intro Hok; split_ok Hok Hf He Hcc;
    let HG := fresh "HG" in
    match goal with |- Gd ?e /\ _ => assert (HG : Gd e) end;
    [ enter Hf; unfold multiline_doc; rewrite ?Hcc, ?andb_false_r; apply dok_opaque; exact He
    | split; [exact HG|cbn [gchain]; exact HG] ].

  Theorem dok_fmtd_all : forall e, Pdok e.
  Proof.
    induction e using expr_ind'; unfold Pdok.
    - leaf. - leaf. - leaf. - leaf. - leaf. - leaf. - leaf.
    - (* EList *)
      intro Hok. split_ok Hok Hf He Hcc.
      assert (HL : plain_items items = true /\ Forall (Gcm Gd) items).
      { clear Hf He Hcc. revert H Hok. induction items as [|[lead x tr] items IHl]; intros IH Hok;
          [split; [reflexivity|constructor]|].
        inversion IH as [|? ? Px IH']; subst. cbn [Pcm] in Px.
        destruct lead; [|discriminate]. destruct tr; [discriminate|].
        apply andb_prop in Hok. destruct Hok as [Hx Hr].
        destruct (IHl IH' Hr) as [A B]. split; [exact A|].
        constructor; [exact (proj1 (Px Hx))|exact B]. }
      destruct HL as [HP HF].
      assert (HG : Gd (EList items)).
      { enter Hf. unfold multiline_doc. apply dok_list_doc with (G := Gd); [exact Hrec_fd|exact HP|exact HF]. }
      split; [exact HG|exact HG].
    - (* ERec *)
      intro Hok. split_ok Hok Hf He Hcc.
      assert (HL : entries_ok O entries = true /\ Forall (fun c => Gentry Gd (cnode c)) entries).
      { clear Hf He Hcc. revert H Hok. induction entries as [|[lead [k v] tr] entries IHl]; intros IH Hok;
          [split; [reflexivity|constructor]|].
        inversion IH as [|? ? Px IH']; subst. cbn [Pentry] in Px. destruct Px as [Pk Pv].
        destruct lead; [|discriminate]. destruct tr; [discriminate|].
        apply andb_prop in Hok. destruct Hok as [Hx Hr]. apply andb_prop in Hx. destruct Hx as [Hk Hv].
        destruct (IHl IH' Hr) as [A B]. cbn [entries_ok]. rewrite A, andb_true_r.
        destruct k as [s|d|n|x]; cbn [entry_ok Pkey] in *.
        - split; [exact Hk|]. constructor; [exact (proj1 (Pv Hv))|exact B].
        - split; [reflexivity|]. constructor; [split; [exact (proj1 (Pk Hk))|exact (proj1 (Pv Hv))]|exact B].
        - split; [exact Hk|]. constructor; [exact I|exact B].
        - split; [reflexivity|]. constructor; [exact (proj1 (Pk Hk))|exact B]. }
      destruct HL as [HP HF].
      assert (HG : Gd (ERec entries)).
      { enter Hf. unfold multiline_doc. apply dok_record_doc with (G := Gd); [exact Hrec_fd|exact HP|exact HF]. }
      split; [exact HG|exact HG].
    - (* ELam *)
      intro Hok. split_ok Hok Hf He Hcc. apply andb_prop in Hok. destruct Hok as [Ha Hb].
      assert (HG : Gd (ELam args e)).
      { intro j. rewrite fmtd_unfold. unfold impl_doc.
        apply dok_lambda_doc with (G := Gd); [exact Hrec_fd|exact Ha|exact (proj1 (IHe Hb))]. }
      split; [exact HG|exact HG].
    - (* ECond *)
      intro Hok. split_ok Hok Hf He Hcc. apply andb_prop in Hok. destruct Hok as [Hok H3].
      apply andb_prop in Hok. destruct Hok as [H1 H2].
      destruct (IHe1 H1) as [G1 _]. destruct (IHe2 H2) as [G2 _]. destruct (IHe3 H3) as [_ C3].
      assert (HG : Gd (ECond e1 e2 e3)).
      { enter Hf. unfold multiline_doc.
        apply dok_cond_doc with (G := Gd); [exact Hrec_fd|exact G1|exact G2|exact C3]. }
      split; [exact HG|]. cbn [gchain]. auto.
    - (* EDo *)
      intro Hok. destruct ret as [rl ret rt]. split_ok Hok Hf He Hcc.
      apply andb_prop in Hok. destruct Hok as [Hok Hret]. apply andb_prop in Hok. destruct Hok as [Hst Hpl].
      destruct rl; [|discriminate]. destruct rt; [discriminate|]. cbn [Pcm] in H0.
      assert (HL : plain_items stmts = true /\ Forall (Gcm Gd) stmts).
      { clear Hf He Hcc. revert H Hst. induction stmts as [|[lead x tr] stmts IHl]; intros IH Hok;
          [split; [reflexivity|constructor]|].
        inversion IH as [|? ? Px IH']; subst. cbn [Pcm] in Px.
        destruct lead; [|discriminate]. destruct tr; [discriminate|].
        apply andb_prop in Hok. destruct Hok as [Hx Hr].
        destruct (IHl IH' Hr) as [A B]. split; [exact A|].
        constructor; [exact (proj1 (Px Hx))|exact B]. }
      destruct HL as [HP HF].
      assert (HG : Gd (EDo stmts (Cm [] ret None))).
      { intro j. rewrite fmtd_unfold. unfold impl_doc, multiline_doc.
        apply dok_do_doc with (G := Gd); [exact Hrec_fd|exact HP|reflexivity|exact HF|exact (proj1 (H0 Hret))]. }
      split; [exact HG|exact HG].
    - (* EAssign *)
      intro Hok. split_ok Hok Hf He Hcc. apply andb_prop in Hok. destruct Hok as [Hx Hv].
      assert (HG : Gd (EAssign x e)).
      { enter Hf. unfold multiline_doc.
        apply dok_assign with (G := Gd); [exact Hrec_fd|exact Hx|exact (proj1 (IHe Hv))]. }
      split; [exact HG|exact HG].
    - (* EOutput *)
      intro Hok. split_ok Hok Hf He Hcc.
      assert (HG : Gd (EOutput e)).
      { enter Hf. unfold multiline_doc.
        apply dok_output with (G := Gd); [exact Hrec_fd|exact (proj1 (IHe Hok))]. }
      split; [exact HG|exact HG].
    - (* ECall *)
      intro Hok. split_ok Hok Hf He Hcc. apply andb_prop in Hok. destruct Hok as [Hfn Hargs].
      assert (HF : Forall Gd args).
      { clear Hf He Hcc. revert H Hargs. induction args as [|a args IHl]; intros IH Hok; [constructor|].
        inversion IH as [|? ? Px IH']; subst.
        apply andb_prop in Hok. destruct Hok as [Hx Hr].
        constructor; [exact (proj1 (Px Hx))|exact (IHl IH' Hr)]. }
      assert (HG : Gd (ECall e args)).
      { enter Hf. unfold multiline_doc.
        apply dok_call_doc with (G := Gd); [exact Hrec_fd|exact (proj1 (IHe Hfn))|exact HF]. }
      split; [exact HG|exact HG].
    - leaf. - leaf.
    - (* EBin *)
      intro Hok. split_ok Hok Hf He Hcc. apply andb_prop in Hok. destruct Hok as [H1 H2].
      assert (HG : Gd (EBin o e1 e2)).
      { enter Hf. unfold multiline_doc.
        apply dok_binop_doc with (G := Gd); [exact Hrec_fd|exact (proj1 (IHe1 H1))|exact (proj1 (IHe2 H2))]. }
      split; [exact HG|exact HG].
    - leaf. - leaf. - leaf.
  Qed.

  Theorem layout_toks : forall e i, tok_ok e = true ->
    toks (render (fd e i)) = flat_map piece_toks (fd e i) /\ ends_code (render (fd e i)) = true.
  Proof. intros e i H. apply doc_toks. exact (proj1 (dok_fmtd_all e H) i). Qed.
End Knot.
