(* JsonEcho.v — property C06, the input direction and the CLI wrappers:
   input_echo (a supplied document is reproduced up to JSON value equality), cli_out_in,
   cli_echo, the relational reading of JSON value equality, and the refutation witnesses. *)
From Coq Require Import String Ascii List ZArith Bool Lia Sorted Permutation.
Require Import Blots.Num Blots.gen.Builtins Blots.Ast Blots.Value Blots.Outcome Blots.Json.
Require Import Blots.proofs.ValueInd Blots.proofs.Order Blots.proofs.JsonMaps Blots.proofs.JsonRT.
Import ListNotations.
Open Scope list_scope.

Lemma sj_build_obj m : sj_build (JObj m) = JObj (bmap_collect (mapv sj_build m)).
Proof. reflexivity. Qed.
Lemma jcanon_obj m : jcanon (JObj m) = JObj (bmap_collect (mapv jcanon m)).
Proof. reflexivity. Qed.
Lemma json_nums_ok_obj m : json_nums_ok (JObj m) = forallb (fun kv => json_nums_ok (snd kv)) m.
Proof. reflexivity. Qed.

(* canonical form does not see the deserialiser's map building *)
Lemma jcanon_sj_build d : jcanon (sj_build d) = jcanon d.
Proof.
  induction d as [| | | |l IH|m IH] using json_ind'; try reflexivity.
  - cbn. f_equal. rewrite map_map. apply map_ext_in. intros x Hx. rewrite Forall_forall in IH. auto.
  - rewrite sj_build_obj, !jcanon_obj. f_equal.
    rewrite <- (bmap_collect_mapv jcanon (mapv sj_build m)), bmap_collect_idem, mapv_mapv. f_equal.
    apply mapv_ext_in. intros k x Hx. rewrite Forall_forall in IH. apply (IH (k, x) Hx).
Qed.
Lemma jcanon_idem d : jcanon (jcanon d) = jcanon d.
Proof.
  induction d as [| | | |l IH|m IH] using json_ind'; try reflexivity.
  - cbn. f_equal. rewrite map_map. apply map_ext_in. intros x Hx. rewrite Forall_forall in IH. auto.
  - rewrite !jcanon_obj. f_equal.
    rewrite <- (bmap_collect_mapv jcanon (mapv jcanon m)), bmap_collect_idem, mapv_mapv. f_equal.
    apply mapv_ext_in. intros k x Hx. rewrite Forall_forall in IH. apply (IH (k, x) Hx).
Qed.

Lemma json_nums_ok_sj_build d : json_nums_ok d = true -> json_nums_ok (sj_build d) = true.
Proof.
  induction d as [| | | |l IH|m IH] using json_ind'; try (cbn; congruence).
  - cbn. rewrite !forallb_forall. intros H y Hy. apply in_map_iff in Hy as (x & <- & Hx).
    rewrite Forall_forall in IH. auto.
  - rewrite sj_build_obj, !json_nums_ok_obj, !forallb_forall. intros H [k y] Hy.
    apply bmap_collect_in in Hy. apply in_mapv in Hy as (x & Hx & ->). cbn.
    rewrite Forall_forall in IH. apply (IH (k, x) Hx). apply (H (k, x) Hx).
Qed.

(* what to_json writes is already a serde_json::Value: reading the printed document back
   builds the same tree *)
Lemma sj_build_to_json s : sj_build (to_json s) = to_json s.
Proof.
  induction s as [x|x| |s|l IH|r IH|n a b sc _|n] using svalue_ind'; try reflexivity.
  - rewrite to_json_list. cbn. f_equal. rewrite map_map. apply map_ext_in. intros x Hx.
    rewrite Forall_forall in IH. auto.
  - rewrite to_json_rec, sj_build_obj. f_equal.
    rewrite <- (bmap_collect_mapv sj_build (mapv to_json r)), bmap_collect_idem, mapv_mapv. f_equal.
    apply mapv_ext_in. intros k x Hx. rewrite Forall_forall in IH. apply (IH (k, x) Hx).
Qed.

Lemma jlookup_get_last m k : jlookup m k = get_last m k.
Proof. induction m as [|[k' v] m IH]; cbn; [reflexivity|]. now rewrite IH. Qed.

Section Echo.
  Variable pfs : string -> option (list lamarg * string).
  Variable pbody : string -> outcome expr.
  Variable emit : expr -> list (string * svalue) -> string.
  Variable nameof : lam_id -> option string.
  Notation from_json := (Json.from_json pfs).
  Notation from_value := (Json.from_value emit nameof).
  Notation to_value := (Json.to_value pbody).

  Lemma json_no_reserved_obj m :
    json_no_reserved pfs (JObj m) =
    negb (reserved_obj pfs jstr_of m) && forallb (fun kv => json_no_reserved pfs (snd kv)) m.
  Proof. reflexivity. Qed.

  (* the serialisable value read from a built document without reserved objects is plain data,
     and writing it gives the canonical form of the document *)
  Lemma from_json_build d :
    json_nums_ok d = true -> json_no_reserved pfs (sj_build d) = true ->
    splain (from_json (sj_build d)) = true /\ to_json (from_json (sj_build d)) = jcanon d.
  Proof.
    induction d as [| |n|s|l IH|m IH] using json_ind'; try (split; reflexivity).
    - cbn. intros H _. split; [reflexivity|]. unfold jnum_of_f64. unfold jnum_ok in H. now rewrite H.
    - cbn [json_nums_ok sj_build json_no_reserved]. intros Hn Hr. rewrite from_json_arr.
      rewrite Forall_forall in IH. rewrite forallb_forall in Hn, Hr. split.
      + cbn [splain]. apply forallb_forall. intros y Hy. rewrite map_map in Hy.
        apply in_map_iff in Hy as (x & <- & Hx). apply (IH x Hx (Hn x Hx)).
        apply Hr. now apply in_map.
      + rewrite to_json_list. cbn [jcanon]. f_equal. rewrite !map_map. apply map_ext_in.
        intros x Hx. apply (IH x Hx (Hn x Hx)). apply Hr. now apply in_map.
    - rewrite json_nums_ok_obj, sj_build_obj, json_no_reserved_obj. intros Hn Hr.
      apply andb_prop in Hr as [Hr0 Hr]. apply negb_true_iff in Hr0.
      rewrite from_json_obj_regular by exact Hr0. unfold regular.
      rewrite bmap_collect_mapv in *. set (m0 := bmap_collect m) in *.
      assert (Hs : ksorted m0) by apply bmap_collect_sorted.
      assert (Hin : forall k x, In (k, x) m0 -> In (k, x) m) by (intros; now apply bmap_collect_in).
      rewrite mapv_mapv. rewrite imap_collect_NoDup by (rewrite keys_mapv; now apply ksorted_NoDup).
      rewrite Forall_forall in IH. rewrite forallb_forall in Hn, Hr.
      assert (Hel : forall k x, In (k, x) m0 ->
                splain (from_json (sj_build x)) = true /\ to_json (from_json (sj_build x)) = jcanon x).
      { intros k x Hx. apply (IH (k, x) (Hin k x Hx) (Hn (k, x) (Hin k x Hx))).
        apply (Hr (k, sj_build x)). unfold mapv. apply in_map_iff. exists (k, x). auto. }
      split.
      + cbn [splain]. rewrite nodup_keys_mapv.
        replace (nodup_keys m0) with true by (symmetry; now apply nodup_keys_keys, ksorted_NoDup).
        cbn. apply forallb_forall. intros [k y] Hy. apply in_mapv in Hy as (x & Hx & ->). cbn.
        apply (Hel k x Hx).
      + rewrite to_json_rec, mapv_mapv, jcanon_obj. rewrite (bmap_collect_mapv jcanon m). fold m0.
        rewrite bmap_collect_sorted_id by (apply (proj1 (ksorted_mapv _ _)); exact Hs).
        f_equal. apply mapv_ext_in. intros k x Hx. apply (Hel k x Hx).
  Qed.

  Lemma plain_val_of s : splain s = true -> plain (val_of s) = true.
  Proof.
    induction s as [x|x| |s|l IH|r IH|n a b sc _|n] using svalue_ind'; try reflexivity; try discriminate.
    - cbn. rewrite forallb_forall. intros H. apply forallb_forall. intros y Hy.
      apply in_map_iff in Hy as (x & <- & Hx). rewrite Forall_forall in IH. auto.
    - cbn [splain]. intros H. apply andb_prop in H as [Hnd Hp]. rewrite val_of_rec. cbn [plain].
      rewrite nodup_keys_mapv, Hnd. cbn.
      apply (forallb_mapv plain splain val_of r); [|exact Hp].
      intros k x Hx. rewrite Forall_forall in IH. apply (IH (k, x) Hx).
  Qed.
  Lemma sv_of_val_of s : splain s = true -> sv_of (val_of s) = s.
  Proof.
    induction s as [x|x| |s|l IH|r IH|n a b sc _|n] using svalue_ind'; try reflexivity; try discriminate.
    - cbn. intros H. f_equal. rewrite map_map. rewrite <- (map_id l) at 2. apply map_ext_in.
      intros x Hx. rewrite Forall_forall in IH. rewrite forallb_forall in H. auto.
    - cbn [splain]. intros H. apply andb_prop in H as [_ Hp]. rewrite val_of_rec, sv_of_rec. f_equal.
      rewrite mapv_mapv. rewrite <- (mapv_id r) at 2. apply mapv_ext_in. intros k x Hx.
      rewrite Forall_forall in IH. rewrite forallb_forall in Hp. apply (IH (k, x) Hx (Hp (k, x) Hx)).
  Qed.

  (* P0 input_echo: a supplied document, read as an input and written as an output, is the
     canonical form of the document: equal to it as a JSON value with numbers compared as
     doubles, duplicate keys resolved (last wins) and key order ignored *)
  Theorem input_echo d :
    json_nums_ok d = true -> json_no_reserved pfs (sj_build d) = true ->
    (do v <- to_value (from_json (sj_build d)); do s <- from_value v; Ok (to_json s)) = Ok (jcanon d)
    /\ json_equiv (jcanon d) d.
  Proof.
    intros Hn Hr. destruct (from_json_build d Hn Hr) as [Hp Hj]. split.
    - rewrite (to_value_splain pbody _ Hp). cbn.
      rewrite (from_value_plain emit nameof _ (plain_val_of _ Hp)). cbn.
      now rewrite (sv_of_val_of _ Hp), Hj.
    - apply jcanon_idem.
  Qed.

  (* ---------------------------------------------------------------- the CLI wrappers *)
  Lemma bmap_collect_single {A} k (x : A) : bmap_collect [(k, x)] = [(k, x)].
  Proof. reflexivity. Qed.

  (* output -> printed document -> input of a second run: inputs.<name> is the sorted value *)
  Theorem cli_out_in_roundtrip v name :
    json_data v = true -> value_no_reserved pfs v = true ->
    cli_out_in pfs pbody emit nameof v name = Ok (vsort v)
    /\ equals (vsort v) v = true /\ same_data (vsort v) v = true.
  Proof.
    intros Hd Hr. split; [|split; [now apply equals_vsort|now apply same_data_vsort]].
    unfold cli_out_in. rewrite (from_value_plain emit nameof v (json_data_plain v Hd)). cbn [obind].
    unfold write_outputs. cbn [map fst snd]. rewrite sj_build_obj. cbn [mapv map].
    rewrite sj_build_to_json, bmap_collect_single.
    unfold parse_json_inputs. cbn [fold_left fst snd obind].
    rewrite (json_tree_roundtrip pfs v Hd Hr).
    pose proof (json_data_plain _ (vsort_data v Hd)) as Hp.
    rewrite (to_value_splain pbody _ (splain_sv_of _ Hp)), val_of_sv_of by exact Hp.
    cbn. now rewrite String.eqb_refl.
  Qed.

  (* `blots -i <doc> 'output <name> = inputs.<key>'` on an object document: the member that
     counts for <key> (the last one in the text) is written back in canonical form *)
  Definition pj_step := fun (acc : outcome (list (string * value))) (kv : string * json) =>
    do m <- acc;
    match to_value (from_json (snd kv)) with
    | Ok val => Ok (rec_insert m (fst kv) val)
    | Panic => Panic
    | _ => Ok m
    end.
  Lemma parse_json_inputs_obj obj n :
    parse_json_inputs pfs pbody (JObj obj) n = (fold_left pj_step obj (Ok []), n).
  Proof. reflexivity. Qed.
  Lemma pj_fold l : forall acc,
    NoDup (keys acc ++ keys l) ->
    (forall k j, In (k, j) l -> splain (from_json j) = true) ->
    fold_left pj_step l (Ok acc) = Ok (acc ++ mapv (fun j => val_of (from_json j)) l).
  Proof.
    induction l as [|[k j] l IH]; intros acc Hnd Hp; cbn [fold_left].
    - cbn. now rewrite app_nil_r.
    - unfold pj_step at 2. cbn [obind fst snd].
      rewrite (to_value_splain pbody _ (Hp k j (or_introl eq_refl))).
      rewrite rec_insert_fresh.
      + rewrite IH.
        * cbn [mapv map]. now rewrite <- app_assoc.
        * unfold keys. rewrite map_app, <- app_assoc. exact Hnd.
        * intros; eapply Hp; right; eauto.
      + cbn in Hnd. apply NoDup_remove_2 in Hnd.
        intros HI. apply Hnd. apply in_or_app. now left.
  Qed.

  Theorem cli_echo_object m key name x :
    json_nums_ok (JObj m) = true ->
    forallb (fun kv => json_no_reserved pfs (sj_build (snd kv))) m = true ->
    jlookup m key = Some x ->
    cli_echo pfs pbody emit nameof (JObj m) key name = Ok (JObj [(name, jcanon x)]).
  Proof.
    rewrite json_nums_ok_obj. intros Hn Hr Hx. rewrite !forallb_forall in *.
    unfold cli_echo. rewrite sj_build_obj, bmap_collect_mapv, parse_json_inputs_obj. cbn [fst].
    set (m0 := bmap_collect m).
    assert (Hin : forall k y, In (k, y) m0 -> In (k, y) m) by (intros; now apply bmap_collect_in).
    assert (Hel : forall k y, In (k, y) m0 ->
              splain (from_json (sj_build y)) = true /\ to_json (from_json (sj_build y)) = jcanon y).
    { intros k y Hy. apply from_json_build; [apply (Hn (k, y) (Hin k y Hy))|apply (Hr (k, y) (Hin k y Hy))]. }
    rewrite (pj_fold (mapv sj_build m0) []).
    - cbn [app obind]. rewrite mapv_mapv, rec_get_mapv. unfold m0 at 1.
      rewrite rec_get_bmap_collect, <- jlookup_get_last, Hx. cbn [option_map].
      assert (Hx' : In (key, x) m0).
      { apply rec_get_In. unfold m0. now rewrite rec_get_bmap_collect, <- jlookup_get_last. }
      destruct (Hel key x Hx') as [Hp Hj].
      rewrite (from_value_plain emit nameof _ (plain_val_of _ Hp)). cbn [obind].
      unfold write_outputs. cbn [map fst snd]. now rewrite (sv_of_val_of _ Hp), Hj.
    - cbn [app keys map]. rewrite keys_mapv. apply ksorted_NoDup, bmap_collect_sorted.
    - intros k j Hj. apply in_mapv in Hj as (y & Hy & ->). apply (Hel k y Hy).
  Qed.

  (* a document that is not an object is bound to inputs.value_1 *)
  Theorem cli_echo_non_object d name :
    (forall m, d <> JObj m) ->
    json_nums_ok d = true -> json_no_reserved pfs (sj_build d) = true ->
    cli_echo pfs pbody emit nameof d "value_1" name = Ok (JObj [(name, jcanon d)]).
  Proof.
    intros Hno Hn Hr. destruct (from_json_build d Hn Hr) as [Hp Hj].
    unfold cli_echo.
    assert (E : fst (parse_json_inputs pfs pbody (sj_build d) 0)
                = Ok [("value_1"%string, val_of (from_json (sj_build d)))]).
    { destruct d as [| | | |l|m]; try (exfalso; now apply (Hno m));
        unfold parse_json_inputs; cbn [sj_build] in Hp |- *;
        rewrite (to_value_splain pbody _ Hp); reflexivity. }
    rewrite E. cbn [obind rec_get]. cbn [String.eqb Ascii.eqb Bool.eqb].
    rewrite (from_value_plain emit nameof _ (plain_val_of _ Hp)). cbn [obind].
    unfold write_outputs. cbn [map fst snd]. now rewrite (sv_of_val_of _ Hp), Hj.
  Qed.
End Echo.

(* ------------------------------------------------------------------ relational JSON equality *)
Inductive jeq : json -> json -> Prop :=
| jeq_null : jeq JNull JNull
| jeq_bool b : jeq (JBool b) (JBool b)
| jeq_num n1 n2 : jnum_as_f64 n1 = jnum_as_f64 n2 -> jeq (JNum n1) (JNum n2)
| jeq_str s : jeq (JStr s) (JStr s)
| jeq_arr l1 l2 : Forall2 jeq l1 l2 -> jeq (JArr l1) (JArr l2)
| jeq_obj m1 m2 :
    (forall k a, jlookup m1 k = Some a -> exists b, jlookup m2 k = Some b /\ jeq a b) ->
    (forall k, jlookup m1 k = None -> jlookup m2 k = None) ->
    jeq (JObj m1) (JObj m2).

Lemma get_last_In {A} (m : list (string * A)) k a : get_last m k = Some a -> In (k, a) m.
Proof.
  induction m as [|[k' v] m IH]; cbn; [discriminate|].
  destruct (get_last m k) as [x|].
  - intros H; injection H as ->. right. now apply IH.
  - destruct (String.eqb_spec k k') as [->|]; [|discriminate]. intros H; injection H as ->. now left.
Qed.
Lemma get_last_mapv {A B} (f : A -> B) m k : get_last (mapv f m) k = option_map f (get_last m k).
Proof.
  induction m as [|[k' v] m IH]; cbn; [reflexivity|]. unfold mapv in IH. rewrite IH.
  destruct (get_last m k); cbn; [reflexivity|]. now destruct (String.eqb k k').
Qed.

(* equal canonical forms are equal JSON values in the relational sense *)
Theorem json_equiv_jeq a : forall b, json_equiv a b -> jeq a b.
Proof.
  unfold json_equiv.
  induction a as [| |n|s|l IH|m IH] using json_ind'; intros [| |n2|s2|l2|m2]; cbn; try discriminate;
    intros H; try (injection H as H); subst; try constructor.
  - exact H.
  - revert l2 H. induction IH as [|x l Hx _ IHl]; intros [|y l2]; cbn; try discriminate; constructor.
    + apply Hx. now injection H.
    + apply IHl. now injection H.
  - intros k a Ha.
    assert (E : get_last (mapv jcanon m) k = get_last (mapv jcanon m2) k).
    { rewrite <- !rec_get_bmap_collect. unfold mapv. now rewrite H. }
    rewrite !get_last_mapv, <- !jlookup_get_last, Ha in E. cbn in E.
    destruct (jlookup m2 k) as [b|]; [|discriminate]. exists b. split; [reflexivity|].
    rewrite jlookup_get_last in Ha. apply get_last_In in Ha.
    rewrite Forall_forall in IH. cbn in E. injection E as E. exact (IH (k, a) Ha b E).
  - intros k Hk.
    assert (E : get_last (mapv jcanon m) k = get_last (mapv jcanon m2) k).
    { rewrite <- !rec_get_bmap_collect. unfold mapv. now rewrite H. }
    rewrite !get_last_mapv, <- !jlookup_get_last, Hk in E. cbn in E.
    now destruct (jlookup m2 k).
Qed.

(* ------------------------------------------------------------------ refutations *)
Open Scope string_scope.
(* F16: the reserved object form, output as data, is read back as a function.  With the
   generated built-in table alone ("sum" is a built-in of the built crate): *)
Lemma reserved_form_builtin_refuted :
  forall pfs pbody emit nameof,
  let v := VRec [("__blots_function", VStr "sum")] in
  json_data v = true /\
  exists b, (do s <- from_value emit nameof v; to_value pbody (from_json pfs (to_json s))) = Ok (VBuiltin b)
            /\ equals (VBuiltin b) v = false.
Proof.
  intros. split; [reflexivity|]. eexists. split; [vm_compute; reflexivity|reflexivity].
Qed.
(* ... and for the lambda source of DESIGN.md F16, for every parser oracle that accepts
   "(y) => y" the way the real parse_function_source does (checked by the FN stream): *)
Lemma reserved_form_refuted :
  forall pfs pbody emit nameof body_ast,
  pfs "(y) => y" = Some ([AReq "y"], "y") -> pbody "y" = Ok body_ast ->
  let v := VRec [("__blots_function", VStr "(y) => y")] in
  json_data v = true /\
  (do s <- from_value emit nameof v; to_value pbody (from_json pfs (to_json s)))
  = Ok (VLam O [AReq "y"] body_ast []) /\
  equals (VLam O [AReq "y"] body_ast []) v = false.
Proof.
  intros pfs pbody emit nameof body_ast H1 H2. split; [reflexivity|]. split; [|reflexivity].
  cbn [from_value obind to_json]. unfold imap_collect. cbn [fold_left rec_insert fst snd map].
  rewrite from_json_obj. cbn. rewrite H1. cbn. rewrite H2. reflexivity.
Qed.
(* non-finite numbers (outside the property: it speaks of finite numbers) are written as 0 *)
Lemma nonfinite_written_as_zero :
  to_json (SNum npinf) = JNum (JPosInt 0) /\ to_json (SNum nnan) = JNum (JPosInt 0).
Proof. split; reflexivity. Qed.
