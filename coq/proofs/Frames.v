(* Frames.v — the frame discipline of the evaluator (C03, C04):
   evaluating ANY expression, at any depth, with any operator / built-in implementation,
   successfully or not, changes the scope chain only by adding fresh, permitted names to the
   innermost frame; do-blocks and calls give the chain back exactly. *)
From Coq Require Import String Ascii List ZArith Bool Lia.
Require Import Blots.Num Blots.gen.Builtins Blots.Ast Blots.Value Blots.Outcome Blots.Binop
               Blots.Env Blots.Eval Blots.proofs.ExprInd.
Import ListNotations.
Open Scope string_scope.
Open Scope list_scope.

(* names the top-level / nested Assignment arm accepts (expressions.rs:359-395) *)
Definition assignable (fr : frames) (x : string) : Prop :=
  is_builtin_name x = false /\ mem x assign_keywords = false /\ contains fr x = false.

(* fr' is fr with zero or more assignable names pushed onto the innermost frame *)
Inductive ext : frames -> frames -> Prop :=
| ext_refl : forall fr, ext fr fr
| ext_step : forall fr x v fr1 fr2,
    assignable fr x -> insert_head fr x v = Some fr1 -> ext fr1 fr2 -> ext fr fr2.

Lemma ext_trans : forall a b c, ext a b -> ext b c -> ext a c.
Proof.
  intros a b c Hab; revert c; induction Hab as [|fr x v fr1 fr2 Ha Hi _ IH]; intros c Hbc; auto.
  eapply ext_step; eauto.
Qed.

Lemma insert_head_shape : forall fr x v fr1,
  insert_head fr x v = Some fr1 ->
  exists f rest, fr = (FOwned, f) :: rest /\ fr1 = (FOwned, (x, v) :: f) :: rest.
Proof.
  intros fr x v fr1 H. destruct fr as [|[k f] rest]; [discriminate|].
  destruct k; [|discriminate]. inversion H; subst. eauto.
Qed.

(* the tail of the chain and the kind of the head never change *)
Lemma ext_tail : forall fr fr', ext fr fr' -> tl fr' = tl fr.
Proof.
  induction 1 as [|fr x v fr1 fr2 _ Hi _ IH]; auto.
  destruct (insert_head_shape _ _ _ _ Hi) as (f & rest & -> & ->). exact IH.
Qed.

Lemma lookup_insert_other : forall fr x v fr1 y,
  insert_head fr x v = Some fr1 -> String.eqb y x = false -> lookup fr1 y = lookup fr y.
Proof.
  intros fr x v fr1 y Hi Hne.
  destruct (insert_head_shape _ _ _ _ Hi) as (f & rest & -> & ->).
  cbn [lookup lookup_frame]. rewrite Hne. reflexivity.
Qed.

(* IMMUTABILITY: a name bound before is bound to the same value after *)
Lemma ext_lookup : forall fr fr', ext fr fr' ->
  forall y w, lookup fr y = Some w -> lookup fr' y = Some w.
Proof.
  induction 1 as [|fr x v fr1 fr2 Ha Hi _ IH]; intros y w Hy; auto.
  apply IH. rewrite (lookup_insert_other _ _ _ _ y Hi); auto.
  destruct (String.eqb y x) eqn:E; auto.
  apply String.eqb_eq in E; subst y.
  destruct Ha as (_ & _ & Hc). unfold contains in Hc. rewrite Hy in Hc. discriminate.
Qed.

(* names that can never appear: built-in names and the assignment keywords *)
Definition forbidden (x : string) : bool := is_builtin_name x || mem x assign_keywords.

Lemma ext_new_names : forall fr fr', ext fr fr' ->
  forall y, lookup fr y = None -> lookup fr' y <> None -> forbidden y = false.
Proof.
  induction 1 as [|fr x v fr1 fr2 Ha Hi _ IH]; intros y Hn Hs; [congruence|].
  destruct (String.eqb y x) eqn:E.
  - apply String.eqb_eq in E; subst y. destruct Ha as (Hb & Hk & _).
    unfold forbidden. rewrite Hb, Hk. reflexivity.
  - apply IH; auto. rewrite (lookup_insert_other _ _ _ _ y Hi); auto.
Qed.

Section WithImpl.
  Variable release : bool.
  Variable binop_impl : callback -> binop -> value -> value -> store -> outcome value * store.
  Variable builtin_impl : callback -> builtin -> list value -> store -> outcome value * store.
  Variable apply : frames -> callback.

  Notation evalE := (evalE release binop_impl apply).

  Definition frames_ok (ev : cfg -> expr -> result) (e : expr) : Prop :=
    forall c r c', ev c e = (r, c') -> ext (snd c) (snd c').

  Lemma evalL_ext : forall ev l,
    Forall (frames_ok ev) l ->
    forall c r c', evalL ev c l = (r, c') -> ext (snd c) (snd c').
  Proof.
    intros ev l HF; induction HF as [|x l Hx _ IH]; intros c r c' H; cbn [evalL] in H.
    - inversion H; subst; constructor.
    - destruct (ev c x) as [o c1] eqn:E1. apply Hx in E1.
      destruct o; try (inversion H; subst; exact E1).
      destruct (evalL ev c1 l) as [o2 c2] eqn:E2. apply IH in E2.
      assert (ext (snd c) (snd c2)) by (eapply ext_trans; eauto).
      destruct o2; inversion H; subst; assumption.
  Qed.

  Lemma evalCL_ext : forall ev (l : list (commented expr)),
    Forall (fun cm => frames_ok ev (cnode cm)) l ->
    forall c r c', evalCL ev c l = (r, c') -> ext (snd c) (snd c').
  Proof.
    intros ev l HF; induction HF as [|[ld x tr] l Hx _ IH]; intros c r c' H; cbn [evalCL] in H.
    - inversion H; subst; constructor.
    - cbn [cnode] in Hx. destruct (ev c x) as [o c1] eqn:E1. apply Hx in E1.
      destruct o; try (inversion H; subst; exact E1).
      destruct (evalCL ev c1 l) as [o2 c2] eqn:E2. apply IH in E2.
      assert (ext (snd c) (snd c2)) by (eapply ext_trans; eauto).
      destruct o2; inversion H; subst; assumption.
  Qed.

  Lemma evalRecL_ext : forall ev (l : list (commented rentry)),
    Forall (fun cm => Pentry (frames_ok ev) (cnode cm)) l ->
    forall c acc r c', evalRecL ev c acc l = (r, c') -> ext (snd c) (snd c').
  Proof.
    intros ev l HF; induction HF as [|[ld [k v] tr] l Hx _ IH]; intros c acc r c' H;
      cbn [evalRecL] in H.
    - inversion H; subst; constructor.
    - cbn [cnode Pentry] in Hx. destruct Hx as [Hk Hv].
      destruct k as [key|ke|x|se]; cbn [Pkey] in Hk.
      + destruct (ev c v) as [o c1] eqn:E1. apply Hv in E1.
        destruct o; try (inversion H; subst; exact E1).
        apply IH in H. eapply ext_trans; eauto.
      + destruct (ev c ke) as [o c1] eqn:E1. apply Hk in E1.
        destruct o; try (inversion H; subst; exact E1).
        destruct (as_string a); try (inversion H; subst; exact E1).
        destruct (ev c1 v) as [o2 c2] eqn:E2. apply Hv in E2.
        assert (ext (snd c) (snd c2)) by (eapply ext_trans; eauto).
        destruct o2; try (inversion H; subst; assumption).
        apply IH in H. eapply ext_trans; eauto.
      + destruct (lookup (snd c) x).
        * apply IH in H. exact H.
        * inversion H; subst; constructor.
      + destruct (ev c se) as [o c1] eqn:E1. apply Hk in E1.
        destruct o; try (inversion H; subst; exact E1).
        apply IH in H. eapply ext_trans; eauto.
  Qed.

  Lemma assign_checked_ext : forall ev x ve c r c',
    frames_ok ev ve ->
    is_builtin_name x = false -> mem x assign_keywords = false ->
    assign_checked ev c x ve = (r, c') -> ext (snd c) (snd c').
  Proof.
    intros ev x ve c r c' Hve Hb Hk H. unfold assign_checked in H.
    destruct (ev c ve) as [o c1] eqn:E1. apply Hve in E1.
    destruct o; try (inversion H; subst; exact E1).
    destruct (contains (snd c1) x) eqn:Hc; [inversion H; subst; exact E1|].
    unfold bind_value in H.
    destruct (insert_head (snd c1) x a) as [fr2|] eqn:Ei; inversion H; subst; cbn [snd].
    - eapply ext_trans; [exact E1|].
      eapply ext_step; [|exact Ei|constructor]. repeat split; assumption.
    - exact E1.
  Qed.

  (* MAIN LEMMA: whatever happens, the chain is only extended by assignable names *)
  Theorem evalE_ext : forall e c r c', evalE c e = (r, c') -> ext (snd c) (snd c').
  Proof.
    intros e. change (frames_ok evalE e).
    induction e using expr_ind'; intros c r c' HE; cbn [Eval.evalE] in HE.
    - inversion HE; subst; constructor.
    - inversion HE; subst; constructor.
    - inversion HE; subst; constructor.
    - inversion HE; subst; constructor.
    - (* EId *)
      destruct (_ || _); [inversion HE; subst; constructor|].
      destruct (String.eqb x "constants"); inversion HE; subst; constructor.
    - inversion HE; subst; constructor.
    - inversion HE; subst; constructor.
    - (* EList *)
      destruct (evalCL evalE c items) as [o c1] eqn:E1.
      eapply evalCL_ext in E1; [|eassumption]. cbn [fst snd] in HE. inversion HE; subst. exact E1.
    - (* ERec *)
      eapply evalRecL_ext in HE; eauto.
    - (* ELam *)
      destruct (fresh_lambda _ _ _ _) as [v st']. inversion HE; subst. constructor.
    - (* ECond *)
      destruct (evalE c e1) as [o c1] eqn:E1. apply IHe1 in E1.
      destruct o; try (inversion HE; subst; exact E1).
      destruct (as_bool a) as [[|]| | | |]; try (inversion HE; subst; exact E1).
      + apply IHe2 in HE. eapply ext_trans; eauto.
      + apply IHe3 in HE. eapply ext_trans; eauto.
    - (* EDo: the caller's chain is returned as it was *)
      destruct ret as [ld rt tr]. inversion HE; subst. cbn [snd]. constructor.
    - (* EAssign *)
      destruct (is_builtin_name x) eqn:Hb; [inversion HE; subst; constructor|].
      destruct (mem x assign_keywords) eqn:Hk; [inversion HE; subst; constructor|].
      destruct (contains (snd c) x); [inversion HE; subst; constructor|].
      eapply assign_checked_ext in HE; eauto.
    - (* EOutput *) apply IHe in HE. exact HE.
    - (* ECall *)
      destruct (evalE c e) as [o c1] eqn:E1. apply IHe in E1.
      destruct o; try (inversion HE; subst; exact E1).
      destruct (evalL evalE c1 args) as [o2 [st2 fr2]] eqn:E2.
      eapply evalL_ext in E2; [|eassumption]. cbn [snd] in E2.
      assert (Hx : ext (snd c) fr2) by (eapply ext_trans; eauto).
      destruct o2; try (inversion HE; subst; exact Hx).
      destruct (negb (is_function a)); [inversion HE; subst; exact Hx|].
      destruct (apply fr2 a a (flatten_spreads a0) st2) as [rr st3].
      inversion HE; subst; exact Hx.
    - (* EAccess *)
      destruct (evalE c e1) as [o c1] eqn:E1. apply IHe1 in E1.
      destruct o; try (inversion HE; subst; exact E1).
      destruct (evalE c1 e2) as [o2 c2] eqn:E2. apply IHe2 in E2.
      assert (Hx : ext (snd c) (snd c2)) by (eapply ext_trans; eauto).
      destruct o2; inversion HE; subst; exact Hx.
    - (* EDot *)
      destruct (evalE c e) as [o c1] eqn:E1. apply IHe in E1.
      destruct o; inversion HE; subst; exact E1.
    - (* EBin *)
      destruct (evalE c e1) as [o c1] eqn:E1. apply IHe1 in E1.
      destruct o; try (inversion HE; subst; exact E1).
      destruct (evalE c1 e2) as [o2 [st2 fr2]] eqn:E2. apply IHe2 in E2. cbn [snd] in E2.
      assert (Hx : ext (snd c) fr2) by (eapply ext_trans; eauto).
      destruct o2; try (inversion HE; subst; exact Hx).
      destruct (binop_impl (apply fr2) op a a0 st2) as [res st3].
      inversion HE; subst; exact Hx.
    - (* EUn *)
      destruct (evalE c e) as [o c1] eqn:E1. apply IHe in E1.
      destruct o; inversion HE; subst; exact E1.
    - (* EFact *)
      destruct (evalE c e) as [o c1] eqn:E1. apply IHe in E1.
      destruct o; inversion HE; subst; exact E1.
    - (* ESpread *)
      destruct (evalE c e) as [o c1] eqn:E1. apply IHe in E1.
      destruct o; inversion HE; subst; exact E1.
  Qed.
End WithImpl.
