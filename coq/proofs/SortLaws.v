(* SortLaws.v — laws of the stable merge sort behind sort / sort_by (BuiltinsList.v):
   permutation, sortedness, stability, uniqueness among stable sorts, panic freedom. *)
From Coq Require Import String Ascii List ZArith Bool Lia Permutation Sorted.
Require Import Blots.Num Blots.gen.Builtins Blots.Ast Blots.Value Blots.Outcome Blots.Access Blots.BuiltinsList Blots.proofs.ValueInd Blots.proofs.Order Blots.proofs.ListLaws.
Import ListNotations.
Open Scope list_scope.
Local Open Scope nat_scope.

(* ====================================================================== arithmetic of halves *)
Lemma half_bounds n : 2 <= n -> 1 <= n / 2 /\ n / 2 < n.
Proof.
  intros H. split.
  - apply Nat.div_le_lower_bound; lia.
  - apply Nat.div_lt; lia.
Qed.

Lemma ltb2_false {A} (l : list A) : (length l <? 2) = false -> 2 <= length l.
Proof. intros H. apply Nat.ltb_ge in H. exact H. Qed.

Lemma firstn_half_length {A} (l : list A) f :
  2 <= length l -> length l <= S f -> length (firstn (length l / 2) l) <= f.
Proof.
  intros H2 Hf. rewrite firstn_length. destruct (half_bounds _ H2). lia.
Qed.

Lemma skipn_half_length {A} (l : list A) f :
  2 <= length l -> length l <= S f -> length (skipn (length l / 2) l) <= f.
Proof.
  intros H2 Hf. rewrite skipn_length. destruct (half_bounds _ H2). lia.
Qed.

Lemma filter_commute {A} (f : A -> bool) (b : A) X Y :
  (forall x, In x X -> f x && f b = false) ->
  filter f (X ++ b :: Y) = filter f (b :: X ++ Y).
Proof.
  induction X as [|x X IH]; intros H; [reflexivity|].
  cbn [app filter]. rewrite IH by (intros; apply H; now right).
  cbn [filter]. assert (Hx := H x (or_introl eq_refl)).
  destruct (f x), (f b); cbn in Hx; try reflexivity; discriminate.
Qed.

(* ====================================================================== the generic merge sort *)
Section MergeGeneric.
  Context {A : Type}.
  Variable lt : A -> A -> bool.

  Lemma merge_nil_l r : merge lt [] r = r.
  Proof. destruct r; reflexivity. Qed.

  Lemma merge_nil_r l : merge lt l [] = l.
  Proof. destruct l; reflexivity. Qed.

  Lemma merge_cons a l b r :
    merge lt (a :: l) (b :: r) =
    if lt b a then b :: merge lt (a :: l) r else a :: merge lt l (b :: r).
  Proof. reflexivity. Qed.

  Lemma merge_perm l r : Permutation (l ++ r) (merge lt l r).
  Proof.
    revert r. induction l as [|a l IHl]; intros r.
    - rewrite merge_nil_l. reflexivity.
    - induction r as [|b r IHr].
      + rewrite merge_nil_r, app_nil_r. reflexivity.
      + rewrite merge_cons. destruct (lt b a).
        * etransitivity; [|apply perm_skip, IHr].
          symmetry. apply (Permutation_middle (a :: l) r b).
        * cbn [app]. apply perm_skip. apply IHl.
  Qed.

  Lemma merge_sort_fuel_perm fuel l : Permutation l (merge_sort_fuel lt fuel l).
  Proof.
    revert l. induction fuel as [|f IH]; intros l; cbn [merge_sort_fuel]; [reflexivity|].
    destruct (length l <? 2); [reflexivity|].
    etransitivity; [|apply merge_perm].
    rewrite <- (firstn_skipn (length l / 2) l) at 1.
    apply Permutation_app; apply IH.
  Qed.

  Lemma merge_sort_perm l : Permutation l (merge_sort lt l).
  Proof. apply merge_sort_fuel_perm. Qed.

  Variable P : A -> Prop.
  Hypothesis asym : forall x y, P x -> P y -> lt x y = true -> lt y x = false.
  Hypothesis negtrans : forall x y z, P x -> P y -> P z ->
    lt x y = false -> lt y z = false -> lt x z = false.

  Definition asc (l : list A) := StronglySorted (fun a b => lt b a = false) l.

  Lemma lt_irrefl x : P x -> lt x x = false.
  Proof. intros Hx. destruct (lt x x) eqn:E; [|reflexivity]. now rewrite (asym x x Hx Hx E) in E. Qed.

  (* b < a and not x < a: then b < x *)
  Lemma lt_below b a x : P b -> P a -> P x -> lt b a = true -> lt x a = false -> lt b x = true.
  Proof.
    intros Hb Ha Hx H1 H2. destruct (lt b x) eqn:E; [reflexivity|].
    rewrite (negtrans b x a Hb Hx Ha E H2) in H1. discriminate.
  Qed.

  Lemma asc_small l : length l < 2 -> asc l.
  Proof.
    destruct l as [|x [|y l]]; cbn; intros H; [constructor|repeat constructor|lia].
  Qed.

  Lemma asc_inv a l : asc (a :: l) -> asc l /\ Forall (fun x => lt x a = false) l.
  Proof. intros H. inversion H; subst. split; assumption. Qed.

  Lemma Forall_merge (Q : A -> Prop) l r : Forall Q l -> Forall Q r -> Forall Q (merge lt l r).
  Proof.
    intros Hl Hr. eapply Permutation_Forall; [apply merge_perm|].
    apply Forall_app. split; assumption.
  Qed.

  Lemma merge_sorted l r : Forall P l -> Forall P r -> asc l -> asc r -> asc (merge lt l r).
  Proof.
    revert r. induction l as [|a l IHl]; intros r Pl Pr Sl Sr.
    - now rewrite merge_nil_l.
    - induction r as [|b r IHr].
      + now rewrite merge_nil_r.
      + rewrite merge_cons.
        inversion Pl as [|? ? Pa Pl']; subst. inversion Pr as [|? ? Pb Pr']; subst.
        destruct (asc_inv _ _ Sl) as [Sl' Fl]. destruct (asc_inv _ _ Sr) as [Sr' Fr].
        destruct (lt b a) eqn:E.
        * constructor; [now apply IHr|].
          apply Forall_merge; [|exact Fr].
          assert (Fa : Forall (fun x => P x /\ lt x a = false) (a :: l)).
          { constructor; [split; [assumption|now apply lt_irrefl]|].
            rewrite Forall_forall in *. intros x Hx. split; auto. }
          eapply Forall_impl; [|exact Fa]. cbn beta. intros x [Px Hx].
          apply (asym b x Pb Px). now apply (lt_below b a x).
        * constructor; [now apply IHl|].
          apply Forall_merge; [exact Fl|].
          constructor; [exact E|].
          rewrite Forall_forall in *. intros x Hx.
          apply (negtrans x b a); auto.
  Qed.

  Lemma merge_stable k l r : P k -> Forall P l -> Forall P r -> asc l ->
    filter (equiv lt k) (merge lt l r) = filter (equiv lt k) (l ++ r).
  Proof.
    intros Pk. revert r. induction l as [|a l IHl]; intros r Pl Pr Sl.
    - now rewrite merge_nil_l.
    - induction r as [|b r IHr].
      + now rewrite merge_nil_r, app_nil_r.
      + rewrite merge_cons.
        inversion Pl as [|? ? Pa Pl']; subst. inversion Pr as [|? ? Pb Pr']; subst.
        destruct (asc_inv _ _ Sl) as [Sl' Fl].
        destruct (lt b a) eqn:E.
        * rewrite filter_commute.
          -- cbn [filter]. rewrite (IHr Pr'). reflexivity.
          -- intros x Hx.
             assert (Px : P x) by (rewrite Forall_forall in Pl; now apply Pl).
             assert (Hxa : lt x a = false).
             { destruct Hx as [<-|Hx]; [now apply lt_irrefl|].
               rewrite Forall_forall in Fl. now apply Fl. }
             assert (Hbx := lt_below b a x Pb Pa Px E Hxa).
             unfold equiv.
             destruct (lt k x) eqn:E1; [reflexivity|].
             destruct (lt b k) eqn:E2; [cbn; now rewrite !andb_false_r|].
             rewrite (negtrans b k x Pb Pk Px E2 E1) in Hbx. discriminate.
        * cbn [app filter]. rewrite (IHl (b :: r) Pl' Pr Sl'). reflexivity.
  Qed.

  Lemma Forall_merge_sort_fuel (Q : A -> Prop) fuel l : Forall Q l -> Forall Q (merge_sort_fuel lt fuel l).
  Proof. intros H. eapply Permutation_Forall; [apply merge_sort_fuel_perm|exact H]. Qed.

  Lemma Forall_firstn (Q : A -> Prop) n l : Forall Q l -> Forall Q (firstn n l).
  Proof.
    intros H. rewrite <- (firstn_skipn n l) in H. apply Forall_app in H. tauto.
  Qed.

  Lemma Forall_skipn (Q : A -> Prop) n l : Forall Q l -> Forall Q (skipn n l).
  Proof.
    intros H. rewrite <- (firstn_skipn n l) in H. apply Forall_app in H. tauto.
  Qed.

  Lemma merge_sort_fuel_sorted fuel : forall l, length l <= fuel -> Forall P l ->
    asc (merge_sort_fuel lt fuel l).
  Proof.
    induction fuel as [|f IH]; intros l Hlen Pl; cbn [merge_sort_fuel].
    - apply asc_small. lia.
    - destruct (length l <? 2) eqn:E.
      + apply asc_small. now apply Nat.ltb_lt.
      + apply ltb2_false in E.
        apply merge_sorted.
        * apply Forall_merge_sort_fuel. now apply Forall_firstn.
        * apply Forall_merge_sort_fuel. now apply Forall_skipn.
        * apply IH; [now apply firstn_half_length|now apply Forall_firstn].
        * apply IH; [now apply skipn_half_length|now apply Forall_skipn].
  Qed.

  Lemma merge_sort_sorted l : Forall P l -> asc (merge_sort lt l).
  Proof. intros H. apply merge_sort_fuel_sorted; [lia|exact H]. Qed.

  Lemma merge_sort_fuel_stable k fuel : P k -> forall l, length l <= fuel -> Forall P l ->
    filter (equiv lt k) (merge_sort_fuel lt fuel l) = filter (equiv lt k) l.
  Proof.
    intros Pk. induction fuel as [|f IH]; intros l Hlen Pl; cbn [merge_sort_fuel]; [reflexivity|].
    destruct (length l <? 2) eqn:E; [reflexivity|].
    apply ltb2_false in E.
    rewrite merge_stable.
    - rewrite filter_app.
      rewrite IH by first [now apply firstn_half_length|now apply Forall_firstn].
      rewrite IH by first [now apply skipn_half_length|now apply Forall_skipn].
      rewrite <- filter_app. now rewrite firstn_skipn.
    - exact Pk.
    - apply Forall_merge_sort_fuel. now apply Forall_firstn.
    - apply Forall_merge_sort_fuel. now apply Forall_skipn.
    - apply merge_sort_fuel_sorted; [now apply firstn_half_length|now apply Forall_firstn].
  Qed.

  Lemma merge_sort_stable k l : P k -> Forall P l ->
    filter (equiv lt k) (merge_sort lt l) = filter (equiv lt k) l.
  Proof. intros Pk H. apply merge_sort_fuel_stable; [exact Pk|lia|exact H]. Qed.
End MergeGeneric.

(* ====================================================================== sort on values *)
Lemma SS_impl_in {A} (R R' : A -> A -> Prop) l :
  (forall a b, In a l -> In b l -> R a b -> R' a b) ->
  StronglySorted R l -> StronglySorted R' l.
Proof.
  induction l as [|x l IH]; intros H S; [constructor|].
  inversion S as [|? ? S' F]; subst. constructor.
  - apply IH; [|exact S']. intros a b Ha Hb. apply H; now right.
  - rewrite Forall_forall in *. intros y Hy. apply H; [now left|now right|now apply F].
Qed.

Lemma Forall_In_self {A} (l : list A) : Forall (fun x => In x l) l.
Proof. apply Forall_forall. auto. Qed.

Lemma sort_ok l : bi_sort [VList l] = Ok (VList (merge_sort value_less l)).
Proof. reflexivity. Qed.

Lemma sort_perm l : exists l', bi_sort [VList l] = Ok (VList l') /\ Permutation l l'.
Proof. eexists. split; [apply sort_ok|apply merge_sort_perm]. Qed.

Lemma sort_asc l : mutually_comparable l = true ->
  StronglySorted (fun a b => value_less b a = false) (merge_sort value_less l).
Proof.
  intros Hmc.
  apply (merge_sort_sorted value_less (fun x => In x l)).
  - intros x y. apply (vl_asym l).
  - intros x y z. apply (vl_negtrans l Hmc).
  - apply Forall_In_self.
Qed.

Lemma sort_sorted l : mutually_comparable l = true ->
  exists l', bi_sort [VList l] = Ok (VList l') /\ StronglySorted (fun a b => ulte a b = true) l'.
Proof.
  intros Hmc. eexists. split; [apply sort_ok|].
  eapply SS_impl_in; [|apply sort_asc; exact Hmc].
  intros a b Ha Hb H. cbn beta in H.
  assert (Hp := merge_sort_perm value_less l).
  apply (vl_not_less_ulte l Hmc).
  - eapply Permutation_in; [symmetry; exact Hp|exact Ha].
  - eapply Permutation_in; [symmetry; exact Hp|exact Hb].
  - exact H.
Qed.

Lemma sort_equiv_stable l : mutually_comparable l = true ->
  forall k, In k l ->
    filter (equiv value_less k) (merge_sort value_less l) = filter (equiv value_less k) l.
Proof.
  intros Hmc k Hk.
  apply (merge_sort_stable value_less (fun x => In x l)).
  - intros x y. apply (vl_asym l).
  - intros x y z. apply (vl_negtrans l Hmc).
  - exact Hk.
  - apply Forall_In_self.
Qed.

Lemma sort_stable l : mutually_comparable l = true ->
  exists l', bi_sort [VList l] = Ok (VList l') /\
             forall k, In k l -> filter (same_class k) l' = filter (same_class k) l.
Proof.
  intros Hmc. eexists. split; [apply sort_ok|].
  intros k Hk.
  assert (Hp := merge_sort_perm value_less l).
  rewrite <- (filter_ext_in' (equiv value_less k) (same_class k) (merge_sort value_less l)).
  - rewrite <- (filter_ext_in' (equiv value_less k) (same_class k) l).
    + now apply sort_equiv_stable.
    + intros x Hx. now apply (vl_equiv_ceq l Hmc).
  - intros x Hx. apply (vl_equiv_ceq l Hmc); [exact Hk|].
    eapply Permutation_in; [symmetry; exact Hp|exact Hx].
Qed.

Lemma sort_any_stable_sort l l' :
  mutually_comparable l = true -> Permutation l l' ->
  StronglySorted (fun a b => value_less b a = false) l' ->
  (forall k, In k l -> filter (equiv value_less k) l' = filter (equiv value_less k) l) ->
  bi_sort [VList l] = Ok (VList l').
Proof.
  intros Hmc Hp Hs Hst. rewrite sort_ok. do 2 f_equal.
  apply (sorted_stable_unique value_less (fun x => In x l)).
  - intros x. apply (vl_irrefl l).
  - apply Forall_forall. intros x Hx.
    eapply Permutation_in; [symmetry; apply merge_sort_perm|exact Hx].
  - apply Forall_forall. intros x Hx.
    eapply Permutation_in; [symmetry; exact Hp|exact Hx].
  - now apply sort_asc.
  - exact Hs.
  - intros k Hk. rewrite (Hst k Hk). now apply sort_equiv_stable.
Qed.

Lemma sort_never_panics v : bi_sort [v] = Err \/ exists l', bi_sort [v] = Ok (VList l').
Proof.
  unfold bi_sort. cbn [arg nth_error obind].
  destruct v; cbn [as_list obind]; try (left; reflexivity).
  right. eexists. reflexivity.
Qed.

(* ====================================================================== sort_by *)
Section SortBy.
  Variable St : Type.
  Variable call : value -> value -> list value -> St -> outcome value * St.

  Lemma merge_by_nil_l func r st : merge_by St call func [] r st = (Ok r, st).
  Proof. destruct r; reflexivity. Qed.

  Lemma merge_by_nil_r func l st : merge_by St call func l [] st = (Ok l, st).
  Proof. destruct l; reflexivity. Qed.

  Lemma merge_by_cons func a l b r st :
    merge_by St call func (a :: l) (b :: r) st =
    let '(c, st1) := sort_by_cmp St call func b a st in
    match c with
    | Ok Lt => let '(res, st2) := merge_by St call func (a :: l) r st1 in (omap (cons b) res, st2)
    | Ok _ => let '(res, st2) := merge_by St call func l (b :: r) st1 in (omap (cons a) res, st2)
    | Err => (Err, st1) | ErrDepth => (ErrDepth, st1)
    | Panic => (Panic, st1) | Unmodelled => (Unmodelled, st1)
    end.
  Proof. reflexivity. Qed.

  Lemma merge_by_perm func l : forall r st m st',
    merge_by St call func l r st = (Ok m, st') -> Permutation (l ++ r) m.
  Proof.
    induction l as [|a l IHl]; intros r st m st' H.
    - rewrite merge_by_nil_l in H. injection H as <- _. reflexivity.
    - revert st m st' H. induction r as [|b r IHr]; intros st m st' H.
      + rewrite merge_by_nil_r in H. injection H as <- _. now rewrite app_nil_r.
      + rewrite merge_by_cons in H.
        destruct (sort_by_cmp St call func b a st) as [c st1].
        destruct c as [[| |]| | | |]; try discriminate.
        * destruct (merge_by St call func l (b :: r) st1) as [res st2] eqn:E.
          destruct res as [m'| | | |]; cbn in H; try discriminate.
          injection H as <- _. cbn [app]. apply perm_skip. eapply IHl; exact E.
        * destruct (merge_by St call func (a :: l) r st1) as [res st2] eqn:E.
          destruct res as [m'| | | |]; cbn in H; try discriminate.
          injection H as <- _.
          etransitivity; [|apply perm_skip; eapply IHr; exact E].
          symmetry. apply (Permutation_middle (a :: l) r b).
        * destruct (merge_by St call func l (b :: r) st1) as [res st2] eqn:E.
          destruct res as [m'| | | |]; cbn in H; try discriminate.
          injection H as <- _. cbn [app]. apply perm_skip. eapply IHl; exact E.
  Qed.

  Lemma merge_sort_by_fuel_perm func fuel : forall l st m st',
    merge_sort_by_fuel St call fuel func l st = (Ok m, st') -> Permutation l m.
  Proof.
    induction fuel as [|f IH]; intros l st m st' H; cbn [merge_sort_by_fuel] in H.
    - injection H as <- _. reflexivity.
    - destruct (length l <? 2).
      + injection H as <- _. reflexivity.
      + destruct (merge_sort_by_fuel St call f func (firstn (length l / 2) l) st)
          as [sl st1] eqn:E1.
        destruct sl as [left'| | | |]; try discriminate.
        destruct (merge_sort_by_fuel St call f func (skipn (length l / 2) l) st1)
          as [sr st2] eqn:E2.
        destruct sr as [right'| | | |]; try discriminate.
        apply merge_by_perm in H. apply IH in E1. apply IH in E2.
        rewrite <- (firstn_skipn (length l / 2) l).
        etransitivity; [|exact H]. now apply Permutation_app.
  Qed.

  Lemma sort_by_perm func l st r st' :
    bi_sort_by St call [VList l; func] st = (Ok r, st') -> exists l', r = VList l' /\ Permutation l l'.
  Proof.
    unfold bi_sort_by. cbn [arg nth_error obind as_list]. unfold sort_by_list.
    destruct (merge_sort_by_fuel St call (length l) func l st) as [res st1] eqn:E.
    destruct res as [m| | | |]; cbn [omap obind]; intros H; try discriminate.
    injection H as <- _. exists m. split; [reflexivity|].
    eapply merge_sort_by_fuel_perm; exact E.
  Qed.

  Variable func : value.
  Variable key : value -> value.
  Hypothesis Hfun : is_function func = true.
  Hypothesis Hkey : forall x st, fst (call func func [x] st) = Ok (key x).

  Let key_less := fun a b => value_less (key a) (key b).

  Lemma sort_by_cmp_key a b st :
    fst (sort_by_cmp St call func a b st) = Ok (cmp_or_eq (key a) (key b)).
  Proof.
    unfold sort_by_cmp. rewrite Hfun.
    assert (Ha := Hkey a st).
    destruct (call func func [a] st) as [ra st1]. cbn [fst] in Ha. subst ra.
    assert (Hb := Hkey b st1).
    destruct (call func func [b] st1) as [rb st2]. cbn [fst] in Hb. subst rb.
    reflexivity.
  Qed.

  Lemma merge_by_key l : forall r st,
    fst (merge_by St call func l r st) = Ok (merge key_less l r).
  Proof.
    induction l as [|a l IHl]; intros r st.
    - now rewrite merge_by_nil_l, merge_nil_l.
    - revert st. induction r as [|b r IHr]; intros st.
      + now rewrite merge_by_nil_r, merge_nil_r.
      + rewrite merge_by_cons, merge_cons.
        assert (Hc := sort_by_cmp_key b a st).
        destruct (sort_by_cmp St call func b a st) as [c st1]. cbn [fst] in Hc. subst c.
        unfold key_less at 1. unfold value_less.
        destruct (cmp_or_eq (key b) (key a)); cbn [is_Lt].
        * specialize (IHl (b :: r) st1).
          destruct (merge_by St call func l (b :: r) st1) as [res st2]. cbn [fst] in IHl. subst res.
          reflexivity.
        * specialize (IHr st1).
          destruct (merge_by St call func (a :: l) r st1) as [res st2]. cbn [fst] in IHr. subst res.
          reflexivity.
        * specialize (IHl (b :: r) st1).
          destruct (merge_by St call func l (b :: r) st1) as [res st2]. cbn [fst] in IHl. subst res.
          reflexivity.
  Qed.

  Lemma merge_sort_by_fuel_key fuel : forall l st,
    fst (merge_sort_by_fuel St call fuel func l st) = Ok (merge_sort_fuel key_less fuel l).
  Proof.
    induction fuel as [|f IH]; intros l st; cbn [merge_sort_by_fuel merge_sort_fuel]; [reflexivity|].
    destruct (length l <? 2); [reflexivity|].
    assert (H1 := IH (firstn (length l / 2) l) st).
    destruct (merge_sort_by_fuel St call f func (firstn (length l / 2) l) st) as [sl st1].
    cbn [fst] in H1. subst sl.
    assert (H2 := IH (skipn (length l / 2) l) st1).
    destruct (merge_sort_by_fuel St call f func (skipn (length l / 2) l) st1) as [sr st2].
    cbn [fst] in H2. subst sr.
    apply merge_by_key.
  Qed.

  Lemma sort_by_key l st :
    fst (bi_sort_by St call [VList l; func] st) =
    Ok (VList (merge_sort (fun a b => value_less (key a) (key b)) l)).
  Proof.
    unfold bi_sort_by. cbn [arg nth_error obind as_list]. unfold sort_by_list.
    assert (H := merge_sort_by_fuel_key (length l) l st).
    destruct (merge_sort_by_fuel St call (length l) func l st) as [res st1].
    cbn [fst] in H. subst res. reflexivity.
  Qed.

  Lemma key_less_asym l x y : In x l -> In y l -> key_less x y = true -> key_less y x = false.
  Proof.
    intros Hx Hy. apply (vl_asym (map key l)); now apply in_map.
  Qed.

  Lemma key_less_negtrans l (Hmc : mutually_comparable (map key l) = true) x y z :
    In x l -> In y l -> In z l ->
    key_less x y = false -> key_less y z = false -> key_less x z = false.
  Proof.
    intros Hx Hy Hz. apply (vl_negtrans (map key l) Hmc); now apply in_map.
  Qed.

  Lemma sort_by_sorted l st : mutually_comparable (map key l) = true ->
    exists l', fst (bi_sort_by St call [VList l; func] st) = Ok (VList l') /\
               StronglySorted (fun a b => ulte (key a) (key b) = true) l'.
  Proof.
    intros Hmc. eexists. split; [apply sort_by_key|].
    fold key_less.
    assert (Hp := merge_sort_perm key_less l).
    eapply SS_impl_in;
      [|apply (merge_sort_sorted key_less (fun x => In x l) (key_less_asym l)
                 (key_less_negtrans l Hmc)); apply Forall_In_self].
    intros a b Ha Hb H. cbn beta in H.
    apply (vl_not_less_ulte (map key l) Hmc).
    - apply in_map. eapply Permutation_in; [symmetry; exact Hp|exact Ha].
    - apply in_map. eapply Permutation_in; [symmetry; exact Hp|exact Hb].
    - exact H.
  Qed.

  Lemma sort_by_stable l st : mutually_comparable (map key l) = true ->
    exists l', fst (bi_sort_by St call [VList l; func] st) = Ok (VList l') /\
               forall k, In k l ->
                 filter (fun x => same_class (key k) (key x)) l' =
                 filter (fun x => same_class (key k) (key x)) l.
  Proof.
    intros Hmc. eexists. split; [apply sort_by_key|].
    fold key_less. intros k Hk.
    assert (Hp := merge_sort_perm key_less l).
    assert (Hc : forall x, In x l -> equiv key_less k x = same_class (key k) (key x)).
    { intros x Hx. apply (vl_equiv_ceq (map key l) Hmc (key k) (key x)); now apply in_map. }
    rewrite <- (filter_ext_in' (equiv key_less k) _ (merge_sort key_less l)).
    - rewrite <- (filter_ext_in' (equiv key_less k) _ l) by exact Hc.
      apply (merge_sort_stable key_less (fun x => In x l) (key_less_asym l)
               (key_less_negtrans l Hmc)); [exact Hk|apply Forall_In_self].
    - intros x Hx. apply Hc. eapply Permutation_in; [symmetry; exact Hp|exact Hx].
  Qed.
End SortBy.
