(* C02Let.v — LET-ABSTRACTION (C02): in a configuration where the name x holds the value that the
   assignment-free expression s evaluates to, using x in place of s gives the same outcome up to the
   function cells the evaluations allocate.

   Proved here ([let_abstraction_head], a PARTIAL result): for HEAD CONTEXTS — the occurrence of s is
   the first thing the context evaluates apart from atoms (literals and identifiers), it is not under a
   lambda or do-block, and it occurs once — and for s evaluating to a CELL-FREE value (no function
   inside).  The proof walks down the spine of the context to the hole (where C[x] reads x and C[s]
   evaluates s, allocating |st1| - |st| cells that C[x] never sees) and from there on uses the
   store-extension invariance of C02Sim.v with the renaming that skips those cells.

   Kept as a stated Prop ([let_abstraction_full_stmt]): arbitrary contexts, several occurrences.  What is
   missing is (a) the Kripke version of the simulation (each later occurrence of s inserts another block
   of unseen cells, so the renaming has to grow during the run; with well-formedness of every
   intermediate value threaded through), and (b) "binding an unmentioned name changes nothing", needed to
   derive the hypothesis [Hs] from the evaluation of `x = s` itself.
   What CANNOT hold (so it is excluded from the full statement too): s evaluating to a function and
   occurring twice — C[s] then has two cells where C[x] has one, and naming one of them (a do-block
   assignment) is visible through the other only in C[x]. *)
From Coq Require Import String Ascii List ZArith Bool Lia.
Require Import Blots.Num Blots.gen.Builtins Blots.Ast Blots.Value Blots.Outcome Blots.Binop
               Blots.Env Blots.Eval Blots.BuiltinsHof Blots.Program Blots.EvalInst
               Blots.proofs.ExprInd Blots.proofs.ValueInd Blots.proofs.Frames Blots.proofs.StoreMono
               Blots.proofs.Scoping Blots.proofs.InstMono
               Blots.proofs.C02Ren Blots.proofs.C02Sim Blots.proofs.C02Ops Blots.proofs.C02Keep Blots.proofs.C02Twice.
Import ListNotations.
Open Scope string_scope.
Open Scope list_scope.
Open Scope nat_scope.

(* literals and identifiers: evaluated without touching the store, value taken from the scope chain *)
Definition atom (e : expr) : Prop :=
  match e with ENum _ | EStr _ | EBool _ | ENull | EId _ | EBuiltin _ => True | _ => False end.
Definition cell_free (v : value) : bool := ids_lt 0 v.

(* eA = C[x], eB = C[s] for a head context C *)
Inductive hctx (x : string) (s : expr) : expr -> expr -> Prop :=
| H_hole : hctx x s (EId x) s
| H_binl : forall op a b e, hctx x s a b -> hctx x s (EBin op a e) (EBin op b e)
| H_binr : forall op t a b, atom t -> hctx x s a b -> hctx x s (EBin op t a) (EBin op t b)
| H_accl : forall a b e, hctx x s a b -> hctx x s (EAccess a e) (EAccess b e)
| H_dot : forall a b f, hctx x s a b -> hctx x s (EDot a f) (EDot b f)
| H_un : forall op a b, hctx x s a b -> hctx x s (EUn op a) (EUn op b)
| H_out : forall a b, hctx x s a b -> hctx x s (EOutput a) (EOutput b)
| H_cond : forall a b t f, hctx x s a b -> hctx x s (ECond a t f) (ECond b t f)
| H_call : forall t a b rest, atom t -> hctx x s a b -> hctx x s (ECall t (a :: rest)) (ECall t (b :: rest))
| H_list : forall l tr a b rest, hctx x s a b ->
    hctx x s (EList (Cm l a tr :: rest)) (EList (Cm l b tr :: rest)).

Lemma ids_lt_mono : forall n m, n <= m -> forall v, ids_lt n v = true -> ids_lt m v = true.
Proof.
  intros n m Hnm. induction v as [y|y| |y|l IH|r IH|id ar bd sc IH|bi|y IH] using value_ind';
    intros H; cbn [ids_lt] in *; try reflexivity.
  - rewrite forallb_forall in *. rewrite Forall_forall in IH. intros y Hy. apply IH; [exact Hy|apply H; exact Hy].
  - rewrite forallb_forall in *. rewrite Forall_forall in IH. intros [k y] Hy. apply (IH (k, y) Hy). apply (H (k, y) Hy).
  - apply andb_true_iff in H. destruct H as [Hid H]. apply andb_true_iff. split.
    + apply Nat.ltb_lt in Hid. apply Nat.ltb_lt. lia.
    + rewrite forallb_forall in *. rewrite Forall_forall in IH. intros [k y] Hy. apply (IH (k, y) Hy). apply (H (k, y) Hy).
  - apply IH. exact H.
Qed.
Lemma lookup_frame_lt : forall n f y v, frame_lt n f = true -> lookup_frame f y = Some v -> ids_lt n v = true.
Proof.
  intros n f y v. induction f as [|[k w] f IH]; intros H E; cbn [lookup_frame] in E; [discriminate|].
  cbn [frame_lt forallb] in H. apply andb_true_iff in H. destruct H as [Hw Hf].
  destruct (String.eqb y k); [inversion E; subst; exact Hw|apply IH; assumption].
Qed.
Lemma lookup_lt : forall n fr y v, frames_lt n fr = true -> lookup fr y = Some v -> ids_lt n v = true.
Proof.
  intros n fr y v. induction fr as [|[k f] fr IH]; intros H E; cbn [lookup] in E; [discriminate|].
  cbn [frames_lt forallb snd] in H. apply andb_true_iff in H. destruct H as [Hf Hfr].
  destruct (lookup_frame f y) eqn:El; [inversion E; subst; eapply lookup_frame_lt; eauto|apply IH; assumption].
Qed.

Section Let.
  Variable release : bool.
  Variable bi : callback -> binop -> value -> value -> store -> outcome value * store.
  Variable bu : callback -> builtin -> list value -> store -> outcome value * store.
  Hypothesis Hops : ops_commute bi bu.
  Variable d : nat.
  Notation evD := (evalD release bi bu d).

  Variable x : string.
  Variable s : expr.
  Variable st st1 : store.
  Variable fr : frames.
  Variable v : value.
  Hypothesis Hwf : frames_lt (length st) fr = true.
  Hypothesis Hx : evD (st, fr) (EId x) = (Ok v, (st, fr)).          (* x holds v *)
  Hypothesis Hs : evD (st, fr) s = (Ok v, (st1, fr)).               (* s evaluates to v here *)
  Hypothesis Hv : cell_free v = true.
  Hypothesis Hlen : length st <= length st1.
  Hypothesis Hkept : old_names_kept st st1.

  Definition rho := shift (length st) (length st1 - length st).
  Lemma rho_inj : forall a b, rho a = rho b -> a = b.
  Proof. apply shift_inj. Qed.
  Notation simG := (simG rho).
  Notation ren := (ren rho).

  Ltac step H :=
    match type of H with C02Sim.simG _ _ ?XA ?XB =>
      revert H; destruct XA as [?rA [?sA ?frA]]; destruct XB as [?rB [?sB ?frB]];
      intros (?E & ?E & ?Hs); cbn [fst snd] in *; subst end.
  Ltac stepM H :=
    match type of H with _ = omap _ (fst ?XA) /\ sinv _ (snd ?XA) (snd ?XB) =>
      revert H; destruct XA as [?rA ?sA]; destruct XB as [?rB ?sB];
      intros (?E & ?Hs); cbn [fst snd] in *; subst end.
  Ltac done := split; [reflexivity|split; [reflexivity|assumption]].

  Lemma Hbi : forall cbA cbB, cb_eqv rho cbA cbB ->
    forall op l r, Mfun rho ren (bi cbA op l r) (bi cbB op (ren l) (ren r)).
  Proof. exact (proj1 (Hops rho rho_inj)). Qed.
  Lemma Hbu : forall cbA cbB, cb_eqv rho cbA cbB ->
    forall b args, Mfun rho ren (bu cbA b args) (bu cbB b (map ren args)).
  Proof. exact (proj2 (Hops rho rho_inj)). Qed.
  Lemma Hap : forall fr0, cb_eqv rho (AD release bi bu d fr0) (AD release bi bu d (renFr rho fr0)).
  Proof. intros fr0. apply (AD_sim rho rho_inj release bi bu Hbi Hbu). Qed.
  Lemma sub_sim : forall e sA sB fr0, sinv rho sA sB ->
    simG ren (evD (sA, fr0) e) (evD (sB, renFr rho fr0) e).
  Proof. intros e sA sB fr0 H. apply (evalD_sim rho rho_inj release bi bu Hbi Hbu); exact H. Qed.

  Lemma fr_fix : renFr rho fr = fr.
  Proof. apply renFr_shift_fix. exact Hwf. Qed.
  Lemma v_fix : ren v = v.
  Proof. apply ren_shift_fix. eapply ids_lt_mono; [|exact Hv]. lia. Qed.

  (* an atom: no effect on the configuration, a value that only mentions cells of st *)
  Lemma atom_eval : forall t, atom t ->
    exists o, evD (st, fr) t = (o, (st, fr)) /\ oren rho o = o.
  Proof.
    intros t Ht. destruct t; try contradiction; unfold evalD; cbn [evalE]; try (eexists; split; reflexivity).
    destruct (String.eqb x0 "infinity" || String.eqb x0 "inf"); [eexists; split; reflexivity|].
    destruct (String.eqb x0 "constants"); [eexists; split; reflexivity|].
    cbn [snd]. eexists; split; [reflexivity|].
    destruct (lookup fr x0) as [w|] eqn:El; [|reflexivity]. cbn [of_option oren omap obind]. f_equal.
    apply ren_shift_fix. eapply lookup_lt; eauto.
  Qed.

  (* the spine: both sides start from (st, fr); from the hole on they are related by rho; an evaluation
     that fails before reaching the hole is literally the same on both sides *)
  Definition srel (rA rB : result) : Prop :=
    simG ren rA rB \/ (rB = rA /\ is_ok (fst rA) = false).

  Ltac failed E Hf :=
    right; unfold evalD in *; cbn [evalE]; rewrite E;
    match goal with |- context [evalE release bi ?ap ?c ?e] =>
      destruct (evalE release bi ap c e) as [[?w| | | |] ?c1]; cbn [fst is_ok] in Hf; try discriminate Hf;
      split; reflexivity end.

  Theorem hctx_sim : forall eA eB, hctx x s eA eB -> srel (evD (st, fr) eA) (evD (st, fr) eB).
  Proof.
    intros eA eB H. induction H.
    - (* hole *) left. rewrite Hx, Hs. split; [cbn [fst omap obind]; rewrite v_fix; reflexivity|].
      split; [cbn [fst snd]; symmetry; apply fr_fix|]. cbn [fst snd]. apply sinv_shift; assumption.
    - (* EBin, hole on the left *)
      destruct IHhctx as [IH|[E Hf]]; [|failed E Hf]. left.
      unfold evalD in *. cbn [evalE]. step IH. destruct rA; cbn [omap obind]; try done.
      pose proof (sub_sim e sA sB frA Hs0) as H2. unfold evalD in H2. step H2.
      destruct rA; cbn [omap obind]; try done.
      pose proof (Hbi _ _ (Hap frA0) op a0 a1 sA0 sB0 Hs1) as H3. stepM H3. done.
    - (* EBin, atom then hole *)
      destruct (atom_eval t H) as (o & Eo & Ho). unfold evalD in *. cbn [evalE]. rewrite Eo.
      destruct o as [w| | | |]; try (right; split; reflexivity).
      cbn [oren omap obind] in Ho. injection Ho as Hw.
      destruct IHhctx as [IH|[E Hf]].
      + left. step IH. destruct rA; cbn [omap obind]; try done.
        pose proof (Hbi _ _ (Hap frA) op w a0 sA sB Hs0) as H3. rewrite Hw in H3. stepM H3. done.
      + right. rewrite E. destruct (evalE release bi (AD release bi bu d) (st, fr) a) as [[?w| | | |] [? ?]];
          cbn [fst is_ok] in Hf; try discriminate Hf; split; reflexivity.
    - (* EAccess, hole on the left *)
      destruct IHhctx as [IH|[E Hf]]; [|failed E Hf]. left.
      unfold evalD in *. cbn [evalE]. step IH. destruct rA; cbn [omap obind]; try done.
      pose proof (sub_sim e sA sB frA Hs0) as H2. unfold evalD in H2. step H2.
      destruct rA; cbn [omap obind]; try done. rewrite (access_val_ren rho). done.
    - (* EDot *)
      destruct IHhctx as [IH|[E Hf]]; [|failed E Hf]. left.
      unfold evalD in *. cbn [evalE]. step IH. destruct rA; cbn [omap obind]; try done.
      rewrite (dot_val_ren rho). done.
    - (* EUn *)
      destruct IHhctx as [IH|[E Hf]]; [|failed E Hf]. left.
      unfold evalD in *. cbn [evalE]. step IH. destruct rA; cbn [omap obind]; try done.
      destruct op; rewrite ?as_number_ren, ?as_bool_ren;
        [destruct (as_number a0)|destruct (as_bool a0)|destruct (as_bool a0)]; done.
    - (* EOutput *)
      destruct IHhctx as [IH|[E Hf]]; [left; exact IH|right; split; assumption].
    - (* ECond *)
      destruct IHhctx as [IH|[E Hf]]; [|failed E Hf]. left.
      unfold evalD in *. cbn [evalE]. step IH. destruct rA; cbn [omap obind]; try done.
      rewrite as_bool_ren. destruct (as_bool a0) as [[|]| | | |]; cbn [cast_fail]; try done.
      + pose proof (sub_sim t sA sB frA Hs0) as H2. exact H2.
      + pose proof (sub_sim f sA sB frA Hs0) as H2. exact H2.
    - (* ECall: atom function, hole in the first argument *)
      destruct (atom_eval t H) as (o & Eo & Ho). unfold evalD in *. cbn [evalE evalL]. rewrite Eo.
      destruct o as [w| | | |]; try (right; split; reflexivity).
      cbn [oren omap obind] in Ho. injection Ho as Hw.
      destruct IHhctx as [IH|[E Hf]].
      + left. step IH. destruct rA; cbn [omap obind cast_fail]; try done.
        assert (HF : Forall (simR rho (evalE release bi (AD release bi bu d)) (evalE release bi (AD release bi bu d))) rest).
        { apply Forall_forall. intros e _ sA' sB' fr' Hs'. exact (sub_sim e sA' sB' fr' Hs'). }
        pose proof (evalL_sim rho _ _ rest HF sA sB frA Hs0) as H2. step H2.
        destruct rA; cbn [omap obind cast_fail]; try done.
        destruct (negb (is_function w)); [done|].
        pose proof (Hap frA0 w w (flatten_spreads (a0 :: a1)) sA0 sB0 Hs1) as H3.
        rewrite Hw in H3. rewrite <- (flatten_spreads_ren rho) in H3. cbn [map] in H3. stepM H3. done.
      + right. rewrite E. destruct (evalE release bi (AD release bi bu d) (st, fr) a) as [[?w| | | |] [? ?]];
          cbn [fst is_ok] in Hf; try discriminate Hf; split; reflexivity.
    - (* EList: hole in the first item *)
      destruct IHhctx as [IH|[E Hf]].
      + left. unfold evalD in *. cbn [evalE evalCL]. step IH. destruct rA; cbn [omap obind cast_fail fst snd]; try done.
        assert (HF : Forall (fun cm => simR rho (evalE release bi (AD release bi bu d)) (evalE release bi (AD release bi bu d)) (cnode cm)) rest).
        { apply Forall_forall. intros e _ sA' sB' fr' Hs'. exact (sub_sim (cnode e) sA' sB' fr' Hs'). }
        pose proof (evalCL_sim rho _ _ rest HF sA sB frA Hs0) as H2. step H2.
        destruct rA; cbn [omap obind cast_fail fst snd]; try done.
        change (ren a0 :: map ren a1) with (map ren (a0 :: a1)). rewrite flatten_spreads_ren. done.
      + right. unfold evalD in *. cbn [evalE evalCL]. rewrite E.
        destruct (evalE release bi (AD release bi bu d) (st, fr) a) as [[?w| | | |] [? ?]];
          cbn [fst is_ok] in Hf; try discriminate Hf; split; reflexivity.
  Qed.

  (* LET-ABSTRACTION for head contexts and cell-free values *)
  Theorem let_abstraction_head : forall eA eB rA cA rB cB,
    hctx x s eA eB ->
    evD (st, fr) eA = (rA, cA) -> evD (st, fr) eB = (rB, cB) ->
    osame rA rB /\ (snd cB = renFr rho (snd cA) \/ cB = cA).
  Proof.
    intros eA eB rA cA rB cB H HA HB. destruct (hctx_sim eA eB H) as [(E1 & E2 & _)|[E _]].
    - rewrite HA, HB in E1, E2. cbn [fst snd] in E1, E2. subst rB. split; [apply osame_oren|left; exact E2].
    - rewrite HA, HB in E. inversion E; subst. split; [|right; reflexivity].
      destruct rA; cbn; try exact I. reflexivity.
  Qed.
End Let.

(* ---- the full statement (kept, not proved): arbitrary positions outside lambdas and do-blocks, any
   number of occurrences ---- *)
Inductive gctx (x : string) (s : expr) : expr -> expr -> Prop :=
| G_hole : gctx x s (EId x) s
| G_same : forall e, gctx x s e e
| G_bin : forall op a a' b b', gctx x s a a' -> gctx x s b b' -> gctx x s (EBin op a b) (EBin op a' b')
| G_un : forall op a a', gctx x s a a' -> gctx x s (EUn op a) (EUn op a')
| G_fact : forall a a', gctx x s a a' -> gctx x s (EFact a) (EFact a')
| G_spread : forall a a', gctx x s a a' -> gctx x s (ESpread a) (ESpread a')
| G_out : forall a a', gctx x s a a' -> gctx x s (EOutput a) (EOutput a')
| G_dot : forall a a' f, gctx x s a a' -> gctx x s (EDot a f) (EDot a' f)
| G_access : forall a a' b b', gctx x s a a' -> gctx x s b b' -> gctx x s (EAccess a b) (EAccess a' b')
| G_cond : forall a a' b b' c c', gctx x s a a' -> gctx x s b b' -> gctx x s c c' ->
    gctx x s (ECond a b c) (ECond a' b' c')
| G_call : forall f f' args args', gctx x s f f' -> Forall2 (gctx x s) args args' ->
    gctx x s (ECall f args) (ECall f' args')
| G_list : forall items items',
    Forall2 (fun c c' => cleading c = cleading c' /\ ctrailing c = ctrailing c' /\ gctx x s (cnode c) (cnode c'))
            items items' ->
    gctx x s (EList items) (EList items').

Definition let_abstraction_full_stmt : Prop :=
  forall release d x s st st1 fr v eA eB rA cA rB cB,
    frames_lt (length st) fr = true -> no_assign s = true -> no_assign eA = true ->
    evalD release binop_impl builtin_impl d (st, fr) (EId x) = (Ok v, (st, fr)) ->
    evalD release binop_impl builtin_impl d (st, fr) s = (Ok v, (st1, fr)) ->
    cell_free v = true ->
    gctx x s eA eB ->
    evalD release binop_impl builtin_impl d (st, fr) eA = (rA, cA) ->
    evalD release binop_impl builtin_impl d (st, fr) eB = (rB, cB) ->
    osame rA rB.

(* the head-context theorem for the evaluator of EvalInst.v *)
Theorem let_abstraction_head_inst : forall release d x s st st1 fr v eA eB rA cA rB cB,
  frames_lt (length st) fr = true ->
  evalD release binop_impl builtin_impl d (st, fr) (EId x) = (Ok v, (st, fr)) ->
  evalD release binop_impl builtin_impl d (st, fr) s = (Ok v, (st1, fr)) ->
  cell_free v = true -> old_names_kept st st1 ->
  hctx x s eA eB ->
  evalD release binop_impl builtin_impl d (st, fr) eA = (rA, cA) ->
  evalD release binop_impl builtin_impl d (st, fr) eB = (rB, cB) ->
  osame rA rB.
Proof.
  intros release d x s st st1 fr v eA eB rA cA rB cB Hwf Hx Hs Hv Hk H HA HB.
  pose proof (evalD_store_le release binop_impl builtin_impl binop_impl_mono builtin_impl_mono d _ _ _ _ Hs) as [Hlen _].
  cbn [fst] in Hlen.
  exact (proj1 (let_abstraction_head release binop_impl builtin_impl ops_commute_inst d x s st st1 fr v
                  Hwf Hx Hs Hv Hlen Hk eA eB rA cA rB cB H HA HB)).
Qed.

(* with the repaired naming rule: no side condition on names *)
Theorem let_abstraction_head_uncond : forall release d x s st st1 fr v eA eB rA cA rB cB,
  frames_lt (length st) fr = true ->
  evalD release binop_impl builtin_impl d (st, fr) (EId x) = (Ok v, (st, fr)) ->
  evalD release binop_impl builtin_impl d (st, fr) s = (Ok v, (st1, fr)) ->
  cell_free v = true ->
  hctx x s eA eB ->
  evalD release binop_impl builtin_impl d (st, fr) eA = (rA, cA) ->
  evalD release binop_impl builtin_impl d (st, fr) eB = (rB, cB) ->
  osame rA rB.
Proof.
  intros release d x s st st1 fr v eA eB rA cA rB cB Hwf Hx Hs Hv H HA HB.
  destruct (store_keep_old_names _ _ (evalD_store_keep release d _ _ _ _ Hs)) as [_ Hk]. cbn [fst] in Hk.
  exact (let_abstraction_head_inst release d x s st st1 fr v eA eB rA cA rB cB Hwf Hx Hs Hv Hk H HA HB).
Qed.
