(* PrattConverse.v — soundness of the parser with respect to the table, for EVERY token stream:
   whenever the conversion of a stream succeeds with tree t, the stream is — at the operator layer —
   a rendering of t that carries at least the parentheses the level assignment requires.
   The declarative relation Rend m its t ("its renders t where an operand of level >= m is
   required") has primaries as atoms: any single non-operator pair whose own conversion gives t
   (a parenthesised group, a literal, a list ... — their nested streams are converted by the same
   parser, to which the same theorem applies). *)
From Coq Require Import String List Bool Arith Lia.
Require Import Blots.Num Blots.gen.Builtins Blots.Ast Blots.Outcome Blots.PrattTypes Blots.Pratt
               Blots.PrattRender.
Import ListNotations.
Local Open Scope nat_scope.
Local Open Scope list_scope.

Section Converse.
  Variable tbl : ops_map.
  Variable imap : list (oprule * binop).
  Variable pmap : list (oprule * prefix_ctor).
  Variable bprec : binop -> nat.
  Variable rassoc : binop -> bool.
  Variables Ppre Pfact Ppost : nat.

  (* the table, read backwards: what an entry of each affix can be *)
  Hypothesis T_infix : forall r a p, ops_get tbl r = Some (Infix a, p) ->
    forall o, assoc_find r imap = Some o -> a = (if rassoc o then ARight else ALeft) /\ p = bprec o.
  Hypothesis T_prefix : forall r p, ops_get tbl r = Some (Prefix, p) -> p = Ppre.
  Hypothesis T_postfix : forall r p, ops_get tbl r = Some (Postfix, p) -> p = Pfact \/ p = Ppost.
  Hypothesis prec_pos : forall o, 0 < bprec o.
  Hypothesis prec_lt_pre : forall o, bprec o < Ppre.
  Hypothesis pre_lt_fact : Ppre < Pfact.
  Hypothesis pre_lt_post : Ppre < Ppost.
  Hypothesis level_assoc : forall o1 o2, bprec o1 = bprec o2 -> rassoc o1 = rassoc o2.

  Notation needL := (needL bprec rassoc).
  Notation needR := (needR bprec rassoc).
  Notation ExprR := (Expr tbl imap pmap).
  Notation LoopR := (Loop tbl imap pmap).

  (* its renders t where an operand of level >= m is required *)
  Inductive Rend : nat -> list item -> expr -> Prop :=
  | Rd_prim m i x : item_op i = None -> Prim tbl imap pmap i x -> Rend m [i] x
  | Rd_bin m i r o l x il ir :
      item_op i = Some r -> assoc_find r imap = Some o -> m <= bprec o ->
      Rend (needL o) il l -> Rend (needR o) ir x ->
      Rend m (il ++ i :: ir) (EBin o l x)
  | Rd_pre m i r x u ix :
      item_op i = Some r ->
      ops_get tbl r = Some (Prefix, Ppre) -> map_prefix pmap r (Some x) = Ok (Some u) -> m <= Ppre ->
      Rend Ppre ix x -> Rend m (i :: ix) u
  | Rd_post m i r p lhs u il :
      item_op i = Some r -> ops_get tbl r = Some (Postfix, p) -> m <= p ->
      Post tbl imap pmap lhs i u -> Rend (S Ppre) il lhs -> Rend m (il ++ [i]) u.

  Lemma Rend_mono : forall m its t, Rend m its t -> forall m', m' <= m -> Rend m' its t.
  Proof.
    intros m its t H. induction H; intros m' Hm.
    - apply Rd_prim; assumption.
    - eapply Rd_bin; eauto. eapply Nat.le_trans; eassumption.
    - eapply Rd_pre; eauto. eapply Nat.le_trans; eassumption.
    - eapply Rd_post; eauto. eapply Nat.le_trans; eassumption.
  Qed.

  Definition lbp_le (rest : list item) (k : nat) : Prop := exists b, lbp tbl rest = Ok b /\ b <= k.

  (* the operator that follows a left operand whose rendering stands at level E accepts it *)
  Definition Follow (its : list item) (E : nat) : Prop :=
    forall b, lbp tbl its = Ok b ->
      (forall o, bprec o = b -> needL o <= E) /\ ((b = Pfact \/ b = Ppost) -> S Ppre <= E).

  Lemma Follow_high : forall its E, S Ppre <= E -> Follow its E.
  Proof.
    intros its E H b _. split; [|intros _; exact H].
    intros o _. pose proof (prec_lt_pre o). unfold PrattRender.needL. destruct (rassoc o); lia.
  Qed.

  Definition rbp_of' (o : binop) : nat := if rassoc o then bprec o - 1 else bprec o.

  Lemma Follow_bin : forall its o, lbp_le its (rbp_of' o) -> Follow its (bprec o).
  Proof.
    intros its o (b0 & Hb0 & Hle) b Hb. assert (b = b0) by congruence. subst b0. split.
    - intros o' H. subst b. unfold PrattRender.needL, rbp_of' in *.
      destruct (rassoc o') eqn:A'; destruct (rassoc o) eqn:A; try lia.
      + pose proof (prec_pos o). lia.
      + destruct (Nat.eq_dec (bprec o') (bprec o)) as [E|E]; [|lia].
        pose proof (level_assoc _ _ E). congruence.
    - intros [H|H]; pose proof (prec_lt_pre o); unfold rbp_of' in Hle; destruct (rassoc o); lia.
  Qed.

  Lemma Follow_pre : forall its, lbp_le its (Ppre - 1) -> Follow its Ppre.
  Proof.
    intros its (b0 & Hb0 & Hle) b Hb. assert (b = b0) by congruence. subst b0. split.
    - intros o H. pose proof (prec_lt_pre o). unfold PrattRender.needL. destruct (rassoc o); lia.
    - intros [H|H]; lia.
  Qed.

  Definition P_expr (rbp : nat) (its : list item) (t : expr) (rest : list item) : Prop :=
    rbp < Ppre ->
    exists cons, its = cons ++ rest /\ Rend (S rbp) cons t /\ lbp_le rest rbp.
  Definition P_loop (rbp : nat) (lhs : expr) (its : list item) (t : expr) (rest : list item) : Prop :=
    rbp < Ppre ->
    forall consL E, Rend E consL lhs -> S rbp <= E -> Follow its E ->
    exists consR, its = consR ++ rest /\ Rend (S rbp) (consL ++ consR) t /\ lbp_le rest rbp.

  Theorem parse_sound_op :
    (forall rbp its t rest, ExprR rbp its t rest -> P_expr rbp its t rest) /\
    (forall rbp lhs its t rest, LoopR rbp lhs its t rest -> P_loop rbp lhs its t rest).
  Proof.
    assert (H := parse_rel_mutind tbl imap pmap P_expr P_loop
                   (fun _ _ _ => True) (fun _ _ => True) (fun _ _ => True) (fun _ _ => True)
                   (fun _ _ => True) (fun _ _ => True) (fun _ _ _ _ => True)).
    assert (G : (forall rbp its t rest, ExprR rbp its t rest -> P_expr rbp its t rest) /\
                (forall rbp lhs its t rest, LoopR rbp lhs its t rest -> P_loop rbp lhs its t rest) /\
                (forall lhs i u, Post tbl imap pmap lhs i u -> True) /\
                (forall i x, Prim tbl imap pmap i x -> True) /\
                (forall its t, Items tbl imap pmap its t -> True) /\
                (forall args es, Args tbl imap pmap args es -> True) /\
                (forall els es, LEls tbl imap pmap els es -> True) /\
                (forall els es, REls tbl imap pmap els es -> True) /\
                (forall els stmts ret t, DEls tbl imap pmap els stmts ret t -> True)).
    { apply H; clear H; try (intros; exact I).
      - (* E_prefix *)
        intros rbp i r p its x mid u t rest Hop Hops HE IHx Hpre HL IHl Hrbp.
        pose proof (T_prefix r p Hops) as Hp. subst p.
        assert (Hp1 : Ppre - 1 < Ppre) by lia.
        destruct (IHx Hp1) as (consX & Hits & HRx & Hlb).
        assert (HRu : Rend Ppre (i :: consX) u).
        { eapply Rd_pre; [exact Hop | exact Hops | exact Hpre | apply le_n |]. eapply Rend_mono; [exact HRx | lia]. }
        assert (HS : S rbp <= Ppre) by lia.
        destruct (IHl Hrbp (i :: consX) Ppre HRu HS (Follow_pre mid Hlb)) as (consR & Hmid & HRt & Hrest).
        exists ((i :: consX) ++ consR). split; [|split; assumption].
        subst its mid. cbn [app]. rewrite <- app_assoc. reflexivity.
      - (* E_primary *)
        intros rbp i its x t rest Hop HP _ HL IHl Hrbp.
        assert (HRx : Rend (S Ppre) [i] x) by (apply Rd_prim; assumption).
        assert (HS : S rbp <= S Ppre) by lia.
        destruct (IHl Hrbp [i] (S Ppre) HRx HS (Follow_high its (S Ppre) (le_n _))) as (consR & Hi & HRt & Hrest).
        exists ([i] ++ consR). split; [|split; assumption]. rewrite Hi. reflexivity.
      - (* L_stop *)
        intros rbp lhs its l Hl Hle Hrbp consL E HR HE _.
        exists []. split; [reflexivity|]. rewrite app_nil_r.
        split; [eapply Rend_mono; [exact HR | exact HE] | exists l; split; assumption].
      - (* L_infix *)
        intros rbp lhs i r a p its rhs mid u t rest Hop Hops Hlt HE IHe Hin HL IHl Hrbp consL E HR HEle HF.
        unfold map_infix in Hin. destruct (assoc_find r imap) as [o|] eqn:Eo; [|discriminate].
        inversion Hin; subst u. clear Hin.
        destruct (T_infix r a p Hops o Eo) as [Ha Hp]. subst a p.
        assert (Hr_lt : rbp_of' o < Ppre).
        { pose proof (prec_lt_pre o). unfold rbp_of'. destruct (rassoc o); lia. }
        assert (IHe' : P_expr (rbp_of' o) its rhs mid).
        { unfold rbp_of'. destruct (rassoc o); exact IHe. }
        destruct (IHe' Hr_lt) as (consX & Hits & HRx & Hlbm).
        (* the left operand stands at the level this operator requires *)
        assert (Hb : lbp tbl (i :: its) = Ok (bprec o)).
        { unfold lbp. rewrite Hop, Hops. reflexivity. }
        destruct (HF _ Hb) as [HK1 _]. specialize (HK1 o eq_refl).
        assert (HRl : Rend (needL o) consL lhs) by (eapply Rend_mono; [exact HR | exact HK1]).
        assert (HRr : Rend (needR o) consX rhs).
        { eapply Rend_mono; [exact HRx|]. unfold PrattRender.needR, rbp_of'.
          pose proof (prec_pos o). destruct (rassoc o); lia. }
        assert (HRb : Rend (bprec o) (consL ++ i :: consX) (EBin o lhs rhs)).
        { eapply Rd_bin; [exact Hop | exact Eo | apply le_n | exact HRl | exact HRr]. }
        assert (HS : S rbp <= bprec o) by lia.
        destruct (IHl Hrbp (consL ++ i :: consX) (bprec o) HRb HS (Follow_bin mid o Hlbm))
          as (consR & Hmid & HRt & Hrest).
        exists ((i :: consX) ++ consR). split; [|split; [|exact Hrest]].
        + subst its mid. cbn [app]. rewrite <- app_assoc. reflexivity.
        + rewrite <- app_assoc in HRt. exact HRt.
      - (* L_postfix *)
        intros rbp lhs i r p its u t rest Hop Hops Hlt HP _ HL IHl Hrbp consL E HR HEle HF.
        assert (Hb : lbp tbl (i :: its) = Ok p).
        { unfold lbp. rewrite Hop, Hops. reflexivity. }
        destruct (HF _ Hb) as [_ HK2].
        pose proof (T_postfix r p Hops) as Hpp.
        assert (HE2 : S Ppre <= E) by (apply HK2; exact Hpp).
        assert (HRu : Rend p (consL ++ [i]) u).
        { eapply Rd_post; [exact Hop | exact Hops | apply le_n | exact HP |].
          eapply Rend_mono; [exact HR | exact HE2]. }
        assert (Hp_big : S Ppre <= p) by (destruct Hpp; subst; lia).
        assert (HS : S rbp <= p) by lia.
        destruct (IHl Hrbp (consL ++ [i]) p HRu HS (Follow_high its p Hp_big)) as (consR & Hi & HRt & Hrest).
        exists ([i] ++ consR). split; [rewrite Hi; reflexivity|]. split; [|exact Hrest].
        rewrite app_assoc. exact HRt. }
    split; [exact (proj1 G) | exact (proj1 (proj2 G))].
  Qed.

  (* a whole stream *)
  Theorem items_sound_op : 0 < Ppre -> forall its t, Items tbl imap pmap its t ->
    exists cons rest, its = cons ++ rest /\ Rend 1 cons t /\ lbp_le rest 0.
  Proof.
    intros Hp its t H. inversion H as [its' t' rest HE]; subst.
    destruct (proj1 parse_sound_op 0 its t rest HE Hp) as (cons & Hi & HR & Hl).
    exists cons, rest. auto.
  Qed.
End Converse.

(* ------------------------------------------------------------------ the generated table *)
Require Import Blots.gen.PrecTable Blots.proofs.PrattTable.

Definition RendSpec : nat -> list item -> expr -> Prop :=
  Rend impl_table infix_map prefix_map spec_bprec spec_rassoc spec_Ppre.

Lemma impl_T_infix : forall r a p, ops_get impl_table r = Some (Infix a, p) ->
  forall o, assoc_find r infix_map = Some o ->
  a = (if spec_rassoc o then ARight else ALeft) /\ p = spec_bprec o.
Proof.
  intros r a p H o Ho. destruct r; vm_compute in H, Ho; try discriminate;
    inversion H; inversion Ho; subst; vm_compute; split; reflexivity.
Qed.
Lemma impl_T_prefix : forall r p, ops_get impl_table r = Some (Prefix, p) -> p = spec_Ppre.
Proof. intros r p H. destruct r; vm_compute in H; try discriminate; inversion H; reflexivity. Qed.
Lemma impl_T_postfix : forall r p, ops_get impl_table r = Some (Postfix, p) -> p = spec_Pfact \/ p = spec_Ppost.
Proof.
  intros r p H. destruct r; vm_compute in H; try discriminate; inversion H;
    [left | right | right | right]; reflexivity.
Qed.
Lemma impl_level_assoc : forall o1 o2, spec_bprec o1 = spec_bprec o2 -> spec_rassoc o1 = spec_rassoc o2.
Proof. destruct o1, o2; vm_compute; intro H; try reflexivity; discriminate H. Qed.

(* with the generated table nothing can be left over: every operator has binding power > 0 *)
Lemma impl_lbp_le_0 : forall rest, lbp_le impl_table rest 0 -> rest = [].
Proof.
  intros [|i rest] (b & Hb & Hle); [reflexivity|]. exfalso.
  unfold lbp in Hb. destruct (item_op i) as [r|]; [|discriminate].
  destruct r; vm_compute in Hb; inversion Hb; subst; lia.
Qed.

(* Soundness of the crate's parser with respect to the specification table, for EVERY token stream:
   if the conversion of `its` yields t then `its` renders t with at least the parentheses the
   specification table requires. *)
Theorem parse_sound_impl : forall its t,
  Items impl_table infix_map prefix_map its t -> RendSpec 1 its t.
Proof.
  intros its t H.
  destruct (items_sound_op impl_table infix_map prefix_map spec_bprec spec_rassoc
              spec_Ppre spec_Pfact spec_Ppost impl_T_infix impl_T_prefix impl_T_postfix) with (its := its) (t := t)
    as (cons & rest & Hi & HR & Hl); try exact H.
  - intro o. unfold spec_bprec, pest_scale. lia.
  - destruct o; vm_compute; repeat constructor.
  - vm_compute. repeat constructor.
  - vm_compute. repeat constructor.
  - exact impl_level_assoc.
  - vm_compute. repeat constructor.
  - apply impl_lbp_le_0 in Hl. subst rest. rewrite app_nil_r in Hi. subst cons.
    exact HR.
Qed.
