(* DisplayNumText.v — C20: post-processing of the library's digit strings.
   Every text of shape  -? d+ (. d+)?  is [mk_plain neg ip ofp]; trimming and separator
   insertion are computed on that form, and shown to keep the shape and the value. *)
From Coq Require Import ZArith Bool String Ascii List Lia QArith.
Require Import Blots.Num Blots.Outcome Blots.DisplayNum.
Require Import Blots.proofs.DisplayNumGroup Blots.proofs.DisplayNumSpec.
Import ListNotations.
Open Scope char_scope.
Open Scope Z_scope.

Definition sign_text (neg : bool) : text := if neg then ["-"] else [].
Definition frac_text (ofp : option text) : text :=
  match ofp with Some fp => "." :: fp | None => [] end.
Definition mk_plain (neg : bool) (ip : text) (ofp : option text) : text :=
  sign_text neg ++ ip ++ frac_text ofp.
Definition ok_frac (ofp : option text) : bool :=
  match ofp with Some fp => all_digits fp | None => true end.

Lemma all_digits_cons : forall l, all_digits l = true ->
  exists a r, l = a :: r /\ is_digit a = true /\ forallb is_digit r = true.
Proof.
  intros [|a r] H; [discriminate|]. unfold all_digits in H. cbn in H.
  apply andb_true_iff in H. destruct H. now exists a, r.
Qed.
Lemma all_digits_forallb : forall l, all_digits l = true -> forallb is_digit l = true.
Proof. intros l H. unfold all_digits in H. now apply andb_true_iff in H. Qed.
Lemma all_digits_nonempty : forall l, all_digits l = true -> l <> [].
Proof. intros [|] H; [discriminate|congruence]. Qed.
Lemma all_digits_intro : forall l, l <> [] -> forallb is_digit l = true -> all_digits l = true.
Proof. intros [|a r] H1 H2; [congruence|]. unfold all_digits. now rewrite H2. Qed.

Lemma digits_no : forall c l, is_digit c = false -> all_digits l = true -> contains c l = false.
Proof. intros. apply forallb_digit_contains; auto. now apply all_digits_forallb. Qed.

Lemma starts_with_digits : forall c l, is_digit c = false -> all_digits l = true -> starts_with c l = false.
Proof.
  intros c l Hc H. destruct (all_digits_cons l H) as (a & r & -> & Ha & _).
  cbn. now apply is_digit_not.
Qed.

(* ---------- decomposition of shaped text ---------- *)
Lemma starts_with_mk_plain : forall neg ip ofp,
  all_digits ip = true -> starts_with "-" (mk_plain neg ip ofp) = neg.
Proof.
  intros [|] ip ofp H; [reflexivity|]. unfold mk_plain, sign_text. cbn [app].
  destruct (all_digits_cons ip H) as (a & r & -> & Ha & _). cbn. now apply is_digit_not.
Qed.

Lemma strip_sign_mk_plain : forall neg ip ofp,
  all_digits ip = true -> strip_sign (mk_plain neg ip ofp) = mk_plain false ip ofp.
Proof.
  intros neg ip ofp H. unfold strip_sign. rewrite starts_with_mk_plain by assumption.
  destruct neg; reflexivity.
Qed.

Lemma break_at_mk_plain : forall ip ofp,
  all_digits ip = true ->
  break_at "." (mk_plain false ip ofp) = (ip, match ofp with Some fp => Some ("." :: fp) | None => None end).
Proof.
  intros ip ofp H. unfold mk_plain, sign_text. cbn [app].
  assert (Hc : contains "." ip = false) by (apply digits_no; auto).
  destruct ofp as [fp|]; cbn [frac_text].
  - now apply break_at_app.
  - rewrite app_nil_r. now apply break_at_none.
Qed.

Lemma plain_shape_mk_plain : forall neg ip ofp,
  all_digits ip = true -> ok_frac ofp = true -> plain_shape (mk_plain neg ip ofp) = true.
Proof.
  intros. unfold plain_shape. rewrite strip_sign_mk_plain by assumption.
  unfold wf_plain_body. rewrite break_at_mk_plain by assumption. rewrite H.
  destruct ofp; cbn; auto.
Qed.

Lemma wf_plain_body_inv : forall b, wf_plain_body b = true ->
  exists ip ofp, b = mk_plain false ip ofp /\ all_digits ip = true /\ ok_frac ofp = true.
Proof.
  intros b H. unfold wf_plain_body in H. pose proof (break_at_spec "." b) as S.
  destruct (break_at "." b) as [ip [d|]].
  - destruct S as (-> & _ & r & ->). apply andb_true_iff in H. destruct H as [Hi Hf].
    cbn [wf_fraction] in Hf. exists ip, (Some r). repeat split; auto.
  - destruct S as (-> & _). apply andb_true_iff in H. destruct H as [Hi _].
    exists ip, None. unfold mk_plain. cbn. rewrite app_nil_r. auto.
Qed.

Lemma plain_shape_inv : forall s, plain_shape s = true ->
  exists neg ip ofp, s = mk_plain neg ip ofp /\ all_digits ip = true /\ ok_frac ofp = true.
Proof.
  intros s H. unfold plain_shape, strip_sign in H.
  destruct (starts_with "-" s) eqn:E.
  - destruct (wf_plain_body_inv _ H) as (ip & ofp & Hb & Hi & Hf).
    exists true, ip, ofp. repeat split; auto.
    destruct s as [|a r]; [discriminate|]. cbn in E. apply Ascii.eqb_eq in E. subst a.
    cbn [tl] in Hb. rewrite Hb. reflexivity.
  - destruct (wf_plain_body_inv _ H) as (ip & ofp & Hb & Hi & Hf). now exists false, ip, ofp.
Qed.

Lemma prec_shape_inv : forall n s, prec_shape n s = true ->
  exists neg ip ofp, s = mk_plain neg ip ofp /\ all_digits ip = true /\ ok_frac ofp = true /\
    (0 < n -> exists fp, ofp = Some fp /\ Z.of_nat (length fp) = n) /\ (n = 0 -> ofp = None).
Proof.
  intros n s H.
  assert (P : plain_shape s = true /\
              match break_at "." (strip_sign s) with
              | (_, None) => n = 0
              | (_, Some (_ :: fp)) => 0 < n /\ Z.of_nat (length fp) = n
              | _ => False end).
  { unfold prec_shape, prec_body_shape in H. unfold plain_shape, wf_plain_body.
    destruct (break_at "." (strip_sign s)) as [ip [[|c fp]|]].
    - now rewrite andb_false_r in H.
    - apply andb_true_iff in H. destruct H as [Hi H]. apply andb_true_iff in H. destruct H as [H Hl].
      apply andb_true_iff in H. destruct H as [Hn Hf]. rewrite Hi. cbn [wf_fraction]. rewrite Hf.
      split; [reflexivity|]. split; lia.
    - apply andb_true_iff in H. destruct H as [Hi Hn]. rewrite Hi. split; [reflexivity|]. lia. }
  destruct P as [P Q]. destruct (plain_shape_inv s P) as (neg & ip & ofp & -> & Hi & Hf).
  rewrite strip_sign_mk_plain, break_at_mk_plain in Q by assumption.
  exists neg, ip, ofp. repeat split; auto.
  - intros Hn. destruct ofp as [fp|]; [|lia]. exists fp. split; [reflexivity|tauto].
  - intros Hn. destruct ofp as [fp|]; [lia|reflexivity].
Qed.

(* ---------- value of shaped text ---------- *)
Lemma denote_plain_mk_plain : forall neg ip ofp,
  all_digits ip = true ->
  denote_plain (mk_plain neg ip ofp) =
  (let v := dec_value ip (match ofp with Some fp => fp | None => [] end) in if neg then - v else v)%Q.
Proof.
  intros neg ip ofp H. unfold denote_plain. rewrite starts_with_mk_plain by assumption.
  assert (E : denote_body (mk_plain false ip ofp) = dec_value ip (match ofp with Some fp => fp | None => [] end)).
  { unfold denote_body. rewrite break_at_mk_plain by assumption. destruct ofp; reflexivity. }
  destruct neg; cbn zeta; [|exact E].
  change (tl (mk_plain true ip ofp)) with (mk_plain false ip ofp). now rewrite E.
Qed.

(* ---------- trimming ---------- *)
Definition trim_ofp (ofp : option text) : option text :=
  match ofp with
  | Some fp => match trim_end "0" fp with [] => None | fp' => Some fp' end
  | None => None
  end.

Lemma ends_with_app_last : forall c l x, ends_with c (l ++ [x]) = Ascii.eqb x c.
Proof. intros. unfold ends_with. rewrite rev_app_distr. reflexivity. Qed.

Lemma all_digits_last_not : forall c l, is_digit c = false -> all_digits l = true -> ends_with c l = false.
Proof.
  intros c l Hc H. destruct (@exists_last _ l (all_digits_nonempty l H)) as (l' & x & ->).
  rewrite ends_with_app_last. apply is_digit_not; auto.
  apply all_digits_forallb in H. rewrite forallb_app in H. apply andb_true_iff in H.
  destruct H as [_ H]. cbn in H. now rewrite andb_true_r in H.
Qed.

Lemma sign_ip_no_trailing : forall c neg ip, is_digit c = false -> all_digits ip = true ->
  starts_with c (rev (sign_text neg ++ ip)) = false.
Proof.
  intros c neg ip Hc H. rewrite rev_app_distr.
  pose proof (all_digits_last_not c ip Hc H) as E. unfold ends_with in E.
  destruct (rev ip) as [|y t] eqn:Er.
  - apply (f_equal (@length _)) in Er. rewrite rev_length in Er.
    destruct ip; [discriminate H|discriminate Er].
  - exact E.
Qed.

(* the two trimming steps on a text with a fraction *)
Lemma trim_zeros_mk_plain : forall neg ip fp,
  trim_end "0" (mk_plain neg ip (Some fp)) = sign_text neg ++ ip ++ "." :: trim_end "0" fp.
Proof.
  intros. unfold mk_plain. cbn [frac_text]. rewrite !app_assoc.
  rewrite trim_end_app_ne by reflexivity. reflexivity.
Qed.

Lemma trim_both_mk_plain : forall neg ip fp,
  all_digits ip = true -> all_digits fp = true ->
  trim_end "." (trim_end "0" (mk_plain neg ip (Some fp))) = mk_plain neg ip (trim_ofp (Some fp)) /\
  ends_with "." (trim_end "0" (mk_plain neg ip (Some fp))) = is_nil (trim_end "0" fp).
Proof.
  intros neg ip fp Hi Hf. rewrite trim_zeros_mk_plain. cbn [trim_ofp].
  pose proof (forallb_trim_end "0" fp (all_digits_forallb fp Hf)) as Hd.
  destruct (trim_end "0" fp) as [|x r] eqn:E.
  - (* the fraction was all zeros: the '.' goes too *)
    split.
    + replace (sign_text neg ++ ip ++ ["."]) with ((sign_text neg ++ ip) ++ ["."]) by now rewrite app_assoc.
      assert (T : trim_end "." ((sign_text neg ++ ip) ++ ["."]) = trim_end "." (sign_text neg ++ ip)).
      { generalize (sign_text neg ++ ip). intros l. induction l as [|a l IH]; [reflexivity|].
        cbn [app trim_end]. now rewrite IH. }
      rewrite T. rewrite trim_end_id by (apply sign_ip_no_trailing; auto).
      unfold mk_plain. cbn [frac_text]. now rewrite app_nil_r.
    + replace (sign_text neg ++ ip ++ ["."]) with ((sign_text neg ++ ip) ++ ["."]) by now rewrite app_assoc.
      rewrite ends_with_app_last. reflexivity.
  - (* a non-zero digit remains last *)
    assert (Hl : starts_with "." (rev (sign_text neg ++ ip ++ "." :: x :: r)) = false).
    { replace (sign_text neg ++ ip ++ "." :: x :: r) with ((sign_text neg ++ ip ++ ["."]) ++ (x :: r))
        by (rewrite <- !app_assoc; reflexivity).
      rewrite rev_app_distr.
      assert (A : all_digits (x :: r) = true) by (apply all_digits_intro; [congruence|exact Hd]).
      pose proof (all_digits_last_not "." (x :: r) eq_refl A) as EE. unfold ends_with in EE.
      destruct (rev (x :: r)) as [|y t] eqn:Er.
      - apply (f_equal (@length _)) in Er. rewrite rev_length in Er. discriminate.
      - exact EE. }
    split.
    + rewrite trim_end_id by exact Hl. reflexivity.
    + unfold ends_with. rewrite Hl. reflexivity.
Qed.

Lemma contains_dot_mk_plain : forall neg ip ofp,
  all_digits ip = true -> contains "." (mk_plain neg ip ofp) = match ofp with Some _ => true | None => false end.
Proof.
  intros neg ip ofp H. unfold mk_plain. rewrite !contains_app.
  rewrite (digits_no "." ip eq_refl H).
  destruct neg, ofp; cbn; rewrite ?orb_true_r; reflexivity.
Qed.

Lemma trim_fraction_mk_plain : forall neg ip ofp,
  all_digits ip = true -> ok_frac ofp = true ->
  trim_fraction (mk_plain neg ip ofp) = mk_plain neg ip (trim_ofp ofp).
Proof.
  intros neg ip ofp Hi Hf. unfold trim_fraction. rewrite contains_dot_mk_plain by assumption.
  destruct ofp as [fp|]; [|reflexivity].
  destruct (trim_both_mk_plain neg ip fp Hi Hf) as [T E]. rewrite E.
  destruct (is_nil (trim_end "0" fp)) eqn:N.
  - exact T.
  - rewrite trim_zeros_mk_plain. cbn [trim_ofp]. destruct (trim_end "0" fp); [discriminate|reflexivity].
Qed.

(* format_mantissa's two trims (no '.'-guard in the code: needs a fraction to be present) *)
Lemma trim_mantissa_mk_plain : forall neg ip fp,
  all_digits ip = true -> all_digits fp = true ->
  trim_end "." (trim_end "0" (mk_plain neg ip (Some fp))) = mk_plain neg ip (trim_ofp (Some fp)).
Proof. intros. now apply trim_both_mk_plain. Qed.

Lemma ok_frac_trim : forall ofp, ok_frac ofp = true -> ok_frac (trim_ofp ofp) = true.
Proof.
  intros [fp|] H; [|reflexivity]. cbn [trim_ofp ok_frac] in *.
  pose proof (forallb_trim_end "0" fp (all_digits_forallb fp H)) as Hd.
  destruct (trim_end "0" fp) as [|x r] eqn:E; [reflexivity|].
  cbn [ok_frac]. apply all_digits_intro; [congruence|exact Hd].
Qed.

(* trimming changes no value *)
Lemma trim_ofp_value : forall ip ofp,
  (dec_value ip (match trim_ofp ofp with Some fp => fp | None => [] end) ==
   dec_value ip (match ofp with Some fp => fp | None => [] end))%Q.
Proof.
  intros ip [fp|]; [|reflexivity]. cbn [trim_ofp].
  destruct (trim_end_spec "0" fp) as [k Hk].
  destruct (trim_end "0" fp) as [|x r] eqn:E.
  - rewrite Hk at 1. cbn [app]. symmetry. apply (dec_value_trailing_zeros ip [] k).
  - rewrite Hk. symmetry. apply dec_value_trailing_zeros.
Qed.

Theorem trim_fraction_preserves_value : forall s,
  plain_shape s = true ->
  plain_shape (trim_fraction s) = true /\ (denote_plain (trim_fraction s) == denote_plain s)%Q.
Proof.
  intros s H. destruct (plain_shape_inv s H) as (neg & ip & ofp & -> & Hi & Hf).
  rewrite trim_fraction_mk_plain by assumption. split.
  - apply plain_shape_mk_plain; auto. now apply ok_frac_trim.
  - rewrite !denote_plain_mk_plain by assumption. cbn zeta.
    pose proof (trim_ofp_value ip ofp) as V. destruct neg; rewrite V; reflexivity.
Qed.

(* ---------- separators ---------- *)
Lemma group3_head : forall a s, exists r, group3 (a :: s) = a :: r.
Proof. intros. rewrite group3_cons. destruct (sep_here (length s)); eauto. Qed.

Lemma add_thousand_separators_mk_plain : forall neg ip ofp,
  all_digits ip = true ->
  add_thousand_separators (mk_plain neg ip ofp) = sign_text neg ++ group3 ip ++ frac_text ofp.
Proof.
  intros neg ip ofp H. unfold add_thousand_separators.
  rewrite starts_with_mk_plain by assumption.
  assert (E : (if neg then tl (mk_plain neg ip ofp) else mk_plain neg ip ofp) = mk_plain false ip ofp)
    by (destruct neg; reflexivity).
  rewrite E, break_at_mk_plain by assumption.
  destruct neg, ofp; cbn [sign_text frac_text app]; rewrite ?app_nil_r; reflexivity.
Qed.

Lemma group3_digits_head : forall ip, all_digits ip = true -> starts_with "-" (group3 ip ++ []) = false.
Proof.
  intros ip H. destruct (all_digits_cons ip H) as (a & r & -> & Ha & _).
  destruct (group3_head a r) as (r' & ->). cbn. now apply is_digit_not.
Qed.

Lemma strip_sign_grouped : forall neg ip rest,
  all_digits ip = true -> strip_sign (sign_text neg ++ group3 ip ++ rest) = group3 ip ++ rest.
Proof.
  intros neg ip rest H. unfold strip_sign.
  destruct (all_digits_cons ip H) as (a & r & -> & Ha & _).
  destruct (group3_head a r) as (r' & E). rewrite E.
  destruct neg; cbn; [reflexivity|]. now rewrite (is_digit_not a "-" Ha eq_refl).
Qed.

Lemma break_at_grouped : forall ip ofp,
  all_digits ip = true ->
  break_at "." (group3 ip ++ frac_text ofp) =
  (group3 ip, match ofp with Some fp => Some ("." :: fp) | None => None end).
Proof.
  intros ip ofp H.
  assert (Hc : contains "." (group3 ip) = false).
  { rewrite group3_contains by reflexivity. now apply digits_no. }
  destruct ofp as [fp|]; cbn [frac_text].
  - now apply break_at_app.
  - rewrite app_nil_r. now apply break_at_none.
Qed.

Lemma wf_standard_grouped : forall ip ofp,
  all_digits ip = true -> ok_frac ofp = true -> wf_standard_body (group3 ip ++ frac_text ofp) = true.
Proof.
  intros ip ofp Hi Hf. unfold wf_standard_body. rewrite break_at_grouped by assumption.
  rewrite group3_wellformed; [|now apply all_digits_nonempty|now apply all_digits_forallb].
  destruct ofp; cbn; auto.
Qed.

Lemma wf_numeral_of_standard : forall t, wf_standard_body (strip_sign t) = true -> wf_numeral t = true.
Proof. intros t H. unfold wf_numeral. rewrite H. now rewrite !orb_true_r. Qed.
Lemma wf_numeral_of_sci : forall t, wf_sci_body (strip_sign t) = true -> wf_numeral t = true.
Proof. intros t H. unfold wf_numeral. rewrite H. now rewrite !orb_true_r. Qed.

Lemma ungroup_app : forall a b, ungroup (a ++ b) = ungroup a ++ ungroup b.
Proof. intros. unfold ungroup. apply filter_app. Qed.

Lemma ungroup_id : forall l, contains "," l = false -> ungroup l = l.
Proof.
  induction l as [|a l IH]; intros H; [reflexivity|].
  cbn [contains] in H. apply orb_false_iff in H. destruct H as [Ha Hl].
  unfold ungroup in *. cbn [filter]. rewrite Ha. cbn [negb]. now rewrite IH.
Qed.

Lemma ungroup_separated : forall neg ip ofp,
  all_digits ip = true -> ok_frac ofp = true ->
  ungroup (sign_text neg ++ group3 ip ++ frac_text ofp) = mk_plain neg ip ofp.
Proof.
  intros neg ip ofp Hi Hf. rewrite !ungroup_app.
  rewrite ungroup_group3 by (apply digits_no; auto).
  rewrite (ungroup_id (sign_text neg)) by (destruct neg; reflexivity).
  rewrite (ungroup_id (frac_text ofp)); [reflexivity|].
  destruct ofp as [fp|]; [|reflexivity]. cbn [frac_text contains ok_frac] in *.
  change (Ascii.eqb "." ",") with false. cbn [orb]. now apply digits_no.
Qed.

Lemma contains_e_separated : forall neg ip ofp,
  all_digits ip = true -> ok_frac ofp = true ->
  contains "e" (sign_text neg ++ group3 ip ++ frac_text ofp) = false.
Proof.
  intros neg ip ofp Hi Hf. rewrite !contains_app.
  rewrite group3_contains by reflexivity. rewrite (digits_no "e" ip eq_refl Hi).
  destruct neg, ofp as [fp|]; cbn [sign_text frac_text contains ok_frac orb] in *;
    try change (Ascii.eqb "-" "e") with false; try change (Ascii.eqb "." "e") with false; cbn [orb];
    try reflexivity; now apply digits_no.
Qed.

(* separators: well-formed standard numeral, same value *)
Theorem separators_preserve_value : forall s,
  plain_shape s = true ->
  wf_numeral (add_thousand_separators s) = true /\
  (denote (add_thousand_separators s) == denote_plain s)%Q.
Proof.
  intros s H. destruct (plain_shape_inv s H) as (neg & ip & ofp & -> & Hi & Hf).
  rewrite add_thousand_separators_mk_plain by assumption. split.
  - apply wf_numeral_of_standard. rewrite strip_sign_grouped by assumption.
    now apply wf_standard_grouped.
  - unfold denote. rewrite contains_e_separated by assumption.
    unfold denote_std. rewrite ungroup_separated by assumption. reflexivity.
Qed.
