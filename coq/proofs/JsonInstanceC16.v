(* JsonInstanceC16.v — the reader of the C06 instance (JsonExact.rn_float_of_tok, on tokens) IS the
   float_roundtrip configuration of C16's line-by-line transcription of serde_json's number parser
   (NumText.serde_number true, on text): for every well-formed float token t whose exponent fits
   an i32,   serde_number true (render_tok t) = rn_float_of_tok t   (Ok / Err for Some / None).
   So the hypothesis-free text theorems of proofs/JsonInstance.v speak about the same function that
   C16's NUMTEXT stream compares with the real parser.  Bookkeeping between the two digit
   representations (list Z / string), on top of NumTextJson.serde_exact_reads_dec_text. *)
From Coq Require Import String Ascii List ZArith Bool Lia Reals Floats.SpecFloat.
Require Import ZifyBool.
From Flocq Require Import Core.Core.
Require Import Blots.Num Blots.Outcome Blots.NumText Blots.Json Blots.JsonText Blots.JsonExact.
Require Import Blots.proofs.NumText Blots.proofs.NumTextStr Blots.proofs.NumTextFloat Blots.proofs.NumTextRef
  Blots.proofs.NumTextJson.
Require Import Blots.proofs.JsonTextRT Blots.proofs.JsonNumsOk.
Import ListNotations.
Open Scope Z_scope.

Notation jstr := JsonText.digits_str.

Lemma digit_char_facts d : digit_ok d = true ->
  NumText.is_digit (digit_char d) = true /\ digit_val (digit_char d) = d /\
  (d <> 0 -> digit_char d <> "0"%char) /\ (d = 0 -> digit_char d = "0"%char).
Proof.
  intros H. destruct (digit_cases d H) as [->|[->|[->|[->|[->|[->|[->|[->|[->| ->]]]]]]]]];
    repeat split; try reflexivity; try (intros; discriminate); try (intros E; now contradiction E); lia.
Qed.

Lemma jstr_all_digits l : digits_ok l = true -> all_digits (jstr l) = true.
Proof.
  induction l as [|d l IH]; intros H; [reflexivity|]. cbn in H. apply andb_prop in H as [Hd Hl].
  cbn [JsonText.digits_str all_digits]. rewrite (proj1 (digit_char_facts d Hd)). now apply IH.
Qed.
Lemma jstr_val l : forall acc, digits_ok l = true -> NumText.digits_val (jstr l) acc = JsonText.digits_val acc l.
Proof.
  induction l as [|d l IH]; intros acc H; [reflexivity|]. cbn in H. apply andb_prop in H as [Hd Hl].
  cbn [JsonText.digits_str NumText.digits_val JsonText.digits_val].
  destruct (digit_char_facts d Hd) as (_ & -> & _). now apply IH.
Qed.
Lemma jstr_len l : slen (jstr l) = Z.of_nat (List.length l).
Proof. unfold slen. f_equal. induction l as [|d l IH]; cbn; [reflexivity|now rewrite IH]. Qed.
Lemma jstr_app a b : jstr (a ++ b) = (jstr a ++ jstr b)%string.
Proof. induction a as [|d a IH]; cbn; [reflexivity|now rewrite IH]. Qed.
Lemma jstr_nonempty l : l <> [] -> jstr l <> ""%string.
Proof. destruct l; [congruence|discriminate]. Qed.
Lemma digits_ok_app a b : digits_ok (a ++ b) = digits_ok a && digits_ok b.
Proof. unfold digits_ok. apply forallb_app. Qed.

Lemma jstr_json_int ip :
  digits_ok ip = true ->
  match ip with [] => false | [_] => true | d0 :: _ => negb (d0 =? 0) end = true ->
  json_int (jstr ip).
Proof.
  intros Hok Hh. split; [now apply jstr_all_digits|]. destruct ip as [|d0 more]; [discriminate|].
  split; [discriminate|]. cbn in Hok. apply andb_prop in Hok as [Hd _].
  destruct (digit_char_facts d0 Hd) as (_ & _ & Hnz & Hz).
  destruct more as [|d1 more].
  - destruct (Z.eq_dec d0 0) as [E|E]; [left; cbn; now rewrite (Hz E)|right; cbn; now apply Hnz].
  - right. cbn. apply Hnz. lia.
Qed.

(* the reference never returns NaN on a non-negative mantissa *)
Lemma rn_decimal_not_nan m e : 0 <= m -> is_inf (rn_decimal false m e) = negb (is_finite (rn_decimal false m e)).
Proof.
  intros Hm. destruct m as [|p|p]; [reflexivity| |lia].
  destruct (rn_decimal_correct false p e) as [_ H]. cbv zeta in H.
  match type of H with context [Rlt_bool ?a ?b] => destruct (Rlt_bool a b) end.
  - destruct H as (_ & HF & _). destruct (rn_decimal false (Z.pos p) e); try discriminate; reflexivity.
  - now rewrite H.
Qed.

Definition tok_exp_small (t : numtok) : Prop :=
  match t_exp t with Some (_, ds) => JsonText.digits_val 0 ds <= I32_MAXZ | None => True end.

Theorem serde_number_is_rn_float_of_tok : forall t,
  tok_wf t = true -> tok_is_float t = true -> tok_exp_small t ->
  serde_number true (render_tok t) = match rn_float_of_tok t with Some x => Ok x | None => Err end.
Proof.
  intros [neg ip fp ep] Hwf Hfl Hsmall. unfold tok_wf in Hwf. cbn [t_int t_frac t_exp] in Hwf.
  apply andb_prop in Hwf as [Hwf Hep]. apply andb_prop in Hwf as [Hwf Hfp]. apply andb_prop in Hwf as [Hip Hlead].
  set (fl := match fp with Some f => f | None => [] end).
  assert (Hfl_ok : digits_ok fl = true).
  { unfold fl. destruct fp as [f|]; [now apply andb_prop in Hfp as [? _]|reflexivity]. }
  set (ex := match ep with
             | Some (s, e) => Some (false, (if s then EMinus else ENone), jstr e)
             | None => None
             end : option (bool * esign * string)).
  assert (Htext : render_tok (NumTok neg ip fp ep) = (sign_str neg ++ dec_text (jstr ip) (jstr fl) ex)%string).
  { unfold render_tok, dec_text, sign_str. cbn [t_neg t_int t_frac t_exp]. f_equal. f_equal. f_equal.
    - unfold fl, frac_text. destruct fp as [f|]; [|reflexivity].
      apply andb_prop in Hfp as [_ Hne]. destruct f; [discriminate|reflexivity].
    - unfold ex. destruct ep as [[s e]|]; [|reflexivity]. destruct s; reflexivity. }
  rewrite Htext.
  rewrite serde_exact_reads_dec_text.
  - unfold exact_result, rn_float_of_tok, tok_mantissa, tok_exp10, tok_frac_digits. cbn [t_neg t_int t_frac t_exp].
    fold fl. cbv zeta.
    assert (HM : NumText.digits_val (jstr ip ++ jstr fl) 0 = JsonText.digits_val 0 (ip ++ fl)).
    { rewrite <- jstr_app. apply jstr_val. now rewrite digits_ok_app, Hip, Hfl_ok. }
    assert (HE : exp_val ex - slen (jstr fl)
                 = match ep with
                   | Some (neg0, ds) => if neg0 then - JsonText.digits_val 0 ds else JsonText.digits_val 0 ds
                   | None => 0
                   end - Z.of_nat (List.length fl)).
    { rewrite jstr_len. f_equal. unfold ex. destruct ep as [[s e]|]; [|reflexivity].
      apply andb_prop in Hep as [He _]. destruct s; cbn [exp_val]; now rewrite jstr_val. }
    rewrite HM, HE.
    assert (Hnn : 0 <= JsonText.digits_val 0 (ip ++ fl)).
    { apply digits_val_nonneg'; [now rewrite digits_ok_app, Hip, Hfl_ok|lia]. }
    rewrite (rn_decimal_not_nan _ _ Hnn).
    now destruct (is_finite (rn_decimal false (JsonText.digits_val 0 (ip ++ fl)) _)).
  - now apply jstr_json_int.
  - now apply jstr_all_digits.
  - unfold ex. destruct ep as [[s e]|]; [|exact I]. apply andb_prop in Hep as [He Hne]. split.
    + now apply jstr_all_digits.
    + apply jstr_nonempty. destruct e; [discriminate|discriminate].
  - unfold ex. unfold tok_exp_small in Hsmall. cbn [t_exp] in Hsmall. destruct ep as [[s e]|]; [|exact I].
    apply andb_prop in Hep as [He _]. now rewrite jstr_val.
  - unfold tok_is_float in Hfl. cbn [t_frac t_exp] in Hfl. unfold fl, ex.
    destruct fp as [f|].
    + left. apply jstr_nonempty. apply andb_prop in Hfp as [_ Hne]. destruct f; [discriminate|discriminate].
    + destruct ep as [[s e]|]; [right; discriminate|discriminate].
Qed.
