(* Broadcast.v — property C11: the transcription [eval_binop] (Binop.v) refines the spec
   [scalar_op] / the broadcasting law [broadcast_spec] (BinopSpec.v).  All theorems are
   unbounded: every operator, all lists of any length, any element values, any state, any
   call / fn_accepts2 / powf oracle. *)
From Coq Require Import String Ascii List ZArith Bool Lia Floats.SpecFloat.
Require Import Blots.Num Blots.gen.Builtins Blots.Ast Blots.Value Blots.Outcome Blots.Binop Blots.BinopSpec.
Require Import Blots.proofs.ValueInd Blots.proofs.Order Blots.proofs.C11ExprSym.
Import ListNotations.
Local Open Scope list_scope.

(* ------------------------------------------------------------------ mapM / mapM2 *)
Lemma mapM_ext {A B} (f g : A -> outcome B) l :
  (forall x, In x l -> f x = g x) -> mapM f l = mapM g l.
Proof.
  induction l as [|x l IH]; cbn; intros H; [reflexivity|].
  rewrite (H x (or_introl eq_refl)). rewrite IH; [reflexivity|]. intros; apply H; now right.
Qed.

Lemma mapM_combine {A B C} (f : A -> B -> outcome C) l m :
  mapM (fun lr => f (fst lr) (snd lr)) (combine l m) = mapM2 f l m.
Proof.
  revert m; induction l as [|x l IH]; intros [|y m]; cbn; try reflexivity. now rewrite IH.
Qed.

(* `for idx in 0..list.len() { let item = list[idx]; ... }` is iteration over the list *)
Lemma mapM_index_seq_gen {B} (f : value -> outcome B) l : forall pre,
  mapM (fun idx => do item <- index (pre ++ l) idx; f item) (seq (length pre) (length l)) = mapM f l.
Proof.
  induction l as [|x l IH]; intros pre; cbn [length seq mapM]; [reflexivity|].
  unfold index at 1. rewrite nth_error_app2 by lia. rewrite Nat.sub_diag. cbn [nth_error obind].
  specialize (IH (pre ++ [x])). rewrite <- app_assoc in IH. cbn [app] in IH.
  rewrite app_length in IH. cbn [length] in IH. rewrite Nat.add_1_r in IH. now rewrite IH.
Qed.
Lemma mapM_index_seq {B} (f : value -> outcome B) l :
  mapM (fun idx => do item <- index l idx; f item) (seq 0 (length l)) = mapM f l.
Proof. exact (mapM_index_seq_gen f l []). Qed.

Lemma mapM2_index_seq_gen {B} (f : value -> value -> outcome B) l : forall m pl pm,
  length l = length m -> length pl = length pm ->
  mapM (fun idx => do a <- index (pl ++ l) idx; do b <- index (pm ++ m) idx; f a b)
       (seq (length pl) (length l)) = mapM2 f l m.
Proof.
  induction l as [|x l IH]; intros [|y m] pl pm Hl Hp; cbn [length seq mapM mapM2]; try discriminate;
    [reflexivity|].
  unfold index at 1 2. rewrite nth_error_app2 by lia. rewrite Nat.sub_diag.
  rewrite (nth_error_app2 pm) by lia. replace (length pl - length pm)%nat with 0%nat by lia. cbn [nth_error obind].
  specialize (IH m (pl ++ [x]) (pm ++ [y])). rewrite <- !app_assoc in IH. cbn [app] in IH.
  rewrite !app_length in IH. cbn [length] in IH. rewrite Nat.add_1_r in IH.
  rewrite IH; [reflexivity| now injection Hl | lia].
Qed.
Lemma mapM2_index_seq {B} (f : value -> value -> outcome B) l m :
  length l = length m ->
  mapM (fun idx => do a <- index l idx; do b <- index m idx; f a b) (seq 0 (length l)) = mapM2 f l m.
Proof. intros H. exact (mapM2_index_seq_gen f l m [] [] H eq_refl). Qed.

(* the specification of mapM: succeeds exactly when every element operation succeeds, with the
   element results in order; otherwise it is the outcome of the FIRST failing element *)
Lemma mapM_ok_iff {A B} (f : A -> outcome B) l ys :
  mapM f l = Ok ys <-> Forall2 (fun x y => f x = Ok y) l ys.
Proof.
  revert ys; induction l as [|x l IH]; intros ys; cbn.
  - split; intros H; [injection H as <-; constructor | inversion H; reflexivity].
  - split.
    + destruct (f x) eqn:E; cbn; try discriminate. destruct (mapM f l) eqn:E2; cbn; try discriminate.
      intros H; injection H as <-. constructor; [assumption|]. now apply IH.
    + intros H. inversion H as [|? y ? ys' Hx Hr]; subst. rewrite Hx. cbn.
      apply IH in Hr. rewrite Hr. reflexivity.
Qed.

Lemma mapM_is_ok {A B} (f : A -> outcome B) l :
  is_ok (mapM f l) = forallb (fun x => is_ok (f x)) l.
Proof.
  induction l as [|x l IH]; cbn; [reflexivity|].
  destruct (f x); cbn; try reflexivity. rewrite <- IH. now destruct (mapM f l).
Qed.

Lemma mapM_first_failure {A B} (f : A -> outcome B) pre x post ys :
  mapM f pre = Ok ys -> is_ok (f x) = false ->
  mapM f (pre ++ x :: post) = obind (f x) (fun _ => Ok []).
Proof.
  revert ys; induction pre as [|p pre IH]; intros ys; cbn.
  - intros _ Hx. destruct (f x); cbn in *; try reflexivity. discriminate.
  - destruct (f p); cbn; try discriminate. destruct (mapM f pre) eqn:E; cbn; try discriminate.
    intros _ Hx. rewrite (IH _ eq_refl Hx). now destruct (f x).
Qed.

Lemma mapM_length {A B} (f : A -> outcome B) l ys : mapM f l = Ok ys -> length ys = length l.
Proof. intros H. apply mapM_ok_iff in H. induction H; cbn; congruence. Qed.

Lemma mapM_nth {A B} (f : A -> outcome B) l ys i x :
  mapM f l = Ok ys -> nth_error l i = Some x -> exists y, nth_error ys i = Some y /\ f x = Ok y.
Proof.
  intros H. apply mapM_ok_iff in H. revert i. induction H as [|a b l ys Hab _ IH]; intros [|i]; cbn; try discriminate.
  - intros E; injection E as <-. eauto.
  - apply IH.
Qed.

Lemma mapM2_is_ok {A B C} (f : A -> B -> outcome C) l m :
  is_ok (mapM2 f l m) = forallb (fun p => is_ok (f (fst p) (snd p))) (combine l m).
Proof. rewrite <- mapM_combine. apply mapM_is_ok. Qed.

Lemma mapM2_nth {A B C} (f : A -> B -> outcome C) l m zs i x y :
  mapM2 f l m = Ok zs -> nth_error l i = Some x -> nth_error m i = Some y ->
  exists z, nth_error zs i = Some z /\ f x y = Ok z.
Proof.
  rewrite <- mapM_combine. intros H Hx Hy.
  assert (Hc : nth_error (combine l m) i = Some (x, y)).
  { clear H. revert m i Hx Hy. induction l as [|a l IH]; intros [|b m] [|i]; cbn; try discriminate.
    - intros E1 E2; injection E1 as <-; injection E2 as <-; reflexivity.
    - apply IH. }
  destruct (mapM_nth _ _ _ _ _ H Hc) as (z & Hz & Hf). eauto.
Qed.

Lemma mapM2_length {A B C} (f : A -> B -> outcome C) l m zs :
  length l = length m -> mapM2 f l m = Ok zs -> length zs = length l.
Proof.
  rewrite <- mapM_combine. intros Hl H. apply mapM_length in H. rewrite combine_length in H. lia.
Qed.

(* ------------------------------------------------------------------ numbers *)
Lemma nmul_comm x y : nmul x y = nmul y x.
Proof.
  unfold nmul, SFmul.
  destruct x as [sx|sx| |sx mx ex], y as [sy|sy| |sy my ey]; try reflexivity;
    try (now rewrite xorb_comm).
  now rewrite xorb_comm, Pos.mul_comm, Z.add_comm.
Qed.

(* ------------------------------------------------------------------ the Rust expression shapes = the spec clauses *)
Lemma num2_arith f a b : num2 f a b = arith f a b.
Proof. destruct a, b; reflexivity. Qed.
Lemma and_q_spec a b : and_q a b = logic_and a b.
Proof. destruct a as [| [|] | | | | | | |]; try reflexivity; destruct b; reflexivity. Qed.
Lemma or_q_spec a b : or_q a b = logic_or a b.
Proof. destruct a as [| [|] | | | | | | |]; try reflexivity; destruct b; reflexivity. Qed.
Lemma check_ord_ordered e a b :
  (do r <- check_ord (compare a b) e; Ok (VBool r)) = ordered e a b.
Proof. unfold check_ord, check_ordering, ordered. now destruct (compare a b). Qed.
Lemma coalesce_spec a b : (if is_null a then b else a) = match a with VNull => b | _ => a end.
Proof. now destruct a. Qed.

Section Broadcast.
  Variable St : Type.
  Variable call : value -> value -> list value -> St -> outcome value * St.
  Variable fn_accepts2 : value -> bool.
  Variable powf : num -> num -> num.

  Notation eval := (eval_binop St call fn_accepts2 powf).
  Notation sop := (scalar_op powf).

  Lemma add_match_spec a b : add_match a b = sop Add a b.
  Proof. destruct a, b; reflexivity. Qed.

  (* ---------------------------------------------------------------- P0 scalar arm = spec *)
  Theorem scalar_arm_is_spec op a b st :
    broadcasting op = true -> is_list a = false -> is_list b = false ->
    eval op a b st = (sop op a b, st).
  Proof.
    intros Hop Ha Hb.
    assert (E : eval op a b st = arm_scalar St call powf op a b st).
    { destruct op; try discriminate Hop; destruct a; try discriminate Ha; destruct b; try discriminate Hb;
        reflexivity. }
    rewrite E. clear E.
    destruct op; try discriminate Hop; unfold arm_scalar, lift; cbn [sop];
      rewrite ?check_ord_ordered, ?num2_arith, ?and_q_spec, ?or_q_spec, ?coalesce_spec; try reflexivity.
    (* Add: the scalar arm decides by the LEFT operand's type only *)
    destruct a; try discriminate Ha; destruct b; reflexivity.
  Qed.

  (* ---------------------------------------------------------------- P0 list ∘ scalar *)
  Theorem broadcast_list_scalar op l s st :
    broadcasting op = true -> is_list s = false ->
    eval op (VList l) s st = (omap VList (mapM (fun x => sop op x s) l), st).
  Proof.
    intros Hop Hs.
    assert (E : eval op (VList l) s st = arm_list_scalar St call fn_accepts2 powf op true l s st).
    { destruct op; try discriminate Hop; destruct s; try discriminate Hs; reflexivity. }
    rewrite E. clear E.
    destruct op; try discriminate Hop; unfold arm_list_scalar, lift; cbn [expected_of obind sop]; f_equal; f_equal;
      try (apply mapM_ext; intros x _;
           rewrite ?check_ord_ordered, ?num2_arith, ?and_q_spec, ?or_q_spec, ?coalesce_spec; reflexivity).
    (* Add: the index loop *)
    rewrite (mapM_index_seq (fun item => add_match item s)). apply mapM_ext; intros; apply add_match_spec.
  Qed.

  (* ---------------------------------------------------------------- P0 scalar ∘ list *)
  (* == and != : the arm computes v.equals(&scalar) although the scalar is the LEFT operand;
     this is the law only because Value::equals is symmetric on the values at hand *)
  Definition eq_sym_on (op : binop) (s : value) (l : list value) : Prop :=
    match op with
    | Equal | NotEqual => forall x, In x l -> equals x s = equals s x
    | _ => True
    end.

  Theorem broadcast_scalar_list op s l st :
    broadcasting op = true -> is_list s = false -> eq_sym_on op s l ->
    eval op s (VList l) st = (omap VList (mapM (fun x => sop op s x) l), st).
  Proof.
    intros Hop Hs Hsym.
    assert (E : eval op s (VList l) st = arm_list_scalar St call fn_accepts2 powf op false l s st).
    { destruct op; try discriminate Hop; destruct s; try discriminate Hs; reflexivity. }
    rewrite E. clear E.
    destruct op; try discriminate Hop; unfold arm_list_scalar, lift; cbn [expected_of obind sop]; f_equal; f_equal;
      try (apply mapM_ext; intros x Hx;
           rewrite ?check_ord_ordered, ?num2_arith, ?and_q_spec, ?or_q_spec; reflexivity).
    - (* Add *)
      rewrite (mapM_index_seq (fun item => add_match s item)). apply mapM_ext; intros; apply add_match_spec.
    - (* Multiply: v * scalar for scalar * v *)
      apply mapM_ext; intros x _. rewrite num2_arith. destruct x, s; try reflexivity. cbn. now rewrite nmul_comm.
    - (* Equal *) apply mapM_ext; intros x Hx. cbn in Hsym. now rewrite Hsym.
    - (* NotEqual *) apply mapM_ext; intros x Hx. cbn in Hsym. now rewrite Hsym.
    - (* Coalesce *) apply mapM_ext; intros x _. now destruct s.
  Qed.

  (* ---------------------------------------------------------------- P0 list ∘ list *)
  Theorem broadcast_list_list op l m st :
    broadcasting op = true -> length l = length m ->
    eval op (VList l) (VList m) st = (omap VList (mapM2 (sop op) l m), st).
  Proof.
    intros Hop Hlen.
    assert (E : eval op (VList l) (VList m) st = arm_list_list St call powf op l m st).
    { destruct op; try discriminate Hop; reflexivity. }
    rewrite E. clear E. unfold arm_list_list. rewrite Hlen, Nat.eqb_refl. cbn [negb]. rewrite <- Hlen.
    destruct op; try discriminate Hop; unfold lift; cbn [expected_of obind]; f_equal; f_equal;
      rewrite <- ?(mapM_combine (sop _));
      try (apply mapM_ext; intros [x y] _; cbn [fst snd sop];
           rewrite ?check_ord_ordered, ?num2_arith, ?and_q_spec, ?or_q_spec, ?coalesce_spec; reflexivity).
    (* Add: the index loop over both lists *)
    rewrite (mapM2_index_seq add_match l m Hlen). rewrite <- mapM_combine.
    apply mapM_ext; intros [x y] _. apply add_match_spec.
  Qed.

  Theorem broadcast_length_mismatch op l m st :
    broadcasting op = true -> length l <> length m ->
    eval op (VList l) (VList m) st = (Err, st).
  Proof.
    intros Hop Hlen.
    assert (E : eval op (VList l) (VList m) st = arm_list_list St call powf op l m st).
    { destruct op; try discriminate Hop; reflexivity. }
    rewrite E. unfold arm_list_list. apply Nat.eqb_neq in Hlen. rewrite Hlen. reflexivity.
  Qed.

  (* ---------------------------------------------------------------- P0 dot operators never broadcast *)
  Theorem dot_never_broadcasts op a b st :
    is_dot op = true -> eval op a b st = (sop op a b, st).
  Proof.
    intros Hop. destruct op; try discriminate Hop; cbn [eval_binop sop];
      rewrite ?check_ord_ordered; reflexivity.
  Qed.
End Broadcast.

(* ================================================================== symmetry of Value::equals
   on well-formed values: the IndexMap invariant (record keys unique) everywhere below; NaN is
   allowed, function values are allowed (their equality is equality of parameter lists and AST
   bodies, symmetric by C11ExprSym.expr_eqb_sym; captured scopes are not compared).  This discharges [eq_sym_on] (the list∘scalar arm computes v.equals(&scalar)
   whichever side the list is on). *)
Fixpoint wf_value (v : value) : bool :=
  match v with
  | VNum _ | VBool _ | VNull | VStr _ | VBuiltin _ => true
  | VList l => forallb wf_value l
  | VRec r => nodup_keys r && forallb (fun kv => wf_value (snd kv)) r
  | VLam _ _ _ _ => true
  | VSpread v => wf_value v
  end.

Lemma builtin_eqb_sym a b : builtin_eqb a b = builtin_eqb b a.
Proof. exact (builtin_eqb_sym' a b). Qed.

Lemma equals_sym_wf a : forall b, wf_value a = true -> wf_value b = true -> equals a b = equals b a.
Proof.
  induction a as [x|x| |s|l IH|r IH|id ar bd sc _|bi|v IHv] using value_ind';
    intros [y|y| |t|m|r2|id2 ar2 bd2 sc2|bi2|v2]; try reflexivity; try (cbn; discriminate).
  - intros _ _. cbn. unfold neqb, SFeqb. change SFcompare with ncmp. rewrite (ncmp_antisym x y).
    destruct (ncmp x y) as [[]|]; reflexivity.
  - intros _ _. cbn. now destruct x, y.
  - intros _ _. cbn. apply String.eqb_sym.
  - cbn [wf_value]. rewrite !equals_list. revert m.
    induction IH as [|x l Hx _ IHl]; intros [|y m]; cbn; try reflexivity.
    intros H1 H2. apply andb_prop in H1 as [H1a H1b]. apply andb_prop in H2 as [H2a H2b].
    rewrite (Hx y H1a H2a). destruct (equals y x); auto.
  - cbn [wf_value]. intros H1 H2. apply andb_prop in H1 as [Hnd1 Hd1]. apply andb_prop in H2 as [Hnd2 Hd2].
    apply nodup_keys_NoDup in Hnd1, Hnd2.
    rewrite !equals_rec. rewrite (Nat.eqb_sym (length r2) (length r)).
    destruct (Nat.eqb_spec (length r) (length r2)) as [Hlen|]; [|reflexivity]. cbn.
    assert (Hsym : forall k x y, In (k, x) r -> In (k, y) r2 -> equals x y = equals y x).
    { intros k x y Hx Hy. rewrite Forall_forall in IH. apply (IH (k, x) Hx y).
      - rewrite forallb_forall in Hd1. apply (Hd1 (k, x) Hx).
      - rewrite forallb_forall in Hd2. apply (Hd2 (k, y) Hy). }
    assert (Hdir : forall ra rb, NoDup (map fst ra) -> NoDup (map fst rb) -> length ra = length rb ->
               (forall k x y, In (k, x) ra -> In (k, y) rb -> equals x y = equals y x) ->
               eq_rec rb ra = true -> eq_rec ra rb = true).
    { intros ra rb Na Nb Hl Hs H. apply eq_rec_intro. intros k y Hy.
      assert (Hk : In k (map fst ra)).
      { assert (Hinc : incl (map fst rb) (map fst ra)).
        { apply NoDup_length_incl; [exact Na | rewrite !map_length; lia | now apply keys_incl_of_eq_rec]. }
        apply Hinc. now apply (in_map fst) in Hy. }
      apply in_map_iff in Hk as ([k' x] & Hk' & HI). cbn in Hk'; subst k'.
      destruct (eq_rec_lookup rb ra H k x HI) as (y' & Hy' & He).
      rewrite (rec_get_In_NoDup rb k y Nb Hy) in Hy'. injection Hy' as <-.
      exists x. split; [now apply rec_get_In_NoDup|]. now rewrite <- (Hs k x y HI Hy). }
    destruct (eq_rec r2 r) eqn:E1, (eq_rec r r2) eqn:E2; try reflexivity.
    + rewrite (Hdir r r2 Hnd1 Hnd2 Hlen Hsym E1) in E2. discriminate.
    + rewrite (Hdir r2 r Hnd2 Hnd1 (eq_sym Hlen)) in E1; [discriminate| |exact E2].
      intros k x y Hx Hy. symmetry. now apply (Hsym k y x).
  - intros _ _. cbn. now rewrite (list_eqb_sym lamarg_eqb lamarg_eqb_sym ar ar2), (expr_eqb_sym bd bd2).
  - intros _ _. cbn. apply builtin_eqb_sym.
  - cbn [wf_value]. intros H1 H2.
    destruct v as [| | |s1|l1|r1| | |], v2 as [| | |s2|l2|r2'| | |]; try reflexivity.
    + exact (IHv (VStr s2) H1 H2).
    + exact (IHv (VList l2) H1 H2).
    + exact (IHv (VRec r2') H1 H2).
Qed.

Lemma eq_sym_on_wf op s l :
  wf_value s = true -> forallb wf_value l = true -> eq_sym_on op s l.
Proof.
  intros Hs Hl. destruct op; cbn; trivial; intros x Hx; apply equals_sym_wf; auto;
    rewrite forallb_forall in Hl; auto.
Qed.

(* ================================================================== the spec itself says what the property says *)
Section SpecFacts.
  Variable powf : num -> num -> num.
  Notation sop := (scalar_op powf).

  (* + - * / compute the IEEE-754 binary64 result (SpecFloat, round to nearest even), % is the exact
     C fmod, ^ is powf; + also concatenates two strings; nothing else is accepted *)
  Lemma scalar_numbers x y :
    sop Add (VNum x) (VNum y) = Ok (VNum (SFadd 53 1024 x y)) /\
    sop Subtract (VNum x) (VNum y) = Ok (VNum (SFsub 53 1024 x y)) /\
    sop Multiply (VNum x) (VNum y) = Ok (VNum (SFmul 53 1024 x y)) /\
    sop Divide (VNum x) (VNum y) = Ok (VNum (SFdiv 53 1024 x y)) /\
    sop Modulo (VNum x) (VNum y) = Ok (VNum (nfmod x y)) /\
    sop Power (VNum x) (VNum y) = Ok (VNum (powf x y)).
  Proof. repeat split. Qed.

  Lemma scalar_string_concat s t : sop Add (VStr s) (VStr t) = Ok (VStr (s ++ t)).
  Proof. reflexivity. Qed.

  Definition is_arith (op : binop) : bool :=
    match op with Add | Subtract | Multiply | Divide | Modulo | Power => true | _ => false end.

  Lemma scalar_arith_domain op a b v :
    is_arith op = true -> sop op a b = Ok v ->
    (exists x y, a = VNum x /\ b = VNum y) \/ (op = Add /\ exists s t, a = VStr s /\ b = VStr t).
  Proof.
    intros Hop H. destruct op; try discriminate Hop; destruct a, b; try discriminate H; eauto 8.
  Qed.

  (* comparisons follow the value ordering Value::compare (C12 shows it is an order) *)
  Lemma scalar_comparisons a b :
    sop Equal a b = Ok (VBool (equals a b)) /\
    sop NotEqual a b = Ok (VBool (negb (equals a b))) /\
    match compare a b with
    | Some o =>
        sop Less a b = Ok (VBool (match o with Lt => true | _ => false end)) /\
        sop LessEq a b = Ok (VBool (match o with Gt => false | _ => true end)) /\
        sop Greater a b = Ok (VBool (match o with Gt => true | _ => false end)) /\
        sop GreaterEq a b = Ok (VBool (match o with Lt => false | _ => true end))
    | None =>
        sop Less a b = Err /\ sop LessEq a b = Err /\ sop Greater a b = Err /\ sop GreaterEq a b = Err
    end.
  Proof.
    repeat split. cbn [scalar_op]. unfold ordered. destruct (compare a b) as [[]|]; repeat split.
  Qed.

  (* and / or require booleans: the left operand must be one; the right one must be one whenever the
     left does not decide; on booleans they are conjunction / disjunction *)
  Lemma scalar_and_or_booleans x y :
    sop And (VBool x) (VBool y) = Ok (VBool (x && y)) /\ sop NaturalAnd (VBool x) (VBool y) = Ok (VBool (x && y)) /\
    sop Or (VBool x) (VBool y) = Ok (VBool (x || y)) /\ sop NaturalOr (VBool x) (VBool y) = Ok (VBool (x || y)).
  Proof. destruct x, y; repeat split. Qed.

  Lemma scalar_and_or_require_booleans op a b v :
    (op = And \/ op = NaturalAnd \/ op = Or \/ op = NaturalOr) -> sop op a b = Ok v ->
    exists x r, a = VBool x /\ v = VBool r /\
      (* the right operand is a boolean unless the left one decided alone *)
      ((exists y, b = VBool y) \/ x = (match op with And | NaturalAnd => false | _ => true end)).
  Proof.
    intros Hop H. destruct Hop as [-> | [-> | [-> | ->]]]; destruct a as [|[|]| | | | | | |]; try discriminate H;
      destruct b; try discriminate H; cbn in H; injection H as <-; eauto 8.
  Qed.

  Lemma scalar_and_or_left_not_boolean op a b :
    (op = And \/ op = NaturalAnd \/ op = Or \/ op = NaturalOr) ->
    (forall x, a <> VBool x) -> sop op a b = Err.
  Proof.
    intros Hop H. destruct Hop as [-> | [-> | [-> | ->]]]; destruct a as [|x| | | | | | |]; try reflexivity;
      exfalso; apply (H x); reflexivity.
  Qed.

  (* ?? returns its right operand exactly when the left is null *)
  Lemma scalar_coalesce a b :
    (a = VNull -> sop Coalesce a b = Ok b) /\ (a <> VNull -> sop Coalesce a b = Ok a).
  Proof. split; intros H; [subst; reflexivity|]. destruct a; try reflexivity. now elim H. Qed.

  (* a broadcasting operator on two values is a value or an ordinary error: never a panic *)
  Lemma scalar_op_ok_or_err op a b :
    broadcasting op = true \/ is_dot op = true -> (exists v, sop op a b = Ok v) \/ sop op a b = Err.
  Proof.
    intros [Hop|Hop]; destruct op; try discriminate Hop; cbn [scalar_op]; unfold arith, ordered, logic_and, logic_or;
      try (left; eexists; reflexivity);
      try (destruct (compare a b); [left; eexists; reflexivity | right; reflexivity]);
      destruct a as [| [|] | | | | | | |]; try (right; reflexivity); try (left; eexists; reflexivity);
      destruct b; try (right; reflexivity); left; eexists; reflexivity.
  Qed.
End SpecFacts.

(* ================================================================== consequences of the law *)
Section Consequences.
  Variable St : Type.
  Variable call : value -> value -> list value -> St -> outcome value * St.
  Variable fn_accepts2 : value -> bool.
  Variable powf : num -> num -> num.
  Notation eval := (eval_binop St call fn_accepts2 powf).
  Notation sop := (scalar_op powf).
  Notation bspec := (broadcast_spec powf).

  (* one statement for all shapes: a broadcasting operator computes [broadcast_spec] *)
  Theorem broadcasting_law op a b st :
    broadcasting op = true ->
    (forall l, b = VList l -> is_list a = false -> eq_sym_on op a l) ->
    eval op a b st = (bspec op a b, st).
  Proof.
    intros Hop Hsym.
    destruct (is_list a) eqn:Ha, (is_list b) eqn:Hb.
    - destruct a as [| | | |l| | | |]; try discriminate Ha. destruct b as [| | | |m| | | |]; try discriminate Hb.
      cbn [broadcast_spec]. destruct (Nat.eqb_spec (length l) (length m)) as [E|N].
      + now apply broadcast_list_list.
      + now apply broadcast_length_mismatch.
    - destruct a as [| | | |l| | | |]; try discriminate Ha.
      rewrite (broadcast_list_scalar St call fn_accepts2 powf op l b st Hop Hb).
      destruct b; try discriminate Hb; reflexivity.
    - destruct b as [| | | |l| | | |]; try discriminate Hb.
      rewrite (broadcast_scalar_list St call fn_accepts2 powf op a l st Hop Ha (Hsym l eq_refl eq_refl)).
      destruct a; try discriminate Ha; reflexivity.
    - rewrite (scalar_arm_is_spec St call fn_accepts2 powf op a b st Hop Ha Hb).
      destruct a; try discriminate Ha; destruct b; try discriminate Hb; reflexivity.
  Qed.

  (* "fails exactly when some element operation fails or the lengths differ" *)
  Theorem list_scalar_ok_iff op l s st :
    broadcasting op = true -> is_list s = false ->
    is_ok (fst (eval op (VList l) s st)) = forallb (fun x => is_ok (sop op x s)) l.
  Proof.
    intros Hop Hs. rewrite broadcast_list_scalar by assumption. cbn [fst].
    rewrite <- mapM_is_ok. now destruct (mapM _ l).
  Qed.

  Theorem scalar_list_ok_iff op s l st :
    broadcasting op = true -> is_list s = false -> eq_sym_on op s l ->
    is_ok (fst (eval op s (VList l) st)) = forallb (fun x => is_ok (sop op s x)) l.
  Proof.
    intros Hop Hs Hsym. rewrite broadcast_scalar_list by assumption. cbn [fst].
    rewrite <- mapM_is_ok. now destruct (mapM _ l).
  Qed.

  Theorem list_list_ok_iff op l m st :
    broadcasting op = true ->
    is_ok (fst (eval op (VList l) (VList m) st))
    = Nat.eqb (length l) (length m) && forallb (fun p => is_ok (sop op (fst p) (snd p))) (combine l m).
  Proof.
    intros Hop. destruct (Nat.eqb_spec (length l) (length m)) as [E|N].
    - rewrite broadcast_list_list by assumption. cbn [fst andb].
      rewrite <- mapM2_is_ok. now destruct (mapM2 _ l m).
    - rewrite broadcast_length_mismatch by assumption. reflexivity.
  Qed.

  (* ... and when it succeeds the result is the list of the element results, position by position *)
  Theorem list_scalar_elementwise op l s st v st' :
    broadcasting op = true -> is_list s = false ->
    eval op (VList l) s st = (Ok v, st') ->
    st' = st /\ exists r, v = VList r /\ length r = length l /\
      forall i x, nth_error l i = Some x -> exists y, nth_error r i = Some y /\ sop op x s = Ok y.
  Proof.
    intros Hop Hs. rewrite broadcast_list_scalar by assumption.
    destruct (mapM (fun x => sop op x s) l) as [r| | | |] eqn:E; cbn; intros H; try discriminate.
    injection H as <- <-. split; [reflexivity|]. exists r. repeat split.
    - eapply mapM_length; eauto.
    - intros i x Hx. eapply mapM_nth in E; eauto.
  Qed.

  Theorem scalar_list_elementwise op s l st v st' :
    broadcasting op = true -> is_list s = false -> eq_sym_on op s l ->
    eval op s (VList l) st = (Ok v, st') ->
    st' = st /\ exists r, v = VList r /\ length r = length l /\
      forall i x, nth_error l i = Some x -> exists y, nth_error r i = Some y /\ sop op s x = Ok y.
  Proof.
    intros Hop Hs Hsym. rewrite broadcast_scalar_list by assumption.
    destruct (mapM (fun x => sop op s x) l) as [r| | | |] eqn:E; cbn; intros H; try discriminate.
    injection H as <- <-. split; [reflexivity|]. exists r. repeat split.
    - eapply mapM_length; eauto.
    - intros i x Hx. eapply mapM_nth in E; eauto.
  Qed.

  Theorem list_list_elementwise op l m st v st' :
    broadcasting op = true ->
    eval op (VList l) (VList m) st = (Ok v, st') ->
    st' = st /\ length l = length m /\ exists r, v = VList r /\ length r = length l /\
      forall i x y, nth_error l i = Some x -> nth_error m i = Some y ->
                    exists z, nth_error r i = Some z /\ sop op x y = Ok z.
  Proof.
    intros Hop. destruct (Nat.eq_dec (length l) (length m)) as [E|N].
    - rewrite broadcast_list_list by assumption.
      destruct (mapM2 (sop op) l m) as [r| | | |] eqn:E2; cbn; intros H; try discriminate.
      injection H as <- <-. split; [reflexivity|]. split; [assumption|]. exists r. repeat split.
      + eapply mapM2_length; eauto.
      + intros i x y Hx Hy. eapply mapM2_nth in E2; eauto.
    - rewrite broadcast_length_mismatch by assumption. discriminate.
  Qed.

  (* the first failing element decides: elements after it are not looked at *)
  Theorem list_scalar_first_failure op pre x post s st ys :
    broadcasting op = true -> is_list s = false ->
    mapM (fun e => sop op e s) pre = Ok ys -> is_ok (sop op x s) = false ->
    eval op (VList (pre ++ x :: post)) s st = (Err, st).
  Proof.
    intros Hop Hs Hpre Hx. rewrite broadcast_list_scalar by assumption.
    rewrite (mapM_first_failure _ pre x post ys Hpre Hx).
    destruct (scalar_op_ok_or_err powf op x s (or_introl Hop)) as [[v Hv]|He].
    - rewrite Hv in Hx. discriminate.
    - rewrite He. reflexivity.
  Qed.

  (* no panic, no state change: the 17 broadcasting operators and the 6 dot operators are pure
     and total (a value or an ordinary error) on ALL operands *)
  Theorem pure_ops_total op a b st :
    broadcasting op = true \/ is_dot op = true ->
    snd (eval op a b st) = st /\
    ((exists v, fst (eval op a b st) = Ok v) \/ fst (eval op a b st) = Err).
  Proof.
    intros [Hop|Hop].
    2:{ rewrite dot_never_broadcasts by assumption. split; [reflexivity|].
        apply scalar_op_ok_or_err. now right. }
    assert (G : forall o : outcome (list value), (exists ys, o = Ok ys) \/ o = Err ->
                (exists v, omap VList o = Ok v) \/ omap VList o = Err).
    { intros o [[ys ->] | ->]; cbn; eauto. }
    assert (M1 : forall (A : Type) (f : A -> outcome value) (l : list A),
               (forall x, (exists v, f x = Ok v) \/ f x = Err) -> (exists ys, mapM f l = Ok ys) \/ mapM f l = Err).
    { intros A f l Hf. induction l as [|x l IH]; cbn; [eauto|].
      destruct (Hf x) as [[v ->] | ->]; cbn; [|now right].
      destruct IH as [[ys ->] | ->]; cbn; eauto. }
    destruct (is_list a) eqn:Ha, (is_list b) eqn:Hb.
    - destruct a as [| | | |l| | | |]; try discriminate Ha. destruct b as [| | | |m| | | |]; try discriminate Hb.
      destruct (Nat.eq_dec (length l) (length m)) as [E|N].
      + rewrite broadcast_list_list by assumption. split; [reflexivity|]. cbn [fst]. apply G.
        rewrite <- mapM_combine.
        apply M1. intros [x y]. apply scalar_op_ok_or_err. now left.
      + rewrite broadcast_length_mismatch by assumption. split; [reflexivity|now right].
    - destruct a as [| | | |l| | | |]; try discriminate Ha.
      rewrite broadcast_list_scalar by assumption. split; [reflexivity|]. cbn [fst]. apply G, M1.
      intros x. apply scalar_op_ok_or_err. now left.
    - destruct b as [| | | |l| | | |]; try discriminate Hb.
      (* without the symmetry hypothesis: go through the arm directly *)
      assert (E : eval op a (VList l) st = arm_list_scalar St call fn_accepts2 powf op false l a st).
      { destruct op; try discriminate Hop; destruct a; try discriminate Ha; reflexivity. }
      rewrite E. clear E.
      destruct op; try discriminate Hop; unfold arm_list_scalar, lift; cbn [expected_of obind fst snd];
        (split; [reflexivity|]); rewrite ?(mapM_index_seq (fun item => add_match a item)); apply G, M1; intros x;
        rewrite ?check_ord_ordered, ?num2_arith, ?and_q_spec, ?or_q_spec, ?(add_match_spec powf);
        try (left; eexists; reflexivity);
        try (apply (scalar_op_ok_or_err powf Add); now left);
        try (apply (scalar_op_ok_or_err powf Subtract); now left);
        try (apply (scalar_op_ok_or_err powf Multiply); now left);
        try (apply (scalar_op_ok_or_err powf Divide); now left);
        try (apply (scalar_op_ok_or_err powf Modulo); now left);
        try (apply (scalar_op_ok_or_err powf Power); now left);
        try (apply (scalar_op_ok_or_err powf Less); now left);
        try (apply (scalar_op_ok_or_err powf LessEq); now left);
        try (apply (scalar_op_ok_or_err powf Greater); now left);
        try (apply (scalar_op_ok_or_err powf GreaterEq); now left);
        try (apply (scalar_op_ok_or_err powf And); now left);
        try (apply (scalar_op_ok_or_err powf Or); now left).
    - rewrite scalar_arm_is_spec by assumption. split; [reflexivity|]. apply scalar_op_ok_or_err. now left.
  Qed.
End Consequences.

(* ================================================================== no operator application aborts
   For ALL 26 operators (including via / into / where and the unreachable!() arms), all operands:
   if the callback oracle never panics, neither does eval_binop — i.e. the unreachable!() arms are
   unreachable (the dot operators return first, `(_, List) if op == Into` precedes the list arms)
   and every `list[idx]` inside a `for idx in 0..list_len` loop is in range. *)
Section NoPanic.
  Variable St : Type.
  Variable call : value -> value -> list value -> St -> outcome value * St.
  Variable fn_accepts2 : value -> bool.
  Variable powf : num -> num -> num.
  Hypothesis call_no_panic : forall t f args st, fst (call t f args st) <> Panic.
  Notation eval := (eval_binop St call fn_accepts2 powf).

  Lemma bindM_no_panic {A B} (m : M St A) (f : A -> M St B) st :
    fst (m st) <> Panic -> (forall a st1, m st = (Ok a, st1) -> fst (f a st1) <> Panic) ->
    fst (bindM St m f st) <> Panic.
  Proof.
    unfold bindM. destruct (m st) as [[a| | | |] st1]; cbn; intros H1 H2; try discriminate; auto.
  Qed.

  Lemma for_each_no_panic {B} idxs (body : nat -> M St B) : forall st,
    (forall i st1, In i idxs -> fst (body i st1) <> Panic) ->
    fst (for_each St idxs body st) <> Panic.
  Proof.
    induction idxs as [|i r IH]; intros st H; cbn [for_each]; [unfold lift; cbn; discriminate|].
    apply bindM_no_panic; [apply H; now left|]. intros y st1 _.
    apply bindM_no_panic; [apply IH; intros; apply H; now right|].
    intros ys st2 _. unfold lift. cbn. discriminate.
  Qed.

  Lemma index_in_range l i : In i (seq 0 (length l)) -> exists v, index l i = Ok v.
  Proof.
    intros H. apply in_seq in H. unfold index. destruct (nth_error l i) eqn:E; [eauto|].
    apply nth_error_None in E. lia.
  Qed.

  Lemma lift_no_panic {A} (o : outcome A) st : o <> Panic -> fst (lift St o st) <> Panic.
  Proof. auto. Qed.

  Definition callback_op (op : binop) : bool :=
    match op with Via | Into | Where => true | _ => false end.

  Lemma arm_scalar_no_panic op a b st :
    callback_op op = true -> fst (arm_scalar St call powf op a b st) <> Panic.
  Proof.
    intros Hop. destruct op; try discriminate Hop; unfold arm_scalar.
    - destruct (negb (is_callable b)); [apply lift_no_panic; discriminate | apply call_no_panic].
    - destruct (negb (is_callable b)); [apply lift_no_panic; discriminate | apply call_no_panic].
    - apply lift_no_panic; discriminate.
  Qed.

  Lemma arm_list_scalar_no_panic op first l s st :
    callback_op op = true -> fst (arm_list_scalar St call fn_accepts2 powf op first l s st) <> Panic.
  Proof.
    intros Hop. destruct op; try discriminate Hop; unfold arm_list_scalar.
    - (* Via *)
      destruct first; [|apply lift_no_panic; discriminate].
      destruct (negb (is_callable s)); [apply lift_no_panic; discriminate|].
      apply bindM_no_panic; [|intros; apply lift_no_panic; discriminate].
      apply for_each_no_panic. intros i st1 Hi. destruct (index_in_range l i Hi) as [v Hv].
      apply bindM_no_panic; [rewrite Hv; apply lift_no_panic; discriminate|].
      intros; apply call_no_panic.
    - (* Into *)
      destruct first; [|apply lift_no_panic; discriminate].
      destruct (negb (is_callable s)); [apply lift_no_panic; discriminate | apply call_no_panic].
    - (* Where *)
      destruct first; [|apply lift_no_panic; discriminate].
      destruct (negb (is_callable s)); [apply lift_no_panic; discriminate|].
      apply bindM_no_panic; [|intros; apply lift_no_panic; discriminate].
      apply for_each_no_panic. intros i st1 Hi. destruct (index_in_range l i Hi) as [v Hv].
      apply bindM_no_panic; [rewrite Hv; apply lift_no_panic; discriminate|].
      intros item st2 _. apply bindM_no_panic; [apply call_no_panic|].
      intros result st3 _. apply bindM_no_panic; [apply lift_no_panic; destruct result; discriminate|].
      intros; apply lift_no_panic; discriminate.
  Qed.

  Lemma arm_list_list_no_panic op l m st :
    op = Via \/ op = Where -> fst (arm_list_list St call powf op l m st) <> Panic.
  Proof.
    intros Hop. unfold arm_list_list.
    destruct (negb (length l =? length m)%nat) eqn:El; [apply lift_no_panic; discriminate|].
    apply negb_false_iff, Nat.eqb_eq in El.
    destruct Hop as [-> | ->]; [|apply lift_no_panic; discriminate].
    apply bindM_no_panic; [|intros; apply lift_no_panic; discriminate].
    apply for_each_no_panic. intros i st1 Hi.
    destruct (index_in_range l i Hi) as [v Hv]. rewrite El in Hi. destruct (index_in_range m i Hi) as [w Hw].
    apply bindM_no_panic; [rewrite Hv, Hw; apply lift_no_panic; discriminate|].
    intros [l0 r0] st2 _. cbn [fst snd].
    destruct (negb (is_lambda r0) && negb (is_built_in r0)); [apply lift_no_panic; discriminate | apply call_no_panic].
  Qed.

  Theorem binop_never_panics op a b st : fst (eval op a b st) <> Panic.
  Proof.
    destruct (broadcasting op || is_dot op) eqn:Hpure.
    { apply orb_true_iff in Hpure.
      destruct (pure_ops_total St call fn_accepts2 powf op a b st Hpure) as [_ [[v ->]| ->]]; discriminate. }
    assert (Hcb : callback_op op = true) by (destruct op; try discriminate Hpure; reflexivity).
    assert (E : eval op a b st =
                if is_list b && binop_eqb op Into then (Err, st) else
                match a, b with
                | VList list_l, VList list_r => arm_list_list St call powf op list_l list_r st
                | VList list, scalar => arm_list_scalar St call fn_accepts2 powf op true list scalar st
                | scalar, VList list => arm_list_scalar St call fn_accepts2 powf op false list scalar st
                | _, _ => arm_scalar St call powf op a b st
                end).
    { destruct op; try discriminate Hcb; reflexivity. }
    rewrite E. clear E.
    destruct (is_list b && binop_eqb op Into) eqn:Hinto; [cbn; discriminate|].
    destruct a as [| | | |l| | | |], b as [| | | |m| | | |];
      try (now apply arm_scalar_no_panic); try (now apply arm_list_scalar_no_panic).
    apply arm_list_list_no_panic.
    destruct op; try discriminate Hcb; auto. cbn in Hinto. discriminate.
  Qed.
End NoPanic.

(* ================================================================== the law on well-formed values *)
Section LawWf.
  Variable St : Type.
  Variable call : value -> value -> list value -> St -> outcome value * St.
  Variable fn_accepts2 : value -> bool.
  Variable powf : num -> num -> num.
  Notation eval := (eval_binop St call fn_accepts2 powf).

  Theorem broadcasting_law_wf op a b st :
    broadcasting op = true -> wf_value a = true -> wf_value b = true ->
    eval op a b st = (broadcast_spec powf op a b, st).
  Proof.
    intros Hop Ha Hb. apply broadcasting_law; [assumption|].
    intros l -> _. now apply eq_sym_on_wf.
  Qed.

  Theorem broadcast_scalar_list_wf op s l st :
    broadcasting op = true -> is_list s = false -> wf_value s = true -> forallb wf_value l = true ->
    eval op s (VList l) st = (omap VList (mapM (fun x => scalar_op powf op s x) l), st).
  Proof. intros Hop Hs Hw Hl. apply broadcast_scalar_list; auto. now apply eq_sym_on_wf. Qed.
End LawWf.

(* the symmetry hypothesis cannot simply be dropped in the MODEL: a record term with a repeated
   key (which no IndexMap can hold) makes Value::equals asymmetric, and then `s == [x]` computed as
   x.equals(s) differs from s.equals(x) *)
Lemma scalar_list_eq_needs_unique_keys :
  exists s x, equals x s <> equals s x /\
    forall St call acc powf (st : St),
      eval_binop St call acc powf Equal s (VList [x]) st
      <> (omap VList (mapM (fun y => scalar_op powf Equal s y) [x]), st).
Proof.
  exists (VRec [("a"%string, VNum nzero); ("b"%string, VNum nzero)]),
         (VRec [("a"%string, VNum nzero); ("a"%string, VNum nzero)]).
  split; [vm_compute; discriminate|]. intros. vm_compute. intros H. discriminate H.
Qed.
