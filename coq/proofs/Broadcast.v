(* Broadcast.v — property C11: the transcription [eval_binop] (Binop.v) refines the spec
   [scalar_op] / the broadcasting law [broadcast_spec] (BinopSpec.v).  All theorems are
   unbounded: every operator, all lists of any length, any element values, any state, any
   call / fn_accepts2 / powf oracle. *)
From Coq Require Import String Ascii List ZArith Bool Lia Floats.SpecFloat.
Require Import Blots.Num Blots.gen.Builtins Blots.Ast Blots.Value Blots.Outcome Blots.Binop Blots.BinopSpec.
Require Import Blots.proofs.ValueInd Blots.proofs.Order.
Import ListNotations.
Local Open Scope list_scope.

(* ------------------------------------------------------------------ mapM / mapM2 *)
Lemma mapM_ext {A B} (f g : A -> outcome B) l :
  (forall x, In x l -> f x = g x) -> mapM f l = mapM g l.
Proof.
  induction l as [|x l IH]; cbn; intros H; [reflexivity|].
  rewrite (H x (or_introl eq_refl)). rewrite IH; [reflexivity|]. intros; apply H; now right.
Qed.

Lemma mapM_combine {A B C} (f : A -> B -> outcome C) l m :
  mapM (fun lr => f (fst lr) (snd lr)) (combine l m) = mapM2 f l m.
Proof.
  revert m; induction l as [|x l IH]; intros [|y m]; cbn; try reflexivity. now rewrite IH.
Qed.

(* `for idx in 0..list.len() { let item = list[idx]; ... }` is iteration over the list *)
Lemma mapM_index_seq_gen {B} (f : value -> outcome B) l : forall pre,
  mapM (fun idx => do item <- index (pre ++ l) idx; f item) (seq (length pre) (length l)) = mapM f l.
Proof.
  induction l as [|x l IH]; intros pre; cbn [length seq mapM]; [reflexivity|].
  unfold index at 1. rewrite nth_error_app2 by lia. rewrite Nat.sub_diag. cbn [nth_error obind].
  specialize (IH (pre ++ [x])). rewrite <- app_assoc in IH. cbn [app] in IH.
  rewrite app_length in IH. cbn [length] in IH. rewrite Nat.add_1_r in IH. now rewrite IH.
Qed.
Lemma mapM_index_seq {B} (f : value -> outcome B) l :
  mapM (fun idx => do item <- index l idx; f item) (seq 0 (length l)) = mapM f l.
Proof. exact (mapM_index_seq_gen f l []). Qed.

Lemma mapM2_index_seq_gen {B} (f : value -> value -> outcome B) l : forall m pl pm,
  length l = length m -> length pl = length pm ->
  mapM (fun idx => do a <- index (pl ++ l) idx; do b <- index (pm ++ m) idx; f a b)
       (seq (length pl) (length l)) = mapM2 f l m.
Proof.
  induction l as [|x l IH]; intros [|y m] pl pm Hl Hp; cbn [length seq mapM mapM2]; try discriminate;
    [reflexivity|].
  unfold index at 1 2. rewrite nth_error_app2 by lia. rewrite Nat.sub_diag.
  rewrite (nth_error_app2 pm) by lia. replace (length pl - length pm)%nat with 0%nat by lia. cbn [nth_error obind].
  specialize (IH m (pl ++ [x]) (pm ++ [y])). rewrite <- !app_assoc in IH. cbn [app] in IH.
  rewrite !app_length in IH. cbn [length] in IH. rewrite Nat.add_1_r in IH.
  rewrite IH; [reflexivity| now injection Hl | lia].
Qed.
Lemma mapM2_index_seq {B} (f : value -> value -> outcome B) l m :
  length l = length m ->
  mapM (fun idx => do a <- index l idx; do b <- index m idx; f a b) (seq 0 (length l)) = mapM2 f l m.
Proof. intros H. exact (mapM2_index_seq_gen f l m [] [] H eq_refl). Qed.

(* the specification of mapM: succeeds exactly when every element operation succeeds, with the
   element results in order; otherwise it is the outcome of the FIRST failing element *)
Lemma mapM_ok_iff {A B} (f : A -> outcome B) l ys :
  mapM f l = Ok ys <-> Forall2 (fun x y => f x = Ok y) l ys.
Proof.
  revert ys; induction l as [|x l IH]; intros ys; cbn.
  - split; intros H; [injection H as <-; constructor | inversion H; reflexivity].
  - split.
    + destruct (f x) eqn:E; cbn; try discriminate. destruct (mapM f l) eqn:E2; cbn; try discriminate.
      intros H; injection H as <-. constructor; [assumption|]. now apply IH.
    + intros H. inversion H as [|? y ? ys' Hx Hr]; subst. rewrite Hx. cbn.
      apply IH in Hr. rewrite Hr. reflexivity.
Qed.

Lemma mapM_is_ok {A B} (f : A -> outcome B) l :
  is_ok (mapM f l) = forallb (fun x => is_ok (f x)) l.
Proof.
  induction l as [|x l IH]; cbn; [reflexivity|].
  destruct (f x); cbn; try reflexivity. rewrite <- IH. now destruct (mapM f l).
Qed.

Lemma mapM_first_failure {A B} (f : A -> outcome B) pre x post ys :
  mapM f pre = Ok ys -> is_ok (f x) = false ->
  mapM f (pre ++ x :: post) = obind (f x) (fun _ => Ok []).
Proof.
  revert ys; induction pre as [|p pre IH]; intros ys; cbn.
  - intros _ Hx. destruct (f x); cbn in *; try reflexivity. discriminate.
  - destruct (f p); cbn; try discriminate. destruct (mapM f pre) eqn:E; cbn; try discriminate.
    intros _ Hx. rewrite (IH _ eq_refl Hx). now destruct (f x).
Qed.

Lemma mapM_length {A B} (f : A -> outcome B) l ys : mapM f l = Ok ys -> length ys = length l.
Proof. intros H. apply mapM_ok_iff in H. induction H; cbn; congruence. Qed.

Lemma mapM_nth {A B} (f : A -> outcome B) l ys i x :
  mapM f l = Ok ys -> nth_error l i = Some x -> exists y, nth_error ys i = Some y /\ f x = Ok y.
Proof.
  intros H. apply mapM_ok_iff in H. revert i. induction H as [|a b l ys Hab _ IH]; intros [|i]; cbn; try discriminate.
  - intros E; injection E as <-. eauto.
  - apply IH.
Qed.

Lemma mapM2_is_ok {A B C} (f : A -> B -> outcome C) l m :
  is_ok (mapM2 f l m) = forallb (fun p => is_ok (f (fst p) (snd p))) (combine l m).
Proof. rewrite <- mapM_combine. apply mapM_is_ok. Qed.

Lemma mapM2_nth {A B C} (f : A -> B -> outcome C) l m zs i x y :
  mapM2 f l m = Ok zs -> nth_error l i = Some x -> nth_error m i = Some y ->
  exists z, nth_error zs i = Some z /\ f x y = Ok z.
Proof.
  rewrite <- mapM_combine. intros H Hx Hy.
  assert (Hc : nth_error (combine l m) i = Some (x, y)).
  { clear H. revert m i Hx Hy. induction l as [|a l IH]; intros [|b m] [|i]; cbn; try discriminate.
    - intros E1 E2; injection E1 as <-; injection E2 as <-; reflexivity.
    - apply IH. }
  destruct (mapM_nth _ _ _ _ _ H Hc) as (z & Hz & Hf). eauto.
Qed.

Lemma mapM2_length {A B C} (f : A -> B -> outcome C) l m zs :
  length l = length m -> mapM2 f l m = Ok zs -> length zs = length l.
Proof.
  rewrite <- mapM_combine. intros Hl H. apply mapM_length in H. rewrite combine_length in H. lia.
Qed.

(* ------------------------------------------------------------------ numbers *)
Lemma nmul_comm x y : nmul x y = nmul y x.
Proof.
  unfold nmul, SFmul.
  destruct x as [sx|sx| |sx mx ex], y as [sy|sy| |sy my ey]; try reflexivity;
    try (now rewrite xorb_comm).
  now rewrite xorb_comm, Pos.mul_comm, Z.add_comm.
Qed.

(* ------------------------------------------------------------------ the Rust expression shapes = the spec clauses *)
Lemma num2_arith f a b : num2 f a b = arith f a b.
Proof. destruct a, b; reflexivity. Qed.
Lemma and_q_spec a b : and_q a b = logic_and a b.
Proof. destruct a as [| [|] | | | | | | |]; try reflexivity; destruct b; reflexivity. Qed.
Lemma or_q_spec a b : or_q a b = logic_or a b.
Proof. destruct a as [| [|] | | | | | | |]; try reflexivity; destruct b; reflexivity. Qed.
Lemma check_ord_ordered e a b :
  (do r <- check_ord (compare a b) e; Ok (VBool r)) = ordered e a b.
Proof. unfold check_ord, check_ordering, ordered. now destruct (compare a b). Qed.
Lemma coalesce_spec a b : (if is_null a then b else a) = match a with VNull => b | _ => a end.
Proof. now destruct a. Qed.

Section Broadcast.
  Variable St : Type.
  Variable call : value -> value -> list value -> St -> outcome value * St.
  Variable fn_accepts2 : value -> bool.
  Variable powf : num -> num -> num.

  Notation eval := (eval_binop St call fn_accepts2 powf).
  Notation sop := (scalar_op powf).

  Lemma add_match_spec a b : add_match a b = sop Add a b.
  Proof. destruct a, b; reflexivity. Qed.

  (* ---------------------------------------------------------------- P0 scalar arm = spec *)
  Theorem scalar_arm_is_spec op a b st :
    broadcasting op = true -> is_list a = false -> is_list b = false ->
    eval op a b st = (sop op a b, st).
  Proof.
    intros Hop Ha Hb.
    assert (E : eval op a b st = arm_scalar St call powf op a b st).
    { destruct op; try discriminate Hop; destruct a; try discriminate Ha; destruct b; try discriminate Hb;
        reflexivity. }
    rewrite E. clear E.
    destruct op; try discriminate Hop; unfold arm_scalar, lift; cbn [sop];
      rewrite ?check_ord_ordered, ?num2_arith, ?and_q_spec, ?or_q_spec, ?coalesce_spec; try reflexivity.
    (* Add: the scalar arm decides by the LEFT operand's type only *)
    destruct a; try discriminate Ha; destruct b; reflexivity.
  Qed.

  (* ---------------------------------------------------------------- P0 list ∘ scalar *)
  Theorem broadcast_list_scalar op l s st :
    broadcasting op = true -> is_list s = false ->
    eval op (VList l) s st = (omap VList (mapM (fun x => sop op x s) l), st).
  Proof.
    intros Hop Hs.
    assert (E : eval op (VList l) s st = arm_list_scalar St call fn_accepts2 powf op true l s st).
    { destruct op; try discriminate Hop; destruct s; try discriminate Hs; reflexivity. }
    rewrite E. clear E.
    destruct op; try discriminate Hop; unfold arm_list_scalar, lift; cbn [expected_of obind sop]; f_equal; f_equal;
      try (apply mapM_ext; intros x _;
           rewrite ?check_ord_ordered, ?num2_arith, ?and_q_spec, ?or_q_spec, ?coalesce_spec; reflexivity).
    (* Add: the index loop *)
    rewrite (mapM_index_seq (fun item => add_match item s)). apply mapM_ext; intros; apply add_match_spec.
  Qed.

  (* ---------------------------------------------------------------- P0 scalar ∘ list *)
  (* == and != : the arm computes v.equals(&scalar) although the scalar is the LEFT operand;
     this is the law only because Value::equals is symmetric on the values at hand *)
  Definition eq_sym_on (op : binop) (s : value) (l : list value) : Prop :=
    match op with
    | Equal | NotEqual => forall x, In x l -> equals x s = equals s x
    | _ => True
    end.

  Theorem broadcast_scalar_list op s l st :
    broadcasting op = true -> is_list s = false -> eq_sym_on op s l ->
    eval op s (VList l) st = (omap VList (mapM (fun x => sop op s x) l), st).
  Proof.
    intros Hop Hs Hsym.
    assert (E : eval op s (VList l) st = arm_list_scalar St call fn_accepts2 powf op false l s st).
    { destruct op; try discriminate Hop; destruct s; try discriminate Hs; reflexivity. }
    rewrite E. clear E.
    destruct op; try discriminate Hop; unfold arm_list_scalar, lift; cbn [expected_of obind sop]; f_equal; f_equal;
      try (apply mapM_ext; intros x Hx;
           rewrite ?check_ord_ordered, ?num2_arith, ?and_q_spec, ?or_q_spec; reflexivity).
    - (* Add *)
      rewrite (mapM_index_seq (fun item => add_match s item)). apply mapM_ext; intros; apply add_match_spec.
    - (* Multiply: v * scalar for scalar * v *)
      apply mapM_ext; intros x _. rewrite num2_arith. destruct x, s; try reflexivity. cbn. now rewrite nmul_comm.
    - (* Equal *) apply mapM_ext; intros x Hx. cbn in Hsym. now rewrite Hsym.
    - (* NotEqual *) apply mapM_ext; intros x Hx. cbn in Hsym. now rewrite Hsym.
    - (* Coalesce *) apply mapM_ext; intros x _. now destruct s.
  Qed.

  (* ---------------------------------------------------------------- P0 list ∘ list *)
  Theorem broadcast_list_list op l m st :
    broadcasting op = true -> length l = length m ->
    eval op (VList l) (VList m) st = (omap VList (mapM2 (sop op) l m), st).
  Proof.
    intros Hop Hlen.
    assert (E : eval op (VList l) (VList m) st = arm_list_list St call powf op l m st).
    { destruct op; try discriminate Hop; reflexivity. }
    rewrite E. clear E. unfold arm_list_list. rewrite Hlen, Nat.eqb_refl. cbn [negb]. rewrite <- Hlen.
    destruct op; try discriminate Hop; unfold lift; cbn [expected_of obind]; f_equal; f_equal;
      rewrite <- ?(mapM_combine (sop _));
      try (apply mapM_ext; intros [x y] _; cbn [fst snd sop];
           rewrite ?check_ord_ordered, ?num2_arith, ?and_q_spec, ?or_q_spec, ?coalesce_spec; reflexivity).
    (* Add: the index loop over both lists *)
    rewrite (mapM2_index_seq add_match l m Hlen). rewrite <- mapM_combine.
    apply mapM_ext; intros [x y] _. apply add_match_spec.
  Qed.

  Theorem broadcast_length_mismatch op l m st :
    broadcasting op = true -> length l <> length m ->
    eval op (VList l) (VList m) st = (Err, st).
  Proof.
    intros Hop Hlen.
    assert (E : eval op (VList l) (VList m) st = arm_list_list St call powf op l m st).
    { destruct op; try discriminate Hop; reflexivity. }
    rewrite E. unfold arm_list_list. apply Nat.eqb_neq in Hlen. rewrite Hlen. reflexivity.
  Qed.

  (* ---------------------------------------------------------------- P0 dot operators never broadcast *)
  Theorem dot_never_broadcasts op a b st :
    is_dot op = true -> eval op a b st = (sop op a b, st).
  Proof.
    intros Hop. destruct op; try discriminate Hop; cbn [eval_binop sop];
      rewrite ?check_ord_ordered; reflexivity.
  Qed.
End Broadcast.
