(* DisplayNumFinite.v — C20: on the standard path the rounded value
   (value * scale).round() / scale  is a finite double, for every powi/log10 oracle within
   coarse bounds.  Hence well-formedness of the display text for ALL valid doubles with no
   side condition (display_wellformed_total). *)
From Coq Require Import ZArith Reals Bool String Ascii List Lia Lra Floats.SpecFloat.
From Flocq Require Import Core.Core IEEE754.BinarySingleNaN.
Require Import Blots.Num Blots.Outcome Blots.DisplayNum.
Require Import Blots.proofs.DisplayNumGroup Blots.proofs.DisplayNumSpec Blots.proofs.DisplayNumText
               Blots.proofs.DisplayNumInt Blots.proofs.DisplayNum Blots.proofs.DisplayNumFloat.
Import ListNotations.
Open Scope R_scope.

Lemma bpow_format : forall e, (-1074 <= e <= 1023)%Z -> generic_format radix2 fexp64 (bpow radix2 e).
Proof.
  intros e H. apply generic_format_bpow. unfold fexp, SpecFloat.emin. lia.
Qed.

Lemma rnd_abs_le_bpow : forall v e, (-1074 <= e <= 1023)%Z -> Rabs v <= bpow radix2 e ->
  Rabs (rnd64 v) <= bpow radix2 e.
Proof.
  intros v e He H. apply abs_round_le_generic; try typeclasses eauto.
  - apply (fexp_correct 53 1024). reflexivity.
  - now apply bpow_format.
  - exact H.
Qed.

Lemma valid_nabs : forall x, valid x -> valid (nabs x).
Proof. intros [| | |] H; exact H. Qed.
Lemma finite_nabs : forall x, Num.is_finite (nabs x) = Num.is_finite x.
Proof. now intros [| | |]. Qed.
Lemma RV_nabs : forall x, RV (nabs x) = Rabs (RV x).
Proof.
  intros [s|s| |s m e]; unfold RV; cbn [nabs SFabs SF2R]; try (now rewrite Rabs_R0).
  rewrite <- F2R_Zabs. now rewrite abs_cond_Zopp.
Qed.

Lemma valid_c_1e15 : valid c_1e15. Proof. reflexivity. Qed.
Lemma RV_c_1e15_le : RV c_1e15 <= bpow radix2 50.
Proof.
  unfold RV, c_1e15. cbn [SF2R]. unfold F2R. cbn [Fnum Fexp cond_Zopp].
  change (bpow radix2 (-3)) with (/ 8). change (bpow radix2 50) with 1125899906842624. lra.
Qed.

Section Finite.
  Variable log10 : num -> num.
  Variable powi : num -> Z -> num.
  Variable fx : bool.

  (* coarse sanity of the two numeric oracles on the standard path:
     floor(log10 a) of a double in [0.0001, 1e15) is between -5 and 15;
     10^j for -2 <= j <= 21 is a finite non-zero double between 2^-80 and 2^80 *)
  Hypothesis Hlog_std : forall a, valid a -> Num.is_finite a = true ->
    scientific_range a = false -> (-5 <= as_i32 (nfloor (log10 a)) <= 15)%Z.
  Hypothesis Hpowi_std : forall j, (-2 <= j <= 21)%Z ->
    exists s m e, powi c_ten j = S754_finite s m e /\ valid (powi c_ten j) /\
                  bpow radix2 (-80) <= Rabs (RV (powi c_ten j)) <= bpow radix2 80.

  Lemma flog10_std : forall a, valid a -> Num.is_finite a = true -> scientific_range a = false ->
    exists l, flog10 log10 powi fx a = Ok l /\ (-6 <= l <= 15)%Z.
  Proof.
    intros a Va Fa Sa. pose proof (Hlog_std a Va Fa Sa) as B. unfold flog10.
    destruct fx.
    - destruct (nltb a (powi c_ten (as_i32 (nfloor (log10 a))))).
      + unfold i32_sub. rewrite i32_ok_small by (change (2 ^ 30)%Z with 1073741824%Z; lia).
        eexists; split; [reflexivity|lia].
      + eexists; split; [reflexivity|lia].
    - eexists; split; [reflexivity|lia].
  Qed.

  Theorem round_sig_finite : forall x,
    valid x -> std_nonint_path x = true ->
    exists r, round_to_significant_figures log10 powi fx x = Ok r /\
              valid r /\ Num.is_finite r = true.
  Proof.
    intros x Vx Hp. unfold std_nonint_path in Hp.
    apply andb_true_iff in Hp. destruct Hp as [Hp _]. apply andb_true_iff in Hp. destruct Hp as [Hp Hs].
    apply andb_true_iff in Hp. destruct Hp as [Fx Hz].
    apply negb_true_iff in Hs. apply negb_true_iff in Hz.
    unfold round_to_significant_figures. rewrite Hz.
    destruct (flog10_std (nabs x) (valid_nabs x Vx) ltac:(now rewrite finite_nabs) Hs) as (l & -> & Hl).
    cbn [obind]. change (i32_sub 15 1) with (@Ok Z 14%Z). cbn [obind].
    unfold i32_sub. rewrite i32_ok_small by (change (2 ^ 30)%Z with 1073741824%Z; lia). cbn [obind].
    destruct (Hpowi_std (14 - l)%Z ltac:(lia)) as (ss & ms & es & Es & Vs & Bs).
    set (sc := powi c_ten (14 - l)%Z) in *.
    (* |x| < 1e15 <= 2^50 *)
    assert (Bx : Rabs (RV x) <= bpow radix2 50).
    { unfold scientific_range in Hs. apply negb_false_iff in Hs. apply andb_true_iff in Hs.
      destruct Hs as [_ Hlt].
      apply (nltb_correct (nabs x) c_1e15 (valid_nabs x Vx) valid_c_1e15) in Hlt;
        [|now rewrite finite_nabs|reflexivity].
      rewrite RV_nabs in Hlt. pose proof RV_c_1e15_le. lra. }
    assert (Fs : Num.is_finite sc = true) by (rewrite Es; reflexivity).
    (* p = x * scale *)
    assert (Bp : Rabs (RV x * RV sc) <= bpow radix2 130).
    { rewrite Rabs_mult. change 130%Z with (50 + 80)%Z. rewrite bpow_plus.
      apply Rmult_le_compat; try apply Rabs_pos; tauto. }
    destruct (nmul_correct x sc Vx Vs Fx Fs) as (Vp & Fp & Ep).
    { eapply Rle_lt_trans; [apply (rnd_abs_le_bpow _ 130); [lia|exact Bp]|]. apply bpow_lt. lia. }
    set (p := nmul x sc) in *.
    assert (Bp' : Rabs (RV p) <= bpow radix2 130) by (rewrite Ep; apply rnd_abs_le_bpow; [lia|exact Bp]).
    (* q = p.round() *)
    assert (Q : exists q, nround p = q /\ valid q /\ Num.is_finite q = true /\ Rabs (RV q) <= bpow radix2 131).
    { destruct p as [s|s| |s m e] eqn:P; try discriminate Fp.
      - exists (S754_zero s). repeat split. unfold RV. cbn [SF2R]. rewrite Rabs_R0. apply bpow_ge_0.
      - destruct (nround_value s m e) as (n & Hn & En & Dn).
        assert (Bn : Rabs (IZR (cond_Zopp s n)) <= bpow radix2 131).
        { replace (IZR (cond_Zopp s n)) with ((IZR (cond_Zopp s n) - RV (S754_finite s m e)) + RV (S754_finite s m e)) by ring.
          eapply Rle_trans; [apply Rabs_triang|].
          change 131%Z with (130 + 1)%Z. rewrite bpow_plus. change (bpow radix2 1) with 2.
          pose proof (bpow_ge_0 radix2 130). assert (1 <= bpow radix2 130).
          { change 1 with (bpow radix2 0). apply bpow_le. lia. }
          lra. }
        destruct (num_of_sm_correct s n Hn) as (Vq & Fq & Eq).
        { eapply Rle_lt_trans; [apply (rnd_abs_le_bpow _ 131); [lia|exact Bn]|]. apply bpow_lt. lia. }
        exists (num_of_sm s n). repeat split; auto.
        rewrite Eq. apply rnd_abs_le_bpow; [lia|exact Bn]. }
    destruct Q as (q & Eq & Vq & Fq & Bq). rewrite Eq.
    (* r = q / scale *)
    assert (Bd : Rabs (RV q / RV sc) <= bpow radix2 211).
    { unfold Rdiv. rewrite Rabs_mult. change 211%Z with (131 + 80)%Z. rewrite bpow_plus.
      apply Rmult_le_compat; try apply Rabs_pos; [exact Bq|].
      assert (Hs0 : RV sc <> 0).
      { intros Z0. rewrite Z0, Rabs_R0 in Bs. pose proof (bpow_gt_0 radix2 (-80)). lra. }
      rewrite Rabs_inv.
      replace (bpow radix2 80) with (/ bpow radix2 (-80)).
      - apply Rinv_le; [apply bpow_gt_0|tauto].
      - rewrite <- bpow_opp. reflexivity. }
    rewrite Es in *.
    destruct (ndiv_correct q ss ms es Vq Fq) as (Vr & Fr & _).
    { eapply Rle_lt_trans; [apply (rnd_abs_le_bpow _ 211); [lia|exact Bd]|]. apply bpow_lt. lia. }
    eexists. split; [reflexivity|]. split; assumption.
  Qed.
End Finite.

(* ---------- well-formedness with no side condition ---------- *)
Section Total.
  Variable log10 : num -> num.
  Variable powi : num -> Z -> num.
  Variable fmt_prec : num -> Z -> text.
  Variable fmt_exp14 : num -> text.
  Variable parse_f64 : text -> option num.
  Variable fx : bool.
  Hypothesis Hprec : forall x n, Num.is_finite x = true -> (0 <= n)%Z -> prec_shape n (fmt_prec x n) = true.
  Hypothesis Hexp : forall x, Num.is_finite x = true -> exp_shape (fmt_exp14 x) = true.
  Hypothesis Hparse : forall s m, mant_shape s = true -> parse_f64 s = Some m -> Num.is_finite m = true.
  Hypothesis Hlog_std : forall a, valid a -> Num.is_finite a = true ->
    scientific_range a = false -> (-5 <= as_i32 (nfloor (log10 a)) <= 15)%Z.
  Hypothesis Hpowi_std : forall j, (-2 <= j <= 21)%Z ->
    exists s m e, powi c_ten j = S754_finite s m e /\ valid (powi c_ten j) /\
                  bpow radix2 (-80) <= Rabs (RV (powi c_ten j)) <= bpow radix2 80.

  Theorem display_wellformed_total : forall x t,
    valid_binary 53 1024 x = true ->
    format_display_number log10 powi fmt_prec fmt_exp14 parse_f64 fx x = Ok t ->
    wf_numeral t = true.
  Proof.
    intros x t Vx H.
    destruct (display_wellformed log10 powi fmt_prec fmt_exp14 parse_f64 fx Hprec Hexp Hparse x t H)
      as [W|(Hp & r & Er & Fr)]; [exact W|].
    destruct (round_sig_finite log10 powi fx Hlog_std Hpowi_std x Vx Hp) as (r' & Er' & _ & Fr').
    rewrite Er in Er'. injection Er' as <-. congruence.
  Qed.
End Total.
