(* C02OpsFull.v — [ops_commute binop_impl builtin_full]: EVERY transcribed built-in (the aggregates,
   the list / string / record built-ins of BuiltinsList.v / BuiltinsAgg.v / BuiltinsText.v, and the
   callback-taking sort_by / group_by / count_by) commutes with every injective renaming of
   function-cell indices whenever its callback does.  The arms are instances of proofs/RelPure.v with
   the value relation "v' is v renamed" and the state relation [sinv rho]; unique / includes are
   covered too, because Value::equals is blind to cell indices ([equals_ren]).  With this the generic
   theorems of C02Twice.v / C02Let.v apply to the evaluator the EVAL streams run (EvalFull.eval_full). *)
From Coq Require Import String Ascii List ZArith Bool Lia.
Require Import Blots.Num Blots.gen.Builtins Blots.Ast Blots.Value Blots.Outcome Blots.Binop
               Blots.Env Blots.Eval Blots.BuiltinsHof Blots.Program Blots.EvalInst Blots.EvalFull
               Blots.proofs.ValueInd Blots.proofs.StoreMono Blots.proofs.InstMono Blots.proofs.FullInst
               Blots.proofs.Frames Blots.proofs.Scoping
               Blots.proofs.C02Ren Blots.proofs.C02Sim Blots.proofs.C02Ops Blots.proofs.C02Keep Blots.proofs.C02Twice
               Blots.proofs.C02Let Blots.proofs.EmitHO Blots.RelTable Blots.proofs.RelPure.
Require Blots.BuiltinsList Blots.BuiltinsAgg Blots.BuiltinsText.
Import ListNotations.
Open Scope list_scope.
Open Scope nat_scope.

Section OpsFull.
  Variable rho : nat -> nat.
  Hypothesis rho_inj : forall a b, rho a = rho b -> a = b.
  Notation ren := (ren rho).
  Notation oren := (oren rho).
  Notation sinv := (sinv rho).
  Notation Mfun := (Mfun rho).
  Notation cb_eqv := (cb_eqv rho).

  (* the value relation: the graph of the renaming *)
  Definition Rr (v v' : value) : Prop := v' = ren v.

  Lemma RL_map : forall l, Forall2 Rr l (map ren l).
  Proof. induction l; cbn; constructor; [reflexivity|assumption]. Qed.
  Lemma RL_inv : forall l l', Forall2 Rr l l' -> l' = map ren l.
  Proof. induction 1 as [|x x' l l' Hx _ IH]; cbn; [reflexivity|]. unfold Rr in Hx. congruence. Qed.
  Lemma RR_map : forall r, Forall2 (RRf Rr) r (renF rho r).
  Proof. induction r as [|[k v] r IH]; cbn; constructor; [split; reflexivity|exact IH]. Qed.
  Lemma OR_inv : forall o o', orel_gen Rr o o' -> o' = oren o.
  Proof. intros o o' H. destruct o, o'; cbn in H; try contradiction; try reflexivity. unfold Rr in H. cbn. congruence. Qed.
  Lemma OR_intro : forall o o', o' = oren o -> orel_gen Rr o o'.
  Proof. intros o o' ->. destruct o; cbn; auto. reflexivity. Qed.

  Lemma Rr_inv : forall v v', Rr v v' ->
    match v with
    | VNum x => v' = VNum x
    | VBool b => v' = VBool b
    | VNull => v' = VNull
    | VStr s => v' = VStr s
    | VList l => exists l', v' = VList l' /\ Forall2 Rr l l'
    | VRec r => exists r', v' = VRec r' /\ Forall2 (RRf Rr) r r'
    | VLam _ _ _ _ => exists id' ps' b' sc', v' = VLam id' ps' b' sc'
    | VBuiltin b => v' = VBuiltin b
    | VSpread w => exists w', v' = VSpread w' /\ Rr w w'
    end.
  Proof.
    intros v v' ->. destruct v; cbn [C02Ren.ren]; try reflexivity.
    - eexists. split; [reflexivity|apply RL_map].
    - eexists. split; [reflexivity|apply RR_map].
    - repeat eexists.
    - eexists. split; reflexivity.
  Qed.
  Lemma Rr_list : forall l l', Forall2 Rr l l' -> Rr (VList l) (VList l').
  Proof. intros l l' H. rewrite (RL_inv _ _ H). reflexivity. Qed.
  Lemma Rr_rec : forall r r', Forall2 (RRf Rr) r r' -> Rr (VRec r) (VRec r').
  Proof.
    intros r r' H. unfold Rr. cbn [C02Ren.ren]. f_equal.
    induction H as [|[k v] [k' v'] r r' [E V] _ IH]; cbn; [reflexivity|]. cbn in E, V. unfold Rr in V. congruence.
  Qed.
  Lemma Rr_compare : forall a a' b b', Rr a a' -> Rr b b' -> compare a b = compare a' b'.
  Proof. intros a a' b b' -> ->. symmetry. apply compare_ren. Qed.
  Lemma Rr_equals : forall a a' b b', Rr a a' -> Rr b b' -> equals a b = equals a' b'.
  Proof. intros a a' b b' -> ->. symmetry. apply equals_ren. Qed.

  (* a callback: cb_eqv is RelPure's callback hypothesis with the store invariant *)
  Lemma cb_eqv_MRS : forall cbA cbB, cb_eqv cbA cbB ->
    forall f f' args args', Rr f f' -> Forall2 Rr args args' ->
      MRS store sinv Rr (cbA f f args) (cbB f' f' args').
  Proof.
    intros cbA cbB Hcb f f' args args' -> Ha sA sB Hs. rewrite (RL_inv _ _ Ha).
    destruct (Hcb f f args sA sB Hs) as [H1 H2]. split; [apply OR_intro; exact H1|exact H2].
  Qed.
  Lemma MRS_Mfun : forall (mA mB : store -> outcome value * store), MRS store sinv Rr mA mB -> Mfun ren mA mB.
  Proof. intros mA mB H sA sB Hs. destruct (H sA sB Hs) as [H1 H2]. split; [apply OR_inv; exact H1|exact H2]. Qed.

  (* Hypothesis Hbu of C02Sim.v for the FULL built-in dispatcher *)
  Theorem builtin_full_sim : forall cbA cbB, cb_eqv cbA cbB ->
    forall b args, Mfun ren (builtin_full cbA b args) (builtin_full cbB b (map ren args)).
  Proof.
    intros cbA cbB Hcb b args.
    destruct (pure_arm_of b) as [f|] eqn:E.
    - (* a pure arm of RelPure.v *)
      rewrite !(builtin_full_pure _ b f E). apply pure_bi_Mfun. apply OR_inv.
      apply (pure_arms_R_eq Rr Rr_inv (fun x => eq_refl) (fun x => eq_refl) eq_refl (fun x => eq_refl)
               Rr_list Rr_compare Rr_equals b f E). apply RL_map.
    - destruct (callback_arm b) eqn:C.
      + pose proof (cb_eqv_MRS cbA cbB Hcb) as Hc.
        destruct b; cbn in C; try discriminate C; cbn [builtin_full]; apply MRS_Mfun.
        * apply (bi_sort_by_R Rr Rr_inv Rr_list Rr_compare store sinv cbA cbB Hc). apply RL_map.
        * apply (bi_group_by_R Rr Rr_inv Rr_list Rr_rec store sinv cbA cbB Hc). apply RL_map.
        * apply (bi_count_by_R Rr Rr_inv (fun x => eq_refl) Rr_rec store sinv cbA cbB Hc). apply RL_map.
      + rewrite !(builtin_full_other _ b E C). apply (builtin_impl_sim rho cbA cbB Hcb).
  Qed.
End OpsFull.

(* ---- [ops_commute] for the full dispatcher, and the theorems of C02Twice.v / C02Let.v for it ---- *)
Theorem ops_commute_full : ops_commute binop_impl builtin_full.
Proof.
  intros rho Hinj. split.
  - apply binop_impl_sim.
  - apply builtin_full_sim.
Qed.

Theorem store_extension_invariance_full : forall release rho, (forall a b : nat, rho a = rho b -> a = b) ->
  forall d e sA sB fr r sA' fr',
    sinv rho sA sB -> evalD release binop_impl builtin_full d (sA, fr) e = (r, (sA', fr')) ->
    exists sB', evalD release binop_impl builtin_full d (sB, renFr rho fr) e = (oren rho r, (sB', renFr rho fr')) /\
                sinv rho sA' sB'.
Proof. intros release. exact (store_extension_invariance release binop_impl builtin_full ops_commute_full). Qed.

(* with the repaired naming rule (F52; proofs/C02Keep.v: no evaluation writes to a cell that existed before it)
   there is no side condition on names *)
Theorem eval_twice_exact_full : forall release d e st fr r1 st1 fr1,
  no_assign e = true -> frames_lt (length st) fr = true ->
  evalD release binop_impl builtin_full d (st, fr) e = (r1, (st1, fr1)) ->
  fr1 = fr /\
  exists st2, evalD release binop_impl builtin_full d (st1, fr) e =
                (oren (shift (length st) (length st1 - length st)) r1, (st2, fr)) /\
              sinv (shift (length st) (length st1 - length st)) st1 st2.
Proof.
  intros release d e st fr r1 st1 fr1 Hna Hwf HA.
  destruct (store_keep_old_names _ _ (evalD_store_keep_full release d (st, fr) e r1 (st1, fr1) HA)) as [Hlen Hk].
  exact (eval_twice_shift release binop_impl builtin_full ops_commute_full d e st fr r1 st1 fr1 Hna Hwf HA Hlen Hk).
Qed.

Theorem eval_twice_full : forall release d e c r1 c1 r2 c2,
  no_assign e = true -> cfg_wf c = true ->
  evalD release binop_impl builtin_full d c e = (r1, c1) ->
  evalD release binop_impl builtin_full d c1 e = (r2, c2) ->
  osame r1 r2 /\ snd c2 = snd c /\ snd c1 = snd c.
Proof. exact (eval_twice_full_dispatcher ops_commute_full). Qed.

Corollary eval_twice_full_equals : forall release d e c v1 c1 v2 c2,
  no_assign e = true -> cfg_wf c = true ->
  evalD release binop_impl builtin_full d c e = (Ok v1, c1) ->
  evalD release binop_impl builtin_full d c1 e = (Ok v2, c2) ->
  equals v1 v2 = equals v1 v1.
Proof.
  intros release d e c v1 c1 v2 c2 Hna Hwf HA HB.
  destruct (eval_twice_full release d e c (Ok v1) c1 (Ok v2) c2 Hna Hwf HA HB) as [Hs _].
  apply same_equals. exact Hs.
Qed.

(* LET-ABSTRACTION for head contexts, for the full dispatcher *)
Theorem let_abstraction_head_full : forall release d x s st st1 fr v eA eB rA cA rB cB,
  frames_lt (length st) fr = true ->
  evalD release binop_impl builtin_full d (st, fr) (EId x) = (Ok v, (st, fr)) ->
  evalD release binop_impl builtin_full d (st, fr) s = (Ok v, (st1, fr)) ->
  cell_free v = true ->
  hctx x s eA eB ->
  evalD release binop_impl builtin_full d (st, fr) eA = (rA, cA) ->
  evalD release binop_impl builtin_full d (st, fr) eB = (rB, cB) ->
  osame rA rB.
Proof.
  intros release d x s st st1 fr v eA eB rA cA rB cB Hwf Hx Hs Hv H HA HB.
  destruct (store_keep_old_names _ _ (evalD_store_keep_full release d _ _ _ _ Hs)) as [Hlen Hk]. cbn [fst] in Hlen, Hk.
  exact (proj1 (let_abstraction_head release binop_impl builtin_full ops_commute_full d x s st st1 fr v
                  Hwf Hx Hs Hv Hlen Hk eA eB rA cA rB cB H HA HB)).
Qed.

(* the classification RelTable.calls_back is exact for the model: every other arm ignores its callback *)
Lemma builtin_full_ignores_callback : forall b, calls_back b = false ->
  forall cb cb' args st, builtin_full cb b args st = builtin_full cb' b args st.
Proof. intros b H cb cb' args st. destruct b; try discriminate H; reflexivity. Qed.
