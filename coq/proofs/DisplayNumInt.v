(* DisplayNumInt.v — C20: integer digits and the numeric side facts.
   - nat_digits / int_to_text produce the decimal digits of the integer (value-exact)
   - valid doubles below 2^53 that are integral convert to i64 exactly
   - num_to_Q: the rational a double denotes. *)
From Coq Require Import ZArith Bool String Ascii List Lia QArith Qpower Floats.SpecFloat.
Require Import Blots.Num Blots.Outcome Blots.DisplayNum.
Require Import Blots.proofs.DisplayNumGroup Blots.proofs.DisplayNumSpec Blots.proofs.DisplayNumText.
Import ListNotations.
Open Scope char_scope.
Open Scope Z_scope.

(* ---------- digits ---------- *)
Lemma digit_char_val : forall d, 0 <= d < 10 ->
  digit_val (digit_char d) = d /\ is_digit (digit_char d) = true.
Proof.
  intros d H.
  assert (C : d = 0 \/ d = 1 \/ d = 2 \/ d = 3 \/ d = 4 \/ d = 5 \/ d = 6 \/ d = 7 \/ d = 8 \/ d = 9) by lia.
  repeat (destruct C as [C|C]; [subst; split; reflexivity|]). subst; split; reflexivity.
Qed.

Lemma div_eucl_10 : forall n q r, Z.div_eucl n 10 = (q, r) -> n = 10 * q + r /\ 0 <= r < 10.
Proof.
  intros n q r E. pose proof (Z_div_mod n 10 ltac:(lia)) as H. rewrite E in H. exact H.
Qed.

Lemma digits_fuel_spec : forall fuel n acc,
  0 <= n < 10 ^ Z.of_nat (S fuel) ->
  exists ds, digits_fuel fuel n acc = ds ++ acc /\ ds <> [] /\
             forallb is_digit ds = true /\ digits_value ds = n.
Proof.
  induction fuel as [|f IH]; intros n acc H; cbn [digits_fuel];
    destruct (Z.div_eucl n 10) as [q r] eqn:E; destruct (div_eucl_10 _ _ _ E) as [Hn Hr];
    destruct (digit_char_val r Hr) as [Hv Hd].
  - exists [digit_char r]. repeat split; try congruence.
    + cbn. now rewrite Hd.
    + unfold digits_value. cbn. rewrite Hv. change (10 ^ Z.of_nat 1) with 10 in H. lia.
  - destruct (q =? 0) eqn:Q.
    + exists [digit_char r]. apply Z.eqb_eq in Q. repeat split; try congruence.
      * cbn. now rewrite Hd.
      * unfold digits_value. cbn. rewrite Hv. lia.
    + apply Z.eqb_neq in Q.
      assert (Hq : 0 <= q < 10 ^ Z.of_nat (S f)).
      { rewrite (Nat2Z.inj_succ (S f)), Z.pow_succ_r in H by lia. lia. }
      destruct (IH q (digit_char r :: acc) Hq) as (ds & E1 & Hne & Hall & Hval).
      exists (ds ++ [digit_char r]). repeat split.
      * rewrite E1. now rewrite <- app_assoc.
      * destruct ds; discriminate.
      * rewrite forallb_app, Hall. cbn. now rewrite Hd.
      * rewrite digits_value_app, Hval. unfold digits_value at 1, pow10. cbn. rewrite Hv. lia.
Qed.

Lemma nat_digits_spec : forall n, 0 <= n ->
  all_digits (nat_digits n) = true /\ digits_value (nat_digits n) = n.
Proof.
  intros n Hn. unfold nat_digits.
  assert (B : 0 <= n < 10 ^ Z.of_nat (S (Z.to_nat (Z.log2 n)))).
  { split; [exact Hn|]. rewrite Nat2Z.inj_succ, Z2Nat.id by apply Z.log2_nonneg.
    destruct (Z.eq_dec n 0) as [->|Hz]; [reflexivity|].
    destruct (Z.log2_spec n ltac:(lia)) as [_ Hu].
    eapply Z.lt_le_trans; [exact Hu|].
    apply Z.pow_le_mono_l. lia. }
  destruct (digits_fuel_spec _ n [] B) as (ds & E & Hne & Hall & Hval).
  rewrite app_nil_r in E. rewrite E. split; [|exact Hval].
  now apply all_digits_intro.
Qed.

Lemma int_to_text_nonneg : forall v, 0 <= v -> int_to_text v = nat_digits v.
Proof. intros v H. unfold int_to_text. destruct (v <? 0) eqn:E; [apply Z.ltb_lt in E; lia|reflexivity]. Qed.

(* i32 / i64 Display:  -? d+ , denoting the integer *)
Lemma int_to_text_spec : forall v, wf_exponent (int_to_text v) = true /\ int_value (int_to_text v) = v.
Proof.
  intros v. unfold int_to_text, wf_exponent, int_value, strip_sign.
  destruct (v <? 0) eqn:E.
  - apply Z.ltb_lt in E. destruct (nat_digits_spec (- v) ltac:(lia)) as [Ha Hv].
    cbn [starts_with tl]. change (Ascii.eqb "-" "-") with true. cbn iota. rewrite Hv. split; [exact Ha|lia].
  - apply Z.ltb_ge in E. destruct (nat_digits_spec v E) as [Ha Hv].
    rewrite (starts_with_digits "-" _ eq_refl Ha). split; assumption.
Qed.

(* ---------- the rational a double denotes ---------- *)
Definition num_to_Q (x : num) : Q :=
  match x with
  | S754_finite s m e => inject_Z (cond_Zopp s (Zpos m)) * Qpower (2 # 1) e
  | _ => 0
  end.

Lemma Qpower2_nonneg : forall e, 0 <= e -> (Qpower (2 # 1) e == inject_Z (2 ^ e))%Q.
Proof. intros e H. rewrite Zpower_Qpower by exact H. reflexivity. Qed.

Lemma Qpower2_neg : forall d, 0 < d -> (inject_Z (2 ^ d) * Qpower (2 # 1) (- d) == 1)%Q.
Proof.
  intros d H. rewrite Qpower_opp. rewrite <- Qpower2_nonneg by lia.
  apply Qmult_inv_r. rewrite Qpower2_nonneg by lia.
  unfold Qeq, inject_Z. cbn. pose proof (Z.pow_pos_nonneg 2 d ltac:(lia) ltac:(lia)). lia.
Qed.

(* an integral finite double denotes its integer part *)
Lemma integral_value : forall s m e q d,
  split_int m e = (q, 0, d) -> (num_to_Q (S754_finite s m e) == inject_Z (cond_Zopp s q))%Q.
Proof.
  intros s m e q d H. unfold split_int in H. unfold num_to_Q.
  destruct (0 <=? e) eqn:E.
  - apply Z.leb_le in E. injection H as <- _. rewrite Qpower2_nonneg by exact E.
    rewrite <- inject_Z_mult.
    assert (C : cond_Zopp s (Zpos m) * 2 ^ e = cond_Zopp s (Zpos m * 2 ^ e)) by (destruct s; unfold cond_Zopp; ring).
    rewrite C. reflexivity.
  - apply Z.leb_gt in E. injection H as Hq Hr _.
    assert (Hm : Zpos m = q * 2 ^ (- e)).
    { pose proof (Z.div_mod (Zpos m) (2 ^ (- e))) as D.
      assert (2 ^ (- e) <> 0) by (pose proof (Z.pow_pos_nonneg 2 (- e) ltac:(lia) ltac:(lia)); lia).
      specialize (D H). rewrite Hq, Hr in D. lia. }
    rewrite Hm. replace e with (- (- e)) at 2 by lia.
    assert (C : cond_Zopp s (q * 2 ^ (- e)) = cond_Zopp s q * 2 ^ (- e)) by (destruct s; unfold cond_Zopp; ring).
    rewrite C, inject_Z_mult, <- Qmult_assoc, Qpower2_neg by lia. ring.
Qed.

(* ---------- sizes of valid doubles ---------- *)
Lemma digits2_pos_bound : forall m, Zpos m < 2 ^ Zpos (digits2_pos m).
Proof.
  induction m as [m IH|m IH|]; cbn [digits2_pos].
  - rewrite Pos2Z.inj_succ, Z.pow_succ_r by lia. lia.
  - rewrite Pos2Z.inj_succ, Z.pow_succ_r by lia. lia.
  - reflexivity.
Qed.

Lemma valid_mantissa_bound : forall m e, bounded prec emax m e = true -> Zpos m < 2 ^ 53.
Proof.
  intros m e H. unfold bounded in H. apply andb_true_iff in H. destruct H as [H _].
  unfold canonical_mantissa in H. apply Zeq_bool_eq in H.
  unfold fexp, SpecFloat.emin, prec, emax in H.
  assert (D : Zpos (digits2_pos m) <= 53) by lia.
  eapply Z.lt_le_trans; [apply digits2_pos_bound|].
  apply Z.pow_le_mono_r; lia.
Qed.

Lemma split_int_bounds : forall m e q r d, split_int m e = (q, r, d) ->
  0 <= q /\ (e <= 0 -> q <= Zpos m) /\ (r = 0 -> 0 < q).
Proof.
  intros m e q r d H. unfold split_int in H. destruct (0 <=? e) eqn:E.
  - apply Z.leb_le in E. apply pair_equal_spec in H. destruct H as [H _].
    apply pair_equal_spec in H. destruct H as [Hq Hr]. subst q r.
    pose proof (Z.pow_pos_nonneg 2 e ltac:(lia) E).
    repeat split.
    + apply Z.mul_nonneg_nonneg; lia.
    + intros. assert (e = 0) by lia. subst e. rewrite Z.pow_0_r. lia.
    + intros. apply Z.mul_pos_pos; lia.
  - apply Z.leb_gt in E. injection H as Hq Hr _.
    pose proof (Z.pow_pos_nonneg 2 (- e) ltac:(lia) ltac:(lia)) as P.
    pose proof (Z.div_mod (Zpos m) (2 ^ (- e)) ltac:(lia)) as D. rewrite Hq, Hr in D.
    pose proof (Z.mod_pos_bound (Zpos m) (2 ^ (- e)) P) as B. rewrite Hr in B.
    assert (0 <= q) by (rewrite <- Hq; apply Z.div_pos; lia).
    repeat split; try assumption; try nia.
Qed.

(* |x| < 1e15 *)
Lemma lt_1e15_exp : forall m e, nltb (S754_finite false m e) c_1e15 = true -> e <= -3.
Proof.
  intros m e H. unfold nltb, SFltb, SFcompare, c_1e15 in H.
  destruct (Z.compare_spec e (-3)); try lia; try discriminate.
Qed.
(* |x| < 2^53 *)
Lemma lt_2p53_exp : forall m e, nltb (S754_finite false m e) c_2p53 = true ->
  e <= 0 \/ (e = 1 /\ Zpos m < 2 ^ 52).
Proof.
  intros m e H. unfold nltb, SFltb, SFcompare, c_2p53 in H.
  destruct (Z.compare_spec e 1); try lia; try discriminate.
  right. split; [assumption|].
  destruct (Pos.compare_cont Eq m 4503599627370496) eqn:C; try discriminate.
  assert (C' : (m ?= 4503599627370496)%positive = Lt) by exact C.
  apply Pos.compare_lt_iff in C'. apply Pos2Z.pos_lt_pos in C'.
  replace (2 ^ 52) with 4503599627370496 by (vm_compute; reflexivity). exact C'.
Qed.
Lemma exp_lt_2p53 : forall m e, e <= -3 -> nltb (S754_finite false m e) c_2p53 = true.
Proof.
  intros m e H. unfold nltb, SFltb, SFcompare, c_2p53.
  destruct (Z.compare_spec e 1); try lia; try reflexivity.
Qed.

(* `value as i64` of a valid integral double below 2^53 *)
Lemma as_i64_small : forall s m e q r d,
  bounded prec emax m e = true ->
  nltb (S754_finite false m e) c_2p53 = true ->
  split_int m e = (q, r, d) ->
  as_i64 (S754_finite s m e) = cond_Zopp s q /\ 0 <= q < 2 ^ 53.
Proof.
  intros s m e q r d Hv Hlt Hs.
  pose proof (valid_mantissa_bound m e Hv) as Hm.
  destruct (split_int_bounds m e q r d Hs) as (Hq0 & Hqm & _).
  assert (Hq : q < 2 ^ 53).
  { destruct (lt_2p53_exp m e Hlt) as [He|[He Hm52]].
    - specialize (Hqm He). lia.
    - subst e. unfold split_int in Hs. cbn in Hs. injection Hs as <- _ _.
      change (2 ^ 53) with (2 ^ 52 * 2). lia. }
  split; [|lia].
  unfold as_i64, cast_int, Z_of_num_trunc. rewrite Hs.
  unfold clamp, I64_MIN, I64_MAX.
  change (2 ^ 53) with 9007199254740992 in Hq.
  destruct s; cbn [cond_Zopp].
  - destruct (- q <? - 2 ^ 63) eqn:A; [apply Z.ltb_lt in A; change (2 ^ 63) with 9223372036854775808 in A; lia|].
    destruct (2 ^ 63 - 1 <? - q) eqn:B; [apply Z.ltb_lt in B; change (2 ^ 63) with 9223372036854775808 in B; lia|].
    reflexivity.
  - destruct (q <? - 2 ^ 63) eqn:A; [apply Z.ltb_lt in A; change (2 ^ 63) with 9223372036854775808 in A; lia|].
    destruct (2 ^ 63 - 1 <? q) eqn:B; [apply Z.ltb_lt in B; change (2 ^ 63) with 9223372036854775808 in B; lia|].
    reflexivity.
Qed.
