(* DisplayNumDischarge1.v — C20: the executable library models of coq/DisplayNum.v, text and
   integer level (axiom-free part).
     - div_rhe n d is n/d rounded to the nearest integer (|q*d - n| <= d/2)
     - nat_digits q has no leading zero (its length is the number of decimal digits of q)
     - fixed_digits q n is the decimal  q / 10^n  written with exactly n fraction digits
     - hence: the shape and the exact rational value of fmt_prec_exec x n, for every finite x
     - parse_i32 reads back what int_to_text (i32 Display) printed
     - parse_f64_exec on a 15-digit mantissa text  -?d.d{14}  is rn_ratio of its digits over 10^14
   The real-number statements (error bounds, decade of a double, rounding of rn_ratio) are in
   DisplayNumDischarge2.v. *)
From Coq Require Import ZArith Bool String Ascii List Lia QArith Floats.SpecFloat.
Require Import Blots.Num Blots.Outcome Blots.DisplayNum.
Require Import Blots.proofs.DisplayNumGroup Blots.proofs.DisplayNumSpec Blots.proofs.DisplayNumText
               Blots.proofs.DisplayNumInt Blots.proofs.DisplayNum Blots.proofs.DisplayNumAcc.
Import ListNotations.
Open Scope char_scope.
Open Scope Z_scope.

(* ---------- round-half-even integer division ---------- *)
Lemma div_rhe_spec : forall n d, 0 <= n -> 0 < d ->
  0 <= div_rhe n d /\ Z.abs (2 * (div_rhe n d * d - n)) <= d.
Proof.
  intros n d Hn Hd. unfold div_rhe.
  pose proof (Z_div_mod n d ltac:(lia)) as H.
  destruct (Z.div_eucl n d) as [q r]. destruct H as [E R].
  assert (Hq : 0 <= q) by nia.
  destruct (2 * r ?= d) eqn:C.
  - apply Z.compare_eq in C. destruct (Z.even q); split; try lia; subst n; lia.
  - rewrite Z.compare_lt_iff in C. split; [lia|]. subst n. lia.
  - rewrite Z.compare_gt_iff in C. split; [lia|]. subst n. lia.
Qed.

(* ties go to the even integer *)
Lemma div_rhe_half_even : forall n d, 0 <= n -> 0 < d -> 2 * (n mod d) = d ->
  Z.even (div_rhe n d) = true.
Proof.
  intros n d Hn Hd T. unfold div_rhe. unfold Z.modulo in T.
  destruct (Z.div_eucl n d) as [q r] eqn:DE.
  assert (C : (2 * r ?= d) = Eq) by (apply Z.compare_eq_iff; exact T). rewrite C.
  destruct (Z.even q) eqn:Ev; [exact Ev|].
  rewrite Z.add_1_r, Z.even_succ, <- Z.negb_even, Ev. reflexivity.
Qed.

(* ---------- digit strings ---------- *)
Lemma zeros_repeat : forall k, zeros k = repeat "0" k.
Proof. induction k; [reflexivity|]. cbn [zeros repeat]. now rewrite IHk. Qed.

Lemma zeros_length : forall k, length (zeros k) = k.
Proof. intros. rewrite zeros_repeat. apply repeat_length. Qed.

Lemma zeros_digits : forall k, forallb is_digit (zeros k) = true.
Proof. induction k; [reflexivity|]. cbn [zeros forallb]. now rewrite IHk. Qed.

Lemma digits_value_leading_zeros : forall k l, digits_value (zeros k ++ l) = digits_value l.
Proof. intros. rewrite digits_value_app, zeros_repeat, digits_value_zeros. lia. Qed.

Lemma pow10_S : forall n, pow10 (S n) = 10 * pow10 n.
Proof. intros. unfold pow10. rewrite Nat2Z.inj_succ, Z.pow_succ_r by lia. reflexivity. Qed.

Lemma digit_val_range : forall a, is_digit a = true -> 0 <= digit_val a <= 9.
Proof.
  intros a H. unfold is_digit in H. unfold digit_val.
  apply andb_true_iff in H. destruct H as [H1 H2].
  apply Z.leb_le in H1. apply Z.leb_le in H2. lia.
Qed.

Lemma digits_value_bound : forall l, forallb is_digit l = true -> 0 <= digits_value l < pow10 (length l).
Proof.
  induction l as [|a l IH]; intros H.
  - unfold digits_value, pow10. cbn. lia.
  - cbn [forallb] in H. apply andb_true_iff in H. destruct H as [Ha Hl].
    change (a :: l) with ([a] ++ l). rewrite digits_value_app.
    change (length ([a] ++ l)) with (S (length l)). rewrite pow10_S.
    assert (E : digits_value [a] = digit_val a) by (unfold digits_value; cbn; lia).
    rewrite E. pose proof (digit_val_range a Ha). specialize (IH Hl). nia.
Qed.

Lemma pow10_lt_inv : forall a b, pow10 a < pow10 b -> (a < b)%nat.
Proof.
  intros a b H. unfold pow10 in H.
  apply Z.pow_lt_mono_r_iff in H; lia.
Qed.

(* no leading zero: 10^(len-1) <= n *)
Lemma digits_fuel_len : forall fuel n acc,
  0 < n < 10 ^ Z.of_nat (S fuel) ->
  exists ds, digits_fuel fuel n acc = ds ++ acc /\ pow10 (length ds) <= 10 * n.
Proof.
  induction fuel as [|f IH]; intros n acc H; cbn [digits_fuel];
    destruct (Z.div_eucl n 10) as [q r] eqn:E; destruct (div_eucl_10 _ _ _ E) as [Hn Hr].
  - exists [digit_char r]. split; [reflexivity|]. change (pow10 (length [digit_char r])) with 10. lia.
  - destruct (q =? 0) eqn:Q.
    + exists [digit_char r]. split; [reflexivity|]. change (pow10 (length [digit_char r])) with 10. lia.
    + apply Z.eqb_neq in Q.
      assert (Hq : 0 < q < 10 ^ Z.of_nat (S f)).
      { rewrite (Nat2Z.inj_succ (S f)), Z.pow_succ_r in H by lia. lia. }
      destruct (IH q (digit_char r :: acc) Hq) as (ds & E1 & Hl).
      exists (ds ++ [digit_char r]). split.
      * rewrite E1. now rewrite <- app_assoc.
      * rewrite app_length. cbn [length]. rewrite Nat.add_1_r, pow10_S. lia.
Qed.

Lemma nat_digits_length : forall n k, pow10 k <= n < pow10 (S k) -> length (nat_digits n) = S k.
Proof.
  intros n k [Hl Hu]. pose proof (pow10_pos k) as Pk.
  destruct (nat_digits_spec n ltac:(lia)) as [Ha Hv].
  pose proof (digits_value_bound _ (all_digits_forallb _ Ha)) as B. rewrite Hv in B.
  assert (L : pow10 (length (nat_digits n)) <= 10 * n).
  { unfold nat_digits.
    assert (Bn : 0 < n < 10 ^ Z.of_nat (S (Z.to_nat (Z.log2 n)))).
    { split; [lia|]. rewrite Nat2Z.inj_succ, Z2Nat.id by apply Z.log2_nonneg.
      destruct (Z.log2_spec n ltac:(lia)) as [_ Hu2].
      eapply Z.lt_le_trans; [exact Hu2|]. apply Z.pow_le_mono_l. lia. }
    destruct (digits_fuel_len _ n [] Bn) as (ds & E & Hd). rewrite E, app_nil_r. exact Hd. }
  assert (A : (k < length (nat_digits n))%nat) by (apply pow10_lt_inv; lia).
  assert (C : (length (nat_digits n) < S (S k))%nat).
  { apply pow10_lt_inv. rewrite (pow10_S (S k)). lia. }
  lia.
Qed.

(* ---------- fixed_digits: q / 10^n with exactly n fraction digits ---------- *)
Definition frac_of (ofp : option text) : text := match ofp with Some fp => fp | None => [] end.

Lemma fixed_digits_spec : forall q n, 0 <= q -> 0 <= n ->
  exists ip ofp, fixed_digits q n = mk_plain false ip ofp /\ all_digits ip = true /\ ok_frac ofp = true /\
    (n = 0 -> ofp = None) /\ (0 < n -> exists fp, ofp = Some fp /\ Z.of_nat (length fp) = n) /\
    Z.of_nat (length (frac_of ofp)) = n /\
    digits_value (ip ++ frac_of ofp) = q.
Proof.
  intros q n Hq Hn. unfold fixed_digits.
  destruct (nat_digits_spec q Hq) as [Ha Hv].
  set (nn := Z.to_nat n). set (ds := zeros (S nn - length (nat_digits q)) ++ nat_digits q).
  assert (Fd : forallb is_digit ds = true).
  { unfold ds. rewrite forallb_app, zeros_digits. now apply all_digits_forallb. }
  assert (Vd : digits_value ds = q) by (unfold ds; now rewrite digits_value_leading_zeros).
  assert (Ld : (S nn <= length ds)%nat).
  { unfold ds. rewrite app_length, zeros_length. lia. }
  destruct (n =? 0) eqn:E.
  - apply Z.eqb_eq in E.
    assert (A1 : all_digits ds = true).
    { apply all_digits_intro; [|exact Fd]. destruct ds; [cbn in Ld; lia|discriminate]. }
    assert (A2 : digits_value (ds ++ frac_of None) = q) by (cbn [frac_of]; now rewrite app_nil_r).
    assert (A3 : Z.of_nat (length (frac_of None)) = n) by (cbn; lia).
    assert (A4 : ds = mk_plain false ds None).
    { unfold mk_plain, sign_text, frac_text. cbn [app]. now rewrite app_nil_r. }
    exists ds, None. split; [exact A4|]. split; [exact A1|]. split; [reflexivity|].
    split; [reflexivity|]. split; [intros; lia|]. split; [exact A3|exact A2].
  - apply Z.eqb_neq in E.
    set (k := (length ds - nn)%nat).
    assert (Hk : (1 <= k <= length ds)%nat) by (unfold k; lia).
    pose proof (firstn_skipn k ds) as FS.
    assert (Fb : forallb is_digit (firstn k ds) = true /\ forallb is_digit (skipn k ds) = true).
    { rewrite <- FS in Fd. rewrite forallb_app in Fd. now apply andb_true_iff in Fd. }
    destruct Fb as [F1 F2].
    assert (L1 : length (firstn k ds) = k) by (rewrite firstn_length; lia).
    assert (L2 : length (skipn k ds) = nn) by (rewrite skipn_length; unfold k; lia).
    assert (Nn : (0 < nn)%nat) by (unfold nn; lia).
    assert (A1 : all_digits (firstn k ds) = true).
    { apply all_digits_intro; [|exact F1]. intros Z0. rewrite Z0 in L1. change (@length ascii []) with 0%nat in L1. lia. }
    assert (A2 : all_digits (skipn k ds) = true).
    { apply all_digits_intro; [|exact F2]. intros Z0. rewrite Z0 in L2. change (@length ascii []) with 0%nat in L2. lia. }
    assert (A3 : Z.of_nat (length (skipn k ds)) = n) by (rewrite L2; unfold nn; lia).
    exists (firstn k ds), (Some (skipn k ds)).
    split; [reflexivity|]. split; [exact A1|]. split; [exact A2|].
    split; [intros; lia|]. split; [intros _; exists (skipn k ds); split; [reflexivity|exact A3]|].
    split; [exact A3|]. cbn [frac_of]. now rewrite FS.
Qed.

(* the text  sign ++ fixed_digits q n  and the rational it denotes *)
Lemma signed_fixed_digits : forall s q n, 0 <= q -> 0 <= n ->
  exists ip ofp, sign_text s ++ fixed_digits q n = mk_plain s ip ofp /\
    all_digits ip = true /\ ok_frac ofp = true /\
    (n = 0 -> ofp = None) /\ (0 < n -> exists fp, ofp = Some fp /\ Z.of_nat (length fp) = n) /\
    denote_plain (mk_plain s ip ofp) = Qmake (cond_Zopp s q) (Z.to_pos (10 ^ n)).
Proof.
  intros s q n Hq Hn.
  destruct (fixed_digits_spec q n Hq Hn) as (ip & ofp & E & Hi & Hf & H0 & H1 & Hl & Hv).
  exists ip, ofp. rewrite E. repeat split; auto.
  rewrite denote_plain_mk_plain by exact Hi. cbn zeta. unfold dec_value.
  fold (frac_of ofp). rewrite Hv. unfold pow10. rewrite Hl.
  destruct s; reflexivity.
Qed.

Lemma prec_shape_mk_plain : forall n neg ip ofp,
  all_digits ip = true -> ok_frac ofp = true ->
  (n = 0 -> ofp = None) -> (0 < n -> exists fp, ofp = Some fp /\ Z.of_nat (length fp) = n) -> 0 <= n ->
  prec_shape n (mk_plain neg ip ofp) = true.
Proof.
  intros n neg ip ofp Hi Hf H0 H1 Hn. unfold prec_shape. rewrite strip_sign_mk_plain by exact Hi.
  unfold prec_body_shape. rewrite break_at_mk_plain by exact Hi. rewrite Hi. cbn [andb].
  destruct (Z.eq_dec n 0) as [Z0|NZ].
  - rewrite (H0 Z0). now apply Z.eqb_eq.
  - destruct (H1 ltac:(lia)) as (fp & -> & Hl). cbn [ok_frac] in Hf. rewrite Hf.
    assert (A : (0 <? n) = true) by (apply Z.ltb_lt; lia). rewrite A. cbn [andb]. now apply Z.eqb_eq.
Qed.

(* ---------- |m * 2^e| as a fraction ---------- *)
Lemma mag_frac_cases : forall m e N D, mag_frac m e = (N, D) ->
  (0 <= e /\ N = Zpos m * 2 ^ e /\ D = 1) \/ (e < 0 /\ N = Zpos m /\ D = 2 ^ (- e)).
Proof.
  intros m e N D H. unfold mag_frac in H.
  destruct (0 <=? e) eqn:E; [left; apply Z.leb_le in E|right; apply Z.leb_gt in E];
    pose proof (f_equal fst H) as H1; pose proof (f_equal snd H) as H2; cbn [fst snd] in H1, H2;
    repeat split; auto.
Qed.

Lemma mag_frac_pos : forall m e N D, mag_frac m e = (N, D) -> 0 < N /\ 0 < D.
Proof.
  intros m e N D H.
  destruct (mag_frac_cases _ _ _ _ H) as [(E & -> & ->)|(E & -> & ->)].
  - split; [|lia]. assert (0 < 2 ^ e) by (apply Z.pow_pos_nonneg; lia). nia.
  - split; [lia|]. apply Z.pow_pos_nonneg; lia.
Qed.

(* ---------- format!("{:.n$}", x): shape and exact value of the executable model ---------- *)
(* the integer  round_half_even(|x| * 10^n) *)
Definition prec_q (x : num) (n : Z) : Z :=
  match x with
  | S754_finite _ m e => let '(N, D) := mag_frac m e in div_rhe (N * 10 ^ n) D
  | _ => 0
  end.

Lemma prec_q_nonneg : forall x n, 0 <= n -> 0 <= prec_q x n.
Proof.
  intros [s|s| |s m e] n Hn; cbn [prec_q]; try lia.
  destruct (mag_frac m e) as [N D] eqn:E. destruct (mag_frac_pos _ _ _ _ E) as [HN HD].
  apply div_rhe_spec; [|exact HD]. apply Z.mul_nonneg_nonneg; [lia|]. apply Z.pow_nonneg. lia.
Qed.

(* when |x| * 10^n is exactly halfway between two integers the even one is printed *)
Theorem fmt_prec_exec_half_even : forall s m e n N D, 0 <= n -> mag_frac m e = (N, D) ->
  2 * ((N * 10 ^ n) mod D) = D -> Z.even (prec_q (S754_finite s m e) n) = true.
Proof.
  intros s m e n N D Hn E T. cbn [prec_q]. rewrite E.
  destruct (mag_frac_pos _ _ _ _ E) as [HN HD].
  apply div_rhe_half_even; [|exact HD|exact T].
  apply Z.mul_nonneg_nonneg; [lia|]. apply Z.pow_nonneg. lia.
Qed.

Lemma fmt_prec_exec_text : forall x n, is_finite x = true ->
  fmt_prec_exec x n = sign_text (nsign x) ++ fixed_digits (prec_q x n) n.
Proof.
  intros [s|s| |s m e] n F; try discriminate F; cbn [fmt_prec_exec prec_q nsign].
  - destruct s; reflexivity.
  - destruct (mag_frac m e) as [N D]. destruct s; reflexivity.
Qed.

Theorem fmt_prec_exec_shape : forall x n, is_finite x = true -> 0 <= n ->
  prec_shape n (fmt_prec_exec x n) = true.
Proof.
  intros x n F Hn. rewrite fmt_prec_exec_text by exact F.
  destruct (signed_fixed_digits (nsign x) (prec_q x n) n (prec_q_nonneg x n Hn) Hn)
    as (ip & ofp & E & Hi & Hf & H0 & H1 & _).
  rewrite E. now apply prec_shape_mk_plain.
Qed.

Theorem fmt_prec_exec_value : forall x n, is_finite x = true -> 0 <= n ->
  denote_plain (fmt_prec_exec x n) = Qmake (cond_Zopp (nsign x) (prec_q x n)) (Z.to_pos (10 ^ n)).
Proof.
  intros x n F Hn. rewrite fmt_prec_exec_text by exact F.
  destruct (signed_fixed_digits (nsign x) (prec_q x n) n (prec_q_nonneg x n Hn) Hn)
    as (ip & ofp & E & Hi & Hf & H0 & H1 & V).
  now rewrite E.
Qed.

(* ---------- a 15-digit integer printed with 14 fraction digits is  d.d{14} ---------- *)
Lemma fixed_digits_15 : forall q, 10 ^ 14 <= q < 10 ^ 15 ->
  exists d fp, fixed_digits q 14 = d :: "." :: fp /\ is_digit d = true /\ all_digits fp = true /\
               length fp = 14%nat /\ digits_value (d :: fp) = q.
Proof.
  intros q Hq.
  assert (L : length (nat_digits q) = 15%nat) by (apply (nat_digits_length q 14); exact Hq).
  destruct (nat_digits_spec q ltac:(lia)) as [Ha Hv].
  unfold fixed_digits. rewrite L.
  destruct (nat_digits q) as [|d fp] eqn:E; [discriminate L|].
  cbn [length] in L. injection L as L.
  change (Z.to_nat 14) with 14%nat. change (14 =? 0) with false. cbv iota.
  change (15 - 15)%nat with 0%nat. cbn [zeros app length]. rewrite L.
  change (15 - 14)%nat with 1%nat. cbn [firstn skipn app].
  pose proof (all_digits_forallb _ Ha) as F. cbn [forallb] in F. apply andb_true_iff in F.
  destruct F as [Fd Ff].
  exists d, fp. repeat split; auto.
  apply all_digits_intro; [|exact Ff]. intros Z0. rewrite Z0 in L. discriminate L.
Qed.

(* ---------- characters ---------- *)
Lemma is_digit_cases : forall a, is_digit a = true ->
  a = "0" \/ a = "1" \/ a = "2" \/ a = "3" \/ a = "4" \/ a = "5" \/ a = "6" \/ a = "7" \/ a = "8" \/ a = "9".
Proof.
  intros [b0 b1 b2 b3 b4 b5 b6 b7] H.
  destruct b0, b1, b2, b3, b4, b5, b6, b7; try discriminate H; tauto.
Qed.

Ltac digit_cases a Ha :=
  let C := fresh "C" in
  pose proof (is_digit_cases a Ha) as C;
  repeat (destruct C as [C|C]; [subst a|]); [..|subst a].

(* ---------- parse::<i32> reads back i32 Display ---------- *)
Definition parse_i32_body (neg : bool) (ds : text) : option Z :=
  match ds with
  | [] => None
  | _ => if forallb is_digit ds then
           let v := if neg then - digits_value ds else digits_value ds in
           if (I32_MIN <=? v) && (v <=? I32_MAX) then Some v else None
         else None
  end.

Lemma parse_i32_unsigned : forall a r, is_digit a = true -> parse_i32 (a :: r) = parse_i32_body false (a :: r).
Proof. intros a r Ha. digit_cases a Ha; reflexivity. Qed.

Lemma parse_i32_int_to_text : forall k, I32_MIN <= k <= I32_MAX -> parse_i32 (int_to_text k) = Some k.
Proof.
  intros k Hk. unfold int_to_text. destruct (k <? 0) eqn:E.
  - apply Z.ltb_lt in E. destruct (nat_digits_spec (- k) ltac:(lia)) as [Ha Hv].
    change (parse_i32 ("-" :: nat_digits (- k))) with (parse_i32_body true (nat_digits (- k))).
    unfold parse_i32_body. destruct (all_digits_cons _ Ha) as (a & r & Er & Hd & Hr).
    rewrite (all_digits_forallb _ Ha), Hv. rewrite Er at 1.
    replace (- - k) with k by lia.
    assert (A : (I32_MIN <=? k) && (k <=? I32_MAX) = true).
    { apply andb_true_iff. split; apply Z.leb_le; lia. }
    now rewrite A.
  - apply Z.ltb_ge in E. destruct (nat_digits_spec k E) as [Ha Hv].
    destruct (all_digits_cons _ Ha) as (a & r & Er & Hd & Hr).
    rewrite Er, (parse_i32_unsigned a r Hd), <- Er.
    unfold parse_i32_body. rewrite (all_digits_forallb _ Ha), Hv. rewrite Er at 1.
    assert (A : (I32_MIN <=? k) && (k <=? I32_MAX) = true).
    { apply andb_true_iff. split; apply Z.leb_le; lia. }
    now rewrite A.
Qed.

(* ---------- parse::<f64> model on mantissa texts ---------- *)
Definition parse_f64_body (neg : bool) (body : text) : option num :=
  let '(ip, rest) := break_at "." body in
  let fp := match rest with Some (_ :: f) => f | _ => [] end in
  if forallb is_digit ip && forallb is_digit fp && negb (Nat.eqb (List.length ip + List.length fp) 0) then
    Some (rn_ratio neg (digits_value (ip ++ fp)) (10 ^ Z.of_nat (List.length fp)))
  else None.

Lemma parse_f64_exec_unsigned : forall a r, is_digit a = true ->
  parse_f64_exec (a :: r) = parse_f64_body false (a :: r).
Proof. intros a r Ha. digit_cases a Ha; reflexivity. Qed.

Lemma parse_f64_exec_negative : forall r, parse_f64_exec ("-" :: r) = parse_f64_body true r.
Proof. reflexivity. Qed.

(* -? d . d{14} with its single integer digit exposed *)
Lemma mant14_inv1 : forall s, mant14_shape s = true ->
  exists neg d fp, s = mk_plain neg [d] (Some fp) /\ is_digit d = true /\ all_digits fp = true /\
                   length fp = 14%nat.
Proof.
  intros s H. unfold mant14_shape in H.
  assert (P : exists d fp, strip_sign s = d :: "." :: fp /\ is_digit d = true /\ all_digits fp = true /\
                           length fp = 14%nat).
  { destruct (strip_sign s) as [|d [|dot fp]]; try discriminate.
    apply andb_true_iff in H. destruct H as [H Hl]. apply andb_true_iff in H. destruct H as [H Hf].
    apply andb_true_iff in H. destruct H as [Hd Hdot]. apply Ascii.eqb_eq in Hdot. subst dot.
    apply Nat.eqb_eq in Hl. now exists d, fp. }
  destruct P as (d & fp & E & Hd & Hf & Hl).
  unfold strip_sign in E. destruct (starts_with "-" s) eqn:S.
  - destruct s as [|a r]; [discriminate|]. cbn in S. apply Ascii.eqb_eq in S. subst a. cbn [tl] in E.
    exists true, d, fp. subst r. repeat split; auto.
  - exists false, d, fp. subst s. repeat split; auto.
Qed.

Theorem parse_f64_exec_mant14 : forall neg d fp,
  is_digit d = true -> all_digits fp = true -> length fp = 14%nat ->
  parse_f64_exec (mk_plain neg [d] (Some fp)) = Some (rn_ratio neg (digits_value (d :: fp)) (10 ^ 14)).
Proof.
  intros neg d fp Hd Hf Hl.
  assert (Hi : all_digits [d] = true) by (unfold all_digits; cbn; now rewrite Hd).
  assert (B : parse_f64_body neg (mk_plain false [d] (Some fp)) =
              Some (rn_ratio neg (digits_value (d :: fp)) (10 ^ 14))).
  { unfold parse_f64_body. rewrite break_at_mk_plain by exact Hi.
    pose proof (all_digits_forallb _ Hf) as Ff. pose proof (all_digits_forallb _ Hi) as Fi.
    rewrite Fi, Ff, Hl. reflexivity. }
  destruct neg.
  - change (mk_plain true [d] (Some fp)) with ("-" :: mk_plain false [d] (Some fp)).
    rewrite parse_f64_exec_negative. exact B.
  - change (mk_plain false [d] (Some fp)) with (d :: "." :: fp) in *.
    rewrite (parse_f64_exec_unsigned d _ Hd). exact B.
Qed.
