(* EmitNqHOOpsFull.v — copy of EmitHOOpsFull.v over the widened emit_ok (EmitNqHO.v).  Original header follows. *)
(* EmitNqHOOpsFull.v — C05: EVERY transcribed built-in of EvalFull.builtin_full except the two that apply
   Value::equals to argument elements (unique, includes: finding F53) respects the emit/reload value
   relation [vrel]: related callbacks, related argument vectors -> related outcomes.  The arms are
   instances of proofs/RelPure.v (the relation-generic arm lemmas) with R := vrel and no state
   relation; the arms of EvalInst.builtin_impl come from EmitNqHOOps.builtin_impl_rel; the remaining
   built-ins are Unmodelled on both sides.  With this, EmitNqHOSim.ho_simulation and the emission
   equivalence hold for bodies that may mention any built-in other than unique / includes
   ([biok_full]); the refutation below shows that the exclusion is necessary for `includes`
   (and the same witness with `unique` in place: see [f53_unique_refuted]). *)
From Coq Require Import String Ascii List ZArith Bool Lia.
Require Import Blots.Num Blots.gen.Builtins Blots.Ast Blots.Value Blots.Outcome Blots.Binop
               Blots.Env Blots.Eval Blots.Emit Blots.BuiltinsHof Blots.Program Blots.EvalInst Blots.EvalFull
               Blots.proofs.ValueInd Blots.proofs.EmitLit Blots.proofs.EmitSubst Blots.proofs.EmitSound
               Blots.proofs.EmitNqHO Blots.proofs.EmitNqHOSim Blots.proofs.EmitNqHOOps Blots.proofs.EmitNqHOTop
               Blots.proofs.RelPure Blots.EmitNq Blots.proofs.EmitNqLit.
Import ListNotations.
Open Scope string_scope.
Open Scope list_scope.

(* every built-in except the two whose arm applies Value::equals to argument elements *)
Require Blots.proofs.EmitHOOpsFull.
Notation biok_full := Blots.proofs.EmitHOOpsFull.biok_full.   (* the SAME exclusion as the earlier theorems *)

Section Full.
  Variable opok : binop -> bool.
  Variable biok : builtin -> bool.
  Variable nanfix : bool.
  Notation vrel := (vrel opok biok nanfix).
  Notation lrel := (lrel opok biok nanfix).
  Notation orel := (orel opok biok nanfix).
  Notation cb_rel := (cb_rel opok biok nanfix).

  (* vrel is a structural value relation in the sense of RelPure.v *)
  Lemma vrel_inv : forall v v', vrel v v' ->
    match v with
    | VNum x => v' = VNum x
    | VBool b => v' = VBool b
    | VNull => v' = VNull
    | VStr s => v' = VStr s
    | VList l => exists l', v' = VList l' /\ Forall2 vrel l l'
    | VRec r => exists r', v' = VRec r' /\ Forall2 (RRf vrel) r r'
    | VLam _ _ _ _ => exists id' ps' b' sc', v' = VLam id' ps' b' sc'
    | VBuiltin b => v' = VBuiltin b
    | VSpread w => exists w', v' = VSpread w' /\ vrel w w'
    end.
  Proof.
    intros v v' H. destruct H; try reflexivity.
    - eexists; split; [reflexivity|assumption].
    - eexists; split; [reflexivity|assumption].
    - eexists; split; [reflexivity|assumption].
    - repeat eexists.
  Qed.
  Lemma vrel_list : forall l l', Forall2 vrel l l' -> vrel (VList l) (VList l').
  Proof. intros. constructor. assumption. Qed.
  Lemma vrel_rec : forall r r', Forall2 (RRf vrel) r r' -> vrel (VRec r) (VRec r').
  Proof. intros. constructor. assumption. Qed.
  Lemma vrel_compare : forall a a' b b', vrel a a' -> vrel b b' -> compare a b = compare a' b'.
  Proof. intros. apply (compare_rel opok biok nanfix); assumption. Qed.

  (* the shortcut of RelPure.v for vrel: a value with no function inside is related to itself only *)
  Theorem vrel_nofun_eq : forall v v', vrel v v' -> BuiltinsText.has_function v = false -> v = v'.
  Proof. exact (R_nofun_eq vrel vrel_inv). Qed.

  Section Arms.
    Variable cb cb' : callback.
    Hypothesis Hcb : cb_rel cb cb'.

    Lemma cb_rel_MRS : forall f f' args args', vrel f f' -> Forall2 vrel args args' ->
      MRS store (fun _ _ => True) vrel (cb f f args) (cb' f' f' args').
    Proof. intros f f' args args' Hf Ha st st' _. split; [apply Hcb; assumption|exact I]. Qed.

    (* every arm of builtin_full that does not apply Value::equals, and every built-in that is not
       transcribed (Unmodelled on both sides) *)
    Theorem builtin_full_rel_all b args args' st st' : biok_full b = true -> lrel args args' ->
      orel (fst (builtin_full cb b args st)) (fst (builtin_full cb' b args' st')).
    Proof.
      intros Hb Ha.
      destruct (pure_arm_of b) as [f|] eqn:E.
      - rewrite !(builtin_full_pure _ b f E). unfold pure_bi. cbn [fst].
        apply (pure_arms_R vrel vrel_inv (EmitNqHO.R_num opok biok nanfix) (EmitNqHO.R_null opok biok nanfix)
                 (EmitNqHO.R_str opok biok nanfix) vrel_list vrel_compare b f E); [|exact Ha].
        destruct b; try discriminate Hb; reflexivity.
      - destruct (callback_arm b) eqn:C.
        + destruct b; cbn in C; try discriminate C; cbn [builtin_full].
          * apply (bi_sort_by_R vrel vrel_inv vrel_list vrel_compare store (fun _ _ => True) cb cb' cb_rel_MRS
                     args args' Ha st st' I).
          * apply (bi_group_by_R vrel vrel_inv vrel_list vrel_rec store (fun _ _ => True) cb cb' cb_rel_MRS
                     args args' Ha st st' I).
          * apply (bi_count_by_R vrel vrel_inv (EmitNqHO.R_num opok biok nanfix) vrel_rec store (fun _ _ => True)
                     cb cb' cb_rel_MRS args args' Ha st st' I).
        + rewrite !(builtin_full_other _ b E C).
          destruct (biok_inst b) eqn:Bi; [apply (builtin_impl_rel opok biok nanfix cb cb' Hcb); assumption|].
          destruct b; cbn in E, C, Bi; try discriminate; exact I.
    Qed.
  End Arms.
End Full.

(* ---- the instance: operators without Value::equals, every built-in but unique / includes ---- *)
Notation vrelF := (vrel eqfree biok_full).
Notation orelF := (orel eqfree biok_full).
Notation lrelF := (lrel eqfree biok_full).
Notation emit_okF := (emit_ok eqfree biok_full).

Lemma binop_impl_rel_full nanfix cb cb' op l l' r r' st st' : eqfree op = true ->
  cb_rel eqfree biok_full nanfix cb cb' -> vrelF nanfix l l' -> vrelF nanfix r r' ->
  orelF nanfix (fst (binop_impl cb op l r st)) (fst (binop_impl cb' op l' r' st')).
Proof.
  intros Hop Hcb Hl Hr. unfold binop_impl.
  destruct op; try discriminate; try exact I; apply eval_binop_rel; auto.
Qed.

Theorem impl_rel_full_all nanfix : impl_rel_respecting eqfree biok_full nanfix binop_impl builtin_full.
Proof.
  split.
  - intros. apply binop_impl_rel_full; assumption.
  - intros. apply builtin_full_rel_all; assumption.
Qed.

(* the simulation for the evaluator with every transcribed built-in, bodies may mention all but two *)
Theorem ho_simulation_all : forall release nanfix d fr fr' this this' f f' args args' st st',
  vrelF nanfix f f' -> lrelF nanfix args args' ->
  orelF nanfix (fst (AD release binop_impl builtin_full d fr this f args st))
               (fst (AD release binop_impl builtin_full d fr' this' f' args' st')).
Proof. intros release nanfix. apply ho_simulation; [apply impl_rel_full_all|apply binop_lit_ok_inst]. Qed.

Theorem emit_equiv_higher_order_all : forall release nanfix d fr fr' this this' id id' ps b sc args args' st st',
  emit_okF nanfix (VLam id ps b sc) = true -> lrelF nanfix args args' ->
  orelF nanfix (fst (AD release binop_impl builtin_full d fr this (VLam id ps b sc) args st))
               (fst (AD release binop_impl builtin_full d fr' this'
                        (VLam id' ps (subst true (scope_map nanfix true sc) b) []) args' st')).
Proof.
  intros. apply ho_simulation_all; [|assumption]. apply reload_rel. assumption.
Qed.

(* emittable values are related to themselves (generic in the knobs; EmitNqHOTop has the biok_inst instance) *)
Lemma emit_ok_refl_gen opok biok nanfix : forall v, emit_ok opok biok nanfix v = true -> vrel opok biok nanfix v v.
Proof.
  induction v using value_ind'; intros Hok; try (constructor; fail).
  - constructor. cbn [EmitNqHO.emit_ok] in Hok. induction H as [|x l Hx _ IH]; [constructor|].
    cbn in Hok. apply andb_prop in Hok as [A B]. constructor; auto.
  - constructor. cbn [EmitNqHO.emit_ok] in Hok. apply andb_prop in Hok as [_ Hok].
    induction H as [|[k x] l Hx _ IH]; [constructor|].
    cbn in Hok, Hx. apply andb_prop in Hok as [A B]. constructor; auto.
  - rewrite <- (subst_nil true b) at 2.
    cbn [EmitNqHO.emit_ok] in Hok. apply andb_prop in Hok as [Hok Hsc]. apply andb_prop in Hok as [Hok Hnm].
    apply andb_prop in Hok as [Hb Hfv].
    constructor; try (intros; reflexivity); try (intros; discriminate).
    + exact Hb.
    + destruct (free_vars b (map arg_name a ++ map fst sc)); [reflexivity|discriminate].
    + destruct (rec_get sc "inputs") eqn:E; [|reflexivity].
      destruct (names_ok_get' _ _ _ _ Hnm E) as (_ & A & _). congruence.
    + intros x v E _ _. exists v. split; [exact E|]. apply rec_get_In in E.
      rewrite Forall_forall in H. rewrite forallb_forall in Hsc. exact (H _ E (Hsc _ E)).
  - constructor. exact Hok.
  - discriminate.
Qed.

Theorem emit_equiv_ho_same_args_all : forall release nanfix d fr fr' this this' id id' ps b sc args st st' r,
  emit_okF nanfix (VLam id ps b sc) = true -> forallb (emit_okF nanfix) args = true ->
  fst (AD release binop_impl builtin_full d fr this (VLam id ps b sc) args st) = r ->
  exists r', fst (AD release binop_impl builtin_full d fr' this'
                     (VLam id' ps (subst true (scope_map nanfix true sc) b) []) args st') = r' /\
    orelF nanfix r r' /\ (forall v, r = Ok v -> lf v = true -> r' = Ok v) /\ (r = ErrDepth <-> r' = ErrDepth).
Proof.
  intros release nanfix d fr fr' this this' id id' ps b sc args st st' r Hok Hargs Hr.
  eexists. split; [reflexivity|].
  assert (Ha : lrelF nanfix args args).
  { clear - Hargs. induction args as [|x l IH]; [constructor|]. cbn in Hargs. apply andb_prop in Hargs as [A B].
    constructor; [apply emit_ok_refl_gen; exact A|apply IH; exact B]. }
  pose proof (emit_equiv_higher_order_all release nanfix d fr fr' this this' id id' ps b sc args args st st' Hok Ha) as H.
  rewrite Hr in H. split; [exact H|]. split.
  - intros v -> Hlf. destruct (fst (AD _ _ _ d fr' this' _ args st')); cbn in H; try contradiction.
    f_equal. symmetry. eapply vrel_lf_eq; eauto.
  - destruct r, (fst (AD _ _ _ d fr' this' _ args st')); cbn in H; try contradiction; split; intros; try discriminate; reflexivity.
Qed.

(* ---- the exclusion is necessary: F53 through `includes` and through `unique` ----
   mk = a => (y => y + a); k1 = mk(1); k2 = mk(2)
   f = x => includes([k1], k2):  true  (Value::equals: same parameter list, same body `y + a`);
   the reloaded emission (x) => includes([(y) => y + 1], (y) => y + 2) returns false.
   g = x => len(unique([k1, k2])): 1 before, 2 after. *)
Definition call_on_full (f : value) (arg : value) : outcome value :=
  fst (AD true binop_impl builtin_full LIMIT [(FOwned, [])] f f [arg] [None; None]).
Definition f53_includes_fun : value :=
  VLam 0%nat [AReq "x"]
    (ECall (EBuiltin B_includes) [EList [Cm [] (EId "k1") None]; EId "k2"])
    [("k1", f52_k 1%Z); ("k2", f52_k 2%Z)].
Definition f53_unique_fun : value :=
  VLam 0%nat [AReq "x"]
    (ECall (EBuiltin B_len) [ECall (EBuiltin B_unique) [EList [Cm [] (EId "k1") None; Cm [] (EId "k2") None]]])
    [("k1", f52_k 1%Z); ("k2", f52_k 2%Z)].
Lemma f53_includes_refuted :
  closed_after_capture f53_includes_fun = true /\
  call_on_full f53_includes_fun (VNum nzero) = Ok (VBool true) /\
  call_on_full (reloaded true true f53_includes_fun) (VNum nzero) = Ok (VBool false).
Proof. vm_compute. repeat split; reflexivity. Qed.
Lemma f53_unique_refuted :
  closed_after_capture f53_unique_fun = true /\
  call_on_full f53_unique_fun (VNum nzero) = Ok (VNum (num_of_Z 1)) /\
  call_on_full (reloaded true true f53_unique_fun) (VNum nzero) = Ok (VNum (num_of_Z 2)).
Proof. vm_compute. repeat split; reflexivity. Qed.

(* the statement without the exclusion (every built-in allowed in bodies) is FALSE *)
Definition all_builtins_rel_unrestricted : Prop :=
  forall nanfix, impl_rel_respecting eqfree (fun _ => true) nanfix binop_impl builtin_full.
Lemma all_builtins_rel_unrestricted_refuted : ~ all_builtins_rel_unrestricted.
Proof.
  intros H. specialize (H true).
  assert (Hok : emit_ok eqfree (fun _ => true) true f53_includes_fun = true) by (vm_compute; reflexivity).
  pose proof (reload_rel eqfree (fun _ => true) true 0%nat 1%nat _ _ _ Hok) as Hrel.
  assert (Hargs : lrel eqfree (fun _ => true) true [VNum nzero] [VNum nzero]) by (repeat constructor).
  set (f' := VLam 1%nat [AReq "x"]
                   (subst true (scope_map true true [("k1", f52_k 1%Z); ("k2", f52_k 2%Z)])
                      (ECall (EBuiltin B_includes) [EList [Cm [] (EId "k1") None]; EId "k2"])) []) in *.
  pose proof (ho_simulation eqfree (fun _ => true) true true binop_impl builtin_full H binop_lit_ok_inst LIMIT
                [(FOwned, [])] [(FOwned, [])] f53_includes_fun f' f53_includes_fun f'
                [VNum nzero] [VNum nzero] [None; None] [None; None] Hrel Hargs) as G.
  destruct f53_includes_refuted as (_ & E1 & E2). unfold call_on_full in E1, E2.
  assert (Er : reloaded true true f53_includes_fun = f') by (vm_compute; reflexivity).
  rewrite Er in E2. rewrite E1, E2 in G. cbn in G. inversion G.
Qed.
