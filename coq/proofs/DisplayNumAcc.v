(* DisplayNumAcc.v — C20: accuracy of the SCIENTIFIC path (|x| < 0.0001 or |x| >= 1e15),
   under explicit correctness hypotheses on the three library calls it makes:
     HE  format!("{:.14e}", x) is x rounded to 15 significant digits (error <= 1/2 unit),
     HP  str::parse::<f64> of a 15-digit mantissa is within 2e-15 of it,
     HF  format!("{:.14}", m) is within 1/2 * 10^-14 of m.
   Then the displayed text is within 1/2 unit of the 15th significant digit of x (< 1 unit):
   re-parsing and re-printing the mantissa returns the same 15 digits (both lie on the
   10^-14 grid and differ by less than one grid step), and trimming changes no value. *)
From Coq Require Import ZArith Bool String Ascii List Lia QArith Qabs Qpower Lqa Floats.SpecFloat.
Require Import Blots.Num Blots.Outcome Blots.DisplayNum.
Require Import Blots.proofs.DisplayNumGroup Blots.proofs.DisplayNumSpec Blots.proofs.DisplayNumText
               Blots.proofs.DisplayNumInt Blots.proofs.DisplayNum.
Import ListNotations.
Open Scope char_scope.
Open Scope Z_scope.

(* -? d . d{14} : the mantissa text of {:.14e} *)
Definition mant14_shape (s : text) : bool :=
  match strip_sign s with
  | d :: dot :: fp => is_digit d && Ascii.eqb dot "." && all_digits fp && Nat.eqb (length fp) 14
  | _ => false
  end.

(* 10^k <= |x| < 10^(k+1) *)
Definition in_decade (x : num) (k : Z) : Prop :=
  (Qpower (10 # 1) k <= Qabs (num_to_Q x))%Q /\ (Qabs (num_to_Q x) < Qpower (10 # 1) (k + 1)%Z)%Q.

Lemma mant14_inv : forall s, mant14_shape s = true ->
  exists neg ip fp, s = mk_plain neg ip (Some fp) /\ all_digits ip = true /\ all_digits fp = true /\
                    length fp = 14%nat.
Proof.
  intros s H. unfold mant14_shape in H.
  assert (P : exists d fp, strip_sign s = d :: "." :: fp /\ is_digit d = true /\ all_digits fp = true /\
                           length fp = 14%nat).
  { destruct (strip_sign s) as [|d [|dot fp]]; try discriminate.
    apply andb_true_iff in H. destruct H as [H Hl]. apply andb_true_iff in H. destruct H as [H Hf].
    apply andb_true_iff in H. destruct H as [Hd Hdot]. apply Ascii.eqb_eq in Hdot. subst dot.
    apply Nat.eqb_eq in Hl. now exists d, fp. }
  destruct P as (d & fp & E & Hd & Hf & Hl).
  assert (Hi : all_digits [d] = true) by (unfold all_digits; cbn; now rewrite Hd).
  unfold strip_sign in E. destruct (starts_with "-" s) eqn:S.
  - destruct s as [|a r]; [discriminate|]. cbn in S. apply Ascii.eqb_eq in S. subst a. cbn [tl] in E.
    exists true, [d], fp. subst r. repeat split; auto.
  - exists false, [d], fp. subst s. repeat split; auto.
Qed.

(* values of texts with n fraction digits lie on the 10^-n grid *)
Lemma denote_plain_grid : forall neg ip fp,
  all_digits ip = true ->
  exists z, denote_plain (mk_plain neg ip (Some fp)) = Qmake z (Z.to_pos (pow10 (length fp))).
Proof.
  intros neg ip fp Hi. rewrite denote_plain_mk_plain by assumption. cbn zeta. unfold dec_value.
  destruct neg; eexists; reflexivity.
Qed.

Lemma grid_eq : forall (z1 z2 : Z) (D : positive),
  (Qabs (Qmake z1 D - Qmake z2 D) < Qmake 1 D)%Q -> z1 = z2.
Proof.
  intros z1 z2 D H. apply Qabs_Qlt_condition in H. destruct H as [H1 H2].
  unfold Qlt, Qminus, Qplus, Qopp in H1, H2. cbn [Qnum Qden] in H1, H2.
  rewrite Pos2Z.inj_mul in H1, H2.
  set (d := Zpos D) in *. assert (Hd : 0 < d) by (unfold d; lia).
  assert (E1 : (z1 * d + - z2 * d) * d = (z1 - z2) * (d * d)) by ring.
  rewrite E1 in H1, H2.
  assert (L : (z1 - z2) * (d * d) < 1 * (d * d)) by lia.
  assert (G : (-1) * (d * d) < (z1 - z2) * (d * d)) by lia.
  assert (Hdd : 0 < d * d) by (apply Z.mul_pos_pos; lia).
  apply Z.mul_lt_mono_pos_r in L; [|exact Hdd].
  apply Z.mul_lt_mono_pos_r in G; [|exact Hdd]. lia.
Qed.

Section SciAccuracy.
  Variable log10 : num -> num.
  Variable powi : num -> Z -> num.
  Variable fmt_prec : num -> Z -> text.
  Variable fmt_exp14 : num -> text.
  Variable parse_f64 : text -> option num.
  Variable fx : bool.
  Notation fdn := (format_display_number log10 powi fmt_prec fmt_exp14 parse_f64 fx).

  (* {:.14e} is the correctly rounded 15-significant-digit decimal of x *)
  Hypothesis HE : forall x k, is_finite x = true -> in_decade x k ->
    exists ms es kk, split_once "e" (fmt_exp14 x) = Some (ms, es) /\ mant14_shape ms = true /\
      parse_i32 es = Some kk /\
      (Qabs (denote_plain ms * Qpower (10 # 1) kk - num_to_Q x) <= (1 # 2) * Qpower (10 # 1) (k - 14)%Z)%Q.
  (* parse::<f64> of a 15-digit mantissa: within 2e-15 *)
  Hypothesis HP : forall s, mant14_shape s = true ->
    exists m, parse_f64 s = Some m /\ is_finite m = true /\
      (Qabs (num_to_Q m - denote_plain s) <= 2 # 1000000000000000)%Q.
  (* {:.14} prints the nearest multiple of 10^-14 *)
  Hypothesis HF : forall m, is_finite m = true ->
    prec_shape 14 (fmt_prec m 14) = true /\
    (Qabs (denote_plain (fmt_prec m 14) - num_to_Q m) <= 1 # 200000000000000)%Q.

  Theorem display_scientific_accurate : forall x k,
    is_finite x = true -> neqb x nzero = false -> scientific_range (nabs x) = true ->
    in_decade x k ->
    exists t, fdn x = Ok t /\
      (Qabs (denote t - num_to_Q x) <= (1 # 2) * Qpower (10 # 1) (k - 14)%Z)%Q /\
      (Qabs (denote t - num_to_Q x) < Qpower (10 # 1) (k - 14)%Z)%Q.
  Proof.
    intros x k Hf Hz Hs Hk.
    destruct (HE x k Hf Hk) as (ms & es & kk & Esp & Hms & Ekk & Herr).
    destruct (HP ms Hms) as (m & Epm & Hfm & Hperr).
    destruct (HF m Hfm) as (Hshape & Hferr).
    (* the text *)
    exists (format_scientific fmt_prec fmt_exp14 parse_f64 x).
    assert (Efdn : fdn x = Ok (format_scientific fmt_prec fmt_exp14 parse_f64 x)).
    { unfold format_display_number.
      destruct x; try discriminate Hf; cbn [is_nan is_inf]; rewrite Hz, Hs; reflexivity. }
    split; [exact Efdn|].
    (* its structure *)
    destruct (prec_shape_inv _ _ Hshape) as (neg & ip & ofp & Ep & Hi & Hof & Hpos & _).
    destruct (Hpos ltac:(lia)) as (fp & -> & Hlen). cbn [ok_frac] in Hof.
    assert (Et : format_scientific fmt_prec fmt_exp14 parse_f64 x =
                 mk_plain neg ip (trim_ofp (Some fp)) ++ "e" :: int_to_text kk).
    { unfold format_scientific. rewrite Esp, Epm, Ekk. unfold format_mantissa.
      rewrite Ep. now rewrite trim_mantissa_mk_plain. }
    (* its value: B * 10^kk with B the re-printed mantissa *)
    assert (Ev : (denote (format_scientific fmt_prec fmt_exp14 parse_f64 x) ==
                  denote_plain (fmt_prec m 14) * Qpower (10 # 1) kk)%Q).
    { rewrite Et. rewrite sci_text_value; auto; [|apply (ok_frac_trim (Some fp)); exact Hof].
      rewrite Ep. rewrite !denote_plain_mk_plain by assumption. cbn zeta.
      pose proof (trim_ofp_value ip (Some fp)) as V. destruct neg; rewrite V; reflexivity. }
    (* A = B: both on the 10^-14 grid, less than one step apart *)
    destruct (mant14_inv ms Hms) as (neg' & ip' & fp' & Ems & Hi' & Hf' & Hl').
    destruct (denote_plain_grid neg' ip' fp' Hi') as (z1 & G1).
    destruct (denote_plain_grid neg ip fp Hi) as (z2 & G2).
    assert (Hl2 : length fp = 14%nat) by lia.
    rewrite Hl' in G1. rewrite Hl2 in G2. rewrite <- Ems in G1. rewrite <- Ep in G2.
    assert (AB : (denote_plain ms == denote_plain (fmt_prec m 14))%Q).
    { rewrite G1, G2. f_equiv.
      assert (z1 = z2) as ->; [|reflexivity].
      apply (grid_eq z1 z2 (Z.to_pos (pow10 14))). rewrite <- G1, <- G2.
      change (Qmake 1 (Z.to_pos (pow10 14))) with (1 # 100000000000000)%Q.
      set (A := denote_plain ms) in *. set (B := denote_plain (fmt_prec m 14)) in *.
      set (M := num_to_Q m) in *.
      apply Qabs_Qlt_condition.
      apply Qabs_Qle_condition in Hperr. apply Qabs_Qle_condition in Hferr.
      destruct Hperr, Hferr. split; lra. }
    rewrite Ev, <- AB.
    assert (Ppos : (0 < Qpower (10 # 1) (k - 14)%Z)%Q) by (apply Qpower_0_lt; reflexivity).
    split; [exact Herr|].
    eapply Qle_lt_trans; [exact Herr|]. lra.
  Qed.
End SciAccuracy.
