(* PegBlots.v — the generic layout theorems (PegLayout.v, PegShift.v) instantiated for the REGENERATED grammar:
   the hypotheses (WHITESPACE is a silent ordered choice of single characters, no COMMENT rule) are
   discharged by computation on gen/Grammar.v, so a change of the WHITESPACE rule in grammar.pest breaks
   these proofs; and the well-formedness check of PegWf.v evaluated on gen/Grammar.v. *)
From Coq Require Import String Ascii List NArith Bool Arith Lia.
Require Import Blots.Peg Blots.PegWf Blots.gen.Grammar Blots.proofs.PegGeneric Blots.proofs.PegPure
               Blots.proofs.PegShift Blots.proofs.PegLayout.
Import ListNotations.
Local Open Scope string_scope.

Definition blank (ch : ascii) : bool := is_ws " " ["009"%char] ch.

Lemma blots_ws : g_ws blots_grammar = Some PG_WHITESPACE.
Proof. reflexivity. Qed.
Lemma blots_no_comment_rule : g_comment blots_grammar = None.
Proof. reflexivity. Qed.
Lemma blots_ws_def : g_def blots_grammar PG_WHITESPACE = mkdef MSilent true (char_choice " " ["009"%char]).
Proof. reflexivity. Qed.

Theorem blots_skip_spec : forall f n la (s : st grule),
    2 + String.length (rest s) <= f -> String.length (rest s) < n ->
    skip_with blots_grammar n (call_with blots_grammar (run blots_grammar f)) NonAtomic la s
    = Ok (set_pos s (pos s + (slen (rest s) - slen (strip blank (rest s)))) (strip blank (rest s))).
Proof. exact (skip_spec grule blots_grammar PG_WHITESPACE " " ["009"%char] blots_ws blots_no_comment_rule blots_ws_def). Qed.

Theorem blots_skip_absorbs : forall f n la p b t k o,
    2 + String.length (b ++ t) <= f -> String.length (b ++ t) < n ->
    all_in blank b = true ->
    skip_with blots_grammar n (call_with blots_grammar (run blots_grammar f)) NonAtomic la (mkst p (b ++ t) k o)
    = skip_with blots_grammar n (call_with blots_grammar (run blots_grammar f)) NonAtomic la (mkst (p + slen b) t k o).
Proof. exact (skip_absorbs grule blots_grammar PG_WHITESPACE " " ["009"%char] blots_ws blots_no_comment_rule blots_ws_def). Qed.

Theorem blots_seq_layout : forall f la x y (s sb s1 : st grule) b,
    run blots_grammar f false NonAtomic la x s = Ok s1 ->
    run blots_grammar f false NonAtomic la x sb = Ok (mkst (pos s1) (b ++ rest s1) (stk s1) (out s1)) ->
    all_in blank b = true -> (0 < pos s1)%N ->
    2 + String.length (b ++ rest s1) < f ->
    layout_equiv grule (slen b) (out s1) s sb
                 (run blots_grammar (S f) false NonAtomic la (Seq x y) s)
                 (run blots_grammar (S f) false NonAtomic la (Seq x y) sb).
Proof. exact (seq_layout grule blots_grammar PG_WHITESPACE " " ["009"%char] blots_ws blots_no_comment_rule blots_ws_def). Qed.

(* the regenerated grammar passes the well-formedness check (no left recursion, every repetition progresses) *)
Lemma blots_grammar_wf : wf_grammar blots_grammar all_grules grule_index = true.
Proof. vm_compute. reflexivity. Qed.

(* the check does reject a left-recursive grammar and a nullable repetition body *)
Example wf_rejects_left_recursion :
  wf_grammar (mkgrammar (fun _ : unit => mkdef MNormal false (Seq (Ident tt) (Str "x"))) None None) [tt] (fun _ => 0%N) = false.
Proof. vm_compute. reflexivity. Qed.
Example wf_rejects_nullable_repetition :
  wf_grammar (mkgrammar (fun _ : unit => mkdef MNormal false (Rep (Opt (Str "x")))) None None) [tt] (fun _ => 0%N) = false.
Proof. vm_compute. reflexivity. Qed.

(* An observation about pest's stack.rs as transcribed (not reachable from the blots grammar, whose only PUSH / POP
   pair sits inside one rule): after  snapshot; snapshot; pop; clear_snapshot  the element popped under the inner
   checkpoint is forgotten, so the outer `restore` does not bring it back. *)
Example pest_stack_nested_snapshot_loses_pop :
  let k0 := stack_push "x" stack_new in
  let k3 := snd (stack_pop (stack_snapshot (stack_snapshot k0))) in
  cache (stack_restore (stack_clear_snapshot k3)) = [] /\ cache k0 = ["x"].
Proof. vm_compute. split; reflexivity. Qed.
