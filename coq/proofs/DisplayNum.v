(* DisplayNum.v (proofs) — C20: the theorems about format_display_number, for ALL doubles
   and ALL library oracles satisfying the documented digit shapes. *)
From Coq Require Import ZArith Bool String Ascii List Lia QArith Qabs Qpower Floats.SpecFloat.
Require Import Blots.Num Blots.Outcome Blots.DisplayNum.
Require Import Blots.proofs.DisplayNumGroup Blots.proofs.DisplayNumSpec Blots.proofs.DisplayNumText
               Blots.proofs.DisplayNumInt.
Import ListNotations.
Open Scope char_scope.
Open Scope Z_scope.

Lemma prec_shape_plain : forall n s, prec_shape n s = true -> plain_shape s = true.
Proof.
  intros n s H. destruct (prec_shape_inv n s H) as (neg & ip & ofp & -> & Hi & Hf & _).
  now apply plain_shape_mk_plain.
Qed.

Lemma finite_cases : forall x, is_nan x = false -> is_inf x = false -> is_finite x = true.
Proof. now intros [| | |]. Qed.

(* ---------- texts of the two notations ---------- *)
Lemma grouped_result_wf : forall neg ip ofp,
  all_digits ip = true -> ok_frac ofp = true ->
  wf_numeral (sign_text neg ++ group3 ip ++ frac_text ofp) = true.
Proof.
  intros. apply wf_numeral_of_standard. rewrite strip_sign_grouped by assumption.
  now apply wf_standard_grouped.
Qed.

Lemma grouped_result_value : forall neg ip ofp,
  all_digits ip = true -> ok_frac ofp = true ->
  denote (sign_text neg ++ group3 ip ++ frac_text ofp) = denote_plain (mk_plain neg ip ofp).
Proof.
  intros. unfold denote. rewrite contains_e_separated by assumption.
  unfold denote_std. now rewrite ungroup_separated.
Qed.

Lemma contains_e_mk_plain : forall neg ip ofp,
  all_digits ip = true -> ok_frac ofp = true -> contains "e" (mk_plain neg ip ofp) = false.
Proof.
  intros neg ip ofp Hi Hf. unfold mk_plain. rewrite !contains_app.
  rewrite (digits_no "e" ip eq_refl Hi).
  destruct neg, ofp as [fp|]; cbn [sign_text frac_text contains ok_frac orb] in *;
    try change (Ascii.eqb "-" "e") with false; try change (Ascii.eqb "." "e") with false; cbn [orb];
    try reflexivity; now apply digits_no.
Qed.

Lemma split_once_sci : forall neg ip ofp it,
  all_digits ip = true -> ok_frac ofp = true ->
  split_once "e" (mk_plain neg ip ofp ++ "e" :: it) = Some (mk_plain neg ip ofp, it).
Proof.
  intros. unfold split_once. rewrite break_at_app by now apply contains_e_mk_plain. reflexivity.
Qed.

Lemma strip_sign_mk_plain_app : forall neg ip ofp rest,
  all_digits ip = true -> strip_sign (mk_plain neg ip ofp ++ rest) = mk_plain false ip ofp ++ rest.
Proof.
  intros neg ip ofp rest H. unfold strip_sign, mk_plain.
  destruct (all_digits_cons ip H) as (a & r & -> & Ha & _).
  destruct neg; cbn; [reflexivity|]. now rewrite (is_digit_not a "-" Ha eq_refl).
Qed.

Lemma wf_plain_body_mk_plain : forall ip ofp,
  all_digits ip = true -> ok_frac ofp = true -> wf_plain_body (mk_plain false ip ofp) = true.
Proof.
  intros ip ofp Hi Hf. unfold wf_plain_body. rewrite break_at_mk_plain by assumption. rewrite Hi.
  destruct ofp; cbn; auto.
Qed.

Lemma sci_text_wf : forall neg ip ofp z,
  all_digits ip = true -> ok_frac ofp = true ->
  wf_numeral (mk_plain neg ip ofp ++ "e" :: int_to_text z) = true.
Proof.
  intros neg ip ofp z Hi Hf. apply wf_numeral_of_sci.
  rewrite strip_sign_mk_plain_app by assumption. unfold wf_sci_body.
  rewrite split_once_sci by assumption. rewrite wf_plain_body_mk_plain by assumption.
  destruct (int_to_text_spec z) as [W _]. now rewrite W.
Qed.

Lemma sci_text_value : forall neg ip ofp z,
  all_digits ip = true -> ok_frac ofp = true ->
  denote (mk_plain neg ip ofp ++ "e" :: int_to_text z) =
  (denote_plain (mk_plain neg ip ofp) * Qpower (10 # 1) z)%Q.
Proof.
  intros neg ip ofp z Hi Hf. unfold denote. rewrite contains_app. cbn [contains].
  change (Ascii.eqb "e" "e") with true. cbn [orb]. rewrite orb_true_r.
  unfold denote_sci. rewrite split_once_sci by assumption.
  destruct (int_to_text_spec z) as [_ V]. now rewrite V.
Qed.

(* ---------- i32 arithmetic without overflow ---------- *)
Lemma i32_ok_small : forall z, Z.abs z <= 2 ^ 30 -> i32_ok z = Ok z.
Proof.
  intros z H. unfold i32_ok, I32_MIN, I32_MAX.
  change (2 ^ 30) with 1073741824 in H. change (2 ^ 31) with 2147483648.
  destruct ((- (2147483648) <=? z) && (z <=? 2147483648 - 1)) eqn:A; [reflexivity|].
  exfalso. apply andb_false_iff in A. destruct A as [A|A]; apply Z.leb_gt in A; lia.
Qed.

Ltac inv_bind H :=
  match type of H with
  | obind ?e _ = Ok _ => let E := fresh "E" in destruct e eqn:E; cbn [obind] in H; try discriminate H
  end.

Section Theorems.
  Variable log10 : num -> num.
  Variable powi : num -> Z -> num.
  Variable fmt_prec : num -> Z -> text.
  Variable fmt_exp14 : num -> text.
  Variable parse_f64 : text -> option num.
  Variable fx : bool.

  Notation fdn := (format_display_number log10 powi fmt_prec fmt_exp14 parse_f64 fx).
  Notation round_sig := (round_to_significant_figures log10 powi fx).
  Notation places_of := (decimal_places_of log10 powi fx).

  (* documented shapes of the library outputs, on finite arguments *)
  Hypothesis Hprec : forall x n, is_finite x = true -> 0 <= n -> prec_shape n (fmt_prec x n) = true.
  Hypothesis Hexp : forall x, is_finite x = true -> exp_shape (fmt_exp14 x) = true.
  Hypothesis Hparse : forall s m, mant_shape s = true -> parse_f64 s = Some m -> is_finite m = true.

  (* ---------- NaN, infinities and zeros by name ---------- *)
  Theorem display_names :
    fdn S754_nan = Ok (tx "NaN") /\
    fdn (S754_infinity false) = Ok (tx "Infinity") /\
    fdn (S754_infinity true) = Ok (tx "-Infinity") /\
    fdn (S754_zero false) = Ok (tx "0") /\
    fdn (S754_zero true) = Ok (tx "-0").
  Proof. repeat split; reflexivity. Qed.

  Lemma decimal_places_nonneg : forall v dp, places_of v = Ok dp -> 0 <= dp.
  Proof.
    intros v dp H. unfold decimal_places_of in H. inv_bind H. inv_bind H.
    destruct (ngeb (nabs v) c_one).
    - inv_bind H. injection H as <-. lia.
    - inv_bind H. inv_bind H. injection H as <-. lia.
  Qed.

  Lemma format_float_significant_inv : forall r f,
    format_float_significant log10 powi fmt_prec fx r = Ok f ->
    exists dp, places_of r = Ok dp /\ 0 <= dp /\ f = trim_fraction (fmt_prec r dp).
  Proof.
    intros r f H. unfold format_float_significant in H. inv_bind H. injection H as <-.
    exists a. repeat split. now apply decimal_places_nonneg with r.
  Qed.

  (* ---------- the scientific path ---------- *)
  Definition sci_mantissa (x : num) (ms : text) : num :=
    match parse_f64 ms with Some m => m | None => x end.
  Definition sci_exponent (es : text) : Z :=
    match parse_i32 es with Some e => e | None => 0 end.

  Lemma format_scientific_struct : forall x, is_finite x = true ->
    exists ms es neg ip fp,
      split_once "e" (fmt_exp14 x) = Some (ms, es) /\
      fmt_prec (sci_mantissa x ms) 14 = mk_plain neg ip (Some fp) /\
      all_digits ip = true /\ all_digits fp = true /\
      format_scientific fmt_prec fmt_exp14 parse_f64 x =
        mk_plain neg ip (trim_ofp (Some fp)) ++ "e" :: int_to_text (sci_exponent es).
  Proof.
    intros x Hf. pose proof (Hexp x Hf) as E. unfold exp_shape in E.
    unfold format_scientific.
    destruct (split_once "e" (fmt_exp14 x)) as [[ms es]|]; [|discriminate].
    apply andb_true_iff in E. destruct E as [Hm He].
    assert (Hfm : is_finite (sci_mantissa x ms) = true).
    { unfold sci_mantissa. destruct (parse_f64 ms) eqn:P; [now apply (Hparse ms)|exact Hf]. }
    pose proof (Hprec _ 14 Hfm ltac:(lia)) as S.
    destruct (prec_shape_inv _ _ S) as (neg & ip & ofp & Ep & Hi & Hof & Hpos & _).
    destruct (Hpos ltac:(lia)) as (fp & -> & _). cbn [ok_frac] in Hof.
    exists ms, es, neg, ip, fp. repeat split; auto.
    fold (sci_mantissa x ms). fold (sci_exponent es). unfold format_mantissa.
    rewrite Ep. rewrite trim_mantissa_mk_plain by assumption. reflexivity.
  Qed.

  Lemma format_scientific_wf : forall x, is_finite x = true ->
    wf_numeral (format_scientific fmt_prec fmt_exp14 parse_f64 x) = true.
  Proof.
    intros x Hf. destruct (format_scientific_struct x Hf) as (ms & es & neg & ip & fp & _ & _ & Hi & Hfp & ->).
    apply sci_text_wf; auto. apply (ok_frac_trim (Some fp)). exact Hfp.
  Qed.

  (* the scientific text denotes exactly  (what {:.14} printed for the mantissa) * 10^exponent *)
  Theorem display_scientific_value : forall x,
    is_finite x = true -> neqb x nzero = false -> scientific_range (nabs x) = true ->
    exists ms es t,
      split_once "e" (fmt_exp14 x) = Some (ms, es) /\
      fdn x = Ok t /\ wf_numeral t = true /\
      (denote t == denote_plain (fmt_prec (sci_mantissa x ms) 14) * Qpower (10 # 1) (sci_exponent es))%Q.
  Proof.
    intros x Hf Hz Hs.
    destruct (format_scientific_struct x Hf) as (ms & es & neg & ip & fp & Esp & Efp & Hi & Hfp & Et).
    exists ms, es, (format_scientific fmt_prec fmt_exp14 parse_f64 x). split; [exact Esp|]. split.
    - unfold format_display_number.
      destruct x; try discriminate Hf; cbn [is_nan is_inf]; rewrite Hz, Hs; reflexivity.
    - split; [now apply format_scientific_wf|].
      rewrite Et. rewrite sci_text_value; auto; [|apply (ok_frac_trim (Some fp)); exact Hfp].
      rewrite Efp. rewrite !denote_plain_mk_plain by assumption. cbn zeta.
      pose proof (trim_ofp_value ip (Some fp)) as V. destruct neg; rewrite V; reflexivity.
  Qed.

  (* ---------- the integer path ---------- *)
  Lemma format_integer_text : forall z, z <> I64_MIN ->
    format_integer_with_separators z =
    Ok (sign_text (z <? 0) ++ group3 (nat_digits (Z.abs z)) ++ frac_text None).
  Proof.
    intros z H. unfold format_integer_with_separators.
    destruct (z =? I64_MIN) eqn:E; [apply Z.eqb_eq in E; contradiction|].
    rewrite int_to_text_nonneg by lia. cbn [frac_text]. rewrite app_nil_r.
    destruct (z <? 0); reflexivity.
  Qed.

  (* ---------- well-formedness: ALL doubles, all oracles of the documented shape ---------- *)
  Theorem display_wellformed : forall x t,
    fdn x = Ok t ->
    wf_numeral t = true \/
    (std_nonint_path x = true /\ exists r, round_sig x = Ok r /\ is_finite r = false).
  Proof.
    intros x t H. unfold format_display_number in H.
    destruct (is_nan x) eqn:Hn. { injection H as <-. left. reflexivity. }
    destruct (is_inf x) eqn:Hi. { left. destruct (negb (nsign x)); injection H as <-; reflexivity. }
    destruct (neqb x nzero) eqn:Hz. { left. destruct (nsign x); injection H as <-; reflexivity. }
    pose proof (finite_cases x Hn Hi) as Hf.
    destruct (scientific_range (nabs x)) eqn:Hs.
    - injection H as <-. left. now apply format_scientific_wf.
    - unfold format_standard in H.
      destruct (nfract_is_zero x && nltb (nabs x) c_2p53) eqn:Hint.
      + left. unfold format_integer_with_separators in H.
        destruct (as_i64 x =? I64_MIN); [discriminate|].
        rewrite int_to_text_nonneg in H by lia.
        destruct (nat_digits_spec (Z.abs (as_i64 x)) ltac:(lia)) as [Hd _].
        pose proof (grouped_result_wf (as_i64 x <? 0) _ None Hd eq_refl) as W.
        cbn [frac_text] in W. rewrite app_nil_r in W.
        injection H as <-. destruct (as_i64 x <? 0); exact W.
      + inv_bind H. inv_bind H. injection H as <-. rename a into r. rename a0 into f.
        destruct (is_finite r) eqn:Hr.
        * left. destruct (format_float_significant_inv r f E0) as (dp & _ & Hdp & ->).
          pose proof (prec_shape_plain _ _ (Hprec r dp Hr Hdp)) as P.
          destruct (trim_fraction_preserves_value _ P) as [P' _].
          now destruct (separators_preserve_value _ P').
        * right. split.
          -- unfold std_nonint_path. now rewrite Hf, Hz, Hs, Hint.
          -- now exists r.
  Qed.

  (* the result is always Ok or Panic (never an error value) *)
  Theorem display_ok_or_panic : forall x, (exists t, fdn x = Ok t) \/ fdn x = Panic.
  Proof.
    intros x. unfold format_display_number.
    destruct (is_nan x); [left; eexists; reflexivity|]. destruct (is_inf x); [left; eexists; reflexivity|].
    destruct (neqb x nzero); [left; eexists; reflexivity|].
    destruct (scientific_range (nabs x)); [left; eexists; reflexivity|].
    unfold format_standard. destruct (nfract_is_zero x && nltb (nabs x) c_2p53).
    - unfold format_integer_with_separators. destruct (as_i64 x =? I64_MIN); [now right|left; eexists; reflexivity].
    - assert (I : forall z, i32_ok z = Ok z \/ i32_ok z = Panic).
      { intros z. unfold i32_ok. destruct ((I32_MIN <=? z) && (z <=? I32_MAX)); auto. }
      assert (F : forall a, (exists l, flog10 log10 powi fx a = Ok l) \/ flog10 log10 powi fx a = Panic).
      { intros a. unfold flog10. destruct fx; [|left; eexists; reflexivity].
        destruct (nltb a (powi c_ten (as_i32 (nfloor (log10 a))))); [|left; eexists; reflexivity].
        unfold i32_sub. destruct (I (as_i32 (nfloor (log10 a)) - 1)) as [-> | ->]; [left; eexists; reflexivity|now right]. }
      unfold round_to_significant_figures. destruct (neqb x nzero).
      + cbn [obind]. unfold format_float_significant, decimal_places_of.
        destruct (F (nabs nzero)) as [[l ->] | ->]; [|now right]. cbn [obind].
        destruct (ngeb (nabs nzero) c_one).
        * unfold i32_add, i32_sub. destruct (I (l + 1)) as [-> | ->]; [|now right]. cbn [obind].
          destruct (I (15 - (l + 1))) as [-> | ->]; [left; eexists; reflexivity|now right].
        * unfold i32_neg, i32_add, i32_sub. destruct (I (- l)) as [-> | ->]; [|now right]. cbn [obind].
          destruct (I (15 + - l)) as [-> | ->]; [|now right]. cbn [obind].
          destruct (I (15 + - l - 1)) as [-> | ->]; [left; eexists; reflexivity|now right].
      + destruct (F (nabs x)) as [[l ->] | ->]; [|now right]. cbn [obind].
        change (i32_sub 15 1) with (@Ok Z 14). cbn [obind].
        unfold i32_sub. destruct (I (14 - l)) as [-> | ->]; [|now right]. cbn [obind].
        set (r := ndiv _ _). unfold format_float_significant, decimal_places_of.
        destruct (F (nabs r)) as [[l2 ->] | ->]; [|now right]. cbn [obind].
        destruct (ngeb (nabs r) c_one).
        * unfold i32_add, i32_sub. destruct (I (l2 + 1)) as [-> | ->]; [|now right]. cbn [obind].
          destruct (I (15 - (l2 + 1))) as [-> | ->]; [left; eexists; reflexivity|now right].
        * unfold i32_neg, i32_add, i32_sub. destruct (I (- l2)) as [-> | ->]; [|now right]. cbn [obind].
          destruct (I (15 + - l2)) as [-> | ->]; [|now right]. cbn [obind].
          destruct (I (15 + - l2 - 1)) as [-> | ->]; [left; eexists; reflexivity|now right].
  Qed.
End Theorems.

Section Theorems2.
  Variable log10 : num -> num.
  Variable powi : num -> Z -> num.
  Variable fmt_prec : num -> Z -> text.
  Variable fmt_exp14 : num -> text.
  Variable parse_f64 : text -> option num.
  Variable fx : bool.

  Notation fdn := (format_display_number log10 powi fmt_prec fmt_exp14 parse_f64 fx).
  Notation round_sig := (round_to_significant_figures log10 powi fx).
  Notation places_of := (decimal_places_of log10 powi fx).

  (* ---------- integers below 2^53 in standard notation are shown exactly (no oracle) ---------- *)
  Theorem display_integers_exact : forall s m e,
    let x := S754_finite s m e in
    valid_binary prec emax x = true ->
    scientific_range (nabs x) = false ->        (* 0.0001 <= |x| < 1e15: standard notation *)
    nfract_is_zero x = true ->                  (* x is an integer *)
    exists t, fdn x = Ok t /\ wf_numeral t = true /\ (denote t == num_to_Q x)%Q.
  Proof.
    intros s m e x Hv Hs Hi. subst x.
    assert (Hlt : nltb (S754_finite false m e) c_2p53 = true).
    { apply exp_lt_2p53. apply (lt_1e15_exp m). unfold scientific_range in Hs.
      apply negb_false_iff in Hs. apply andb_true_iff in Hs. now destruct Hs. }
    cbn [nfract_is_zero] in Hi. destruct (split_int m e) as [[q r] d] eqn:Hsp.
    apply Z.eqb_eq in Hi. subst r.
    destruct (as_i64_small s m e q 0 d Hv Hlt Hsp) as [Has Hq].
    destruct (split_int_bounds m e q 0 d Hsp) as (_ & _ & Hpos). specialize (Hpos eq_refl).
    assert (Hne : cond_Zopp s q <> I64_MIN).
    { unfold I64_MIN. change (2 ^ 53) with 9007199254740992 in Hq.
      change (2 ^ 63) with 9223372036854775808. destruct s; cbn [cond_Zopp]; lia. }
    assert (Hneg : (cond_Zopp s q <? 0) = s).
    { destruct s; cbn [cond_Zopp]; [apply Z.ltb_lt|apply Z.ltb_ge]; lia. }
    assert (Habs : Z.abs (cond_Zopp s q) = q) by (destruct s; cbn [cond_Zopp]; lia).
    destruct (nat_digits_spec q ltac:(lia)) as [Hd Hval].
    exists (sign_text s ++ group3 (nat_digits q) ++ frac_text None). split; [|split].
    - unfold format_display_number. cbn [is_nan is_inf].
      assert (Z0 : neqb (S754_finite s m e) nzero = false) by (destruct s; reflexivity).
      rewrite Z0, Hs. unfold format_standard. cbn [nfract_is_zero]. rewrite Hsp.
      change (0 =? 0) with true. cbn [nabs SFabs andb]. rewrite Hlt. rewrite Has.
      rewrite format_integer_text by exact Hne. now rewrite Hneg, Habs.
    - now apply grouped_result_wf.
    - rewrite grouped_result_value by auto. rewrite denote_plain_mk_plain by exact Hd. cbn zeta.
      rewrite (integral_value s m e q d Hsp).
      pose proof (dec_value_no_frac (nat_digits q)) as V. rewrite Hval in V.
      destruct s; cbn [cond_Zopp]; rewrite V; [now rewrite inject_Z_opp|reflexivity].
  Qed.

  (* ---------- the standard non-integer path: post-processing is value-exact ---------- *)
  Hypothesis Hprec : forall x n, is_finite x = true -> 0 <= n -> prec_shape n (fmt_prec x n) = true.

  Theorem display_standard_value : forall x t,
    std_nonint_path x = true -> fdn x = Ok t ->
    exists r dp, round_sig x = Ok r /\ places_of r = Ok dp /\ 0 <= dp /\
      (is_finite r = true ->
       wf_numeral t = true /\ (denote t == denote_plain (fmt_prec r dp))%Q).
  Proof.
    intros x t Hp H. unfold std_nonint_path in Hp.
    apply andb_true_iff in Hp. destruct Hp as [Hp Hint]. apply andb_true_iff in Hp. destruct Hp as [Hp Hs].
    apply andb_true_iff in Hp. destruct Hp as [Hf Hz].
    apply negb_true_iff in Hint. apply negb_true_iff in Hs. apply negb_true_iff in Hz.
    unfold format_display_number in H.
    destruct x; try discriminate Hf; try discriminate Hz. cbn [is_nan is_inf] in H.
    rewrite Hz, Hs in H. unfold format_standard in H. rewrite Hint in H.
    inv_bind H. inv_bind H. injection H as <-. rename a into r. rename a0 into f.
    destruct (format_float_significant_inv log10 powi fmt_prec fx r f E0) as (dp & Edp & Hdp & ->).
    exists r, dp. repeat split; auto.
    - pose proof (prec_shape_plain _ _ (Hprec r dp H Hdp)) as P.
      destruct (trim_fraction_preserves_value _ P) as [P' _].
      now destruct (separators_preserve_value _ P').
    - pose proof (prec_shape_plain _ _ (Hprec r dp H Hdp)) as P.
      destruct (trim_fraction_preserves_value _ P) as [P' V].
      destruct (separators_preserve_value _ P') as [_ V']. now rewrite V', V.
  Qed.

  (* ---------- no overflow panic when log10 returns sane values ---------- *)
  Hypothesis Hlog : forall a, Z.abs (as_i32 (nfloor (log10 a))) <= 2000.

  Lemma flog10_ok : forall a, exists l, flog10 log10 powi fx a = Ok l /\ Z.abs l <= 2001.
  Proof.
    intros a. unfold flog10. pose proof (Hlog a) as B.
    destruct fx.
    - destruct (nltb a (powi c_ten (as_i32 (nfloor (log10 a))))).
      + unfold i32_sub. rewrite i32_ok_small by (change (2 ^ 30) with 1073741824; lia).
        eexists; split; [reflexivity|lia].
      + eexists; split; [reflexivity|lia].
    - eexists; split; [reflexivity|lia].
  Qed.

  Lemma places_ok : forall r, exists dp, places_of r = Ok dp.
  Proof.
    intros r. unfold decimal_places_of. destruct (flog10_ok (nabs r)) as (l & -> & B). cbn [obind].
    destruct (ngeb (nabs r) c_one).
    - unfold i32_add, i32_sub. rewrite i32_ok_small by (change (2 ^ 30) with 1073741824; lia). cbn [obind].
      rewrite i32_ok_small by (change (2 ^ 30) with 1073741824; lia). cbn [obind]. eauto.
    - unfold i32_neg, i32_add, i32_sub. rewrite i32_ok_small by (change (2 ^ 30) with 1073741824; lia).
      cbn [obind]. rewrite i32_ok_small by (change (2 ^ 30) with 1073741824; lia). cbn [obind].
      rewrite i32_ok_small by (change (2 ^ 30) with 1073741824; lia). cbn [obind]. eauto.
  Qed.

  Theorem display_no_panic : forall x, valid_binary prec emax x = true -> exists t, fdn x = Ok t.
  Proof.
    intros x Hv. unfold format_display_number.
    destruct (is_nan x) eqn:Hn; [eauto|]. destruct (is_inf x) eqn:Hi; [eauto|].
    destruct (neqb x nzero) eqn:Hz; [eauto|].
    destruct (scientific_range (nabs x)); [eauto|].
    unfold format_standard. destruct (nfract_is_zero x && nltb (nabs x) c_2p53) eqn:Hint.
    - apply andb_true_iff in Hint. destruct Hint as [_ Hlt].
      destruct x as [s|s| |s m e]; try discriminate Hz; try discriminate Hi; try discriminate Hn.
      destruct (split_int m e) as [[q r] d] eqn:Hsp.
      destruct (as_i64_small s m e q r d Hv Hlt Hsp) as [Has Hq]. rewrite Has.
      rewrite format_integer_text; [eauto|].
      unfold I64_MIN. change (2 ^ 53) with 9007199254740992 in Hq.
      change (2 ^ 63) with 9223372036854775808. destruct s; cbn [cond_Zopp]; lia.
    - unfold round_to_significant_figures. rewrite Hz.
      destruct (flog10_ok (nabs x)) as (l & -> & B). cbn [obind].
      change (i32_sub 15 1) with (@Ok Z 14). cbn [obind].
      unfold i32_sub. rewrite i32_ok_small by (change (2 ^ 30) with 1073741824; lia). cbn [obind].
      set (r := ndiv _ _). unfold format_float_significant.
      destruct (places_ok r) as (dp & ->). cbn [obind]. eauto.
  Qed.
End Theorems2.

(* integers in the standard range: the display error is 0 *)
Lemma display_integers_error_zero : forall log10 powi fmt_prec fmt_exp14 parse_f64 fx s m e,
  let x := S754_finite s m e in
  valid_binary prec emax x = true ->
  scientific_range (nabs x) = false ->
  nfract_is_zero x = true ->
  exists t, format_display_number log10 powi fmt_prec fmt_exp14 parse_f64 fx x = Ok t /\
            (Qabs (denote t - num_to_Q x) == 0)%Q.
Proof.
  intros log10 powi fmt_prec fmt_exp14 parse_f64 fx s m e x Hv Hs Hi.
  destruct (display_integers_exact log10 powi fmt_prec fmt_exp14 parse_f64 fx s m e Hv Hs Hi)
    as (t & Ht & _ & V).
  exists t. split; [exact Ht|]. fold x in V. rewrite V.
  unfold Qminus. rewrite Qplus_opp_r. reflexivity.
Qed.

(* ---------- the oracle hypotheses are satisfiable: a trivial library ---------- *)
Definition toy_prec (x : num) (n : Z) : text := "0" :: (if n =? 0 then [] else "." :: repeat "0" (Z.to_nat n)).
Definition toy_exp (x : num) : text := tx "1.0e0".
Definition toy_parse (s : text) : option num := Some c_one.
Lemma toy_prec_shape : forall x n,
  is_finite x = true -> 0 <= n -> prec_shape n (toy_prec x n) = true.
Proof.
  intros x n _ Hn. unfold toy_prec, prec_shape, strip_sign. cbn [starts_with].
  change (Ascii.eqb "0" "-") with false. cbn iota.
  destruct (n =? 0) eqn:E.
  - apply Z.eqb_eq in E. subst. reflexivity.
  - apply Z.eqb_neq in E. unfold prec_body_shape. cbn [break_at].
    change (Ascii.eqb "0" ".") with false. cbn iota. cbn [break_at].
    change (Ascii.eqb "." ".") with true. cbn iota.
    assert (A : all_digits (repeat "0" (Z.to_nat n)) = true).
    { apply all_digits_intro.
      - destruct (Z.to_nat n) eqn:N; [lia|discriminate].
      - generalize (Z.to_nat n). intros k. induction k; [reflexivity|]. cbn. exact IHk. }
    rewrite A, repeat_length, Z2Nat.id by lia. rewrite Z.eqb_refl.
    destruct (0 <? n) eqn:P; [reflexivity|]. apply Z.ltb_ge in P. lia.
Qed.
Lemma toy_exp_shape : forall x, is_finite x = true -> exp_shape (toy_exp x) = true.
Proof. reflexivity. Qed.
Lemma toy_parse_finite : forall s m,
  mant_shape s = true -> toy_parse s = Some m -> is_finite m = true.
Proof. intros s m _ H. injection H as <-. reflexivity. Qed.
