(* Order.v — coherence of Value::equals and Value::compare (property C12). *)
From Coq Require Import String Ascii List ZArith Bool Lia Floats.SpecFloat PArith Permutation Arith.
Require Import Blots.Num Blots.gen.Builtins Blots.Ast Blots.Value Blots.proofs.ValueInd.
Import ListNotations.

(* ------------------------------------------------------------------ numbers *)
(* SFcompare is the lexicographic comparison of a (class, exponent, mantissa) key *)
Definition key (f : spec_float) : option (Z * Z * Z) :=
  match f with
  | S754_nan => None
  | S754_infinity true => Some (-2, 0, 0)%Z
  | S754_infinity false => Some (2, 0, 0)%Z
  | S754_zero _ => Some (0, 0, 0)%Z
  | S754_finite true m e => Some (-1, - e, - Zpos m)%Z
  | S754_finite false m e => Some (1, e, Zpos m)%Z
  end.
Definition lexcmp (a b : Z * Z * Z) : comparison :=
  let '(a1, a2, a3) := a in let '(b1, b2, b3) := b in
  match (a1 ?= b1)%Z with Eq => match (a2 ?= b2)%Z with Eq => (a3 ?= b3)%Z | c => c end | c => c end.

Lemma ncmp_key x y :
  ncmp x y = match key x, key y with Some a, Some b => Some (lexcmp a b) | _, _ => None end.
Proof.
  unfold ncmp.
  destruct x as [sx|sx| |sx mx ex], y as [sy|sy| |sy my ey];
    try destruct sx; try destruct sy; cbn; try reflexivity.
  rewrite Z.compare_opp, (Z.compare_antisym ex ey).
  destruct (ex ?= ey)%Z; cbn; try reflexivity.
  all: try (rewrite Pos.compare_cont_spec; now destruct (mx ?= my)%positive).
Qed.

Lemma lexcmp_refl a : lexcmp a a = Eq.
Proof. destruct a as [[a1 a2] a3]; cbn. now rewrite !Z.compare_refl. Qed.

Lemma lexcmp_antisym a b : lexcmp b a = CompOpp (lexcmp a b).
Proof.
  destruct a as [[a1 a2] a3], b as [[b1 b2] b3]; cbn.
  rewrite (Z.compare_antisym a1 b1), (Z.compare_antisym a2 b2), (Z.compare_antisym a3 b3).
  destruct (a1 ?= b1)%Z; cbn; try reflexivity.
  destruct (a2 ?= b2)%Z; cbn; reflexivity.
Qed.

Definition comb (c1 c2 : comparison) : comparison :=
  match c1, c2 with Eq, Eq => Eq | _, _ => Lt end.

Lemma lexcmp_trans a b c :
  lexcmp a b <> Gt -> lexcmp b c <> Gt -> lexcmp a c = comb (lexcmp a b) (lexcmp b c).
Proof.
  destruct a as [[a1 a2] a3], b as [[b1 b2] b3], c as [[c1 c2] c3]; cbn.
  destruct (Z.compare_spec a1 b1), (Z.compare_spec b1 c1), (Z.compare_spec a1 c1);
    try lia; try (intros; cbn; congruence); subst;
  destruct (Z.compare_spec a2 b2), (Z.compare_spec b2 c2), (Z.compare_spec a2 c2);
    try lia; try (intros; cbn; congruence); subst;
  destruct (Z.compare_spec a3 b3), (Z.compare_spec b3 c3), (Z.compare_spec a3 c3);
    try lia; try (intros; cbn; congruence).
Qed.

Lemma neqb_ncmp x y : neqb x y = true <-> ncmp x y = Some Eq.
Proof.
  unfold neqb, ncmp, SFeqb. destruct (SFcompare x y) as [[]|]; split; congruence.
Qed.

Lemma ncmp_refl x : is_nan x = false -> ncmp x x = Some Eq.
Proof.
  intros H. rewrite ncmp_key. destruct (key x) eqn:E.
  - now rewrite lexcmp_refl.
  - destruct x as [[]|[]| |[] ? ?]; discriminate.
Qed.

Lemma ncmp_antisym x y : ncmp y x = option_map CompOpp (ncmp x y).
Proof.
  rewrite !ncmp_key. destruct (key x), (key y); cbn; try reflexivity.
  now rewrite lexcmp_antisym.
Qed.

Lemma ncmp_trans x y z o1 o2 :
  ncmp x y = Some o1 -> ncmp y z = Some o2 -> o1 <> Gt -> o2 <> Gt ->
  ncmp x z = Some (comb o1 o2).
Proof.
  rewrite !ncmp_key. destruct (key x), (key y), (key z); try discriminate.
  intros H1 H2; injection H1 as <-; injection H2 as <-. intros. f_equal.
  now apply lexcmp_trans.
Qed.

(* ------------------------------------------------------------------ strings *)
Lemma nat_of_ascii_inj a b : nat_of_ascii a = nat_of_ascii b -> a = b.
Proof. intros H. rewrite <- (ascii_nat_embedding a), <- (ascii_nat_embedding b). now rewrite H. Qed.

Lemma string_cmp_refl s : string_cmp s s = Eq.
Proof. induction s as [|c s IH]; cbn; [reflexivity|]. now rewrite Nat.compare_refl. Qed.

Lemma string_cmp_eq a b : string_cmp a b = Eq <-> a = b.
Proof.
  revert b; induction a as [|x a IH]; intros [|y b]; cbn; try (split; congruence).
  destruct (Nat.compare_spec (nat_of_ascii x) (nat_of_ascii y)) as [E|L|G].
  - apply nat_of_ascii_inj in E; subst. rewrite IH. split; congruence.
  - split; [discriminate|]. intros H; injection H as -> _. lia.
  - split; [discriminate|]. intros H; injection H as -> _. lia.
Qed.

Lemma string_cmp_antisym a b : string_cmp b a = CompOpp (string_cmp a b).
Proof.
  revert b; induction a as [|x a IH]; intros [|y b]; cbn; try reflexivity.
  rewrite (Nat.compare_antisym (nat_of_ascii x) (nat_of_ascii y)).
  destruct (Nat.compare (nat_of_ascii x) (nat_of_ascii y)); cbn; auto.
Qed.

Lemma string_cmp_trans a b c :
  string_cmp a b <> Gt -> string_cmp b c <> Gt ->
  string_cmp a c = comb (string_cmp a b) (string_cmp b c).
Proof.
  revert b c; induction a as [|x a IH]; intros [|y b] [|z c]; cbn; try congruence; try reflexivity.
  destruct (Nat.compare_spec (nat_of_ascii x) (nat_of_ascii y)),
           (Nat.compare_spec (nat_of_ascii y) (nat_of_ascii z)),
           (Nat.compare_spec (nat_of_ascii x) (nat_of_ascii z));
    try lia; try congruence; try reflexivity; intros.
  - now apply IH.
  - destruct (string_cmp a b); cbn; congruence.
Qed.

Lemma string_eqb_cmp a b : String.eqb a b = true <-> string_cmp a b = Eq.
Proof. rewrite String.eqb_eq. symmetry. apply string_cmp_eq. Qed.

Lemma string_cmp_prefix s c r : string_cmp s (s ++ String c r) = Lt.
Proof. induction s as [|x s IH]; cbn; [reflexivity|]. now rewrite Nat.compare_refl. Qed.

(* ------------------------------------------------------------------ booleans *)
Lemma bool_cmp_trans a b c :
  bool_cmp a b <> Gt -> bool_cmp b c <> Gt -> bool_cmp a c = comb (bool_cmp a b) (bool_cmp b c).
Proof. destruct a, b, c; cbn; congruence. Qed.

(* ------------------------------------------------------------------ unfolding helpers *)
Definition eq_list := fix go (l m : list value) {struct l} : bool :=
  match l, m with
  | [], [] => true
  | x :: l', y :: m' => if equals x y then go l' m' else false
  | _, _ => false
  end.
Definition eq_rec (s : list (string * value)) := fix go (r : list (string * value)) {struct r} : bool :=
  match r with
  | [] => true
  | (k, x) :: r' =>
      match rec_get s k with
      | Some y => if equals x y then go r' else false
      | None => false
      end
  end.
Definition cmp_list := fix go (l m : list value) {struct l} : option comparison :=
  match l, m with
  | [], [] => Some Eq
  | [], _ :: _ => Some Lt
  | _ :: _, [] => Some Gt
  | x :: l', y :: m' =>
      match compare x y with
      | Some Eq => go l' m'
      | other => other
      end
  end.

Lemma equals_list l m : equals (VList l) (VList m) = eq_list l m.
Proof. reflexivity. Qed.
Lemma equals_rec r s : equals (VRec r) (VRec s) = Nat.eqb (length r) (length s) && eq_rec s r.
Proof. reflexivity. Qed.
Lemma compare_list l m : compare (VList l) (VList m) = cmp_list l m.
Proof. reflexivity. Qed.

(* ------------------------------------------------------------------ compare: antisymmetry *)
Lemma compare_antisym a : forall b, compare b a = option_map CompOpp (compare a b).
Proof.
  induction a as [x|x| |s|l IH|r _|id ar bd sc _|bi|v _] using value_ind';
    intros [y|y| |t|m|r2|id2 ar2 bd2 sc2|bi2|v2]; try reflexivity.
  - apply ncmp_antisym.
  - cbn. now destruct x, y.
  - cbn. now rewrite string_cmp_antisym.
  - rewrite !compare_list. revert m.
    induction IH as [|x l Hx _ IHl]; intros [|y m]; cbn; try reflexivity.
    rewrite (Hx y). destruct (compare x y) as [[]|]; cbn; auto.
Qed.

Corollary compare_lt_gt a b : compare a b = Some Lt <-> compare b a = Some Gt.
Proof. rewrite (compare_antisym a b). destruct (compare a b) as [[]|]; cbn; split; congruence. Qed.
Corollary compare_eq_sym a b : compare a b = Some Eq <-> compare b a = Some Eq.
Proof. rewrite (compare_antisym a b). destruct (compare a b) as [[]|]; cbn; split; congruence. Qed.
Corollary compare_none_sym a b : compare a b = None <-> compare b a = None.
Proof. rewrite (compare_antisym a b). destruct (compare a b) as [[]|]; cbn; split; congruence. Qed.

(* ------------------------------------------------------------------ compare: transitivity *)
Lemma compare_trans a : forall b c o1 o2,
  compare a b = Some o1 -> compare b c = Some o2 -> o1 <> Gt -> o2 <> Gt ->
  compare a c = Some (comb o1 o2).
Proof.
  induction a as [x|x| |s|l IH|r _|id ar bd sc _|bi|v _] using value_ind';
    intros [y|y| |t|m|r2|id2 ar2 bd2 sc2|bi2|v2] [z|z| |u|n|r3|id3 ar3 bd3 sc3|bi3|v3] o1 o2;
    try (cbn; discriminate).
  - apply ncmp_trans.
  - cbn. intros H1 H2; injection H1 as <-; injection H2 as <-. intros. f_equal. now apply bool_cmp_trans.
  - cbn. intros H1 H2; injection H1 as <-; injection H2 as <-. intros. f_equal. now apply string_cmp_trans.
  - rewrite !compare_list. revert m n o1 o2.
    induction IH as [|x l Hx _ IHl]; intros [|y m] [|z n] o1 o2; cbn;
      try (intros H1 H2; injection H1 as <-; injection H2 as <-; intros; cbn; congruence);
      try discriminate.
    + (* [] , y::m, z::n *)
      intros H1 _ _ _; injection H1 as <-; reflexivity.
    + (* x::l, y::m, [] *)
      intros _ H2 _ N2; injection H2 as <-; congruence.
    + (* all cons *)
      destruct (compare x y) as [c1|] eqn:E1; [|discriminate].
      destruct (compare y z) as [c2|] eqn:E2; [|destruct c1; discriminate].
      destruct c1, c2; intros H1 H2 N1 N2;
        try (injection H1 as <-); try (injection H2 as <-); try congruence.
      * rewrite (Hx y z Eq Eq E1 E2) by congruence. cbn. now apply IHl with (m := m).
      * rewrite (Hx y z Eq Lt E1 E2) by congruence. cbn. destruct o1; reflexivity.
      * rewrite (Hx y z Lt Eq E1 E2) by congruence. reflexivity.
      * rewrite (Hx y z Lt Lt E1 E2) by congruence. reflexivity.
Qed.

Corollary compare_trans_lt a b c :
  compare a b = Some Lt -> compare b c = Some Lt -> compare a c = Some Lt.
Proof. intros H1 H2. now rewrite (compare_trans a b c Lt Lt). Qed.

(* ------------------------------------------------------------------ compare vs equals *)
Lemma compare_eq_equals a : forall b, compare a b = Some Eq -> equals a b = true.
Proof.
  induction a as [x|x| |s|l IH|r _|id ar bd sc _|bi|v _] using value_ind';
    intros [y|y| |t|m|r2|id2 ar2 bd2 sc2|bi2|v2]; try (cbn; discriminate).
  - cbn. apply neqb_ncmp.
  - cbn. destruct x, y; cbn; congruence.
  - cbn. intros H; injection H as H. now apply string_eqb_cmp.
  - rewrite compare_list, equals_list. revert m.
    induction IH as [|x l Hx _ IHl]; intros [|y m]; cbn; try discriminate; try reflexivity.
    destruct (compare x y) as [[]|] eqn:E; try discriminate.
    rewrite (Hx y E). apply IHl.
Qed.

Lemma equals_compare_eq a : forall b o, equals a b = true -> compare a b = Some o -> o = Eq.
Proof.
  induction a as [x|x| |s|l IH|r _|id ar bd sc _|bi|v _] using value_ind';
    intros [y|y| |t|m|r2|id2 ar2 bd2 sc2|bi2|v2] o; try (cbn; discriminate).
  - cbn. intros H. apply neqb_ncmp in H. unfold ncmp in *. congruence.
  - cbn. destruct x, y; cbn; congruence.
  - cbn. intros H. apply string_eqb_cmp in H. congruence.
  - rewrite compare_list, equals_list. revert m.
    induction IH as [|x l Hx _ IHl]; intros [|y m]; cbn; try discriminate; try congruence.
    destruct (equals x y) eqn:E; [|discriminate].
    destruct (compare x y) as [c|] eqn:E2; [|discriminate].
    rewrite (Hx y c E E2). apply IHl.
Qed.

(* trichotomy: when the two values are comparable, exactly one of .< .== .> holds *)
Lemma trichotomy a b o :
  compare a b = Some o ->
  match o with
  | Lt => dot_lt a b = Some true /\ dot_eq a b = false /\ dot_gt a b = Some false
  | Eq => dot_lt a b = Some false /\ dot_eq a b = true /\ dot_gt a b = Some false
  | Gt => dot_lt a b = Some false /\ dot_eq a b = false /\ dot_gt a b = Some true
  end.
Proof.
  intros H. unfold dot_lt, dot_gt, dot_eq. rewrite H.
  destruct o; cbn; repeat split.
  - now apply compare_eq_equals.
  - destruct (equals a b) eqn:E; [|reflexivity]. now pose proof (equals_compare_eq a b Lt E H).
  - destruct (equals a b) eqn:E; [|reflexivity]. now pose proof (equals_compare_eq a b Gt E H).
Qed.

Lemma le_is_lt_or_eq a b o :
  compare a b = Some o ->
  dot_le a b = Some (match dot_lt a b with Some true => true | _ => dot_eq a b end).
Proof.
  intros H. pose proof (trichotomy a b o H) as T. unfold dot_le, dot_lt, dot_gt, dot_eq in *. rewrite H in *.
  destruct o; cbn in *; destruct T as (_ & T2 & _); rewrite ?T2; reflexivity.
Qed.

Lemma ge_is_gt_or_eq a b o :
  compare a b = Some o ->
  dot_ge a b = Some (match dot_gt a b with Some true => true | _ => dot_eq a b end).
Proof.
  intros H. pose proof (trichotomy a b o H) as T. unfold dot_ge, dot_lt, dot_gt, dot_eq in *. rewrite H in *.
  destruct o; cbn in *; destruct T as (_ & T2 & _); rewrite ?T2; reflexivity.
Qed.

Lemma ordering_fails_iff_incomparable a b :
  (dot_lt a b = None <-> compare a b = None) /\ (dot_le a b = None <-> compare a b = None) /\
  (dot_gt a b = None <-> compare a b = None) /\ (dot_ge a b = None <-> compare a b = None).
Proof.
  unfold dot_lt, dot_le, dot_gt, dot_ge, check_ordering.
  destruct (compare a b); repeat split; congruence.
Qed.

(* ------------------------------------------------------------------ cross-type *)
Lemma cross_type a b : type_of a <> type_of b -> equals a b = false /\ compare a b = None.
Proof. destruct a, b; cbn; intros H; try (now split); congruence. Qed.

Lemma unordered_types a b :
  match type_of a with TNull | TRec | TLam | TBuiltin | TSpread => True | _ => False end ->
  compare a b = None /\ compare b a = None.
Proof. destruct a, b; cbn; intros H; try (now split); contradiction. Qed.

(* ------------------------------------------------------------------ unchecked built-ins *)
Lemma unchecked_agree a b :
  ugt a b = match dot_gt a b with Some r => r | None => false end /\
  ult a b = match dot_lt a b with Some r => r | None => false end /\
  ugte a b = match dot_ge a b with Some r => r | None => false end /\
  ulte a b = match dot_le a b with Some r => r | None => false end.
Proof.
  unfold ugt, ult, ugte, ulte, dot_gt, dot_lt, dot_ge, dot_le, check_ordering.
  destruct (compare a b) as [[]|]; cbn; repeat split.
Qed.

(* ------------------------------------------------------------------ equals: equivalence on data *)
Lemma equals_refl v : data v = true -> equals v v = true.
Proof.
  induction v as [x|x| |s|l IH|r IH|id ar bd sc _|bi|v _] using value_ind'; cbn; try discriminate;
    try reflexivity.
  - intros H. apply neqb_ncmp. apply ncmp_refl. now destruct (is_nan x).
  - intros _. now destruct x.
  - intros _. apply String.eqb_refl.
  - intros H. change (eq_list l l = true).
    induction IH as [|x l Hx _ IHl]; cbn in *; [reflexivity|].
    apply andb_prop in H as [H1 H2]. rewrite (Hx H1). auto.
  - intros H. apply andb_prop in H as [Hnd Hd]. rewrite Nat.eqb_refl. cbn.
    apply nodup_keys_NoDup in Hnd.
    change (eq_rec r r = true).
    (* generalise: every entry of a suffix is found in the whole record *)
    assert (G : forall r0, (forall k v, In (k, v) r0 -> In (k, v) r) ->
                           Forall (fun kv => data (snd kv) = true -> equals (snd kv) (snd kv) = true) r0 ->
                           forallb (fun kv => data (snd kv)) r0 = true -> eq_rec r r0 = true).
    { induction r0 as [|[k v] r0 IH0]; intros Hin HF Hd0; cbn; [reflexivity|].
      rewrite (rec_get_In_NoDup r k v Hnd (Hin k v (or_introl eq_refl))).
      inversion HF as [|? ? Hv HF']; subst. cbn in Hd0. apply andb_prop in Hd0 as [Hd1 Hd2].
      cbn in Hv. rewrite (Hv Hd1). apply IH0; auto. intros; apply Hin; now right. }
    apply G; auto.
Qed.

(* subset + equal length + NoDup => symmetric lookup *)
Lemma eq_rec_lookup s r :
  eq_rec s r = true -> forall k x, In (k, x) r -> exists y, rec_get s k = Some y /\ equals x y = true.
Proof.
  induction r as [|[k0 x0] r IH]; cbn; [tauto|].
  destruct (rec_get s k0) as [y0|] eqn:E; [|discriminate].
  destruct (equals x0 y0) eqn:E2; [|discriminate].
  intros H k x [Heq|HI].
  - injection Heq as <- <-. eauto.
  - eauto.
Qed.

Lemma eq_rec_intro s r :
  (forall k x, In (k, x) r -> exists y, rec_get s k = Some y /\ equals x y = true) -> eq_rec s r = true.
Proof.
  induction r as [|[k0 x0] r IH]; cbn; [reflexivity|]. intros H.
  destruct (H k0 x0 (or_introl eq_refl)) as (y & -> & ->). apply IH. intros; apply H; now right.
Qed.

Lemma keys_incl_of_eq_rec s r : eq_rec s r = true -> incl (map fst r) (map fst s).
Proof.
  intros H k Hk. apply in_map_iff in Hk as ([k' x] & <- & HI). cbn.
  destruct (eq_rec_lookup s r H k' x HI) as (y & Hy & _).
  apply rec_get_In in Hy. now apply (in_map fst) in Hy.
Qed.

Lemma equals_sym a : forall b, data a = true -> data b = true -> equals a b = equals b a.
Proof.
  induction a as [x|x| |s|l IH|r IH|id ar bd sc _|bi|v _] using value_ind';
    intros [y|y| |t|m|r2|id2 ar2 bd2 sc2|bi2|v2]; try reflexivity; try (cbn; discriminate).
  - intros _ _. cbn. unfold neqb, SFeqb. change SFcompare with ncmp. rewrite (ncmp_antisym x y).
    destruct (ncmp x y) as [[]|]; reflexivity.
  - intros _ _. cbn. now destruct x, y.
  - intros _ _. cbn. apply String.eqb_sym.
  - cbn [data]. rewrite !equals_list. revert m.
    induction IH as [|x l Hx _ IHl]; intros [|y m]; cbn; try reflexivity.
    intros H1 H2. apply andb_prop in H1 as [H1a H1b]. apply andb_prop in H2 as [H2a H2b].
    rewrite (Hx y H1a H2a). destruct (equals y x); auto.
  - cbn [data]. intros H1 H2. apply andb_prop in H1 as [Hnd1 Hd1]. apply andb_prop in H2 as [Hnd2 Hd2].
    apply nodup_keys_NoDup in Hnd1, Hnd2.
    rewrite !equals_rec. rewrite (Nat.eqb_sym (length r2) (length r)).
    destruct (Nat.eqb_spec (length r) (length r2)) as [Hlen|]; [|reflexivity]. cbn.
    (* elementwise symmetry of equals between r's and r2's values *)
    assert (Hsym : forall k x y, In (k, x) r -> In (k, y) r2 -> equals x y = equals y x).
    { intros k x y Hx Hy. rewrite Forall_forall in IH. apply (IH (k, x) Hx y).
      - rewrite forallb_forall in Hd1. apply (Hd1 (k, x) Hx).
      - rewrite forallb_forall in Hd2. apply (Hd2 (k, y) Hy). }
    assert (Hdir : forall ra rb, NoDup (map fst ra) -> NoDup (map fst rb) -> length ra = length rb ->
               (forall k x y, In (k, x) ra -> In (k, y) rb -> equals x y = equals y x) ->
               eq_rec rb ra = true -> eq_rec ra rb = true).
    { intros ra rb Na Nb Hl Hs H. apply eq_rec_intro. intros k y Hy.
      assert (Hk : In k (map fst ra)).
      { assert (Hinc : incl (map fst rb) (map fst ra)).
        { apply NoDup_length_incl; [exact Na | rewrite !map_length; lia | now apply keys_incl_of_eq_rec]. }
        apply Hinc. now apply (in_map fst) in Hy. }
      apply in_map_iff in Hk as ([k' x] & Hk' & HI). cbn in Hk'; subst k'.
      destruct (eq_rec_lookup rb ra H k x HI) as (y' & Hy' & He).
      rewrite (rec_get_In_NoDup rb k y Nb Hy) in Hy'. injection Hy' as <-.
      exists x. split; [now apply rec_get_In_NoDup|]. now rewrite <- (Hs k x y HI Hy). }
    destruct (eq_rec r2 r) eqn:E1, (eq_rec r r2) eqn:E2; try reflexivity.
    + rewrite (Hdir r r2 Hnd1 Hnd2 Hlen Hsym E1) in E2. discriminate.
    + rewrite (Hdir r2 r Hnd2 Hnd1 (eq_sym Hlen)) in E1; [discriminate| |exact E2].
      intros k x y Hx Hy. symmetry. now apply (Hsym k y x).
Qed.

Lemma equals_trans a : forall b c,
  data a = true -> data b = true -> data c = true ->
  equals a b = true -> equals b c = true -> equals a c = true.
Proof.
  induction a as [x|x| |s|l IH|r IH|id ar bd sc _|bi|v _] using value_ind';
    intros [y|y| |t|m|r2|id2 ar2 bd2 sc2|bi2|v2] [z|z| |u|n|r3|id3 ar3 bd3 sc3|bi3|v3];
    try (cbn; discriminate); try (cbn; congruence).
  - intros _ _ _. cbn. rewrite !neqb_ncmp. intros H1 H2.
    now rewrite (ncmp_trans x y z Eq Eq H1 H2) by congruence.
  - intros _ _ _. cbn. destruct x, y, z; cbn; congruence.
  - intros _ _ _. cbn. rewrite !String.eqb_eq. congruence.
  - cbn [data]. rewrite !equals_list. revert m n.
    induction IH as [|x l Hx _ IHl]; intros [|y m] [|z n]; cbn; try discriminate; try reflexivity.
    intros H1 H2 H3. apply andb_prop in H1 as [H1a H1b]. apply andb_prop in H2 as [H2a H2b].
    apply andb_prop in H3 as [H3a H3b].
    destruct (equals x y) eqn:E1; [|discriminate]. destruct (equals y z) eqn:E2; [|discriminate].
    rewrite (Hx y z H1a H2a H3a E1 E2). now apply IHl.
  - cbn [data]. intros H1 H2 H3. apply andb_prop in H1 as [Hnd1 Hd1].
    apply andb_prop in H2 as [Hnd2 Hd2]. apply andb_prop in H3 as [Hnd3 Hd3].
    rewrite !equals_rec. intros E1 E2. apply andb_prop in E1 as [L1 E1]. apply andb_prop in E2 as [L2 E2].
    apply Nat.eqb_eq in L1, L2. apply andb_true_intro; split; [apply Nat.eqb_eq; congruence|].
    apply eq_rec_intro. intros k x Hx.
    destruct (eq_rec_lookup r2 r E1 k x Hx) as (y & Hy & Exy).
    destruct (eq_rec_lookup r3 r2 E2 k y (rec_get_In _ _ _ Hy)) as (z & Hz & Eyz).
    exists z. split; [assumption|].
    rewrite Forall_forall in IH. apply (IH (k, x) Hx y z); auto.
    + rewrite forallb_forall in Hd1. apply (Hd1 (k, x) Hx).
    + rewrite forallb_forall in Hd2. apply (Hd2 (k, y)). now apply rec_get_In.
    + rewrite forallb_forall in Hd3. apply (Hd3 (k, z)). now apply rec_get_In.
Qed.

(* record equality ignores key order *)
Lemma equals_record_perm r1 r2 :
  data (VRec r1) = true -> Permutation r1 r2 -> equals (VRec r1) (VRec r2) = true.
Proof.
  cbn [data]. intros H HP. apply andb_prop in H as [Hnd Hd]. apply nodup_keys_NoDup in Hnd.
  rewrite equals_rec. rewrite (Permutation_length HP), Nat.eqb_refl. cbn.
  assert (Hnd2 : NoDup (map fst r2)).
  { eapply Permutation_NoDup; [apply Permutation_map; exact HP|exact Hnd]. }
  apply eq_rec_intro. intros k x Hx. exists x. split.
  - apply rec_get_In_NoDup; [assumption|]. eapply Permutation_in; eauto.
  - apply equals_refl. rewrite forallb_forall in Hd. apply (Hd (k, x) Hx).
Qed.

Lemma neq_is_negb a b : dot_ne a b = negb (dot_eq a b).
Proof. reflexivity. Qed.

(* ------------------------------------------------------------------ lexicographic order, prefix first *)
Definition self_comparable (v : value) : Prop := compare v v = Some Eq.

Lemma prefix_first l x r :
  Forall self_comparable l -> compare (VList l) (VList (l ++ x :: r)) = Some Lt.
Proof.
  rewrite compare_list. induction 1 as [|y l Hy _ IH]; cbn; [reflexivity|].
  unfold self_comparable in Hy. now rewrite Hy.
Qed.

Lemma list_lex_first_difference p q x y l m :
  Forall2 (fun a b => compare a b = Some Eq) p q -> compare x y = Some Lt ->
  compare (VList (p ++ x :: l)) (VList (q ++ y :: m)) = Some Lt.
Proof.
  rewrite compare_list. induction 1 as [|a b p q Hab _ IH]; cbn; intros Hxy.
  - now rewrite Hxy.
  - rewrite Hab. auto.
Qed.

Lemma string_prefix_first s c r : compare (VStr s) (VStr (s ++ String c r)) = Some Lt.
Proof. cbn. now rewrite string_cmp_prefix. Qed.

Lemma data_self_comparable_scalar v :
  data v = true -> match v with VNum _ | VBool _ | VStr _ => self_comparable v | _ => True end.
Proof.
  destruct v; cbn; auto; unfold self_comparable; cbn.
  - intros H. apply ncmp_refl. now destruct (is_nan x).
  - intros _. now destruct b.
  - intros _. now rewrite string_cmp_refl.
Qed.
