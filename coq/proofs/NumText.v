(* proofs/NumText.v — C16 lemmas that need no real-number reasoning: sign symmetry of the
   reference, radix literals, the refutations by computation. *)
From Coq Require Import ZArith Floats.SpecFloat Bool List String Ascii Lia.
Require Import Blots.Num Blots.Outcome Blots.gen.Builtins Blots.Ast Blots.NumText.
Import ListNotations.
Open Scope Z_scope.

(* ---------------------------------------------------------------- rn_decimal: sign symmetry *)
Lemma rn_decimal_sign : forall s m e,
  0 <= m -> rn_decimal s m e = with_sign s (rn_decimal false m e).
Proof.
  intros s m e Hm. destruct m as [|p|p]; [ | | lia ]; destruct s; reflexivity.
Qed.

Lemma with_sign_true_nneg : forall x, with_sign true x = nneg x.
Proof. reflexivity. Qed.

(* ---------------------------------------------------------------- to_string -> to_number *)
Section ToStringToNumber.
  Variable display : num -> string.
  Variable str_parse : string -> option num.
  Lemma to_string_to_number : forall x,
    str_parse (display x) = ref_str_parse (display x) ->      (* str::parse correctly rounded here *)
    ref_str_parse (display x) = Some x ->                       (* Display text denotes x *)
    to_number_str str_parse (to_string_num display x) = Ok x.
  Proof. intros x Hp Hd. unfold to_number_str, to_string_num. rewrite Hp, Hd. reflexivity. Qed.
End ToStringToNumber.

(* ---------------------------------------------------------------- refutations by computation *)
Lemma radix_literal_ge_2p63_refuted :
  forall sp, literal_value sp "0xFFFFFFFFFFFFFFFF" = None
          /\ parse_numexpr sp "0xFFFFFFFFFFFFFFFF" = PLitErr
          /\ parse_numexpr sp "0x8000000000000000" = PLitErr
          /\ parse_numexpr sp "0b1000000000000000000000000000000000000000000000000000000000000000" = PLitErr.
Proof. intros sp. repeat split; vm_compute; reflexivity. Qed.

(* the shipped serde_json number parser (no float_roundtrip) reads the JSON text of 1e-39
   one ulp high; the correctly rounded reading is the number itself *)
Lemma json_shipped_refuted :
  let x := num_of_bits 0x37d5c72fb1552d83 in
  is_finite x = true
  /\ json_out ref_ryu x = "1e-39"%string
  /\ ref_str_parse "1e-39" = Some x
  /\ json_in true (json_out ref_ryu x) = Ok x
  /\ json_in false (json_out ref_ryu x) = Ok (num_of_bits 0x37d5c72fb1552d84).
Proof. vm_compute. repeat split; reflexivity. Qed.
