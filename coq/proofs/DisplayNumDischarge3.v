(* DisplayNumDischarge3.v — C20: display_scientific_accurate (proofs/DisplayNumAcc.v) with the
   {:.14e} specification required of VALID doubles only.  The executable model fmt_exp14_exec
   finds the decimal exponent from a bit-length estimate corrected by at most 8 steps, which
   is enough exactly for the exponent range of binary64 — so it meets the specification for
   every valid double, not for arbitrary (m, e) pairs.  Same proof as display_scientific_accurate;
   the specification is used once, at the (valid) argument.  Axiom-free. *)
From Coq Require Import ZArith Bool String Ascii List Lia QArith Qabs Qpower Lqa Floats.SpecFloat.
Require Import Blots.Num Blots.Outcome Blots.DisplayNum.
Require Import Blots.proofs.DisplayNumGroup Blots.proofs.DisplayNumSpec Blots.proofs.DisplayNumText
               Blots.proofs.DisplayNumInt Blots.proofs.DisplayNum Blots.proofs.DisplayNumAcc.
Import ListNotations.
Open Scope char_scope.
Open Scope Z_scope.

Section SciAccuracyValid.
  Variable log10 : num -> num.
  Variable powi : num -> Z -> num.
  Variable fmt_prec : num -> Z -> text.
  Variable fmt_exp14 : num -> text.
  Variable parse_f64 : text -> option num.
  Variable fx : bool.
  Notation fdn := (format_display_number log10 powi fmt_prec fmt_exp14 parse_f64 fx).

  (* {:.14e} is the correctly rounded 15-significant-digit decimal of x, for valid doubles *)
  Hypothesis HE : forall x k, valid_binary prec emax x = true -> is_finite x = true -> in_decade x k ->
    exists ms es kk, split_once "e" (fmt_exp14 x) = Some (ms, es) /\ mant14_shape ms = true /\
      parse_i32 es = Some kk /\
      (Qabs (denote_plain ms * Qpower (10 # 1) kk - num_to_Q x) <= (1 # 2) * Qpower (10 # 1) (k - 14)%Z)%Q.
  Hypothesis HP : forall s, mant14_shape s = true ->
    exists m, parse_f64 s = Some m /\ is_finite m = true /\
      (Qabs (num_to_Q m - denote_plain s) <= 2 # 1000000000000000)%Q.
  Hypothesis HF : forall m, is_finite m = true ->
    prec_shape 14 (fmt_prec m 14) = true /\
    (Qabs (denote_plain (fmt_prec m 14) - num_to_Q m) <= 1 # 200000000000000)%Q.

  Theorem display_scientific_accurate_valid : forall x k,
    valid_binary prec emax x = true ->
    is_finite x = true -> neqb x nzero = false -> scientific_range (nabs x) = true ->
    in_decade x k ->
    exists t, fdn x = Ok t /\
      (Qabs (denote t - num_to_Q x) <= (1 # 2) * Qpower (10 # 1) (k - 14)%Z)%Q /\
      (Qabs (denote t - num_to_Q x) < Qpower (10 # 1) (k - 14)%Z)%Q.
  Proof.
    intros x k Vx Hf Hz Hs Hk.
    destruct (HE x k Vx Hf Hk) as (ms & es & kk & Esp & Hms & Ekk & Herr).
    destruct (HP ms Hms) as (m & Epm & Hfm & Hperr).
    destruct (HF m Hfm) as (Hshape & Hferr).
    (* the text *)
    exists (format_scientific fmt_prec fmt_exp14 parse_f64 x).
    assert (Efdn : fdn x = Ok (format_scientific fmt_prec fmt_exp14 parse_f64 x)).
    { unfold format_display_number.
      destruct x; try discriminate Hf; cbn [is_nan is_inf]; rewrite Hz, Hs; reflexivity. }
    split; [exact Efdn|].
    (* its structure *)
    destruct (prec_shape_inv _ _ Hshape) as (neg & ip & ofp & Ep & Hi & Hof & Hpos & _).
    destruct (Hpos ltac:(lia)) as (fp & -> & Hlen). cbn [ok_frac] in Hof.
    assert (Et : format_scientific fmt_prec fmt_exp14 parse_f64 x =
                 mk_plain neg ip (trim_ofp (Some fp)) ++ "e" :: int_to_text kk).
    { unfold format_scientific. rewrite Esp, Epm, Ekk. unfold format_mantissa.
      rewrite Ep. now rewrite trim_mantissa_mk_plain. }
    (* its value: B * 10^kk with B the re-printed mantissa *)
    assert (Ev : (denote (format_scientific fmt_prec fmt_exp14 parse_f64 x) ==
                  denote_plain (fmt_prec m 14) * Qpower (10 # 1) kk)%Q).
    { rewrite Et. rewrite sci_text_value; auto; [|apply (ok_frac_trim (Some fp)); exact Hof].
      rewrite Ep. rewrite !denote_plain_mk_plain by assumption. cbn zeta.
      pose proof (trim_ofp_value ip (Some fp)) as V. destruct neg; rewrite V; reflexivity. }
    (* A = B: both on the 10^-14 grid, less than one step apart *)
    destruct (mant14_inv ms Hms) as (neg' & ip' & fp' & Ems & Hi' & Hf' & Hl').
    destruct (denote_plain_grid neg' ip' fp' Hi') as (z1 & G1).
    destruct (denote_plain_grid neg ip fp Hi) as (z2 & G2).
    assert (Hl2 : length fp = 14%nat) by lia.
    rewrite Hl' in G1. rewrite Hl2 in G2. rewrite <- Ems in G1. rewrite <- Ep in G2.
    assert (AB : (denote_plain ms == denote_plain (fmt_prec m 14))%Q).
    { rewrite G1, G2. f_equiv.
      assert (z1 = z2) as ->; [|reflexivity].
      apply (grid_eq z1 z2 (Z.to_pos (pow10 14))). rewrite <- G1, <- G2.
      change (Qmake 1 (Z.to_pos (pow10 14))) with (1 # 100000000000000)%Q.
      set (A := denote_plain ms) in *. set (B := denote_plain (fmt_prec m 14)) in *.
      set (M := num_to_Q m) in *.
      apply Qabs_Qlt_condition.
      apply Qabs_Qle_condition in Hperr. apply Qabs_Qle_condition in Hferr.
      destruct Hperr, Hferr. split; lra. }
    rewrite Ev, <- AB.
    assert (Ppos : (0 < Qpower (10 # 1) (k - 14)%Z)%Q) by (apply Qpower_0_lt; reflexivity).
    split; [exact Herr|].
    eapply Qle_lt_trans; [exact Herr|]. lra.
  Qed.
End SciAccuracyValid.
