(* proofs/NumTextJson.v — the transcribed serde_json number parser in its float_roundtrip
   configuration (json_in true) reads every JSON number text  [-]int[.frac][e|E[+|-]exp]  as the
   correctly rounded value of its decimal (the reference ref_str_parse), or rejects it when that
   value overflows.  Bookkeeping of int_loop / frac_loop / parse_exponent only; axiom-free. *)
From Coq Require Import ZArith Floats.SpecFloat Bool List String Ascii Lia.
Require Import Blots.Num Blots.Outcome Blots.gen.Builtins Blots.Ast Blots.NumText.
Require Import Blots.proofs.NumText Blots.proofs.NumTextStr.
Open Scope string_scope.
Open Scope Z_scope.

Lemma NumTextRT_digits_nonneg : forall d, all_digits d = true -> 0 <= digits_val d 0.
Proof.
  assert (G : forall d acc, all_digits d = true -> 0 <= acc -> 0 <= digits_val d acc).
  { induction d as [|c d IH]; intros acc H Ha; simpl in *; auto.
    apply andb_prop in H. destruct H as [Hc Hd]. apply IH; auto.
    unfold is_digit in Hc. cbv zeta in Hc. apply andb_prop in Hc. unfold digit_val. lia. }
  intros d H. apply G; [exact H | lia].
Qed.

(* rounding does not look at the sign *)
Lemma binary_round_aux_opp : forall m e l,
  SpecFloat.binary_round_aux prec emax true m e l = SFopp (SpecFloat.binary_round_aux prec emax false m e l).
Proof.
  intros m e l. unfold SpecFloat.binary_round_aux.
  destruct (shr_fexp prec emax m e l) as [mrs' e'].
  destruct (shr_fexp prec emax (round_nearest_even (shr_m mrs') (loc_of_shr_record mrs')) e' loc_Exact) as [mrs'' e''].
  destruct (shr_m mrs''); try reflexivity. destruct (Zle_bool e'' (emax - prec)); reflexivity.
Qed.
Lemma binary_round_opp : forall p e,
  SpecFloat.binary_round prec emax true p e = SFopp (SpecFloat.binary_round prec emax false p e).
Proof.
  intros p e. unfold SpecFloat.binary_round.
  destruct (shl_align p e (fexp prec emax (Z.pos (digits2_pos p) + e))) as [mz ez].
  apply binary_round_aux_opp.
Qed.

(* `n as f64` for an integer = the reference on (n, exponent 0) *)
Lemma num_of_Z_rn_decimal : forall v, 0 <= v -> num_of_Z v = rn_decimal false v 0.
Proof.
  intros [|p|p] H; [reflexivity | | lia].
  unfold rn_decimal, with_sign, rn_pos. change (400 <? 0) with false. cbv iota.
  replace (0 <? - (400 + Z.log2 (Z.pos p))) with false
    by (symmetry; apply Z.ltb_ge; pose proof (Z.log2_nonneg (Zpos p)); lia).
  change (0 <=? 0) with true. cbv iota. rewrite Z.pow_0_r, Z.mul_1_r. reflexivity.
Qed.
Lemma num_of_Z_neg_rn_decimal : forall v, 0 < v -> num_of_Z (- v) = rn_decimal true v 0.
Proof.
  intros [|p|p] H; try lia.
  rewrite (rn_decimal_sign true (Zpos p) 0) by lia. rewrite <- num_of_Z_rn_decimal by lia.
  cbn [Z.opp num_of_Z SpecFloat.binary_normalize with_sign]. unfold num_of_Z. cbn [SpecFloat.binary_normalize].
  apply binary_round_opp.
Qed.

(* the loops accumulate every digit into a_all; a_sig = a_all while no overflow happened *)
Definition acc_ok (a : acc) : Prop := a_ovf a = false -> a_sig a = a_all a.

Lemma int_loop_all : forall ds a e,
  a_all (fst (int_loop ds a e)) = digits_val ds (a_all a).
Proof.
  induction ds as [|c ds IH]; intros a e; [reflexivity|].
  cbn [int_loop]. cbv zeta.
  destruct (a_ovf a || (U64_MAXZ <? a_sig a * 10 + digit_val c)); rewrite IH; reflexivity.
Qed.
Lemma int_loop_ok : forall ds a e, acc_ok a -> acc_ok (fst (int_loop ds a e)).
Proof.
  induction ds as [|c ds IH]; intros a e H; [exact H|].
  cbn [int_loop]. cbv zeta.
  destruct (a_ovf a || (U64_MAXZ <? a_sig a * 10 + digit_val c)) eqn:E; apply IH.
  - intros Hf. discriminate Hf.
  - intros _. cbn [a_sig a_all]. apply orb_false_elim in E. destruct E as [E _]. now rewrite (H E).
Qed.
Lemma int_loop_no_ovf_small : forall ds a e,
  a_ovf (fst (int_loop ds a e)) = false -> a_ovf a = false.
Proof.
  induction ds as [|c ds IH]; intros a e H; [exact H|].
  cbn [int_loop] in H. cbv zeta in H.
  destruct (a_ovf a || (U64_MAXZ <? a_sig a * 10 + digit_val c)) eqn:E.
  - apply IH in H. discriminate H.
  - apply orb_false_elim in E. tauto.
Qed.

Lemma frac_loop_all : forall ds a es ea,
  let '(a', _, ea') := frac_loop ds a es ea in
  a_all a' = digits_val ds (a_all a) /\ ea' = ea - slen ds.
Proof.
  induction ds as [|c ds IH]; intros a es ea.
  - cbn [frac_loop digits_val]. unfold slen. simpl. split; [reflexivity | lia].
  - cbn [frac_loop]. cbv zeta.
    assert (HS : slen (String c ds) = slen ds + 1).
    { unfold slen. cbn [String.length]. lia. }
    destruct (a_ovf a).
    + specialize (IH {| a_sig := a_sig a; a_all := a_all a * 10 + digit_val c; a_ovf := true |} es (ea - 1)).
      destruct (frac_loop ds _ es (ea - 1)) as [[a' es'] ea']. cbn [a_all] in IH. cbn [digits_val]. rewrite HS.
      destruct IH; split; [assumption | lia].
    + destruct (U64_MAXZ <? a_sig a * 10 + digit_val c).
      * specialize (IH {| a_sig := a_sig a; a_all := a_all a * 10 + digit_val c; a_ovf := true |} es (ea - 1)).
        destruct (frac_loop ds _ es (ea - 1)) as [[a' es'] ea']. cbn [a_all] in IH. cbn [digits_val]. rewrite HS.
        destruct IH; split; [assumption | lia].
      * specialize (IH {| a_sig := a_sig a * 10 + digit_val c; a_all := a_all a * 10 + digit_val c;
                          a_ovf := false |} (es - 1) (ea - 1)).
        destruct (frac_loop ds _ (es - 1) (ea - 1)) as [[a' es'] ea']. cbn [a_all] in IH. cbn [digits_val]. rewrite HS.
        destruct IH; split; [assumption | lia].
Qed.

(* the value the exact parser returns for digits m and decimal exponent e *)
Definition exact_result (s : bool) (m e : Z) : outcome num :=
  let f := rn_decimal false m e in if is_inf f then Err else Ok (with_sign s f).

Lemma finish_exact : forall s a es ea,
  finish true (negb s) a es ea = exact_result s (a_all a) ea.
Proof. intros. unfold finish, exact_result. now rewrite negb_involutive. Qed.

(* JSON integer part: "0" or a digit string without a leading zero *)
Definition json_int (ip : string) : Prop :=
  all_digits ip = true /\ ip <> "" /\ (ip = "0" \/ match ip with String c _ => c <> "0"%char | _ => False end).

Lemma json_int_head : forall ip, json_int ip ->
  exists c ip', ip = String c ip' /\ is_digit c = true /\ (Ascii.eqb c "0" && negb (is_empty ip') = false).
Proof.
  intros ip (Hd & Hne & Hz). destruct ip as [|c ip']; [congruence|].
  exists c, ip'. simpl in Hd. apply andb_prop in Hd. repeat split; try tauto.
  destruct Hz as [Hz|Hz].
  - inversion Hz; subst. reflexivity.
  - destruct (Ascii.eqb c "0") eqn:E; [apply Ascii.eqb_eq in E; congruence | reflexivity].
Qed.

Lemma with_sign_zero : forall s, with_sign s (S754_zero false) = S754_zero s.
Proof. now intros [|]. Qed.

(* exponent part after the mantissa *)
Lemma parse_exponent_exact : forall s a es ea up sg ed,
  all_digits ed = true -> ed <> "" -> digits_val ed 0 <= I32_MAXZ ->
  parse_exponent true (negb s) a es ea (esign_text sg ++ ed)
  = exact_result s (a_all a) (ea + exp_val (Some (up, sg, ed))).
Proof.
  intros s a es ea up sg ed Hd Hne Hle. unfold parse_exponent.
  assert (Hs : match esign_text sg ++ ed with
               | String "+" r' => (true, r') | String "-" r' => (false, r') | _ => (true, esign_text sg ++ ed)
               end = (match sg with EMinus => false | _ => true end, ed)).
  { destruct sg; cbn [esign_text append]; try reflexivity.
    destruct ed as [|c ed']; [congruence|]. simpl in Hd. apply andb_prop in Hd. destruct Hd as [Hc _].
    clear -Hc. ascii_cases c; try discriminate Hc; reflexivity. }
  rewrite Hs, (span_digits_all ed Hd).
  destruct ed as [|c ed'] eqn:E; [congruence|]. cbn [is_empty orb negb]. rewrite <- E in *.
  replace (I32_MAXZ <? digits_val ed 0) with false by (symmetry; apply Z.ltb_ge; lia).
  rewrite finish_exact. f_equal. unfold exp_val. destruct sg; lia.
Qed.


Lemma exp_head_e : forall up : bool, Ascii.eqb (lower_c (if up then "E" else "e")%char) "e" = true.
Proof. now intros [|]. Qed.


(* every JSON number text with a fraction and/or an exponent — which is every text serde_json/ryu
   prints for a finite f64 — is read by the float_roundtrip configuration of the transcribed parser
   as the correctly rounded value of its decimal, with the sign applied afterwards *)
Theorem serde_exact_reads_dec_text : forall s ip fp ex,
  json_int ip -> all_digits fp = true -> exp_ok ex ->
  match ex with Some (_, _, ed) => digits_val ed 0 <= I32_MAXZ | None => True end ->
  (fp <> "" \/ ex <> None) ->
  serde_number true (sign_str s ++ dec_text ip fp ex)
  = exact_result s (digits_val (ip ++ fp) 0) (exp_val ex - slen fp).
Proof.
  intros s ip fp ex Hip Hf Hex Hexb Hfloat.
  destruct (json_int_head ip Hip) as (c0 & ip' & Eip & Hc0 & Hlead).
  destruct Hip as (Hi & Hne & _).
  unfold serde_number.
  assert (Hsign : match sign_str s ++ dec_text ip fp ex with
                  | String "-" r => (false, r) | _ => (true, sign_str s ++ dec_text ip fp ex)
                  end = (negb s, dec_text ip fp ex)).
  { destruct s; [reflexivity|]. cbn [sign_str append negb]. unfold dec_text. rewrite Eip.
    change (String c0 ip' ++ frac_text fp ++ exp_text ex) with (String c0 (ip' ++ frac_text fp ++ exp_text ex)).
    clear -Hc0. ascii_cases c0; try discriminate Hc0; reflexivity. }
  rewrite Hsign. unfold dec_text.
  assert (Hnd : no_digit_head (frac_text fp ++ exp_text ex)).
  { destruct fp as [|c fp']; [apply exp_text_no_digit | reflexivity]. }
  rewrite (span_digits_app ip _ Hi Hnd). cbv beta iota.
  pose proof (int_loop_all ip {| a_sig := 0; a_all := 0; a_ovf := false |} 0) as Hall.
  destruct (int_loop ip {| a_sig := 0; a_all := 0; a_ovf := false |} 0) as [a e_sig] eqn:EL.
  cbn [fst a_all] in Hall.
  rewrite digits_val_app, <- Hall.
  clear EL Hi Hne Hnd Hsign. subst ip. cbv beta iota. rewrite Hlead.
  destruct fp as [|cf fp'].
  - (* no fraction: there is an exponent *)
    cbn [frac_text is_empty append digits_val].
    replace (exp_val ex - slen "") with (0 + exp_val ex) by (unfold slen; simpl; lia).
    destruct ex as [[[up sg] ed]|]; [|destruct Hfloat; congruence].
    destruct Hex as [Hed Hedne].
    destruct up; cbn [exp_text]; cbv beta iota;
      change (Ascii.eqb (lower_c "E") "e") with true; change (Ascii.eqb (lower_c "e") "e") with true; cbv iota.
    + apply (parse_exponent_exact s a e_sig 0 true sg ed Hed Hedne Hexb).
    + apply (parse_exponent_exact s a e_sig 0 false sg ed Hed Hedne Hexb).
  - (* a fraction, then maybe an exponent *)
    unfold frac_text. cbn [is_empty]. cbv iota.
    change (("." ++ String cf fp') ++ exp_text ex) with (String "." (String cf fp' ++ exp_text ex)).
    cbv beta iota.
    rewrite (span_digits_app (String cf fp') _ Hf (exp_text_no_digit ex)). cbn [is_empty]. cbv beta iota.
    pose proof (frac_loop_all (String cf fp') {| a_sig := a_sig a; a_all := a_all a; a_ovf := false |} e_sig 0) as HF.
    destruct (frac_loop (String cf fp') {| a_sig := a_sig a; a_all := a_all a; a_ovf := false |} e_sig 0)
      as [[a' es'] ea'].
    cbn [a_all] in HF. destruct HF as [HA HE]. rewrite <- HA.
    destruct ex as [[[up sg] ed]|].
    + destruct Hex as [Hed Hedne].
      destruct up; cbn [exp_text]; cbv beta iota;
        change (Ascii.eqb (lower_c "E") "e") with true; change (Ascii.eqb (lower_c "e") "e") with true; cbv iota.
      * rewrite (parse_exponent_exact s a' es' ea' true sg ed Hed Hedne Hexb). f_equal. rewrite HE. lia.
      * rewrite (parse_exponent_exact s a' es' ea' false sg ed Hed Hedne Hexb). f_equal. rewrite HE. lia.
    + cbn [exp_text exp_val]. rewrite finish_exact. f_equal. lia.
Qed.

(* ---------------------------------------------------------------- JSON out -> JSON in, float_roundtrip build *)
(* serde_json's text for a finite f64 (ryu): [-]int[.frac][e[-]exp], always with a fraction or an
   exponent; the text denotes x when the reference reads x from it *)
Definition json_text_contract (t : string) (x : num) : Prop :=
  exists ip fp ex, t = sign_str (nsign x) ++ dec_text ip fp ex /\
    json_int ip /\ all_digits fp = true /\ exp_ok ex /\
    match ex with Some (_, _, ed) => digits_val ed 0 <= I32_MAXZ | None => True end /\
    (fp <> "" \/ ex <> None) /\
    rn_decimal (nsign x) (digits_val (ip ++ fp) 0) (exp_val ex - slen fp) = x.

Lemma is_inf_with_sign : forall s v, is_inf (with_sign s v) = is_inf v.
Proof. intros [|] [ | | | ]; reflexivity. Qed.

Theorem json_reads_back_exact_build : forall (json_print : num -> string) x,
  is_finite x = true -> json_text_contract (json_print x) x ->
  json_in true (json_out json_print x) = Ok x.
Proof.
  intros jp x Hf (ip & fp & ex & Ht & Hip & Hfp & Hex & Hexb & Hfl & Hval).
  unfold json_in, json_out. rewrite Hf, Ht.
  rewrite (serde_exact_reads_dec_text (nsign x) ip fp ex Hip Hfp Hex Hexb Hfl).
  unfold exact_result. cbv zeta.
  assert (Hm : 0 <= digits_val (ip ++ fp) 0).
  { destruct Hip as (Hi & _). apply NumTextRT_digits_nonneg. now rewrite all_digits_app, Hi, Hfp. }
  rewrite (rn_decimal_sign (nsign x) _ _ Hm) in Hval.
  assert (Hinf : is_inf (rn_decimal false (digits_val (ip ++ fp) 0) (exp_val ex - slen fp)) = false).
  { rewrite <- (is_inf_with_sign (nsign x)), Hval. destruct x; try discriminate Hf; reflexivity. }
  now rewrite Hinf, Hval.
Qed.
