(* C02Weak.v — WEAKENING (C02, LET2 round): a binding of a name that nothing mentions changes nothing.

   The evaluator is late-binding: a lambda body is evaluated in  local :: captured scope :: CALLER'S chain
   (Eval.call_passed), so a function value can observe a binding made after it was created — but only of a
   name that occurs in its body.  "Nothing mentions x":
     [nocc x e]   x does not occur in the expression e: not as an identifier, not as a `{x}` shorthand key,
                  not as an assignment target (`x = ..` anywhere, also inside lambda bodies and do-blocks:
                  Expr::Assignment fails when the name is bound ANYWHERE in the chain, so `g = () => (x = 5)`
                  observes a binding of x without reading it), not as a lambda parameter;
     [vnm x v]    no function value inside v (hereditarily through lists, records, captured scopes) has x
                  among its parameters or occurring in its body.
   Two scope chains are related ([wk x]) when they have the same head-frame kind and every name OTHER than x
   looks up to the same value.  Theorem [evalE_wk] / [AD_wk] / [evalD_wk]: from related chains whose values do
   not mention x, and the SAME store, an expression that does not mention x evaluates to the same outcome,
   the same store, related chains; no value mentioning x is ever created.  All expression forms (assignments,
   do-blocks, lambdas, calls), FunctionDef::call at every depth.  Generic in operators / built-ins with
   [ops_nm]: "with two callbacks that agree on values not mentioning x, and return such values, the operator /
   built-in gives the same result, not mentioning x" — this is exactly GenOps.v's / AllGenClosed.v's unary
   parametricity statement for the store-independent predicate [vok x], so it is discharged for
   binop_impl / builtin_impl / builtin_full by instantiation ([ops_nm_inst], [ops_nm_full]).

   `x <> "inputs"` is needed: FunctionDef::call copies the caller's `inputs` into every call frame, whether the
   body mentions it or not.

   Not covered (the hypothesis is syntactic and conservative): a lambda whose PARAMETER is x, or that captured
   its own x, does not really depend on an outer binding of x; [nocc] / [vnm] exclude it. *)
From Coq Require Import String Ascii List ZArith Bool Lia.
Require Import Blots.Num Blots.gen.Builtins Blots.Ast Blots.Value Blots.Outcome Blots.Binop
               Blots.Env Blots.Eval Blots.BuiltinsHof Blots.Program Blots.EvalInst Blots.EvalFull
               Blots.proofs.ExprInd Blots.proofs.ValueInd Blots.proofs.FreeVars Blots.proofs.GenOps
               Blots.proofs.AllGenClosed Blots.proofs.Frames Blots.proofs.StoreMono Blots.proofs.Scoping.
Import ListNotations.
Open Scope string_scope.
Open Scope list_scope.
Open Scope nat_scope.

(* ---- the syntactic predicates ---- *)
Definition neqx (x y : string) : bool := negb (String.eqb y x).

Fixpoint nocc (x : string) (e : expr) {struct e} : bool :=
  match e with
  | EId y => neqx x y
  | ELam args body => forallb (fun a => neqx x (arg_name a)) args && nocc x body
  | EList items =>
      (fix go (l : list (commented expr)) : bool :=
         match l with [] => true | Cm _ a _ :: r => nocc x a && go r end) items
  | ERec entries =>
      (fix go (l : list (commented rentry)) : bool :=
         match l with
         | [] => true
         | Cm _ (REntry k v) _ :: r =>
             (match k with
              | KDyn a => nocc x a && nocc x v
              | KSpread a => nocc x a
              | KStatic _ => nocc x v
              | KShort y => neqx x y
              end) && go r
         end) entries
  | ECond c t f => nocc x c && nocc x t && nocc x f
  | EDo stmts (Cm _ ret _) =>
      (fix go (l : list (commented expr)) : bool :=
         match l with [] => true | Cm _ a _ :: r => nocc x a && go r end) stmts && nocc x ret
  | EAssign y v => neqx x y && nocc x v
  | EOutput a | EUn _ a | EFact a | ESpread a | EDot a _ => nocc x a
  | ECall f args =>
      nocc x f && (fix go (l : list expr) : bool :=
                     match l with [] => true | a :: r => nocc x a && go r end) args
  | EAccess a i => nocc x a && nocc x i
  | EBin _ l r => nocc x l && nocc x r
  | _ => true
  end.

Definition params_nm (x : string) (ps : list lamarg) : bool := forallb (fun a => neqx x (arg_name a)) ps.

(* no function value inside v mentions x *)
Fixpoint vnm (x : string) (v : value) : bool :=
  match v with
  | VLam _ ps body sc =>
      params_nm x ps && nocc x body && forallb (fun kv => match kv with (_, w) => vnm x w end) sc
  | VList l => forallb (vnm x) l
  | VRec r => forallb (fun kv => match kv with (_, w) => vnm x w end) r
  | VSpread w => vnm x w
  | _ => true
  end.
Definition frame_nm (x : string) (f : frame) : bool := forallb (fun kv => match kv with (_, w) => vnm x w end) f.
Definition frames_nm (x : string) (fr : frames) : bool := forallb (fun kf => frame_nm x (snd kf)) fr.

(* ---- Prop-level readings (the names and proofs of C02Wf.v's first part, the string n in the place of the
   store length) ---- *)
Definition vok (n : string) (v : value) : Prop := vnm n v = true.
Definition fok (n : string) (f : frame) : Prop := Forall (fun kv => vok n (snd kv)) f.
Definition frsok (n : string) (fr : frames) : Prop := Forall (fun kf => fok n (snd kf)) fr.

Lemma frame_nm_iff : forall n f, frame_nm n f = true <-> fok n f.
Proof.
  intros n f. unfold frame_nm, fok. rewrite forallb_forall, Forall_forall. split.
  - intros H [k x] Hx. exact (H (k, x) Hx).
  - intros H [k x] Hx. exact (H (k, x) Hx).
Qed.
Lemma frames_nm_iff : forall n fr, frames_nm n fr = true <-> frsok n fr.
Proof.
  intros n fr. unfold frames_nm, frsok. rewrite forallb_forall, Forall_forall. split.
  - intros H kf Hx. apply frame_nm_iff. exact (H kf Hx).
  - intros H kf Hx. apply frame_nm_iff. exact (H kf Hx).
Qed.
Lemma vok_VList : forall n l, vok n (VList l) <-> Forall (vok n) l.
Proof. intros n l. unfold vok. cbn [vnm]. rewrite forallb_forall, Forall_forall. reflexivity. Qed.
Lemma vok_VRec : forall n r, vok n (VRec r) <-> fok n r.
Proof. intros n r. exact (frame_nm_iff n r). Qed.
Lemma vok_VLam : forall n id a b sc,
  vok n (VLam id a b sc) <-> params_nm n a = true /\ nocc n b = true /\ fok n sc.
Proof.
  intros n id a b sc. unfold vok. cbn [vnm]. rewrite !andb_true_iff.
  split.
  - intros [[H1 H2] H3]. split; [exact H1|split; [exact H2|apply (frame_nm_iff n sc); exact H3]].
  - intros [H1 [H2 H3]]. split; [split; assumption|apply (frame_nm_iff n sc); exact H3].
Qed.
Lemma vok_VSpread : forall n x, vok n (VSpread x) <-> vok n x.
Proof. intros; reflexivity. Qed.
Lemma vok_atomic : forall n v, atomic v -> vok n v.
Proof. intros n v H. destruct v; try contradiction; reflexivity. Qed.

(* ---- frames ---- *)
Lemma lookup_frame_vok : forall n f y v, fok n f -> lookup_frame f y = Some v -> vok n v.
Proof.
  intros n f y v H. induction H as [|[k w] f Hw _ IH]; cbn [lookup_frame]; [discriminate|].
  destruct (String.eqb y k); [intros E; inversion E; subst; exact Hw|exact IH].
Qed.
Lemma lookup_vok : forall n fr y v, frsok n fr -> lookup fr y = Some v -> vok n v.
Proof.
  intros n fr y v H. induction H as [|[k f] fr Hf _ IH]; cbn [lookup]; [discriminate|].
  destruct (lookup_frame f y) eqn:E; [intros E2; inversion E2; subst; eapply lookup_frame_vok; eauto|exact IH].
Qed.
Lemma rec_get_vok : forall n r k v, fok n r -> rec_get r k = Some v -> vok n v.
Proof.
  intros n r k v H. induction H as [|[k' w] f Hw _ IH]; cbn [rec_get]; [discriminate|].
  destruct (String.eqb k k'); [intros E; inversion E; subst; exact Hw|exact IH].
Qed.
Lemma rec_insert_fok : forall n r k v, fok n r -> vok n v -> fok n (rec_insert r k v).
Proof.
  intros n r k v H Hv. induction H as [|[k' w] f Hw Hf IH]; cbn [rec_insert].
  - constructor; [exact Hv|constructor].
  - destruct (String.eqb k k'); constructor; assumption.
Qed.
Lemma rec_insert_all_fok : forall n es r, fok n r -> fok n es -> fok n (rec_insert_all r es).
Proof.
  intros n es. unfold rec_insert_all. induction es as [|[k v] es IH]; intros r Hr He; cbn [fold_left]; [exact Hr|].
  inversion He; subst. apply IH; [apply rec_insert_fok; assumption|assumption].
Qed.
Lemma capture_fok : forall n fr vars acc, frsok n fr -> fok n acc -> fok n (capture fr vars acc).
Proof.
  intros n fr vars. induction vars as [|x vars IH]; intros acc Hfr Hacc; cbn [capture]; [exact Hacc|].
  destruct (lookup fr x) as [v|] eqn:E; [|apply IH; assumption].
  destruct (is_builtin_name x); [apply IH; assumption|].
  apply IH; [assumption|]. constructor; [|exact Hacc]. cbn [snd]. eapply lookup_vok; eauto.
Qed.
Lemma insert_head_frsok : forall n fr x v fr', frsok n fr -> vok n v -> insert_head fr x v = Some fr' -> frsok n fr'.
Proof.
  intros n fr x v fr' H Hv E. destruct fr as [|[[|] f] r]; cbn [insert_head] in E; try discriminate.
  inversion E; subst. inversion H; subst. constructor; [|assumption]. cbn [snd] in *. constructor; assumption.
Qed.

(* ---- value-level operations of evaluate_ast ---- *)
Lemma atoms_vok : forall n (l : list string), Forall (vok n) (map VStr l).
Proof. intros n l. induction l; cbn [map]; constructor; [reflexivity|assumption]. Qed.
Lemma spread_items_vok : forall n v, vok n v -> Forall (vok n) (spread_items v).
Proof.
  intros n v H. destruct v; cbn [spread_items]; try constructor.
  - apply atoms_vok.
  - apply vok_VList; exact H.
  - apply vok_VRec in H. induction H as [|[k w] r Hw _ IH]; cbn [map]; constructor; [|exact IH].
    apply vok_VList. constructor; [reflexivity|constructor; [exact Hw|constructor]].
Qed.
Lemma flatten_spreads_vok : forall n l, Forall (vok n) l -> Forall (vok n) (flatten_spreads l).
Proof.
  intros n l H. induction H as [|v l Hv _ IH]; cbn [flatten_spreads]; [constructor|].
  destruct v; try (constructor; assumption).
  apply Forall_app. split; [apply spread_items_vok; exact Hv|exact IH].
Qed.
Lemma nth_vok : forall n l k, Forall (vok n) l -> vok n (nth k l VNull).
Proof.
  intros n l k H. destruct (nth_in_or_default k l VNull) as [Hin|E]; [|rewrite E; reflexivity].
  rewrite Forall_forall in H. apply H; exact Hin.
Qed.
Lemma access_val_vok : forall n v i r, vok n v -> access_val v i = Ok r -> vok n r.
Proof.
  intros n v i r Hv E. destruct v as [y|y| |y|l|rr|id ar bd sc|bb|y]; cbn [access_val] in E; try discriminate.
  - destruct (as_number i) as [m| | | |]; try discriminate. cbn [obind] in E.
    destruct (index_from _ m) as [k|]; inversion E; subst; try reflexivity.
    destruct (nth_error (chars y) k); reflexivity.
  - destruct (as_number i) as [m| | | |]; try discriminate. cbn [obind] in E. inversion E; subst.
    destruct (index_from _ m) as [k|]; [|reflexivity]. apply nth_vok. apply vok_VList; exact Hv.
  - destruct (as_string i) as [m| | | |]; try discriminate. cbn [obind] in E. inversion E; subst.
    destruct (rec_get rr m) eqn:Eg; [|reflexivity]. eapply rec_get_vok; [|exact Eg]. apply vok_VRec; exact Hv.
Qed.
Lemma dot_val_vok : forall n v f r, vok n v -> dot_val v f = Ok r -> vok n r.
Proof.
  intros n v f r Hv E. destruct v as [y|y| |y|l|rr|id ar bd sc|bb|y]; cbn [dot_val] in E; try discriminate. inversion E; subst.
  destruct (rec_get rr f) eqn:Eg; [|reflexivity]. eapply rec_get_vok; [|exact Eg]. apply vok_VRec; exact Hv.
Qed.
Lemma spread_val_vok : forall n v r, vok n v -> spread_val v = Ok r -> vok n r.
Proof. intros n v r Hv E. destruct v; cbn [spread_val] in E; try discriminate; inversion E; subst; exact Hv. Qed.
Lemma enum_from_fok : forall {A} n (g : A -> value) (l : list A) k,
  (forall a, In a l -> vok n (g a)) ->
  fok n (map (fun iv => (nat_to_dec (fst iv), g (snd iv))) (enum_from k l)).
Proof.
  intros A n g l. induction l as [|a l IH]; intros k H; cbn [enum_from map]; constructor.
  - cbn [snd]. apply H. left; reflexivity.
  - apply IH. intros b Hb. apply H. right; exact Hb.
Qed.
Lemma record_spread_entries_fok : forall n v, vok n v -> fok n (record_spread_entries v).
Proof.
  intros n v H. destruct v; cbn [record_spread_entries]; try constructor.
  destruct v; try constructor.
  - apply (enum_from_fok n VStr). intros; reflexivity.
  - apply (enum_from_fok n (fun x => x)). apply vok_VSpread, vok_VList in H. rewrite Forall_forall in H. exact H.
  - apply vok_VSpread, vok_VRec in H. exact H.
Qed.
Lemma constants_vok : forall n, vok n (VRec constants_record).
Proof. intros n. reflexivity. Qed.

Lemma bind_params_fok : forall n ps idx args acc fr,
  Forall (vok n) args -> fok n acc -> bind_params ps idx args acc = Some fr -> fok n fr.
Proof.
  intros n ps. induction ps as [|p ps IH]; intros idx args acc fr Ha Hacc E; cbn [bind_params] in E.
  - inversion E; subst; exact Hacc.
  - destruct p as [x|x|x].
    + destruct (nth_error args idx) as [v|] eqn:En; [|discriminate].
      eapply IH; [exact Ha| |exact E]. constructor; [|exact Hacc]. cbn [snd].
      rewrite Forall_forall in Ha. apply Ha. eapply nth_error_In; eauto.
    + eapply IH; [exact Ha| |exact E]. constructor; [|exact Hacc]. cbn [snd].
      destruct (nth_error args idx) as [v|] eqn:En; [|reflexivity].
      rewrite Forall_forall in Ha. apply Ha. eapply nth_error_In; eauto.
    + eapply IH; [exact Ha| |exact E]. constructor; [|exact Hacc]. cbn [snd].
      apply vok_VList. rewrite Forall_forall in *. intros y Hy. apply Ha.
      rewrite <- (firstn_skipn idx args). apply in_or_app. right; exact Hy.
Qed.

(* ---- the predicate as an instance of GenOps.v / AllGenClosed.v: store-independent ---- *)
Definition anyS (_ _ : store) : Prop := True.
Definition Pp (x : string) (_ : store) (v : value) : Prop := vok x v.
Lemma anyS_refl : forall s, anyS s s. Proof. intros; exact I. Qed.
Lemma anyS_trans : forall a b c, anyS a b -> anyS b c -> anyS a c. Proof. intros; exact I. Qed.
Lemma Pp_mono : forall x v st st', anyS st st' -> Pp x st v -> Pp x st' v.
Proof. intros x v st st' _ H; exact H. Qed.
Lemma Pp_VList : forall x st l, Pp x st (VList l) <-> closed_list (Pp x) st l.
Proof. intros x st l. apply vok_VList. Qed.
Lemma Pp_VRec : forall x st r, Pp x st (VRec r) <-> AllGenClosed.closed_frame (Pp x) st r.
Proof. intros x st r. apply vok_VRec. Qed.
Lemma Pp_VSpread : forall x st w, Pp x st (VSpread w) <-> Pp x st w.
Proof. intros; reflexivity. Qed.
Lemma Pp_atomic : forall x st v, atomic v -> Pp x st v.
Proof. intros x st v. apply vok_atomic. Qed.

(* two callbacks agree on values that do not mention x; the first returns such values *)
Definition cb_agr (x : string) (cb1 cb2 : callback) : Prop :=
  forall this f args st, vok x this -> vok x f -> Forall (vok x) args -> cb1 this f args st = cb2 this f args st.
Definition cb_nm (x : string) (cb : callback) : Prop :=
  forall this f args st r st', vok x this -> vok x f -> Forall (vok x) args ->
    cb this f args st = (r, st') -> forall v, r = Ok v -> vok x v.
Lemma cb_agr_gen : forall x cb1 cb2 s0, cb_agr x cb1 cb2 -> cb_agree anyS (Pp x) s0 cb1 cb2.
Proof. intros x cb1 cb2 s0 H this f args st _ Ht Hf Ha. apply H; assumption. Qed.
Lemma cb_nm_gen : forall x cb s0, cb_nm x cb -> cb_closed anyS (Pp x) s0 cb.
Proof. intros x cb s0 H this f args st r st' _ Ht Hf Ha E. split; [exact I|]. intros v Ev. exact (H this f args st r st' Ht Hf Ha E v Ev). Qed.

(* THE HYPOTHESIS ON OPERATORS / BUILT-INS: they create no mention of x and use their callback parametrically *)
Definition binop_nm (x : string) (bi : callback -> binop -> value -> value -> store -> outcome value * store) : Prop :=
  forall cb1 cb2, cb_agr x cb1 cb2 -> cb_nm x cb1 -> forall op l r st, vok x l -> vok x r ->
    bi cb1 op l r st = bi cb2 op l r st /\
    (forall res st', bi cb1 op l r st = (res, st') -> forall v, res = Ok v -> vok x v).
Definition builtin_nm (x : string) (bu : callback -> builtin -> list value -> store -> outcome value * store) : Prop :=
  forall cb1 cb2, cb_agr x cb1 cb2 -> cb_nm x cb1 -> forall b args st, Forall (vok x) args ->
    bu cb1 b args st = bu cb2 b args st /\
    (forall res st', bu cb1 b args st = (res, st') -> forall v, res = Ok v -> vok x v).
Definition ops_nm bi bu : Prop := forall x, binop_nm x bi /\ builtin_nm x bu.

(* ---- x does not occur => x is not a free variable (so `capture` never looks x up) ---- *)
Lemma neqx_eqb : forall x y, neqx x y = true <-> String.eqb y x = false.
Proof. intros x y. unfold neqx. destruct (String.eqb y x); split; intros H; try reflexivity; discriminate H. Qed.

Lemma nocc_ids_ok : forall x, String.eqb "inputs" x = false ->
  forall e, nocc x e = true -> ids_ok (fun y => String.eqb y x = false) e.
Proof.
  intros x Hinp. induction e using expr_ind'; intros Hn; cbn [nocc ids_ok] in *; try exact I.
  - apply neqx_eqb; exact Hn.
  - exact Hinp.
  - match goal with HF : Forall _ items |- _ => induction HF as [|[ld a tr] l Ha _ IHl] end; [exact I|].
    cbn [cnode] in Ha. apply andb_true_iff in Hn. destruct Hn as [H1 H2]. split; [apply Ha; exact H1|apply IHl; exact H2].
  - match goal with HF : Forall _ entries |- _ => induction HF as [|[ld [k v] tr] l Ha _ IHl] end; [exact I|].
    cbn [cnode Pentry] in Ha. destruct Ha as [Hk Hv]. apply andb_true_iff in Hn. destruct Hn as [H1 H2].
    split; [|apply IHl; exact H2].
    destruct k as [key|ke|z|se]; cbn [Pkey] in Hk.
    + apply Hv; exact H1.
    + apply andb_true_iff in H1. destruct H1 as [Ha Hb]. split; [apply Hk; exact Ha|apply Hv; exact Hb].
    + apply neqx_eqb; exact H1.
    + apply Hk; exact H1.
  - apply andb_true_iff in Hn. destruct Hn as [_ Hn]. apply IHe; exact Hn.
  - apply andb_true_iff in Hn. destruct Hn as [Hn H3]. apply andb_true_iff in Hn. destruct Hn as [H1 H2].
    split; [apply IHe1; exact H1|split; [apply IHe2; exact H2|apply IHe3; exact H3]].
  - match goal with HF : Forall _ stmts, HR : _ -> _ |- _ => rename HF into HFs; rename HR into HRet end.
    destruct ret as [ld rt tr]. cbn [cnode] in HRet. apply andb_true_iff in Hn. destruct Hn as [H1 H2].
    split; [|apply HRet; exact H2]. clear HRet H2.
    induction HFs as [|[l1 s t1] l Hs1 _ IHl]; [exact I|].
    cbn [cnode] in Hs1. apply andb_true_iff in H1. destruct H1 as [Ha Hb]. split; [apply Hs1; exact Ha|apply IHl; exact Hb].
  - apply andb_true_iff in Hn. destruct Hn as [_ Hn]. apply IHe; exact Hn.
  - apply IHe; exact Hn.
  - apply andb_true_iff in Hn. destruct Hn as [H1 H2]. split; [apply IHe; exact H1|].
    match goal with HF : Forall _ args |- _ => induction HF as [|a l Ha _ IHl] end; [exact I|].
    apply andb_true_iff in H2. destruct H2 as [Ha' Hb]. split; [apply Ha; exact Ha'|apply IHl; exact Hb].
  - apply andb_true_iff in Hn. destruct Hn as [H1 H2]. split; [apply IHe1; exact H1|apply IHe2; exact H2].
  - apply IHe; exact Hn.
  - apply andb_true_iff in Hn. destruct Hn as [H1 H2]. split; [apply IHe1; exact H1|apply IHe2; exact H2].
  - apply IHe; exact Hn.
  - apply IHe; exact Hn.
  - apply IHe; exact Hn.
Qed.
Lemma nocc_fv : forall x, String.eqb "inputs" x = false ->
  forall e bnd y, nocc x e = true -> In y (free_vars e bnd) -> String.eqb y x = false.
Proof.
  intros x Hinp e bnd y H Hin.
  exact (fv_ids_ok (fun y => String.eqb y x = false) e bnd y (nocc_ids_ok x Hinp e H) Hin).
Qed.

(* nocc of the parts of a list / record / do-block, as Forall *)
Lemma nocc_items : forall x (l : list (commented expr)),
  (fix go (l : list (commented expr)) : bool :=
     match l with [] => true | Cm _ a _ :: r => nocc x a && go r end) l = true ->
  Forall (fun cm => nocc x (cnode cm) = true) l.
Proof.
  intros x l. induction l as [|[ld a tr] l IH]; intros H; [constructor|].
  apply andb_true_iff in H. destruct H as [H1 H2]. constructor; [exact H1|apply IH; exact H2].
Qed.
Lemma nocc_args : forall x (l : list expr),
  (fix go (l : list expr) : bool := match l with [] => true | a :: r => nocc x a && go r end) l = true ->
  Forall (fun a => nocc x a = true) l.
Proof.
  intros x l. induction l as [|a l IH]; intros H; [constructor|].
  apply andb_true_iff in H. destruct H as [H1 H2]. constructor; [exact H1|apply IH; exact H2].
Qed.
Definition nocc_key (x : string) (k : rkey) : bool :=
  match k with KDyn a | KSpread a => nocc x a | KStatic _ => true | KShort y => neqx x y end.
Lemma nocc_entries : forall x (l : list (commented rentry)),
  (fix go (l : list (commented rentry)) : bool :=
     match l with
     | [] => true
     | Cm _ (REntry k v) _ :: r =>
         (match k with
          | KDyn a => nocc x a && nocc x v
          | KSpread a => nocc x a
          | KStatic _ => nocc x v
          | KShort y => neqx x y
          end) && go r
     end) l = true ->
  Forall (fun cm => match cnode cm with REntry k v =>
                      nocc_key x k = true /\ (match k with KDyn _ | KStatic _ => nocc x v = true | _ => True end) end) l.
Proof.
  intros x l. induction l as [|[ld [k v] tr] l IH]; intros H; [constructor|].
  apply andb_true_iff in H. destruct H as [H1 H2]. constructor; [|apply IH; exact H2].
  cbn [cnode]. destruct k; cbn [nocc_key].
  - split; [reflexivity|exact H1].
  - apply andb_true_iff in H1. exact H1.
  - split; [exact H1|exact I].
  - split; [exact H1|exact I].
Qed.

(* ================= the relation on scope chains ================= *)
Definition hdk (fr : frames) : option fkind := match fr with (k, _) :: _ => Some k | [] => None end.

Section Sim.
  Variable x : string.
  Hypothesis Hinp : String.eqb "inputs" x = false.

  Definition wk (frA frB : frames) : Prop :=
    hdk frA = hdk frB /\ forall y, String.eqb y x = false -> lookup frA y = lookup frB y.
  Definition okc (frA frB : frames) : Prop := wk frA frB /\ frsok x frA /\ frsok x frB.

  Lemma wk_refl : forall fr, wk fr fr.
  Proof. intros fr. split; reflexivity. Qed.
  Lemma wk_push : forall k f frA frB, wk frA frB -> wk ((k, f) :: frA) ((k, f) :: frB).
  Proof.
    intros k f frA frB [_ H]. split; [reflexivity|]. intros y Hy. cbn [lookup].
    destruct (lookup_frame f y); [reflexivity|apply H; exact Hy].
  Qed.
  Lemma wk_bind : forall k f w fr, wk ((k, f) :: fr) ((k, (x, w) :: f) :: fr).
  Proof.
    intros k f w fr. split; [reflexivity|]. intros y Hy. cbn [lookup lookup_frame]. rewrite Hy. reflexivity.
  Qed.
  Lemma wk_insert : forall frA frB y v, wk frA frB ->
    match insert_head frA y v, insert_head frB y v with
    | Some a, Some b => wk a b
    | None, None => True
    | _, _ => False
    end.
  Proof.
    intros frA frB y v [Hk H].
    destruct frA as [|[[|] fa] ra]; destruct frB as [|[[|] fb] rb]; cbn [hdk] in Hk; try discriminate Hk;
      cbn [insert_head]; try exact I.
    split; [reflexivity|]. intros z Hz. specialize (H z Hz). cbn [lookup lookup_frame] in *.
    destruct (String.eqb z y); [reflexivity|exact H].
  Qed.
  Lemma wk_contains : forall frA frB y, wk frA frB -> String.eqb y x = false -> contains frA y = contains frB y.
  Proof. intros frA frB y [_ H] Hy. unfold contains. rewrite (H y Hy). reflexivity. Qed.
  Lemma wk_capture : forall frA frB vars, wk frA frB -> (forall y, In y vars -> String.eqb y x = false) ->
    forall acc, capture frA vars acc = capture frB vars acc.
  Proof.
    intros frA frB vars [_ H]. induction vars as [|y vars IH]; intros Hv acc; cbn [capture]; [reflexivity|].
    rewrite (H y (Hv y (or_introl eq_refl))).
    assert (Hv' : forall z, In z vars -> String.eqb z x = false) by (intros z Hz; apply Hv; right; exact Hz).
    destruct (lookup frB y); [destruct (is_builtin_name y)|]; apply IH; exact Hv'.
  Qed.
  Lemma okc_push : forall k f frA frB, okc frA frB -> fok x f -> okc ((k, f) :: frA) ((k, f) :: frB).
  Proof.
    intros k f frA frB (W & FA & FB) Hf. split; [apply wk_push; exact W|].
    split; constructor; assumption.
  Qed.

  (* ---- what one evaluation step guarantees, on the two sides ---- *)
  Definition rel2 (XA XB : result) : Prop :=
    fst XA = fst XB /\ fst (snd XA) = fst (snd XB) /\ okc (snd (snd XA)) (snd (snd XB)) /\
    (forall v, fst XA = Ok v -> vok x v).
  Definition relL (XA XB : outcome (list value) * cfg) : Prop :=
    fst XA = fst XB /\ fst (snd XA) = fst (snd XB) /\ okc (snd (snd XA)) (snd (snd XB)) /\
    (forall vs, fst XA = Ok vs -> Forall (vok x) vs).
  Definition relU (XA XB : outcome unit * cfg) : Prop :=
    fst XA = fst XB /\ fst (snd XA) = fst (snd XB) /\ okc (snd (snd XA)) (snd (snd XB)).
  Definition wk_ok (ev : cfg -> expr -> result) (e : expr) : Prop :=
    forall st frA frB, okc frA frB -> rel2 (ev (st, frA) e) (ev (st, frB) e).

  Lemma rel2_same : forall st frA frB (o : outcome value), okc frA frB -> (forall v, o = Ok v -> vok x v) ->
    rel2 (o, (st, frA)) (o, (st, frB)).
  Proof. intros st frA frB o H Hv. split; [reflexivity|split; [reflexivity|split; [exact H|exact Hv]]]. Qed.
  Lemma rel2_fail : forall st frA frB (o : outcome value), okc frA frB -> is_ok o = false ->
    rel2 (o, (st, frA)) (o, (st, frB)).
  Proof. intros st frA frB o H Ho. apply rel2_same; [exact H|]. intros v E; subst; discriminate Ho. Qed.

  Ltac stp H :=
    match type of H with
    | _ ?XA ?XB =>
        let oA := fresh "oA" in let sA := fresh "sA" in let fA := fresh "fA" in
        let oB := fresh "oB" in let sB := fresh "sB" in let fB := fresh "fB" in
        let E1 := fresh "E" in let E2 := fresh "E" in let W := fresh "W" in let V := fresh "V" in
        destruct XA as [oA [sA fA]]; destruct XB as [oB [sB fB]];
        destruct H as (E1 & E2 & W & V); cbn [fst snd] in E1, E2, W, V; subst oB; subst sB
    end.
  Ltac stpU H :=
    match type of H with
    | _ ?XA ?XB =>
        let oA := fresh "oA" in let sA := fresh "sA" in let fA := fresh "fA" in
        let oB := fresh "oB" in let sB := fresh "sB" in let fB := fresh "fB" in
        let E1 := fresh "E" in let E2 := fresh "E" in let W := fresh "W" in
        destruct XA as [oA [sA fA]]; destruct XB as [oB [sB fB]];
        destruct H as (E1 & E2 & W); cbn [fst snd] in E1, E2, W; subst oB; subst sB
    end.

  Section E.
  Variable release : bool.
  Variable bi : callback -> binop -> value -> value -> store -> outcome value * store.
  Variable bu : callback -> builtin -> list value -> store -> outcome value * store.
  Hypothesis Hbi : binop_nm x bi.
  Variable apply : frames -> callback.
  Hypothesis Hap : forall frA frB, okc frA frB -> cb_agr x (apply frA) (apply frB) /\ cb_nm x (apply frA).
  Notation evalE := (evalE release bi apply).

  Lemma evalL_wk : forall ev l, Forall (wk_ok ev) l ->
    forall st frA frB, okc frA frB -> relL (evalL ev (st, frA) l) (evalL ev (st, frB) l).
  Proof.
    intros ev l HF; induction HF as [|e l He _ IH]; intros st frA frB Hc; cbn [evalL].
    - split; [reflexivity|split; [reflexivity|split; [exact Hc|]]]. intros vs E; inversion E; constructor.
    - pose proof (He st frA frB Hc) as H1. stp H1.
      destruct oA; cbn [cast_fail];
        try (split; [reflexivity|split; [reflexivity|split; [exact W|intros ? E; discriminate E]]]).
      pose proof (IH sA fA fB W) as H2. stp H2.
      destruct oA; (split; [reflexivity|split; [reflexivity|split; [exact W0|]]]); intros vs E; inversion E; subst.
      constructor; [apply V; reflexivity|apply V0; reflexivity].
  Qed.
  Lemma evalCL_wk : forall ev (l : list (commented expr)), Forall (fun cm => wk_ok ev (cnode cm)) l ->
    forall st frA frB, okc frA frB -> relL (evalCL ev (st, frA) l) (evalCL ev (st, frB) l).
  Proof.
    intros ev l HF; induction HF as [|[ld e tr] l He _ IH]; intros st frA frB Hc; cbn [evalCL].
    - split; [reflexivity|split; [reflexivity|split; [exact Hc|]]]. intros vs E; inversion E; constructor.
    - cbn [cnode] in He. pose proof (He st frA frB Hc) as H1. stp H1.
      destruct oA; cbn [cast_fail];
        try (split; [reflexivity|split; [reflexivity|split; [exact W|intros ? E; discriminate E]]]).
      pose proof (IH sA fA fB W) as H2. stp H2.
      destruct oA; (split; [reflexivity|split; [reflexivity|split; [exact W0|]]]); intros vs E; inversion E; subst.
      constructor; [apply V; reflexivity|apply V0; reflexivity].
  Qed.

  Definition entry_ok (ev : cfg -> expr -> result) (r : rentry) : Prop :=
    match r with
    | REntry k v =>
        match k with
        | KDyn a => wk_ok ev a /\ wk_ok ev v
        | KSpread a => wk_ok ev a
        | KStatic _ => wk_ok ev v
        | KShort y => String.eqb y x = false
        end
    end.
  Lemma evalRecL_wk : forall ev (l : list (commented rentry)),
    Forall (fun cm => entry_ok ev (cnode cm)) l ->
    forall st frA frB acc, okc frA frB -> fok x acc ->
      rel2 (evalRecL ev (st, frA) acc l) (evalRecL ev (st, frB) acc l).
  Proof.
    intros ev l HF; induction HF as [|[ld [k v] tr] l Hx _ IH]; intros st frA frB acc Hc Hacc; cbn [evalRecL].
    - apply rel2_same; [exact Hc|]. intros w E; inversion E; subst. apply vok_VRec. exact Hacc.
    - cbn [cnode entry_ok] in Hx. destruct k as [key|ke|y|se].
      + pose proof (Hx st frA frB Hc) as H1. stp H1.
        destruct oA; try (apply rel2_fail; [exact W|reflexivity]).
        apply IH; [exact W|]. apply rec_insert_fok; [exact Hacc|apply V; reflexivity].
      + destruct Hx as [Hk Hv]. pose proof (Hk st frA frB Hc) as H1. stp H1.
        destruct oA; try (apply rel2_fail; [exact W|reflexivity]).
        destruct (as_string a); cbn [cast_fail]; try (apply rel2_fail; [exact W|reflexivity]).
        pose proof (Hv sA fA fB W) as H2. stp H2.
        destruct oA; try (apply rel2_fail; [exact W0|reflexivity]).
        apply IH; [exact W0|]. apply rec_insert_fok; [exact Hacc|apply V0; reflexivity].
      + cbn [snd]. destruct Hc as (Wk & FA & FB). rewrite (proj2 Wk y Hx).
        destruct (lookup frB y) as [x'|] eqn:El.
        * apply IH; [split; [exact Wk|split; assumption]|]. apply rec_insert_fok; [exact Hacc|].
          eapply lookup_vok; [exact FB|exact El].
        * apply rel2_fail; [split; [exact Wk|split; assumption]|reflexivity].
      + pose proof (Hx st frA frB Hc) as H1. stp H1.
        destruct oA; try (apply rel2_fail; [exact W|reflexivity]).
        apply IH; [exact W|]. apply rec_insert_all_fok; [exact Hacc|].
        apply record_spread_entries_fok. apply V; reflexivity.
  Qed.

  Lemma bind_value_wk : forall n0 st frA frB y v, okc frA frB -> vok x v ->
    rel2 (bind_value n0 (st, frA) y v) (bind_value n0 (st, frB) y v).
  Proof.
    intros n0 st frA frB y v (Wk & FA & FB) Hv. unfold bind_value. cbn [fst snd].
    pose proof (wk_insert frA frB y v Wk) as Hi.
    destruct (insert_head frA y v) as [a|] eqn:Ea; destruct (insert_head frB y v) as [b|] eqn:Eb; try contradiction.
    - split; [reflexivity|split; [reflexivity|split; [|intros w Ew; inversion Ew; subst; exact Hv]]].
      cbn [fst snd]. split; [exact Hi|split; [exact (insert_head_frsok x frA y v a FA Hv Ea)|exact (insert_head_frsok x frB y v b FB Hv Eb)]].
    - apply rel2_fail; [split; [exact Wk|split; assumption]|reflexivity].
  Qed.
  Lemma assign_value_wk : forall ev y ve, wk_ok ev ve -> forall st frA frB, okc frA frB ->
    rel2 (assign_value ev (st, frA) y ve) (assign_value ev (st, frB) y ve).
  Proof.
    intros ev y ve Hve st frA frB Hc. unfold assign_value. cbn [fst].
    pose proof (Hve st frA frB Hc) as H1. stp H1.
    destruct oA; try (apply rel2_fail; [exact W|reflexivity]).
    apply bind_value_wk; [exact W|apply V; reflexivity].
  Qed.
  Lemma assign_checked_wk : forall ev y ve, String.eqb y x = false -> wk_ok ev ve -> forall st frA frB, okc frA frB ->
    rel2 (assign_checked ev (st, frA) y ve) (assign_checked ev (st, frB) y ve).
  Proof.
    intros ev y ve Hy Hve st frA frB Hc. unfold assign_checked. cbn [fst].
    pose proof (Hve st frA frB Hc) as H1. stp H1.
    destruct oA; try (apply rel2_fail; [exact W|reflexivity]).
    cbn [snd]. rewrite (wk_contains fA fB y (proj1 W) Hy).
    destruct (contains fB y); [apply rel2_fail; [exact W|reflexivity]|].
    apply bind_value_wk; [exact W|apply V; reflexivity].
  Qed.
  (* a do-block statement: direct assignments shadow without the immutability check *)
  Definition stmt_ok (ev : cfg -> expr -> result) (s : expr) : Prop :=
    wk_ok ev s /\ (forall y ve, s = EAssign y ve -> wk_ok ev ve).
  Lemma do_step_wk : forall ev s, stmt_ok ev s -> forall st frA frB, okc frA frB ->
    rel2 (do_step ev (st, frA) s) (do_step ev (st, frB) s).
  Proof.
    intros ev s [Hs Hsub] st frA frB Hc. unfold do_step. destruct s; try (apply Hs; exact Hc).
    destruct (mem x0 do_assign_keywords); [apply rel2_fail; [exact Hc|reflexivity]|].
    apply assign_value_wk; [eapply Hsub; reflexivity|exact Hc].
  Qed.
  Lemma evalDoL_wk : forall ev (l : list (commented expr)), Forall (fun cm => stmt_ok ev (cnode cm)) l ->
    forall st frA frB, okc frA frB -> relU (evalDoL ev (st, frA) l) (evalDoL ev (st, frB) l).
  Proof.
    intros ev l HF; induction HF as [|[ld s tr] l Hs _ IH]; intros st frA frB Hc; cbn [evalDoL].
    - split; [reflexivity|split; [reflexivity|exact Hc]].
    - cbn [cnode] in Hs. pose proof (do_step_wk ev s Hs st frA frB Hc) as H1. stp H1.
      destruct oA; cbn [cast_fail]; try (split; [reflexivity|split; [reflexivity|exact W]]).
      apply IH; exact W.
  Qed.

  Theorem evalE_wk : forall e, nocc x e = true -> stmt_ok evalE e.
  Proof.
    induction e using expr_ind'; intros Hn; cbn [nocc] in Hn;
      (split; [intros st frA frB Hc; cbn [Eval.evalE]|try (intros ? ? Heq; discriminate Heq)]).
    - apply rel2_same; [exact Hc|intros v E; inversion E; reflexivity].
    - apply rel2_same; [exact Hc|intros v E; inversion E; reflexivity].
    - apply rel2_same; [exact Hc|intros v E; inversion E; reflexivity].
    - apply rel2_same; [exact Hc|intros v E; inversion E; reflexivity].
    - (* EId *)
      apply neqx_eqb in Hn.
      destruct (_ || _); [apply rel2_same; [exact Hc|intros v E; inversion E; reflexivity]|].
      destruct (String.eqb x0 "constants"); [apply rel2_same; [exact Hc|intros v E; inversion E; apply constants_vok]|].
      cbn [snd]. destruct Hc as (Wk & FA & FB). rewrite (proj2 Wk x0 Hn).
      apply rel2_same; [split; [exact Wk|split; assumption]|]. intros v E.
      destruct (lookup frB x0) eqn:El; inversion E; subst. eapply lookup_vok; [exact FB|exact El].
    - (* EInRef *)
      cbn [snd]. destruct Hc as (Wk & FA & FB). rewrite (proj2 Wk "inputs" Hinp).
      apply rel2_same; [split; [exact Wk|split; assumption]|]. intros v E.
      destruct (lookup frB "inputs") as [w|] eqn:El; [|discriminate E].
      destruct w; try discriminate E. inversion E; subst.
      match goal with |- context [rec_get ?r ?f] => destruct (rec_get r f) eqn:Eg end; [|reflexivity].
      eapply rec_get_vok; [|exact Eg]. apply vok_VRec. eapply lookup_vok; [exact FB|exact El].
    - apply rel2_same; [exact Hc|intros v E; inversion E; reflexivity].
    - (* EList *)
      match goal with HF : Forall _ items |- _ =>
        assert (HF' : Forall (fun cm => wk_ok evalE (cnode cm)) items) end.
      { pose proof (nocc_items x items Hn) as Hn'. rewrite Forall_forall in *.
        intros cm Hcm. apply (H cm Hcm). apply Hn'; exact Hcm. }
      pose proof (evalCL_wk evalE items HF' st frA frB Hc) as H1. stp H1. cbn [fst snd].
      split; [reflexivity|split; [reflexivity|split; [exact W|]]]. intros v E. destruct oA; try discriminate E.
      cbn [omap obind] in E. inversion E; subst. apply vok_VList. apply flatten_spreads_vok. apply V; reflexivity.
    - (* ERec *)
      apply evalRecL_wk; [|exact Hc|constructor].
      pose proof (nocc_entries x entries Hn) as Hn'. rewrite Forall_forall in *.
      intros [ld [k v] tr] Hcm. specialize (H _ Hcm). specialize (Hn' _ Hcm). cbn [cnode Pentry entry_ok] in *.
      destruct H as [Hk Hv]. destruct Hn' as [Nk Nv].
      destruct k; cbn [Pkey nocc_key] in *.
      + apply Hv; exact Nv.
      + split; [apply Hk; exact Nk|apply Hv; exact Nv].
      + apply neqx_eqb; exact Nk.
      + apply Hk; exact Nk.
    - (* ELam *)
      apply andb_true_iff in Hn. destruct Hn as [Hps Hbody].
      cbn [snd fst]. destruct Hc as (Wk & FA & FB).
      rewrite (wk_capture frA frB _ Wk (fun y Hy => nocc_fv x Hinp e _ y Hbody Hy) []).
      unfold fresh_lambda. split; [reflexivity|split; [reflexivity|split; [split; [exact Wk|split; assumption]|]]].
      cbn [fst]. intros v E; inversion E; subst. apply vok_VLam.
      split; [exact Hps|split; [exact Hbody|]]. apply capture_fok; [exact FB|constructor].
    - (* ECond *)
      apply andb_true_iff in Hn. destruct Hn as [Hn Hn3]. apply andb_true_iff in Hn. destruct Hn as [Hn1 Hn2].
      destruct (IHe1 Hn1) as [IH1 _], (IHe2 Hn2) as [IH2 _], (IHe3 Hn3) as [IH3 _].
      pose proof (IH1 st frA frB Hc) as H1. stp H1.
      destruct oA; try (apply rel2_fail; [exact W|reflexivity]).
      destruct (as_bool a) as [[|]| | | |]; cbn [cast_fail]; try (apply rel2_fail; [exact W|reflexivity]).
      + apply IH2; exact W.
      + apply IH3; exact W.
    - (* EDo *)
      destruct ret as [ld rt tr]. cbn [cnode] in *.
      apply andb_true_iff in Hn. destruct Hn as [Hns Hnr].
      assert (HS : Forall (fun cm => stmt_ok evalE (cnode cm)) stmts).
      { pose proof (nocc_items x stmts Hns) as Hn'. rewrite Forall_forall in *.
        intros cm Hcm. apply (H cm Hcm). apply Hn'; exact Hcm. }
      cbn [fst snd].
      match goal with |- context [evalDoL ?ev (st, (FOwned, []) :: frA) stmts] =>
        assert (H1 : relU (evalDoL ev (st, (FOwned, []) :: frA) stmts) (evalDoL ev (st, (FOwned, []) :: frB) stmts))
          by exact (evalDoL_wk evalE stmts HS st _ _ (okc_push FOwned [] frA frB Hc (Forall_nil _))) end.
      stpU H1.
      destruct oA; cbn [cast_fail fst snd]; try (apply rel2_fail; [exact Hc|reflexivity]).
      match goal with |- context [do_step ?ev (sA, fA) rt] =>
        assert (H2 : rel2 (do_step ev (sA, fA) rt) (do_step ev (sA, fB) rt))
          by exact (do_step_wk evalE rt (IHe Hnr) sA fA fB W) end.
      stp H2. cbn [fst snd].
      split; [reflexivity|split; [reflexivity|split; [exact Hc|exact V]]].
    - (* EAssign *)
      apply andb_true_iff in Hn. destruct Hn as [Hy Hv]. apply neqx_eqb in Hy.
      destruct (IHe Hv) as [IH _].
      destruct (is_builtin_name x0); [apply rel2_fail; [exact Hc|reflexivity]|].
      destruct (mem x0 assign_keywords); [apply rel2_fail; [exact Hc|reflexivity]|].
      cbn [snd]. rewrite (wk_contains frA frB x0 (proj1 Hc) Hy).
      destruct (contains frB x0); [apply rel2_fail; [exact Hc|reflexivity]|].
      apply assign_checked_wk; assumption.
    - (* EAssign, second component *)
      intros y ve Heq. inversion Heq; subst. apply andb_true_iff in Hn. destruct Hn as [_ Hv]. apply IHe; exact Hv.
    - (* EOutput *) destruct (IHe Hn) as [IH _]. apply IH; exact Hc.
    - (* ECall *)
      apply andb_true_iff in Hn. destruct Hn as [Hf Ha].
      destruct (IHe Hf) as [IH _].
      pose proof (IH st frA frB Hc) as H1. stp H1.
      destruct oA; try (apply rel2_fail; [exact W|reflexivity]).
      assert (HF' : Forall (wk_ok evalE) args).
      { pose proof (nocc_args x args Ha) as Hn'. rewrite Forall_forall in *.
        intros a0 Ha0. apply (H a0 Ha0). apply Hn'; exact Ha0. }
      pose proof (evalL_wk evalE args HF' sA fA fB W) as H2. stp H2.
      destruct oA; cbn [cast_fail]; try (apply rel2_fail; [exact W0|reflexivity]).
      destruct (negb (is_function a)); [apply rel2_fail; [exact W0|reflexivity]|].
      destruct (Hap fA0 fB0 W0) as [Hag Hcl].
      assert (Pa : vok x a) by (apply V; reflexivity).
      assert (Pl : Forall (vok x) (flatten_spreads a0)) by (apply flatten_spreads_vok; apply V0; reflexivity).
      rewrite <- (Hag a a (flatten_spreads a0) sA0 Pa Pa Pl).
      destruct (apply fA0 a a (flatten_spreads a0) sA0) as [rr st3] eqn:Ea.
      split; [reflexivity|split; [reflexivity|split; [exact W0|]]]. cbn [fst].
      exact (Hcl a a (flatten_spreads a0) sA0 rr st3 Pa Pa Pl Ea).
    - (* EAccess *)
      apply andb_true_iff in Hn. destruct Hn as [Hn1 Hn2].
      destruct (IHe1 Hn1) as [IH1 _], (IHe2 Hn2) as [IH2 _].
      pose proof (IH1 st frA frB Hc) as H1. stp H1.
      destruct oA; try (apply rel2_fail; [exact W|reflexivity]).
      pose proof (IH2 sA fA fB W) as H2. stp H2.
      destruct oA; try (apply rel2_fail; [exact W0|reflexivity]).
      apply rel2_same; [exact W0|]. intros v E. eapply access_val_vok; [|exact E]. apply V; reflexivity.
    - (* EDot *)
      destruct (IHe Hn) as [IH _].
      pose proof (IH st frA frB Hc) as H1. stp H1.
      destruct oA; try (apply rel2_fail; [exact W|reflexivity]).
      apply rel2_same; [exact W|]. intros v E. eapply dot_val_vok; [|exact E]. apply V; reflexivity.
    - (* EBin *)
      apply andb_true_iff in Hn. destruct Hn as [Hn1 Hn2].
      destruct (IHe1 Hn1) as [IH1 _], (IHe2 Hn2) as [IH2 _].
      pose proof (IH1 st frA frB Hc) as H1. stp H1.
      destruct oA; try (apply rel2_fail; [exact W|reflexivity]).
      pose proof (IH2 sA fA fB W) as H2. stp H2.
      destruct oA; try (apply rel2_fail; [exact W0|reflexivity]).
      destruct (Hap fA0 fB0 W0) as [Hag Hcl].
      destruct (Hbi (apply fA0) (apply fB0) Hag Hcl op a a0 sA0 (V a eq_refl) (V0 a0 eq_refl)) as [Heq Hpost].
      rewrite <- Heq. destruct (bi (apply fA0) op a a0 sA0) as [res st3] eqn:Eb.
      split; [reflexivity|split; [reflexivity|split; [exact W0|]]]. cbn [fst]. exact (Hpost res st3 eq_refl).
    - (* EUn *)
      destruct (IHe Hn) as [IH _].
      pose proof (IH st frA frB Hc) as H1. stp H1.
      destruct oA; try (apply rel2_fail; [exact W|reflexivity]).
      apply rel2_same; [exact W|]. intros v E.
      destruct op; [destruct (as_number a)|destruct (as_bool a)|destruct (as_bool a)]; inversion E; reflexivity.
    - (* EFact *)
      destruct (IHe Hn) as [IH _].
      pose proof (IH st frA frB Hc) as H1. stp H1.
      destruct oA; try (apply rel2_fail; [exact W|reflexivity]).
      apply rel2_same; [exact W|]. intros v E.
      destruct (as_number a); try discriminate E. unfold factorial_val in E.
      destruct (_ && _); inversion E; reflexivity.
    - (* ESpread *)
      destruct (IHe Hn) as [IH _].
      pose proof (IH st frA frB Hc) as H1. stp H1.
      destruct oA; try (apply rel2_fail; [exact W|reflexivity]).
      apply rel2_same; [exact W|]. intros v E. eapply spread_val_vok; [|exact E]. apply V; reflexivity.
  Qed.
  End E.

  (* ---- FunctionDef::call at every depth ---- *)
  Section Call.
  Variable release : bool.
  Variable bi : callback -> binop -> value -> value -> store -> outcome value * store.
  Variable bu : callback -> builtin -> list value -> store -> outcome value * store.
  Hypothesis Hbi : binop_nm x bi.
  Hypothesis Hbu : builtin_nm x bu.

  Lemma too_deep_agr : cb_agr x (fun _ f a s => call_too_deep f a s) (fun _ f a s => call_too_deep f a s).
  Proof. intros this f args st _ _ _. reflexivity. Qed.
  Lemma too_deep_nm : cb_nm x (fun _ f a s => call_too_deep f a s).
  Proof.
    intros this f args st r st' _ _ _ H v E. unfold call_too_deep in H.
    subst r. destruct (check_arity _ _); discriminate H.
  Qed.

  Lemma let_pair3w : forall (XA XB : result), fst XA = fst XB -> fst (snd XA) = fst (snd XB) ->
    (let '(r, (st', _)) := XA in (r, st')) = (let '(r, (st', _)) := XB in (r, st')) /\
    fst (let '(r, (st', _)) := XA in (r, st')) = fst XA.
  Proof. intros [rA [sA fA]] [rB [sB fB]]. cbn [fst snd]. intros; subst. split; reflexivity. Qed.

  Theorem AD_wk : forall d frA frB, okc frA frB ->
    cb_agr x (AD release bi bu d frA) (AD release bi bu d frB) /\ cb_nm x (AD release bi bu d frA).
  Proof.
    intros d. induction d as [d IH] using lt_wf_ind. intros frA frB Hc.
    enough (HH : forall this f args st, vok x this -> vok x f -> Forall (vok x) args ->
              AD release bi bu d frA this f args st = AD release bi bu d frB this f args st /\
              (forall v, fst (AD release bi bu d frA this f args st) = Ok v -> vok x v)).
    { split.
      - intros this f args st Ht Hf Ha. exact (proj1 (HH this f args st Ht Hf Ha)).
      - intros this f args st r st' Ht Hf Ha E v Ev. apply (proj2 (HH this f args st Ht Hf Ha)).
        rewrite E. exact Ev. }
    intros this f args st Hthis Hf Hargs.
    assert (Hsame : forall (o : outcome value), is_ok o = false ->
              (o, st) = (o, st) /\ (forall v, fst (o, st) = Ok v -> vok x v)).
    { intros o Ho. split; [reflexivity|]. cbn [fst]. intros v E; subst; discriminate Ho. }
    destruct d as [|d']; cbn [AD]; unfold apply_at.
    - destruct (negb _); apply Hsame; reflexivity.
    - destruct (negb _); [apply Hsame; reflexivity|].
      unfold call_passed.
      destruct f; try (apply Hsame; reflexivity).
      + (* lambda *)
        apply vok_VLam in Hf. destruct Hf as (Hps & Hbody & Hsc).
        destruct Hc as (Wk & FA & FB).
        rewrite <- (proj2 Wk "inputs" Hinp).
        match goal with |- context [bind_params ?ps 0 args ?acc] =>
          assert (Hacc : fok x acc); [|(destruct (bind_params ps 0 args acc) as [local|] eqn:Eb)] end.
        { apply Forall_app. split.
          - destruct (lookup_frame scope "inputs"); [constructor|].  (* F9 repaired *)
            destruct (lookup frA "inputs") eqn:El; constructor; [|constructor]. cbn [snd]. exact (lookup_vok x frA "inputs" v FA El).
          - destruct (lam_name st id); [|constructor]. destruct (lookup_frame scope s); constructor; [|constructor].
            exact Hthis. }
        2:{ apply Hsame; reflexivity. }
        pose proof (bind_params_fok _ _ _ _ _ _ Hargs Hacc Eb) as Hlocal.
        assert (Hc' : okc ((FOwned, local) :: match scope with [] => frA | _ => (FShared, scope) :: frA end)
                          ((FOwned, local) :: match scope with [] => frB | _ => (FShared, scope) :: frB end)).
        { apply okc_push; [|exact Hlocal]. destruct scope; [split; [exact Wk|split; assumption]|].
          apply okc_push; [split; [exact Wk|split; assumption]|exact Hsc]. }
        pose proof (proj1 (evalE_wk release bi Hbi (AD release bi bu d')
                      (fun fa fb Hfab => IH d' (Nat.lt_succ_diag_r d') fa fb Hfab) body Hbody)
                    st _ _ Hc') as HP.
        destruct HP as (E1 & E2 & _ & V).
        destruct (let_pair3w _ _ E1 E2) as [G1 G2].
        split; [exact G1|]. intros v Ev. apply V. rewrite <- G2. exact Ev.
      + (* built-in *)
        assert (Hcbs : cb_agr x (match d' with O => fun _ f a s => call_too_deep f a s | S d'' => AD release bi bu d'' frA end)
                               (match d' with O => fun _ f a s => call_too_deep f a s | S d'' => AD release bi bu d'' frB end) /\
                       cb_nm x (match d' with O => fun _ f a s => call_too_deep f a s | S d'' => AD release bi bu d'' frA end)).
        { destruct d' as [|d'']; [split; [apply too_deep_agr|apply too_deep_nm]|apply IH; [lia|exact Hc]]. }
        destruct Hcbs as [Hag Hcl].
        destruct (Hbu _ _ Hag Hcl b args st Hargs) as [Heq Hpost].
        split; [exact Heq|]. intros v Ev.
        destruct (bu _ b args st) as [res st'] eqn:Eb. cbn [fst] in Ev. exact (Hpost res st' eq_refl v Ev).
  Qed.

  Corollary evalD_wk : forall d e, nocc x e = true -> wk_ok (evalD release bi bu d) e.
  Proof.
    intros d e Hn. unfold evalD.
    exact (proj1 (evalE_wk release bi Hbi (AD release bi bu d) (fun fa fb H => AD_wk d fa fb H) e Hn)).
  Qed.
  End Call.
End Sim.

(* ================= the operators and built-ins: GenOps.v / AllGenClosed.v instantiated ================= *)
Lemma binop_impl_nm : forall x, binop_nm x binop_impl.
Proof.
  intros x cb1 cb2 Hag Hcl op l r st Hl Hr. unfold binop_impl.
  destruct op;
    match goal with
    | |- eval_binop _ _ _ _ ?o _ _ _ = _ /\ _ =>
        destruct (eval_binop_agree anyS anyS_refl anyS_trans (Pp x) (Pp_mono x) (Pp_VList x) (Pp_atomic x)
                    cb1 cb2 st (cb_agr_gen x _ _ st Hag) (cb_nm_gen x _ st Hcl)
                    fn_accepts2_of_value powf_stub o l r st I Hl Hr) as [Heq Hpost];
        split; [exact Heq|intros res st' E v Ev; destruct (Hpost _ _ E) as [_ Hv]; exact (Hv v Ev)]
    | |- _ => split; [reflexivity|intros res st' E v Ev; subst res; inversion E]
    end.
Qed.
Lemma builtin_impl_nm : forall x, builtin_nm x builtin_impl.
Proof.
  intros x cb1 cb2 Hag Hcl b args st Ha.
  destruct (builtin_impl_agree anyS anyS_refl anyS_trans (Pp x) (Pp_mono x) (Pp_VList x) (Pp_atomic x)
              cb1 cb2 st (cb_agr_gen x _ _ st Hag) (cb_nm_gen x _ st Hcl) b args st I Ha) as [Heq [_ Hpost]].
  split; [exact Heq|]. intros res st' E v Ev. rewrite E in Hpost. cbn [fst snd] in Hpost. exact (Hpost v Ev).
Qed.
Lemma builtin_full_nm : forall x, builtin_nm x builtin_full.
Proof.
  intros x cb1 cb2 Hag Hcl b args st Ha.
  destruct (builtin_full_agree0_gen anyS anyS_refl anyS_trans (Pp x) (Pp_VList x) (Pp_VRec x) (Pp_VSpread x)
              (Pp_atomic x) (Pp_mono x)
              cb1 cb2 st (cb_agr_gen x _ _ st Hag) (cb_nm_gen x _ st Hcl) b args st I Ha) as [Heq [_ Hpost]].
  split; [exact Heq|]. intros res st' E v Ev. rewrite E in Hpost. cbn [fst snd] in Hpost. exact (Hpost v Ev).
Qed.
Theorem ops_nm_inst : ops_nm binop_impl builtin_impl.
Proof. intros x. split; [apply binop_impl_nm|apply builtin_impl_nm]. Qed.
Theorem ops_nm_full : ops_nm binop_impl builtin_full.
Proof. intros x. split; [apply binop_impl_nm|apply builtin_full_nm]. Qed.

Lemma rel2_inv : forall x XA XB r st' fr', rel2 x XA XB -> XA = (r, (st', fr')) ->
  exists frB', XB = (r, (st', frB')) /\ okc x fr' frB' /\ (forall v, r = Ok v -> vok x v).
Proof.
  intros x XA [rB [sB fB]] r st' fr' (E1 & E2 & W & V) ->. cbn [fst snd] in *. subst.
  exists fB. split; [reflexivity|split; [exact W|exact V]].
Qed.

(* ================= WEAKENING ================= *)
(* general form: any expression not mentioning x (assignments allowed); the final chains agree off x *)
Theorem weakening_generic : forall release bi bu, ops_nm bi bu ->
  forall d x w e st k f fr r st' fr',
    String.eqb "inputs" x = false ->
    nocc x e = true -> frames_nm x ((k, f) :: fr) = true -> vnm x w = true ->
    evalD release bi bu d (st, (k, f) :: fr) e = (r, (st', fr')) ->
    exists frB', evalD release bi bu d (st, (k, (x, w) :: f) :: fr) e = (r, (st', frB')) /\
                 (forall y, String.eqb y x = false -> lookup fr' y = lookup frB' y) /\
                 frames_nm x fr' = true /\ (forall v, r = Ok v -> vnm x v = true).
Proof.
  intros release bi bu Hops d x w e st k f fr r st' fr' Hinp Hn Hfr Hw E.
  destruct (Hops x) as [Hbi Hbu].
  apply frames_nm_iff in Hfr.
  assert (Hc : okc x ((k, f) :: fr) ((k, (x, w) :: f) :: fr)).
  { split; [apply wk_bind|split; [exact Hfr|]]. inversion Hfr; subst. constructor; [|assumption].
    cbn [snd] in *. constructor; [exact Hw|assumption]. }
  destruct (rel2_inv x _ _ r st' fr' (evalD_wk x Hinp release bi bu Hbi Hbu d e Hn st _ _ Hc) E)
    as (frB' & EB & (Wk & FA & _) & V).
  exists frB'. split; [exact EB|split; [exact (proj2 Wk)|split; [apply frames_nm_iff; exact FA|exact V]]].
Qed.

(* assignment-free expressions: the scope chains are what they were *)
Theorem weakening_pure : forall release bi bu, ops_nm bi bu ->
  forall d x w e st k f fr r st' fr',
    String.eqb "inputs" x = false ->
    nocc x e = true -> no_assign e = true -> frames_nm x ((k, f) :: fr) = true -> vnm x w = true ->
    evalD release bi bu d (st, (k, f) :: fr) e = (r, (st', fr')) ->
    fr' = (k, f) :: fr /\
    evalD release bi bu d (st, (k, (x, w) :: f) :: fr) e = (r, (st', (k, (x, w) :: f) :: fr)).
Proof.
  intros release bi bu Hops d x w e st k f fr r st' fr' Hinp Hn Hna Hfr Hw E.
  destruct (weakening_generic release bi bu Hops d x w e st k f fr r st' fr' Hinp Hn Hfr Hw E) as (frB' & EB & _).
  pose proof (evalD_pure_frames release bi bu d e _ _ _ Hna E) as P1.
  pose proof (evalD_pure_frames release bi bu d e _ _ _ Hna EB) as P2. cbn [snd] in P1, P2. subst.
  split; [reflexivity|exact EB].
Qed.

Theorem weakening_inst : forall release d x w e st k f fr r st' fr',
  String.eqb "inputs" x = false ->
  nocc x e = true -> no_assign e = true -> frames_nm x ((k, f) :: fr) = true -> vnm x w = true ->
  evalD release binop_impl builtin_impl d (st, (k, f) :: fr) e = (r, (st', fr')) ->
  fr' = (k, f) :: fr /\
  evalD release binop_impl builtin_impl d (st, (k, (x, w) :: f) :: fr) e = (r, (st', (k, (x, w) :: f) :: fr)).
Proof. intros release. exact (weakening_pure release binop_impl builtin_impl ops_nm_inst). Qed.
Theorem weakening_full : forall release d x w e st k f fr r st' fr',
  String.eqb "inputs" x = false ->
  nocc x e = true -> no_assign e = true -> frames_nm x ((k, f) :: fr) = true -> vnm x w = true ->
  evalD release binop_impl builtin_full d (st, (k, f) :: fr) e = (r, (st', fr')) ->
  fr' = (k, f) :: fr /\
  evalD release binop_impl builtin_full d (st, (k, (x, w) :: f) :: fr) e = (r, (st', (k, (x, w) :: f) :: fr)).
Proof. intros release. exact (weakening_pure release binop_impl builtin_full ops_nm_full). Qed.
