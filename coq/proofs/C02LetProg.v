(* C02LetProg.v — the TWO-STATEMENT LET LAW (C02, LET2 round).

     program A:   x = s        program B:   C[s]
                  C[x]
   from the same configuration (any configuration: after any program prefix), for a sequential context C
   ([sctx], C02LetGen.v), a FRESH name x and a cell-free value of s: whenever `x = s` succeeds, C[x] (evaluated
   in the configuration the assignment leaves) and C[s] have the same outcome up to cell renaming ([osame]:
   same outcome class — an error of C is an error on both sides — and Ok values equal up to cell indices).

   Fresh = x occurs nowhere in C[s] ([nocc]) and in no function value reachable from the scope chain
   ([frames_nm]); "x is unbound and not a keyword / built-in name" need not be assumed: it follows from the
   success of `x = s`.  Freshness with respect to the FUNCTIONS of the scope is necessary, because names in a
   function body are resolved in the caller's chain at call time: after `f = y => x + y`, `x = 1; f(1) + x` is
   3 while `f(1) + 1` fails with "unknown identifier x" ([let_program_nofresh_refuted], reproduced on the CLI).

   Proof = the three ingredients named in notes/C02.md (LET round):
     (1) the sequential-context theorem [let_abstraction_seq] in the configuration AFTER the assignment;
         its hypothesis "s evaluates to v in the scope that binds x" is obtained from the run of `x = s`
         itself by EVAL-TWICE (second evaluation of s, from the store the first one left: same value, v is
         cell-free) and WEAKENING (C02Weak.v: the binding of x, which s does not mention, changes nothing);
     (2) C[s] after the assignment versus C[s] before it: WEAKENING again (scope with / without x) and
         STORE-EXTENSION INVARIANCE (the cells allocated by the first evaluation of s: shift renaming). *)
From Coq Require Import String Ascii List ZArith Bool Lia.
Require Import Blots.Num Blots.gen.Builtins Blots.Ast Blots.Value Blots.Outcome Blots.Binop
               Blots.Env Blots.Eval Blots.BuiltinsHof Blots.Program Blots.EvalInst Blots.EvalFull
               Blots.proofs.ExprInd Blots.proofs.ValueInd Blots.proofs.Frames Blots.proofs.StoreMono
               Blots.proofs.Scoping Blots.proofs.InstMono
               Blots.proofs.C02Ren Blots.proofs.C02Sim Blots.proofs.C02Ops Blots.proofs.C02Keep Blots.proofs.C02Twice
               Blots.proofs.C02Let Blots.proofs.C02OpsFull Blots.proofs.C02Wf Blots.proofs.C02LetGen
               Blots.proofs.C02Weak.
Import ListNotations.
Open Scope string_scope.
Open Scope list_scope.
Open Scope nat_scope.

Lemma osame_sym : forall a b, osame a b -> osame b a.
Proof. intros [x| | | |] [y| | | |] H; cbn in *; try contradiction; try exact I. symmetry; exact H. Qed.
Lemma osame_trans : forall a b c, osame a b -> osame b c -> osame a c.
Proof.
  intros [x| | | |] [y| | | |] [z| | | |] H1 H2; cbn in *; try contradiction; try exact I.
  unfold same_up_to_cells in *. congruence.
Qed.

(* a cell-free value contains no function value at all: it mentions no name *)
Lemma cell_free_vnm : forall x v, cell_free v = true -> vnm x v = true.
Proof.
  intros x. unfold cell_free.
  induction v as [y|y| |y|l IH|r IH|id ar bd sc IH|bi|y IH] using value_ind'; intros H; cbn [ids_lt vnm] in *;
    try reflexivity.
  - rewrite forallb_forall in *. rewrite Forall_forall in IH. intros w Hw. apply IH; [exact Hw|apply H; exact Hw].
  - rewrite forallb_forall in *. rewrite Forall_forall in IH. intros [k w] Hw. apply (IH (k, w) Hw). apply (H (k, w) Hw).
  - discriminate H.
  - apply IH; exact H.
Qed.
Lemma cell_free_not_lambda : forall n0 st v x, cell_free v = true -> name_if_created n0 st v x = st.
Proof. intros n0 st v x H. destruct v; try reflexivity. discriminate H. Qed.

Lemma keyword_facts : forall x, mem x assign_keywords = false ->
  String.eqb "inputs" x = false /\ (String.eqb x "infinity" || String.eqb x "inf") = false /\ String.eqb x "constants" = false.
Proof.
  intros x H. unfold mem, assign_keywords in H. cbn [existsb] in H.
  repeat match type of H with (_ || _) = false => apply orb_false_iff in H; let H1 := fresh "K" in destruct H as [H1 H] end.
  split; [rewrite String.eqb_sym; assumption|]. split; [|assumption].
  apply orb_false_iff; split; assumption.
Qed.

(* the hypothesis [nocc x s] of the single-occurrence law is implied by [nocc x C_s]: s is a subterm of C[s] *)
Lemma sctx_nocc : forall x s a b, sctx x s a b -> nocc x b = true -> nocc x s = true.
Proof.
  intros x s a b H. induction H; intros Hn; cbn [nocc] in Hn.
  - exact Hn.
  - apply andb_true_iff in Hn. destruct Hn as [H1 _]. apply IHsctx; exact H1.
  - apply andb_true_iff in Hn. destruct Hn as [_ H2]. apply IHsctx; exact H2.
  - apply andb_true_iff in Hn. destruct Hn as [H1 _]. apply IHsctx; exact H1.
  - apply andb_true_iff in Hn. destruct Hn as [_ H2]. apply IHsctx; exact H2.
  - apply IHsctx; exact Hn.
  - apply IHsctx; exact Hn.
  - apply IHsctx; exact Hn.
  - apply andb_true_iff in Hn. destruct Hn as [Hn _]. apply andb_true_iff in Hn. destruct Hn as [H1 _]. apply IHsctx; exact H1.
  - apply andb_true_iff in Hn. destruct Hn as [Hn _]. apply andb_true_iff in Hn. destruct Hn as [_ H2]. apply IHsctx; exact H2.
  - apply andb_true_iff in Hn. destruct Hn as [_ H3]. apply IHsctx; exact H3.
  - apply andb_true_iff in Hn. destruct Hn as [H1 _]. apply IHsctx; exact H1.
  - apply andb_true_iff in Hn. destruct Hn as [_ H2]. apply nocc_args in H2. apply Forall_app in H2.
    destruct H2 as [_ H2]. inversion H2; subst. apply IHsctx; assumption.
  - apply nocc_items in Hn. apply Forall_app in Hn. destruct Hn as [_ H2]. inversion H2; subst.
    cbn [cnode] in *. apply IHsctx; assumption.
Qed.

(* ---- SEVERAL occurrences in sequential position: the reflexive-transitive closure of [sctx].
   C[x, x] -> C[s, x] -> C[s, s]: each step replaces ONE occurrence; the siblings evaluated before it may
   already contain s (assignment-free) and the ones after it may still contain x (arbitrary).  The outcomes of
   consecutive steps are related by the single-occurrence theorem, each with its own renaming (the second
   evaluation of s allocates a fresh block of cells: the renamings grow along the chain); "equal up to cell
   indices" composes, so the end points are related. ---- *)
Inductive sctxs (x : string) (s : expr) : expr -> expr -> Prop :=
| SS_refl : forall e, sctxs x s e e
| SS_step : forall a b c, sctx x s a b -> sctxs x s b c -> sctxs x s a c.
Lemma sctx_sctxs : forall x s a b, sctx x s a b -> sctxs x s a b.
Proof. intros x s a b H. eapply SS_step; [exact H|apply SS_refl]. Qed.
Lemma osame_refl : forall a, osame a a.
Proof. intros [x| | | |]; cbn; try exact I. reflexivity. Qed.

Section Multi.
  Variable release : bool.
  Variable bi : callback -> binop -> value -> value -> store -> outcome value * store.
  Variable bu : callback -> builtin -> list value -> store -> outcome value * store.
  Hypothesis Hops : ops_commute bi bu.
  Hypothesis Hwfo : ops_wf bi bu.
  Hypothesis Hkeep : forall d c e r c', evalD release bi bu d c e = (r, c') -> store_keep (fst c) (fst c').
  Variable d : nat.
  Theorem let_abstraction_seq_multi : forall x s fr v, cell_free v = true ->
    forall st eA eB, Inv release bi bu d x s fr v st -> sctxs x s eA eB ->
      osame (fst (evalD release bi bu d (st, fr) eA)) (fst (evalD release bi bu d (st, fr) eB)).
  Proof.
    intros x s fr v Hv st eA eB HI H. induction H as [e|a b c Hab _ IH]; [apply osame_refl|].
    eapply osame_trans; [|exact IH].
    exact (let_abstraction_seq release bi bu Hops Hwfo Hkeep d x s fr v Hv st a b _ _ _ _ HI Hab
             (surjective_pairing _) (surjective_pairing _)).
  Qed.
End Multi.

Section LetProg.
  Variable release : bool.
  Variable bi : callback -> binop -> value -> value -> store -> outcome value * store.
  Variable bu : callback -> builtin -> list value -> store -> outcome value * store.
  Hypothesis Hops : ops_commute bi bu.
  Hypothesis Hwfo : ops_wf bi bu.
  Hypothesis Hkeep : forall d c e r c', evalD release bi bu d c e = (r, c') -> store_keep (fst c) (fst c').
  Hypothesis Hnm : ops_nm bi bu.
  Variable d : nat.
  Notation evD := (evalD release bi bu d).

  (* what the success of the top-level statement `x = s` says *)
  Lemma assign_inv : forall x s st fr v c1,
    no_assign s = true -> cell_free v = true ->
    evD (st, fr) (EAssign x s) = (Ok v, c1) ->
    is_builtin_name x = false /\ mem x assign_keywords = false /\ contains fr x = false /\
    exists st1 k f rest, fr = (k, f) :: rest /\ evD (st, fr) s = (Ok v, (st1, fr)) /\
                         c1 = (st1, (k, (x, v) :: f) :: rest).
  Proof.
    intros x s st fr v c1 Hna Hv E. unfold evalD in *. cbn [evalE snd] in E.
    destruct (is_builtin_name x); [discriminate E|].
    destruct (mem x assign_keywords); [discriminate E|].
    destruct (contains fr x) eqn:Ec; [discriminate E|].
    split; [reflexivity|split; [reflexivity|split; [reflexivity|]]].
    unfold assign_checked in E.
    destruct (evalE release bi (AD release bi bu d) (st, fr) s) as [o [st1 fr1]] eqn:Es.
    pose proof (evalD_pure_frames release bi bu d s (st, fr) o (st1, fr1) Hna Es) as P. cbn [snd] in P. subst fr1.
    destruct o as [v'| | | |]; try discriminate E. cbn [snd] in E. rewrite Ec in E.
    unfold bind_value in E. cbn [fst snd] in E.
    destruct fr as [|[[|] f] rest]; cbn [insert_head] in E; try discriminate E.
    inversion E; subst. rewrite (cell_free_not_lambda _ _ _ _ Hv).
    exists st1, FOwned, f, rest. split; [reflexivity|split; reflexivity].
  Qed.

  Theorem let_program_multi : forall x s C_x C_s st fr v c1 rA cA rB cB,
    frames_lt (length st) fr = true -> no_assign s = true -> no_assign C_s = true ->
    sctxs x s C_x C_s ->
    (* x fresh *)
    nocc x s = true -> nocc x C_s = true -> frames_nm x fr = true ->
    (* program A:  x = s; C[x]      program B:  C[s] *)
    evD (st, fr) (EAssign x s) = (Ok v, c1) ->
    cell_free v = true ->
    evD c1 C_x = (rA, cA) ->
    evD (st, fr) C_s = (rB, cB) ->
    osame rA rB.
  Proof.
    intros x s C_x C_s st fr v c1 rA cA rB cB Hwf Hna HnaC Hctx Hns HnC Hfn EA Hv HA HB.
    destruct (assign_inv x s st fr v c1 Hna Hv EA) as (_ & Hkw & _ & st1 & k & f & rest & -> & Es & ->).
    destruct (keyword_facts x Hkw) as (Hinp & Hinf & Hconst).
    destruct (Hkeep d _ _ _ _ Es) as [Hlen Hk]. cbn [fst] in Hlen, Hk.
    set (fr := (k, f) :: rest) in *. set (frX := (k, (x, v) :: f) :: rest) in *.
    set (rho := shift (length st) (length st1 - length st)).
    assert (Hv1 : forall n, ids_lt n v = true) by (intros n; eapply ids_lt_mono; [|exact Hv]; lia).
    assert (Hvn : vnm x v = true) by (apply cell_free_vnm; exact Hv).
    (* well-formedness after the assignment *)
    assert (Hwf1 : frames_lt (length st1) fr = true).
    { apply frames_lt_iff. eapply frs_lt_mono; [exact Hlen|]. apply frames_lt_iff. exact Hwf. }
    assert (HwfX : frames_lt (length st1) frX = true).
    { apply frames_lt_iff. apply frames_lt_iff in Hwf1. unfold fr, frX in *. inversion Hwf1; subst.
      constructor; [|assumption]. cbn [snd] in *. constructor; [apply Hv1|assumption]. }
    (* s once more, from the store the assignment left: eval-twice *)
    destruct (eval_twice_shift release bi bu Hops d s st fr (Ok v) st1 fr Hna Hwf Es Hlen Hk) as (_ & st2 & Es2 & _).
    cbn [oren omap obind] in Es2. rewrite (ren_shift_fix _ _ v (Hv1 _)) in Es2.
    (* ... and in the scope that binds x: weakening *)
    destruct (weakening_pure release bi bu Hnm d x v s st1 k f rest (Ok v) st2 fr Hinp Hns Hna Hfn Hvn Es2) as [_ Es3].
    fold frX in Es3.
    assert (HI : Inv release bi bu d x s frX v st1).
    { split; [exact HwfX|]. split; [|exists st2; exact Es3].
      unfold evalD. cbn [evalE snd]. rewrite Hinf, Hconst. unfold frX. cbn [lookup lookup_frame].
      rewrite String.eqb_refl. reflexivity. }
    (* C[s] before the assignment -> after it (store extension) -> in the scope that binds x (weakening) *)
    destruct cB as [sB frB].
    pose proof (evalD_pure_frames release bi bu d C_s (st, fr) rB (sB, frB) HnaC HB) as P. cbn [snd] in P. subst frB.
    destruct (store_extension_invariance release bi bu Hops rho (shift_inj _ _) d C_s st st1 fr rB sB fr
                (sinv_shift st st1 Hlen Hk) HB) as (sB' & EB1 & _).
    unfold rho in EB1. rewrite (renFr_shift_fix _ _ fr Hwf) in EB1. fold rho in EB1.
    destruct (weakening_pure release bi bu Hnm d x v C_s st1 k f rest (oren rho rB) sB' fr Hinp HnC HnaC Hfn Hvn EB1)
      as [_ EB2].
    fold frX in EB2.
    (* the sequential-context theorem in the configuration after the assignment *)
    pose proof (let_abstraction_seq_multi release bi bu Hops Hwfo Hkeep d x s frX v Hv st1 C_x C_s HI Hctx) as Ho.
    assert (Ho' : osame rA (oren rho rB)).
    { change rA with (fst (rA, cA)). rewrite <- HA.
      change (oren rho rB) with (fst (oren rho rB, (sB', frX))). rewrite <- EB2. exact Ho. }
    eapply osame_trans; [exact Ho'|]. apply osame_sym. apply osame_oren.
  Qed.
  Corollary let_program : forall x s C_x C_s st fr v c1 rA cA rB cB,
    frames_lt (length st) fr = true -> no_assign s = true -> no_assign C_s = true ->
    sctx x s C_x C_s ->
    nocc x s = true -> nocc x C_s = true -> frames_nm x fr = true ->
    evD (st, fr) (EAssign x s) = (Ok v, c1) ->
    cell_free v = true ->
    evD c1 C_x = (rA, cA) ->
    evD (st, fr) C_s = (rB, cB) ->
    osame rA rB.
  Proof.
    intros x s C_x C_s st fr v c1 rA cA rB cB Hwf Hna HnaC Hctx.
    exact (let_program_multi x s C_x C_s st fr v c1 rA cA rB cB Hwf Hna HnaC (sctx_sctxs x s C_x C_s Hctx)).
  Qed.
End LetProg.

(* ---- the two evaluators, both build profiles ---- *)
Theorem let_program_inst : forall release d x s C_x C_s st fr v c1 rA cA rB cB,
  frames_lt (length st) fr = true -> no_assign s = true -> no_assign C_s = true ->
  sctx x s C_x C_s ->
  nocc x s = true -> nocc x C_s = true -> frames_nm x fr = true ->
  evalD release binop_impl builtin_impl d (st, fr) (EAssign x s) = (Ok v, c1) ->
  cell_free v = true ->
  evalD release binop_impl builtin_impl d c1 C_x = (rA, cA) ->
  evalD release binop_impl builtin_impl d (st, fr) C_s = (rB, cB) ->
  osame rA rB.
Proof.
  intros release d.
  exact (let_program release binop_impl builtin_impl ops_commute_inst ops_wf_inst (evalD_store_keep release) ops_nm_inst d).
Qed.
Theorem let_program_full : forall release d x s C_x C_s st fr v c1 rA cA rB cB,
  frames_lt (length st) fr = true -> no_assign s = true -> no_assign C_s = true ->
  sctx x s C_x C_s ->
  nocc x s = true -> nocc x C_s = true -> frames_nm x fr = true ->
  evalD release binop_impl builtin_full d (st, fr) (EAssign x s) = (Ok v, c1) ->
  cell_free v = true ->
  evalD release binop_impl builtin_full d c1 C_x = (rA, cA) ->
  evalD release binop_impl builtin_full d (st, fr) C_s = (rB, cB) ->
  osame rA rB.
Proof.
  intros release d.
  exact (let_program release binop_impl builtin_full ops_commute_full ops_wf_full (evalD_store_keep_full release) ops_nm_full d).
Qed.

(* several occurrences *)
Theorem let_abstraction_seq_multi_full : forall release d x s st st1 fr v eA eB,
  frames_lt (length st) fr = true ->
  evalD release binop_impl builtin_full d (st, fr) (EId x) = (Ok v, (st, fr)) ->
  evalD release binop_impl builtin_full d (st, fr) s = (Ok v, (st1, fr)) ->
  cell_free v = true ->
  sctxs x s eA eB ->
  osame (fst (evalD release binop_impl builtin_full d (st, fr) eA)) (fst (evalD release binop_impl builtin_full d (st, fr) eB)).
Proof.
  intros release d x s st st1 fr v eA eB Hwf Hx Hs Hv H.
  apply (let_abstraction_seq_multi release binop_impl builtin_full ops_commute_full ops_wf_full
           (evalD_store_keep_full release) d x s fr v Hv st eA eB); [|exact H].
  split; [exact Hwf|split; [exact Hx|exists st1; exact Hs]].
Qed.
Theorem let_program_multi_full : forall release d x s C_x C_s st fr v c1 rA cA rB cB,
  frames_lt (length st) fr = true -> no_assign s = true -> no_assign C_s = true ->
  sctxs x s C_x C_s ->
  nocc x s = true -> nocc x C_s = true -> frames_nm x fr = true ->
  evalD release binop_impl builtin_full d (st, fr) (EAssign x s) = (Ok v, c1) ->
  cell_free v = true ->
  evalD release binop_impl builtin_full d c1 C_x = (rA, cA) ->
  evalD release binop_impl builtin_full d (st, fr) C_s = (rB, cB) ->
  osame rA rB.
Proof.
  intros release d.
  exact (let_program_multi release binop_impl builtin_full ops_commute_full ops_wf_full (evalD_store_keep_full release) ops_nm_full d).
Qed.

(* after ANY top-level program prefix (function-free inputs): the well-formedness hypothesis is discharged *)
Theorem let_program_after_prefix : forall release d0 d inputs prog x s C_x C_s v c1 rA cA rB cB,
  frame_lt 0 inputs = true ->
  let c := s_cfg (fst (run (evalD release binop_impl builtin_full d0) (init_session inputs) prog)) in
  no_assign s = true -> no_assign C_s = true -> sctx x s C_x C_s ->
  nocc x s = true -> nocc x C_s = true -> frames_nm x (snd c) = true ->
  evalD release binop_impl builtin_full d c (EAssign x s) = (Ok v, c1) ->
  cell_free v = true ->
  evalD release binop_impl builtin_full d c1 C_x = (rA, cA) ->
  evalD release binop_impl builtin_full d c C_s = (rB, cB) ->
  osame rA rB.
Proof.
  intros release d0 d inputs prog x s C_x C_s v c1 rA cA rB cB Hin c Hna HnaC Hctx Hns HnC Hfn EA Hv HA HB.
  pose proof (program_cfg_wf_full release d0 inputs prog Hin) as Hwf. fold c in Hwf.
  destruct c as [st fr]. cbn [snd] in Hfn. unfold cfg_wf in Hwf. cbn [fst snd] in Hwf.
  exact (let_program_full release d x s C_x C_s st fr v c1 rA cA rB cB Hwf Hna HnaC Hctx Hns HnC Hfn EA Hv HA HB).
Qed.

(* ---- freshness in the FUNCTIONS of the scope is necessary ---- *)
(* the statement without [frames_nm x fr] *)
Definition let_program_nofresh_stmt : Prop :=
  forall release d x s C_x C_s st fr v c1 rA cA rB cB,
    frames_lt (length st) fr = true -> no_assign s = true -> no_assign C_s = true ->
    sctx x s C_x C_s ->
    nocc x s = true -> nocc x C_s = true ->
    evalD release binop_impl builtin_full d (st, fr) (EAssign x s) = (Ok v, c1) ->
    cell_free v = true ->
    evalD release binop_impl builtin_full d c1 C_x = (rA, cA) ->
    evalD release binop_impl builtin_full d (st, fr) C_s = (rB, cB) ->
    osame rA rB.
(* f = y => x + y   then   x = 1; f(1) + x   (3)   versus   f(1) + 1   (unknown identifier x) *)
Definition nf_f : value := VLam 0 [AReq "y"] (EBin Add (EId "x") (EId "y")) [].
Definition nf_st : store := [Some "f"].
Definition nf_fr : frames := [(FOwned, [("f", nf_f)])].
Definition nf_one : expr := ENum (num_of_Z 1).
Definition nf_C (h : expr) : expr := EBin Add (ECall (EId "f") [nf_one]) h.
Lemma let_program_nofresh_refuted : ~ let_program_nofresh_stmt.
Proof.
  intros H.
  pose (cA1 := evalD true binop_impl builtin_full 4 (nf_st, nf_fr) (EAssign "x" nf_one)).
  pose (rA := evalD true binop_impl builtin_full 4 (snd cA1) (nf_C (EId "x"))).
  pose (rB := evalD true binop_impl builtin_full 4 (nf_st, nf_fr) (nf_C nf_one)).
  assert (Hc : sctx "x" nf_one (nf_C (EId "x")) (nf_C nf_one)).
  { unfold nf_C. apply S_binr; [reflexivity|apply S_hole]. }
  specialize (H true 4 "x" nf_one (nf_C (EId "x")) (nf_C nf_one) nf_st nf_fr (VNum (num_of_Z 1)) (snd cA1)
                (fst rA) (snd rA) (fst rB) (snd rB)
                ltac:(vm_compute; reflexivity) ltac:(reflexivity) ltac:(reflexivity) Hc
                ltac:(vm_compute; reflexivity) ltac:(vm_compute; reflexivity)
                ltac:(vm_compute; reflexivity) ltac:(vm_compute; reflexivity)
                ltac:(vm_compute; reflexivity) ltac:(vm_compute; reflexivity)).
  vm_compute in H. exact H.
Qed.

(* ---- the Prop kept by the LET round, [weakening_stmt] (C02LetGen.v), is FALSE as it was stated: it
   asked only that x be not FREE in the function bodies of the scope.  A body that ASSIGNS x observes the
   binding without reading it (Expr::Assignment fails when the name is bound anywhere in the chain):
   g = () => (x = 5);  g()  is 5 when x is unbound and an error when x is bound.  [C02Weak.nocc] / [vnm]
   count assignment targets (and parameters) as occurrences. ---- *)
Definition wr_g : value := VLam 0 [] (EAssign "x" (ENum (num_of_Z 5))) [].
Lemma weakening_stmt_refuted : ~ weakening_stmt.
Proof.
  intros H.
  pose (r := evalD true binop_impl builtin_full 4 ([Some "g"], [(FOwned, [("g", wr_g)])]) (ECall (EId "g") [])).
  specialize (H true 4 "x" (VNum (num_of_Z 1)) (ECall (EId "g") []) [Some "g"] FOwned [("g", wr_g)] []
                (fst r) (fst (snd r)) (snd (snd r))
                ltac:(vm_compute; reflexivity) ltac:(reflexivity) ltac:(vm_compute; reflexivity) ltac:(reflexivity)
                ltac:(vm_compute; reflexivity)).
  vm_compute in H. discriminate H.
Qed.
