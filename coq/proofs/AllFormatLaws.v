(* AllFormatLaws.v — what dyn-fmt's state machine (EvalAll.dyn_go, the oracle-free core of `format` and
   `print`) computes: the documented contract of dyn-fmt 0.4.3 as theorems over the transcription.
     - text without braces is copied;           - `{}` is replaced by the next argument, or by nothing when
     - `{{` is a literal `{`, `}}` a literal `}`;   the arguments are exhausted; surplus arguments are ignored;
     - it never fails: the result is always Ok. *)
From Coq Require Import String Ascii List ZArith Bool Lia.
Require Import Blots.Num Blots.Outcome Blots.EvalAll.
Import ListNotations.
Open Scope string_scope.

Definition no_brace (c : ascii) : bool := negb (is_lbrace c) && negb (is_rbrace c).
Fixpoint all_chars (p : ascii -> bool) (s : string) : bool :=
  match s with EmptyString => true | String c r => p c && all_chars p r end.

(* total: dyn-fmt never fails (the only non-Ok arm of the model is the unreachable one) *)
Lemma dyn_go_ok : forall fmt s args, (s = DArg -> fmt <> EmptyString) -> exists t, dyn_go s fmt args = Ok t.
Proof.
  induction fmt as [|b rest IH]; intros s args Hs.
  - destruct s; cbn [dyn_go]; eauto. exfalso; apply Hs; reflexivity.
  - assert (HP : forall a, exists t, dyn_go DPiece rest a = Ok t) by (intros a; apply IH; discriminate).
    assert (Hlit : forall a, exists t, (do t <- dyn_go DPiece rest a; Ok (String b t)) = Ok t).
    { intros a. destruct (HP a) as [t ->]. cbn [obind]. eauto. }
    destruct s; cbn [dyn_go].
    + destruct (is_lbrace b).
      * destruct rest; [eauto|]. apply IH. discriminate.
      * destruct (is_rbrace b); [|apply Hlit]. destruct rest; [eauto|]. apply IH. discriminate.
    + destruct (is_rbrace b); [|apply Hlit].
      destruct args as [|a args']; [apply HP|]. destruct (HP args') as [t ->]. cbn [obind]. eauto.
    + apply Hlit.
Qed.
Theorem dyn_format_total : forall fmt args, exists t, dyn_format fmt args = Ok t.
Proof. intros. apply dyn_go_ok. discriminate. Qed.

(* text without braces is copied, whatever the arguments *)
Theorem dyn_format_plain : forall fmt args, all_chars no_brace fmt = true -> dyn_format fmt args = Ok fmt.
Proof.
  unfold dyn_format. induction fmt as [|c r IH]; intros args H; [reflexivity|].
  cbn [all_chars] in H. apply andb_true_iff in H. destruct H as [Hc Hr].
  unfold no_brace in Hc. apply andb_true_iff in Hc. destruct Hc as [Hl Hrb].
  apply negb_true_iff in Hl. apply negb_true_iff in Hrb.
  cbn [dyn_go]. rewrite Hl, Hrb. rewrite (IH args Hr). reflexivity.
Qed.

(* `{}` followed by more text: the next argument, then the rest with the remaining arguments *)
Theorem dyn_format_placeholder : forall rest a args,
  dyn_format ("{}" ++ rest) (a :: args) = do t <- dyn_format rest args; Ok (a ++ t).
Proof. intros. unfold dyn_format. cbn. reflexivity. Qed.
(* ... with the arguments exhausted: nothing *)
Theorem dyn_format_placeholder_missing : forall rest,
  dyn_format ("{}" ++ rest) [] = dyn_format rest [].
Proof. intros. unfold dyn_format. cbn. reflexivity. Qed.
(* `{{` / `}}` followed by more text: one literal brace *)
Theorem dyn_format_escaped_left : forall c rest args,
  dyn_format ("{{" ++ String c rest) args = do t <- dyn_format (String c rest) args; Ok (String "{" t).
Proof. intros. unfold dyn_format. cbn. reflexivity. Qed.
Theorem dyn_format_escaped_right : forall c rest args,
  dyn_format ("}}" ++ String c rest) args = do t <- dyn_format (String c rest) args; Ok (String "}" t).
Proof. intros. unfold dyn_format. cbn. reflexivity. Qed.
(* surplus arguments are ignored: a plain text with any arguments (above); the crate's own doc tests *)
Example dyn_doc_1 : dyn_format "{}a{}b{}c" ["1"; "2"; "3"] = Ok "1a2b3c". Proof. reflexivity. Qed.
Example dyn_doc_2 : dyn_format "{}a{}b{}c" ["1"; "2"; "3"; "4"] = Ok "1a2b3c". Proof. reflexivity. Qed.
Example dyn_doc_3 : dyn_format "{}a{}b{}c" ["1"; "2"] = Ok "1a2bc". Proof. reflexivity. Qed.
Example dyn_doc_4 : dyn_format "{{}}{}" ["1"; "2"] = Ok "{}1". Proof. reflexivity. Qed.
Example dyn_test_complex_1 : dyn_format "{{}}x{{}{}}y{" ["1"; "2"; "3"] = Ok "{}x{{}y". Proof. reflexivity. Qed.
Example dyn_test_complex_2 : dyn_format "{{{}}}x{y}" ["1"; "2"; "3"] = Ok "{1}xy". Proof. reflexivity. Qed.
Example dyn_test_complex_3 : dyn_format "{{{}}}x{{}" ["1"; "2"; "3"] = Ok "{1}x{". Proof. reflexivity. Qed.
