(* HigherOrder.v — C13: the operator forms via / where / into and the built-in forms
   map / filter / function application run the same loop over the same callback; every / some /
   reduce / map meet their definitions whenever the callback behaves as a (pure) function on
   the elements. *)
From Coq Require Import String Ascii List ZArith Bool Lia.
Require Import Blots.Num Blots.gen.Builtins Blots.Ast Blots.Value Blots.Outcome Blots.Binop
               Blots.Env Blots.Eval Blots.BuiltinsHof Blots.Program Blots.EvalInst
               Blots.proofs.DepthMono Blots.proofs.InstDepth.
Import ListNotations.
Open Scope list_scope.
Open Scope nat_scope.

Lemma accepts2_same : forall f, fn_accepts2_of_value f = accepts f 2.
Proof. intros f. destruct f; reflexivity. Qed.

Lemma index_app_here : forall (pre l : list value) x,
  index (pre ++ x :: l) (Datatypes.length pre) = Ok x.
Proof.
  intros pre l x. unfold index. rewrite nth_error_app2 by lia.
  replace (Datatypes.length pre - Datatypes.length pre) with 0 by lia. reflexivity.
Qed.

Section Loops.
  Variable call : callback.

  (* the per-element argument vector of the operator forms is the built-ins' cb_args *)
  Definition op_args (two : bool) (item : value) (idx : nat) : list value :=
    if two then [item; VNum (num_of_idx idx)] else [item].
  Lemma op_args_cb_args : forall two item idx, op_args two item idx = cb_args two item idx.
  Proof. reflexivity. Qed.

  (* `via` loop of Binop.v (list first, scalar function) = map's loop *)
  Lemma via_loop_is_map_loop : forall f two l pre st,
    for_each store (seq (Datatypes.length pre) (Datatypes.length l))
      (fun idx => bindM store (lift store (index (pre ++ l) idx))
                    (fun item => call_fn store call f (op_args two item idx))) st
    = map_loop call f two l (Datatypes.length pre) st.
  Proof.
    intros f two l; induction l as [|x l IH]; intros pre st; [reflexivity|].
    cbn [Datatypes.length seq for_each map_loop].
    unfold bindM at 1. unfold bindM at 1. unfold lift at 1. rewrite index_app_here.
    unfold call_fn. rewrite op_args_cb_args.
    destruct (call f f (cb_args two x (Datatypes.length pre)) st) as [o st1]; destruct o; try reflexivity.
    unfold bindM at 1.
    specialize (IH (pre ++ [x]) st1). rewrite <- app_assoc in IH. cbn [app] in IH.
    rewrite app_length in IH. cbn [Datatypes.length] in IH.
    replace (Datatypes.length pre + 1) with (S (Datatypes.length pre)) in IH by lia.
    unfold call_fn in IH. rewrite IH.
    destruct (map_loop call f two l (S (Datatypes.length pre)) st1) as [o2 st2]; destruct o2; reflexivity.
  Qed.

  (* `where` loop of Binop.v = filter's loop *)
  Lemma where_loop_is_filter_loop : forall f two l pre st,
    (let '(r, st') :=
       for_each store (seq (Datatypes.length pre) (Datatypes.length l))
         (fun idx => bindM store (lift store (index (pre ++ l) idx))
            (fun item => bindM store (call_fn store call f (op_args two item idx))
               (fun result => bindM store (lift store (as_bool result))
                  (fun keep => lift store (Ok (if keep then Some item else None)))))) st
     in (omap (@filter_some value) r, st'))
    = filter_loop call f two l (Datatypes.length pre) st.
  Proof.
    intros f two l; induction l as [|x l IH]; intros pre st; [reflexivity|].
    cbn [Datatypes.length seq for_each filter_loop].
    unfold bindM at 1. unfold bindM at 1. unfold lift at 1. rewrite index_app_here.
    unfold bindM at 1. unfold call_fn. rewrite op_args_cb_args.
    destruct (call f f (cb_args two x (Datatypes.length pre)) st) as [o st1]; destruct o; try reflexivity.
    unfold bindM at 1. unfold lift at 1.
    destruct (as_bool a) as [keep| | | |]; try reflexivity.
    unfold lift at 1. unfold bindM at 1.
    specialize (IH (pre ++ [x]) st1). rewrite <- app_assoc in IH. cbn [app] in IH.
    rewrite app_length in IH. cbn [Datatypes.length] in IH.
    replace (Datatypes.length pre + 1) with (S (Datatypes.length pre)) in IH by lia.
    unfold call_fn in IH. rewrite <- IH.
    match goal with |- context [for_each store ?s ?b st1] => destruct (for_each store s b st1) as [o2 st2] end.
    destruct o2; try reflexivity. destruct keep; reflexivity.
  Qed.

  (* ---- value level: operator = built-in loop over the SAME callback ---- *)
  Lemma eval_binop_list_scalar : forall powf op l f st,
    is_list f = false ->
    match op with Via | Where => True | _ => False end ->
    eval_binop store call fn_accepts2_of_value powf op (VList l) f st
    = arm_list_scalar store call fn_accepts2_of_value powf op true l f st.
  Proof.
    intros powf op l f st Hnl Hop. unfold eval_binop. rewrite Hnl. cbn [andb].
    destruct op; try contradiction; destruct f; try discriminate; reflexivity.
  Qed.

  Theorem via_is_map : forall powf l f st,
    is_callable f = true ->
    eval_binop store call fn_accepts2_of_value powf Via (VList l) f st
    = bi_map call [VList l; f] st.
  Proof.
    intros powf l f st Hf.
    assert (Hfun : is_function f = true) by (destruct f; auto; discriminate).
    assert (Hnl : is_list f = false) by (destruct f; auto; discriminate).
    rewrite eval_binop_list_scalar by (auto; exact I).
    unfold bi_map, hof_prelude, arg. cbn [nth_error obind as_list].
    unfold as_function. rewrite Hfun. cbn [obind].
    cbn [arm_list_scalar]. rewrite Hf. cbn [negb]. unfold bindM at 1.
    pose proof (via_loop_is_map_loop f (fn_accepts2_of_value f) l [] st) as HL.
    cbn [Datatypes.length app] in HL. unfold op_args in HL. rewrite HL. rewrite accepts2_same.
    destruct (map_loop call f (accepts f 2) l 0 st) as [o st1]. destruct o; reflexivity.
  Qed.

  Theorem where_is_filter : forall powf l f st,
    is_callable f = true ->
    eval_binop store call fn_accepts2_of_value powf Where (VList l) f st
    = bi_filter call [VList l; f] st.
  Proof.
    intros powf l f st Hf.
    assert (Hfun : is_function f = true) by (destruct f; auto; discriminate).
    assert (Hnl : is_list f = false) by (destruct f; auto; discriminate).
    rewrite eval_binop_list_scalar by (auto; exact I).
    unfold bi_filter, hof_prelude, arg. cbn [nth_error obind as_list].
    unfold as_function. rewrite Hfun. cbn [obind].
    cbn [arm_list_scalar]. rewrite Hf. cbn [negb].
    pose proof (where_loop_is_filter_loop f (fn_accepts2_of_value f) l [] st) as HL.
    cbn [Datatypes.length app] in HL. unfold op_args in HL. rewrite accepts2_same in HL.
    rewrite <- HL. rewrite accepts2_same. unfold bindM at 1.
    match goal with |- context [for_each store ?s ?b st] => destruct (for_each store s b st) as [o st1] end.
    destruct o; reflexivity.
  Qed.

  (* `x into f` is the application f(x): both are FunctionDef::call with (f, [x]) *)
  Theorem into_is_apply : forall powf x f st,
    is_callable f = true ->
    eval_binop store call fn_accepts2_of_value powf Into x f st = call f f [x] st.
  Proof.
    intros powf x f st Hf. unfold eval_binop.
    assert (Hnl : is_list f = false) by (destruct f; auto; discriminate).
    rewrite Hnl. cbn [andb].
    destruct x; destruct f; try discriminate; cbn [arm_scalar arm_list_scalar];
      try rewrite Hf; reflexivity.
  Qed.

  (* ---- definitions met when the callback is a function of its arguments ---- *)
  (* "the predicate/callback succeeds on all elements": on every argument vector it is given,
     in every store, it returns [g args] *)
  Definition behaves_as (f : value) (g : list value -> value) : Prop :=
    forall args st, exists st', call f f args st = (Ok (g args), st').

  Fixpoint mapi_from {A B} (h : nat -> A -> B) (i : nat) (l : list A) : list B :=
    match l with [] => [] | x :: r => h i x :: mapi_from h (S i) r end.

  Theorem map_loop_spec : forall f g two l i st, behaves_as f g ->
    fst (map_loop call f two l i st) = Ok (mapi_from (fun k x => g (cb_args two x k)) i l).
  Proof.
    intros f g two l; induction l as [|x l IH]; intros i st Hg; [reflexivity|].
    cbn [map_loop mapi_from]. destruct (Hg (cb_args two x i) st) as [st1 E]. rewrite E.
    specialize (IH (S i) st1 Hg). destruct (map_loop call f two l (S i) st1) as [o st2].
    cbn [fst] in IH. subst o. reflexivity.
  Qed.

  Definition bool_of (v : value) : bool := match v with VBool b => b | _ => false end.
  Definition all_bool {A} (h : nat -> A -> value) (i : nat) (l : list A) : Prop :=
    Forall (fun v => exists b, v = VBool b) (mapi_from h i l).

  Theorem every_loop_spec : forall f g two l i st, behaves_as f g ->
    all_bool (fun k x => g (cb_args two x k)) i l ->
    fst (every_loop call f two l i st)
    = Ok (VBool (forallb bool_of (mapi_from (fun k x => g (cb_args two x k)) i l))).
  Proof.
    intros f g two l; induction l as [|x l IH]; intros i st Hg Hb; [reflexivity|].
    cbn [every_loop mapi_from forallb]. destruct (Hg (cb_args two x i) st) as [st1 E]. rewrite E.
    unfold all_bool in Hb. cbn [mapi_from] in Hb. inversion Hb as [|? ? [b Hb1] Hb2]; subst.
    rewrite Hb1. cbn [as_bool bool_of]. destruct b; cbn [andb]; [|reflexivity].
    apply IH; assumption.
  Qed.
  Theorem some_loop_spec : forall f g two l i st, behaves_as f g ->
    all_bool (fun k x => g (cb_args two x k)) i l ->
    fst (some_loop call f two l i st)
    = Ok (VBool (existsb bool_of (mapi_from (fun k x => g (cb_args two x k)) i l))).
  Proof.
    intros f g two l; induction l as [|x l IH]; intros i st Hg Hb; [reflexivity|].
    cbn [some_loop mapi_from existsb]. destruct (Hg (cb_args two x i) st) as [st1 E]. rewrite E.
    unfold all_bool in Hb. cbn [mapi_from] in Hb. inversion Hb as [|? ? [b Hb1] Hb2]; subst.
    rewrite Hb1. cbn [as_bool bool_of]. destruct b; cbn [orb]; [reflexivity|].
    apply IH; assumption.
  Qed.
  Theorem filter_loop_spec : forall f g two l i st, behaves_as f g ->
    all_bool (fun k x => g (cb_args two x k)) i l ->
    fst (filter_loop call f two l i st)
    = Ok (map snd (filter (fun kx => bool_of (g (cb_args two (snd kx) (fst kx))))
                          (mapi_from (fun k x => (k, x)) i l))).
  Proof.
    intros f g two l; induction l as [|x l IH]; intros i st Hg Hb; [reflexivity|].
    cbn [filter_loop mapi_from filter]. destruct (Hg (cb_args two x i) st) as [st1 E]. rewrite E.
    unfold all_bool in Hb. cbn [mapi_from] in Hb. inversion Hb as [|? ? [b Hb1] Hb2]; subst.
    cbn [fst snd]. rewrite Hb1. cbn [as_bool bool_of].
    specialize (IH (S i) st1 Hg Hb2). destruct (filter_loop call f two l (S i) st1) as [o st2].
    cbn [fst] in IH. subst o. destruct b; reflexivity.
  Qed.

  (* reduce is the left fold from its initial value (index passed when the callback takes it) *)
  Fixpoint foldi_left (h : value -> value -> nat -> value) (l : list value) (i : nat) (acc : value) :=
    match l with [] => acc | x :: r => foldi_left h r (S i) (h acc x i) end.
  Theorem reduce_loop_spec : forall f g three l i acc st, behaves_as f g ->
    fst (reduce_loop call f three l i acc st)
    = Ok (foldi_left (fun a x k => g (if three then [a; x; idx_num k] else [a; x])) l i acc).
  Proof.
    intros f g three l; induction l as [|x l IH]; intros i acc st Hg; [reflexivity|].
    cbn [reduce_loop foldi_left].
    destruct (Hg (if three then [acc; x; idx_num i] else [acc; x]) st) as [st1 E]. rewrite E.
    apply IH; assumption.
  Qed.
End Loops.

(* ---- evaluator level: the built-in form consumes more call depth than the operator form,
   so it is either the depth error or exactly the operator form's result ---- *)
Section Depth.
  Variable release : bool.
  Notation AD := (AD release binop_impl builtin_impl).

  Lemma AD_le2 : forall d fr, cb_le (AD d fr) (AD (S (S d)) fr).
  Proof.
    intros d fr this f args st.
    destruct (AD_le release binop_impl builtin_impl binop_impl_le builtin_impl_le d fr this f args st) as [H|H];
      [left; exact H|]. rewrite H.
    apply (AD_le release binop_impl builtin_impl binop_impl_le builtin_impl_le (S d) fr).
  Qed.

  (* FunctionDef::call of the built-in `b` with two arguments at depth budget d *)
  Lemma AD_builtin2 : forall d fr b x y st,
    can_accept (builtin_arity b) 2 = true ->
    AD d fr (VBuiltin b) (VBuiltin b) [x; y] st =
    match d with
    | O => (ErrDepth, st)
    | S O => builtin_impl (fun _ f a s => call_too_deep f a s) b [x; y] st
    | S (S d'') => builtin_impl (AD d'' fr) b [x; y] st
    end.
  Proof.
    intros d fr b x y st Ha. rewrite AD_unfold. unfold apply_at, check_arity, accepts. cbn [fn_arity Datatypes.length].
    rewrite Ha. cbn [negb]. destruct d as [|[|d'']]; reflexivity.
  Qed.

  Lemma too_deep_le : forall fr, cb_le (fun _ f a s => call_too_deep f a s) (AD 1 fr).
  Proof.
    intros fr this f args st. unfold call_too_deep. rewrite AD_unfold. unfold apply_at.
    destruct (check_arity f (Datatypes.length args)); cbn [negb]; [left; reflexivity|right; reflexivity].
  Qed.

  Theorem map_form_le_via_form : forall d fr l f st,
    is_callable f = true ->
    rle (AD d fr (VBuiltin B_map) (VBuiltin B_map) [VList l; f] st)
        (binop_impl (AD d fr) Via (VList l) f st).
  Proof.
    intros d fr l f st Hf. rewrite AD_builtin2 by reflexivity.
    unfold binop_impl. rewrite via_is_map by exact Hf.
    destruct d as [|[|d'']].
    - left; reflexivity.
    - cbn [builtin_impl]. apply builtin_impl_le with (b := B_map). apply too_deep_le.
    - cbn [builtin_impl]. apply builtin_impl_le with (b := B_map). intros t0 f0 a0 s0. apply AD_le2.
  Qed.

  Theorem filter_form_le_where_form : forall d fr l f st,
    is_callable f = true ->
    rle (AD d fr (VBuiltin B_filter) (VBuiltin B_filter) [VList l; f] st)
        (binop_impl (AD d fr) Where (VList l) f st).
  Proof.
    intros d fr l f st Hf. rewrite AD_builtin2 by reflexivity.
    unfold binop_impl. rewrite where_is_filter by exact Hf.
    destruct d as [|[|d'']].
    - left; reflexivity.
    - cbn [builtin_impl]. apply builtin_impl_le with (b := B_filter). apply too_deep_le.
    - cbn [builtin_impl]. apply builtin_impl_le with (b := B_filter). intros t0 f0 a0 s0. apply AD_le2.
  Qed.

  (* `x into f` and `f(x)` are literally the same call *)
  Theorem into_form_is_call_form : forall d fr x f st,
    is_callable f = true ->
    binop_impl (AD d fr) Into x f st = AD d fr f f [x] st.
  Proof. intros d fr x f st Hf. unfold binop_impl. apply into_is_apply. exact Hf. Qed.
End Depth.
