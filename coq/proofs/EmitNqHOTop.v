(* EmitNqHOTop.v — copy of EmitHOTop.v over the widened emit_ok (EmitNqHO.v): emit_ok takes nanfix, the simulation
   takes binop_lit_ok_inst.  Original header: C05: the higher-order portability theorems for the evaluator.
   Instances of EmitNqHOSim.ho_simulation with the transcribed operators / built-ins (EmitNqHOOps.v),
   and the corollaries: emission equivalence for closures capturing closures to any depth,
   re-emission chains, first-order results are EQUAL, function results are RELATED; and the
   refutation of the statement without the function-equality exclusion (finding F53). *)
From Coq Require Import String Ascii List ZArith Bool Lia.
Require Import Blots.Num Blots.gen.Builtins Blots.Ast Blots.Value Blots.Outcome Blots.Binop
               Blots.Env Blots.Eval Blots.Emit Blots.BuiltinsHof Blots.Program Blots.EvalInst Blots.EvalFull
               Blots.proofs.ValueInd Blots.proofs.EmitLit Blots.proofs.EmitSubst Blots.proofs.EmitSound
               Blots.proofs.EmitNqHO Blots.proofs.EmitNqHOSim Blots.proofs.EmitNqHOOps
               Blots.EmitNq Blots.proofs.EmitNqLit.
Import ListNotations.
Open Scope string_scope.
Open Scope list_scope.

(* ---- generic: the reloaded emission of an emittable closure is related to it ---- *)
Section Reload.
  Variable opok : binop -> bool.
  Variable biok : builtin -> bool.
  Variable nanfix : bool.
  Notation vrel := (vrel opok biok nanfix).
  Notation emit_ok := (emit_ok opok biok nanfix).

  Lemma names_ok_get' ps (sc : list (string * value)) x v :
    scope_names_ok ps (map fst sc) = true -> rec_get sc x = Some v ->
    special_name x = false /\ x <> "inputs" /\ mem x ps = false.
  Proof.
    unfold scope_names_ok. intros H E. apply rec_get_In in E. rewrite forallb_forall in H.
    specialize (H x (in_map fst _ _ E)). apply andb_prop in H as [H C]. apply andb_prop in H as [A B].
    apply negb_true_iff in A, B, C. repeat split; auto. now apply String.eqb_neq.
  Qed.

  Lemma reload_rel id id' ps b sc : emit_ok (VLam id ps b sc) = true ->
    vrel (VLam id ps b sc) (VLam id' ps (subst true (scope_map nanfix true sc) b) []).
  Proof.
    intros Hok. cbn [EmitNqHO.emit_ok] in Hok. apply andb_prop in Hok as [Hok Hsc]. apply andb_prop in Hok as [Hok Hnm].
    apply andb_prop in Hok as [Hb Hfv].
    assert (Hget : forall x v, rec_get sc x = Some v -> emit_ok v = true).
    { intros x v E. apply rec_get_In in E. rewrite forallb_forall in Hsc. exact (Hsc _ E). }
    constructor.
    - exact Hb.
    - destruct (free_vars b (map arg_name ps ++ map fst sc)); [reflexivity|discriminate].
    - intros x Hx. rewrite scope_map_get. destruct (rec_get sc x) eqn:E; [|reflexivity].
      destruct (names_ok_get' _ _ _ _ Hnm E) as (A & _). congruence.
    - intros x Hx. rewrite scope_map_get. destruct (rec_get sc x) eqn:E; [|reflexivity].
      destruct (names_ok_get' _ _ _ _ Hnm E) as (_ & _ & A). rewrite (mem_In_true _ _ Hx) in A. discriminate.
    - destruct (rec_get sc "inputs") eqn:E; [|reflexivity].
      destruct (names_ok_get' _ _ _ _ Hnm E) as (_ & A & _). congruence.
    - intros x v e E. rewrite scope_map_get, E. cbn. intros X; inversion X. split; [reflexivity|eauto].
    - intros x e. rewrite scope_map_get. destruct (rec_get sc x) eqn:E; cbn; [|discriminate].
      intros X; inversion X. exists v. split; eauto.
    - intros x v E. rewrite scope_map_get, E. discriminate.
  Qed.

  (* data is related to itself only: a lambda-free left value determines the right value *)
  Lemma vrel_lf_eq : forall v v', vrel v v' -> lf v = true -> v = v'.
  Proof.
    induction v using value_ind'; intros v' Hv Hlf; inversion Hv; subst; try reflexivity; try discriminate.
    - f_equal. cbn in Hlf. match goal with HF : Forall2 _ l l' |- _ => rename HF into HL end.
      clear Hv. revert H Hlf. induction HL as [|x x' l l' Vx _ IHl]; intros H Hlf; [reflexivity|].
      cbn in Hlf. apply andb_prop in Hlf as [A B]. inversion H as [|? ? Hx Hl]; subst.
      f_equal; [apply Hx; assumption|apply IHl; assumption].
    - f_equal. cbn in Hlf. match goal with HF : Forall2 _ r r' |- _ => rename HF into HL end.
      clear Hv. revert H Hlf. induction HL as [|[k x] [k' x'] r r' [Ek Vx] _ IHl]; intros H Hlf; [reflexivity|].
      cbn in Hlf, Ek, Vx. apply andb_prop in Hlf as [A B]. inversion H as [|? ? Hx Hl]; subst. cbn in Hx.
      f_equal; [f_equal; apply Hx; assumption|apply IHl; assumption].
    - f_equal. apply IHv; assumption.
  Qed.
End Reload.

(* ---- the instance: transcribed operators without Value::equals, built-ins of biok_inst ---- *)
Definition opok_inst : binop -> bool := eqfree.
Notation vrelI := (vrel opok_inst biok_inst).
Notation orelI := (orel opok_inst biok_inst).
Notation lrelI := (lrel opok_inst biok_inst).
Notation emit_okI := (emit_ok opok_inst biok_inst).

Lemma binop_impl_rel nanfix cb cb' op l l' r r' st st' : opok_inst op = true ->
  cb_rel opok_inst biok_inst nanfix cb cb' -> vrelI nanfix l l' -> vrelI nanfix r r' ->
  orelI nanfix (fst (binop_impl cb op l r st)) (fst (binop_impl cb' op l' r' st')).
Proof.
  intros Hop Hcb Hl Hr. unfold binop_impl.
  destruct op; try discriminate; try exact I; apply eval_binop_rel; auto.
Qed.

Theorem impl_rel_inst nanfix : impl_rel_respecting opok_inst biok_inst nanfix binop_impl builtin_impl.
Proof.
  split.
  - intros. apply binop_impl_rel; assumption.
  - intros. apply builtin_impl_rel; assumption.
Qed.
Theorem impl_rel_full nanfix : impl_rel_respecting opok_inst biok_inst nanfix binop_impl builtin_full.
Proof.
  split.
  - intros. apply binop_impl_rel; assumption.
  - intros. apply builtin_full_rel; assumption.
Qed.

(* the simulation for the evaluator with every transcribed built-in *)
Theorem ho_simulation_full : forall release nanfix d fr fr' this this' f f' args args' st st',
  vrelI nanfix f f' -> lrelI nanfix args args' ->
  orelI nanfix (fst (AD release binop_impl builtin_full d fr this f args st))
               (fst (AD release binop_impl builtin_full d fr' this' f' args' st')).
Proof. intros release nanfix. apply ho_simulation; [apply impl_rel_full|apply binop_lit_ok_inst]. Qed.

(* emission equivalence, captured values of any order *)
Theorem emit_equiv_higher_order : forall release nanfix d fr fr' this this' id id' ps b sc args args' st st',
  emit_okI nanfix (VLam id ps b sc) = true -> lrelI nanfix args args' ->
  orelI nanfix (fst (AD release binop_impl builtin_full d fr this (VLam id ps b sc) args st))
               (fst (AD release binop_impl builtin_full d fr' this'
                        (VLam id' ps (subst true (scope_map nanfix true sc) b) []) args' st')).
Proof.
  intros. apply ho_simulation_full; [|assumption]. apply reload_rel. assumption.
Qed.

(* emittable values are related to themselves (the same argument may be given to both functions) *)
Lemma emit_ok_refl nanfix : forall v, emit_okI nanfix v = true -> vrelI nanfix v v.
Proof.
  induction v using value_ind'; intros Hok; try (constructor; fail).
  - constructor. cbn [EmitNqHO.emit_ok] in Hok. induction H as [|x l Hx _ IH]; [constructor|].
    cbn in Hok. apply andb_prop in Hok as [A B]. constructor; auto.
  - constructor. cbn [EmitNqHO.emit_ok] in Hok. apply andb_prop in Hok as [_ Hok].
    induction H as [|[k x] l Hx _ IH]; [constructor|].
    cbn in Hok, Hx. apply andb_prop in Hok as [A B]. constructor; auto.
  - (* a closure, with the empty inlining scope *)
    rewrite <- (subst_nil true b) at 2.
    cbn [EmitNqHO.emit_ok] in Hok. apply andb_prop in Hok as [Hok Hsc]. apply andb_prop in Hok as [Hok Hnm].
    apply andb_prop in Hok as [Hb Hfv].
    constructor; try (intros; reflexivity); try (intros; discriminate).
    + exact Hb.
    + destruct (free_vars b (map arg_name a ++ map fst sc)); [reflexivity|discriminate].
    + destruct (rec_get sc "inputs") eqn:E; [|reflexivity].
      destruct (names_ok_get' _ _ _ _ Hnm E) as (_ & A & _). congruence.
    + intros x v E _ _. exists v. split; [exact E|]. apply rec_get_In in E.
      rewrite Forall_forall in H. rewrite forallb_forall in Hsc. exact (H _ E (Hsc _ E)).
  - constructor. exact Hok.
  - discriminate.
Qed.

(* results: equal when first-order, related when functions; same error class; same depth verdict *)
Theorem emit_equiv_ho_same_args : forall release nanfix d fr fr' this this' id id' ps b sc args st st' r,
  emit_okI nanfix (VLam id ps b sc) = true -> forallb (emit_okI nanfix) args = true ->
  fst (AD release binop_impl builtin_full d fr this (VLam id ps b sc) args st) = r ->
  exists r', fst (AD release binop_impl builtin_full d fr' this'
                     (VLam id' ps (subst true (scope_map nanfix true sc) b) []) args st') = r' /\
    orelI nanfix r r' /\ (forall v, r = Ok v -> lf v = true -> r' = Ok v) /\ (r = ErrDepth <-> r' = ErrDepth).
Proof.
  intros release nanfix d fr fr' this this' id id' ps b sc args st st' r Hok Hargs Hr.
  eexists. split; [reflexivity|].
  assert (Ha : lrelI nanfix args args).
  { clear - Hargs. induction args as [|x l IH]; [constructor|]. cbn in Hargs. apply andb_prop in Hargs as [A B].
    constructor; [apply emit_ok_refl; exact A|apply IH; exact B]. }
  pose proof (emit_equiv_higher_order release nanfix d fr fr' this this' id id' ps b sc args args st st' Hok Ha) as H.
  rewrite Hr in H. split; [exact H|]. split.
  - intros v -> Hlf. destruct (fst (AD _ _ _ d fr' this' _ args st')); cbn in H; try contradiction.
    f_equal. symmetry. eapply vrel_lf_eq; eauto.
  - destruct r, (fst (AD _ _ _ d fr' this' _ args st')); cbn in H; try contradiction; split; intros; try discriminate; reflexivity.
Qed.

(* re-emission: emitting the reloaded function again and reloading that gives a function related to
   the ORIGINAL (so chains of any length stay equivalent to the original) *)
Theorem reemit_related : forall nanfix id id1 id2 ps b sc e1 f1 e2 f2,
  emit_okI nanfix (VLam id ps b sc) = true ->
  emit_ast nanfix true (VLam id ps b sc) = Some e1 -> reload_ast id1 e1 = Some f1 ->
  emit_ast nanfix true f1 = Some e2 -> reload_ast id2 e2 = Some f2 ->
  e2 = e1 /\ vrelI nanfix (VLam id ps b sc) f1 /\ vrelI nanfix (VLam id ps b sc) f2.
Proof.
  intros nanfix id id1 id2 ps b sc e1 f1 e2 f2 Hok E1 R1 E2 R2.
  cbn in E1. inversion E1; subst e1. cbn in R1. inversion R1; subst f1.
  cbn in E2. rewrite subst_nil in E2. inversion E2; subst e2. cbn in R2. inversion R2; subst f2.
  split; [reflexivity|]. split; apply reload_rel; assumption.
Qed.

(* ---- F53: Value::equals on functions ignores captured values and looks at the body text ----
   mk = a => (y => y + a); k1 = mk(1); k2 = mk(2); f = x => k1 == k2
   f(0) is true (same parameter list, same body AST `y + a`); the emission is
   (x) => ((y) => y + 1) == ((y) => y + 2), whose reloaded form returns false. *)
Definition f52_k (a : Z) : value :=
  VLam 1%nat [AReq "y"] (EBin Add (EId "y") (EId "a")) [("a", VNum (num_of_Z a))].
Definition f52_fun : value :=
  VLam 0%nat [AReq "x"] (EBin Equal (EId "k1") (EId "k2")) [("k1", f52_k 1%Z); ("k2", f52_k 2%Z)].
Lemma f52_refuted :
  closed_after_capture f52_fun = true /\
  call_on f52_fun (VNum nzero) = Ok (VBool true) /\
  call_on (reloaded true true f52_fun) (VNum nzero) = Ok (VBool false).
Proof. vm_compute. repeat split; reflexivity. Qed.
