(* AllValidNum.v — every number operation of Num.v (and the number-producing helpers of the built-in
   transcriptions) returns a VALID binary64 (SpecFloat.valid_binary 53 1024) on valid arguments.
   The SpecFloat operations are Flocq's (AggPercentile.binary_round_equiv ...), and Flocq's
   binary_round_correct / Bmult_correct_aux / Bdiv_correct_aux / Bsqrt_correct_aux carry the validity of
   the result as their first component.  Those lemmas are proved over the reals, so everything here
   inherits the four standard-library real-number axioms (the allow-list of checks/common.py). *)
From Coq Require Import ZArith String List Bool Lia Reals Floats.SpecFloat Arith.
From Flocq Require Import Core.Core Core.Zaux Core.Digits IEEE754.BinarySingleNaN.
Require Import Blots.Num Blots.Valid Blots.proofs.AggPercentile.
Import ListNotations.
Open Scope Z_scope.

#[local] Existing Instance Hprec.
#[local] Existing Instance Hmax.

Lemma valid_num_iff x : valid_num x <-> valid_binary prec emax x = true.
Proof. reflexivity. Qed.

(* ---------------- constants ---------------- *)
Lemma valid_nan : valid_num S754_nan. Proof. reflexivity. Qed.
Lemma valid_zero s : valid_num (S754_zero s). Proof. reflexivity. Qed.
Lemma valid_inf s : valid_num (S754_infinity s). Proof. reflexivity. Qed.
#[export] Hint Resolve valid_nan valid_zero valid_inf : vnum.

(* validity does not look at the sign *)
Lemma valid_finite_sign s s' m e : valid_num (S754_finite s m e) -> valid_num (S754_finite s' m e).
Proof. exact (fun H => H). Qed.

(* ---------------- rounding ---------------- *)
Lemma binary_round_valid s m e : valid_num (SpecFloat.binary_round prec emax s m e).
Proof.
  unfold valid_num, valid_numb. rewrite binary_round_equiv.
  exact (proj1 (binary_round_correct prec emax Hprec Hmax mode_NE s m e)).
Qed.
Lemma binary_normalize_valid m e sz : valid_num (SpecFloat.binary_normalize prec emax m e sz).
Proof. destruct m; cbn [SpecFloat.binary_normalize]; [reflexivity|apply binary_round_valid..]. Qed.

Lemma num_of_Z_valid z : valid_num (num_of_Z z).
Proof. apply binary_normalize_valid. Qed.
Lemma num_of_sm_valid s n : valid_num (num_of_sm s n).
Proof. destruct n; cbn [num_of_sm]; [reflexivity|apply binary_round_valid..]. Qed.
Lemma num_of_dyadic_valid s m e : valid_num (num_of_dyadic s m e).
Proof. destruct m; cbn [num_of_dyadic]; [reflexivity|apply binary_round_valid..]. Qed.
#[export] Hint Resolve num_of_Z_valid num_of_sm_valid num_of_dyadic_valid : vnum.

(* ---------------- + - * / sqrt ---------------- *)
Lemma nadd_valid x y : valid_num x -> valid_num y -> valid_num (nadd x y).
Proof.
  intros Hx Hy. unfold nadd.
  destruct x as [sx|sx| |sx mx ex], y as [sy|sy| |sy my ey]; cbn [SFadd];
    try assumption; try reflexivity; try (destruct (Bool.eqb _ _); reflexivity).
  apply binary_normalize_valid.
Qed.
Lemma nsub_valid x y : valid_num x -> valid_num y -> valid_num (nsub x y).
Proof.
  intros Hx Hy. unfold nsub.
  destruct x as [sx|sx| |sx mx ex], y as [sy|sy| |sy my ey]; cbn [SFsub];
    try assumption; try reflexivity; try (destruct (Bool.eqb _ _); reflexivity).
  apply binary_normalize_valid.
Qed.
Lemma nmul_valid x y : valid_num x -> valid_num y -> valid_num (nmul x y).
Proof.
  intros Hx Hy. unfold nmul.
  destruct x as [sx|sx| |sx mx ex], y as [sy|sy| |sy my ey]; cbn [SFmul]; try reflexivity.
  unfold valid_num, valid_numb. rewrite binary_round_aux_equiv.
  exact (proj1 (Bmult_correct_aux prec emax Hprec Hmax mode_NE sx mx ex Hx sy my ey Hy)).
Qed.
Lemma ndiv_valid x y : valid_num x -> valid_num y -> valid_num (ndiv x y).
Proof.
  intros Hx Hy. unfold ndiv.
  destruct x as [sx|sx| |sx mx ex], y as [sy|sy| |sy my ey]; cbn [SFdiv]; try reflexivity.
  assert (C := proj1 (Bdiv_correct_aux prec emax Hprec Hmax mode_NE sx mx ex sy my ey)).
  destruct (SFdiv_core_binary prec emax (Z.pos mx) ex (Z.pos my) ey) as [[mz ez] lz].
  unfold valid_num, valid_numb. rewrite binary_round_aux_equiv. exact C.
Qed.
Lemma nsqrt_valid x : valid_num x -> valid_num (nsqrt x).
Proof.
  intros Hx. unfold nsqrt.
  destruct x as [sx|sx| |sx mx ex]; cbn [SFsqrt]; try reflexivity; try (destruct sx; reflexivity).
  destruct sx; [reflexivity|].
  assert (C := proj1 (Bsqrt_correct_aux prec emax Hprec Hmax mode_NE mx ex Hx)).
  destruct (SFsqrt_core_binary prec emax (Z.pos mx) ex) as [[mz ez] lz].
  unfold valid_num, valid_numb. rewrite binary_round_aux_equiv. exact C.
Qed.
Lemma nneg_valid x : valid_num x -> valid_num (nneg x).
Proof. destruct x; exact (fun H => H). Qed.
Lemma nabs_valid x : valid_num x -> valid_num (nabs x).
Proof. destruct x; exact (fun H => H). Qed.
#[export] Hint Resolve nadd_valid nsub_valid nmul_valid ndiv_valid nsqrt_valid nneg_valid nabs_valid : vnum.

(* ---------------- integer part, fmod, min / max ---------------- *)
Lemma ntrunc_valid x : valid_num x -> valid_num (ntrunc x).
Proof.
  intros H. destruct x; try exact H. cbn [ntrunc]. destruct (split_int m e) as [[q r] d].
  apply num_of_sm_valid.
Qed.
Lemma nfloor_valid x : valid_num x -> valid_num (nfloor x).
Proof.
  intros H. destruct x; try exact H. cbn [nfloor]. destruct (split_int m e) as [[q r] d].
  destruct s; apply num_of_sm_valid.
Qed.
Lemma nceil_valid x : valid_num x -> valid_num (nceil x).
Proof.
  intros H. destruct x; try exact H. cbn [nceil]. destruct (split_int m e) as [[q r] d].
  destruct s; apply num_of_sm_valid.
Qed.
Lemma nround_valid x : valid_num x -> valid_num (nround x).
Proof.
  intros H. destruct x; try exact H. cbn [nround]. destruct (split_int m e) as [[q r] d].
  apply num_of_sm_valid.
Qed.
Lemma nfmod_valid x y : valid_num x -> valid_num y -> valid_num (nfmod x y).
Proof.
  intros Hx Hy. destruct x as [sx|sx| |sx mx ex], y as [sy|sy| |sy my ey]; cbn [nfmod];
    try assumption; try reflexivity.
  apply num_of_dyadic_valid.
Qed.
Lemma nmin_valid x y : valid_num x -> valid_num y -> valid_num (nmin x y).
Proof. intros Hx Hy. unfold nmin. destruct (is_nan x), (is_nan y), (nltb y x); assumption. Qed.
Lemma nmax_valid x y : valid_num x -> valid_num y -> valid_num (nmax x y).
Proof. intros Hx Hy. unfold nmax. destruct (is_nan x), (is_nan y), (nltb x y); assumption. Qed.
#[export] Hint Resolve ntrunc_valid nfloor_valid nceil_valid nround_valid nfmod_valid nmin_valid nmax_valid : vnum.

(* ---------------- bit patterns: every 64-bit pattern is a double ---------------- *)
Lemma digits2_pos_Zdigits p : Z.pos (digits2_pos p) = Zdigits radix2 (Z.pos p).
Proof. apply Zpos_digits2_pos. Qed.
Lemma canonical_of_digits m e d :
  Zdigits radix2 (Z.pos m) = d -> SpecFloat.fexp prec emax (d + e) = e -> e <= emax - prec ->
  valid_num (S754_finite false m e).
Proof.
  intros Hd Hf He. unfold valid_num, valid_numb, valid_binary, bounded, canonical_mantissa.
  rewrite digits2_pos_Zdigits, Hd, Hf, (Zeq_bool_true e e eq_refl). cbn [andb]. apply Z.leb_le. exact He.
Qed.
Lemma num_of_bits_valid b : valid_num (num_of_bits b).
Proof.
  unfold num_of_bits.
  set (e := (b / 2 ^ 52) mod 2 ^ 11). set (m := b mod 2 ^ 52).
  assert (He : 0 <= e < 2 ^ 11) by (apply Z.mod_pos_bound; reflexivity).
  assert (Hm : 0 <= m < 2 ^ 52) by (apply Z.mod_pos_bound; reflexivity).
  destruct (e =? 2047) eqn:E1; [destruct (m =? 0); reflexivity|].
  apply Z.eqb_neq in E1.
  destruct (e =? 0) eqn:E0.
  - destruct m as [|p|p] eqn:Em; try reflexivity.
    apply (valid_finite_sign false).
    assert (Hd : 0 < Zdigits radix2 (Z.pos p) <= 52).
    { split; [apply Zdigits_gt_0; discriminate|].
      apply Zdigits_le_Zpower. cbn [Z.abs]. change (Zpower radix2 52) with (2 ^ 52). lia. }
    eapply canonical_of_digits; [reflexivity| |unfold emax, prec; lia].
    unfold SpecFloat.fexp, SpecFloat.emin, prec, emax. lia.
  - apply Z.eqb_neq in E0.
    destruct (m + 2 ^ 52) as [|p|p] eqn:Em; try reflexivity.
    apply (valid_finite_sign false).
    assert (Hd : Zdigits radix2 (Z.pos p) = 53).
    { apply Zdigits_unique. cbn [Z.abs]. change (Zpower radix2 (53 - 1)) with (2 ^ 52).
      change (Zpower radix2 53) with (2 ^ 53). change (2 ^ 53) with (2 ^ 52 + 2 ^ 52). lia. }
    eapply canonical_of_digits; [exact Hd| |unfold emax, prec; lia].
    unfold SpecFloat.fexp, SpecFloat.emin, prec, emax. lia.
Qed.
#[export] Hint Resolve num_of_bits_valid : vnum.
