(* DepthMono.v — the call-depth limit is the ONLY thing that depends on the depth:
   an evaluation that does not end in the depth error gives exactly the same result (value or
   failure, final store, final scope chain) at every larger depth budget.  Consequences (C18,
   C13): a "maximum call depth" error means the computation really nests deeper than the
   limit; forms that differ only in how much depth they consume (`via` vs `map`) agree whenever
   neither hits the limit. *)
From Coq Require Import String Ascii List ZArith Bool Lia.
Require Import Blots.Num Blots.gen.Builtins Blots.Ast Blots.Value Blots.Outcome Blots.Binop
               Blots.Env Blots.Eval Blots.BuiltinsHof Blots.proofs.ExprInd.
Import ListNotations.
Open Scope string_scope.
Open Scope list_scope.
Open Scope nat_scope.

(* x is the depth error, or x and y are the same *)
Definition rle {A S : Type} (x y : outcome A * S) : Prop := fst x = ErrDepth \/ x = y.
Lemma rle_refl : forall A S (x : outcome A * S), rle x x.
Proof. intros; right; reflexivity. Qed.

Definition cb_le (cb1 cb2 : callback) : Prop :=
  forall this f args st, rle (cb1 this f args st) (cb2 this f args st).

(* ---- the Binop state monad ---- *)
Section BinopLe.
  Variable call1 call2 : callback.
  Hypothesis Hcall : cb_le call1 call2.
  Variable fa2 : value -> bool.
  Variable powf : num -> num -> num.

  Definition MLe {A} (m1 m2 : M store A) : Prop := forall st, rle (m1 st) (m2 st).

  Lemma lift_le : forall A (o : outcome A), MLe (lift store o) (lift store o).
  Proof. intros A o st. apply rle_refl. Qed.
  Lemma bindM_le : forall A B (m1 m2 : M store A) (f1 f2 : A -> M store B),
    MLe m1 m2 -> (forall a, MLe (f1 a) (f2 a)) -> MLe (bindM store m1 f1) (bindM store m2 f2).
  Proof.
    intros A B m1 m2 f1 f2 Hm Hf st. unfold bindM. specialize (Hm st).
    destruct (m1 st) as [o1 s1], (m2 st) as [o2 s2]. destruct Hm as [Hd|Heq].
    - cbn in Hd; subst o1. left; reflexivity.
    - inversion Heq; subst. destruct o2; try apply rle_refl. apply Hf.
  Qed.
  Lemma for_each_le : forall B idxs (b1 b2 : nat -> M store B),
    (forall i, MLe (b1 i) (b2 i)) -> MLe (for_each store idxs b1) (for_each store idxs b2).
  Proof.
    intros B idxs b1 b2 Hb; induction idxs as [|i r IH]; cbn [for_each].
    - apply lift_le.
    - apply bindM_le; [apply Hb|]. intros y. apply bindM_le; [exact IH|]. intros ys. apply lift_le.
  Qed.
  Lemma call_fn_le : forall f args, MLe (call_fn store call1 f args) (call_fn store call2 f args).
  Proof. intros f args st. unfold call_fn. apply Hcall. Qed.

  Ltac mle :=
    repeat first
      [ apply lift_le | apply call_fn_le
      | apply bindM_le; [|intros ?] | apply for_each_le; intros ?
      | match goal with |- MLe (if ?b then _ else _) (if ?b then _ else _) => destruct b end
      | match goal with |- MLe (match ?x with _ => _ end) (match ?x with _ => _ end) => destruct x end ].

  Lemma arm_list_list_le : forall op l r,
    MLe (arm_list_list store call1 powf op l r) (arm_list_list store call2 powf op l r).
  Proof. intros op l r. unfold arm_list_list. destruct (negb _); [apply lift_le|]. destruct op; mle. Qed.
  Lemma arm_list_scalar_le : forall op b l s,
    MLe (arm_list_scalar store call1 fa2 powf op b l s) (arm_list_scalar store call2 fa2 powf op b l s).
  Proof. intros op b l s. unfold arm_list_scalar. destruct op; mle. Qed.
  Lemma arm_scalar_le : forall op l r,
    MLe (arm_scalar store call1 powf op l r) (arm_scalar store call2 powf op l r).
  Proof. intros op l r. unfold arm_scalar. destruct op; mle. Qed.

  Theorem eval_binop_le : forall op l r st,
    rle (eval_binop store call1 fa2 powf op l r st) (eval_binop store call2 fa2 powf op l r st).
  Proof.
    intros op l r st. unfold eval_binop.
    destruct op; try apply rle_refl;
      (destruct (is_list r && binop_eqb _ Into); [apply rle_refl|]);
      destruct l; destruct r;
      first [ apply arm_list_list_le | apply arm_list_scalar_le | apply arm_scalar_le ].
  Qed.
End BinopLe.

(* ---- the HOF built-ins ---- *)
Section HofLe.
  Variable call1 call2 : callback.
  Hypothesis Hcall : cb_le call1 call2.

  Ltac callstep o' s' :=
    let H := fresh "H" in let o1 := fresh "o1" in let s1 := fresh "s1" in
    let E1 := fresh "E1" in let E2 := fresh "E2" in
    pose proof (Hcall) as H;
    match goal with
    | |- context [call1 ?f ?f ?a ?s] =>
        specialize (H f f a s);
        destruct (call1 f f a s) as [o1 s1], (call2 f f a s) as [o' s'];
        destruct H as [H|H];
        [cbn in H; subst; left; reflexivity
        |apply pair_equal_spec in H; destruct H as [E1 E2]; subst o1 s1]
    end.

  Lemma map_loop_le : forall f two l i st,
    rle (map_loop call1 f two l i st) (map_loop call2 f two l i st).
  Proof.
    intros f two l; induction l as [|x l IH]; intros i st; cbn [map_loop]; [apply rle_refl|].
    callstep o2 s2. destruct o2; try apply rle_refl.
    specialize (IH (S i) s2).
    destruct (map_loop call1 f two l (S i) s2) as [p1 t1], (map_loop call2 f two l (S i) s2) as [p2 t2].
    destruct IH as [Hd|Heq]; [cbn in Hd; subst; left; reflexivity|inversion Heq; subst; apply rle_refl].
  Qed.
  Lemma filter_loop_le : forall f two l i st,
    rle (filter_loop call1 f two l i st) (filter_loop call2 f two l i st).
  Proof.
    intros f two l; induction l as [|x l IH]; intros i st; cbn [filter_loop]; [apply rle_refl|].
    callstep o2 s2. destruct o2; try apply rle_refl. destruct (as_bool a); try apply rle_refl.
    specialize (IH (S i) s2).
    destruct (filter_loop call1 f two l (S i) s2) as [p1 t1], (filter_loop call2 f two l (S i) s2) as [p2 t2].
    destruct IH as [Hd|Heq]; [cbn in Hd; subst; left; reflexivity|inversion Heq; subst; apply rle_refl].
  Qed.
  Lemma reduce_loop_le : forall f three l i acc st,
    rle (reduce_loop call1 f three l i acc st) (reduce_loop call2 f three l i acc st).
  Proof.
    intros f three l; induction l as [|x l IH]; intros i acc st; cbn [reduce_loop]; [apply rle_refl|].
    callstep o2 s2. destruct o2; try apply rle_refl. apply IH.
  Qed.
  Lemma every_loop_le : forall f two l i st,
    rle (every_loop call1 f two l i st) (every_loop call2 f two l i st).
  Proof.
    intros f two l; induction l as [|x l IH]; intros i st; cbn [every_loop]; [apply rle_refl|].
    callstep o2 s2. destruct o2; try apply rle_refl.
    destruct (as_bool a) as [[|]| | | |]; try apply rle_refl. apply IH.
  Qed.
  Lemma some_loop_le : forall f two l i st,
    rle (some_loop call1 f two l i st) (some_loop call2 f two l i st).
  Proof.
    intros f two l; induction l as [|x l IH]; intros i st; cbn [some_loop]; [apply rle_refl|].
    callstep o2 s2. destruct o2; try apply rle_refl.
    destruct (as_bool a) as [[|]| | | |]; try apply rle_refl. apply IH.
  Qed.
End HofLe.

Definition binop_le (bi : callback -> binop -> value -> value -> store -> outcome value * store) :=
  forall cb1 cb2, cb_le cb1 cb2 -> forall op l r st, rle (bi cb1 op l r st) (bi cb2 op l r st).
Definition builtin_le (bu : callback -> builtin -> list value -> store -> outcome value * store) :=
  forall cb1 cb2, cb_le cb1 cb2 -> forall b args st, rle (bu cb1 b args st) (bu cb2 b args st).

Section EvalLe.
  Variable release : bool.
  Variable bi : callback -> binop -> value -> value -> store -> outcome value * store.
  Variable bu : callback -> builtin -> list value -> store -> outcome value * store.
  Hypothesis Hbi : binop_le bi.
  Hypothesis Hbu : builtin_le bu.

  Section E.
  Variable ap1 ap2 : frames -> callback.
  Hypothesis Hap : forall fr, cb_le (ap1 fr) (ap2 fr).
  Notation ev1 := (evalE release bi ap1).
  Notation ev2 := (evalE release bi ap2).

  Definition le_ok (f1 f2 : cfg -> expr -> result) (e : expr) : Prop :=
    forall c, rle (f1 c e) (f2 c e).

  (* one evaluation step under the relation: either the left side is the depth error (and we
     are done as soon as the surrounding code propagates it), or both sides are equal *)
  Ltac estep H c o' c' :=
    let Hx := fresh "Hx" in let o1 := fresh "o1" in let c1 := fresh "c1" in
    let E1 := fresh "E1" in let E2 := fresh "E2" in
    pose proof (H c) as Hx;
    match type of Hx with
    | rle ?a ?b =>
        destruct a as [o1 c1], b as [o' c'];
        destruct Hx as [Hx|Hx];
        [cbn in Hx; subst; left; reflexivity
        |apply pair_equal_spec in Hx; destruct Hx as [E1 E2]; subst o1 c1]
    end.
  Ltac dres :=
    match goal with
    | |- rle (match ?o with Ok _ => _ | _ => _ end) _ => destruct o; try apply rle_refl
    | |- rle (let (_, _) := ?o in _) _ => destruct o
    end.

  Lemma evalL_le : forall f1 f2 l, Forall (le_ok f1 f2) l ->
    forall c, rle (evalL f1 c l) (evalL f2 c l).
  Proof.
    intros f1 f2 l HF; induction HF as [|x l Hx _ IH]; intros c; cbn [evalL]; [apply rle_refl|].
    estep Hx c o2 c2. dres.
    specialize (IH c2). destruct (evalL f1 c2 l) as [p1 t1], (evalL f2 c2 l) as [p2 t2].
    destruct IH as [Hd|Heq]; [cbn in Hd; subst; left; reflexivity|inversion Heq; subst; apply rle_refl].
  Qed.
  Lemma evalCL_le : forall f1 f2 (l : list (commented expr)),
    Forall (fun cm => le_ok f1 f2 (cnode cm)) l ->
    forall c, rle (evalCL f1 c l) (evalCL f2 c l).
  Proof.
    intros f1 f2 l HF; induction HF as [|[ld x tr] l Hx _ IH]; intros c; cbn [evalCL];
      [apply rle_refl|]. cbn [cnode] in Hx.
    estep Hx c o2 c2. dres.
    specialize (IH c2). destruct (evalCL f1 c2 l) as [p1 t1], (evalCL f2 c2 l) as [p2 t2].
    destruct IH as [Hd|Heq]; [cbn in Hd; subst; left; reflexivity|inversion Heq; subst; apply rle_refl].
  Qed.
  Lemma evalRecL_le : forall f1 f2 (l : list (commented rentry)),
    Forall (fun cm => Pentry (le_ok f1 f2) (cnode cm)) l ->
    forall c acc, rle (evalRecL f1 c acc l) (evalRecL f2 c acc l).
  Proof.
    intros f1 f2 l HF; induction HF as [|[ld [k v] tr] l Hx _ IH]; intros c acc; cbn [evalRecL];
      [apply rle_refl|]. cbn [cnode Pentry] in Hx. destruct Hx as [Hk Hv].
    destruct k as [key|ke|x|se]; cbn [Pkey] in Hk.
    - estep Hv c o2 c2. dres. apply IH.
    - estep Hk c o2 c2. dres. destruct (as_string a); try apply rle_refl.
      estep Hv c2 o3 c3. dres. apply IH.
    - destruct (lookup (snd c) x); [apply IH|apply rle_refl].
    - estep Hk c o2 c2. dres. apply IH.
  Qed.
  Lemma assign_value_le : forall f1 f2 x ve, le_ok f1 f2 ve ->
    forall c, rle (assign_value f1 c x ve) (assign_value f2 c x ve).
  Proof.
    intros f1 f2 x ve Hve c. unfold assign_value. estep Hve c o2 c2. apply rle_refl.
  Qed.
  Lemma assign_checked_le : forall f1 f2 x ve, le_ok f1 f2 ve ->
    forall c, rle (assign_checked f1 c x ve) (assign_checked f2 c x ve).
  Proof.
    intros f1 f2 x ve Hve c. unfold assign_checked. estep Hve c o2 c2. apply rle_refl.
  Qed.
  Lemma do_step_le : forall f1 f2 s, le_ok f1 f2 s ->
    (forall x ve, s = EAssign x ve -> le_ok f1 f2 ve) ->
    forall c, rle (do_step f1 c s) (do_step f2 c s).
  Proof.
    intros f1 f2 s Hs Hsub c. unfold do_step. destruct s; try apply Hs.
    destruct (mem x do_assign_keywords); [apply rle_refl|].
    apply assign_value_le. eapply Hsub; reflexivity.
  Qed.

  Theorem evalE_le : forall e c, rle (ev1 c e) (ev2 c e).
  Proof.
    intros e.
    enough (HH : le_ok ev1 ev2 e /\ (forall x ve, e = EAssign x ve -> le_ok ev1 ev2 ve)) by apply HH.
    induction e using expr_ind';
      (split; [intros c; cbn [Eval.evalE]|try (intros ? ? Heq; discriminate Heq)]);
      try apply rle_refl.
    - (* EList *)
      pose proof (evalCL_le ev1 ev2 items) as HL.
      assert (HF : Forall (fun cm => le_ok ev1 ev2 (cnode cm)) items).
      { eapply Forall_impl; [|eassumption]. intros a Ha; apply Ha. }
      specialize (HL HF c).
      destruct (evalCL ev1 c items) as [p1 t1], (evalCL ev2 c items) as [p2 t2].
      destruct HL as [Hd|Heq]; [cbn in Hd; subst; left; reflexivity|inversion Heq; subst; apply rle_refl].
    - (* ERec *)
      apply evalRecL_le. eapply Forall_impl; [|eassumption].
      intros [ld [k v] tr] Ha. cbn [cnode Pentry] in *. destruct Ha as [Hk Hv]. split; [|apply Hv].
      destruct k; cbn [Pkey] in *; auto; apply Hk.
    - (* ECond *)
      destruct IHe1 as [IH1 _], IHe2 as [IH2 _], IHe3 as [IH3 _].
      estep IH1 c o2 c2. dres.
      destruct (as_bool a) as [[|]| | | |]; try apply rle_refl; [apply IH2|apply IH3].
    - (* EDo *)
      match goal with
      | HF : Forall _ stmts, HR : _ /\ _ |- _ => rename HF into HFs; rename HR into HRet
      end.
      destruct ret as [ld rt tr]. cbn [cnode] in *.
      assert (HS : forall c0, rle (evalDoL ev1 c0 stmts) (evalDoL ev2 c0 stmts)).
      { induction HFs as [|[l1 s t1] l Hs _ IHl]; intros c0; cbn [evalDoL]; [apply rle_refl|].
        cbn [cnode] in Hs. destruct Hs as [Hs1 Hs2].
        pose proof (do_step_le ev1 ev2 s Hs1 Hs2) as Hd. estep Hd c0 o2 c2.
        dres. apply IHl. }
      estep HS (fst c, (FOwned, []) :: snd c) o2 c2.
      destruct o2.
      + destruct HRet as [Hr1 Hr2]. pose proof (do_step_le ev1 ev2 rt Hr1 Hr2) as Hd.
        estep Hd c2 o3 c3. apply rle_refl.
      + apply rle_refl.
      + left; reflexivity.
      + apply rle_refl.
      + apply rle_refl.
    - (* EAssign *)
      destruct IHe as [IH _].
      destruct (is_builtin_name x); [apply rle_refl|].
      destruct (mem x assign_keywords); [apply rle_refl|].
      destruct (contains (snd c) x); [apply rle_refl|].
      apply assign_checked_le. exact IH.
    - intros x0 ve Heq. inversion Heq; subst. apply IHe.
    - (* EOutput *) destruct IHe as [IH _]. apply IH.
    - (* ECall *)
      destruct IHe as [IH _].
      estep IH c o2 c2. dres.
      assert (HF : Forall (le_ok ev1 ev2) args).
      { eapply Forall_impl; [|eassumption]. intros a0 Ha; apply Ha. }
      pose proof (evalL_le ev1 ev2 args HF) as HL. estep HL c2 o3 c3.
      dres. destruct c3 as [st2 fr2].
      destruct (negb (is_function a)); [apply rle_refl|].
      pose proof (Hap fr2 a a (flatten_spreads a0) st2) as Ha.
      destruct (ap1 fr2 a a (flatten_spreads a0) st2) as [q1 u1],
               (ap2 fr2 a a (flatten_spreads a0) st2) as [q2 u2].
      destruct Ha as [Hd|Heq]; [cbn in Hd; subst; left; reflexivity|inversion Heq; subst; apply rle_refl].
    - (* EAccess *)
      destruct IHe1 as [IH1 _], IHe2 as [IH2 _].
      estep IH1 c o2 c2. dres.
      estep IH2 c2 o3 c3. apply rle_refl.
    - destruct IHe as [IH _]. estep IH c o2 c2. apply rle_refl.
    - (* EBin *)
      destruct IHe1 as [IH1 _], IHe2 as [IH2 _].
      estep IH1 c o2 c2. dres.
      estep IH2 c2 o3 c3. dres. destruct c3 as [st2 fr2].
      pose proof (Hbi (ap1 fr2) (ap2 fr2) (Hap fr2) op a a0 st2) as Hb.
      destruct (bi (ap1 fr2) op a a0 st2) as [q1 u1], (bi (ap2 fr2) op a a0 st2) as [q2 u2].
      destruct Hb as [Hd|Heq]; [cbn in Hd; subst; left; reflexivity|inversion Heq; subst; apply rle_refl].
    - destruct IHe as [IH _]. estep IH c o2 c2. apply rle_refl.
    - destruct IHe as [IH _]. estep IH c o2 c2. apply rle_refl.
    - destruct IHe as [IH _]. estep IH c o2 c2. apply rle_refl.
  Qed.
  End E.

  (* FunctionDef::call: one more level of depth budget can only turn a depth error into a
     proper result *)
  Lemma call_too_deep_le : forall cb, cb_le (fun _ f a s => call_too_deep f a s) cb ->
    True.
  Proof. trivial. Qed.

  Lemma AD_unfold : forall d fr,
    AD release bi bu d fr =
    apply_at bu
      (match d with
       | O => None
       | S d' => Some (evalE release bi (AD release bi bu d'),
                       match d' with
                       | O => fun _ f a s => call_too_deep f a s
                       | S d'' => AD release bi bu d'' fr
                       end)
       end) fr.
  Proof. intros [|d'] fr; reflexivity. Qed.

  Theorem AD_le : forall d fr, cb_le (AD release bi bu d fr) (AD release bi bu (S d) fr).
  Proof.
    intros d. induction d as [d IH] using lt_wf_ind. intros fr this f args st.
    rewrite (AD_unfold d), (AD_unfold (S d)). unfold apply_at.
    destruct (negb (check_arity f (Datatypes.length args))) eqn:Har; [apply rle_refl|].
    destruct d as [|d'].
    - left; reflexivity.
    - unfold call_passed. destruct f; try apply rle_refl.
      + (* lambda: body one level deeper on both sides *)
        destruct (bind_params _ _ _ _) as [local|]; [|apply rle_refl].
        match goal with |- rle (let '(_, _) := ?a in _) (let '(_, _) := ?b in _) =>
          assert (Hr : rle a b) end.
        { apply evalE_le. intros fr0. apply IH. lia. }
        match type of Hr with rle ?a ?b =>
          destruct a as [o1 [s1 f1]], b as [o2 [s2 f2]] end.
        destruct Hr as [Hd|Heq]; [cbn in Hd; subst; left; reflexivity|inversion Heq; subst; apply rle_refl].
      + (* built-in: callbacks two levels deeper on both sides *)
        apply Hbu. destruct d' as [|d''].
        * (* callbacks of the left side are past the guard *)
          intros t0 f0 a0 s0. unfold call_too_deep. rewrite (AD_unfold 0). unfold apply_at.
          destruct (check_arity f0 (Datatypes.length a0)); cbn [negb]; [left; reflexivity|apply rle_refl].
        * apply IH. lia.
  Qed.

  Theorem evalD_le_S : forall d c e,
    rle (evalD release bi bu d c e) (evalD release bi bu (S d) c e).
  Proof. intros d c e. unfold evalD. apply evalE_le. intros fr. apply AD_le. Qed.

  (* THE DEPTH THEOREM: a result other than the depth error does not depend on the budget *)
  Theorem evalD_depth_independent : forall d d' c e,
    d <= d' -> fst (evalD release bi bu d c e) <> ErrDepth ->
    evalD release bi bu d' c e = evalD release bi bu d c e.
  Proof.
    intros d d' c e Hle. induction Hle as [|m Hle IH]; intros Hne; [reflexivity|].
    specialize (IH Hne). destruct (evalD_le_S m c e) as [Hd|Heq].
    - rewrite IH in Hd. contradiction.
    - rewrite <- Heq. exact IH.
  Qed.

  Theorem applyD_depth_independent : forall d d' fr this f args st,
    d <= d' -> fst (AD release bi bu d fr this f args st) <> ErrDepth ->
    AD release bi bu d' fr this f args st = AD release bi bu d fr this f args st.
  Proof.
    intros d d' fr this f args st Hle. induction Hle as [|m Hle IH]; intros Hne; [reflexivity|].
    specialize (IH Hne). destruct (AD_le m fr this f args st) as [Hd|Heq].
    - rewrite IH in Hd. contradiction.
    - rewrite <- Heq. exact IH.
  Qed.
End EvalLe.
