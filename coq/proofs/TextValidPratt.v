(* TextValidPratt.v — validity of number literals through the Pratt stage (C01, extension PF2).

   valid_itemb i      every INum x inside the token stream item i (nested streams included) is a valid binary64
   pratt_preserves    for ANY operator table / infix map / prefix map and ANY fuel: if every number of the token
                      stream is valid then the expression pairs_to_expr_inner returns (when it returns Ok(e))
                      satisfies Valid.valid_expr — the closures only create ENum from INum (map_primary) and copy
                      sub-trees everywhere else (map_prefix / map_infix / map_postfix, list / record / do loops).
   Proof: simultaneous induction on the fuel of pexpr / ploop / map_postfix / primary / parse_items. *)
From Coq Require Import String List Bool Arith.
Require Import Blots.Num Blots.gen.Builtins Blots.Ast Blots.Outcome Blots.PrattTypes Blots.gen.PrecTable Blots.Pratt
               Blots.Valid.
Import ListNotations.
Local Open Scope list_scope.

(* ------------------------------------------------------------------ validity of token streams *)
Fixpoint valid_itemb (i : item) : bool :=
  let vs := fix vs (l : list item) : bool := match l with [] => true | x :: r => valid_itemb x && vs r end in
  match i with
  | INum x => valid_numb x
  | IExpr _ g => vs g
  | IList els =>
      (fix go (l : list lelem) : bool :=
         match l with [] => true | LCom _ :: r => go r | LItem g _ :: r => vs g && go r end) els
  | IRecord els =>
      (fix go (l : list relem) : bool :=
         match l with
         | [] => true
         | RCom _ :: r => go r
         | RPairI k v _ :: r => match k with RKDyn inner => vs inner | _ => true end && vs v && go r
         | RShortI _ _ :: r => go r
         | RSpreadI g _ :: r => vs g && go r
         end) els
  | ILambda _ body => vs body
  | ICond c t e => vs c && vs t && vs e
  | IDo els =>
      (fix go (l : list delem) : bool :=
         match l with
         | [] => true
         | DStmt g _ :: r => vs g && go r
         | DRet g :: r => vs g && go r
         | DComStmt _ _ :: r => go r
         | DCom _ :: r => go r
         end) els
  | IAssign _ v => vs v
  | IAccess inner => vs inner
  | ICall args =>
      (fix go (l : list (list item)) : bool := match l with [] => true | g :: r => vs g && go r end) args
  | IBadNum | IStr _ | IBool _ | INull | IIdent _ | IInRef _ | IOp _ | IDot _ => true
  end.
Fixpoint valid_itemsb (l : list item) : bool :=
  match l with [] => true | x :: r => valid_itemb x && valid_itemsb r end.
Fixpoint valid_lelsb (l : list lelem) : bool :=
  match l with [] => true | LCom _ :: r => valid_lelsb r | LItem g _ :: r => valid_itemsb g && valid_lelsb r end.
Definition valid_rkeyb (k : rkeyi) : bool := match k with RKDyn inner => valid_itemsb inner | _ => true end.
Fixpoint valid_relsb (l : list relem) : bool :=
  match l with
  | [] => true
  | RCom _ :: r => valid_relsb r
  | RPairI k v _ :: r => valid_rkeyb k && valid_itemsb v && valid_relsb r
  | RShortI _ _ :: r => valid_relsb r
  | RSpreadI g _ :: r => valid_itemsb g && valid_relsb r
  end.
Fixpoint valid_delsb (l : list delem) : bool :=
  match l with
  | [] => true
  | DStmt g _ :: r => valid_itemsb g && valid_delsb r
  | DRet g :: r => valid_itemsb g && valid_delsb r
  | DComStmt _ _ :: r => valid_delsb r
  | DCom _ :: r => valid_delsb r
  end.
Fixpoint valid_argsb (l : list (list item)) : bool :=
  match l with [] => true | g :: r => valid_itemsb g && valid_argsb r end.

Lemma vI_IExpr : forall b g, valid_itemb (IExpr b g) = valid_itemsb g. Proof. reflexivity. Qed.
Lemma vI_IList : forall els, valid_itemb (IList els) = valid_lelsb els. Proof. reflexivity. Qed.
Lemma vI_IRecord : forall els, valid_itemb (IRecord els) = valid_relsb els. Proof. reflexivity. Qed.
Lemma vI_ILambda : forall a g, valid_itemb (ILambda a g) = valid_itemsb g. Proof. reflexivity. Qed.
Lemma vI_ICond : forall c t e, valid_itemb (ICond c t e) = valid_itemsb c && valid_itemsb t && valid_itemsb e.
Proof. reflexivity. Qed.
Lemma vI_IDo : forall els, valid_itemb (IDo els) = valid_delsb els. Proof. reflexivity. Qed.
Lemma vI_IAssign : forall x v, valid_itemb (IAssign x v) = valid_itemsb v. Proof. reflexivity. Qed.
Lemma vI_IAccess : forall g, valid_itemb (IAccess g) = valid_itemsb g. Proof. reflexivity. Qed.
Lemma vI_ICall : forall args, valid_itemb (ICall args) = valid_argsb args. Proof. reflexivity. Qed.

Lemma valid_itemsb_app : forall a b, valid_itemsb (a ++ b) = valid_itemsb a && valid_itemsb b.
Proof. induction a as [|x a IH]; intro b; cbn [app valid_itemsb]; [reflexivity|]. rewrite IH, andb_assoc. reflexivity. Qed.
Lemma valid_itemsb_forall : forall l, valid_itemsb l = true <-> (forall i, In i l -> valid_itemb i = true).
Proof.
  induction l as [|x l IH]; cbn [valid_itemsb In]; [split; [intros _ i []|reflexivity]|].
  rewrite andb_true_iff, IH. split.
  - intros [Hx Hl] i [<-|Hi]; [exact Hx|apply Hl; exact Hi].
  - intro H. split; [apply H; left; reflexivity|intros i Hi; apply H; right; exact Hi].
Qed.

(* ------------------------------------------------------------------ validity of expressions, list forms *)
Fixpoint vcexprsb (l : list (commented expr)) : bool :=
  match l with [] => true | Cm _ a _ :: r => valid_exprb a && vcexprsb r end.
Fixpoint vrentriesb (l : list (commented rentry)) : bool :=
  match l with
  | [] => true
  | Cm _ (REntry k v) _ :: r =>
      (match k with KDyn a | KSpread a => valid_exprb a | KStatic _ | KShort _ => true end)
      && valid_exprb v && vrentriesb r
  end.
Fixpoint vexprsb (l : list expr) : bool :=
  match l with [] => true | a :: r => valid_exprb a && vexprsb r end.

Lemma vE_EList : forall l, valid_exprb (EList l) = vcexprsb l. Proof. reflexivity. Qed.
Lemma vE_ERec : forall l, valid_exprb (ERec l) = vrentriesb l. Proof. reflexivity. Qed.
Lemma vE_EDo : forall stmts ld a tr, valid_exprb (EDo stmts (Cm ld a tr)) = vcexprsb stmts && valid_exprb a.
Proof. reflexivity. Qed.
Lemma vE_ECall : forall f args, valid_exprb (ECall f args) = valid_exprb f && vexprsb args. Proof. reflexivity. Qed.
Lemma vcexprsb_app : forall a b, vcexprsb (a ++ b) = vcexprsb a && vcexprsb b.
Proof.
  induction a as [|[ld x tr] a IH]; intro b; cbn [app vcexprsb]; [reflexivity|]. rewrite IH, andb_assoc. reflexivity.
Qed.

(* AnyhowResult<SpannedExpr>: an Err carries no expression *)
Definition vtres (t : tres) : Prop := match t with Some e => valid_exprb e = true | None => True end.
Definition vlres {A} (f : A -> bool) (t : option A) : Prop := match t with Some l => f l = true | None => True end.

Lemma obind_Ok {A B} (x : outcome A) (f : A -> outcome B) v :
  obind x f = Ok v -> exists a, x = Ok a /\ f a = Ok v.
Proof. destruct x; cbn; intro H; try discriminate H. eexists; split; [reflexivity|exact H]. Qed.

(* ------------------------------------------------------------------ the element loops *)
Section Loops.
  Variable parse : list item -> outcome tres.
  Hypothesis parse_ok : forall its r, valid_itemsb its = true -> parse its = Ok r -> vtres r.

  Lemma list_loop_valid : forall els r, valid_lelsb els = true -> list_loop parse els = Ok r -> vlres vcexprsb r.
  Proof.
    induction els as [|[s|g eol] els IH]; intros r V H; cbn [list_loop valid_lelsb] in *.
    - injection H as <-. reflexivity.
    - eapply IH; eassumption.
    - apply andb_true_iff in V as [Vg Vr].
      apply obind_Ok in H as [e [He H]]. pose proof (parse_ok _ _ Vg He) as Ve.
      destruct e as [e'|]; [|injection H as <-; exact I].
      apply obind_Ok in H as [rr [Hr H]]. injection H as <-.
      specialize (IH _ Vr Hr). destruct rr as [rr|]; [|exact I].
      cbn [option_map vlres uncommented vcexprsb] in *. rewrite Ve, IH. reflexivity.
  Qed.

  Lemma key_of_valid : forall k r, valid_rkeyb k = true -> key_of parse k = Ok r ->
    match r with Some (KDyn a) | Some (KSpread a) => valid_exprb a = true | _ => True end.
  Proof.
    intros [s|s|inner] r V H; cbn [key_of valid_rkeyb] in *.
    - injection H as <-. exact I.
    - injection H as <-. exact I.
    - apply obind_Ok in H as [d [Hd H]]. injection H as <-. pose proof (parse_ok _ _ V Hd) as Vd.
      destruct d; cbn [option_map]; [exact Vd|exact I].
  Qed.

  Lemma rec_loop_valid : forall els r, valid_relsb els = true -> rec_loop parse els = Ok r -> vlres vrentriesb r.
  Proof.
    induction els as [|[s|k v eol|s eol|g eol] els IH]; intros r V H; cbn [rec_loop valid_relsb] in *.
    - injection H as <-. reflexivity.
    - eapply IH; eassumption.
    - apply andb_true_iff in V as [V Vr]. apply andb_true_iff in V as [Vk Vv].
      apply obind_Ok in H as [key [Hk H]]. pose proof (key_of_valid _ _ Vk Hk) as Vkey.
      destruct key as [key'|]; [|injection H as <-; exact I].
      apply obind_Ok in H as [val [Hv H]]. pose proof (parse_ok _ _ Vv Hv) as Vval.
      destruct val as [val'|]; [|injection H as <-; exact I].
      apply obind_Ok in H as [rr [Hr H]]. injection H as <-.
      specialize (IH _ Vr Hr). destruct rr as [rr|]; [|exact I].
      cbn [option_map vlres uncommented vrentriesb vtres] in *. rewrite Vval, IH.
      destruct key'; try reflexivity; rewrite Vkey; reflexivity.
    - apply obind_Ok in H as [rr [Hr H]]. injection H as <-.
      specialize (IH _ V Hr). destruct rr as [rr|]; [|exact I].
      cbn [option_map vlres uncommented vrentriesb valid_exprb] in *. rewrite IH. reflexivity.
    - apply andb_true_iff in V as [Vg Vr].
      apply obind_Ok in H as [e [He H]]. pose proof (parse_ok _ _ Vg He) as Ve.
      destruct e as [e'|]; [|injection H as <-; exact I].
      apply obind_Ok in H as [rr [Hr H]]. injection H as <-.
      specialize (IH _ Vr Hr). destruct rr as [rr|]; [|exact I].
      cbn [option_map vlres uncommented vrentriesb valid_exprb vtres] in *. rewrite Ve, IH. reflexivity.
  Qed.

  Lemma do_loop_valid : forall els stmts ret r, valid_delsb els = true ->
    vcexprsb stmts = true -> valid_exprb (cnode ret) = true ->
    do_loop parse els stmts ret = Ok r -> vtres r.
  Proof.
    induction els as [|[g c|s c|g|s] els IH]; intros stmts ret r V Vs Vret H; cbn [do_loop valid_delsb] in *.
    - injection H as <-. destruct ret as [ld a tr]. cbn [vtres cnode] in *. rewrite vE_EDo, Vs, Vret. reflexivity.
    - apply andb_true_iff in V as [Vg Vr].
      apply obind_Ok in H as [e [He H]]. pose proof (parse_ok _ _ Vg He) as Ve.
      destruct e as [e'|]; [|injection H as <-; exact I].
      eapply IH; [exact Vr| |exact Vret|exact H].
      rewrite vcexprsb_app, Vs. cbn [uncommented vcexprsb vtres] in *. rewrite Ve. reflexivity.
    - eapply IH; eassumption.
    - apply andb_true_iff in V as [Vg Vr].
      apply obind_Ok in H as [e [He H]]. pose proof (parse_ok _ _ Vg He) as Ve.
      destruct e as [e'|]; [|injection H as <-; exact I].
      eapply IH; [exact Vr|exact Vs| |exact H]. exact Ve.
    - eapply IH; eassumption.
  Qed.

  Lemma omapM_valid : forall args r, valid_argsb args = true -> omapM parse args = Ok r -> vlres vexprsb r.
  Proof.
    induction args as [|g args IH]; intros r V H; cbn [omapM valid_argsb] in *.
    - injection H as <-. reflexivity.
    - apply andb_true_iff in V as [Vg Vr].
      apply obind_Ok in H as [e [He H]]. pose proof (parse_ok _ _ Vg He) as Ve.
      destruct e as [e'|]; [|injection H as <-; exact I].
      apply obind_Ok in H as [rr [Hr H]]. injection H as <-.
      specialize (IH _ Vr Hr). destruct rr as [rr|]; [|exact I].
      cbn [option_map vlres vexprsb vtres] in *. rewrite Ve, IH. reflexivity.
  Qed.
End Loops.

(* ------------------------------------------------------------------ the Pratt loop and its closures *)
Section Parser.
  Variable tbl : ops_map.
  Variable imap : list (oprule * binop).
  Variable pmap : list (oprule * prefix_ctor).
  Notation pexpr' := (pexpr tbl imap pmap).
  Notation ploop' := (ploop tbl imap pmap).
  Notation map_postfix' := (map_postfix tbl imap pmap).
  Notation primary' := (primary tbl imap pmap).
  Notation parse_items' := (parse_items tbl imap pmap).

  Lemma map_prefix_valid : forall r rhs e, vtres rhs -> map_prefix pmap r rhs = Ok e -> vtres e.
  Proof.
    intros r rhs e V H. unfold map_prefix in H. destruct (assoc_find r pmap) as [[u|]|]; try discriminate H;
      injection H as <-; destruct rhs; cbn [option_map vtres valid_exprb] in *; auto.
  Qed.
  Lemma map_infix_valid : forall lhs r rhs e, vtres lhs -> vtres rhs -> map_infix imap lhs r rhs = Ok e -> vtres e.
  Proof.
    intros lhs r rhs e Vl Vr H. unfold map_infix in H. destruct (assoc_find r imap); [|discriminate H].
    injection H as <-. destruct lhs, rhs; cbn [vtres valid_exprb] in *; auto. rewrite Vl, Vr. reflexivity.
  Qed.

  Definition P_pexpr (fuel : nat) : Prop := forall rbp its r,
    valid_itemsb its = true -> pexpr' fuel rbp its = Ok r -> vtres (fst r) /\ valid_itemsb (snd r) = true.
  Definition P_ploop (fuel : nat) : Prop := forall rbp lhs its r,
    vtres lhs -> valid_itemsb its = true -> ploop' fuel rbp lhs its = Ok r ->
    vtres (fst r) /\ valid_itemsb (snd r) = true.
  Definition P_post (fuel : nat) : Prop := forall lhs pr0 r,
    vtres lhs -> valid_itemb pr0 = true -> map_postfix' fuel lhs pr0 = Ok r -> vtres r.
  Definition P_prim (fuel : nat) : Prop := forall pr0 r,
    valid_itemb pr0 = true -> primary' fuel pr0 = Ok r -> vtres r.
  Definition P_items (fuel : nat) : Prop := forall its r,
    valid_itemsb its = true -> parse_items' fuel its = Ok r -> vtres r.

  Lemma pratt_all_valid : forall fuel, P_pexpr fuel /\ P_ploop fuel /\ P_post fuel /\ P_prim fuel /\ P_items fuel.
  Proof.
    induction fuel as [|f [IHe [IHl [IHpo [IHpr IHit]]]]].
    { unfold P_pexpr, P_ploop, P_post, P_prim, P_items; repeat split; intros; match goal with H : _ = Ok _ |- _ => discriminate H end. }
    split; [|split; [|split; [|split]]].
    - (* pexpr *)
      intros rbp its r V H. cbn [pexpr] in H. destruct its as [|pr0 rest]; [discriminate H|].
      cbn [valid_itemsb] in V. apply andb_true_iff in V as [V0 Vrest].
      apply obind_Ok in H as [lr [Hlr H]].
      assert (Vlr : vtres (fst lr) /\ valid_itemsb (snd lr) = true).
      { destruct (item_op pr0) as [r0|].
        - destruct (ops_get tbl r0) as [[[| |a] p]|]; try discriminate Hlr.
          apply obind_Ok in Hlr as [rr [Hrr Hlr]]. apply obind_Ok in Hlr as [e [He Hlr]]. injection Hlr as <-.
          destruct (IHe _ _ _ Vrest Hrr) as [V1 V2]. cbn [fst snd]. split; [|exact V2].
          eapply map_prefix_valid; [exact V1|exact He].
        - apply obind_Ok in Hlr as [e [He Hlr]]. injection Hlr as <-. cbn [fst snd]. split; [|exact Vrest].
          eapply IHpr; eassumption. }
      destruct Vlr as [V1 V2]. eapply IHl; eassumption.
    - (* ploop *)
      intros rbp lhs its r Vl V H. cbn [ploop] in H.
      apply obind_Ok in H as [l [Hl H]].
      destruct (Nat.ltb rbp l); [|injection H as <-; cbn [fst snd]; split; assumption].
      destruct its as [|pr0 rest]; [discriminate H|].
      cbn [valid_itemsb] in V. apply andb_true_iff in V as [V0 Vrest].
      destruct (item_op pr0) as [r0|]; [|discriminate H].
      destruct (ops_get tbl r0) as [[[| |a] p]|]; try discriminate H.
      + apply obind_Ok in H as [e [He H]]. eapply IHl; [|exact Vrest|exact H]. eapply IHpo; eassumption.
      + apply obind_Ok in H as [rr [Hrr H]]. apply obind_Ok in H as [e [He H]].
        destruct (IHe _ _ _ Vrest Hrr) as [V1 V2].
        eapply IHl; [|exact V2|exact H]. eapply map_infix_valid; [exact Vl|exact V1|exact He].
    - (* map_postfix *)
      intros lhs pr0 r Vl V H. cbn [map_postfix] in H.
      destruct pr0; try discriminate H.
      + destruct r0; try discriminate H. injection H as <-. destruct lhs; cbn [option_map vtres valid_exprb] in *; auto.
      + rewrite vI_IAccess in V. apply obind_Ok in H as [i [Hi H]]. injection H as <-.
        pose proof (IHit _ _ V Hi) as Vi. destruct i, lhs; cbn [vtres valid_exprb] in *; auto.
        rewrite Vl, Vi. reflexivity.
      + injection H as <-. destruct lhs; cbn [option_map vtres valid_exprb] in *; auto.
      + rewrite vI_ICall in V. apply obind_Ok in H as [a [Ha H]]. injection H as <-.
        pose proof (omapM_valid _ IHit _ _ V Ha) as Va. destruct a, lhs; cbn [vtres vlres] in *; auto.
        rewrite vE_ECall, Vl, Va. reflexivity.
    - (* primary *)
      intros pr0 r V H. cbn [primary] in H.
      destruct pr0; try discriminate H.
      + injection H as <-. exact V.
      + injection H as <-. exact I.
      + injection H as <-. reflexivity.
      + injection H as <-. reflexivity.
      + injection H as <-. reflexivity.
      + injection H as <-. cbn [vtres]. destruct (builtin_of_name s); reflexivity.
      + injection H as <-. reflexivity.
      + rewrite vI_IExpr in V. eapply IHit; eassumption.
      + rewrite vI_IList in V. apply obind_Ok in H as [rr [Hr H]]. injection H as <-.
        pose proof (list_loop_valid _ IHit _ _ V Hr) as Vr. destruct rr; cbn [option_map vtres vlres] in *; auto.
      + rewrite vI_IRecord in V. apply obind_Ok in H as [rr [Hr H]]. injection H as <-.
        pose proof (rec_loop_valid _ IHit _ _ V Hr) as Vr. destruct rr; cbn [option_map vtres vlres] in *; auto.
      + rewrite vI_ILambda in V. apply obind_Ok in H as [b [Hb H]]. injection H as <-.
        pose proof (IHit _ _ V Hb) as Vb. destruct b; cbn [option_map vtres valid_exprb] in *; auto.
      + rewrite vI_ICond in V. apply andb_true_iff in V as [V Ve]. apply andb_true_iff in V as [Vc Vt].
        apply obind_Ok in H as [c' [Hc H]]. pose proof (IHit _ _ Vc Hc) as Vc'.
        destruct c' as [c''|]; [|injection H as <-; exact I].
        apply obind_Ok in H as [t' [Ht H]]. pose proof (IHit _ _ Vt Ht) as Vt'.
        destruct t' as [t''|]; [|injection H as <-; exact I].
        apply obind_Ok in H as [e' [He H]]. pose proof (IHit _ _ Ve He) as Ve'. injection H as <-.
        destruct e'; cbn [option_map vtres valid_exprb] in *; auto. rewrite Vc', Vt', Ve'. reflexivity.
      + rewrite vI_IDo in V. eapply (do_loop_valid _ IHit); [exact V| | |exact H]; reflexivity.
      + rewrite vI_IAssign in V. apply obind_Ok in H as [v' [Hv H]]. injection H as <-.
        pose proof (IHit _ _ V Hv) as Vv. destruct v'; cbn [option_map vtres valid_exprb] in *; auto.
    - (* parse_items *)
      intros its r V H. cbn [parse_items] in H. apply obind_Ok in H as [rr [Hrr H]]. injection H as <-.
      apply (IHe _ _ _ V Hrr).
  Qed.

  Theorem parse_items_valid : forall fuel its e,
    valid_itemsb its = true -> parse_items' fuel its = Ok (Some e) -> valid_expr e.
  Proof. intros fuel its e V H. exact (proj2 (proj2 (proj2 (proj2 (pratt_all_valid fuel)))) _ _ V H). Qed.
End Parser.

(* the parser the crate uses *)
Theorem pratt_impl_valid : forall its e, valid_itemsb its = true -> pratt_impl its = Ok (Some e) -> valid_expr e.
Proof. intros its e V H. unfold pratt_impl, pratt in H. eapply parse_items_valid; eassumption. Qed.
