(* FmtItems.v — layout_preserves_items (property C07): at every width and indentation, every layout
   of formatter.rs (Formatter.v: format_expr_impl, format_single_line, format_multiline and all the
   layout functions) denotes the SAME pest token stream as the one-line printer expr_to_source
   (Printer.v print_items): the layouts call needs_parens_in_binop / needs_parens_in_postfix /
   lambda_body_needs_parens / needs_parens_in_unary for the same parent/child pairs as
   expr_to_source does, and protect_leading_minus (decided on the laid-out TEXT) agrees with the
   one-line printer's do-block rule (decided on the one-line text), because no layout changes the
   first character class of what it prints (`lead3`).

   Two points where a layout decides on its own and the proof needs a fact about the oracles:
   - format_lambda does not ask lambda_body_needs_parens when the body is a do-block
     (hypothesis HBdo: the oracle answers false there; true of lbnp by computation);
   - format_call_multiline / format_single_line ask needs_parens_in_postfix for a callee where
     Printer.v's policy has the separate field pC (hypothesis HC: pC = pP; true of policy_new). *)
From Coq Require Import String Ascii List Bool Arith Lia.
Require Import Blots.Num Blots.gen.Builtins Blots.Ast Blots.Outcome Blots.PrattTypes Blots.gen.PrecTable
               Blots.Pratt Blots.PrattRender Blots.Printer Blots.Formatter Blots.FmtTokens
               Blots.proofs.PrattAdequacy Blots.proofs.PrattRT Blots.proofs.PrintText Blots.proofs.PrintRT.
Import ListNotations.
Local Open Scope list_scope.

(* ------------------------------------------------------------------ how a text starts *)
Inductive l3 := LEmpty | LMinus | LOther.
Definition lead3 (s : string) : l3 :=
  match s with
  | EmptyString => LEmpty
  | String c _ => if Ascii.eqb c "-" then LMinus else LOther
  end.
Definition l3cat (a b : l3) : l3 := match a with LEmpty => b | _ => a end.

Lemma lead3_app : forall a b, lead3 (a ++ b)%string = l3cat (lead3 a) (lead3 b).
Proof. intros [|c a] b; [reflexivity|]. cbn. destruct (Ascii.eqb c "-"); reflexivity. Qed.
Lemma l3cat_other : forall b, l3cat LOther b = LOther.
Proof. reflexivity. Qed.
Lemma l3cat_assoc : forall a b c, l3cat (l3cat a b) c = l3cat a (l3cat b c).
Proof. intros [| |] b c; reflexivity. Qed.

Lemma fmt_minus_lead3 : forall s,
  Formatter.starts_with_minus s = match lead3 s with LMinus => true | _ => false end.
Proof. intros [|c s]; [reflexivity|]. cbn. destruct (Ascii.eqb c "-"); reflexivity. Qed.
Lemma prt_minus_lead3 : forall s,
  Printer.starts_minus s = match lead3 s with LMinus => true | _ => false end.
Proof.
  intros [|c s]; [reflexivity|]. cbn [starts_minus lead3].
  change a_minus with "-"%char. destruct (Ascii.eqb c "-"); reflexivity.
Qed.

Lemma render_app : forall a b, render (a ++ b) = (render a ++ render b)%string.
Proof.
  induction a as [|p a IH]; intro b; [reflexivity|].
  cbn [app render]. rewrite IH. symmetry. apply append_assoc.
Qed.
Definition dlead (d : doc) : l3 := lead3 (render d).
Lemma dlead_app : forall a b, dlead (a ++ b) = l3cat (dlead a) (dlead b).
Proof. intros a b. unfold dlead. rewrite render_app. apply lead3_app. Qed.
Lemma dlead_cons : forall p d, dlead (p :: d) = l3cat (lead3 (render_piece p)) (dlead d).
Proof. intros p d. unfold dlead. cbn [render]. apply lead3_app. Qed.
Lemma dlead_wrap : forall b d, dlead (wrap_parens b d) = if b then LOther else dlead d.
Proof. intros [|] d; reflexivity. Qed.
Lemma lead3_paren_s : forall b s, lead3 (paren_s b s) = if b then LOther else lead3 s.
Proof. intros [|] s; reflexivity. Qed.

(* ------------------------------------------------------------------ list helpers *)
Lemma map_fix_exprs : forall (f : expr -> list item) (g : expr -> list item) args,
  Forall (fun a => f a = g a) args ->
  map f args = (fix go (l : list expr) : list (list item) :=
                  match l with [] => [] | a :: l' => g a :: go l' end) args.
Proof.
  intros f g args H. induction H as [|a l Ha _ IH]; [reflexivity|].
  cbn [map]. rewrite Ha, IH. reflexivity.
Qed.

Lemma has_comments_plain : forall A (c : commented A), plain_cm c = true -> has_comments c = false.
Proof. intros A [[|] n [|]]; cbn; try discriminate; reflexivity. Qed.

Section Generic.
  Variable fx : fixes.
  Variable pol : policy.
  Variable numtxt : num -> string.
  Variable O : oracles.
  Variable w : nat.
  Variable orl : expr -> string -> list item.
  Notation pt := (print_text fx pol numtxt).
  Notation pi := (print_items fx pol numtxt).
  Notation fsi := (fsl_items O pi key_item).
  Notation fi := (fmt_items O pi key_item true orl w).
  Notation fd := (fmtd O w).

  (* the interface: what the formatter's imports must be for the theorem *)
  Hypothesis Hdom : fx_dominus fx = true.
  Hypothesis HL : forall op c, o_needs_parens O op c true = pL pol op c.
  Hypothesis HR : forall op c, o_needs_parens O op c false = pR pol op c.
  Hypothesis HP : forall c, o_postfix_parens O c = pP pol c.
  Hypothesis HC : forall c, pC pol c = pP pol c.
  Hypothesis HB : forall c, o_lambda_body_parens O c = pB pol c.
  Hypothesis HBdo : forall s r, pB pol (EDo s r) = false.
  Hypothesis HU : forall c, o_unary_parens O c = pU pol c.
  Hypothesis Hlead : forall e, lead3 (o_e2s O e) = lead3 (pt e).

  (* ---------------------------------------------------------------- first character: single line *)
  Lemma lead_args_part : forall args body,
    (match args with [AReq x] => name_ok x | _ => true end && lam_ok body)%bool = true ->
    forall rest, lead3 (lambda_args_part args ++ rest)%string = LOther \/
                 (lambda_args_part args = EmptyString).
  Proof.
    intros args body H rest. apply andb_prop in H. destruct H as [H _].
    destruct args as [|[x|x|x] [|b args']]; try (left; reflexivity).
    cbn [lambda_args_part]. destruct x as [|c x]; [right; reflexivity|left].
    unfold name_ok in H. rewrite prt_minus_lead3 in H. cbn in H |- *.
    destruct (Ascii.eqb c "-"); [discriminate|reflexivity].
  Qed.

  Lemma lead_fsl : forall e, lam_ok e = true -> lead3 (fsl O e) = lead3 (pt e).
  Proof.
    induction e as [x|s|b| |x|x|b|items HF|entries HF|args body IHb|c t1 e IHc IHt IHe|stmts ret HF Hret
                   |x v IHv|e IHe|f args IHf HF|e i IHe IHi|e f IHe|o l r IHl IHr|uo e IHe|e IHe|e IHe]
      using expr_ind'; intro Hl; try (apply Hlead).
    - (* EList *) cbn [fsl]. destruct (existsb has_comments items); reflexivity.
    - (* ERec *) cbn [fsl]. destruct (existsb has_comments entries); reflexivity.
    - (* ELam *)
      cbn [fsl]. cbn [lam_ok] in Hl.
      destruct (lead_args_part args body Hl (" => " ++
        (if o_lambda_body_parens O body then "(" ++ fsl O body ++ ")" else fsl O body))%string) as [E|E].
      + exact E.
      + rewrite E. reflexivity.
    - (* EAssign *)
      cbn [fsl print_text]. rewrite !lead3_app. destruct (lead3 x); reflexivity.
    - (* EOutput *) reflexivity.
    - (* ECall *)
      cbn [lam_ok] in Hl. apply andb_prop in Hl. destruct Hl as [Hf _].
      cbn [fsl print_text]. rewrite !lead3_app.
      rewrite HP, HC.
      change (if pP pol f then ("(" ++ fsl O f ++ ")")%string else fsl O f) with (paren_s (pP pol f) (fsl O f)).
      rewrite !lead3_paren_s, (IHf Hf). reflexivity.
  Qed.

  (* ---------------------------------------------------------------- first character: every layout *)
  Lemma fmtd_unfold : forall e i, fd e i = impl_doc O w fd e i.
  Proof. intros e i. destruct e; reflexivity. Qed.

  Lemma lead_cond_doc : forall rec fc ft el i, dlead (cond_doc w rec fc ft el i) = LOther.
  Proof.
    intros rec fc ft el i.
    destruct el; cbn [cond_doc];
      match goal with |- context [if ?b then _ else _] => destruct b end; reflexivity.
  Qed.

  Lemma lead_opaque : forall e s, dlead [Opaque e s] = lead3 s.
  Proof. intros e s. unfold dlead. cbn [render render_piece]. rewrite append_nil_r. reflexivity. Qed.

  Ltac fits_or_multi e Hl :=
    rewrite fmtd_unfold; unfold impl_doc;
    match goal with |- context [if ?b then _ else _] => destruct b end;
    [rewrite lead_opaque; apply lead_fsl; exact Hl|].

  Ltac leaf_multi :=
    unfold multiline_doc;
    match goal with
    | |- context [if ?b then _ else _] => destruct b; rewrite lead_opaque; apply Hlead
    | _ => rewrite lead_opaque; apply Hlead
    end.

  Lemma lead_fmtd : forall e, lam_ok e = true -> forall j, dlead (fd e j) = lead3 (pt e).
  Proof.
    induction e as [x|s|b| |x|x|b|items HF|entries HF|args body IHb|c t1 e IHc IHt IHe|stmts ret HF Hret
                   |x v IHv|e IHe|f args IHf HF|e i IHe IHi|e f IHe|o l r IHl IHr|uo e IHe|e IHe|e IHe]
      using expr_ind'; intros Hl j.
    - fits_or_multi (ENum x) Hl. leaf_multi.
    - fits_or_multi (EStr s) Hl. leaf_multi.
    - fits_or_multi (EBool b) Hl. leaf_multi.
    - fits_or_multi ENull Hl. leaf_multi.
    - fits_or_multi (EId x) Hl. leaf_multi.
    - fits_or_multi (EInRef x) Hl. leaf_multi.
    - fits_or_multi (EBuiltin b) Hl. leaf_multi.
    - (* EList *) fits_or_multi (EList items) Hl. unfold multiline_doc, list_doc. destruct items; reflexivity.
    - (* ERec *) fits_or_multi (ERec entries) Hl. unfold multiline_doc, record_doc. destruct entries; reflexivity.
    - (* ELam *)
      rewrite fmtd_unfold. unfold impl_doc, lambda_doc. cbn [lam_ok] in Hl.
      assert (A : forall rest d, lead3 rest = LOther ->
                  dlead (Code (lambda_args_part args ++ rest)%string :: d) = LOther).
      { intros rest d Hr. rewrite dlead_cons. cbn [render_piece].
        destruct (lead_args_part args body Hl rest) as [E|E].
        - rewrite E. reflexivity.
        - rewrite E. cbn [append]. rewrite Hr. reflexivity. }
      destruct (is_do body).
      + cbn [app]. rewrite append_assoc. apply A. reflexivity.
      + match goal with |- context [if ?b then _ else _] => destruct b end.
        * cbn [app]. rewrite append_assoc. apply A. reflexivity.
        * cbn [app]. apply A. reflexivity.
    - (* ECond *) fits_or_multi (ECond c t1 e) Hl. unfold multiline_doc. apply lead_cond_doc.
    - (* EDo *) rewrite fmtd_unfold. destruct ret. reflexivity.
    - (* EAssign *)
      fits_or_multi (EAssign x v) Hl. unfold multiline_doc. rewrite dlead_cons. cbn [render_piece print_text].
      rewrite !lead3_app. destruct (lead3 x); reflexivity.
    - (* EOutput *) fits_or_multi (EOutput e) Hl. reflexivity.
    - (* ECall *)
      fits_or_multi (ECall f args) Hl. unfold multiline_doc, call_doc.
      cbn [lam_ok] in Hl. apply andb_prop in Hl. destruct Hl as [Hf _].
      cbn [print_text]. rewrite !lead3_app, lead3_paren_s, HC.
      destruct args as [|a args].
      + rewrite dlead_app, dlead_wrap, HP, (IHf Hf). destruct (pP pol f); reflexivity.
      + rewrite dlead_app, dlead_wrap, HP, (IHf Hf). destruct (pP pol f); reflexivity.
    - (* EAccess *)
      fits_or_multi (EAccess e i) Hl. unfold multiline_doc.
      cbn [lam_ok] in Hl. apply andb_prop in Hl. destruct Hl as [Hf _].
      match goal with |- context [if ?b then _ else _] => destruct b end; [|rewrite lead_opaque; apply Hlead].
      cbn [print_text]. rewrite !lead3_app, lead3_paren_s, dlead_app, dlead_wrap, HP, (IHe Hf).
      destruct (pP pol e); reflexivity.
    - (* EDot *)
      fits_or_multi (EDot e f) Hl. unfold multiline_doc. cbn [lam_ok] in Hl.
      match goal with |- context [if ?b then _ else _] => destruct b end; [|rewrite lead_opaque; apply Hlead].
      cbn [print_text]. rewrite !lead3_app, lead3_paren_s, dlead_app, dlead_wrap, HP, (IHe Hl).
      destruct (pP pol e); reflexivity.
    - (* EBin *)
      fits_or_multi (EBin o l r) Hl. unfold multiline_doc, binop_doc.
      cbn [lam_ok] in Hl. apply andb_prop in Hl. destruct Hl as [Hf _].
      cbn [print_text]. rewrite !lead3_app, lead3_paren_s.
      repeat match goal with |- context [if ?b then _ else _] =>
               lazymatch b with
               | pL _ _ _ => fail
               | _ => destruct b
               end end;
        rewrite dlead_app, dlead_wrap, HL, (IHl Hf); destruct (pL pol o l); reflexivity.
    - (* EUn *)
      fits_or_multi (EUn uo e) Hl. unfold multiline_doc.
      match goal with |- context [if ?b then _ else _] => destruct b end; [|rewrite lead_opaque; apply Hlead].
      destruct uo; reflexivity.
    - (* EFact *)
      fits_or_multi (EFact e) Hl. unfold multiline_doc. cbn [lam_ok] in Hl.
      match goal with |- context [if ?b then _ else _] => destruct b end; [|rewrite lead_opaque; apply Hlead].
      cbn [print_text]. rewrite !lead3_app, lead3_paren_s, dlead_app, dlead_wrap, HP, (IHe Hl).
      destruct (pP pol e); reflexivity.
    - (* ESpread *)
      fits_or_multi (ESpread e) Hl. unfold multiline_doc.
      match goal with |- context [if ?b then _ else _] => destruct b end; [|rewrite lead_opaque; apply Hlead].
      reflexivity.
  Qed.

  Lemma protect_agrees : forall n inner its k,
    lam_ok n = true ->
    protect_items (fd n inner) its (Nat.eqb k 0) = wrapb (dominus_text fx k (pt n)) its.
  Proof.
    intros n inner its k Hl. unfold protect_items, dominus_text.
    rewrite Hdom, fmt_minus_lead3, prt_minus_lead3.
    change (lead3 (render (fd n inner))) with (dlead (fd n inner)).
    rewrite (lead_fmtd n Hl inner). reflexivity.
  Qed.

  (* ---------------------------------------------------------------- items: single line *)
  Definition SI (e : expr) : Prop := wf e = true -> fsi e = pi e.

  Lemma fsl_items_all : forall e, SI e.
  Proof.
    induction e as [x|s|b| |x|x|b|items HF|entries HF|args body IHb|c t1 e IHc IHt IHe|stmts ret HF Hret
                   |x v IHv|e IHe|f args IHf HF|e i IHe IHi|e f IHe|o l r IHl IHr|uo e IHe|e IHe|e IHe]
      using expr_ind'; intro Hwf; try reflexivity.
    - (* EList *)
      cbn [wf] in Hwf. cbn [fsl_items print_items].
      assert (E : existsb has_comments items = false /\
                  map (fun c => LItem (fsi (cnode c)) None) items
                  = (fix go (l : list (commented expr)) : list lelem :=
                       match l with [] => [] | Cm _ x _ :: l' => LItem (pi x) None :: go l' end) items).
      { induction items as [|c items IH]; [split; reflexivity|].
        apply andb_prop in Hwf. destruct Hwf as [Hwf Hrest]. apply andb_prop in Hwf. destruct Hwf as [Hpl Hw].
        inversion HF as [|? ? Hc HF']; subst. destruct (IH HF' Hrest) as [E1 E2].
        destruct c as [ld x tr]. cbn [Pcm] in Hc. split.
        - cbn [existsb]. rewrite (has_comments_plain _ _ Hpl), E1. reflexivity.
        - cbn [map cnode]. rewrite (Hc Hw), E2. reflexivity. }
      destruct E as [E1 E2]. rewrite E1, E2. reflexivity.
    - (* ERec *)
      cbn [wf] in Hwf. cbn [fsl_items print_items].
      assert (E : existsb has_comments entries = false /\
                  map (fun c => entry_relem key_item fsi (cnode c)) entries
                  = (fix go (l : list (commented rentry)) : list relem :=
                       match l with
                       | [] => []
                       | Cm _ (REntry k v) _ :: l' =>
                           match k with
                           | KStatic s => RPairI (key_item s) (pi v) None
                           | KDyn d => RPairI (RKDyn [IExpr false (pi d)]) (pi v) None
                           | KShort s => RShortI s None
                           | KSpread x => RSpreadI (pi x) None
                           end :: go l'
                       end) entries).
      { induction entries as [|c entries IH]; [split; reflexivity|].
        apply andb_prop in Hwf. destruct Hwf as [Hwf Hrest]. apply andb_prop in Hwf. destruct Hwf as [Hpl Hw].
        inversion HF as [|? ? Hc HF']; subst. destruct (IH HF' Hrest) as [E1 E2].
        destruct c as [ld [k v] tr]. cbn [Pentry Pkey] in Hc. destruct Hc as [Hk Hv]. split.
        - cbn [existsb]. rewrite (has_comments_plain _ _ Hpl), E1. reflexivity.
        - cbn [map cnode entry_relem]. rewrite E2.
          destruct k as [s|d|s|x].
          + rewrite (Hv Hw). reflexivity.
          + apply andb_prop in Hw. destruct Hw as [Hd Hv']. rewrite (Hk Hd), (Hv Hv'). reflexivity.
          + reflexivity.
          + apply andb_prop in Hw. destruct Hw as [Hx _]. rewrite (Hk Hx). reflexivity. }
      destruct E as [E1 E2]. rewrite E1, E2. reflexivity.
    - (* ELam *) cbn [wf] in Hwf. cbn [fsl_items print_items]. rewrite HB, (IHb Hwf). reflexivity.
    - (* EAssign *) cbn [wf] in Hwf. cbn [fsl_items print_items]. rewrite (IHv Hwf). reflexivity.
    - (* EOutput *) discriminate.
    - (* ECall *)
      cbn [wf] in Hwf. apply andb_prop in Hwf. destruct Hwf as [Hwf1 Hwf2].
      cbn [fsl_items print_items]. rewrite HP, HC, (IHf Hwf1). do 3 f_equal.
      apply map_fix_exprs.
      clear - HF Hwf2. induction args as [|a args IH]; [constructor|].
      apply andb_prop in Hwf2. destruct Hwf2 as [Ha Hr]. inversion HF as [|? ? Hc HF']; subst.
      constructor; [exact (Hc Ha) | exact (IH HF' Hr)].
  Qed.

  (* ---------------------------------------------------------------- items: every layout *)
  Lemma fmt_items_unfold : forall e i, fi e i = impl_items O pi key_item true orl w fd fi e i.
  Proof. intros e i. destruct e; reflexivity. Qed.

  (* A e: the layouts of e denote print_items e; B e: so does e as the else-branch of a conditional *)
  Definition A (e : expr) : Prop := forall i, fi e i = pi e.
  Definition B (e : expr) : Prop :=
    forall fcd fc ft c t i, (forall j, fc j = pi c) -> (forall j, ft j = pi t) ->
      cond_items w fd fi fcd fc ft e i = [ICond (pi c) (pi t) (pi e)].
  Definition AB (e : expr) : Prop := wf e = true -> lam_ok e = true -> A e /\ B e.

  Lemma B_of_A : forall e, (forall c t e2, e <> ECond c t e2) -> A e -> B e.
  Proof.
    intros e Hne HA fcd fc ft c t i Hc Ht.
    destruct e; try (exfalso; eapply Hne; reflexivity);
      cbn [cond_items];
      match goal with |- context [if ?b then _ else _] => destruct b end;
      rewrite ?Hc, ?Ht, HA; reflexivity.
  Qed.

  Ltac items_fits e Hwf :=
    rewrite fmt_items_unfold; unfold impl_items;
    match goal with |- context [if ?b then _ else _] => destruct b end;
    [exact (fsl_items_all e Hwf)|].

  Ltac leaf_items :=
    unfold multiline_items;
    match goal with
    | |- context [if ?b then _ else _] => destruct b; reflexivity
    | _ => reflexivity
    end.

  Ltac not_cond := let c := fresh in let t := fresh in let e := fresh in intros c t e; discriminate.

  Lemma fmt_items_all : forall e, AB e.
  Proof.
    induction e as [x|s|b| |x|x|b|items HF|entries HF|args body IHb|c t1 e IHc IHt IHe|stmts ret HF Hret
                   |x v IHv|e IHe|f args IHf HF|e i IHe IHi|e f IHe|o l r IHl IHr|uo e IHe|e IHe|e IHe]
      using expr_ind'; intros Hwf Hl.
    - assert (HA : A (ENum x)) by (intro i; items_fits (ENum x) Hwf; leaf_items).
      split; [exact HA | apply B_of_A; [not_cond | exact HA]].
    - assert (HA : A (EStr s)) by (intro i; items_fits (EStr s) Hwf; leaf_items).
      split; [exact HA | apply B_of_A; [not_cond | exact HA]].
    - assert (HA : A (EBool b)) by (intro i; items_fits (EBool b) Hwf; leaf_items).
      split; [exact HA | apply B_of_A; [not_cond | exact HA]].
    - assert (HA : A ENull) by (intro i; items_fits ENull Hwf; leaf_items).
      split; [exact HA | apply B_of_A; [not_cond | exact HA]].
    - assert (HA : A (EId x)) by (intro i; items_fits (EId x) Hwf; leaf_items).
      split; [exact HA | apply B_of_A; [not_cond | exact HA]].
    - assert (HA : A (EInRef x)) by (intro i; items_fits (EInRef x) Hwf; leaf_items).
      split; [exact HA | apply B_of_A; [not_cond | exact HA]].
    - assert (HA : A (EBuiltin b)) by (intro i; items_fits (EBuiltin b) Hwf; leaf_items).
      split; [exact HA | apply B_of_A; [not_cond | exact HA]].
    - (* EList *)
      assert (HA : A (EList items)).
      { intro i. items_fits (EList items) Hwf. unfold multiline_items, list_items.
        cbn [wf] in Hwf. cbn [lam_ok] in Hl. cbn [print_items].
        assert (E : forall inner,
                  list_lelems fi items inner
                  = (fix go (l : list (commented expr)) : list lelem :=
                       match l with [] => [] | Cm _ x _ :: l' => LItem (pi x) None :: go l' end) items).
        { intro inner. induction items as [|c items IH]; [reflexivity|].
          apply andb_prop in Hwf. destruct Hwf as [Hwf Hrest]. apply andb_prop in Hwf. destruct Hwf as [Hpl Hw].
          inversion HF as [|? ? Hc HF']; subst. destruct c as [ld x tr]. cbn [Pcm] in Hc.
          apply andb_prop in Hl. destruct Hl as [Hlx Hlr].
          cbn [list_lelems]. rewrite (IH HF' Hrest Hlr). destruct (Hc Hw Hlx) as [Ha _]. rewrite Ha. reflexivity. }
        destruct items as [|c items]; [reflexivity|]. rewrite E. reflexivity. }
      split; [exact HA | apply B_of_A; [not_cond | exact HA]].
    - (* ERec *)
      assert (HA : A (ERec entries)).
      { intro i. items_fits (ERec entries) Hwf. unfold multiline_items, record_items.
        cbn [wf] in Hwf. cbn [lam_ok] in Hl. cbn [print_items].
        assert (E : forall inner,
                  rec_relems key_item fi entries inner
                  = (fix go (l : list (commented rentry)) : list relem :=
                       match l with
                       | [] => []
                       | Cm _ (REntry k v) _ :: l' =>
                           match k with
                           | KStatic s => RPairI (key_item s) (pi v) None
                           | KDyn d => RPairI (RKDyn [IExpr false (pi d)]) (pi v) None
                           | KShort s => RShortI s None
                           | KSpread x => RSpreadI (pi x) None
                           end :: go l'
                       end) entries).
        { intro inner. induction entries as [|c entries IH]; [reflexivity|].
          apply andb_prop in Hwf. destruct Hwf as [Hwf Hrest]. apply andb_prop in Hwf. destruct Hwf as [Hpl Hw].
          inversion HF as [|? ? Hc HF']; subst. destruct c as [ld [k v] tr]. cbn [Pentry Pkey] in Hc.
          destruct Hc as [Hk Hv].
          apply andb_prop in Hl. destruct Hl as [Hl1 Hlr]. apply andb_prop in Hl1. destruct Hl1 as [Hlk Hlv].
          cbn [rec_relems entry_relem]. rewrite (IH HF' Hrest Hlr).
          destruct k as [s|d|s|x].
          - destruct (Hv Hw Hlv) as [Ha _]. rewrite Ha. reflexivity.
          - apply andb_prop in Hw. destruct Hw as [Hd Hv'].
            destruct (Hk Hd Hlk) as [Ha1 _]. destruct (Hv Hv' Hlv) as [Ha2 _]. rewrite Ha1, Ha2. reflexivity.
          - reflexivity.
          - apply andb_prop in Hw. destruct Hw as [Hx _]. destruct (Hk Hx Hlk) as [Ha _]. rewrite Ha. reflexivity. }
        destruct entries as [|c entries]; [reflexivity|]. rewrite E. reflexivity. }
      split; [exact HA | apply B_of_A; [not_cond | exact HA]].
    - (* ELam *)
      assert (HA : A (ELam args body)).
      { intro i. rewrite fmt_items_unfold. unfold impl_items, lambda_items.
        cbn [wf] in Hwf. cbn [lam_ok] in Hl. apply andb_prop in Hl. destruct Hl as [_ Hlb].
        destruct (IHb Hwf Hlb) as [Ha _]. cbn [print_items].
        destruct (is_do body) eqn:Ed.
        - destruct body; try discriminate. rewrite HBdo, Ha. reflexivity.
        - match goal with |- context [if ?b then _ else _] => destruct b end; rewrite HB, Ha; reflexivity. }
      split; [exact HA | apply B_of_A; [not_cond | exact HA]].
    - (* ECond *)
      cbn [wf] in Hwf. apply andb_prop in Hwf. destruct Hwf as [Hwf H3]. apply andb_prop in Hwf. destruct Hwf as [H1 H2].
      cbn [lam_ok] in Hl. apply andb_prop in Hl. destruct Hl as [Hl L3]. apply andb_prop in Hl. destruct Hl as [L1 L2].
      destruct (IHc H1 L1) as [Ac _]. destruct (IHt H2 L2) as [At _]. destruct (IHe H3 L3) as [_ Be].
      assert (Hw' : wf (ECond c t1 e) = true) by (cbn [wf]; rewrite H1, H2, H3; reflexivity).
      assert (HA : A (ECond c t1 e)).
      { intro i. items_fits (ECond c t1 e) Hw'. unfold multiline_items.
        rewrite (Be (fd c) (fi c) (fi t1) c t1 i Ac At). reflexivity. }
      split; [exact HA|].
      intros fcd fc ft c0 t0 i Hc Ht. cbn [cond_items].
      match goal with |- context [if ?b then _ else _] => destruct b end;
        rewrite ?Hc, ?Ht, (Be (fd c) (fi c) (fi t1) c t1 i Ac At); reflexivity.
    - (* EDo *)
      assert (HA : A (EDo stmts ret)).
      { intro i. rewrite fmt_items_unfold. unfold impl_items, multiline_items, do_items.
        destruct ret as [rl r rt]. cbn [wf] in Hwf. cbn [lam_ok] in Hl. cbn [print_items cnode].
        apply andb_prop in Hwf. destruct Hwf as [Hwf Hr]. apply andb_prop in Hwf. destruct Hwf as [Hs Hpl].
        apply andb_prop in Hl. destruct Hl as [Hls Hlr].
        cbn [Pcm] in Hret. destruct (Hret Hr Hlr) as [Ar _].
        set (inner := i + INDENT_SIZE).
        assert (E : forall k,
                  do_delems fd fi stmts [DRet (fi r inner)] inner (Nat.eqb k 0)
                  = (fix go (i : nat) (l : list (commented expr)) : list delem :=
                       match l with
                       | [] => [DRet (pi r)]
                       | Cm _ x _ :: l' =>
                           PrattTypes.DStmt (wrapb (dominus_text fx i (pt x)) (pi x)) None :: go (S i) l'
                       end) k stmts).
        { clear Hpl. induction stmts as [|c stmts IH]; intro k.
          - cbn [do_delems]. rewrite Ar. reflexivity.
          - apply andb_prop in Hs. destruct Hs as [Hs Hrest]. apply andb_prop in Hs. destruct Hs as [Hplc Hw].
            inversion HF as [|? ? Hc HF']; subst. destruct c as [ld x tr]. cbn [Pcm] in Hc.
            apply andb_prop in Hls. destruct Hls as [Hlx Hlrest].
            destruct (Hc Hw Hlx) as [Ax _].
            cbn [do_delems]. rewrite (protect_agrees x inner (fi x inner) k Hlx), Ax.
            f_equal. exact (IH HF' Hrest Hlrest (S k)). }
        specialize (E 0). cbn [Nat.eqb] in E. rewrite E. reflexivity. }
      split; [exact HA | apply B_of_A; [not_cond | exact HA]].
    - (* EAssign *)
      assert (HA : A (EAssign x v)).
      { intro i. items_fits (EAssign x v) Hwf. unfold multiline_items.
        cbn [wf] in Hwf. cbn [lam_ok] in Hl. destruct (IHv Hwf Hl) as [Ha _]. rewrite Ha. reflexivity. }
      split; [exact HA | apply B_of_A; [not_cond | exact HA]].
    - discriminate.
    - (* ECall *)
      assert (HA : A (ECall f args)).
      { intro i. items_fits (ECall f args) Hwf. unfold multiline_items, call_items.
        cbn [wf] in Hwf. apply andb_prop in Hwf. destruct Hwf as [Hwf1 Hwf2].
        cbn [lam_ok] in Hl. apply andb_prop in Hl. destruct Hl as [Hl1 Hl2].
        destruct (IHf Hwf1 Hl1) as [Af _]. cbn [print_items]. rewrite HP, HC, Af.
        assert (EA : forall j, Forall (fun a0 => fi a0 j = pi a0) args).
        { intro j. clear - HF Hwf2 Hl2. induction args as [|a args IH]; [constructor|].
          apply andb_prop in Hwf2. destruct Hwf2 as [Ha Hr]. apply andb_prop in Hl2. destruct Hl2 as [La Lr].
          inversion HF as [|? ? Hc HF']; subst.
          constructor; [destruct (Hc Ha La) as [Aa _]; apply Aa | exact (IH HF' Hr Lr)]. }
        destruct args as [|a args]; [reflexivity|]. do 3 f_equal.
        apply (map_fix_exprs (fun a0 => fi a0 (i + INDENT_SIZE)) pi). apply EA. }
      split; [exact HA | apply B_of_A; [not_cond | exact HA]].
    - (* EAccess *)
      assert (HA : A (EAccess e i)).
      { intro j. items_fits (EAccess e i) Hwf. unfold multiline_items.
        cbn [wf] in Hwf. apply andb_prop in Hwf. destruct Hwf as [Hwf1 Hwf2].
        cbn [lam_ok] in Hl. apply andb_prop in Hl. destruct Hl as [Hl1 Hl2].
        destruct (IHe Hwf1 Hl1) as [Ae _]. destruct (IHi Hwf2 Hl2) as [Ai _].
        match goal with |- context [if ?b then _ else _] => destruct b end; [|reflexivity].
        rewrite HP, Ae, Ai. reflexivity. }
      split; [exact HA | apply B_of_A; [not_cond | exact HA]].
    - (* EDot *)
      assert (HA : A (EDot e f)).
      { intro j. items_fits (EDot e f) Hwf. unfold multiline_items.
        cbn [wf] in Hwf. cbn [lam_ok] in Hl. destruct (IHe Hwf Hl) as [Ae _].
        match goal with |- context [if ?b then _ else _] => destruct b end; [|reflexivity].
        rewrite HP, Ae. reflexivity. }
      split; [exact HA | apply B_of_A; [not_cond | exact HA]].
    - (* EBin *)
      assert (HA : A (EBin o l r)).
      { intro j. items_fits (EBin o l r) Hwf. unfold multiline_items, binop_items.
        cbn [wf] in Hwf. apply andb_prop in Hwf. destruct Hwf as [Hwl Hwr].
        cbn [lam_ok] in Hl. apply andb_prop in Hl. destruct Hl as [Hll Hlr].
        destruct (IHl Hwl Hll) as [Al _]. destruct (IHr Hwr Hlr) as [Ar _].
        cbn [print_items negb andb]. rewrite HL, HR, !Al, !Ar.
        repeat match goal with |- context [if ?b then _ else _] => destruct b end; reflexivity. }
      split; [exact HA | apply B_of_A; [not_cond | exact HA]].
    - (* EUn *)
      assert (HA : A (EUn uo e)).
      { intro j. items_fits (EUn uo e) Hwf. unfold multiline_items.
        cbn [wf] in Hwf. apply andb_prop in Hwf. destruct Hwf as [_ Hwe]. cbn [lam_ok] in Hl.
        destruct (IHe Hwe Hl) as [Ae _].
        match goal with |- context [if ?b then _ else _] => destruct b end; [|reflexivity].
        rewrite HU, Ae. reflexivity. }
      split; [exact HA | apply B_of_A; [not_cond | exact HA]].
    - (* EFact *)
      assert (HA : A (EFact e)).
      { intro j. items_fits (EFact e) Hwf. unfold multiline_items.
        cbn [wf] in Hwf. cbn [lam_ok] in Hl. destruct (IHe Hwf Hl) as [Ae _].
        match goal with |- context [if ?b then _ else _] => destruct b end; [|reflexivity].
        rewrite HP, Ae. reflexivity. }
      split; [exact HA | apply B_of_A; [not_cond | exact HA]].
    - (* ESpread *)
      assert (HA : A (ESpread e)).
      { intro j. items_fits (ESpread e) Hwf. unfold multiline_items.
        cbn [wf] in Hwf. cbn [lam_ok] in Hl. destruct (IHe Hwf Hl) as [Ae _].
        match goal with |- context [if ?b then _ else _] => destruct b end; [|reflexivity].
        rewrite Ae. reflexivity. }
      split; [exact HA | apply B_of_A; [not_cond | exact HA]].
  Qed.

  Theorem layout_items_generic : forall e i,
    wf e = true -> lam_ok e = true -> fi e i = pi e.
  Proof. intros e i Hw Hl. destruct (fmt_items_all e Hw Hl) as [Ha _]. apply Ha. Qed.

  (* statements: `output …` is handed to format_expr as Expr::Output *)
  Theorem layout_stmt_items_generic : forall e i,
    wf (stmt_body e) = true -> lam_ok e = true -> fi e i = stmt_items fx pol numtxt e.
  Proof.
    intros e i Hw Hl.
    assert (D : (exists x, e = EOutput x) \/ (stmt_body e = e /\ stmt_items fx pol numtxt e = pi e)).
    { destruct e; try (right; split; reflexivity). left. eexists. reflexivity. }
    destruct D as [[x ->]|[E1 E2]].
    - cbn [stmt_body] in Hw. cbn [lam_ok] in Hl. cbn [stmt_items].
      rewrite fmt_items_unfold. unfold impl_items.
      match goal with |- context [if ?b then _ else _] => destruct b end.
      + cbn [fsl_items]. exact (fsl_items_all x Hw).
      + unfold multiline_items. apply layout_items_generic; assumption.
    - rewrite E1 in Hw. rewrite E2. apply layout_items_generic; assumption.
  Qed.
End Generic.

(* ------------------------------------------------------------------ the printer of Printer.v *)
Theorem layout_preserves_items : forall oi fx numtxt keepc orl w e i,
  fx_dominus fx = true ->
  wf e = true -> lam_ok e = true ->
  fmt_items (printer_oracles fx (policy_new oi) numtxt keepc)
            (print_items fx (policy_new oi) numtxt) key_item true orl w e i
  = print_items fx (policy_new oi) numtxt e.
Proof.
  intros oi fx numtxt keepc orl w e i Hd Hw Hl.
  apply layout_items_generic; try assumption; try reflexivity.
Qed.

Theorem layout_preserves_stmt_items : forall oi fx numtxt keepc orl w e i,
  fx_dominus fx = true ->
  wf (stmt_body e) = true -> lam_ok e = true ->
  fmt_items (printer_oracles fx (policy_new oi) numtxt keepc)
            (print_items fx (policy_new oi) numtxt) key_item true orl w e i
  = stmt_items fx (policy_new oi) numtxt e.
Proof.
  intros oi fx numtxt keepc orl w e i Hd Hw Hl.
  apply layout_stmt_items_generic; try assumption; try reflexivity.
Qed.

(* the pinned printer (policy_old) is covered by the generic theorem too, except that its callee
   rule (pC = is_lambda) is not the needs_parens_in_postfix the formatter asks: outside that, i.e.
   for ANY oracle record with the stated interface *)
Theorem layout_preserves_items_any_oracle : forall fx pol numtxt O orl w e i,
  fx_dominus fx = true ->
  (forall op c, o_needs_parens O op c true = pL pol op c) ->
  (forall op c, o_needs_parens O op c false = pR pol op c) ->
  (forall c, o_postfix_parens O c = pP pol c) ->
  (forall c, pC pol c = pP pol c) ->
  (forall c, o_lambda_body_parens O c = pB pol c) ->
  (forall s r, pB pol (EDo s r) = false) ->
  (forall c, o_unary_parens O c = pU pol c) ->
  (forall e, lead3 (o_e2s O e) = lead3 (print_text fx pol numtxt e)) ->
  wf e = true -> lam_ok e = true ->
  fmt_items O (print_items fx pol numtxt) key_item true orl w e i = print_items fx pol numtxt e.
Proof. intros. apply layout_items_generic; assumption. Qed.

(* composing with the round trip of the one-line printer (PrintRT.new_policy_roundtrip_fun) *)
Theorem format_roundtrip_items : forall oi fx numtxt keepc orl w e i,
  opinfo_consistent oi spec_bprec spec_rassoc = true ->
  fx_dominus fx = true ->
  wf e = true -> lam_ok e = true ->
  exists n, forall m, n <= m ->
    parse_items impl_table infix_map prefix_map m
      (fmt_items (printer_oracles fx (policy_new oi) numtxt keepc)
                 (print_items fx (policy_new oi) numtxt) key_item true orl w e i) = Ok (Some e).
Proof.
  intros oi fx numtxt keepc orl w e i Hc Hd Hw Hl.
  rewrite (layout_preserves_items oi fx numtxt keepc orl w e i Hd Hw Hl).
  apply new_policy_roundtrip_fun; assumption.
Qed.
