(* JsonTextRT.v — property C06, text level: what serde_json's printer writes, its parser reads
   back.  Strings (escapes) and number tokens are proved here for all inputs; the conversion
   text <-> double is a Section hypothesis (library code), and the conversion shipped in /repo
   (serde_json without float_roundtrip) is refuted by computation. *)
From Coq Require Import String Ascii List ZArith Bool Lia.
Require Import ZifyBool.
Require Import Blots.Num Blots.Json Blots.JsonText.
Import ListNotations.
Open Scope Z_scope.

(* ------------------------------------------------------------------ strings *)
Lemma append_assoc (a b c : string) : ((a ++ b) ++ c = a ++ (b ++ c))%string.
Proof. induction a as [|x a IH]; cbn; [reflexivity|]. now rewrite IH. Qed.

(* one source byte: whatever the printer writes for it, the parser reads it back as that byte *)
Lemma parse_str_escape_byte c t :
  parse_str (escape_byte c ++ t) =
  match parse_str t with Some (u, rest) => Some (String c u, rest) | None => None end.
Proof. destruct c as [[] [] [] [] [] [] [] []]; reflexivity. Qed.

(* byte-exact strings and keys: every byte string (in particular every UTF-8 string, including
   quotes, backslashes, control characters, DEL, non-BMP) survives print -> parse *)
Theorem parse_str_escape s rest :
  parse_str (escape_str s ++ String QUOTE rest) = Some (s, rest).
Proof.
  induction s as [|c s IH]; [reflexivity|].
  cbn [escape_str]. rewrite append_assoc, parse_str_escape_byte, IH. reflexivity.
Qed.
Corollary parse_print_str s rest :
  match print_str s ++ rest with
  | String q body => byte q = 34 /\ parse_str body = Some (s, rest)
  | EmptyString => False
  end%string.
Proof.
  unfold print_str. cbn. split; [reflexivity|].
  rewrite append_assoc. apply parse_str_escape.
Qed.

(* ------------------------------------------------------------------ digits *)
Definition digit_ok (d : Z) : bool := (0 <=? d) && (d <=? 9).
Definition digits_ok (l : list Z) : bool := forallb digit_ok l.

Lemma digit_cases d : digit_ok d = true ->
  d = 0 \/ d = 1 \/ d = 2 \/ d = 3 \/ d = 4 \/ d = 5 \/ d = 6 \/ d = 7 \/ d = 8 \/ d = 9.
Proof. unfold digit_ok. lia. Qed.
Lemma digit_char_digit d : digit_ok d = true -> is_digit (digit_char d) = true /\ byte (digit_char d) - 48 = d.
Proof. intros H. destruct (digit_cases d H) as [->|[->|[->|[->|[->|[->|[->|[->|[->| ->]]]]]]]]]; split; reflexivity. Qed.

(* the first character after a number: not a digit (for an exponent-less token also not . e E) *)
Definition no_digit (s : string) : bool := negb (is_digit (ch s)).
Definition no_cont (s : string) : bool :=
  let n := byte (ch s) in negb (is_digit (ch s)) && negb (n =? 46) && negb (n =? 101) && negb (n =? 69).

Lemma span_digits_stop s : no_digit s = true -> span_digits s = ([], s).
Proof. destruct s as [|c r]; [reflexivity|]. unfold no_digit. cbn. now destruct (is_digit c). Qed.
Lemma span_digits_app l rest :
  digits_ok l = true -> no_digit rest = true -> span_digits (digits_str l ++ rest) = (l, rest).
Proof.
  induction l as [|d l IH]; intros Hl Hr; cbn [digits_str append].
  - now apply span_digits_stop.
  - cbn in Hl. apply andb_prop in Hl as [Hd Hl]. destruct (digit_char_digit d Hd) as [E1 E2].
    cbn [span_digits]. rewrite E1, (IH Hl Hr), E2. reflexivity.
Qed.

(* itoa: decimal digits of a non-negative integer, and back *)
Lemma dec_list_spec fuel : forall z acc,
  0 <= z < 10 ^ Z.of_nat fuel -> (0 < fuel)%nat ->
  digits_val 0 (dec_list fuel z acc) = digits_val z acc /\
  (digits_ok acc = true -> digits_ok (dec_list fuel z acc) = true).
Proof.
  induction fuel as [|fuel IH]; intros z acc Hz Hf; [lia|].
  cbn [dec_list].
  assert (Hd : digit_ok (z mod 10) = true) by (unfold digit_ok; pose proof (Z.mod_pos_bound z 10); lia).
  destruct (z / 10 =? 0) eqn:E.
  - apply Z.eqb_eq in E. split.
    + cbn. f_equal. rewrite (Z.div_mod z 10) at 2 by lia. lia.
    + intros Ha. cbn. now rewrite Hd.
  - apply Z.eqb_neq in E.
    assert (Hq : 0 <= z / 10 < 10 ^ Z.of_nat fuel).
    { split; [apply Z.div_pos; lia|]. apply Z.div_lt_upper_bound; [lia|].
      replace (10 * 10 ^ Z.of_nat fuel) with (10 ^ Z.of_nat (S fuel)); [lia|].
      rewrite Nat2Z.inj_succ, Z.pow_succ_r; lia. }
    assert (Hf' : (0 < fuel)%nat).
    { destruct fuel; [|lia]. cbn in Hq. assert (z / 10 = 0) by lia. contradiction. }
    destruct (IH (z / 10) (z mod 10 :: acc) Hq Hf') as [I1 I2]. split.
    + rewrite I1. cbn. f_equal. rewrite (Z.div_mod z 10) at 3 by lia. lia.
    + intros Ha. apply I2. cbn. now rewrite Hd.
Qed.
Lemma digits_of_val z : 0 <= z < 10 ^ 40 -> digits_val 0 (digits_of z) = z /\ digits_ok (digits_of z) = true.
Proof.
  intros Hz. unfold digits_of. destruct (dec_list_spec 40 z [] Hz ltac:(lia)) as [H1 H2]. split; auto.
Qed.
(* no leading zero unless the number is a single 0 *)
Lemma dec_list_head fuel : forall z acc,
  0 <= z -> (0 < fuel)%nat -> z < 10 ^ Z.of_nat fuel ->
  match dec_list fuel z acc with
  | [] => False
  | d0 :: more => (d0 = 0 -> z = 0 /\ more = acc)
  end.
Proof.
  induction fuel as [|fuel IH]; intros z acc Hz Hf Hlt; [lia|]. cbn [dec_list].
  destruct (z / 10 =? 0) eqn:E.
  - apply Z.eqb_eq in E. intros H0. split; [|reflexivity].
    rewrite (Z.div_mod z 10) by lia. lia.
  - apply Z.eqb_neq in E.
    assert (Hq : z / 10 < 10 ^ Z.of_nat fuel).
    { apply Z.div_lt_upper_bound; [lia|].
      replace (10 * 10 ^ Z.of_nat fuel) with (10 ^ Z.of_nat (S fuel)); [lia|].
      rewrite Nat2Z.inj_succ, Z.pow_succ_r; lia. }
    assert (Hq0 : 0 <= z / 10) by (apply Z.div_pos; lia).
    assert (Hf' : (0 < fuel)%nat).
    { destruct fuel; [|lia]. cbn in Hq. lia. }
    specialize (IH (z / 10) (z mod 10 :: acc) Hq0 Hf' Hq).
    destruct (dec_list fuel (z / 10) (z mod 10 :: acc)) as [|d0 more]; [exact IH|].
    intros H0. destruct (IH H0) as [Hz0 _]. contradiction.
Qed.

(* ------------------------------------------------------------------ number tokens *)
Definition is_nil {A} (l : list A) : bool := match l with [] => true | _ => false end.
Definition tok_wf (t : numtok) : bool :=
  digits_ok (t_int t)
  && match t_int t with [] => false | [_] => true | d0 :: _ => negb (d0 =? 0) end
  && match t_frac t with Some f => digits_ok f && negb (is_nil f) | None => true end
  && match t_exp t with Some (_, e) => digits_ok e && negb (is_nil e) | None => true end.
Definition tok_is_float (t : numtok) : bool :=
  match t_frac t, t_exp t with None, None => false | _, _ => true end.

Lemma ch_digits_app l rest : l <> [] -> ch (digits_str l ++ rest) = digit_char (hd 0 l).
Proof. destruct l; [congruence|reflexivity]. Qed.
Lemma digit_char_not d n : digit_ok d = true -> (n < 48 \/ 57 < n) -> byte (digit_char d) =? n = false.
Proof.
  intros H Hn. destruct (digit_cases d H) as [->|[->|[->|[->|[->|[->|[->|[->|[->| ->]]]]]]]]];
    apply Z.eqb_neq; cbn; lia.
Qed.
Lemma no_cont_no_digit s : no_cont s = true -> no_digit s = true.
Proof. unfold no_cont, no_digit. intros H. now repeat (apply andb_prop in H as [H _]). Qed.

(* the scanner reads back exactly the token that was rendered *)
Theorem scan_render t rest :
  tok_wf t = true -> no_cont rest = true -> scan_number (render_tok t ++ rest) = Some (t, rest).
Proof.
  destruct t as [neg ip fp ep]. unfold tok_wf, render_tok. cbn [t_neg t_int t_frac t_exp].
  intros Hwf Hrest.
  apply andb_prop in Hwf as [Hwf Hep]. apply andb_prop in Hwf as [Hwf Hfp].
  apply andb_prop in Hwf as [Hip Hlead].
  pose proof (no_cont_no_digit _ Hrest) as Hnd.
  (* the tail after the integer digits *)
  set (tailE := (match ep with
                 | Some (s, e) => "e" ++ (if s then "-" else "") ++ digits_str e
                 | None => "" end ++ rest)%string).
  set (tailF := (match fp with Some f => "." ++ digits_str f | None => "" end ++ tailE)%string).
  assert (HtE : forall pre, scan_number pre = scan_number pre) by reflexivity.
  (* what the exponent part scans to *)
  assert (HE : no_digit tailE = true /\
               (if (byte (ch tailE) =? 101) || (byte (ch tailE) =? 69)
                then match tailE with
                     | String _ r2' =>
                         let sgn := byte (ch r2') in
                         let r3 := if (sgn =? 43) || (sgn =? 45) then match r2' with String _ r => r | _ => r2' end else r2' in
                         let '(ep', r4) := span_digits r3 in
                         match ep' with [] => None | _ => Some (NumTok neg ip fp (Some (sgn =? 45, ep')), r4) end
                     | _ => None
                     end
                else Some (NumTok neg ip fp None, tailE)) = Some (NumTok neg ip fp ep, rest)).
  { unfold tailE. destruct ep as [[s e]|].
    - apply andb_prop in Hep as [He Hne]. destruct e as [|e0 e']; [discriminate|].
      split; [reflexivity|]. cbn [append ch]. cbn [byte]. change (byte "e" =? 101) with true. cbn [orb].
      cbn in He. apply andb_prop in He as [He0 He'].
      destruct s.
      + cbn [append ch]. change (byte "-" =? 43) with false. change (byte "-" =? 45) with true. cbn [orb].
        change (digits_str (e0 :: e')) with (digits_str (e0 :: e')).
        rewrite (span_digits_app (e0 :: e') rest); [reflexivity| |exact Hnd].
        cbn. now rewrite He0.
      + cbn [append ch digits_str].
        rewrite (digit_char_not e0 43 He0), (digit_char_not e0 45 He0) by lia. cbn [orb].
        change (String (digit_char e0) (digits_str e' ++ rest))%string with (digits_str (e0 :: e') ++ rest)%string.
        rewrite (span_digits_app (e0 :: e') rest); [reflexivity| |exact Hnd].
        cbn. now rewrite He0.
    - cbn [append]. split; [exact Hnd|].
      unfold no_cont in Hrest. apply andb_prop in Hrest as [Hrest H69]. apply andb_prop in Hrest as [_ H101].
      apply negb_true_iff in H69, H101. now rewrite H69, H101. }
  destruct HE as [HndE HE].
  (* fraction part *)
  assert (HF : no_digit tailF = true /\
               (if byte (ch tailF) =? 46
                then match tailF with
                     | String _ r1' => let '(fp', r2) := span_digits r1' in
                                       match fp' with [] => None | _ => Some (Some fp', r2) end
                     | _ => None
                     end
                else Some (None, tailF)) = Some (fp, tailE)).
  { unfold tailF. destruct fp as [f|].
    - apply andb_prop in Hfp as [Hf Hne]. destruct f as [|f0 f']; [discriminate|].
      split; [reflexivity|]. cbn [append ch]. change (byte "." =? 46) with true.
      rewrite (span_digits_app (f0 :: f') tailE Hf HndE). reflexivity.
    - cbn [append]. split; [exact HndE|].
      destruct ep as [[s e]|]; unfold tailE in *.
      + reflexivity.
      + cbn [append] in *. unfold no_cont in Hrest. apply andb_prop in Hrest as [Hrest _].
        apply andb_prop in Hrest as [Hrest _]. apply andb_prop in Hrest as [_ H46].
        apply negb_true_iff in H46. now rewrite H46. }
  destruct HF as [HndF HF].
  (* integer part and sign *)
  destruct ip as [|d0 more]; [discriminate|].
  assert (Hspan : span_digits (digits_str (d0 :: more) ++ tailF) = (d0 :: more, tailF))
    by (apply span_digits_app; assumption).
  assert (Hd0 : digit_ok d0 = true) by (cbn in Hip; now apply andb_prop in Hip as [? _]).
  assert (Hlead' : (d0 =? 0) && negb (match more with [] => true | _ => false end) = false).
  { destruct more; [now rewrite andb_false_r|]. apply negb_true_iff in Hlead. now rewrite Hlead. }
  unfold scan_number.
  replace (((if neg then "-" else "") ++ digits_str (d0 :: more) ++
            match fp with Some f => "." ++ digits_str f | None => "" end ++
            match ep with Some (s, e) => "e" ++ (if s then "-" else "") ++ digits_str e | None => "" end) ++ rest)%string
    with ((if neg then "-" else "") ++ digits_str (d0 :: more) ++ tailF)%string.
  2:{ unfold tailF, tailE. now rewrite !append_assoc. }
  destruct neg.
  - cbn [append ch]. change (byte "-" =? 45) with true. cbv iota.
    rewrite Hspan. cbv beta iota. rewrite Hlead'. rewrite HF. cbv beta iota. exact HE.
  - cbn [append]. cbn [digits_str append ch].
    rewrite (digit_char_not d0 45 Hd0) by lia. cbv iota.
    change (String (digit_char d0) (digits_str more ++ tailF))%string with (digits_str (d0 :: more) ++ tailF)%string.
    rewrite Hspan. cbv beta iota. rewrite Hlead'. rewrite HF. cbv beta iota. exact HE.
Qed.

(* ------------------------------------------------------------------ numbers, with the library part *)
Definition jnum_text_ok (n : jnumber) : bool :=
  match n with
  | JPosInt z => (0 <=? z) && (z <=? U64_MAX')
  | JNegInt z => (- 2 ^ 63 <=? z) && (z <? 0)
  | JFloat x => is_finite x
  end.

Section Numbers.
  Variable fmt_pieces : num -> numtok.                  (* ryu *)
  Variable float_of_tok : numtok -> option num.         (* text -> double *)
  (* what is assumed of the library: a finite double is printed as a well-formed token with a
     fraction or an exponent, and reading that token gives the double back *)
  Hypothesis H_print_wf : forall x, is_finite x = true ->
    tok_wf (fmt_pieces x) = true /\ tok_is_float (fmt_pieces x) = true.
  Hypothesis H_roundtrip : forall x, is_finite x = true -> float_of_tok (fmt_pieces x) = Some x.

  Theorem parse_print_number n rest :
    jnum_text_ok n = true -> no_cont rest = true ->
    parse_number float_of_tok (render_tok (tok_of_jnumber fmt_pieces n) ++ rest) = Some (n, rest).
  Proof.
    intros Hn Hrest. unfold parse_number.
    destruct n as [z|z|x]; cbn [jnum_text_ok tok_of_jnumber] in *.
    - assert (Hz : 0 <= z < 10 ^ 40) by (unfold U64_MAX' in Hn; lia).
      destruct (digits_of_val z Hz) as [Hv Hok].
      pose proof (dec_list_head 40 z [] ltac:(lia) ltac:(lia) ltac:(lia)) as Hh. fold (digits_of z) in Hh.
      rewrite scan_render; [| |exact Hrest].
      + unfold classify_number. cbn [t_frac t_exp t_int t_neg negb]. rewrite Hv.
        replace (z <=? U64_MAX') with true by lia. reflexivity.
      + unfold tok_wf. cbn [t_int t_frac t_exp]. rewrite Hok. clear Hv Hok.
        destruct (digits_of z) as [|d0 [|d1 more]]; [contradiction|reflexivity|].
        destruct (d0 =? 0) eqn:E; [|reflexivity]. apply Z.eqb_eq in E. destruct (Hh E) as [_ Hm]. discriminate.
    - assert (Hz : 0 <= - z < 10 ^ 40) by lia.
      destruct (digits_of_val (- z) Hz) as [Hv Hok].
      pose proof (dec_list_head 40 (- z) [] ltac:(lia) ltac:(lia) ltac:(lia)) as Hh. fold (digits_of (- z)) in Hh.
      rewrite scan_render; [| |exact Hrest].
      + unfold classify_number. cbn [t_frac t_exp t_int t_neg negb]. rewrite Hv.
        replace ((- z =? 0) || (2 ^ 63 <? - z)) with false by lia.
        now rewrite Z.opp_involutive.
      + unfold tok_wf. cbn [t_int t_frac t_exp]. rewrite Hok. clear Hv Hok.
        destruct (digits_of (- z)) as [|d0 [|d1 more]]; [contradiction|reflexivity|].
        destruct (d0 =? 0) eqn:E; [|reflexivity]. apply Z.eqb_eq in E. destruct (Hh E) as [_ Hm]. discriminate.
    - destruct (H_print_wf x Hn) as [Hwf Hfl].
      rewrite (scan_render _ rest Hwf Hrest). unfold classify_number.
      unfold tok_is_float in Hfl.
      destruct (t_frac (fmt_pieces x)), (t_exp (fmt_pieces x)); try discriminate;
        now rewrite (H_roundtrip x Hn).
  Qed.
End Numbers.

(* ------------------------------------------------------------------ refutations by computation *)
Open Scope string_scope.
(* F17.  The token 9007199254740991.0 (what serde_json prints for 2^53-1) denotes an integer that
   IS a double; the number conversion shipped in /repo returns its neighbour 2^53-2.  Hence
   H_roundtrip is false for [sj_float_of_tok], whatever ryu prints elsewhere. *)
Definition tok_2p53m1 : numtok := NumTok false [9;0;0;7;1;9;9;2;5;4;7;4;0;9;9;1] (Some [0]) None.
Lemma shipped_number_parse_refuted :
  render_tok tok_2p53m1 = "9007199254740991.0" /\
  sj_float_of_tok tok_2p53m1 = Some (num_of_bits 0x433ffffffffffffe) /\
  num_of_Z 9007199254740991 = num_of_bits 0x433fffffffffffff /\
  num_of_bits 0x433ffffffffffffe <> num_of_bits 0x433fffffffffffff.
Proof. repeat split; try (vm_compute; reflexivity). vm_compute. discriminate. Qed.
Lemma shipped_roundtrip_hypothesis_false :
  forall fmt_pieces, fmt_pieces (num_of_bits 0x433fffffffffffff) = tok_2p53m1 ->
  ~ (forall x, is_finite x = true -> sj_float_of_tok (fmt_pieces x) = Some x).
Proof.
  intros fmt Hf H. specialize (H (num_of_bits 0x433fffffffffffff) eq_refl). rewrite Hf in H.
  vm_compute in H. discriminate.
Qed.
(* the largest double written with 21 significant digits is rejected ("number out of range") *)
Lemma shipped_number_parse_rejects_max :
  sj_float_of_tok (NumTok true [1] (Some [7;9;7;6;9;3;1;3;4;8;6;2;3;1;5;7;0;8;1;5]) (Some (false, [3;0;8]))) = None.
Proof. vm_compute. reflexivity. Qed.

(* the parser's recursion limit: 127 nested containers are read, 128 are not, although the
   printer writes any depth *)
Fixpoint nest (n : nat) (j : json) : json := match n with O => j | S k => JArr [nest k j] end.
Definition no_tok : num -> numtok := fun _ => NumTok false [0] (Some [0]) None.
Lemma recursion_limit_refuted :
  json_from_str sj_float_of_tok (jprint no_tok (nest 127 (JArr []))) = None /\
  json_from_str sj_float_of_tok (jprint no_tok (nest 126 (JArr []))) = Some (nest 126 (JArr [])).
Proof. split; vm_compute; reflexivity. Qed.

(* ------------------------------------------------------------------ whole documents *)
Fixpoint json_text_ok (j : json) : bool :=
  match j with
  | JNum n => jnum_text_ok n
  | JArr l => forallb json_text_ok l
  | JObj m => forallb (fun kv => json_text_ok (snd kv)) m
  | _ => true
  end.
(* number of nested containers *)
Fixpoint jdepth (j : json) : nat :=
  match j with
  | JArr l => S (fold_right (fun x acc => Nat.max (jdepth x) acc) O l)
  | JObj m => S (fold_right (fun kv acc => Nat.max (jdepth (snd kv)) acc) O m)
  | _ => O
  end.
