(* DisplayNumGroup.v — C20: the thousands-separator loop.
   - the numeral grammar pieces [wf_groups], [wf_lead], [wf_grouped_int] (d{1,3}(,ddd)* )
   - group3 (the rev/enumerate/flat_map/rev loop of values.rs) produces exactly that shape
   - removing the commas gives the digits back. *)
From Coq Require Import ZArith Bool String Ascii List Lia Arith.
Require Import Blots.Num Blots.Outcome Blots.DisplayNum.
Import ListNotations.
Open Scope char_scope.
Open Scope nat_scope.

(* ---------- grammar pieces (independent of the formatter) ---------- *)
(* (,ddd)* *)
Fixpoint wf_groups (l : text) : bool :=
  match l with
  | [] => true
  | x :: a :: b :: c :: r =>
      Ascii.eqb x "," && is_digit a && is_digit b && is_digit c && wf_groups r
  | _ => false
  end.
(* d^k (,ddd)* *)
Fixpoint wf_lead (k : nat) (l : text) : bool :=
  match k with
  | O => wf_groups l
  | S k' => match l with a :: r => is_digit a && wf_lead k' r | [] => false end
  end.
(* d{1,3}(,ddd)* *)
Definition wf_grouped_int (l : text) : bool := wf_lead 1 l || wf_lead 2 l || wf_lead 3 l.

Definition ungroup (l : text) : text := filter (fun c => negb (Ascii.eqb c ",")) l.

(* ---------- group3 from the left ---------- *)
Lemma enumerate_from_app : forall A (l1 l2 : list A) i,
  enumerate_from i (l1 ++ l2) = enumerate_from i l1 ++ enumerate_from (i + length l1) l2.
Proof.
  induction l1; intros; cbn [enumerate_from app length].
  - now rewrite Nat.add_0_r.
  - rewrite IHl1. now rewrite Nat.add_succ_comm.
Qed.

Definition sep_here (n : nat) : bool := Nat.ltb 0 n && Nat.eqb (Nat.modulo n 3) 0.

Lemma group3_nil : group3 [] = [].
Proof. reflexivity. Qed.

Lemma group3_cons : forall a s,
  group3 (a :: s) = if sep_here (length s) then a :: "," :: group3 s else a :: group3 s.
Proof.
  intros. unfold group3. cbn [rev]. rewrite enumerate_from_app, flat_map_app, rev_app_distr.
  cbn [enumerate_from flat_map]. rewrite app_nil_r, Nat.add_0_l, rev_length.
  unfold sep_step, sep_here. destruct (Nat.ltb 0 (length s) && Nat.eqb (length s mod 3) 0); reflexivity.
Qed.

(* ---------- ungroup (group3 s) = s ---------- *)
Lemma ungroup_group3 : forall s, contains "," s = false -> ungroup (group3 s) = s.
Proof.
  induction s as [|a s IH]; intros H.
  - reflexivity.
  - cbn [contains] in H. apply orb_false_iff in H. destruct H as [Ha Hs].
    rewrite group3_cons. unfold ungroup in *.
    destruct (sep_here (length s)); cbn [filter]; rewrite Ha; cbn [negb].
    + change (Ascii.eqb "," ",") with true. cbn [negb]. now rewrite IH.
    + now rewrite IH.
Qed.

(* ---------- group3 of digits is d{1,3}(,ddd)* ---------- *)
Definition lead (n : nat) : nat := match n with O => O | S m => S (m mod 3) end.

Lemma wf_lead3_groups : forall x, wf_lead 3 x = true -> wf_groups ("," :: x) = true.
Proof.
  intros [|a [|b [|c r]]] H; cbn in H; try discriminate;
    try (rewrite ?andb_false_r in H; discriminate).
  cbn [wf_groups]. change (Ascii.eqb "," ",") with true.
  apply andb_true_iff in H. destruct H as [Ha H].
  apply andb_true_iff in H. destruct H as [Hb H].
  apply andb_true_iff in H. destruct H as [Hc H].
  now rewrite Ha, Hb, Hc, H.
Qed.

Lemma mod3_cases : forall n, n mod 3 = 0 \/ n mod 3 = 1 \/ n mod 3 = 2.
Proof. intros. pose proof (Nat.mod_upper_bound n 3). lia. Qed.

Lemma succ_mod3 : forall n,
  (n mod 3 = 0 -> S n mod 3 = 1) /\ (n mod 3 = 1 -> S n mod 3 = 2) /\ (n mod 3 = 2 -> S n mod 3 = 0).
Proof.
  intros n.
  pose proof (Nat.div_mod n 3 ltac:(lia)). pose proof (Nat.div_mod (S n) 3 ltac:(lia)).
  pose proof (Nat.mod_upper_bound n 3 ltac:(lia)). pose proof (Nat.mod_upper_bound (S n) 3 ltac:(lia)).
  repeat split; intros; lia.
Qed.

Lemma group3_lead : forall s, forallb is_digit s = true -> wf_lead (lead (length s)) (group3 s) = true.
Proof.
  induction s as [|a s IH]; intros H.
  - reflexivity.
  - cbn [forallb] in H. apply andb_true_iff in H. destruct H as [Ha Hs].
    specialize (IH Hs). rewrite group3_cons. cbn [length lead].
    unfold sep_here. destruct s as [|b s'].
    + cbn. now rewrite Ha.
    + remember (b :: s') as s. assert (Hlen : length s = S (length s')) by (subst; reflexivity).
      rewrite Hlen in *. cbn [lead] in IH.
      change (Nat.ltb 0 (S (length s'))) with true. cbn [andb].
      destruct (succ_mod3 (length s')) as (H0 & H1 & H2).
      destruct (mod3_cases (length s')) as [M|[M|M]].
      * rewrite (H0 M). change (Nat.eqb 1 0) with false. cbn [wf_lead]. rewrite Ha. cbn [andb].
        rewrite M in IH. exact IH.
      * rewrite (H1 M). change (Nat.eqb 2 0) with false. cbn [wf_lead]. rewrite Ha. cbn [andb].
        rewrite M in IH. exact IH.
      * rewrite (H2 M). change (Nat.eqb 0 0) with true. cbn [wf_lead]. rewrite Ha. cbn [andb].
        rewrite M in IH. now apply wf_lead3_groups.
Qed.

Lemma lead_range : forall n, n <> O -> lead n = 1 \/ lead n = 2 \/ lead n = 3.
Proof.
  intros [|m] H; [congruence|]. cbn [lead]. destruct (mod3_cases m) as [M|[M|M]]; rewrite M; auto.
Qed.

Theorem group3_wellformed : forall s,
  s <> [] -> forallb is_digit s = true -> wf_grouped_int (group3 s) = true.
Proof.
  intros s Hne Hd. pose proof (group3_lead s Hd) as H.
  assert (Hl : length s <> O) by (destruct s; cbn; congruence).
  unfold wf_grouped_int.
  destruct (lead_range _ Hl) as [E|[E|E]]; rewrite E in H; rewrite H; rewrite ?orb_true_r; reflexivity.
Qed.

(* group3 keeps digits-or-commas only: every character of the output is a digit or ',' *)
Lemma group3_length_ge : forall s, length s <= length (group3 s).
Proof.
  induction s; [cbn; lia|]. rewrite group3_cons. destruct (sep_here (length s)); cbn [length]; lia.
Qed.

Lemma group3_nonempty : forall s, s <> [] -> group3 s <> [].
Proof.
  intros s H E. pose proof (group3_length_ge s). rewrite E in H0. destruct s; [congruence|cbn in H0; lia].
Qed.

(* no '.', 'e' or '-' is introduced *)
Lemma group3_contains : forall c s, Ascii.eqb "," c = false -> contains c (group3 s) = contains c s.
Proof.
  intros c s Hc. induction s as [|a s IH]; [reflexivity|].
  rewrite group3_cons. destruct (sep_here (length s)); cbn [contains]; rewrite ?Hc, IH; reflexivity.
Qed.
