(* PegFuelBlots.v — the termination theorem of PegFuel.v instantiated for the REGENERATED grammar gen/Grammar.v.
   The certificate (nullable set, per-rule depth budgets for C = 48 levels per byte) is COMPUTED here from the
   grammar on every build ([PegWf.nullable_rules], [PegTerm.dz_table]) and validated by [term_cert] under
   vm_compute: an edit of grammar.pest that introduces left recursion, a nullable repetition body, or a
   consuming cycle deeper than 48 levels per byte — or that pushes the start-up depth of a rule above 128 — breaks
   [blots_term_cert] / [blots_dz_le_128], i.e. the proof, not silently the model. *)
From Coq Require Import String Ascii List NArith Bool Arith Lia.
Require Import Blots.Peg Blots.PegWf Blots.PegTerm Blots.gen.Grammar Blots.proofs.PegGeneric Blots.proofs.PegFuel.
Import ListNotations.

Definition blots_nl : list grule := Eval vm_compute in nullable_rules blots_grammar all_grules grule_index.
(* levels of nesting paid for by one consumed byte: the 48 of [Peg.peg_fuel] *)
Definition blots_C : nat := 48.
Definition blots_dz_tab : list nat :=
  Eval vm_compute in dz_table blots_grammar all_grules grule_index blots_nl blots_C (List.length all_grules).
Definition blots_dz : grule -> nat := dz_of grule_index blots_dz_tab.

Lemma all_grules_complete : forall r : grule, In r all_grules.
Proof. intro r. destruct r; unfold all_grules; repeat (first [left; reflexivity | right]). Qed.

Lemma blots_term_cert : term_cert blots_grammar all_grules grule_index blots_nl blots_C blots_dz = true.
Proof. vm_compute. reflexivity. Qed.

(* the start-up budget of every rule is within the constant part of peg_fuel *)
Lemma blots_dz_le_128 : forallb (fun r => Nat.leb (blots_dz r) 128) all_grules = true.
Proof. vm_compute. reflexivity. Qed.

(* the smallest C for which the computed table is a certificate is recorded for the notes (not used) *)
Example blots_cert_needs_more_than_28 :
  let tab := dz_table blots_grammar all_grules grule_index blots_nl 28 (List.length all_grules) in
  term_cert blots_grammar all_grules grule_index blots_nl 28 (dz_of grule_index tab) = false.
Proof. vm_compute. reflexivity. Qed.

Theorem blots_parse_total : forall fuel r text,
    term_fuel blots_C blots_dz r text <= fuel -> parse blots_grammar fuel r text <> OutOfFuel.
Proof.
  exact (parse_total grule blots_grammar all_grules grule_index blots_nl blots_C blots_dz
                     all_grules_complete blots_term_cert).
Qed.

Lemma peg_fuel_enough : forall r text, term_fuel blots_C blots_dz r text <= peg_fuel text.
Proof.
  intros r text. unfold term_fuel, peg_fuel, blots_C.
  pose proof blots_dz_le_128 as H. rewrite forallb_forall in H. specialize (H r (all_grules_complete r)).
  apply Nat.leb_le in H. lia.
Qed.

(* with the fuel the model and the correspondence streams use, parsing never runs out of fuel — for EVERY text
   and every start rule *)
Theorem blots_peg_total : forall r text, parse blots_grammar (peg_fuel text) r text <> OutOfFuel.
Proof. intros r text. apply blots_parse_total. apply peg_fuel_enough. Qed.

(* hence the result is the same for every larger fuel: acceptance is a total function of the text *)
Theorem blots_parse_fuel_independent : forall fuel r text,
    peg_fuel text <= fuel -> parse blots_grammar fuel r text = parse blots_grammar (peg_fuel text) r text.
Proof.
  intros fuel r text L. apply parse_fuel_mono; [exact L|apply blots_peg_total].
Qed.

(* the same for [run] on any expression of the grammar, in any state *)
Theorem blots_run_total : forall fuel m a la e (s : st grule),
    String.length (rest s) * blots_C + dl blots_grammar grule_index blots_nl blots_C blots_dz e <= fuel ->
    reps_progress grule grule_index blots_nl e = true ->
    run blots_grammar fuel m a la e s <> OutOfFuel.
Proof.
  exact (run_total grule blots_grammar all_grules grule_index blots_nl blots_C blots_dz
                   all_grules_complete blots_term_cert).
Qed.

(* the certificate check does refuse a left-recursive grammar (whatever budgets are offered) and a nullable
   repetition body *)
Lemma cert_refuses_left_recursion : forall C d,
  term_cert (mkgrammar (fun _ : unit => mkdef MNormal false (Seq (Ident tt) (Str "x"))) None None) [tt] (fun _ => 0%N)
            [] C (fun _ => d) = false.
Proof.
  intros C d. unfold term_cert. cbn. destruct C; [reflexivity|]. cbn.
  destruct d as [|[|m]]; [reflexivity|reflexivity|].
  replace (Nat.leb (S (S m)) m) with false; [reflexivity|]. symmetry. apply Nat.leb_gt. lia.
Qed.
Lemma cert_refuses_nullable_repetition : forall nl C dz,
  term_cert (mkgrammar (fun _ : unit => mkdef MNormal false (Rep (Opt (Str "x")))) None None) [tt] (fun _ => 0%N)
            nl C dz = false.
Proof. intros nl C dz. unfold term_cert. cbn. rewrite !andb_false_r. reflexivity. Qed.
