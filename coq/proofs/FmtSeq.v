(* FmtSeq.v — property C07, statement sequences.  grammar.pest lets an expression continue across line
   breaks, blank lines and comment-only lines (NEWLINE = inline_comment? ~ plain_newline; infix_usage admits
   (WHITESPACE | NEWLINE)* before an operator), so a statement written after another one must not start with
   the one prefix operator that is also an infix operator.  Both statement drivers (Formatter.v: cli_stmt =
   blots/src/main.rs --format loop, lib_stmt = blots-wasm format_blots loop) pass every statement that is
   not the first one written through protect_leading_minus; here: whatever the formatter prints for the
   expression (every oracle record, every width, every expression), the text such a statement contributes
   does not start with "-" — in particular not after a comment statement, which is a statement like any
   other for `is_first`.  Tied to the binary by the SEQUENCES stream of checks/c07.py (format_cli evaluated
   by vm_compute against the text `blots --format` writes, on enumerated statement sequences). *)
From Coq Require Import String Ascii List Bool ZArith.
Require Import Blots.Num Blots.gen.Builtins Blots.Ast Blots.Formatter Blots.proofs.FmtItems.
Import ListNotations.
Local Open Scope list_scope.

Lemma dlead_protect_not_first : forall d, dlead (protect_minus d false) <> LMinus.
Proof.
  intros d. unfold protect_minus. cbn [negb andb].
  destruct (starts_with_minus (render d)) eqn:E.
  - cbn [app]. rewrite dlead_cons. cbn. discriminate.
  - rewrite fmt_minus_lead3 in E. unfold dlead. destruct (lead3 (render d)); congruence.
Qed.

Lemma not_minus_then_other : forall a b, a <> LMinus -> b = LOther -> l3cat a b <> LMinus.
Proof. intros [| |] b Ha ->; cbn; congruence. Qed.

Lemma dlead_eol_nl : forall eol : option string,
  dlead ((match eol with Some c => [Code "  "; Comment c] | None => [] end) ++ [Nl]) = LOther.
Proof. intros [c|]; reflexivity. Qed.

Lemma minus_of_dlead : forall d, dlead d <> LMinus -> starts_with_minus (render d) = false.
Proof. intros d H. rewrite fmt_minus_lead3. fold (dlead d). destruct (dlead d); congruence. Qed.

Section Seq.
  Variable O : oracles.

  (* blots --format: an expression statement that is not the first statement written *)
  Lemma cli_expr_stmt_not_minus : forall e eol sl el,
    starts_with_minus (render (cli_stmt O false (St (SExpr e) eol sl el))) = false.
  Proof.
    intros e eol sl el. apply minus_of_dlead. cbn [cli_stmt]. rewrite dlead_app.
    apply not_minus_then_other; [apply dlead_protect_not_first|apply dlead_eol_nl].
  Qed.

  Definition is_expr_stmt (s : stmt) : bool :=
    match s with St (SExpr _) _ _ _ => true | _ => false end.

  Theorem cli_statements_not_minus : forall s rest,
    format_cli O (s :: rest) = cli_stmt O true s ++ concat (map (cli_stmt O false) rest) /\
    Forall (fun t => is_expr_stmt t = true -> starts_with_minus (render (cli_stmt O false t)) = false) rest.
  Proof.
    intros s rest. split; [reflexivity|].
    apply Forall_forall. intros [[e|e|c] eol sl el] _ H; try discriminate H.
    apply cli_expr_stmt_not_minus.
  Qed.

  (* format_blots: every statement that is not the first one (the loop protects all kinds) *)
  Theorem lib_statements_not_minus : forall mw s,
    dlead (fst (fst (lib_stmt O mw false s))) <> LMinus.
  Proof.
    intros mw [k eol sl el]. cbn [lib_stmt fst].
    destruct eol as [c|]; [|apply dlead_protect_not_first].
    rewrite dlead_app. apply not_minus_then_other; [apply dlead_protect_not_first|reflexivity].
  Qed.
End Seq.
