(* PrattTable.v — finite facts about the GENERATED table (re-checked whenever gen/PrecTable.v
   changes): each is an exhaustive vm_compute over the 34 operator rules / 26 binary operators. *)
From Coq Require Import String List Bool Arith.
Require Import Blots.Num Blots.gen.Builtins Blots.Ast Blots.Outcome Blots.PrattTypes Blots.gen.PrecTable
               Blots.Pratt Blots.PrattRender.
Import ListNotations.
Local Open Scope nat_scope.

Lemma all_oprules_complete : forall r, In r all_oprules.
Proof. destruct r; vm_compute; tauto. Qed.
Lemma all_binops_complete : forall o, In o all_binops.
Proof. destruct o; vm_compute; tauto. Qed.

(* the implementation's Pratt table, rule by rule, is the specification table with pest's
   numbering (level n of the spec <-> binding power 10 * n + 10), same affix and associativity *)
Definition refines_at (r : oprule) : bool :=
  match assoc_find r impl_table, spec_level r with
  | Some (a, p), Some (a', n) => affix_eqb a a' && Nat.eqb p (10 * n + 10)
  | _, _ => false
  end.
Lemma table_refines_spec_all : forallb refines_at all_oprules = true.
Proof. vm_compute. reflexivity. Qed.

Lemma affix_eqb_eq : forall a b, affix_eqb a b = true -> a = b.
Proof. destruct a as [| |[|]], b as [| |[|]]; simpl; congruence. Qed.

Lemma table_refines_spec :
  forall r, exists a n, spec_level r = Some (a, n) /\ assoc_find r impl_table = Some (a, 10 * n + 10).
Proof.
  intro r. pose proof (proj1 (forallb_forall _ _) table_refines_spec_all r (all_oprules_complete r)) as H.
  unfold refines_at in H.
  destruct (assoc_find r impl_table) as [[a p]|]; [|discriminate].
  destruct (spec_level r) as [[a' n]|]; [|discriminate].
  apply andb_prop in H. destruct H as [Ha Hp].
  apply affix_eqb_eq in Ha. apply Nat.eqb_eq in Hp. subst. eauto.
Qed.

(* the printer's copy of the levels (operator_info): what the built crate reports equals what the
   translator read from the source text *)
Definition opinfo_agrees (o : binop) : bool :=
  match operator_info_of prec_rows o,
        find (fun x => binop_eqb (fst (fst x)) o) operator_info_dump with
  | Some (p, a), Some (_, p', a') => Nat.eqb p p' && assoc_eqb a a'
  | _, _ => false
  end.
Lemma operator_info_consistent : forallb opinfo_agrees all_binops = true.
Proof. vm_compute. reflexivity. Qed.

(* operator_info orders the binary operators as the specification does, except that it puts ^ and ??
   on one level (the Pratt table does not: see table_refines_spec).  Stated for the record; the
   printer is property C07's subject. *)
Definition opinfo_level (o : binop) : nat :=
  match operator_info_of prec_rows o with Some (p, _) => p | None => 0 end.
Lemma operator_info_monotone :
  forallb (fun o1 => forallb (fun o2 =>
     implb (Nat.ltb (spec_bprec o1) (spec_bprec o2)) (Nat.leb (opinfo_level o1) (opinfo_level o2)))
     all_binops) all_binops = true.
Proof. vm_compute. reflexivity. Qed.

(* the .map_infix arms invert the spelling map; .map_prefix arms *)
Lemma infix_map_binop_rule : forall o, assoc_find (binop_rule o) infix_map = Some o.
Proof. destruct o; vm_compute; reflexivity. Qed.
Lemma prefix_map_arms :
  assoc_find R_negation prefix_map = Some (PUn Negate) /\
  assoc_find R_invert prefix_map = Some (PUn Not) /\
  assoc_find R_natural_not prefix_map = Some (PUn Not) /\
  assoc_find R_spread_operator prefix_map = Some PSpread.
Proof. vm_compute. repeat split. Qed.

(* from_ident on the crate's own names *)
Lemma builtin_names_roundtrip : forall b, builtin_of_name (builtin_name b) = Some b.
Proof. destruct b; vm_compute; reflexivity. Qed.

(* ---- word and symbol spellings ---- *)
(* the spelling pairs of the property text *)
Definition same_spelling (r1 r2 : oprule) : bool :=
  oprule_eqb r1 r2 ||
  match r1, r2 with
  | R_and, R_natural_and | R_natural_and, R_and
  | R_or, R_natural_or | R_natural_or, R_or
  | R_invert, R_natural_not | R_natural_not, R_invert => true
  | _, _ => false
  end.
(* the evaluator's view of a constructor: evaluate_ast / evaluate_binary_op_ast match
   `And | NaturalAnd`, `Or | NaturalOr`, `Not | Invert` in shared arms (checked on the source text
   by checks/c10.py:spelling_arms_shared and by the EVAL-spelling stream) *)
Definition sem_binop (o : binop) : binop :=
  match o with NaturalAnd => And | NaturalOr => Or | o' => o' end.
Definition sem_unop (u : unop) : unop := match u with Invert => Not | u' => u' end.
Inductive token_sem := TSBin (o : binop) | TSUn (u : unop) | TSSpread | TSNone.
Definition token_sem_eqb (a b : token_sem) : bool :=
  match a, b with
  | TSBin x, TSBin y => binop_eqb x y
  | TSUn x, TSUn y => unop_eqb x y
  | TSSpread, TSSpread | TSNone, TSNone => true
  | _, _ => false
  end.
Definition token_sem_of (r : oprule) : token_sem :=
  match assoc_find r infix_map, assoc_find r prefix_map with
  | Some o, _ => TSBin (sem_binop o)
  | None, Some (PUn u) => TSUn (sem_unop u)
  | None, Some PSpread => TSSpread
  | None, None => TSNone
  end.
Definition opt_entry_eqb (a b : option (affix * nat)) : bool :=
  match a, b with
  | Some (x, p), Some (y, q) => affix_eqb x y && Nat.eqb p q
  | None, None => true
  | _, _ => false
  end.
Definition spelling_ok (r1 r2 : oprule) : bool :=
  implb (same_spelling r1 r2)
        (opt_entry_eqb (assoc_find r1 impl_table) (assoc_find r2 impl_table) &&
         token_sem_eqb (token_sem_of r1) (token_sem_of r2)).
Lemma word_symbol_same_all :
  forallb (fun r1 => forallb (spelling_ok r1) all_oprules) all_oprules = true.
Proof. vm_compute. reflexivity. Qed.

Lemma word_symbol_same : forall r1 r2, same_spelling r1 r2 = true ->
  opt_entry_eqb (assoc_find r1 impl_table) (assoc_find r2 impl_table) = true /\
  token_sem_eqb (token_sem_of r1) (token_sem_of r2) = true.
Proof.
  intros r1 r2 H.
  pose proof (proj1 (forallb_forall _ _) word_symbol_same_all r1 (all_oprules_complete r1)) as H1.
  pose proof (proj1 (forallb_forall _ _) H1 r2 (all_oprules_complete r2)) as H2.
  unfold spelling_ok in H2. rewrite H in H2. cbn [implb] in H2. apply andb_prop in H2. exact H2.
Qed.
