(* EmitNqHOOps.v — C05: the transcribed operators and built-ins respect the emit/reload relation.
   The binary (relational) counterpart of GenOps.v: where GenOps shows that the operators treat a
   callback parametrically on values satisfying a PREDICATE (same arguments on both sides), this
   file shows it for a RELATION: related callbacks (EmitNqHOSim.cb_rel), related operands -> related
   outcomes, with different stores on the two sides.

   Structure (so that further built-in arms can be added mechanically):
     - a relational state-and-outcome monad lemma set  (lift_MR, bindM_MR, for_each_MR, call_fn_MR)
     - one lemma per operator arm  (arm_scalar_rel, arm_list_scalar_rel, arm_list_list_rel)
     - one lemma per callback loop (map_loop_rel ...), one per pure built-in (pure_*_rel)
     - the dispatchers: eval_binop_rel, builtin_impl_rel, builtin_full_rel; a new arm of a
       dispatcher layered on top (EvalAll.builtin_all) is one more `match` case proved with
       pure_bi_rel or the loop lemmas, falling through to builtin_full_rel.

   EXCLUDED operators: == != .== .!= (finding F53: Value::equals on two functions compares
   parameter lists and body ASTs only, so it distinguishes a closure from its reloaded emission
   and identifies closures that differ only in captured values).  *)
From Coq Require Import String Ascii List ZArith Bool Lia.
Require Import Blots.Num Blots.gen.Builtins Blots.Ast Blots.Value Blots.Outcome Blots.Binop
               Blots.Env Blots.Eval Blots.Emit Blots.BuiltinsHof Blots.Program Blots.EvalInst Blots.EvalFull
               Blots.proofs.ValueInd Blots.proofs.EmitNqHO Blots.proofs.EmitNqHOSim.
Import ListNotations.
Open Scope list_scope.

(* operators that never apply Value::equals *)
Require Blots.proofs.EmitHOOps.
Notation eqfree := Blots.proofs.EmitHOOps.eqfree.     (* the SAME exclusion as the earlier theorems *)

Section Ops.
  Variable opok : binop -> bool.
  Variable biok : builtin -> bool.
  Variable nanfix : bool.
  Notation vrel := (vrel opok biok nanfix).
  Notation lrel := (lrel opok biok nanfix).
  Notation rrel := (rrel opok biok nanfix).
  Notation orel := (orel opok biok nanfix).
  Notation cb_rel := (cb_rel opok biok nanfix).

  (* ---- shape lemmas ---- *)
  Lemma vrel_is_list v v' : vrel v v' -> is_list v = is_list v'. Proof. destruct 1; reflexivity. Qed.
  Lemma vrel_is_string v v' : vrel v v' -> is_string v = is_string v'. Proof. destruct 1; reflexivity. Qed.
  Lemma vrel_is_null v v' : vrel v v' -> is_null v = is_null v'. Proof. destruct 1; reflexivity. Qed.
  Lemma vrel_is_lambda v v' : vrel v v' -> is_lambda v = is_lambda v'. Proof. destruct 1; reflexivity. Qed.
  Lemma vrel_is_built_in v v' : vrel v v' -> is_built_in v = is_built_in v'. Proof. destruct 1; reflexivity. Qed.
  Lemma vrel_is_callable v v' : vrel v v' -> is_callable v = is_callable v'. Proof. destruct 1; reflexivity. Qed.
  Lemma vrel_fa2 v v' : vrel v v' -> fn_accepts2_of_value v = fn_accepts2_of_value v'.
  Proof. destruct 1; reflexivity. Qed.
  Lemma vrel_accepts v v' n : vrel v v' -> accepts v n = accepts v' n.
  Proof. intros H. unfold accepts. now rewrite (vrel_fn_arity _ _ _ _ _ H). Qed.

  (* Value::compare looks at data only (functions have no ordering) *)
  Lemma compare_rel : forall v v' w w', vrel v v' -> vrel w w' -> compare v w = compare v' w'.
  Proof.
    induction v using value_ind'; intros v' w w' Hv Hw; inversion Hv; subst; clear Hv;
      destruct Hw; try reflexivity.
    cbn [compare].
    match goal with HF : Forall2 _ l l' |- _ => rename HF into HL end.
    match goal with HF : Forall2 _ l0 l'0 |- _ => rename HF into HM end.
    revert l0 l'0 HM. induction HL as [|x x' l l' Vx _ IHl]; intros m m' HM.
    - destruct HM; reflexivity.
    - destruct HM as [|y y' m m' Vy HM]; [reflexivity|].
      inversion H as [|? ? Hx Hl]; subst.
      rewrite (Hx x' y y' Vx Vy). destruct (compare x' y') as [[| |]|]; try reflexivity.
      apply IHl; assumption.
  Qed.

  (* ---- the relational monad ---- *)
  Definition MR {A B} (Q : A -> B -> Prop) (m : M store A) (m' : M store B) : Prop :=
    forall st st', orel_gen Q (fst (m st)) (fst (m' st')).
  Lemma lift_MR {A B} (Q : A -> B -> Prop) o o' : orel_gen Q o o' -> MR Q (lift store o) (lift store o').
  Proof. intros H st st'. exact H. Qed.
  Lemma bindM_MR {A B A' B'} (Q : A -> B -> Prop) (Q' : A' -> B' -> Prop) m m' f f' :
    MR Q m m' -> (forall a a', Q a a' -> MR Q' (f a) (f' a')) ->
    MR Q' (bindM store m f) (bindM store m' f').
  Proof.
    intros Hm Hf st st'. unfold bindM. specialize (Hm st st').
    destruct (m st) as [o s1], (m' st') as [o' s1']. cbn [fst] in Hm.
    destruct o, o'; cbn in Hm; try contradiction; try exact I. apply Hf. exact Hm.
  Qed.
  Lemma for_each_MR {B B'} (Q : B -> B' -> Prop) idxs b b' :
    (forall i, MR Q (b i) (b' i)) -> MR (Forall2 Q) (for_each store idxs b) (for_each store idxs b').
  Proof.
    intros Hb. induction idxs as [|i r IH]; cbn [for_each].
    - apply lift_MR. constructor.
    - eapply bindM_MR; [apply Hb|]. intros y y' Hy. eapply bindM_MR; [apply IH|].
      intros ys ys' Hys. apply lift_MR. constructor; assumption.
  Qed.

  Lemma mapM_rel {A A' B B'} (R : A -> A' -> Prop) (S : B -> B' -> Prop) f f' l l' :
    Forall2 R l l' -> (forall x x', R x x' -> orel_gen S (f x) (f' x')) ->
    orel_gen (Forall2 S) (mapM f l) (mapM f' l').
  Proof.
    intros HL Hf. induction HL as [|x x' l l' Hx _ IH]; cbn [mapM]; [constructor|].
    specialize (Hf x x' Hx). destruct (f x), (f' x'); cbn in Hf; try contradiction; try exact I.
    cbn [obind]. destruct (mapM f l), (mapM f' l'); cbn in IH; try contradiction; try exact I.
    cbn. constructor; assumption.
  Qed.
  Lemma omap_VList_rel o o' : orel_gen lrel o o' -> orel (omap VList o) (omap VList o').
  Proof. destruct o, o'; cbn; try contradiction; auto. intros H. constructor. exact H. Qed.

  Lemma num2_rel f a a' b b' : vrel a a' -> vrel b b' -> orel (num2 f a b) (num2 f a' b').
  Proof.
    intros Ha Hb. unfold num2. rewrite <- (vrel_as_number _ _ _ _ _ Ha), <- (vrel_as_number _ _ _ _ _ Hb).
    destruct (as_number a); cbn; try exact I. destruct (as_number b); cbn; try exact I. constructor.
  Qed.
  Lemma and_q_rel a a' b b' : vrel a a' -> vrel b b' -> orel (and_q a b) (and_q a' b').
  Proof.
    intros Ha Hb. unfold and_q. rewrite <- (vrel_as_bool _ _ _ _ _ Ha), <- (vrel_as_bool _ _ _ _ _ Hb).
    destruct (as_bool a) as [[|]| | | |]; cbn; try exact I; [|constructor].
    destruct (as_bool b); cbn; try exact I. constructor.
  Qed.
  Lemma or_q_rel a a' b b' : vrel a a' -> vrel b b' -> orel (or_q a b) (or_q a' b').
  Proof.
    intros Ha Hb. unfold or_q. rewrite <- (vrel_as_bool _ _ _ _ _ Ha), <- (vrel_as_bool _ _ _ _ _ Hb).
    destruct (as_bool a) as [[|]| | | |]; cbn; try exact I; [constructor|].
    destruct (as_bool b); cbn; try exact I. constructor.
  Qed.
  Lemma add_match_rel a a' b b' : vrel a a' -> vrel b b' -> orel (add_match a b) (add_match a' b').
  Proof.
    intros Ha Hb. destruct Ha; destruct Hb; cbn; try exact I; constructor.
  Qed.
  Lemma ord_rel a a' b b' e : vrel a a' -> vrel b b' ->
    orel (do r <- check_ord (compare a b) e; Ok (VBool r)) (do r <- check_ord (compare a' b') e; Ok (VBool r)).
  Proof.
    intros Ha Hb. rewrite (compare_rel _ _ _ _ Ha Hb). destruct (check_ord _ _); cbn; try exact I. constructor.
  Qed.
  Lemma index_rel l l' i : lrel l l' -> orel (index l i) (index l' i).
  Proof.
    intros H. unfold index. pose proof (lrel_nth_error _ _ _ l l' i H) as G.
    destruct (nth_error l i), (nth_error l' i); try contradiction; cbn; auto.
  Qed.
  Lemma filter_some_rel (l l' : list (option value)) :
    Forall2 (fun o o' => match o, o' with Some v, Some v' => vrel v v' | None, None => True | _, _ => False end) l l' ->
    lrel (filter_some l) (filter_some l').
  Proof.
    induction 1 as [|o o' l l' Ho _ IH]; cbn; [constructor|].
    destruct o, o'; try contradiction; [constructor; assumption|exact IH].
  Qed.
  Lemma combine_rel l l' r r' : lrel l l' -> lrel r r' ->
    Forall2 (fun p p' => vrel (fst p) (fst p') /\ vrel (snd p) (snd p')) (combine l r) (combine l' r').
  Proof.
    intros HL. revert r r'. induction HL as [|x x' l l' Vx _ IH]; intros r r' HR; cbn; [constructor|].
    destruct HR as [|y y' r r' Vy HR]; constructor; [split; assumption|apply IH; exact HR].
  Qed.
  Lemma seq_rel n k : Forall2 (@eq nat) (seq k n) (seq k n).
  Proof. revert k. induction n; intros k; cbn; constructor; auto. Qed.

  Section Arms.
    Variable cb cb' : callback.
    Hypothesis Hcb : cb_rel cb cb'.
    Variable powf : num -> num -> num.
    Notation fa2 := fn_accepts2_of_value.

    Lemma call_fn_MR f f' args args' : vrel f f' -> lrel args args' ->
      MR vrel (call_fn store cb f args) (call_fn store cb' f' args').
    Proof. intros Hf Ha st st'. unfold call_fn. apply Hcb; assumption. Qed.

    Ltac lf := apply lift_MR.

    Lemma arm_scalar_rel op l l' r r' : eqfree op = true -> vrel l l' -> vrel r r' ->
      MR vrel (arm_scalar store cb powf op l r) (arm_scalar store cb' powf op l' r').
    Proof.
      intros Hop Hl Hr. unfold arm_scalar.
      destruct op; try discriminate; try (lf; exact I);
        try (lf; first [apply ord_rel|apply and_q_rel|apply or_q_rel|apply num2_rel]; assumption).
      - (* Add *) rewrite <- (vrel_is_string _ _ Hl). destruct (is_string l); lf; [|apply num2_rel; assumption].
        rewrite <- (vrel_as_string _ _ _ _ _ Hl), <- (vrel_as_string _ _ _ _ _ Hr).
        destruct (as_string l); cbn; try exact I. destruct (as_string r); cbn; try exact I. constructor.
      - (* Via *) rewrite <- (vrel_is_callable _ _ Hr). destruct (negb (is_callable r)); [lf; exact I|].
        apply call_fn_MR; [exact Hr|]. constructor; [exact Hl|constructor].
      - (* Into *) rewrite <- (vrel_is_callable _ _ Hr). destruct (negb (is_callable r)); [lf; exact I|].
        apply call_fn_MR; [exact Hr|]. constructor; [exact Hl|constructor].
      - (* Coalesce *) lf. rewrite <- (vrel_is_null _ _ Hl). destruct (is_null l); assumption.
    Qed.

    Ltac plist := apply omap_VList_rel; eapply mapM_rel; [eassumption|]; cbv beta.

    Lemma cbargs_rel (b : bool) x x' i : vrel x x' ->
      lrel (if b then [x; VNum (num_of_idx i)] else [x]) (if b then [x'; VNum (num_of_idx i)] else [x']).
    Proof. intros H. destruct b; repeat constructor; assumption. Qed.

    Lemma arm_list_scalar_rel op b l l' sc sc' : eqfree op = true -> lrel l l' -> vrel sc sc' ->
      MR vrel (arm_list_scalar store cb fa2 powf op b l sc) (arm_list_scalar store cb' fa2 powf op b l' sc').
    Proof.
      intros Hop Hl Hs. unfold arm_list_scalar. rewrite <- (lrel_length _ _ _ _ _ Hl).
      destruct op; try discriminate; try (lf; exact I).
      - (* Add *) lf. apply omap_VList_rel. eapply mapM_rel; [apply seq_rel|]. intros i ? <-.
        pose proof (index_rel l l' i Hl) as Hi. destruct (index l i), (index l' i); cbn in Hi; try contradiction; try exact I.
        cbn [obind]. destruct b; apply add_match_rel; assumption.
      - lf. plist. intros x x' Hx. destruct b; apply num2_rel; assumption.
      - lf. plist. intros x x' Hx. apply num2_rel; assumption.
      - lf. plist. intros x x' Hx. destruct b; apply num2_rel; assumption.
      - lf. plist. intros x x' Hx. destruct b; apply num2_rel; assumption.
      - lf. plist. intros x x' Hx. destruct b; apply num2_rel; assumption.
      - lf. cbn [expected_of obind]. plist. intros x x' Hx. destruct b; apply ord_rel; assumption.
      - lf. cbn [expected_of obind]. plist. intros x x' Hx. destruct b; apply ord_rel; assumption.
      - lf. cbn [expected_of obind]. plist. intros x x' Hx. destruct b; apply ord_rel; assumption.
      - lf. cbn [expected_of obind]. plist. intros x x' Hx. destruct b; apply ord_rel; assumption.
      - lf. apply omap_VList_rel. destruct b; (eapply mapM_rel; [eassumption|]); intros x x' Hx; apply and_q_rel; assumption.
      - lf. apply omap_VList_rel. destruct b; (eapply mapM_rel; [eassumption|]); intros x x' Hx; apply and_q_rel; assumption.
      - lf. apply omap_VList_rel. destruct b; (eapply mapM_rel; [eassumption|]); intros x x' Hx; apply or_q_rel; assumption.
      - lf. apply omap_VList_rel. destruct b; (eapply mapM_rel; [eassumption|]); intros x x' Hx; apply or_q_rel; assumption.
      - (* Via *)
        destruct b; [|lf; exact I]. rewrite <- (vrel_is_callable _ _ Hs).
        destruct (negb (is_callable sc)); [lf; exact I|]. rewrite <- (vrel_fa2 _ _ Hs).
        eapply bindM_MR.
        + apply for_each_MR. intros i. eapply bindM_MR; [lf; apply index_rel; exact Hl|].
          intros a a' Ha. apply call_fn_MR; [exact Hs|]. apply cbargs_rel. exact Ha.
        + intros ys ys' Hys. lf. constructor. exact Hys.
      - (* Into *)
        destruct b; [|lf; exact I]. rewrite <- (vrel_is_callable _ _ Hs).
        destruct (negb (is_callable sc)); [lf; exact I|].
        apply call_fn_MR; [exact Hs|]. constructor; [constructor; exact Hl|constructor].
      - (* Where *)
        destruct b; [|lf; exact I]. rewrite <- (vrel_is_callable _ _ Hs).
        destruct (negb (is_callable sc)); [lf; exact I|]. rewrite <- (vrel_fa2 _ _ Hs).
        eapply bindM_MR.
        + apply for_each_MR with
            (Q := fun o o' => match o, o' with Some v, Some v' => vrel v v' | None, None => True | _, _ => False end).
          intros i. eapply bindM_MR; [lf; apply index_rel; exact Hl|].
          intros a a' Ha. eapply bindM_MR; [apply call_fn_MR; [exact Hs|apply cbargs_rel; exact Ha]|].
          intros res res' Hres. rewrite <- (vrel_as_bool _ _ _ _ _ Hres).
          eapply bindM_MR with (Q := @eq bool).
          * lf. destruct (as_bool res); cbn; auto.
          * intros k ? <-. lf. destruct k; cbn; auto.
        + intros ys ys' Hys. lf. constructor. apply filter_some_rel. exact Hys.
      - (* Coalesce *) lf. plist. intros x x' Hx. cbn.
        rewrite <- (vrel_is_null _ _ Hx), <- (vrel_is_null _ _ Hs).
        destruct b; [destruct (is_null x)|destruct (is_null sc)]; assumption.
    Qed.

    Lemma arm_list_list_rel op l l' r r' : eqfree op = true -> lrel l l' -> lrel r r' ->
      MR vrel (arm_list_list store cb powf op l r) (arm_list_list store cb' powf op l' r').
    Proof.
      intros Hop Hl Hr. unfold arm_list_list.
      rewrite <- (lrel_length _ _ _ _ _ Hl), <- (lrel_length _ _ _ _ _ Hr).
      destruct (negb (Nat.eqb (Datatypes.length l) (Datatypes.length r))); [lf; exact I|].
      pose proof (combine_rel l l' r r' Hl Hr) as Hz.
      destruct op; try discriminate; try (lf; exact I);
        try (lf; cbn [expected_of obind]; apply omap_VList_rel; eapply mapM_rel; [exact Hz|];
             intros [x y] [x' y'] [Hx Hy]; cbn [fst snd] in *;
             first [apply num2_rel|apply ord_rel|apply and_q_rel|apply or_q_rel]; assumption).
      - (* Add *) lf. apply omap_VList_rel. eapply mapM_rel; [apply seq_rel|]. intros i ? <-.
        pose proof (index_rel l l' i Hl) as Hi. destruct (index l i), (index l' i); cbn in Hi; try contradiction; try exact I.
        cbn [obind].
        pose proof (index_rel r r' i Hr) as Hj. destruct (index r i), (index r' i); cbn in Hj; try contradiction; try exact I.
        cbn [obind]. apply add_match_rel; assumption.
      - (* Via *)
        eapply bindM_MR.
        + apply for_each_MR. intros i.
          eapply bindM_MR with (Q := fun p p' => vrel (fst p) (fst p') /\ vrel (snd p) (snd p')).
          * lf. pose proof (index_rel l l' i Hl) as Hi.
            destruct (index l i), (index l' i); cbn in Hi; try contradiction; try exact I. cbn [obind].
            pose proof (index_rel r r' i Hr) as Hj.
            destruct (index r i), (index r' i); cbn in Hj; try contradiction; try exact I. cbn. split; assumption.
          * intros [x y] [x' y'] [Hx Hy]. cbn [fst snd] in *.
            rewrite <- (vrel_is_lambda _ _ Hy), <- (vrel_is_built_in _ _ Hy).
            destruct (negb (is_lambda y) && negb (is_built_in y)); [lf; exact I|].
            apply call_fn_MR; [exact Hy|]. constructor; [exact Hx|constructor].
        + intros ys ys' Hys. lf. constructor. exact Hys.
      - (* Coalesce *) lf. apply omap_VList_rel. eapply mapM_rel; [exact Hz|].
        intros [x y] [x' y'] [Hx Hy]. cbn [fst snd] in *. cbn. rewrite <- (vrel_is_null _ _ Hx).
        destruct (is_null x); assumption.
    Qed.

    (* the whole operator function, for every operator that does not apply Value::equals *)
    Theorem eval_binop_rel op l l' r r' st st' : eqfree op = true -> vrel l l' -> vrel r r' ->
      orel (fst (eval_binop store cb fa2 powf op l r st)) (fst (eval_binop store cb' fa2 powf op l' r' st')).
    Proof.
      intros Hop Hl Hr.
      assert (Hbody : orel
        (fst (if is_list r && binop_eqb op Into then (Err, st) else
              match l, r with
              | VList list_l, VList list_r => arm_list_list store cb powf op list_l list_r st
              | VList list, scalar => arm_list_scalar store cb fa2 powf op true list scalar st
              | scalar, VList list => arm_list_scalar store cb fa2 powf op false list scalar st
              | _, _ => arm_scalar store cb powf op l r st
              end))
        (fst (if is_list r' && binop_eqb op Into then (Err, st') else
              match l', r' with
              | VList list_l, VList list_r => arm_list_list store cb' powf op list_l list_r st'
              | VList list, scalar => arm_list_scalar store cb' fa2 powf op true list scalar st'
              | scalar, VList list => arm_list_scalar store cb' fa2 powf op false list scalar st'
              | _, _ => arm_scalar store cb' powf op l' r' st'
              end))).
      { rewrite <- (vrel_is_list _ _ Hr). destruct (is_list r && binop_eqb op Into); [exact I|].
        destruct Hl eqn:El; destruct Hr eqn:Er;
          first [ apply arm_list_list_rel; assumption
                | apply arm_list_scalar_rel; [assumption|assumption|]; (econstructor; eassumption)
                | apply arm_scalar_rel; [assumption| |]; (econstructor; eassumption) ]. }
      unfold eval_binop. destruct op; try discriminate; try exact Hbody; cbn [fst].
      - apply ord_rel; assumption.
      - apply ord_rel; assumption.
      - apply ord_rel; assumption.
      - apply ord_rel; assumption.
    Qed.
  End Arms.
End Ops.

(* ------------------------------------------------------------------ built-ins *)
(* the built-ins of EvalInst.builtin_impl proved to respect the relation: the callback-taking ones
   and the pure ones that never apply Value::equals *)
Notation biok_inst := Blots.proofs.EmitHOOps.biok_inst.

Section Builtins.
  Variable opok : binop -> bool.
  Variable biok : builtin -> bool.
  Variable nanfix : bool.
  Notation vrel := (vrel opok biok nanfix).
  Notation lrel := (lrel opok biok nanfix).
  Notation orel := (orel opok biok nanfix).
  Notation cb_rel := (cb_rel opok biok nanfix).

  Variable cb cb' : callback.
  Hypothesis Hcb : cb_rel cb cb'.

  Lemma cb_args_rel two x x' i : vrel x x' -> lrel (cb_args two x i) (cb_args two x' i).
  Proof. intros H. unfold cb_args. destruct two; repeat constructor; assumption. Qed.

  (* one callback step on both sides *)
  Ltac cbstep f f' xs xs' st st' Hf Ha :=
    pose proof (Hcb f f' f f' xs xs' st st' Hf Ha) as Hc;
    destruct (cb f f xs st) as [o s1]; destruct (cb' f' f' xs' st') as [o' s1']; cbn [fst] in Hc;
    destruct o as [a| | | |], o' as [a0| | | |]; cbn in Hc; try contradiction; try exact I.

  Lemma map_loop_rel f f' two l l' : vrel f f' -> lrel l l' -> forall i st st',
    orel_gen lrel (fst (map_loop cb f two l i st)) (fst (map_loop cb' f' two l' i st')).
  Proof.
    intros Hf HL. induction HL as [|x x' l l' Hx _ IH]; intros i st st'; cbn [map_loop]; [constructor|].
    cbstep f f' (cb_args two x i) (cb_args two x' i) st st' Hf (cb_args_rel two x x' i Hx).
    specialize (IH (S i) s1 s1'). destruct (map_loop cb f two l (S i) s1) as [o2 s2], (map_loop cb' f' two l' (S i) s1') as [o2' s2'].
    cbn [fst] in IH. destruct o2, o2'; cbn in IH; try contradiction; try exact I. cbn. constructor; assumption.
  Qed.
  Lemma filter_loop_rel f f' two l l' : vrel f f' -> lrel l l' -> forall i st st',
    orel_gen lrel (fst (filter_loop cb f two l i st)) (fst (filter_loop cb' f' two l' i st')).
  Proof.
    intros Hf HL. induction HL as [|x x' l l' Hx _ IH]; intros i st st'; cbn [filter_loop]; [constructor|].
    cbstep f f' (cb_args two x i) (cb_args two x' i) st st' Hf (cb_args_rel two x x' i Hx).
    rewrite <- (vrel_as_bool _ _ _ _ _ Hc). destruct (as_bool a) as [keep| | | |]; cbn; try exact I.
    specialize (IH (S i) s1 s1'). destruct (filter_loop cb f two l (S i) s1) as [o2 s2], (filter_loop cb' f' two l' (S i) s1') as [o2' s2'].
    cbn [fst] in IH. destruct o2, o2'; cbn in IH; try contradiction; try exact I. cbn.
    destruct keep; [constructor; assumption|assumption].
  Qed.
  Lemma reduce_loop_rel f f' three l l' : vrel f f' -> lrel l l' -> forall i acc acc' st st', vrel acc acc' ->
    orel (fst (reduce_loop cb f three l i acc st)) (fst (reduce_loop cb' f' three l' i acc' st')).
  Proof.
    intros Hf HL. induction HL as [|x x' l l' Hx _ IH]; intros i acc acc' st st' Ha; cbn [reduce_loop]; [exact Ha|].
    assert (Hargs : lrel (if three then [acc; x; idx_num i] else [acc; x]) (if three then [acc'; x'; idx_num i] else [acc'; x']))
      by (destruct three; repeat constructor; assumption).
    cbstep f f' (if three then [acc; x; idx_num i] else [acc; x]) (if three then [acc'; x'; idx_num i] else [acc'; x']) st st' Hf Hargs.
    apply IH. exact Hc.
  Qed.
  Lemma every_loop_rel f f' two l l' : vrel f f' -> lrel l l' -> forall i st st',
    orel (fst (every_loop cb f two l i st)) (fst (every_loop cb' f' two l' i st')).
  Proof.
    intros Hf HL. induction HL as [|x x' l l' Hx _ IH]; intros i st st'; cbn [every_loop]; [constructor|].
    cbstep f f' (cb_args two x i) (cb_args two x' i) st st' Hf (cb_args_rel two x x' i Hx).
    rewrite <- (vrel_as_bool _ _ _ _ _ Hc). destruct (as_bool a) as [[|]| | | |]; cbn; try exact I; [apply IH|constructor].
  Qed.
  Lemma some_loop_rel f f' two l l' : vrel f f' -> lrel l l' -> forall i st st',
    orel (fst (some_loop cb f two l i st)) (fst (some_loop cb' f' two l' i st')).
  Proof.
    intros Hf HL. induction HL as [|x x' l l' Hx _ IH]; intros i st st'; cbn [some_loop]; [constructor|].
    cbstep f f' (cb_args two x i) (cb_args two x' i) st st' Hf (cb_args_rel two x x' i Hx).
    rewrite <- (vrel_as_bool _ _ _ _ _ Hc). destruct (as_bool a) as [[|]| | | |]; cbn; try exact I; [constructor|apply IH].
  Qed.

  Lemma arg_rel args args' i : lrel args args' -> orel (arg args i) (arg args' i).
  Proof.
    intros H. unfold arg. pose proof (lrel_nth_error _ _ _ args args' i H) as G.
    destruct (nth_error args i), (nth_error args' i); try contradiction; cbn; auto.
  Qed.
  Lemma as_list_rel v v' : vrel v v' -> orel_gen lrel (as_list v) (as_list v').
  Proof. destruct 1; cbn; auto. Qed.
  Lemma hof_prelude_rel args args' : lrel args args' ->
    orel_gen (fun p p' => vrel (fst p) (fst p') /\ lrel (snd p) (snd p')) (hof_prelude args) (hof_prelude args').
  Proof.
    intros H. unfold hof_prelude.
    pose proof (arg_rel args args' 1 H) as H1. destruct (arg args 1), (arg args' 1); cbn in H1; try contradiction; try exact I.
    cbn [obind].
    pose proof (arg_rel args args' 0 H) as H0. destruct (arg args 0), (arg args' 0); cbn in H0; try contradiction; try exact I.
    cbn [obind].
    destruct H0; cbn [as_list obind]; try exact I.
    unfold as_function. rewrite <- (vrel_is_function _ _ _ _ _ H1).
    destruct (is_function a); cbn; [|exact I]. split; assumption.
  Qed.

  (* a pure built-in that respects the relation on its argument vector *)
  Lemma pure_bi_rel (f : list value -> outcome value) args args' st st' :
    orel (f args) (f args') -> orel (fst (pure_bi f args st)) (fst (pure_bi f args' st')).
  Proof. intros H. exact H. Qed.

  Lemma num1_rel g args args' : lrel args args' -> orel (num1 g args) (num1 g args').
  Proof.
    intros H. unfold num1. pose proof (arg_rel args args' 0 H) as H0.
    destruct (arg args 0), (arg args' 0); cbn in H0; try contradiction; try exact I. cbn [obind].
    rewrite <- (vrel_as_number _ _ _ _ _ H0). destruct (as_number a); cbn; try exact I. constructor.
  Qed.
  Lemma cmp2_rel g args args' : (forall a a' b b', vrel a a' -> vrel b b' -> g a b = g a' b') ->
    lrel args args' -> orel (cmp2 g args) (cmp2 g args').
  Proof.
    intros Hg H. unfold cmp2. pose proof (arg_rel args args' 0 H) as H0.
    destruct (arg args 0), (arg args' 0); cbn in H0; try contradiction; try exact I. cbn [obind].
    pose proof (arg_rel args args' 1 H) as H1.
    destruct (arg args 1), (arg args' 1); cbn in H1; try contradiction; try exact I. cbn.
    rewrite (Hg _ _ _ _ H0 H1). constructor.
  Qed.
  Lemma boolish_rel l l' : lrel l l' -> map boolish l = map boolish l'.
  Proof. induction 1 as [|x x' l l' Hx _ IH]; cbn; [reflexivity|]. f_equal; [destruct Hx; reflexivity|exact IH]. Qed.
  Lemma existsb_map {A} (p : A -> bool) l : existsb p l = existsb (fun b => b) (map p l).
  Proof. induction l; cbn; congruence. Qed.
  Lemma forallb_map {A} (p : A -> bool) l : forallb p l = forallb (fun b => b) (map p l).
  Proof. induction l; cbn; congruence. Qed.

  (* the built-in dispatcher of EvalInst.v *)
  Theorem builtin_impl_rel b args args' st st' : biok_inst b = true -> lrel args args' ->
    orel (fst (builtin_impl cb b args st)) (fst (builtin_impl cb' b args' st')).
  Proof.
    intros Hb Ha.
    assert (Hcmp : forall g, (forall a a' b b', vrel a a' -> vrel b b' -> g a b = g a' b') ->
              orel (fst (pure_bi (cmp2 g) args st)) (fst (pure_bi (cmp2 g) args' st')))
      by (intros g Hg; apply pure_bi_rel, cmp2_rel; assumption).
    destruct b; try discriminate; cbn [builtin_impl];
      try (apply pure_bi_rel, num1_rel; exact Ha).
    - (* any *) apply pure_bi_rel. unfold bi_any. pose proof (arg_rel args args' 0 Ha) as H0.
      destruct (arg args 0), (arg args' 0); cbn in H0; try contradiction; try exact I. cbn [obind].
      destruct H0; cbn [as_list obind]; try exact I.
      cbn. rewrite (existsb_map boolish l), (existsb_map boolish l'), (boolish_rel l l'); [constructor|assumption].
    - (* all *) apply pure_bi_rel. unfold bi_all. pose proof (arg_rel args args' 0 Ha) as H0.
      destruct (arg args 0), (arg args' 0); cbn in H0; try contradiction; try exact I. cbn [obind].
      destruct H0; cbn [as_list obind]; try exact I.
      cbn. rewrite (forallb_map boolish l), (forallb_map boolish l'), (boolish_rel l l'); [constructor|assumption].
    - (* map *) unfold bi_map. pose proof (hof_prelude_rel args args' Ha) as HP.
      destruct (hof_prelude args) as [[f l]| | | |], (hof_prelude args') as [[f' l']| | | |]; cbn in HP; try contradiction; try exact I.
      destruct HP as [Hf Hl]. rewrite <- (vrel_accepts opok biok nanfix _ _ 2 Hf).
      pose proof (map_loop_rel f f' (accepts f 2) l l' Hf Hl 0 st st') as HM.
      destruct (map_loop cb f (accepts f 2) l 0 st) as [o s1], (map_loop cb' f' (accepts f 2) l' 0 st') as [o' s1'].
      cbn [fst] in *. apply omap_VList_rel. exact HM.
    - (* reduce *) unfold bi_reduce.
      pose proof (arg_rel args args' 1 Ha) as H1. destruct (arg args 1), (arg args' 1); cbn in H1; try contradiction; try exact I.
      cbn [obind].
      pose proof (arg_rel args args' 2 Ha) as H2. destruct (arg args 2), (arg args' 2); cbn in H2; try contradiction; try exact I.
      cbn [obind].
      pose proof (arg_rel args args' 0 Ha) as H0. destruct (arg args 0), (arg args' 0); cbn in H0; try contradiction; try exact I.
      cbn [obind].
      destruct H0; cbn [as_list obind]; try exact I.
      unfold as_function. rewrite <- (vrel_is_function _ _ _ _ _ H1).
      destruct (is_function a); cbn; [|exact I].
      rewrite <- (vrel_accepts opok biok nanfix _ _ 3 H1). apply reduce_loop_rel; assumption.
    - (* filter *) unfold bi_filter. pose proof (hof_prelude_rel args args' Ha) as HP.
      destruct (hof_prelude args) as [[f l]| | | |], (hof_prelude args') as [[f' l']| | | |]; cbn in HP; try contradiction; try exact I.
      destruct HP as [Hf Hl]. rewrite <- (vrel_accepts opok biok nanfix _ _ 2 Hf).
      pose proof (filter_loop_rel f f' (accepts f 2) l l' Hf Hl 0 st st') as HM.
      destruct (filter_loop cb f (accepts f 2) l 0 st) as [o s1], (filter_loop cb' f' (accepts f 2) l' 0 st') as [o' s1'].
      cbn [fst] in *. apply omap_VList_rel. exact HM.
    - (* every *) unfold bi_every. pose proof (hof_prelude_rel args args' Ha) as HP.
      destruct (hof_prelude args) as [[f l]| | | |], (hof_prelude args') as [[f' l']| | | |]; cbn in HP; try contradiction; try exact I.
      destruct HP as [Hf Hl]. rewrite <- (vrel_accepts opok biok nanfix _ _ 2 Hf). apply every_loop_rel; assumption.
    - (* some *) unfold bi_some. pose proof (hof_prelude_rel args args' Ha) as HP.
      destruct (hof_prelude args) as [[f l]| | | |], (hof_prelude args') as [[f' l']| | | |]; cbn in HP; try contradiction; try exact I.
      destruct HP as [Hf Hl]. rewrite <- (vrel_accepts opok biok nanfix _ _ 2 Hf). apply some_loop_rel; assumption.
    - (* to_bool *) apply pure_bi_rel. unfold bi_to_bool. pose proof (arg_rel args args' 0 Ha) as H0.
      destruct (arg args 0), (arg args' 0); cbn in H0; try contradiction; try exact I. cbn [obind].
      destruct H0; cbn; try exact I; constructor.
    - (* typeof *) apply pure_bi_rel. unfold bi_typeof. pose proof (arg_rel args args' 0 Ha) as H0.
      destruct (arg args 0), (arg args' 0); cbn in H0; try contradiction; try exact I. cbn.
      rewrite (vrel_type_of _ _ _ _ _ H0). constructor.
    - (* arity *) apply pure_bi_rel. unfold bi_arity. pose proof (arg_rel args args' 0 Ha) as H0.
      destruct (arg args 0), (arg args' 0); cbn in H0; try contradiction; try exact I. cbn [obind].
      rewrite <- (vrel_fn_arity _ _ _ _ _ H0). destruct (fn_arity a) as [[?|?|? ?]|]; cbn; try exact I; constructor.
    - (* ugt *) apply Hcmp. intros a a' b0 b' Hx Hy. unfold ugt. now rewrite (compare_rel opok biok nanfix _ _ _ _ Hx Hy).
    - apply Hcmp. intros a a' b0 b' Hx Hy. unfold ult. now rewrite (compare_rel opok biok nanfix _ _ _ _ Hx Hy).
    - apply Hcmp. intros a a' b0 b' Hx Hy. unfold ugte. now rewrite (compare_rel opok biok nanfix _ _ _ _ Hx Hy).
    - apply Hcmp. intros a a' b0 b' Hx Hy. unfold ulte. now rewrite (compare_rel opok biok nanfix _ _ _ _ Hx Hy).
  Qed.

  (* EvalFull.builtin_full: every arm covered by biok_inst falls through to builtin_impl.  The arms
     that builtin_full adds (aggregates, list / string / record built-ins, sort_by / group_by /
     count_by) are NOT covered yet: each needs one lemma `orel (bi_x args) (bi_x args')` (pure_bi_rel)
     or a loop lemma in the style of map_loop_rel, and one more case below. *)
  Theorem builtin_full_rel b args args' st st' : biok_inst b = true -> lrel args args' ->
    orel (fst (builtin_full cb b args st)) (fst (builtin_full cb' b args' st')).
  Proof.
    intros Hb Ha. destruct b; try discriminate; cbn [builtin_full]; apply builtin_impl_rel; auto.
  Qed.
End Builtins.
