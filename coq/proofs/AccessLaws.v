(* AccessLaws.v — laws of indexing, slicing and spreading (Access.v, BuiltinsList.v). *)
From Coq Require Import String Ascii List ZArith Bool Lia.
Require Import Blots.Num Blots.gen.Builtins Blots.Ast Blots.Value Blots.Outcome Blots.Access Blots.BuiltinsList Blots.proofs.ValueInd.
Import ListNotations.
Open Scope list_scope.

(* ---------- Part 1: indexing ---------- *)
Definition index_of {A} (items : list A) (i : Z) : option A :=
  let n := Z.of_nat (length items) in
  if ((0 <=? i) && (i <? n))%Z then nth_error items (Z.to_nat i)
  else if ((- n <=? i) && (i <? 0))%Z then nth_error items (Z.to_nat (n + i))
  else None.

Ltac zcases :=
  repeat (match goal with
          | |- context [(?a <? ?b)%Z] => destruct (Z.ltb_spec a b)
          | |- context [(?a <=? ?b)%Z] => destruct (Z.leb_spec a b)
          end; cbn [andb orb]).

Lemma index_get_spec {A} (items : list A) x : index_get items x = index_of items (as_i64 x).
Proof.
  unfold index_get, index_of, list_get.
  generalize (as_i64 x) as i. intro i.
  generalize (Z.of_nat (length items)) as n. intro n.
  zcases; try reflexivity; try lia.
Qed.

Lemma index_spec_list l x :
  access_value (VList l) (VNum x) = Ok (match index_of l (as_i64 x) with Some e => e | None => VNull end).
Proof.
  cbn [access_value]. rewrite index_get_spec. reflexivity.
Qed.

Lemma index_spec_string s x :
  access_value (VStr s) (VNum x) = Ok (match index_of (chars s) (as_i64 x) with Some c => VStr c | None => VNull end).
Proof.
  cbn [access_value]. rewrite index_get_spec. reflexivity.
Qed.

Lemma index_in_range l x i e : as_i64 x = Z.of_nat i -> nth_error l i = Some e -> access_value (VList l) (VNum x) = Ok e.
Proof.
  intros Hx He. rewrite index_spec_list, Hx. unfold index_of.
  assert (Hi : (i < length l)%nat) by (apply nth_error_Some; congruence).
  destruct (Z.leb_spec 0 (Z.of_nat i)); [| lia].
  destruct (Z.ltb_spec (Z.of_nat i) (Z.of_nat (length l))); [| lia].
  cbn [andb]. rewrite Nat2Z.id, He. reflexivity.
Qed.

Lemma index_from_end l x i e :
  as_i64 x = (- Z.of_nat (S i))%Z -> (i < length l)%nat -> nth_error l (length l - S i) = Some e ->
  access_value (VList l) (VNum x) = Ok e.
Proof.
  intros Hx Hi He. rewrite index_spec_list, Hx. unfold index_of.
  destruct (Z.leb_spec 0 (- Z.of_nat (S i))); [lia |].
  cbn [andb].
  destruct (Z.leb_spec (- Z.of_nat (length l)) (- Z.of_nat (S i))); [| lia].
  destruct (Z.ltb_spec (- Z.of_nat (S i)) 0); [| lia].
  cbn [andb].
  replace (Z.to_nat (Z.of_nat (length l) + - Z.of_nat (S i))) with (length l - S i)%nat by lia.
  rewrite He. reflexivity.
Qed.

Lemma index_out_of_range l x :
  (Z.of_nat (length l) <= as_i64 x \/ as_i64 x < - Z.of_nat (length l))%Z ->
  access_value (VList l) (VNum x) = Ok VNull.
Proof.
  intros H. rewrite index_spec_list. unfold index_of.
  revert H. generalize (as_i64 x) as i. intros i H.
  zcases; try reflexivity; lia.
Qed.

Lemma index_wrong_types v idx :
  match v with VRec _ | VList _ | VStr _ => False | _ => True end -> access_value v idx = Err.
Proof.
  destruct v; cbn [access_value]; intros H; try reflexivity; destruct H.
Qed.

(* ---------- Part 2: slice ---------- *)
Lemma slice_spec l x y a b :
  as_usize x = Z.of_nat a -> as_usize y = Z.of_nat b -> (a <= b)%nat -> (b <= length l)%nat ->
  bi_slice [VList l; VNum x; VNum y] = Ok (VList (firstn (b - a) (skipn a l))).
Proof.
  intros Hx Hy Hab Hbl. unfold bi_slice, arg.
  cbn [nth_error obind as_number]. rewrite Hx, Hy. unfold slice_get.
  destruct (Z.leb_spec (Z.of_nat a) (Z.of_nat b)); [| lia].
  destruct (Z.leb_spec (Z.of_nat b) (Z.of_nat (length l))); [| lia].
  cbn [andb].
  replace (Z.to_nat (Z.of_nat b - Z.of_nat a)) with (b - a)%nat by lia.
  rewrite Nat2Z.id. reflexivity.
Qed.

Lemma skipn_skipn_add {A} (a n : nat) : forall l : list A, skipn n (skipn a l) = skipn (a + n) l.
Proof.
  induction a as [| a IH]; intros l.
  - reflexivity.
  - destruct l as [| y l].
    + cbn [skipn Nat.add]. destruct n; reflexivity.
    + cbn [skipn Nat.add]. apply IH.
Qed.

Lemma slice_rebuild {A} (l : list A) a b : (a <= b)%nat -> (b <= length l)%nat ->
  firstn a l ++ firstn (b - a) (skipn a l) ++ skipn b l = l.
Proof.
  intros Hab Hbl.
  replace (skipn b l) with (skipn (b - a) (skipn a l)).
  - rewrite firstn_skipn. apply firstn_skipn.
  - rewrite skipn_skipn_add. f_equal. lia.
Qed.

Lemma slice_out_of_bounds l x y :
  (as_usize y < as_usize x \/ Z.of_nat (length l) < as_usize y)%Z -> bi_slice [VList l; VNum x; VNum y] = Err.
Proof.
  intros H. unfold bi_slice, arg.
  cbn [nth_error obind as_number]. unfold slice_get.
  revert H. generalize (as_usize x) as a. generalize (as_usize y) as b. intros b a H.
  zcases; try reflexivity; lia.
Qed.

(* ---------- Part 3: spreading ---------- *)
Lemma spread_list l : (do s <- spread_of (VList l); list_literal [s]) = Ok (VList l).
Proof.
  cbn [spread_of obind list_literal flatten_spreads flatten_spread_value].
  rewrite app_nil_r. reflexivity.
Qed.

Lemma spread_string s : (do sp <- spread_of (VStr s); list_literal [sp]) = Ok (VList (map VStr (chars s))).
Proof.
  cbn [spread_of obind list_literal flatten_spreads flatten_spread_value].
  rewrite app_nil_r. reflexivity.
Qed.

Lemma spread_record r :
  (do sp <- spread_of (VRec r); list_literal [sp]) = Ok (VList (map (fun kv => VList [VStr (fst kv); snd kv]) r)).
Proof.
  cbn [spread_of obind list_literal flatten_spreads flatten_spread_value].
  rewrite app_nil_r. reflexivity.
Qed.

Lemma spread_concat a b :
  (do sa <- spread_of (VList a); do sb <- spread_of (VList b); list_literal [sa; sb]) = bi_concat [VList a; VList b].
Proof.
  unfold bi_concat.
  cbn [spread_of obind list_literal flatten_spreads flatten_spread_value concat_args].
  reflexivity.
Qed.

Lemma spread_non_iterable v :
  match v with VRec _ | VList _ | VStr _ => False | _ => True end -> spread_of v = Err.
Proof.
  destruct v; cbn [spread_of]; intros H; try reflexivity; destruct H.
Qed.

Lemma flatten_spreads_plain vs :
  (forall v, In v vs -> match v with VSpread _ => False | _ => True end) -> flatten_spreads vs = Ok vs.
Proof.
  induction vs as [| v vs IH]; intros H.
  - reflexivity.
  - assert (Hv := H v (or_introl eq_refl)).
    assert (IH' : flatten_spreads vs = Ok vs) by (apply IH; intros w Hw; apply H; right; exact Hw).
    destruct v; cbn [flatten_spreads]; try (rewrite IH'; reflexivity).
    destruct Hv.
Qed.

Lemma flatten_spreads_app a b :
  flatten_spreads (a ++ b) = (do x <- flatten_spreads a; do y <- flatten_spreads b; Ok (x ++ y)).
Proof.
  induction a as [| v a IH].
  - cbn [app flatten_spreads obind]. destruct (flatten_spreads b); reflexivity.
  - rewrite <- app_comm_cons.
    destruct v; cbn [flatten_spreads]; rewrite IH;
      try (destruct (flatten_spreads a); cbn [obind]; try reflexivity;
           destruct (flatten_spreads b); cbn [obind]; reflexivity).
    destruct (flatten_spread_value v); cbn [obind]; try reflexivity.
    destruct (flatten_spreads a); cbn [obind]; try reflexivity.
    destruct (flatten_spreads b); cbn [obind]; try reflexivity.
    rewrite app_assoc. reflexivity.
Qed.

Lemma spread_call_args a b rest :
  flatten_spreads (VSpread (VList a) :: VSpread (VList b) :: rest) =
  (do r <- flatten_spreads rest; Ok (a ++ b ++ r)).
Proof.
  cbn [flatten_spreads flatten_spread_value obind].
  destruct (flatten_spreads rest); reflexivity.
Qed.

Lemma rec_insert_fresh {A} (acc : list (string * A)) k v :
  ~ In k (map fst acc) -> rec_insert acc k v = acc ++ [(k, v)].
Proof.
  induction acc as [| [k' v'] acc IH]; intros H.
  - reflexivity.
  - cbn [rec_insert app]. cbn [map fst In] in H.
    destruct (String.eqb_spec k k') as [E | E].
    + exfalso. apply H. left. symmetry. exact E.
    + rewrite IH; [reflexivity |]. intros Hin. apply H. right. exact Hin.
Qed.

Lemma insert_all_app r : forall acc, NoDup (map fst (acc ++ r)) -> insert_all acc r = acc ++ r.
Proof.
  induction r as [| [k x] r IH]; intros acc H.
  - cbn [insert_all]. rewrite app_nil_r. reflexivity.
  - cbn [insert_all].
    assert (Hk : ~ In k (map fst acc)).
    { rewrite map_app in H. cbn [map fst] in H. apply NoDup_remove_2 in H.
      intros Hin. apply H. apply in_or_app. left. exact Hin. }
    rewrite (rec_insert_fresh acc k x Hk).
    rewrite IH.
    + rewrite <- app_assoc. reflexivity.
    + rewrite <- app_assoc. exact H.
Qed.

(* spreading a record into an empty record literal gives the record back *)
Lemma insert_all_fresh r : NoDup (map fst r) -> insert_all [] r = r.
Proof.
  intros H. apply (insert_all_app r []). exact H.
Qed.

Lemma record_spread_identity r : NoDup (map fst r) -> record_literal [RISpread (VSpread (VRec r))] = Ok (VRec r).
Proof.
  intros H. unfold record_literal.
  cbn [record_literal_from record_spread_insert obind].
  rewrite (insert_all_fresh r H). reflexivity.
Qed.

(* later entries win, position of the first occurrence is kept (IndexMap::insert) *)
Lemma rec_get_insert {A} (r : list (string * A)) k v k' : rec_get (rec_insert r k v) k' = if String.eqb k' k then Some v else rec_get r k'.
Proof.
  induction r as [| [k0 v0] r IH].
  - reflexivity.
  - cbn [rec_insert rec_get].
    destruct (String.eqb_spec k k0) as [E | E].
    + subst k0. cbn [rec_get]. destruct (String.eqb k' k); reflexivity.
    + cbn [rec_get]. rewrite IH.
      destruct (String.eqb_spec k' k0) as [E0 | E0]; [| reflexivity].
      destruct (String.eqb_spec k' k) as [E1 | E1]; [| reflexivity].
      exfalso. apply E. congruence.
Qed.

Lemma record_spread_override r k v :
  exists r', record_literal [RISpread (VSpread (VRec r)); RIPair k v] = Ok (VRec r') /\ rec_get r' k = Some v /\
             (forall k', k' <> k -> rec_get r' k' = rec_get (insert_all [] r) k').
Proof.
  exists (rec_insert (insert_all [] r) k v). split; [| split].
  - reflexivity.
  - rewrite rec_get_insert, String.eqb_refl. reflexivity.
  - intros k' Hk. rewrite rec_get_insert.
    destruct (String.eqb_spec k' k) as [E | E]; [contradiction | reflexivity].
Qed.
