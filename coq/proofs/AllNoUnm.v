(* AllNoUnm.v — NO EVALUATION IS UNMODELLED ANY MORE: for every oracle, no arm of EvalAll.builtin_all and
   no operator of EvalAll.binop_all answers [Unmodelled] unless its callback does, hence (AllNoUnmEval.v,
   the evaluator induction) evalD / FunctionDef::call / whole programs over them never do.
   Contrast: EvalInst.builtin_impl answers Unmodelled for 50 built-ins, EvalFull.builtin_full for 15 and for
   to_string / join of function-containing values, binop_impl for `^`. *)
From Coq Require Import String Ascii List ZArith Bool Lia.
Require Import Blots.Num Blots.gen.Builtins Blots.Ast Blots.Value Blots.Outcome Blots.Binop
               Blots.Env Blots.Eval Blots.BuiltinsHof Blots.Program Blots.EvalInst Blots.EvalFull
               Blots.EvalAll Blots.BuiltinsList Blots.BuiltinsAgg Blots.BuiltinsText Blots.DisplayNum
               Blots.proofs.NoPanic Blots.proofs.AllNoUnmEval Blots.proofs.AllNoUnmList.
Import ListNotations.
Open Scope list_scope.
Open Scope nat_scope.

(* args[i] is a value or a Panic, never Unmodelled — for the three copies of `arg` *)
Lemma harg_nu : forall args i, BuiltinsHof.arg args i <> Unmodelled.
Proof. intros. unfold BuiltinsHof.arg. destruct (nth_error args i); discriminate. Qed.
Lemma larg_nu : forall args i, BuiltinsList.arg args i <> Unmodelled.
Proof. intros. unfold BuiltinsList.arg. destruct (nth_error args i); discriminate. Qed.
Lemma aarg_nu : forall args i, BuiltinsAgg.arg args i <> Unmodelled.
Proof. intros. unfold BuiltinsAgg.arg. destruct (nth_error args i); discriminate. Qed.
Lemma a_as_number_nu : forall v, BuiltinsAgg.as_number v <> Unmodelled.
Proof. destruct v; discriminate. Qed.
Lemma a_as_list_nu : forall v, BuiltinsAgg.as_list v <> Unmodelled.
Proof. destruct v; discriminate. Qed.

(* ---------------- dyn-fmt, slices, the new arms ---------------- *)
Lemma dyn_go_nu : forall fmt s args, dyn_go s fmt args <> Unmodelled.
Proof.
  induction fmt as [|b rest IH]; intros s args.
  - destruct s; cbn [dyn_go]; discriminate.
  - assert (Hlit : forall a, (do t <- dyn_go DPiece rest a; Ok (String b t)) <> Unmodelled).
    { intros a. apply obind_nu; [apply IH|]. discriminate. }
    destruct s; cbn [dyn_go].
    + destruct (is_lbrace b).
      * destruct rest; [discriminate|]. apply IH.
      * destruct (is_rbrace b); [|apply Hlit]. destruct rest; [discriminate|]. apply IH.
    + destruct (is_rbrace b); [|apply Hlit].
      destruct args as [|a args']; [apply IH|]. apply obind_nu; [apply IH|]. discriminate.
    + apply Hlit.
Qed.
Lemma slice_from_nu : forall {A} (l : list A) n, slice_from l n <> Unmodelled.
Proof. intros. unfold slice_from. destruct (Nat.leb n (length l)); discriminate. Qed.

Section Arms.
  Variable o : oracle.
  Lemma num1_nu' : forall f args, num1 f args <> Unmodelled.
  Proof.
    intros. unfold num1. apply obind_nu; [apply harg_nu|]. intros a _.
    apply obind_nu; [apply as_number_nu|]. discriminate.
  Qed.
  Lemma trim_nu' : forall f args, bi_trim f args <> Unmodelled.
  Proof.
    intros. unfold bi_trim. apply obind_nu; [apply larg_nu|]. intros a _.
    apply obind_nu; [apply bas_string_nu|]. discriminate.
  Qed.
  Lemma uppercase_nu' : forall f args, bi_uppercase f args <> Unmodelled.
  Proof.
    intros. unfold bi_uppercase. apply obind_nu; [apply larg_nu|]. intros a _.
    apply obind_nu; [apply bas_string_nu|]. discriminate.
  Qed.
  Lemma lowercase_nu' : forall f args, bi_lowercase f args <> Unmodelled.
  Proof.
    intros. unfold bi_lowercase. apply obind_nu; [apply larg_nu|]. intros a _.
    apply obind_nu; [apply bas_string_nu|]. discriminate.
  Qed.
  Lemma to_string_all_nu : forall args, bi_to_string_all o args <> Unmodelled.
  Proof.
    intros. unfold bi_to_string_all. apply obind_nu; [apply harg_nu|]. intros a _. destruct a; discriminate.
  Qed.
  Lemma join_all_nu : forall args, bi_join_all o args <> Unmodelled.
  Proof.
    intros. unfold bi_join_all.
    apply obind_nu; [apply harg_nu|]. intros a1 _. apply obind_nu; [apply as_string_nu|]. intros d _.
    apply obind_nu; [apply harg_nu|]. intros a0 _. apply obind_nu; [apply as_list_nu|]. discriminate.
  Qed.
  Lemma stringify_display_all_nu : forall v, stringify_display_all o v <> Unmodelled.
  Proof. intros. unfold stringify_display_all. destruct (display_panics o v); discriminate. Qed.
  Lemma format_nu : forall args, bi_format o args <> Unmodelled.
  Proof.
    intros. unfold bi_format.
    apply obind_nu; [apply harg_nu|]. intros a0 _. apply obind_nu; [apply as_string_nu|]. intros f _.
    apply obind_nu; [apply slice_from_nu|]. intros rest _.
    apply obind_nu; [apply mapM_nu; intros; apply stringify_display_all_nu|]. intros fa _.
    apply obind_nu; [apply dyn_go_nu|]. discriminate.
  Qed.
  Lemma print_line_nu : forall args, print_line o args <> Unmodelled.
  Proof.
    intros. unfold print_line.
    assert (Hgen : (do a0 <- arg args 0; do format_str <- as_string a0; do rest <- slice_from args 1;
                    dyn_format format_str (map (stringify_internal_all o) rest)) <> Unmodelled).
    { apply obind_nu; [apply harg_nu|]. intros a0 _. apply obind_nu; [apply as_string_nu|]. intros f _.
      apply obind_nu; [apply slice_from_nu|]. intros rest _. apply dyn_go_nu. }
    destruct args as [|x [|y r]]; try exact Hgen.
    apply obind_nu; [apply harg_nu|]. discriminate.
  Qed.
  Lemma print_nu : forall args, bi_print o args <> Unmodelled.
  Proof. intros. unfold bi_print. apply obind_nu; [apply print_line_nu|]. discriminate. Qed.
  Lemma time_now_nu : forall args, bi_time_now o args <> Unmodelled.
  Proof. intros. unfold bi_time_now. discriminate. Qed.
End Arms.

(* ---------------- the arms of builtin_full without a lemma in AllNoUnmList / AllNoUnmEval ---------------- *)
Lemma mapM_a_as_number_nu : forall l, mapM BuiltinsAgg.as_number l <> Unmodelled.
Proof. intros. apply mapM_nu. intros; apply a_as_number_nu. Qed.
Ltac collect_nu :=
  match goal with |- ?f ?args <> Unmodelled =>
    unfold f; destruct (Nat.eqb (length args) 1);
    [apply obind_nu; [apply aarg_nu|]; intros a0 _; destruct a0;
       first [apply mapM_a_as_number_nu | apply obind_nu; [apply a_as_number_nu|]; discriminate | discriminate]
    |apply mapM_a_as_number_nu] end.
Lemma collect_min_nu : forall args, collect_nums_min args <> Unmodelled. Proof. intros; collect_nu. Qed.
Lemma collect_max_nu : forall args, collect_nums_max args <> Unmodelled. Proof. intros; collect_nu. Qed.
Lemma collect_avg_nu : forall args, collect_nums_avg args <> Unmodelled. Proof. intros; collect_nu. Qed.
Lemma collect_prod_nu : forall args, collect_nums_prod args <> Unmodelled. Proof. intros; collect_nu. Qed.
Lemma collect_sum_nu : forall args, collect_nums_sum args <> Unmodelled. Proof. intros; collect_nu. Qed.
Lemma collect_median_nu : forall args, collect_nums_median args <> Unmodelled. Proof. intros; collect_nu. Qed.

Lemma insert_pc_nu : forall x l, insert_pc x l <> Unmodelled.
Proof.
  intros x l. induction l as [|y r IH]; cbn [insert_pc]; [discriminate|].
  destruct (ncmp x y) as [[]|]; try discriminate; (apply obind_nu; [exact IH|]; discriminate).
Qed.
Lemma sort_pc_nu : forall l, sort_pc l <> Unmodelled.
Proof.
  intros l. unfold sort_pc.
  assert (G : forall l acc, acc <> Unmodelled ->
            fold_left (fun acc x => do a <- acc; insert_pc x a) l acc <> Unmodelled).
  { induction l0 as [|x l0 IH]; intros acc Ha; cbn [fold_left]; [exact Ha|].
    apply IH. apply obind_nu; [exact Ha|]. intros; apply insert_pc_nu. }
  apply G. discriminate.
Qed.
Lemma index_num_nu : forall l i, index_num l i <> Unmodelled.
Proof.
  intros. unfold index_num. destruct (_ || _); [discriminate|].
  destruct (nth_error l (Z.to_nat i)); discriminate.
Qed.
Lemma bi_min_nu : forall args, bi_min args <> Unmodelled.
Proof. intros. unfold bi_min. apply obind_nu; [apply collect_min_nu|]. intros n _. destruct (is_empty n); discriminate. Qed.
Lemma bi_max_nu : forall args, bi_max args <> Unmodelled.
Proof. intros. unfold bi_max. apply obind_nu; [apply collect_max_nu|]. intros n _. destruct (is_empty n); discriminate. Qed.
Lemma bi_avg_nu : forall args, bi_avg args <> Unmodelled.
Proof. intros. unfold bi_avg. apply obind_nu; [apply collect_avg_nu|]. intros n _. destruct (is_empty n); discriminate. Qed.
Lemma bi_sum_nu : forall args, bi_sum args <> Unmodelled.
Proof. intros. unfold bi_sum. apply obind_nu; [apply collect_sum_nu|]. intros n _. destruct (is_empty n); discriminate. Qed.
Lemma bi_prod_nu : forall args, bi_prod args <> Unmodelled.
Proof. intros. unfold bi_prod. apply obind_nu; [apply collect_prod_nu|]. intros n _. destruct (is_empty n); discriminate. Qed.
Lemma bi_median_nu : forall args, bi_median args <> Unmodelled.
Proof.
  intros. unfold bi_median. apply obind_nu; [apply collect_median_nu|]. intros n _.
  destruct (is_empty n); [discriminate|]. destruct (has_nan n); [discriminate|].
  apply obind_nu; [apply sort_pc_nu|]. intros s _.
  destruct (_ =? 0)%Z.
  - apply obind_nu; [apply index_num_nu|]. intros a _. apply obind_nu; [apply index_num_nu|]. discriminate.
  - apply obind_nu; [apply index_num_nu|]. discriminate.
Qed.
Lemma bi_percentile_nu : forall args, bi_percentile args <> Unmodelled.
Proof.
  intros. unfold bi_percentile, bi_percentile_gen.
  apply obind_nu; [apply aarg_nu|]. intros a1 _. apply obind_nu; [apply a_as_number_nu|]. intros p _.
  apply obind_nu; [apply aarg_nu|]. intros a0 _. apply obind_nu; [apply a_as_list_nu|]. intros l _.
  destruct (negb (in_0_100 p)); [discriminate|].
  apply obind_nu; [apply mapM_a_as_number_nu|]. intros n _.
  destruct (is_empty n); [discriminate|]. destruct (has_nan n); [discriminate|].
  apply obind_nu; [apply sort_pc_nu|]. intros s _.
  apply obind_nu; [unfold usize_sub; destruct (_ <? _)%Z; discriminate|]. intros len1 _.
  apply obind_nu; [apply index_num_nu|]. discriminate.
Qed.
Lemma dot_loop_nu : forall a b s, dot_loop s a b <> Unmodelled.
Proof.
  induction a as [|x a IH]; intros b s; destruct b as [|y b]; cbn [dot_loop]; try discriminate.
  apply obind_nu; [apply a_as_number_nu|]. intros xn _. apply obind_nu; [apply a_as_number_nu|]. intros yn _.
  apply IH.
Qed.
Lemma bi_dot_nu : forall args, bi_dot args <> Unmodelled.
Proof.
  intros. unfold bi_dot.
  apply obind_nu; [apply aarg_nu|]. intros a0 _. apply obind_nu; [apply a_as_list_nu|]. intros a _.
  apply obind_nu; [apply aarg_nu|]. intros a1 _. apply obind_nu; [apply a_as_list_nu|]. intros b _.
  destruct (negb _); [discriminate|]. apply obind_nu; [apply dot_loop_nu|]. discriminate.
Qed.

Lemma range_nu : forall args, bi_range args <> Unmodelled.
Proof.
  assert (B : forall s e, range_body s e <> Unmodelled).
  { intros. unfold range_body. destruct (ngtb s e); [discriminate|].
    destruct (_ || _); [discriminate|]. destruct (_ <? _)%Z; discriminate. }
  intros args. destruct args as [|a1 [|a2 [|a3 r]]]; cbn [bi_range]; try discriminate.
  - destruct a1; try discriminate. apply B.
  - destruct a1; try discriminate. destruct a2; try discriminate. apply B.
  - destruct a1; try discriminate. destruct a2; discriminate.
Qed.
Lemma convert_nu : forall args, bi_convert args <> Unmodelled.
Proof.
  intros. unfold bi_convert.
  apply obind_nu; [apply larg_nu|]. intros a0 _. apply obind_nu; [apply bas_number_nu|]. intros v _.
  apply obind_nu; [apply larg_nu|]. intros a1 _. apply obind_nu; [apply bas_string_nu|]. intros f _.
  apply obind_nu; [apply larg_nu|]. intros a2 _. apply obind_nu; [apply bas_string_nu|]. intros t _.
  unfold convert_result. destruct (Units.convert _ _ _ _); discriminate.
Qed.
Lemma round_nu : forall args, bi_round args <> Unmodelled.
Proof.
  intros. unfold bi_round.
  apply obind_nu; [apply larg_nu|]. intros a0 _. apply obind_nu; [apply bas_number_nu|]. intros x _.
  destruct args as [|p0 [|q0 r0]]; try discriminate;
    (apply obind_nu; [apply larg_nu|]; intros a1 _; apply obind_nu; [apply bas_number_nu|]; discriminate).
Qed.
Lemma random_nu : forall args, bi_random args <> Unmodelled.
Proof.
  intros. unfold bi_random.
  apply obind_nu; [apply larg_nu|]. intros a0 _. apply obind_nu; [apply bas_number_nu|]. discriminate.
Qed.
Lemma to_number_nu : forall args, bi_to_number args <> Unmodelled.
Proof.
  intros. unfold bi_to_number. apply obind_nu; [apply larg_nu|]. intros a0 _.
  destruct a0; try discriminate;
    (apply obind_nu; [apply bas_string_nu|]; intros s9 _; unfold parse_result;
     destruct (NumText.ref_str_parse s9); discriminate).
Qed.

Ltac in_table_nu := unfold list_builtin_arms_nu; cbn [In]; repeat (first [left; reflexivity | right]).

(* ---------------- the dispatcher ---------------- *)
Theorem builtin_all_no_unm : forall o cb b args st,
  cb_mod cb -> can_accept (builtin_arity b) (length args) = true ->
  fst (builtin_all o cb b args st) <> Unmodelled.
Proof.
  intros o cb b args st Hcb Ha.
  destruct b; cbn [builtin_all builtin_full];
    try (apply builtin_impl_no_unm; [exact Hcb|exact Ha|reflexivity]);
    unfold pure_bi; cbn [fst];
    first [ apply num1_nu' | apply trim_nu' | apply uppercase_nu' | apply lowercase_nu'
          | apply to_string_all_nu | apply join_all_nu | apply format_nu | apply print_nu | apply time_now_nu
          | apply bi_min_nu | apply bi_max_nu | apply bi_avg_nu | apply bi_sum_nu | apply bi_prod_nu
          | apply bi_median_nu | apply bi_percentile_nu | apply bi_dot_nu | apply range_nu
          | apply convert_nu | apply round_nu | apply random_nu | apply to_number_nu
          | apply sort_by_nu; [exact Hcb|exact Ha]
          | apply group_by_nu; [exact Hcb|exact Ha]
          | apply count_by_nu; [exact Hcb|exact Ha]
          | idtac ].
  all: match goal with
       | |- ?arm ?aa <> Unmodelled =>
           match goal with
           | Hacc : can_accept (builtin_arity ?b) _ = true |- _ =>
               apply (list_builtins_no_unm b arm aa); [in_table_nu|exact Hacc]
           end
       end.
Qed.

Theorem binop_all_no_unm : forall o cb op l r st,
  cb_mod cb -> fst (binop_all o cb op l r st) <> Unmodelled.
Proof.
  intros o cb op l r st Hcb. unfold binop_all.
  destruct op; try (apply binop_impl_no_unm; [exact Hcb|discriminate]).
  apply (eval_binop_no_unm store cb Hcb).
Qed.

(* ---------------- the evaluator, FunctionDef::call and whole programs ---------------- *)
Theorem evalD_all_no_unm : forall o release d c e,
  wf c -> fst (evalD release (binop_all o) (builtin_all o) d c e) <> Unmodelled.
Proof.
  intros o release. apply evalD_no_unm.
  - apply binop_all_no_unm.
  - apply builtin_all_no_unm.
  - apply factorial_no_unm.
Qed.
Theorem AD_all_no_unm : forall o release d fr this f args st,
  fst (AD release (binop_all o) (builtin_all o) d fr this f args st) <> Unmodelled.
Proof.
  intros o release d fr. apply AD_no_unm.
  - apply binop_all_no_unm.
  - apply builtin_all_no_unm.
  - apply factorial_no_unm.
Qed.
Theorem program_all_no_unm : forall o release inputs prog,
  Forall (fun rs => fst rs <> RFail Unmodelled)
         (snd (run (eval_top release (binop_all o) (builtin_all o)) (init_session inputs) prog)).
Proof.
  intros o release inputs prog. apply run_nu.
  - intros c e Hw. apply evalD_all_no_unm. exact Hw.
  - intros c e r c' H Hw. unfold eval_top in H. eapply evalD_keeps_wf; eauto.
  - apply AllNoUnmEval.init_session_wf.
Qed.
