(* F9 (open finding of C04): FunctionDef::call copies the CALLER's `inputs` binding into the callee's
   local bindings ("Preserve inputs if present in parent"), where it outranks the captured scope.  A
   function that captured `inputs` when it was created therefore reads the `inputs` of its call site
   whenever a parameter or a do-block local of the caller is spelled `inputs`: the hypothesis
   `lookup fr1 "inputs" = lookup fr2 "inputs"` of the call-site independence theorems is NECESSARY for
   the code as it is.  Witness: f = x => #a + x created where inputs = {a: 1}; called with 1 from a
   chain whose `inputs` is {a: 1} and from a chain whose `inputs` is {a: 100} (all values closed). *)
From Coq Require Import String List ZArith Bool.
Require Import Blots.Num Blots.gen.Builtins Blots.Ast Blots.Value Blots.Outcome Blots.Binop
  Blots.Env Blots.Eval Blots.EvalInst Blots.proofs.Closed.
Import ListNotations.
Open Scope string_scope.

Definition f9_inputs (k : Z) : value := VRec [("a", VNum (num_of_Z k))].
Definition f9_fun : value :=
  VLam 0 [AReq "x"] (EBin Add (EInRef "a") (EId "x")) [("inputs", f9_inputs 1)].
Definition f9_chain (k : Z) : frames := [(FOwned, [("inputs", f9_inputs k)])].
Definition f9_store : store := [None].

Lemma f9_closed :
  closed_value f9_store f9_fun /\ closed_value f9_store VNull /\ closed_list f9_store [VNum (num_of_Z 1)] /\
  (forall k v, lookup (f9_chain k) "inputs" = Some v -> closed_value f9_store v).
Proof.
  split; [|split; [exact I|split]].
  - cbn [closed_value f9_fun]. split; [reflexivity|]. split.
    + intros x Hx. vm_compute in Hx. destruct Hx as [<-|[]]. left. vm_compute. discriminate.
    + cbn. auto.
  - constructor; [exact I|constructor].
  - intros k v H. vm_compute in H. inversion H; subst v. cbn. auto.
Qed.

Lemma f9_results_differ :
  fst (AD true binop_impl builtin_impl 5 (f9_chain 1) VNull f9_fun [VNum (num_of_Z 1)] f9_store)
    = Ok (VNum (num_of_Z 2)) /\
  fst (AD true binop_impl builtin_impl 5 (f9_chain 100) VNull f9_fun [VNum (num_of_Z 1)] f9_store)
    = Ok (VNum (num_of_Z 101)).
Proof. split; vm_compute; reflexivity. Qed.

(* call-site independence WITHOUT the same-`inputs` hypothesis is false of the faithful model *)
Definition call_site_independent_any_inputs : Prop :=
  forall release d fr1 fr2 this f args st,
    (forall v, lookup fr1 "inputs" = Some v -> closed_value st v) ->
    (forall v, lookup fr2 "inputs" = Some v -> closed_value st v) ->
    closed_value st this -> closed_value st f -> closed_list st args ->
    AD release binop_impl builtin_impl d fr1 this f args st =
    AD release binop_impl builtin_impl d fr2 this f args st.

Lemma call_site_independent_any_inputs_refuted : ~ call_site_independent_any_inputs.
Proof.
  intros H. destruct f9_closed as (Hf & Ht & Ha & Hi).
  pose proof (H true 5%nat (f9_chain 1) (f9_chain 100) VNull f9_fun [VNum (num_of_Z 1)] f9_store
                (Hi 1%Z) (Hi 100%Z) Ht Hf Ha) as E.
  destruct f9_results_differ as (E1 & E2).
  rewrite E in E1. rewrite E1 in E2. vm_compute in E2. discriminate E2.
Qed.
