(* F9 (finding of C04, REPAIRED in this model: fixes/C04-captured-inputs.diff): FunctionDef::call copied the
   CALLER's `inputs` binding into the callee's local bindings ("Preserve inputs if present in parent"), where
   it outranked the captured scope, so a function that captured `inputs` when it was created read the
   `inputs` of a call site that re-binds the name.  The repaired code (Eval.call_passed, "(F9 repaired)")
   copies the caller's `inputs` only when the function did NOT capture `inputs`; the captured value wins.
   Witness of the former refutation: f = x => #a + x created where inputs = {a: 1}; called with 1 from a
   chain whose `inputs` is {a: 1} and from a chain whose `inputs` is {a: 100} (all values closed): before the
   repair 2 and 101, now 2 at both call sites (f9_results_agree). *)
From Coq Require Import String List ZArith Bool.
Require Import Blots.Num Blots.gen.Builtins Blots.Ast Blots.Value Blots.Outcome Blots.Binop
  Blots.Env Blots.Eval Blots.EvalInst Blots.proofs.Closed.
Import ListNotations.
Open Scope string_scope.

Definition f9_inputs (k : Z) : value := VRec [("a", VNum (num_of_Z k))].
Definition f9_fun : value :=
  VLam 0 [AReq "x"] (EBin Add (EInRef "a") (EId "x")) [("inputs", f9_inputs 1)].
Definition f9_chain (k : Z) : frames := [(FOwned, [("inputs", f9_inputs k)])].
Definition f9_store : store := [None].

Lemma f9_closed :
  closed_value f9_store f9_fun /\ closed_value f9_store VNull /\ closed_list f9_store [VNum (num_of_Z 1)] /\
  (forall k v, lookup (f9_chain k) "inputs" = Some v -> closed_value f9_store v).
Proof.
  split; [|split; [exact I|split]].
  - cbn [closed_value f9_fun]. split; [reflexivity|]. split.
    + intros x Hx. vm_compute in Hx. destruct Hx as [<-|[]]. left. vm_compute. discriminate.
    + cbn. auto.
  - constructor; [exact I|constructor].
  - intros k v H. vm_compute in H. inversion H; subst v. cbn. auto.
Qed.

(* before the repair: 2 and 101 (f9_results_differ, call_site_independent_any_inputs_refuted) *)
Lemma f9_results_agree :
  fst (AD true binop_impl builtin_impl 5 (f9_chain 1) VNull f9_fun [VNum (num_of_Z 1)] f9_store)
    = Ok (VNum (num_of_Z 2)) /\
  fst (AD true binop_impl builtin_impl 5 (f9_chain 100) VNull f9_fun [VNum (num_of_Z 1)] f9_store)
    = Ok (VNum (num_of_Z 2)).
Proof. split; vm_compute; reflexivity. Qed.

Lemma f9_call_sites_agree :
  AD true binop_impl builtin_impl 5 (f9_chain 1) VNull f9_fun [VNum (num_of_Z 1)] f9_store =
  AD true binop_impl builtin_impl 5 (f9_chain 100) VNull f9_fun [VNum (num_of_Z 1)] f9_store.
Proof. vm_compute. reflexivity. Qed.

(* call-site independence WITHOUT the same-`inputs` hypothesis: refuted by the witness above on the code
   before the repair; on the repaired model the witness agrees and the statement is kept as a Prop
   (a closed function reads `inputs` only through its captured scope, so it is expected to hold). *)
Definition call_site_independent_any_inputs : Prop :=
  forall release d fr1 fr2 this f args st,
    (forall v, lookup fr1 "inputs" = Some v -> closed_value st v) ->
    (forall v, lookup fr2 "inputs" = Some v -> closed_value st v) ->
    closed_value st this -> closed_value st f -> closed_list st args ->
    AD release binop_impl builtin_impl d fr1 this f args st =
    AD release binop_impl builtin_impl d fr2 this f args st.
