(* AllValidOps.v — the operator hypothesis of AllValidEval.v discharged for the COMPLETE operator table
   EvalAll.binop_all o (evaluate_binary_op_ast: 26 operators x 3 broadcasting arms, `^` through the oracle's
   powf): on valid operands, with a callback that neither panics nor returns an invalid value on valid
   arguments, no arm panics (every `list[idx]` stays in range, no unreachable!() arm is reached) and the
   result is a valid value — every number it contains is an operand's or the result of + - * / % ^ on valid
   numbers (AllValidNum.v) or an index `idx as f64`. *)
From Coq Require Import String Ascii List ZArith Bool Lia.
Require Import Blots.Num Blots.gen.Builtins Blots.Ast Blots.Value Blots.Outcome Blots.Binop
               Blots.Env Blots.Eval Blots.EvalInst Blots.EvalFull Blots.EvalAll Blots.Valid
               Blots.proofs.NoPanic Blots.proofs.AllValidNum Blots.proofs.AllValidEval.
Import ListNotations.
Open Scope list_scope.
Open Scope nat_scope.

(* ---------------- the outcome monad with a postcondition ---------------- *)
Definition vresP {A} (P : A -> Prop) (o : outcome A) : Prop := o <> Panic /\ forall a, o = Ok a -> P a.
Lemma vres_vresP : forall r, vres r <-> vresP valid_value r. Proof. reflexivity. Qed.
Lemma vresP_ok : forall {A} (P : A -> Prop) a, P a -> vresP P (Ok a).
Proof. intros A P a H. split; [discriminate|intros b E; inversion E; subst; exact H]. Qed.
Lemma vresP_err : forall {A} (P : A -> Prop), vresP P Err.
Proof. intros. split; [discriminate|intros b E; discriminate E]. Qed.
Ltac verr := refine (vresP_err _).
Ltac vok := refine (vresP_ok _ _ _).
Lemma vresP_weaken : forall {A} (P Q : A -> Prop) o, (forall a, P a -> Q a) -> vresP P o -> vresP Q o.
Proof. intros A P Q o H [Hn Hv]. split; [exact Hn|intros a E; apply H, Hv, E]. Qed.
Lemma obind_v : forall {A B} (P : A -> Prop) (Q : B -> Prop) (x : outcome A) (f : A -> outcome B),
  vresP P x -> (forall a, P a -> vresP Q (f a)) -> vresP Q (obind x f).
Proof.
  intros A B P Q x f [Hn Hv] Hf. destruct x as [a| | | |]; cbn [obind].
  - apply Hf. apply Hv. reflexivity.
  - split; [discriminate|intros b E; discriminate E].
  - split; [discriminate|intros b E; discriminate E].
  - exfalso. apply Hn. reflexivity.
  - split; [discriminate|intros b E; discriminate E].
Qed.
Lemma omap_v : forall {A B} (P : A -> Prop) (Q : B -> Prop) (g : A -> B) (x : outcome A),
  vresP P x -> (forall a, P a -> Q (g a)) -> vresP Q (omap g x).
Proof. intros A B P Q g x Hx Hg. unfold omap. eapply obind_v; [exact Hx|]. intros a Ha. vok. auto. Qed.
Lemma mapM_v : forall {A B} (P : B -> Prop) (f : A -> outcome B) (l : list A),
  (forall x, In x l -> vresP P (f x)) -> vresP (Forall P) (mapM f l).
Proof.
  intros A B P f l. induction l as [|x l IH]; intros H; cbn [mapM]; [vok; constructor|].
  eapply obind_v; [apply H; left; reflexivity|]. intros y Hy.
  eapply obind_v; [apply IH; intros z Hz; apply H; right; exact Hz|]. intros ys Hys.
  vok. constructor; assumption.
Qed.
Lemma vlist_v : forall o, vresP (Forall valid_value) o -> vresP valid_value (omap VList o).
Proof. intros o H. eapply omap_v; [exact H|]. intros l Hl. apply vv_list. exact Hl. Qed.
Lemma of_option_v : forall {A} (P : A -> Prop) (o : option A), (forall a, o = Some a -> P a) -> vresP P (of_option o).
Proof. intros A P [a|] H; [vok; auto|verr]. Qed.

Lemma as_number_v : forall v, valid_value v -> vresP valid_num (as_number v).
Proof. intros v H. destruct v; try verr. vok. exact H. Qed.
Lemma as_bool_v : forall v, vresP (fun _ => True) (as_bool v).
Proof. intros v. destruct v; try verr. vok. exact I. Qed.
Lemma as_string_v : forall v, vresP (fun _ => True) (as_string v).
Proof. intros v. destruct v; try verr. vok. exact I. Qed.
Lemma vbool : forall b, valid_value (VBool b). Proof. reflexivity. Qed.
Lemma vstr : forall s, valid_value (VStr s). Proof. reflexivity. Qed.
Lemma vnum : forall x, valid_num x -> valid_value (VNum x). Proof. intros x H; exact H. Qed.

Lemma num2_v : forall f a b, (forall x y, valid_num x -> valid_num y -> valid_num (f x y)) ->
  valid_value a -> valid_value b -> vresP valid_value (num2 f a b).
Proof.
  intros f a b Hf Ha Hb. unfold num2.
  eapply obind_v; [apply as_number_v; exact Ha|]. intros x Hx.
  eapply obind_v; [apply as_number_v; exact Hb|]. intros y Hy.
  vok. apply Hf; assumption.
Qed.
Lemma and_q_v : forall a b, vresP valid_value (and_q a b).
Proof.
  intros a b. unfold and_q. eapply obind_v; [apply as_bool_v|]. intros x _.
  destruct x; [|vok; reflexivity].
  eapply obind_v; [apply as_bool_v|]. intros y _. vok; reflexivity.
Qed.
Lemma or_q_v : forall a b, vresP valid_value (or_q a b).
Proof.
  intros a b. unfold or_q. eapply obind_v; [apply as_bool_v|]. intros x _.
  destruct x; [vok; reflexivity|].
  eapply obind_v; [apply as_bool_v|]. intros y _. vok; reflexivity.
Qed.
Lemma add_match_v : forall a b, valid_value a -> valid_value b -> vresP valid_value (add_match a b).
Proof.
  intros a b Ha Hb. destruct a; cbn [add_match]; try verr; destruct b; try verr.
  - apply num2_v; [exact nadd_valid|exact Ha|exact Hb].
  - cbn. vok. reflexivity.
Qed.
Lemma cmp_bool_v : forall o e, vresP valid_value (do r <- check_ord o e; Ok (VBool r)).
Proof.
  intros o e. eapply obind_v with (P := fun _ => True).
  - unfold check_ord. apply of_option_v. auto.
  - intros r _. vok. reflexivity.
Qed.
Lemma index_v : forall l idx, valid_values l -> idx < Datatypes.length l -> vresP valid_value (index l idx).
Proof.
  intros l idx Hl Hlt. unfold index. destruct (nth_error l idx) eqn:E.
  - vok. eapply vvs_in; [exact Hl|eapply nth_error_In; eauto].
  - apply nth_error_None in E. lia.
Qed.
Lemma num_of_idx_v : forall i, valid_value (VNum (num_of_idx i)).
Proof. intros i. apply num_of_Z_valid. Qed.

Section BinopValid.
  Variable St : Type.
  Variable call : value -> value -> list value -> St -> outcome value * St.
  Hypothesis call_ok : forall this f args st, valid_value this -> valid_value f -> valid_values args ->
    vresP valid_value (fst (call this f args st)).
  Variable fa2 : value -> bool.
  Variable powf : num -> num -> num.
  Hypothesis powf_ok : forall x y, valid_num x -> valid_num y -> valid_num (powf x y).

  Definition MV {A} (P : A -> Prop) (m : M St A) : Prop := forall st, vresP P (fst (m st)).

  Lemma lift_mv : forall A (P : A -> Prop) (o : outcome A), vresP P o -> MV P (lift St o).
  Proof. intros A P o H st. exact H. Qed.
  Lemma bindM_mv : forall A B (P : A -> Prop) (Q : B -> Prop) (m : M St A) (f : A -> M St B),
    MV P m -> (forall a, P a -> MV Q (f a)) -> MV Q (bindM St m f).
  Proof.
    intros A B P Q m f Hm Hf st. unfold bindM. specialize (Hm st). destruct Hm as [Hn Hv].
    destruct (m st) as [[a| | | |] st1]; cbn [fst] in *.
    - apply Hf. apply Hv. reflexivity.
    - split; [discriminate|intros b E; discriminate E].
    - split; [discriminate|intros b E; discriminate E].
    - exfalso. apply Hn. reflexivity.
    - split; [discriminate|intros b E; discriminate E].
  Qed.
  Lemma for_each_mv : forall B (P : B -> Prop) (idxs : list nat) (body : nat -> M St B),
    (forall i, In i idxs -> MV P (body i)) -> MV (Forall P) (for_each St idxs body).
  Proof.
    intros B P idxs body. induction idxs as [|i r IH]; intros H; cbn [for_each].
    - apply lift_mv. vok. constructor.
    - eapply bindM_mv; [apply H; left; reflexivity|]. intros y Hy.
      eapply bindM_mv; [apply IH; intros j Hj; apply H; right; exact Hj|]. intros ys Hys.
      apply lift_mv. vok. constructor; assumption.
  Qed.
  Lemma call_fn_mv : forall f args, valid_value f -> valid_values args -> MV valid_value (call_fn St call f args).
  Proof. intros f args Hf Ha st. unfold call_fn. apply call_ok; assumption. Qed.

  Lemma in_combine_valid : forall l r a b, valid_values l -> valid_values r -> In (a, b) (combine l r) ->
    valid_value a /\ valid_value b.
  Proof.
    intros l r a b Hl Hr Hin. split; [eapply vvs_in; [exact Hl|eapply in_combine_l; eauto]
                                     |eapply vvs_in; [exact Hr|eapply in_combine_r; eauto]].
  Qed.

  (* a pure element-wise arm over the zipped lists *)
  Lemma zip_arm : forall (g : value * value -> outcome value) l r,
    valid_values l -> valid_values r ->
    (forall a b, valid_value a -> valid_value b -> vresP valid_value (g (a, b))) ->
    MV valid_value (lift St (omap VList (mapM g (combine l r)))).
  Proof.
    intros g l r Hl Hr Hg. apply lift_mv, vlist_v, mapM_v. intros [a b] Hin.
    destruct (in_combine_valid _ _ _ _ Hl Hr Hin). apply Hg; assumption.
  Qed.
  Lemma map_arm : forall (g : value -> outcome value) l,
    valid_values l -> (forall a, valid_value a -> vresP valid_value (g a)) ->
    MV valid_value (lift St (omap VList (mapM g l))).
  Proof.
    intros g l Hl Hg. apply lift_mv, vlist_v, mapM_v. intros a Hin. apply Hg. eapply vvs_in; eauto.
  Qed.
  Lemma seq_arm : forall (g : nat -> outcome value) n,
    (forall i, i < n -> vresP valid_value (g i)) ->
    MV valid_value (lift St (omap VList (mapM g (seq 0 n)))).
  Proof. intros g n Hg. apply lift_mv, vlist_v, mapM_v. intros i Hin. apply Hg. apply in_seq0. exact Hin. Qed.

  Ltac elem :=
    cbn [fst snd];
    first [ vok; first [reflexivity | assumption]
          | apply cmp_bool_v | apply and_q_v | apply or_q_v
          | apply add_match_v; assumption
          | apply num2_v; [first [exact nsub_valid|exact nmul_valid|exact ndiv_valid|exact nfmod_valid
                                  |exact nadd_valid|exact powf_ok]|assumption|assumption] ].

  Lemma arm_list_list_v : forall op l r, is_dot op = false -> op <> Into ->
    valid_values l -> valid_values r ->
    MV valid_value (arm_list_list St call powf op l r).
  Proof.
    intros op l r Hd Hinto Hl Hr. unfold arm_list_list.
    destruct (negb (Nat.eqb (Datatypes.length l) (Datatypes.length r))) eqn:Elen;
      [apply lift_mv; verr|].
    apply negb_false_iff, Nat.eqb_eq in Elen.
    destruct op; try discriminate Hd; try congruence; cbn [expected_of obind];
      try (apply zip_arm; [exact Hl|exact Hr|intros a b Ha Hb; elem]);
      try (apply lift_mv; verr).
    - (* Add *)
      apply seq_arm. intros i Hi.
      eapply obind_v; [apply index_v; [exact Hl|exact Hi]|]. intros a Ha.
      eapply obind_v; [apply index_v; [exact Hr|lia]|]. intros b Hb. apply add_match_v; assumption.
    - (* Via *)
      eapply bindM_mv with (P := Forall valid_value).
      + apply for_each_mv. intros i Hi. apply in_seq0 in Hi.
        eapply bindM_mv with (P := fun lr => valid_value (fst lr) /\ valid_value (snd lr)).
        * apply lift_mv.
          eapply obind_v; [apply index_v; [exact Hl|exact Hi]|]. intros a Ha.
          eapply obind_v; [apply index_v; [exact Hr|lia]|]. intros b Hb. vok. split; assumption.
        * intros [a b] [Ha Hb]. cbn [fst snd] in *.
          destruct (negb (is_lambda b) && negb (is_built_in b)); [apply lift_mv; verr|].
          apply call_fn_mv; [exact Hb|]. apply vvs_cons. split; [exact Ha|reflexivity].
      + intros mapped Hm. apply lift_mv; vok. apply vv_list. exact Hm.
    - (* Coalesce *)
      apply zip_arm; [exact Hl|exact Hr|]. intros a b Ha Hb. cbn [fst snd]. vok.
      destruct (is_null a); assumption.
  Qed.

  Lemma filter_some_valid : forall (l : list (option value)),
    Forall (fun o => match o with Some v => valid_value v | None => True end) l ->
    Forall valid_value (filter_some l).
  Proof.
    induction l as [|[v|] l IH]; intros H; cbn [filter_some]; [constructor| |];
      inversion H; subst; [constructor; [assumption|apply IH; assumption]|apply IH; assumption].
  Qed.

  Lemma arm_list_scalar_v : forall op b l s, is_dot op = false -> valid_values l -> valid_value s ->
    MV valid_value (arm_list_scalar St call fa2 powf op b l s).
  Proof.
    intros op b l s Hd Hl Hs. unfold arm_list_scalar.
    destruct op; try discriminate Hd; cbn [expected_of obind];
      try (apply map_arm; [exact Hl|intros a Ha; destruct b; elem]);
      try (destruct b; cbv iota; (apply map_arm; [exact Hl|intros a Ha; elem])).
    - (* Add *)
      apply seq_arm. intros i Hi.
      eapply obind_v; [apply index_v; [exact Hl|exact Hi]|]. intros a Ha.
      destruct b; apply add_match_v; assumption.
    - (* Via *)
      destruct b; [|apply lift_mv; verr].
      destruct (negb (is_callable s)); [apply lift_mv; verr|].
      eapply bindM_mv with (P := Forall valid_value).
      + apply for_each_mv. intros i Hi. apply in_seq0 in Hi.
        eapply bindM_mv; [apply lift_mv; apply index_v; [exact Hl|exact Hi]|]. intros item Hitem.
        apply call_fn_mv; [exact Hs|].
        destruct (fa2 s); [apply vvs_cons; split; [exact Hitem|apply vvs_cons; split; [apply num_of_idx_v|reflexivity]]
                          |apply vvs_cons; split; [exact Hitem|reflexivity]].
      + intros mapped Hm. apply lift_mv; vok. apply vv_list. exact Hm.
    - (* Into *)
      destruct b; [|apply lift_mv; verr].
      destruct (negb (is_callable s)); [apply lift_mv; verr|].
      apply call_fn_mv; [exact Hs|]. apply vvs_cons. split; [exact Hl|reflexivity].
    - (* Where *)
      destruct b; [|apply lift_mv; verr].
      destruct (negb (is_callable s)); [apply lift_mv; verr|].
      eapply bindM_mv with (P := Forall (fun o => match o with Some v => valid_value v | None => True end)).
      + apply for_each_mv. intros i Hi. apply in_seq0 in Hi.
        eapply bindM_mv; [apply lift_mv; apply index_v; [exact Hl|exact Hi]|]. intros item Hitem.
        eapply bindM_mv with (P := valid_value).
        * apply call_fn_mv; [exact Hs|].
          destruct (fa2 s); [apply vvs_cons; split; [exact Hitem|apply vvs_cons; split; [apply num_of_idx_v|reflexivity]]
                            |apply vvs_cons; split; [exact Hitem|reflexivity]].
        * intros res _. eapply bindM_mv; [apply lift_mv; apply as_bool_v|]. intros keep _.
          apply lift_mv; vok. destruct keep; [exact Hitem|exact I].
      + intros kept Hk. apply lift_mv; vok. apply vv_list. apply filter_some_valid. exact Hk.
    - (* Coalesce *)
      apply map_arm; [exact Hl|]. intros a Ha. vok.
      destruct b; [destruct (is_null a)|destruct (is_null s)]; assumption.
  Qed.

  Lemma arm_scalar_v : forall op l r, is_dot op = false -> valid_value l -> valid_value r ->
    MV valid_value (arm_scalar St call powf op l r).
  Proof.
    intros op l r Hd Hl Hr. unfold arm_scalar.
    destruct op; try discriminate Hd; try (apply lift_mv; elem); try (apply lift_mv; verr).
    - (* Add *)
      destruct (is_string l); apply lift_mv; [|elem].
      eapply obind_v; [apply as_string_v|]. intros a _.
      eapply obind_v; [apply as_string_v|]. intros b _. vok. reflexivity.
    - destruct (negb (is_callable r)); [apply lift_mv; verr|].
      apply call_fn_mv; [exact Hr|apply vvs_cons; split; [exact Hl|reflexivity]].
    - destruct (negb (is_callable r)); [apply lift_mv; verr|].
      apply call_fn_mv; [exact Hr|apply vvs_cons; split; [exact Hl|reflexivity]].
    - apply lift_mv; vok. destruct (is_null l); assumption.
  Qed.

  Theorem eval_binop_valid : forall op l r st, valid_value l -> valid_value r ->
    vresP valid_value (fst (eval_binop St call fa2 powf op l r st)).
  Proof.
    intros op l r st Hl Hr. unfold eval_binop.
    destruct (is_dot op) eqn:Hd.
    - destruct op; try discriminate Hd; cbn [fst]; try (vok; reflexivity); apply cmp_bool_v.
    - assert (HG : vresP valid_value
                     (fst (if is_list r && binop_eqb op Into then (Err, st)
                        else match l, r with
                             | VList ll, VList lr => arm_list_list St call powf op ll lr st
                             | VList ll, s => arm_list_scalar St call fa2 powf op true ll s st
                             | s, VList lr => arm_list_scalar St call fa2 powf op false lr s st
                             | _, _ => arm_scalar St call powf op l r st
                             end))).
      { destruct (is_list r && binop_eqb op Into) eqn:Hi; [cbn [fst]; verr|].
        destruct l; destruct r;
          try (apply arm_scalar_v; [exact Hd|assumption|assumption]);
          try (apply arm_list_scalar_v; [exact Hd|assumption|assumption]).
        apply arm_list_list_v; [exact Hd| |exact Hl|exact Hr].
        intros ->. cbn in Hi. discriminate. }
      destruct op; try discriminate Hd; exact HG.
  Qed.
End BinopValid.

(* ---------------- the complete operator table ---------------- *)
Theorem binop_all_valid : forall o, oracle_valid o ->
  forall cb op l r st, vcb cb -> valid_value l -> valid_value r -> vres (fst (binop_all o cb op l r st)).
Proof.
  intros o Ho cb op l r st Hcb Hl Hr. unfold binop_all.
  destruct op; try (unfold binop_impl; apply (eval_binop_valid store cb Hcb); [intros; reflexivity|exact Hl|exact Hr]).
  apply (eval_binop_valid store cb Hcb); [exact (ov_powf o Ho)|exact Hl|exact Hr].
Qed.
