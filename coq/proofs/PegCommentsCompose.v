(* proofs/PegCommentsCompose.v — (b) the parser half composed with the formatter half of C09: from the pair tree
   to the emitted text; (c) F20 at the grammar level. *)
From Coq Require Import String Ascii List NArith ZArith Bool Arith Lia.
Require Import Blots.Num Blots.gen.Builtins Blots.Ast Blots.Outcome Blots.Formatter
               Blots.proofs.Scan Blots.proofs.ScanFmt Blots.proofs.DriverText.
Require Import Blots.Peg Blots.gen.Grammar Blots.PegToItems Blots.PegComments Blots.proofs.PegComments.
Import ListNotations.
Local Open Scope string_scope.
Local Open Scope list_scope.

(* ------------------------------------------------------------------ (b) token tree -> output text *)
Theorem tree_to_text_lib :
  forall O key_ok, (forall k, key_ok k = true -> neutral (o_record_key O k)) ->
  forall text forest p mw d,
  forest_view_ok text forest = true ->
  forest_shape_ok text forest = true ->
  forest_no_empty_container text forest = true ->
  program_of_forest text forest = Outcome.Ok (Some p) ->
  Forall (stmt_ok O key_ok mw) p ->
  format_lib O mw p = Some d ->
  scan_comments (render d) = forest_comments text forest.
Proof.
  intros O key_ok Hk text forest p mw d Hv Hs Hn Hp Hok Hd.
  rewrite (lib_driver_text_comments O key_ok Hk mw p d Hok Hd).
  apply parse_keeps_comments; assumption.
Qed.

Theorem tree_to_text_cli :
  forall O key_ok, (forall k, key_ok k = true -> neutral (o_record_key O k)) ->
  forall text forest p,
  forest_view_ok text forest = true ->
  forest_shape_ok text forest = true ->
  forest_no_empty_container text forest = true ->
  program_of_forest text forest = Outcome.Ok (Some p) ->
  Forall (stmt_ok O key_ok None) p ->
  scan_comments (render (format_cli O p)) = forest_comments text forest.
Proof.
  intros O key_ok Hk text forest p Hv Hs Hn Hp Hok.
  rewrite (cli_driver_text_comments O key_ok Hk p Hok).
  apply parse_keeps_comments; assumption.
Qed.

(* ------------------------------------------------------------------ (c) F20 at the grammar level
   The rules that can read a "//" run: `comment`, `eol_comment` (atomic, NOT silent: they produce a pair whenever the
   calling context emits) and `inline_comment` (silent), which is only referenced by NEWLINE (silent), whose other
   part `plain_newline` is silent too.  On the regenerated grammar, by computation: *)
Fixpoint expr_idents (e : expr grule) : list grule :=
  match e with
  | Ident r => [r]
  | PosPred x | NegPred x | Opt x | Rep x | Push x | RestoreOnErr x => expr_idents x
  | Seq a b | Choice a b => expr_idents a ++ expr_idents b
  | _ => []
  end.
Definition grule_eqb (a b : grule) : bool := N.eqb (grule_index a) (grule_index b).
Definition mentions (r : grule) (e : expr grule) : bool := existsb (grule_eqb r) (expr_idents e).
Definition is_silent (r : grule) : bool :=
  match rd_mod (grule_def r) with MSilent => true | _ => false end.

(* NEWLINE, inline_comment and plain_newline are silent, and they call nothing but each other: no rule reachable
   from NEWLINE can produce a pair *)
Definition newline_closure : list grule := [PG_NEWLINE; PG_inline_comment; PG_plain_newline].
Lemma newline_rules_silent_and_closed :
  forallb (fun r => is_silent r &&
                    forallb (fun x => existsb (grule_eqb x) newline_closure) (expr_idents (rd_body (grule_def r))))
          newline_closure = true.
Proof. vm_compute. reflexivity. Qed.

(* inline_comment is referenced by NEWLINE only; a "//" run becomes a pair only through `comment` / `eol_comment` *)
Lemma inline_comment_only_in_NEWLINE :
  filter (fun r => mentions PG_inline_comment (rd_body (grule_def r))) all_grules = [PG_NEWLINE].
Proof. vm_compute. reflexivity. Qed.

(* the general statement (any grammar): an expression that can only reach silent rules leaves the produced pairs
   unchanged.  Stated, NOT proved in this round (the induction has the size of PegGeneric.run_good). *)
Definition quiet_rules_emit_no_pairs_full : Prop :=
  forall (Q : grule -> bool),
    (forall r, Q r = true -> is_silent r = true /\ forallb Q (expr_idents (rd_body (grule_def r))) = true) ->
    (forall w, g_ws blots_grammar = Some w -> Q w = true) ->
    (forall w, g_comment blots_grammar = Some w -> Q w = true) ->
    forall fuel m a la e s s',
      forallb Q (expr_idents e) = true ->
      (run blots_grammar fuel m a la e s = Peg.Ok s' \/ run blots_grammar fuel m a la e s = Peg.Fail s') ->
      out s' = out s.

(* a 6-byte witness through the interpreter: "(//<LF>1)" parses, the text contains the comment "//", the pair tree
   contains no comment pair (so the AST cannot carry it: F20) *)
Definition f20_witness : string := "(//" +++ nl +++ "1)".
Lemma f20_witness_swallowed :
  scan_comments f20_witness = ["//"]
  /\ exists forest p, parse_program_c f20_witness = PCOk forest p
                      /\ forest_comments f20_witness forest = []
                      /\ program_comments p = [].
Proof.
  split; [vm_compute; reflexivity|].
  destruct (parse_program_c f20_witness) as [forest p| | | |] eqn:H; try (vm_compute in H; discriminate H).
  exists forest, p. split; [reflexivity|].
  assert (Hf : forest = match parse_program_c f20_witness with PCOk f _ => f | _ => [] end) by (rewrite H; reflexivity).
  assert (Hp : p = match parse_program_c f20_witness with PCOk _ q => q | _ => [] end) by (rewrite H; reflexivity).
  subst forest p. vm_compute. split; reflexivity.
Qed.
(* the same "//" after an item of a list IS a pair (eol_comment): "[1//<LF>]" *)
Lemma f20_contrast_kept :
  exists forest p, parse_program_c ("[1//" +++ nl +++ "]") = PCOk forest p
                   /\ forest_comments ("[1//" +++ nl +++ "]") forest = ["//"]
                   /\ program_comments p = ["//"].
Proof.
  destruct (parse_program_c ("[1//" +++ nl +++ "]")) as [forest p| | | |] eqn:H; try (vm_compute in H; discriminate H).
  exists forest, p. split; [reflexivity|].
  assert (Hf : forest = match parse_program_c ("[1//" +++ nl +++ "]") with PCOk f _ => f | _ => [] end) by (rewrite H; reflexivity).
  assert (Hp : p = match parse_program_c ("[1//" +++ nl +++ "]") with PCOk _ q => q | _ => [] end) by (rewrite H; reflexivity).
  subst forest p. vm_compute. split; reflexivity.
Qed.
