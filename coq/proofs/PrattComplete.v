(* PrattComplete.v — the converse of PrattAdequacy: whatever the fuelled function returns as a
   successful conversion is derivable in the relational transcription.  Together:
   (exists fuel, parse_items fuel its = Ok (Some t))  <->  Items its t. *)
From Coq Require Import String List Bool Arith Lia.
Require Import Blots.Num Blots.gen.Builtins Blots.Ast Blots.Outcome Blots.PrattTypes Blots.Pratt.
Import ListNotations.
Local Open Scope nat_scope.
Local Open Scope list_scope.

Lemma obind_ok {A B} (x : outcome A) (f : A -> outcome B) v :
  obind x f = Ok v -> exists a, x = Ok a /\ f a = Ok v.
Proof. destruct x; cbn; intro H; try discriminate. eauto. Qed.

Section Complete.
  Variable tbl : ops_map.
  Variable imap : list (oprule * binop).
  Variable pmap : list (oprule * prefix_ctor).
  Notation pexpr' := (pexpr tbl imap pmap).
  Notation ploop' := (ploop tbl imap pmap).
  Notation mpost' := (map_postfix tbl imap pmap).
  Notation primary' := (primary tbl imap pmap).
  Notation parse' := (parse_items tbl imap pmap).
  Notation ItemsR := (Items tbl imap pmap).

  Lemma pexpr_S : forall f rbp its,
    pexpr' (S f) rbp its =
    match its with
    | [] => Panic
    | pr0 :: rest =>
        obind (match item_op pr0 with
               | Some r =>
                   match ops_get tbl r with
                   | Some (Prefix, p) =>
                       obind (pexpr' f (p - 1) rest) (fun rr =>
                       obind (map_prefix pmap r (fst rr)) (fun e => Ok (e, snd rr)))
                   | Some _ => Panic
                   | None => Panic
                   end
               | None => obind (primary' f pr0) (fun e => Ok (e, rest))
               end) (fun lr => ploop' f rbp (fst lr) (snd lr))
    end.
  Proof. reflexivity. Qed.
  Lemma ploop_S : forall m rbp lhs its,
    ploop' (S m) rbp lhs its =
    obind (lbp tbl its) (fun l =>
      if Nat.ltb rbp l then
        match its with
        | [] => Panic
        | pr0 :: rest =>
            match item_op pr0 with
            | Some r =>
                match ops_get tbl r with
                | Some (Infix a, p) =>
                    obind (pexpr' m (match a with ALeft => p | ARight => p - 1 end) rest) (fun rr =>
                    obind (map_infix imap lhs r (fst rr)) (fun e => ploop' m rbp e (snd rr)))
                | Some (Postfix, _) => obind (mpost' m lhs pr0) (fun e => ploop' m rbp e rest)
                | _ => Panic
                end
            | None => Panic
            end
        end
      else Ok (lhs, its)).
  Proof. reflexivity. Qed.
  Lemma parse_S : forall f its, parse' (S f) its = obind (pexpr' f 0 its) (fun r => Ok (fst r)).
  Proof. reflexivity. Qed.

  (* the element loops, given completeness of the nested converter *)
  Section LoopsComplete.
    Variable parse : list item -> outcome tres.
    Hypothesis Hp : forall g e, parse g = Ok (Some e) -> ItemsR g e.

    Lemma omapM_complete : forall args es, omapM parse args = Ok (Some es) -> Args tbl imap pmap args es.
    Proof.
      induction args as [|g args IH]; intros es H.
      - cbn in H. inversion H. constructor.
      - cbn [omapM] in H. apply obind_ok in H. destruct H as ([e|] & He & H); [|discriminate].
        apply obind_ok in H. destruct H as ([es'|] & Hes & H); cbn in H; inversion H; subst.
        constructor; [apply Hp; exact He | apply IH; exact Hes].
    Qed.
    Lemma list_loop_complete : forall els es, list_loop parse els = Ok (Some es) -> LEls tbl imap pmap els es.
    Proof.
      induction els as [|[s|g eol] els IH]; intros es H.
      - cbn in H. inversion H. constructor.
      - constructor. apply IH. exact H.
      - cbn [list_loop] in H. apply obind_ok in H. destruct H as ([e|] & He & H); [|discriminate].
        apply obind_ok in H. destruct H as ([es'|] & Hes & H); cbn in H; inversion H; subst.
        constructor; [apply Hp; exact He | apply IH; exact Hes].
    Qed.
    Lemma rec_loop_complete : forall els es, rec_loop parse els = Ok (Some es) -> REls tbl imap pmap els es.
    Proof.
      induction els as [|[s|k v eol|s eol|g eol] els IH]; intros es H.
      - cbn in H. inversion H. constructor.
      - constructor. apply IH. exact H.
      - cbn [rec_loop] in H. apply obind_ok in H. destruct H as ([key|] & Hk & H); [|discriminate].
        apply obind_ok in H. destruct H as ([val|] & Hv & H); [|discriminate].
        apply obind_ok in H. destruct H as ([es'|] & Hes & H); cbn in H; inversion H; subst.
        destruct k as [s|s|inner]; cbn [key_of] in Hk.
        + inversion Hk; subst. apply RE_pair_id; [apply Hp; exact Hv | apply IH; exact Hes].
        + inversion Hk; subst. apply RE_pair_str; [apply Hp; exact Hv | apply IH; exact Hes].
        + apply obind_ok in Hk. destruct Hk as ([d|] & Hd & Hk); cbn in Hk; inversion Hk; subst.
          apply RE_pair_dyn; [apply Hp; exact Hd | apply Hp; exact Hv | apply IH; exact Hes].
      - cbn [rec_loop] in H. apply obind_ok in H. destruct H as ([es'|] & Hes & H); cbn in H; inversion H; subst.
        apply RE_short. apply IH. exact Hes.
      - cbn [rec_loop] in H. apply obind_ok in H. destruct H as ([e|] & He & H); [|discriminate].
        apply obind_ok in H. destruct H as ([es'|] & Hes & H); cbn in H; inversion H; subst.
        apply RE_spread; [apply Hp; exact He | apply IH; exact Hes].
    Qed.
    Lemma do_loop_complete : forall els stmts ret t,
      do_loop parse els stmts ret = Ok (Some t) -> DEls tbl imap pmap els stmts ret t.
    Proof.
      induction els as [|[g c|s c|g|s] els IH]; intros stmts ret t H.
      - cbn in H. inversion H. constructor.
      - cbn [do_loop] in H. apply obind_ok in H. destruct H as ([e|] & He & H); [|discriminate].
        eapply DE_stmt; [apply Hp; exact He | apply IH; exact H].
      - apply DE_comstmt. apply IH. exact H.
      - cbn [do_loop] in H. apply obind_ok in H. destruct H as ([e|] & He & H); [|discriminate].
        eapply DE_ret; [apply Hp; exact He | apply IH; exact H].
      - apply DE_com. apply IH. exact H.
    Qed.
  End LoopsComplete.

  Definition C_pexpr (f : nat) := forall rbp its t rest,
    pexpr' f rbp its = Ok (Some t, rest) -> Expr tbl imap pmap rbp its t rest.
  Definition C_ploop (f : nat) := forall rbp lhs its t rest,
    ploop' f rbp lhs its = Ok (Some t, rest) ->
    exists l, lhs = Some l /\ Loop tbl imap pmap rbp l its t rest.
  Definition C_post (f : nat) := forall lhs i u,
    mpost' f lhs i = Ok (Some u) -> exists l, lhs = Some l /\ Post tbl imap pmap l i u.
  Definition C_prim (f : nat) := forall i x, primary' f i = Ok (Some x) -> Prim tbl imap pmap i x.
  Definition C_parse (f : nat) := forall its t, parse' f its = Ok (Some t) -> ItemsR its t.

  Lemma map_prefix_some : forall r r1 l, map_prefix pmap r r1 = Ok (Some l) -> exists x, r1 = Some x.
  Proof.
    intros r r1 l H. unfold map_prefix in H.
    destruct (assoc_find r pmap) as [[u|]|]; [| |discriminate]; destruct r1; cbn in H; try discriminate; eauto.
  Qed.
  Lemma map_infix_some : forall lhs r r1 u, map_infix imap lhs r r1 = Ok (Some u) ->
    exists l x, lhs = Some l /\ r1 = Some x.
  Proof.
    intros lhs r r1 u H. unfold map_infix in H. destruct (assoc_find r imap); [|discriminate].
    destruct lhs, r1; cbn in H; try discriminate. eauto.
  Qed.

  Lemma complete_all : forall f, C_pexpr f /\ C_ploop f /\ C_post f /\ C_prim f /\ C_parse f.
  Proof.
    induction f as [|f (IHe & IHl & IHpo & IHpr & IHpa)].
    - repeat split; intro; intros; discriminate.
    - assert (He : C_pexpr (S f)).
      { intros rbp its t rest H. rewrite pexpr_S in H. destruct its as [|i its']; [discriminate|].
        apply obind_ok in H. destruct H as ([lhs mid] & Hn & H). cbn [fst snd] in H.
        destruct (IHl _ _ _ _ _ H) as (l & -> & HL).
        destruct (item_op i) as [r|] eqn:Eop.
        - destruct (ops_get tbl r) as [[[| |a] p]|] eqn:Eg; try discriminate.
          apply obind_ok in Hn. destruct Hn as ([r1 rest1] & H1 & Hn). cbn [fst snd] in Hn.
          apply obind_ok in Hn. destruct Hn as (e & Hmp & Hn). inversion Hn; subst e mid.
          destruct (map_prefix_some _ _ _ Hmp) as (x & ->).
          eapply E_prefix; [exact Eop | exact Eg | apply IHe; exact H1 | exact Hmp | exact HL].
        - apply obind_ok in Hn. destruct Hn as (e & Hp & Hn). inversion Hn; subst e mid.
          eapply E_primary; [exact Eop | apply IHpr; exact Hp | exact HL]. }
      assert (Hl : C_ploop (S f)).
      { intros rbp lhs its t rest H. rewrite ploop_S in H.
        apply obind_ok in H. destruct H as (l0 & Hlbp & H).
        destruct (Nat.ltb rbp l0) eqn:Elt.
        - apply Nat.ltb_lt in Elt. destruct its as [|i its']; [discriminate|].
          destruct (item_op i) as [r|] eqn:Eop; [|discriminate].
          assert (Hl0 : forall a p, ops_get tbl r = Some (a, p) -> l0 = p).
          { intros a p Eg. unfold lbp in Hlbp. rewrite Eop, Eg in Hlbp. congruence. }
          destruct (ops_get tbl r) as [[[| |a] p]|] eqn:Eg; try discriminate.
          + (* postfix *)
            apply obind_ok in H. destruct H as (e & Hpo & H).
            destruct (IHl _ _ _ _ _ H) as (u & -> & HL).
            destruct (IHpo _ _ _ Hpo) as (l & -> & HP).
            exists l. split; [reflexivity|].
            pose proof (Hl0 _ _ eq_refl). subst l0.
            eapply L_postfix; [exact Eop | exact Eg | exact Elt | exact HP | exact HL].
          + (* infix *)
            apply obind_ok in H. destruct H as ([r1 mid] & H1 & H). cbn [fst snd] in H.
            apply obind_ok in H. destruct H as (e & Hmi & H).
            destruct (IHl _ _ _ _ _ H) as (u & -> & HL).
            destruct (map_infix_some _ _ _ _ Hmi) as (l & x & -> & ->).
            exists l. split; [reflexivity|].
            pose proof (Hl0 _ _ eq_refl). subst l0.
            eapply L_infix; [exact Eop | exact Eg | exact Elt | apply IHe; exact H1 | exact Hmi | exact HL].
        - apply Nat.ltb_ge in Elt. inversion H; subst. exists t. split; [reflexivity|].
          eapply L_stop; [exact Hlbp | exact Elt]. }
      assert (Hpa : C_parse (S f)).
      { intros its t H. rewrite parse_S in H. apply obind_ok in H. destruct H as ([r1 rest] & H1 & H).
        cbn [fst] in H. inversion H; subst r1. eapply I_intro. apply IHe. exact H1. }
      assert (Hpo : C_post (S f)).
      { intros lhs i u H. destruct i; cbn [map_postfix] in H; try discriminate.
        - destruct r; try discriminate. destruct lhs as [l|]; cbn in H; inversion H; subst.
          exists l. split; [reflexivity | apply Po_fact].
        - apply obind_ok in H. destruct H as ([i'|] & Hi & H); destruct lhs as [l|]; cbn in H; inversion H; subst.
          exists l. split; [reflexivity | apply Po_access; apply IHpa; exact Hi].
        - destruct lhs as [l|]; cbn in H; inversion H; subst.
          exists l. split; [reflexivity | apply Po_dot].
        - apply obind_ok in H. destruct H as ([a'|] & Ha & H); destruct lhs as [l|]; cbn in H; inversion H; subst.
          exists l. split; [reflexivity | apply Po_call; apply (omapM_complete (parse' f) IHpa); exact Ha]. }
      assert (Hpr : C_prim (S f)).
      { intros i x H. destruct i; cbn [primary] in H; try discriminate.
        - inversion H; subst. constructor.
        - inversion H; subst. constructor.
        - inversion H; subst. constructor.
        - inversion H; subst. constructor.
        - inversion H; subst. destruct (builtin_of_name s) eqn:E; [apply P_builtin | apply P_ident]; exact E.
        - inversion H; subst. constructor.
        - apply P_expr. apply IHpa. exact H.
        - apply obind_ok in H. destruct H as ([r|] & Hr & H); cbn in H; inversion H; subst.
          apply P_list. apply (list_loop_complete (parse' f) IHpa). exact Hr.
        - apply obind_ok in H. destruct H as ([r|] & Hr & H); cbn in H; inversion H; subst.
          apply P_rec. apply (rec_loop_complete (parse' f) IHpa). exact Hr.
        - apply obind_ok in H. destruct H as ([b|] & Hb & H); cbn in H; inversion H; subst.
          apply P_lam. apply IHpa. exact Hb.
        - apply obind_ok in H. destruct H as ([c'|] & Hc & H); [|discriminate].
          apply obind_ok in H. destruct H as ([t'|] & Ht & H); [|discriminate].
          apply obind_ok in H. destruct H as ([e'|] & He' & H); cbn in H; inversion H; subst.
          apply P_cond; apply IHpa; assumption.
        - apply P_do. apply (do_loop_complete (parse' f) IHpa). exact H.
        - apply obind_ok in H. destruct H as ([v'|] & Hv & H); cbn in H; inversion H; subst.
          apply P_assign. apply IHpa. exact Hv. }
      repeat split; assumption.
  Qed.

  Theorem rel_complete : forall fuel its t, parse' fuel its = Ok (Some t) -> ItemsR its t.
  Proof. intros fuel its t. exact (proj2 (proj2 (proj2 (proj2 (complete_all fuel)))) its t). Qed.
End Complete.
