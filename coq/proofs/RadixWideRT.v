(* proofs/RadixWideRT.v — C16: the round-trip theorems on the model of the tree at hand,
   `read_source_rf radixfix` (NumText.v 3b'), for BOTH values of radixfix: the printed texts
   ([-]ddd[.ddd], possibly parenthesised) never reach the 0x / 0b arms, so the repair of F25
   (fixes/C16-radix-literal-range.diff) leaves every round trip intact.  The proofs mirror
   proofs/NumTextRT.v (read_source_plain, source_reads_back, emission_reads_back,
   formatter_reads_back) step for step. *)
From Coq Require Import ZArith Floats.SpecFloat Bool List String Ascii Lia.
Require Import Blots.Num Blots.Outcome Blots.gen.Builtins Blots.Ast Blots.NumText.
Require Import Blots.proofs.NumText Blots.proofs.NumTextStr Blots.proofs.NumTextFloat Blots.proofs.NumTextRT.
Import ListNotations.
Open Scope string_scope.
Open Scope Z_scope.

Lemma literal_value_rf_plain : forall rf sp ip fp,
  all_digits ip = true -> ip <> "" -> all_digits fp = true ->
  literal_value_rf rf sp (plain ip fp) = sp (plain ip fp).
Proof.
  intros rf sp ip fp Hi Hne Hf.
  destruct rf; [|exact (literal_value_plain sp ip fp Hi Hne Hf)].
  unfold literal_value_rf.
  assert (Hb : starts_with "0b" (plain ip fp) = false).
  { unfold starts_with, plain.
    now rewrite (strip_radix_mark_none "b" ip _ mark_b eq_refl Hi Hne (frac_text_dot_or_end fp)). }
  assert (Hx : starts_with "0x" (plain ip fp) = false).
  { unfold starts_with, plain.
    now rewrite (strip_radix_mark_none "x" ip _ mark_x eq_refl Hi Hne (frac_text_dot_or_end fp)). }
  rewrite Hb, Hx.
  destruct ip as [|c ip]; [congruence|]. pose proof Hi as Hi'. simpl in Hi'. apply andb_prop in Hi'.
  destruct Hi' as [Hc Hi'].
  destruct (digit_facts c Hc) as (_ & _ & _ & _ & E1 & E2 & _).
  unfold plain. change (String c ip ++ frac_text fp) with (String c (ip ++ frac_text fp)).
  rewrite !starts_with_signed_mark by assumption. simpl orb. cbv iota.
  f_equal. change (String c (ip ++ frac_text fp)) with (String c ip ++ frac_text fp).
  now rewrite remove_char_app, (remove_underscore_digits _ Hi), (remove_underscore_frac _ Hf).
Qed.

Lemma parse_numexpr_rf_no_paren : forall rf sp src k c r,
  count_neg src = (k, String c r) -> is_digit c = true ->
  parse_numexpr_rf rf sp src = parse_numexpr_flat_rf rf sp src.
Proof.
  intros rf sp src k c r H Hc. unfold parse_numexpr_rf. rewrite H.
  ascii_cases c; try discriminate Hc; reflexivity.
Qed.
Lemma read_source_rf_paren : forall rf sp t,
  parse_numexpr_rf rf sp t = parse_numexpr_flat_rf rf sp t ->
  read_source_rf rf sp ("(" ++ t ++ ")") = read_source_rf rf sp t.
Proof.
  intros rf sp t H. unfold read_source_rf. rewrite H. unfold parse_numexpr_rf.
  change (count_neg ("(" ++ t ++ ")")) with (O, String "(" (t ++ ")")). cbv beta iota.
  rewrite (split_last_snoc t ")"). cbv beta iota.
  destruct (parse_numexpr_flat_rf rf sp t); reflexivity.
Qed.

Lemma read_source_rf_plain : forall rf sp s ip fp,
  parse_contract sp -> all_digits ip = true -> ip <> "" -> all_digits fp = true ->
  read_source_rf rf sp (sign_str s ++ plain ip fp)
  = Ok (rn_decimal s (digits_val (ip ++ fp) 0) (0 - slen fp)).
Proof.
  intros rf sp s ip fp Hsp Hi Hne Hf.
  assert (Hhd : exists c r, plain ip fp = String c r /\ is_digit c = true).
  { destruct ip as [|c ip']; [congruence|]. pose proof Hi as Hi'. simpl in Hi'. apply andb_prop in Hi'.
    exists c, (ip' ++ frac_text fp). split; [reflexivity | tauto]. }
  destruct Hhd as (c & r & Hpl & Hc).
  assert (Hcn : count_neg (sign_str s ++ plain ip fp) = ((if s then 1 else 0)%nat, plain ip fp)).
  { destruct s; cbn [sign_str append].
    - change (count_neg (String "-" (plain ip fp)))
        with (let '(n, t) := count_neg (plain ip fp) in (S n, t)).
      rewrite Hpl. now rewrite (count_neg_digit c r Hc).
    - rewrite Hpl. apply (count_neg_digit c r Hc). }
  unfold read_source_rf.
  assert (Hcn' : count_neg (sign_str s ++ plain ip fp) = ((if s then 1 else 0)%nat, String c r))
    by (rewrite Hcn; now rewrite Hpl).
  rewrite (parse_numexpr_rf_no_paren rf sp _ _ c r Hcn' Hc).
  unfold parse_numexpr_flat_rf. rewrite Hcn. rewrite Hpl at 1. rewrite Hc. cbn [orb].
  rewrite (lex_number_plain ip fp Hi Hne Hf).
  rewrite (literal_value_rf_plain rf sp ip fp Hi Hne Hf), (Hsp ip fp Hi Hne Hf).
  unfold ref_str_parse.
  change (plain ip fp) with (sign_str false ++ plain ip fp) at 1.
  rewrite (rust_float_syntax_plain false ip fp Hi Hne Hf). cbn [option_map fnum_value].
  assert (Hm : 0 <= digits_val (ip ++ fp) 0).
  { apply digits_val_nonneg; [|lia]. now rewrite all_digits_app, Hi, Hf. }
  rewrite (rn_decimal_sign s _ _ Hm).
  destruct s; reflexivity.
Qed.

Section RoundTripRF.
  Variable radixfix : bool.
  Variable fmt_prec0 : num -> string.
  Variable display : num -> string.
  Variable str_parse : string -> option num.

  Theorem source_reads_back_rf : forall x,
    valid_binary 53 1024 x = true -> is_finite x = true ->
    parse_contract str_parse ->
    (nfract_is_zero x && nltb (nabs x) c1e15 = true -> prec0_contract (fmt_prec0 x) x) ->
    (nfract_is_zero x && nltb (nabs x) c1e15 = false -> display_contract (display x) x) ->
    read_source_rf radixfix str_parse (print_num fmt_prec0 display x) = Ok x.
  Proof.
    intros x Hv Hf Hsp Hp0 Hd.
    destruct (print_num_shape fmt_prec0 display x Hv Hf Hp0 Hd) as (ip & fp & Ht & Hi & Hne & Hfp & Hval).
    rewrite Ht, (read_source_rf_plain radixfix str_parse (nsign x) ip fp Hsp Hi Hne Hfp). now f_equal.
  Qed.

  Theorem emission_reads_back_rf : forall x,
    valid_binary 53 1024 x = true -> is_finite x = true ->
    parse_contract str_parse ->
    (nfract_is_zero x && nltb (nabs x) c1e15 = true -> prec0_contract (fmt_prec0 x) x) ->
    (nfract_is_zero x && nltb (nabs x) c1e15 = false -> display_contract (display x) x) ->
    read_source_rf radixfix str_parse (emit_num fmt_prec0 display x) = Ok x.
  Proof.
    intros x Hv Hf Hsp Hp0 Hd. unfold emit_num. cbv zeta.
    assert (Hn : is_nan x = false) by (destruct x; try discriminate Hf; reflexivity).
    rewrite Hn.
    destruct (nsign x) eqn:Hs; [|now apply source_reads_back_rf].
    destruct (print_num_shape fmt_prec0 display x Hv Hf Hp0 Hd) as (ip & fp & Ht & Hi & Hne & Hfp & Hval).
    rewrite read_source_rf_paren; [now apply source_reads_back_rf|].
    rewrite Ht, Hs. cbn [sign_str append].
    destruct ip as [|c ip']; [congruence|]. pose proof Hi as Hi'. simpl in Hi'. apply andb_prop in Hi'.
    apply (parse_numexpr_rf_no_paren radixfix str_parse _ 1%nat c (ip' ++ frac_text fp)); [|tauto].
    change (count_neg (String "-" (plain (String c ip') fp)))
      with (let '(n, t) := count_neg (plain (String c ip') fp) in (S n, t)).
    unfold plain. change (String c ip' ++ frac_text fp) with (String c (ip' ++ frac_text fp)).
    now rewrite (count_neg_digit c _ (proj1 Hi')).
  Qed.

  Theorem formatter_reads_back_rf : forall x w,
    valid_binary 53 1024 x = true -> is_finite x = true ->
    parse_contract str_parse ->
    (nfract_is_zero x && nltb (nabs x) c1e15 = true -> prec0_contract (fmt_prec0 x) x) ->
    (nfract_is_zero x && nltb (nabs x) c1e15 = false -> display_contract (display x) x) ->
    read_source_rf radixfix str_parse (format_num fmt_prec0 display x w) = Ok x.
  Proof. intros x w. unfold format_num. apply source_reads_back_rf. Qed.
End RoundTripRF.
