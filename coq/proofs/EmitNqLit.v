(* EmitNqLit.v — C05: the literals of NaN and of both-quote strings / keys denote the value.
   Generic in the operator implementation up to [binop_lit_ok] (0/0 = NaN, string + string =
   concatenation); [binop_lit_ok_inst] / [binop_lit_ok_all]: the transcribed operators satisfy it. *)
From Coq Require Import String Ascii List ZArith Bool Lia Floats.SpecFloat.
Require Import Blots.Num Blots.gen.Builtins Blots.Ast Blots.Value Blots.Outcome Blots.Binop
               Blots.Env Blots.Eval Blots.Emit Blots.EmitNq Blots.proofs.ValueInd
               Blots.proofs.EmitLit.
Import ListNotations.
Open Scope list_scope.

Lemma append_nil_r_str (s : string) : (s ++ "")%string = s.
Proof. induction s; cbn; congruence. Qed.

Lemma chain_str_app l : forall x p, chain_str (x ++ p) l = (x ++ chain_str p l)%string.
Proof.
  induction l as [|q l IH]; intros x p; [reflexivity|].
  unfold chain_str in *. cbn [fold_left]. rewrite <- IH. f_equal.
  now rewrite !append_assoc_str.
Qed.

(* joining the pieces of s.split(double quote) with the double quote gives back s *)
Lemma split_dq_chain s : forall cur,
  exists p r, split_dq s cur = p :: r /\ chain_str p r = (cur ++ s)%string.
Proof.
  induction s as [|a s IH]; intros cur; cbn [split_dq].
  - exists cur, []. split; [reflexivity|]. cbn. now rewrite append_nil_r_str.
  - destruct (Ascii.eqb_spec a dq) as [->|N].
    + destruct (IH ""%string) as (p & r & E & C). exists cur, (p :: r). rewrite E.
      split; [reflexivity|].
      change (chain_str cur (p :: r)) with (chain_str ((cur ++ String dq "") ++ p) r).
      rewrite chain_str_app, C. cbn. rewrite append_assoc_str. reflexivity.
    + destruct (IH (cur ++ String a "")%string) as (p & r & E & C). exists p, r.
      split; [exact E|]. rewrite C, append_assoc_str. reflexivity.
Qed.

Lemma nanc_list n x l : (n || negb (has_nan (VList (x :: l)))) = true ->
  (n || negb (has_nan x)) = true /\ (n || negb (has_nan (VList l))) = true.
Proof. destruct n; cbn; [auto|]. intros H. apply negb_true_iff, orb_false_elim in H as [A B]. now rewrite A, B. Qed.
Lemma nanc_rec n k x r : (n || negb (has_nan (VRec ((k, x) :: r)))) = true ->
  (n || negb (has_nan x)) = true /\ (n || negb (has_nan (VRec r))) = true.
Proof. destruct n; cbn; [auto|]. intros H. apply negb_true_iff, orb_false_elim in H as [A B]. now rewrite A, B. Qed.

Section LitNq.
  Variable release : bool.
  Variable binop_impl : callback -> binop -> value -> value -> store -> outcome value * store.
  Variable apply : frames -> callback.
  Hypothesis Hops : binop_lit_ok binop_impl.
  Notation evalE := (evalE release binop_impl apply).

  Lemma concat_ast_evaluates l : forall acc a c, evalE c acc = (Ok (VStr a), c) ->
    evalE c (concat_ast acc l) = (Ok (VStr (chain_str a l)), c).
  Proof.
    induction l as [|p l IH]; intros acc a c H; cbn [concat_ast]; [exact H|].
    apply IH. destruct c as [st fr]. cbn [Eval.evalE]. rewrite H. cbn [Eval.evalE].
    rewrite (proj2 Hops). rewrite (proj2 Hops). reflexivity.
  Qed.

  (* (1) the `+` chain written for ANY string evaluates to the string, at every depth (the depth
     lives in [apply]), in every scope chain and store, and leaves both unchanged *)
  Theorem lit_both_quote_evaluates : forall s c, evalE c (str_to_ast s) = (Ok (VStr s), c).
  Proof.
    intros s c. unfold str_to_ast. destruct (both_quotes s); [|reflexivity].
    destruct (split_dq_chain s ""%string) as (p & r & E & C). rewrite E.
    rewrite (concat_ast_evaluates r (EStr p) p c) by reflexivity. rewrite C. reflexivity.
  Qed.

  Theorem lit_nan_evaluates : forall c, evalE c (num_to_ast true nnan) = (Ok (VNum nnan), c).
  Proof. intros [st fr]. cbn. rewrite (proj1 Hops). reflexivity. Qed.

  Lemma num_roundtrip_nq n x c : (n || negb (is_nan x)) = true ->
    evalE c (num_to_ast n x) = (Ok (VNum x), c).
  Proof.
    destruct (is_nan x) eqn:E.
    - destruct x; try discriminate. rewrite orb_false_r. intros ->. apply lit_nan_evaluates.
    - intros _. now apply num_roundtrip.
  Qed.

  (* a record entry under the key literal: static key, or the computed key of a both-quote key *)
  Lemma key_entry_evaluates k e x c acc r :
    evalE c e = (Ok x, c) ->
    evalRecL evalE c acc (Cm [] (REntry (key_to_rkey k) e) None :: r) =
    evalRecL evalE c (rec_insert acc k x) r.
  Proof.
    intros H. unfold key_to_rkey. destruct (both_quotes k) eqn:B.
    - cbn [evalRecL]. fold (str_to_ast k).
      assert (E : str_to_ast k = str_to_ast k) by reflexivity.
      rewrite (lit_both_quote_evaluates k c). cbn [as_string]. rewrite H. reflexivity.
    - cbn [evalRecL]. rewrite H. reflexivity.
  Qed.

  Theorem lit_roundtrip_nq : forall n d v, emittable_nq n v = true ->
    forall c, evalE c (value_to_ast n d v) = (Ok v, c).
  Proof.
    intros n d v. unfold emittable_nq.
    induction v using value_ind'; intros Hv c; apply andb_prop in Hv as [Hfo Hnan].
    - cbn [value_to_ast]. apply num_roundtrip_nq. exact Hnan.
    - reflexivity.
    - reflexivity.
    - cbn [value_to_ast]. apply lit_both_quote_evaluates.
    - rewrite value_to_ast_list. cbn [Eval.evalE].
      assert (HL : evalCL evalE c (map (fun x => Cm [] (value_to_ast n d x) None) l) = (Ok l, c)).
      { cbn in Hfo. clear - H Hfo Hnan. revert Hfo Hnan.
        induction H as [|x l Hx Hl IH]; cbn [map evalCL forallb]; [reflexivity|]. intros Hfo Hnan.
        apply andb_prop in Hfo as [F1 F2]. apply nanc_list in Hnan as [N1 N2].
        rewrite Hx by (now rewrite F1, N1). rewrite IH by assumption. reflexivity. }
      rewrite HL. cbn. rewrite flatten_no_spread; [reflexivity|]. apply fo_no_spread. exact Hfo.
    - rewrite value_to_ast_rec. cbn [Eval.evalE].
      cbn in Hfo. apply andb_prop in Hfo as [Hnd Hfo].
      assert (HG : forall acc, (forall k, In k (map fst r) -> rec_get acc k = None) ->
                evalRecL evalE c acc
                  (map (fun kv => Cm [] (REntry (key_to_rkey (fst kv)) (value_to_ast n d (snd kv))) None) r)
                = (Ok (VRec (acc ++ r)), c)).
      { clear - H Hnd Hfo Hnan Hops. revert Hnd Hfo Hnan.
        induction H as [|[k x] r Hx Hr IH]; intros Hnd Hfo Hnan acc Hacc.
        - cbn. now rewrite app_nil_r.
        - cbn in Hnd, Hfo, Hx. cbn [map fst snd].
          destruct (rec_get r k) eqn:Ek; [discriminate|].
          apply andb_prop in Hfo as [F1 F2]. apply nanc_rec in Hnan as [N1 N2].
          rewrite (key_entry_evaluates k _ x c acc) by (apply Hx; now rewrite F1, N1).
          rewrite rec_insert_fresh by (apply Hacc; now left).
          rewrite IH; try assumption.
          + now rewrite <- app_assoc.
          + intros k' Hk'. rewrite rec_get_app_none by (apply Hacc; now right).
            cbn. destruct (String.eqb_spec k' k) as [->|]; [|reflexivity].
            exfalso. apply rec_get_None_notin in Ek. contradiction. }
      apply (HG []). reflexivity.
    - discriminate.
    - reflexivity.
    - discriminate.
  Qed.
End LitNq.

(* the old class is inside the new one *)
Lemma emittable_gen_nq n v : emittable_gen v = true -> emittable_nq n v = true.
Proof.
  unfold emittable_gen, emittable_nq. intros H. apply andb_prop in H as [H N].
  apply andb_prop in H as [F _]. rewrite F, N. now destruct n.
Qed.

(* ---- the transcribed operators satisfy the hypothesis ---- *)
Require Import Blots.EvalInst Blots.EvalAll.

Lemma binop_lit_ok_inst : binop_lit_ok binop_impl.
Proof. split; intros; reflexivity. Qed.
Lemma binop_lit_ok_all : forall o, binop_lit_ok (binop_all o).
Proof. intros o. split; intros; reflexivity. Qed.

(* the same record-entry step when evaluating the value expression moves the configuration *)
Lemma key_entry_evaluates_cfg release binop_impl apply : binop_lit_ok binop_impl ->
  forall k e x c c1 acc r,
    evalE release binop_impl apply c e = (Ok x, c1) ->
    evalRecL (evalE release binop_impl apply) c acc (Cm [] (REntry (key_to_rkey k) e) None :: r) =
    evalRecL (evalE release binop_impl apply) c1 (rec_insert acc k x) r.
Proof.
  intros Hops k e x c c1 acc r H. unfold key_to_rkey. destruct (both_quotes k) eqn:B.
  - cbn [evalRecL]. rewrite (lit_both_quote_evaluates release binop_impl apply Hops k c).
    cbn [as_string]. rewrite H. reflexivity.
  - cbn [evalRecL]. rewrite H. reflexivity.
Qed.
