(* PrintCapture.v — with the repaired rule no lambda body, conditional branch or assignment value
   absorbs what follows it, lambda bodies contain no via / into / where outside parentheses, and no
   do-block statement continues the previous one: seq_ok (print_items (policy_new oi) e) for every
   well-formed tree e. *)
From Coq Require Import String Ascii List Bool Arith Lia.
Require Import Blots.Num Blots.gen.Builtins Blots.Ast Blots.Outcome Blots.PrattTypes Blots.gen.PrecTable
               Blots.Pratt Blots.PrattRender Blots.Printer Blots.proofs.PrattRT Blots.proofs.PrintText.
Import ListNotations.
Local Open Scope nat_scope.
Local Open Scope list_scope.

Lemma follow_ok_head : forall x y a b, follow_ok x (y :: a) = follow_ok x (y :: b).
Proof. intros x y a b. destruct x; try reflexivity; destruct y; reflexivity. Qed.

Lemma seq_ok_cons : forall x r, seq_ok (x :: r) = item_ok x && follow_ok x r && seq_ok r.
Proof. reflexivity. Qed.

Lemma last_app_ne : forall (l1 l2 : list item) d, l2 <> [] -> last (l1 ++ l2) d = last l2 d.
Proof.
  induction l1 as [|x l1 IH]; intros l2 d H; [reflexivity|].
  cbn [app]. destruct (l1 ++ l2) eqn:E.
  - apply app_eq_nil in E. destruct E as [_ E]. contradiction.
  - rewrite <- E. cbn [last]. rewrite E. rewrite <- E. apply IH. exact H.
Qed.

Lemma seq_ok_app : forall l1 l2,
  seq_ok l1 = true -> seq_ok l2 = true ->
  (l1 = [] \/ l2 = [] \/ follow_ok (last l1 INull) l2 = true) ->
  seq_ok (l1 ++ l2) = true.
Proof.
  induction l1 as [|x l1 IH]; intros l2 H1 H2 Hf; [exact H2|].
  rewrite seq_ok_cons in H1. apply andb_prop in H1. destruct H1 as [H1 Hr]. apply andb_prop in H1. destruct H1 as [Hx Hfx].
  destruct l2 as [|y l2]; [rewrite app_nil_r, seq_ok_cons, Hx, Hfx, Hr; reflexivity|].
  destruct Hf as [Hf|[Hf|Hf]]; try discriminate.
  cbn [app]. rewrite seq_ok_cons, Hx. cbn [andb].
  destruct l1 as [|z l1].
  - cbn [app]. cbn [last] in Hf. rewrite Hf. exact H2.
  - cbn [app]. rewrite (follow_ok_head x z (l1 ++ y :: l2) l1), Hfx. cbn [andb].
    change (z :: l1 ++ y :: l2) with ((z :: l1) ++ y :: l2).
    apply IH; [exact Hr | exact H2 |]. right. right.
    change (last (x :: z :: l1) INull) with (last (z :: l1) INull) in Hf. exact Hf.
Qed.

Lemma item_tail_lambda : forall a b, item_tail_ok (ILambda a b) = item_tail_ok (last b INull).
Proof.
  intros a b. cbn [item_tail_ok].
  induction b as [|x b IH]; [reflexivity|].
  destruct b as [|y b]; [reflexivity|].
  change (last (x :: y :: b) INull) with (last (y :: b) INull). rewrite <- IH. reflexivity.
Qed.

Lemma open_kind_app : forall l1 l2, l2 <> [] -> open_kind (l1 ++ l2) = open_kind l2.
Proof. intros l1 l2 H. unfold open_kind. rewrite last_app_ne by exact H. reflexivity. Qed.

Lemma open_kind_greedy_iff : forall l, tailk_eqb (open_kind l) TGreedy = negb (item_tail_ok (last l INull)).
Proof.
  intro l. unfold open_kind. destruct (last l INull) eqn:E; try reflexivity.
  rewrite item_tail_lambda. destruct (item_tail_ok (last body INull)); reflexivity.
Qed.

Lemma follow_closed : forall l1 l2, open_kind l1 = TClosed -> follow_ok (last l1 INull) l2 = true.
Proof.
  intros l1 l2 H. unfold open_kind in H. destruct (last l1 INull); try reflexivity; try discriminate.
  destruct (item_tail_ok (ILambda args body)); discriminate.
Qed.
Lemma follow_lambda : forall l1 r l2,
  open_kind l1 = TLambda -> is_vwi_rule r = true -> follow_ok (last l1 INull) (IOp r :: l2) = true.
Proof.
  intros l1 r l2 H Hr. unfold open_kind in H. destruct (last l1 INull) eqn:E; try discriminate.
  destruct (item_tail_ok (ILambda args body)) eqn:Et; [|cbn in H; discriminate H].
  unfold follow_ok. rewrite Hr, Et. reflexivity.
Qed.

Lemma is_vwi_rule_binop : forall o, is_vwi_rule (binop_rule o) = is_vwi o.
Proof. destruct o; reflexivity. Qed.

Lemma no_vwi_app : forall a b, no_vwi (a ++ b) = no_vwi a && no_vwi b.
Proof. intros. unfold no_vwi. apply forallb_app. Qed.

Lemma tail_lam : forall oi a b,
  tail oi (ELam a b) = if negb (lbnp oi b) && tailk_eqb (tail oi b) TGreedy then TGreedy else TLambda.
Proof. reflexivity. Qed.
Lemma tail_bin : forall oi o l r, tail oi (EBin o l r) = if new_right oi o r then TClosed else tail oi r.
Proof. reflexivity. Qed.
Lemma tail_un : forall oi u x, tail oi (EUn u x) = if new_unary oi x then TClosed else tail oi x.
Proof. reflexivity. Qed.
Lemma lbnp_bin : forall oi o l r,
  lbnp oi (EBin o l r) = is_vwi o || (negb (new_left oi o l) && lbnp oi l) || (negb (new_right oi o r) && lbnp oi r).
Proof. reflexivity. Qed.
Lemma lbnp_un : forall oi u x, lbnp oi (EUn u x) = negb (new_unary oi x) && lbnp oi x.
Proof. reflexivity. Qed.

Section Capture.
  Variable oi : opinfo_t.
  Hypothesis Hlv : forall o, fst (oi o) < PREFIX_LEVEL.
  Variable fx : fixes.
  Hypothesis Hdm : fx_dominus fx = true.
  Variable numtxt : num -> string.
  Notation pol := (policy_new oi).
  Notation pi := (print_items fx pol numtxt).
  Notation pt := (print_text fx pol numtxt).

  Lemma pi_nonempty : forall e, wf e = true -> pi e <> [].
  Proof.
    intros e H. destruct e; cbn [print_items]; try discriminate;
      try (intro E; apply app_eq_nil in E; destruct E as [_ E]; discriminate).
    - destruct ret. discriminate.
  Qed.

  Lemma wrapb_nonempty : forall b e, wf e = true -> wrapb b (pi e) <> [].
  Proof. intros [|] e H; cbn [wrapb]; [discriminate | apply pi_nonempty; exact H]. Qed.

  Lemma open_kind_wrapb_true : forall l, open_kind (wrapb true l) = TClosed.
  Proof. reflexivity. Qed.

  (* ---- how the token stream ends = fn tail *)
  Lemma tail_spec : forall e, wf e = true -> open_kind (pi e) = tail oi e.
  Proof.
    induction e using expr_ind'; intro Hwf; cbn [print_items]; try reflexivity.
    - (* ELam *)
      cbn [wf] in Hwf. rewrite tail_lam. cbn [pB policy_new]. unfold open_kind. cbn [last].
      rewrite item_tail_lambda.
      destruct (lbnp oi e) eqn:El; cbn [wrapb negb andb].
      + reflexivity.
      + rewrite <- (IHe Hwf). rewrite open_kind_greedy_iff.
        destruct (item_tail_ok (last (pi e) INull)); reflexivity.
    - (* EDo *) destruct ret. reflexivity.
    - (* EOutput *) discriminate.
    - (* ECall *) unfold open_kind. rewrite last_last. reflexivity.
    - (* EAccess *) unfold open_kind. rewrite last_last. reflexivity.
    - (* EDot *) unfold open_kind. rewrite last_last. reflexivity.
    - (* EBin *)
      cbn [wf] in Hwf. apply andb_prop in Hwf. destruct Hwf as [Hwl Hwr].
      rewrite tail_bin. cbn [pR policy_new]. change (IOp (binop_rule o) :: wrapb (new_right oi o e2) (pi e2))
        with ([IOp (binop_rule o)] ++ wrapb (new_right oi o e2) (pi e2)).
      rewrite open_kind_app by discriminate.
      rewrite open_kind_app by (apply wrapb_nonempty; exact Hwr).
      destruct (new_right oi o e2); [reflexivity | cbn [wrapb]; apply IHe2; exact Hwr].
    - (* EUn *)
      cbn [wf] in Hwf. apply andb_prop in Hwf. destruct Hwf as [_ Hwe].
      rewrite tail_un. cbn [pU policy_new]. change (unop_item u :: wrapb (new_unary oi e) (pi e))
        with ([unop_item u] ++ wrapb (new_unary oi e) (pi e)).
      rewrite open_kind_app by (apply wrapb_nonempty; exact Hwe).
      destruct (new_unary oi e); [reflexivity | cbn [wrapb]; apply IHe; exact Hwe].
    - (* EFact *) unfold open_kind. rewrite last_last. reflexivity.
  Qed.

  (* ---- lambda bodies *)
  Lemma new_post_no_lbnp : forall f, new_post oi f = false -> lbnp oi f = false.
  Proof.
    intros f H. unfold new_post in H. apply orb_false_elim in H. destruct H as [H _].
    apply Nat.ltb_ge in H. destruct f; try reflexivity; cbn [binding_level] in H.
    - pose proof (Hlv op). unfold POSTFIX_LEVEL, PREFIX_LEVEL in *. lia.
    - unfold POSTFIX_LEVEL, PREFIX_LEVEL in *. lia.
  Qed.

  Lemma no_vwi_wrapb : forall b l, (b = false -> no_vwi l = true) -> no_vwi (wrapb b l) = true.
  Proof. intros [|] l H; cbn [wrapb]; [reflexivity | apply H; reflexivity]. Qed.

  Lemma lbnp_spec : forall e, wf e = true -> lbnp oi e = false -> no_vwi (pi e) = true.
  Proof.
    induction e using expr_ind'; intros Hwf Hl; cbn [print_items]; try reflexivity.
    - (* EDo *) destruct ret. reflexivity.
    - (* ECall *)
      cbn [wf] in Hwf. apply andb_prop in Hwf. destruct Hwf as [Hwf1 _].
      rewrite no_vwi_app. apply andb_true_intro. split; [|reflexivity]. apply no_vwi_wrapb.
      cbn [pC policy_new]. intro E. apply IHe; [exact Hwf1 | apply new_post_no_lbnp; exact E].
    - (* EAccess *)
      cbn [wf] in Hwf. apply andb_prop in Hwf. destruct Hwf as [Hwf1 _].
      rewrite no_vwi_app. apply andb_true_intro. split; [|reflexivity]. apply no_vwi_wrapb.
      cbn [pP policy_new]. intro E. apply IHe1; [exact Hwf1 | apply new_post_no_lbnp; exact E].
    - (* EDot *)
      cbn [wf] in Hwf. rewrite no_vwi_app. apply andb_true_intro. split; [|reflexivity]. apply no_vwi_wrapb.
      cbn [pP policy_new]. intro E. apply IHe; [exact Hwf | apply new_post_no_lbnp; exact E].
    - (* EBin *)
      cbn [wf] in Hwf. apply andb_prop in Hwf. destruct Hwf as [Hwl Hwr].
      rewrite lbnp_bin in Hl. apply orb_false_elim in Hl. destruct Hl as [Hl Hr].
      apply orb_false_elim in Hl. destruct Hl as [Hv Hl].
      rewrite no_vwi_app. cbn [pL pR policy_new]. apply andb_true_intro. split.
      + apply no_vwi_wrapb. intro E. rewrite E in Hl. cbn [negb andb] in Hl. apply IHe1; assumption.
      + change (IOp (binop_rule o) :: wrapb (new_right oi o e2) (pi e2))
          with ([IOp (binop_rule o)] ++ wrapb (new_right oi o e2) (pi e2)).
        rewrite no_vwi_app. apply andb_true_intro. split.
        * unfold no_vwi. cbn [forallb]. rewrite is_vwi_rule_binop, Hv. reflexivity.
        * apply no_vwi_wrapb. intro E. rewrite E in Hr. cbn [negb andb] in Hr. apply IHe2; assumption.
    - (* EUn *)
      cbn [wf] in Hwf. apply andb_prop in Hwf. destruct Hwf as [_ Hwe].
      rewrite lbnp_un in Hl. cbn [pU policy_new].
      change (unop_item u :: wrapb (new_unary oi e) (pi e)) with ([unop_item u] ++ wrapb (new_unary oi e) (pi e)).
      rewrite no_vwi_app. apply andb_true_intro. split; [destruct u; reflexivity|].
      apply no_vwi_wrapb. intro E. rewrite E in Hl. cbn [negb andb] in Hl. apply IHe; assumption.
    - (* EFact *)
      cbn [wf] in Hwf. rewrite no_vwi_app. apply andb_true_intro. split; [|reflexivity]. apply no_vwi_wrapb.
      cbn [pP policy_new]. intro E. apply IHe; [exact Hwf | apply new_post_no_lbnp; exact E].
  Qed.

  (* ---- the do-block separator *)
  Lemma dominus_link : forall i x, wf x = true -> i <> 0 ->
    starts_neg (wrapb (dominus_text fx i (pt x)) (pi x)) = false.
  Proof.
    intros i x Hw Hi. destruct (dominus_text fx i (pt x)) eqn:E; [reflexivity|].
    cbn [wrapb]. destruct (starts_neg (pi x)) eqn:Es; [|reflexivity].
    apply (starts_neg_text fx numtxt) in Es. rewrite <- (items_render fx pol numtxt x Hw) in Es.
    unfold dominus_text in E. rewrite Hdm, Es in E.
    destruct i; [contradiction|]. discriminate.
  Qed.

  Definition OK (e : expr) : Prop := wf e = true -> seq_ok (pi e) = true.

  Lemma seq_ok_one : forall x, seq_ok [x] = item_ok x && follow_ok x [].
  Proof. intro x. rewrite seq_ok_cons. cbn [seq_ok]. apply andb_true_r. Qed.
  Lemma item_ok_expr : forall b g, item_ok (IExpr b g) = seq_ok g.
  Proof. reflexivity. Qed.
  Lemma seq_ok_wrapb : forall b l, seq_ok l = true -> seq_ok (wrapb b l) = true.
  Proof. intros [|] l H; cbn [wrapb]; [rewrite seq_ok_one, item_ok_expr, H; reflexivity | exact H]. Qed.

  Lemma list_ok : forall items,
    Forall (Pcm OK) items ->
    (fix go (l : list (commented expr)) : bool :=
       match l with [] => true | c :: l' => plain_cm c && (match c with Cm _ e _ => wf e end) && go l' end) items = true ->
    item_ok (IList ((fix go (l : list (commented expr)) : list lelem :=
                       match l with [] => [] | Cm _ x _ :: l' => LItem (pi x) None :: go l' end) items)) = true.
  Proof.
    induction items as [|c items IH]; intros HF Hwf; [reflexivity|].
    apply andb_prop in Hwf. destruct Hwf as [Hwf Hrest]. apply andb_prop in Hwf. destruct Hwf as [Hpl Hw].
    destruct c as [ld x tr]. inversion HF as [|? ? Hc HF']; subst. cbn [Pcm] in Hc.
    specialize (IH HF' Hrest).
    change (seq_ok (pi x) && item_ok (IList ((fix go (l : list (commented expr)) : list lelem :=
                       match l with [] => [] | Cm _ x _ :: l' => LItem (pi x) None :: go l' end) items)) = true).
    rewrite (Hc Hw), IH. reflexivity.
  Qed.

  Lemma args_ok : forall args,
    Forall OK args ->
    (fix go (l : list expr) : bool := match l with [] => true | a :: l' => wf a && go l' end) args = true ->
    item_ok (ICall ((fix go (l : list expr) : list (list item) :=
                       match l with [] => [] | a :: l' => pi a :: go l' end) args)) = true.
  Proof.
    induction args as [|a args IH]; intros HF Hwf; [reflexivity|].
    apply andb_prop in Hwf. destruct Hwf as [Hw Hrest]. inversion HF as [|? ? Hc HF']; subst.
    specialize (IH HF' Hrest).
    change (seq_ok (pi a) && item_ok (ICall ((fix go (l : list expr) : list (list item) :=
                       match l with [] => [] | a :: l' => pi a :: go l' end) args)) = true).
    rewrite (Hc Hw), IH. reflexivity.
  Qed.

  Lemma rec_ok : forall entries,
    Forall (Pentry OK) entries ->
    (fix go (l : list (commented rentry)) : bool :=
       match l with
       | [] => true
       | c :: l' =>
           plain_cm c &&
           (match c with
            | Cm _ (REntry k v) _ =>
                match k with
                | KStatic _ => wf v
                | KDyn e => wf e && wf v
                | KShort _ => is_null v
                | KSpread e => wf e && is_null v
                end
            end) && go l'
       end) entries = true ->
    item_ok (IRecord ((fix go (l : list (commented rentry)) : list relem :=
                         match l with
                         | [] => []
                         | Cm _ (REntry k v) _ :: l' =>
                             match k with
                             | KStatic s => RPairI (key_item s) (pi v) None
                             | KDyn d => RPairI (RKDyn [IExpr false (pi d)]) (pi v) None
                             | KShort s => RShortI s None
                             | KSpread x => RSpreadI (pi x) None
                             end :: go l'
                         end) entries)) = true.
  Proof.
    induction entries as [|c entries IH]; intros HF Hwf; [reflexivity|].
    apply andb_prop in Hwf. destruct Hwf as [Hwf Hrest]. apply andb_prop in Hwf. destruct Hwf as [Hpl Hw].
    destruct c as [ld [k v] tr]. inversion HF as [|? ? Hc HF']; subst.
    cbn [Pentry Pkey] in Hc. destruct Hc as [Hk Hv].
    specialize (IH HF' Hrest).
    set (rest := (fix go (l : list (commented rentry)) : list relem :=
                         match l with
                         | [] => []
                         | Cm _ (REntry k v) _ :: l' =>
                             match k with
                             | KStatic s => RPairI (key_item s) (pi v) None
                             | KDyn d => RPairI (RKDyn [IExpr false (pi d)]) (pi v) None
                             | KShort s => RShortI s None
                             | KSpread x => RSpreadI (pi x) None
                             end :: go l'
                         end) entries) in *.
    destruct k as [s|d|s|x].
    - change (match key_item s with RKDyn inner => seq_ok inner | _ => true end && seq_ok (pi v)
              && item_ok (IRecord rest) = true).
      rewrite (Hv Hw), IH. unfold key_item. destruct (is_valid_identifier s); reflexivity.
    - apply andb_prop in Hw. destruct Hw as [Hd Hv'].
      change (seq_ok [IExpr false (pi d)] && seq_ok (pi v) && item_ok (IRecord rest) = true).
      rewrite seq_ok_one, item_ok_expr, (Hk Hd), (Hv Hv'), IH. reflexivity.
    - exact IH.
    - apply andb_prop in Hw. destruct Hw as [Hx _].
      change (seq_ok (pi x) && item_ok (IRecord rest) = true). rewrite (Hk Hx), IH. reflexivity.
  Qed.

  Lemma do_ok : forall stmts i first ret,
    (first = false -> i <> 0) ->
    Forall (Pcm OK) stmts ->
    (fix go (l : list (commented expr)) : bool :=
       match l with [] => true | c :: l' => plain_cm c && (match c with Cm _ e _ => wf e end) && go l' end) stmts = true ->
    seq_ok (pi ret) = true ->
    (fix go (first : bool) (l : list delem) : bool :=
       match l with
       | [] => true
       | DStmt g _ :: r => seq_ok g && (first || negb (starts_neg g)) && go false r
       | DRet g :: r => seq_ok g && go false r
       | _ :: r => go first r
       end) first
      ((fix go (i : nat) (l : list (commented expr)) : list delem :=
          match l with
          | [] => [DRet (pi ret)]
          | Cm _ x _ :: l' => DStmt (wrapb (dominus_text fx i (pt x)) (pi x)) None :: go (S i) l'
          end) i stmts) = true.
  Proof.
    induction stmts as [|c stmts IH]; intros i first ret Hfi HF Hwf Hret.
    - cbn. rewrite Hret. reflexivity.
    - apply andb_prop in Hwf. destruct Hwf as [Hwf Hrest]. apply andb_prop in Hwf. destruct Hwf as [Hpl Hw].
      destruct c as [ld x tr]. inversion HF as [|? ? Hc HF']; subst. cbn [Pcm] in Hc.
      specialize (IH (S i) false ret (fun _ => Nat.neq_succ_0 i) HF' Hrest Hret).
      cbn -[seq_ok starts_neg wrapb dominus_text print_text print_items] in IH |- *.
      rewrite IH. rewrite (seq_ok_wrapb _ _ (Hc Hw)).
      destruct first; [reflexivity|].
      rewrite (dominus_link i x Hw (Hfi eq_refl)). reflexivity.
  Qed.

  Theorem seq_ok_all : forall e, OK e.
  Proof.
    induction e as [x|s|b| |x|x|b|items HF|entries HF|args body IHb|c t1 e IHc IHt IHe|stmts ret HF Hret
                   |x v IHv|e IHe|f args IHf HF|e i IHe IHi|e f IHe|o l r IHl IHr|uo e IHe|e IHe|e IHe]
      using expr_ind';
      intros Hwf; cbn [print_items]; try reflexivity.
    - (* EList *) rewrite seq_ok_one. cbn [wf] in Hwf. rewrite (list_ok items HF Hwf). reflexivity.
    - (* ERec *) rewrite seq_ok_one. cbn [wf] in Hwf. rewrite (rec_ok entries HF Hwf). reflexivity.
    - (* ELam *)
      cbn [wf] in Hwf. rewrite seq_ok_one. cbn [follow_ok]. rewrite andb_true_r.
      change (seq_ok (wrapb (pB pol body) (pi body)) && no_vwi (wrapb (pB pol body) (pi body)) = true).
      rewrite (seq_ok_wrapb _ _ (IHb Hwf)). cbn [andb pB policy_new].
      apply no_vwi_wrapb. intro E. apply lbnp_spec; assumption.
    - (* ECond *)
      cbn [wf] in Hwf. apply andb_prop in Hwf. destruct Hwf as [Hwf H3]. apply andb_prop in Hwf. destruct Hwf as [H1 H2].
      rewrite seq_ok_one. cbn [follow_ok]. rewrite andb_true_r.
      change (seq_ok (pi c) && seq_ok (pi t1) && seq_ok (pi e) = true).
      rewrite (IHc H1), (IHt H2), (IHe H3). reflexivity.
    - (* EDo *)
      destruct ret as [rl r rt]. cbn [wf] in Hwf.
      apply andb_prop in Hwf. destruct Hwf as [Hwf Hr]. apply andb_prop in Hwf. destruct Hwf as [Hs Hpl].
      rewrite seq_ok_one. cbn [follow_ok]. rewrite andb_true_r. cbn [Pcm] in Hret.
      exact (do_ok stmts 0 true r (fun H => match Bool.diff_true_false H with end) HF Hs (Hret Hr)).
    - (* EAssign *)
      cbn [wf] in Hwf. rewrite seq_ok_one. cbn [follow_ok]. rewrite andb_true_r.
      change (seq_ok (pi v) = true). exact (IHv Hwf).
    - (* ECall *)
      cbn [wf] in Hwf. apply andb_prop in Hwf. destruct Hwf as [Hwf1 Hwf2].
      apply seq_ok_app.
      + apply seq_ok_wrapb. exact (IHf Hwf1).
      + rewrite seq_ok_one, (args_ok args HF Hwf2). reflexivity.
      + right. right. cbn [pC policy_new]. destruct (new_post oi f) eqn:E; cbn [wrapb]; [reflexivity|].
        apply follow_closed. rewrite (tail_spec f Hwf1).
        unfold new_post in E. apply orb_false_elim in E. destruct E as [_ E].
        destruct (tail oi f); try reflexivity; discriminate.
    - (* EAccess *)
      cbn [wf] in Hwf. apply andb_prop in Hwf. destruct Hwf as [Hwf1 Hwf2].
      apply seq_ok_app.
      + apply seq_ok_wrapb. exact (IHe Hwf1).
      + rewrite seq_ok_one. cbn [follow_ok]. rewrite andb_true_r.
        change (seq_ok [IExpr false (pi i)] = true). rewrite seq_ok_one, item_ok_expr, (IHi Hwf2). reflexivity.
      + right. right. cbn [pP policy_new]. destruct (new_post oi e) eqn:E; cbn [wrapb]; [reflexivity|].
        apply follow_closed. rewrite (tail_spec e Hwf1).
        unfold new_post in E. apply orb_false_elim in E. destruct E as [_ E].
        destruct (tail oi e); try reflexivity; discriminate.
    - (* EDot *)
      cbn [wf] in Hwf.
      apply seq_ok_app.
      + apply seq_ok_wrapb. exact (IHe Hwf).
      + reflexivity.
      + right. right. cbn [pP policy_new]. destruct (new_post oi e) eqn:E; cbn [wrapb]; [reflexivity|].
        apply follow_closed. rewrite (tail_spec e Hwf).
        unfold new_post in E. apply orb_false_elim in E. destruct E as [_ E].
        destruct (tail oi e); try reflexivity; discriminate.
    - (* EBin *)
      cbn [wf] in Hwf. apply andb_prop in Hwf. destruct Hwf as [Hwl Hwr].
      apply seq_ok_app.
      + apply seq_ok_wrapb. exact (IHl Hwl).
      + rewrite seq_ok_cons. cbn [item_ok follow_ok andb]. apply seq_ok_wrapb. exact (IHr Hwr).
      + right. right. cbn [pL policy_new]. destruct (new_left oi o l) eqn:E; cbn [wrapb]; [reflexivity|].
        unfold new_left in E. apply orb_false_elim in E. destruct E as [_ E].
        unfold tail_parens in E. destruct (tail oi l) eqn:Et.
        * apply follow_closed. rewrite (tail_spec l Hwl). exact Et.
        * apply follow_lambda; [rewrite (tail_spec l Hwl); exact Et|].
          rewrite is_vwi_rule_binop. destruct (is_vwi o); [reflexivity | discriminate].
        * discriminate.
    - (* EUn *)
      cbn [wf] in Hwf. apply andb_prop in Hwf. destruct Hwf as [_ Hwe].
      rewrite seq_ok_cons. replace (item_ok (unop_item uo)) with true by (destruct uo; reflexivity).
      replace (follow_ok (unop_item uo) (wrapb (pU pol e) (pi e))) with true by (destruct uo; reflexivity).
      cbn [andb]. apply seq_ok_wrapb. exact (IHe Hwe).
    - (* EFact *)
      cbn [wf] in Hwf.
      apply seq_ok_app.
      + apply seq_ok_wrapb. exact (IHe Hwf).
      + reflexivity.
      + right. right. cbn [pP policy_new]. destruct (new_post oi e) eqn:E; cbn [wrapb]; [reflexivity|].
        apply follow_closed. rewrite (tail_spec e Hwf).
        unfold new_post in E. apply orb_false_elim in E. destruct E as [_ E].
        destruct (tail oi e); try reflexivity; discriminate.
    - (* ESpread *)
      cbn [wf] in Hwf. rewrite seq_ok_cons. cbn [item_ok follow_ok andb].
      rewrite seq_ok_one, item_ok_expr, (IHe Hwf). reflexivity.
  Qed.

  Theorem new_policy_no_capture : forall e, wf e = true -> seq_ok (pi e) = true.
  Proof. intros e H. apply seq_ok_all. exact H. Qed.
End Capture.
