(* PrattFuelAllArms.v — Panic arms of Pratt.v that depend on the REGENERATED operator table only (gen/PrecTable.v:
   prec_rows, op_chains, infix_map, prefix_map), excluded for EVERY token stream by exhaustion over the 34 operator
   rules (re-checked whenever the table changes):
     - `ops.get(rule)` is never None (lbp's `panic!("Expected operator…")`, nud's fall-through to
       `(self.primary)(pair)` with `unreachable!`);
     - map_prefix's / map_infix's `unreachable!()`: every rule the table calls prefix has a .map_prefix arm, every
       rule it calls infix has a .map_infix arm;
     - the rules the table calls postfix are exactly factorial / access / dot_access / call_list, and on the pairs
       of those kinds map_postfix has an arm (the only postfix pair WITHOUT an arm would be an `IOp` carrying
       access / dot_access / call_list, which PegToItems.op_of never produces: op_of_not_group). *)
From Coq Require Import String List Bool Arith.
Require Import Blots.Num Blots.gen.Builtins Blots.Ast Blots.Outcome Blots.PrattTypes Blots.gen.PrecTable Blots.Pratt.
Require Import Blots.Peg Blots.gen.Grammar Blots.PegToItems.
Import ListNotations.

Lemma impl_table_total : forall r, ops_get impl_table r <> None.
Proof. intro r. destruct r; vm_compute; discriminate. Qed.

Lemma map_prefix_impl_no_panic : forall r p x,
  ops_get impl_table r = Some (Prefix, p) -> map_prefix prefix_map r x <> Outcome.Panic.
Proof.
  intros r p x H. destruct r; vm_compute in H; try discriminate H; destruct x; vm_compute; discriminate.
Qed.

Lemma map_infix_impl_no_panic : forall r a p l x,
  ops_get impl_table r = Some (Infix a, p) -> map_infix infix_map l r x <> Outcome.Panic.
Proof.
  intros r a p l x H. unfold map_infix.
  destruct r; vm_compute in H; try discriminate H; vm_compute; discriminate.
Qed.

Lemma impl_postfix_rules : forall r p,
  ops_get impl_table r = Some (Postfix, p) -> In r [R_factorial; R_access; R_dot_access; R_call_list].
Proof. intros r p H. destruct r; vm_compute in H; try discriminate H; cbn; auto. Qed.

(* a postfix PAIR that is not an `IOp` of a group rule has an arm in map_postfix: the arm's result is the nested
   conversion's, never the `_ => Panic` fall-through *)
Definition postfix_item_has_arm (i : item) : Prop :=
  match i with
  | IOp R_factorial | IAccess _ | IDot _ | ICall _ => True
  | _ => False
  end.
Lemma postfix_item_arm : forall i r p,
  item_op i = Some r -> ops_get impl_table r = Some (Postfix, p) ->
  (forall r', i = IOp r' -> r' <> R_access /\ r' <> R_dot_access /\ r' <> R_call_list) ->
  postfix_item_has_arm i.
Proof.
  intros i r p Hop Ht Hn. destruct i; cbn in Hop; try discriminate Hop; cbn; auto.
  injection Hop as ->. destruct (Hn r eq_refl) as (N1 & N2 & N3).
  destruct (impl_postfix_rules r p Ht) as [<-|[<-|[<-|[<-|[]]]]]; auto; congruence.
Qed.

(* the grammar-rule -> operator-rule map of PegToItems never yields a group rule *)
Lemma op_of_not_group : forall g r, op_of g = Some r -> r <> R_access /\ r <> R_dot_access /\ r <> R_call_list.
Proof. intros g r H. destruct g; cbn in H; try discriminate H; injection H as <-; repeat split; discriminate. Qed.
