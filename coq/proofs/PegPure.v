(* PegPure.v — expressions that only read characters (no stack, no pairs, no skipping) run as a PURE
   matcher on the remaining input.  Compositional lemmas for every grammar, in a context whose atomicity is
   not NonAtomic (so that `skip` is the identity): [pure_run n m a e h] says that with fuel
   >= n + (bytes left) the interpreter on [e] does exactly what the string function [h] does.
   Used by PegIdent.v to identify the `identifier`, `bool`, `null` rules of the regenerated grammar with
   the specification functions of C10Ident.v. *)
From Coq Require Import String Ascii List NArith Bool Arith Lia ZifyBool ZifyNat ZifyN.
Require Import Blots.Peg Blots.proofs.PegGeneric.
Import ListNotations.

Section Pure.
  Variable R : Type.
  Variable G : grammar R.
  Notation st := (st R).
  Notation res := (res R).

  Definition matcher := string -> option string.
  Definition shrinks (h : matcher) : Prop := forall t r, h t = Some r -> String.length r <= String.length t.
  Definition progresses (h : matcher) : Prop := forall t r, h t = Some r -> String.length r < String.length t.

  Definition pure_out (s : st) (o : option string) : res :=
    match o with
    | Some r => Ok (set_pos s (pos s + (slen (rest s) - slen r)) r)
    | None => Fail s
    end.

  Definition pure_run (n : nat) (m : bool) (a : atomicity) (e : expr R) (h : matcher) : Prop :=
    forall f s la, n + String.length (rest s) <= f -> run G f m a la e s = pure_out s (h (rest s)).

  Lemma st_eta : forall s : st, mkst (pos s) (rest s) (stk s) (out s) = s.
  Proof. destruct s; reflexivity. Qed.
  Lemma stack_eta : forall k, mkstack (cache k) (popped k) (lengths k) = k.
  Proof. destruct k; reflexivity. Qed.
  Lemma restore_snapshot : forall k, stack_restore (stack_snapshot k) = k.
  Proof.
    intro k. unfold stack_restore, stack_snapshot. simpl.
    rewrite Nat.ltb_irrefl. apply stack_eta.
  Qed.

  Lemma pure_run_weaken : forall n n' m a e h, n <= n' -> pure_run n m a e h -> pure_run n' m a e h.
  Proof. intros n n' m a e h L H f s la Hf. apply H. lia. Qed.

  (* ---------------------------------------------------------------- atoms *)
  Lemma pure_str : forall m a x, pure_run 1 m a (Str x) (drop_prefix x).
  Proof.
    intros m a x f s la Hf. destruct f as [|f]; [lia|]. rewrite run_S. cbv zeta.
    unfold match_string, pure_out. destruct (drop_prefix x (rest s)) eqn:E; [|reflexivity].
    apply drop_prefix_sdrop in E. destruct E as [L E]. subst s0. do 2 f_equal.
    unfold slen. rewrite sdrop_length by assumption. lia.
  Qed.
  Lemma shrinks_str : forall x, shrinks (drop_prefix x).
  Proof.
    intros x t r E. apply drop_prefix_sdrop in E. destruct E as [L E]. subst r.
    rewrite sdrop_length by assumption. lia.
  Qed.

  Definition class_matcher (c : ascii -> bool) : matcher :=
    fun t => match t with String ch r => if c ch then Some r else None | EmptyString => None end.
  Lemma pure_range : forall m a lo hi, pure_run 1 m a (Range lo hi) (class_matcher (in_range lo hi)).
  Proof.
    intros m a lo hi f s la Hf. destruct f as [|f]; [lia|]. rewrite run_S. cbv zeta.
    unfold match_range, pure_out, class_matcher. destruct (rest s) eqn:E; [reflexivity|].
    destruct (in_range lo hi a0); [|reflexivity]. do 2 f_equal. unfold slen. cbn [String.length]. lia.
  Qed.
  Lemma progresses_class : forall c, progresses (class_matcher c).
  Proof.
    intros c t r E. unfold class_matcher in E. destruct t; [discriminate|].
    destruct (c a); inversion E; subst. simpl. lia.
  Qed.
  Lemma progresses_shrinks : forall h, progresses h -> shrinks h.
  Proof. intros h H t r E. apply H in E. lia. Qed.

  (* ---------------------------------------------------------------- combinators *)
  Definition m_choice (h1 h2 : matcher) : matcher :=
    fun t => match h1 t with Some r => Some r | None => h2 t end.
  Definition m_seq (h1 h2 : matcher) : matcher :=
    fun t => match h1 t with Some r => h2 r | None => None end.
  Definition m_not (h : matcher) : matcher :=
    fun t => match h t with Some _ => None | None => Some t end.
  Definition m_opt (h : matcher) : matcher :=
    fun t => match h t with Some r => Some r | None => Some t end.
  Fixpoint m_star_n (n : nat) (h : matcher) (t : string) : string :=
    match n with
    | O => t
    | S n' => match h t with Some r => m_star_n n' h r | None => t end
    end.
  Definition m_star (h : matcher) : matcher := fun t => Some (m_star_n (String.length t) h t).

  Lemma pure_choice : forall n1 n2 m a x y h1 h2,
      pure_run n1 m a x h1 -> pure_run n2 m a y h2 ->
      pure_run (S (Nat.max n1 n2)) m a (Choice x y) (m_choice h1 h2).
  Proof.
    intros n1 n2 m a x y h1 h2 H1 H2 f s la Hf. destruct f as [|f]; [lia|]. rewrite run_S. cbv zeta.
    rewrite H1 by lia. unfold m_choice. destruct (h1 (rest s)); simpl; [reflexivity|].
    rewrite H2 by lia. reflexivity.
  Qed.

  Lemma pure_out_compose : forall (s : st) t r1 o, rest s = t ->
      String.length r1 <= String.length t ->
      (forall r2, o = Some r2 -> String.length r2 <= String.length r1) ->
      sequence s (pure_out (set_pos s (pos s + (slen t - slen r1)) r1) o) = pure_out s o.
  Proof.
    intros s t r1 o E L1 L2. destruct o as [r2|]; simpl.
    - specialize (L2 r2 eq_refl). unfold set_pos. simpl. do 2 f_equal. rewrite E. unfold slen. lia.
    - f_equal. apply st_eta.
  Qed.

  Section NoSkip.
    Variable a : atomicity.
    Hypothesis Ha : a <> NonAtomic.

    Lemma skip_noop : forall n call la (s : st), skip_with G n call a la s = Ok s.
    Proof. intros. unfold skip_with. destruct a; try reflexivity. congruence. Qed.

    Lemma pure_seq : forall n1 n2 m x y h1 h2,
        pure_run n1 m a x h1 -> pure_run n2 m a y h2 -> shrinks h1 -> shrinks h2 ->
        pure_run (S (Nat.max n1 n2)) m a (Seq x y) (m_seq h1 h2).
    Proof.
      intros n1 n2 m x y h1 h2 H1 H2 S1 S2 f s la Hf. destruct f as [|f]; [lia|]. rewrite run_S. cbv zeta.
      unfold m_seq.
      assert (Hy : forall r1, h1 (rest s) = Some r1 ->
                     run G f m a la y (set_pos s (pos s + (slen (rest s) - slen r1)) r1)
                     = pure_out (set_pos s (pos s + (slen (rest s) - slen r1)) r1) (h2 r1)).
      { intros r1 E1. pose proof (S1 _ _ E1) as L1. rewrite H2; [reflexivity|]. simpl. lia. }
      destruct m.
      - rewrite H1 by lia. destruct (h1 (rest s)) as [r1|] eqn:E1; cbn [pure_out bind].
        + rewrite (Hy r1 eq_refl).
          apply pure_out_compose; [reflexivity|exact (S1 _ _ E1)|intros r2 E2; exact (S2 _ _ E2)].
        + cbn [sequence]. f_equal. apply st_eta.
      - rewrite H1 by lia. destruct (h1 (rest s)) as [r1|] eqn:E1; cbn [pure_out bind].
        + rewrite skip_noop. cbn [bind]. rewrite (Hy r1 eq_refl).
          apply pure_out_compose; [reflexivity|exact (S1 _ _ E1)|intros r2 E2; exact (S2 _ _ E2)].
        + cbn [sequence]. f_equal. apply st_eta.
    Qed.

    Lemma pure_out_self : forall s : st, pure_out s (Some (rest s)) = Ok s.
    Proof. intro s. unfold pure_out, set_pos. rewrite N.sub_diag, N.add_0_r, st_eta. reflexivity. Qed.

    Lemma pure_opt : forall n m x h, pure_run n m a x h -> pure_run (S n) m a (Opt x) (m_opt h).
    Proof.
      intros n m x h H f s la Hf. destruct f as [|f]; [lia|]. rewrite run_S. cbv zeta.
      rewrite H by lia. unfold m_opt. destruct (h (rest s)); [reflexivity|].
      rewrite pure_out_self. reflexivity.
    Qed.

    Lemma pure_not : forall n m x h, pure_run n m a x h -> pure_run (S n) m a (NegPred x) (m_not h).
    Proof.
      intros n m x h H f s la Hf. destruct f as [|f]; [lia|]. rewrite run_S. cbv zeta.
      unfold lookahead. rewrite H by (simpl; lia). unfold m_not. cbn [rest set_stk].
      destruct (h (rest s)).
      - cbn [pure_out set_pos set_stk stk out pos rest]. rewrite restore_snapshot, st_eta. reflexivity.
      - rewrite pure_out_self. cbn [pure_out set_pos set_stk stk out pos rest].
        rewrite restore_snapshot, st_eta. reflexivity.
    Qed.

    Lemma m_star_n_shrinks : forall h, progresses h -> forall k t, String.length (m_star_n k h t) <= String.length t.
    Proof.
      intros h P. induction k; intro t; simpl; [lia|].
      destruct (h t) eqn:E; [|lia]. apply P in E. specialize (IHk s). lia.
    Qed.

    (* the loop of `repeat` over a pure, progressing body *)
    Lemma repeat_pure : forall (g : st -> res) h, progresses h ->
        forall k n (s : st), String.length (rest s) <= k -> k < n ->
        (forall s' : st, String.length (rest s') <= String.length (rest s) -> g s' = pure_out s' (h (rest s'))) ->
        repeat_loop n g s = pure_out s (Some (m_star_n k h (rest s))).
    Proof.
      intros g h P. induction k as [|k IH]; intros n s Lk Ln Hg.
      - destruct n as [|n]; [lia|]. cbn [repeat_loop m_star_n]. rewrite Hg by lia.
        destruct (h (rest s)) as [r|] eqn:E.
        + apply P in E. lia.
        + rewrite pure_out_self. reflexivity.
      - destruct n as [|n]; [lia|]. cbn [repeat_loop m_star_n]. rewrite Hg by lia.
        destruct (h (rest s)) as [r|] eqn:E.
        + pose proof (P _ _ E) as L. cbn [pure_out].
          rewrite IH; [| cbn [rest set_pos]; lia | lia | intros s' L'; apply Hg; cbn [rest set_pos] in L'; lia].
          cbn [pure_out]. unfold set_pos. cbn [pos rest stk out]. f_equal. f_equal.
          pose proof (m_star_n_shrinks h P k r). unfold slen. lia.
        + rewrite pure_out_self. reflexivity.
    Qed.

    Lemma pure_rep : forall n m x h, pure_run n m a x h -> progresses h ->
        pure_run (S (S n)) m a (Rep x) (m_star h).
    Proof.
      intros n m x h H P f s la Hf. destruct f as [|f]; [lia|]. rewrite run_S. cbv zeta.
      unfold m_star. destruct m.
      - apply (repeat_pure _ h P (String.length (rest s))); [lia|lia|].
        intros s' L. apply H. lia.
      - (* sequence (optional (x ; repeat (sequence (skip ; x)))) *)
        rewrite H by lia.
        destruct (String.length (rest s)) as [|k] eqn:EL; cbn [m_star_n].
        + destruct (h (rest s)) as [r|] eqn:E; [apply P in E; lia|].
          rewrite pure_out_self. reflexivity.
        + destruct (h (rest s)) as [r|] eqn:E.
          * pose proof (P _ _ E) as L. cbn [pure_out bind].
            rewrite (repeat_pure _ h P k);
              [ | cbn [rest set_pos]; lia | lia
                | intros s' L'; rewrite skip_noop; cbn [bind]; rewrite H by (cbn [rest set_pos] in L'; lia);
                  destruct (h (rest s')); cbn [pure_out sequence]; [reflexivity|f_equal; apply st_eta] ].
            cbn [pure_out optional sequence]. unfold set_pos. cbn [pos rest stk out]. f_equal. f_equal.
            pose proof (m_star_n_shrinks h P k r). unfold slen. lia.
          * rewrite pure_out_self. reflexivity.
    Qed.

    (* a silent, non-trivia rule is its body compiled by generate_expr *)
    Lemma pure_silent : forall n m r body h,
        g_def G r = mkdef MSilent false body -> pure_run n false a body h -> pure_run (S n) m a (Ident r) h.
    Proof.
      intros n m r body h D H f s la Hf. destruct f as [|f]; [lia|]. rewrite run_S. cbv zeta.
      unfold call_with. rewrite D. simpl. apply H. lia.
    Qed.
  End NoSkip.

  Lemma shrinks_choice : forall h1 h2, shrinks h1 -> shrinks h2 -> shrinks (m_choice h1 h2).
  Proof. intros h1 h2 S1 S2 t r E. unfold m_choice in E. destruct (h1 t) eqn:E1; [inversion E; subst; eauto|eauto]. Qed.
  Lemma progresses_choice : forall h1 h2, progresses h1 -> progresses h2 -> progresses (m_choice h1 h2).
  Proof. intros h1 h2 S1 S2 t r E. unfold m_choice in E. destruct (h1 t) eqn:E1; [inversion E; subst; eauto|eauto]. Qed.
  Lemma shrinks_seq : forall h1 h2, shrinks h1 -> shrinks h2 -> shrinks (m_seq h1 h2).
  Proof.
    intros h1 h2 S1 S2 t r E. unfold m_seq in E. destruct (h1 t) eqn:E1; [|discriminate].
    apply S1 in E1. apply S2 in E. lia.
  Qed.
  Lemma progresses_seq_l : forall h1 h2, progresses h1 -> shrinks h2 -> progresses (m_seq h1 h2).
  Proof.
    intros h1 h2 S1 S2 t r E. unfold m_seq in E. destruct (h1 t) eqn:E1; [|discriminate].
    apply S1 in E1. apply S2 in E. lia.
  Qed.
  Lemma shrinks_not : forall h, shrinks (m_not h).
  Proof. intros h t r E. unfold m_not in E. destruct (h t); inversion E; subst; lia. Qed.
  Lemma shrinks_opt : forall h, shrinks h -> shrinks (m_opt h).
  Proof. intros h S1 t r E. unfold m_opt in E. destruct (h t) eqn:E1; inversion E; subst; eauto. Qed.
  Lemma shrinks_star : forall h, progresses h -> shrinks (m_star h).
  Proof.
    intros h P t r E. unfold m_star in E. inversion E; subst. clear E.
    generalize (String.length t) at 1. intro k. revert t. induction k; intro t; simpl; [lia|].
    destruct (h t) eqn:E; [|lia]. apply P in E. specialize (IHk s). lia.
  Qed.
End Pure.
