(* BuiltinsText.v — the remaining built-ins whose arm is a thin wrapper around a function that
   another part of the development already models: convert (Units.v, C17), round (f64::round and
   powi, DisplayNum.v of C20), to_number (Rust's f64 FromStr, NumText.v of C16), to_string / join
   (Value::stringify of BuiltinsList.v with f64 Display of NumText.v).  Definitions only; they are
   wired into EvalFull.builtin_full so that the EVAL streams run programs using them.

   Not modelled (the arm yields Unmodelled): stringifying a value that contains a function (the
   text is ast_to_source's, modelled separately by Printer.v / Emit.v). *)
From Coq Require Import String Ascii List ZArith Bool.
Require Import Blots.Num Blots.gen.Builtins Blots.Ast Blots.Value Blots.Outcome
               Blots.BuiltinsList Blots.NumText Blots.DisplayNum Blots.UnitsBase Blots.Units.
Import ListNotations.
Open Scope list_scope.

(* ---------- convert(value, from, to) ---------- *)
Definition convert_result (r : ures num) : outcome value :=
  match r with UOk x => Ok (VNum x) | UErr _ => Err end.
Definition bi_convert (args : list value) : outcome value :=
  do a0 <- arg args 0; do value <- as_number a0;
  do a1 <- arg args 1; do from_unit <- as_string a1;
  do a2 <- arg args 2; do to_unit <- as_string a2;
  convert_result (Units.convert fl value from_unit to_unit).

(* ---------- round(x) / round(x, places) ---------- *)
Definition bi_round (args : list value) : outcome value :=
  do a0 <- arg args 0; do num <- as_number a0;
  match args with
  | [_] => Ok (VNum (nround num))
  | _ =>
      do a1 <- arg args 1; do places <- as_number a1;
      let decimal_places := as_i32 places in                      (* `as i32`: saturating, NaN -> 0 *)
      let multiplier := powi_exec (num_of_Z 10) decimal_places in  (* 10_f64.powi(decimal_places) *)
      Ok (VNum (ndiv (nround (nmul num multiplier)) multiplier))
  end.

(* ---------- random(seed): fastrand 2.3.0, Rng::with_seed(seed as u64).f64() ----------
   WyRand step (gen_u64): s = state + C0 (wrapping); t = s * (s xor C1) as u128; (t as u64) xor (t >> 64);
   f64(): from_bits((1 << 62) - (1 << 52) + (u >> 12)) - 1.0, i.e. a double in [1, 2) minus 1. *)
Definition WY_CONST_0 : Z := 0x2d358dccaa6c78a5.
Definition WY_CONST_1 : Z := 0x8bb84b93962eacc9.
Definition wy_gen_u64 (state : Z) : Z :=
  let s := (state + WY_CONST_0) mod 2 ^ 64 in
  let t := s * Z.lxor s WY_CONST_1 in
  Z.lxor (t mod 2 ^ 64) (t / 2 ^ 64).
Definition rng_f64 (seed : Z) : num :=
  nsub (num_of_bits (2 ^ 62 - 2 ^ 52 + wy_gen_u64 seed / 2 ^ 12)) (num_of_Z 1).
Definition bi_random (args : list value) : outcome value :=
  do a0 <- arg args 0; do x <- as_number a0;
  Ok (VNum (rng_f64 (as_u64 x))).                         (* `as u64`: saturating, NaN -> 0 *)

(* ---------- to_number ---------- *)
Definition parse_result (r : option num) : outcome value :=
  match r with Some n => Ok (VNum n) | None => Err end.
Definition bi_to_number (args : list value) : outcome value :=
  do a0 <- arg args 0;
  match a0 with
  | VNum _ => Ok a0
  | VBool b => Ok (VNum (num_of_Z (if b then 1 else 0)))
  | _ => do s <- as_string a0;
         parse_result (ref_str_parse s)
  end.

(* ---------- to_string / join: Value::stringify_internal ---------- *)
Fixpoint has_function (v : value) : bool :=
  match v with
  | VLam _ _ _ _ => true
  | VList l => existsb has_function l
  | VRec r => existsb (fun kv => has_function (snd kv)) r
  | VSpread w => has_function w
  | _ => false
  end.
Definition no_lam_str (_ : list lamarg) (_ : expr) (_ : list (string * value)) : string := EmptyString.
Definition stringify_internal (v : value) : outcome string :=
  if has_function v then Unmodelled
  else Ok (stringify ref_display no_lam_str false v).

Definition bi_to_string (args : list value) : outcome value :=
  do a0 <- arg args 0;
  match a0 with
  | VStr _ => Ok a0
  | _ => do s <- stringify_internal a0; Ok (VStr s)
  end.

Definition bi_join_full (args : list value) : outcome value :=
  do a1 <- arg args 1; do delimeter <- as_string a1;
  do a0 <- arg args 0; do l <- as_list a0;
  do strs <- mapM stringify_internal l;
  Ok (VStr (str_join delimeter strs)).
