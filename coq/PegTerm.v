(* PegTerm.v — definitions only: a computable TERMINATION CERTIFICATE for pest grammars run by coq/Peg.v, and the
   fuel it justifies.

   The fuel of [Peg.run] bounds the nesting depth of sub-evaluations (and the iterations of one `repeat`).  The
   certificate assigns to every rule r a depth budget [dz r] = the nesting depth its body may need AT THE POSITION
   WHERE THE RULE WAS ENTERED (before anything is consumed), and a constant [C] = depth regained per consumed byte:
   an expression evaluated with L bytes left needs at most  L * C + dl e  levels, where [dl] ("left depth") is
   computed structurally:
     - a rule call costs one level plus the budget of the callee,
     - a part that can only run AFTER at least one byte was consumed (the right side of a sequence whose left side
       is not nullable, the second and later iterations of a repetition, the implicit skip there) is discounted
       by C — it runs with one byte less, which pays for C levels,
     - implicit whitespace/comment skipping ([dskip]) is charged at every junction of a sequence / repetition.
   [term_cert] checks  dl (body r) <= dz r  for every rule — impossible for a left-recursive rule (it would need
   dz r + 1 <= dz r), and for a cycle through consuming positions possible iff C is at least the depth of the
   cycle per consumed byte — plus: the nullable set [nl] is closed under the rules, no repetition body is nullable,
   WHITESPACE / COMMENT are not nullable, C >= 1.
   proofs/PegFuel.v: for EVERY grammar with a certificate, [parse] with fuel  |text| * C + dz r  never returns
   OutOfFuel.  [dz_table] computes a candidate budget table by Bellman-Ford-style iteration (longest paths). *)
From Coq Require Import String Ascii List NArith Bool Arith.
Require Import Blots.Peg Blots.PegWf.
Import ListNotations.

Section Term.
  Variable R : Type.
  Variable G : grammar R.
  Variable rules : list R.
  Variable idx : R -> N.
  Variable nl : list R.          (* the rules that may succeed without consuming input *)
  Variable C : nat.              (* nesting depth paid for by one consumed byte *)

  Section Dl.
    Variable dz : R -> nat.      (* depth budget of a rule body at the position where the rule is entered *)

    (* what the implicit skip between the parts of a sequence / repetition may need: the WHITESPACE / COMMENT bodies
       run at the same level as the parts; at least 1 so that the `repeat` of the skip has an iteration to fail in *)
    Definition dskip : nat := fold_right (fun t n => Nat.max (dz t) n) 1 (trivia R G).

    Fixpoint dl (e : expr R) : nat :=
      match e with
      | Ident r => S (dz r)
      | PosPred x | NegPred x | Opt x | Push x | RestoreOnErr x => S (dl x)
      | Choice x y => S (Nat.max (dl x) (dl y))
      | Seq x y =>
          let d := Nat.max dskip (dl y) in
          S (Nat.max (dl x) (if nullable R idx nl x then d else d - C))
      | Rep x => S (Nat.max (dl x) (dskip - C))
      | _ => 1
      end.

    Definition term_cert : bool :=
      (1 <=? C)
      && forallb (fun r => let b := rd_body (g_def G r) in
                           implb (nullable R idx nl b) (mem R idx r nl)
                           && (dl b <=? dz r)
                           && reps_progress R idx nl b) rules
      && forallb (fun t => negb (mem R idx t nl)) (trivia R G).
  End Dl.

  (* the fuel the certificate justifies for parsing [text] from rule [r] *)
  Definition term_fuel (dz : R -> nat) (r : R) (text : string) : nat := String.length text * C + dz r.

  (* a candidate table: dz_0 = 0, dz_{i+1} r = max (dz_i r) (dl dz_i (body r)); [rules] must be listed in the
     order of [idx] (0, 1, 2, ...) for the table lookup — nothing relies on it: [term_cert] validates the result *)
  Definition dz_of (tab : list nat) (r : R) : nat := nth (N.to_nat (idx r)) tab 0.
  Definition dz_step (tab : list nat) : list nat :=
    map (fun r => Nat.max (dz_of tab r) (dl (dz_of tab) (rd_body (g_def G r)))) rules.
  Definition dz_table (rounds : nat) : list nat := iter rounds dz_step (map (fun _ => 0) rules).
End Term.
Arguments dl {R}. Arguments dskip {R}. Arguments term_cert {R}. Arguments term_fuel {R}.
Arguments dz_of {R}. Arguments dz_table {R}.
