(* C10IdentImpl.v — definitions only: the rules of C10Ident.v instantiated with what
   translate/ident_rules.py read from grammar.pest (gen/IdentRules.v). *)
From Coq Require Import String List.
Require Import Blots.C10Ident Blots.gen.IdentRules.
Local Open Scope string_scope.

Definition term_word_impl : string -> option (atom_alt * string) :=
  term_word reserved_words bool_boundary null_boundary term_order.

(* show function for the correspondence *)
Definition show_alt (r : option (atom_alt * string)) : string :=
  match r with
  | Some (AIdent, rest) => "I:" ++ rest
  | Some (ABool, rest) => "B:" ++ rest
  | Some (ANull, rest) => "N:" ++ rest
  | None => "-"
  end.
