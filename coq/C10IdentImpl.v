(* C10IdentImpl.v — definitions only: the rules of C10Ident.v instantiated with what
   translate/ident_rules.py read from grammar.pest (gen/IdentRules.v). *)
From Coq Require Import String List.
Require Import Blots.PrattTypes Blots.C10Ident Blots.gen.IdentRules.
Local Open Scope string_scope.

Definition term_word_impl : string -> option (atom_alt * string) :=
  term_word reserved_words bool_boundary null_boundary term_order.

(* show function for the correspondence *)
Definition show_alt (r : option (atom_alt * string)) : string :=
  match r with
  | Some (AIdent, rest) => "I:" ++ rest
  | Some (ABool, rest) => "B:" ++ rest
  | Some (ANull, rest) => "N:" ++ rest
  | None => "-"
  end.

(* what the grammar of the working tree reads after an operand *)
Definition after_operand_impl : string -> after_operand :=
  after_operand_lex reserved_words factorial_guard postfix_order infix_ops.

(* class of the open known finding C10-bang-equals: `!=` directly after the operand *)
Definition known_bang (r : oprule) : bool := match r with R_not_equal => true | _ => false end.
