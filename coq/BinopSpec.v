(* BinopSpec.v — the SPEC side of property C11: what one operator application means on two
   whole values, written independently of the three hand-expanded arms of
   evaluate_binary_op_ast (no is_list_first, no loops, no accessors with `?`), and the
   broadcasting law stated with mapM / mapM2 over it.  Definitions only.

   scalar_op is total on all values: applied to an element that is itself a list it is the
   whole-value operation (arithmetic/and/or fail, == compares whole lists, < is the
   lexicographic list order, ?? tests for null) — broadcasting is one level deep, exactly as
   the property says ("the list of scalar results element by element"). *)
From Coq Require Import String Ascii List ZArith Bool.
Require Import Blots.Num Blots.gen.Builtins Blots.Ast Blots.Value Blots.Outcome.
Import ListNotations.

(* the 17 broadcasting operators of the property text *)
Definition broadcasting (op : binop) : bool :=
  match op with
  | Add | Subtract | Multiply | Divide | Modulo | Power
  | Equal | NotEqual | Less | LessEq | Greater | GreaterEq
  | And | NaturalAnd | Or | NaturalOr | Coalesce => true
  | _ => false
  end.
Definition broadcasting_ops : list binop :=
  [Add; Subtract; Multiply; Divide; Modulo; Power; Equal; NotEqual; Less; LessEq; Greater; GreaterEq;
   And; NaturalAnd; Or; NaturalOr; Coalesce].
Definition is_dot (op : binop) : bool :=
  match op with
  | DotEqual | DotNotEqual | DotLess | DotLessEq | DotGreater | DotGreaterEq => true
  | _ => false
  end.

(* IEEE-754 binary64 arithmetic on two numbers; anything else is an error *)
Definition arith (f : num -> num -> num) (a b : value) : outcome value :=
  match a, b with
  | VNum x, VNum y => Ok (VNum (f x y))
  | _, _ => Err
  end.
(* comparisons follow the value ordering Value::compare; incomparable values are an error *)
Definition ordered (accept : list comparison) (a b : value) : outcome value :=
  match compare a b with
  | Some c => Ok (VBool (ord_in c accept))
  | None => Err
  end.
(* and / or require booleans; the left operand is checked first and decides alone when it can *)
Definition logic_and (a b : value) : outcome value :=
  match a, b with
  | VBool false, _ => Ok (VBool false)
  | VBool true, VBool y => Ok (VBool y)
  | _, _ => Err
  end.
Definition logic_or (a b : value) : outcome value :=
  match a, b with
  | VBool true, _ => Ok (VBool true)
  | VBool false, VBool y => Ok (VBool y)
  | _, _ => Err
  end.

Section Spec.
  Variable powf : num -> num -> num.      (* libm oracle: every theorem holds for all of them *)

  Definition scalar_op (op : binop) (a b : value) : outcome value :=
    match op with
    | Add =>
        match a, b with
        | VNum x, VNum y => Ok (VNum (nadd x y))
        | VStr s, VStr t => Ok (VStr (s ++ t))
        | _, _ => Err
        end
    | Subtract => arith nsub a b
    | Multiply => arith nmul a b
    | Divide => arith ndiv a b
    | Modulo => arith nfmod a b
    | Power => arith powf a b
    | Equal | DotEqual => Ok (VBool (equals a b))
    | NotEqual | DotNotEqual => Ok (VBool (negb (equals a b)))
    | Less | DotLess => ordered [Lt] a b
    | LessEq | DotLessEq => ordered [Lt; Eq] a b
    | Greater | DotGreater => ordered [Gt] a b
    | GreaterEq | DotGreaterEq => ordered [Gt; Eq] a b
    | And | NaturalAnd => logic_and a b
    | Or | NaturalOr => logic_or a b
    | Coalesce => Ok (match a with VNull => b | _ => a end)
    | Via | Into | Where => Unmodelled        (* not C11's: see C13 *)
    end.

  (* the broadcasting law, as a function: what `a op b` must be for a broadcasting operator *)
  Definition broadcast_spec (op : binop) (a b : value) : outcome value :=
    match a, b with
    | VList l, VList m =>
        if Nat.eqb (length l) (length m) then omap VList (mapM2 (scalar_op op) l m) else Err
    | VList l, s => omap VList (mapM (fun x => scalar_op op x s) l)
    | s, VList l => omap VList (mapM (fun x => scalar_op op s x) l)
    | _, _ => scalar_op op a b
    end.
End Spec.
