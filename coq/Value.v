(* Value.v — runtime values as immutable trees, plus Value::equals / Value::compare
   transcribed from blots-core/src/values.rs.  Definitions only. *)
From Coq Require Import String Ascii List ZArith Bool.
Require Import Blots.Num Blots.gen.Builtins Blots.Ast.
Import ListNotations.

Definition lam_id := nat.

Inductive value :=
| VNum (x : num)
| VBool (b : bool)
| VNull
| VStr (s : string)
| VList (l : list value)
| VRec (r : list (string * value))     (* IndexMap: insertion order, unique keys *)
| VLam (id : lam_id) (args : list lamarg) (body : expr) (scope : list (string * value))
| VBuiltin (b : builtin)
| VSpread (v : value).                  (* internal: Spread(IterablePointer) *)

Inductive vtype := TNum | TList | TSpread | TBool | TLam | TStr | TNull | TBuiltin | TRec.
Definition type_of (v : value) : vtype :=
  match v with
  | VNum _ => TNum | VBool _ => TBool | VNull => TNull | VStr _ => TStr | VList _ => TList
  | VRec _ => TRec | VLam _ _ _ _ => TLam | VBuiltin _ => TBuiltin | VSpread _ => TSpread
  end.
Definition vtype_eqb (a b : vtype) : bool :=
  match a, b with
  | TNum, TNum | TList, TList | TSpread, TSpread | TBool, TBool | TLam, TLam | TStr, TStr
  | TNull, TNull | TBuiltin, TBuiltin | TRec, TRec => true
  | _, _ => false
  end.
Definition type_name (t : vtype) : string :=
  match t with
  | TNum => "number" | TList => "list" | TSpread => "spread" | TBool => "boolean"
  | TLam => "function" | TStr => "string" | TNull => "null" | TBuiltin => "built-in function"
  | TRec => "record"
  end%string.

(* IndexMap operations on association lists *)
Fixpoint rec_get {A} (r : list (string * A)) (k : string) : option A :=
  match r with
  | [] => None
  | (k', v) :: r' => if String.eqb k k' then Some v else rec_get r' k
  end.
(* IndexMap::insert: replace in place (position kept) or append *)
Fixpoint rec_insert {A} (r : list (string * A)) (k : string) (v : A) : list (string * A) :=
  match r with
  | [] => [(k, v)]
  | (k', v') :: r' => if String.eqb k k' then (k', v) :: r' else (k', v') :: rec_insert r' k v
  end.

(* byte-wise lexicographic order on strings (Rust str::cmp) *)
Fixpoint string_cmp (a b : string) : comparison :=
  match a, b with
  | EmptyString, EmptyString => Eq
  | EmptyString, _ => Lt
  | _, EmptyString => Gt
  | String x a', String y b' =>
      match Nat.compare (nat_of_ascii x) (nat_of_ascii y) with
      | Eq => string_cmp a' b'
      | c => c
      end
  end.

Definition bool_cmp (a b : bool) : comparison :=
  match a, b with
  | false, true => Lt | true, false => Gt | _, _ => Eq
  end.

(* Value::equals *)
Fixpoint equals (a b : value) {struct a} : bool :=
  match a, b with
  | VNum x, VNum y => neqb x y
  | VBool x, VBool y => Bool.eqb x y
  | VNull, VNull => true
  | VStr x, VStr y => String.eqb x y
  | VList l, VList m =>
      (fix go (l m : list value) {struct l} : bool :=
         match l, m with
         | [], [] => true
         | x :: l', y :: m' => if equals x y then go l' m' else false
         | _, _ => false
         end) l m
  | VRec r, VRec s =>
      Nat.eqb (length r) (length s) &&
      (fix go (r : list (string * value)) {struct r} : bool :=
         match r with
         | [] => true
         | (k, x) :: r' =>
             match rec_get s k with
             | Some y => if equals x y then go r' else false
             | None => false
             end
         end) r
  | VLam _ a1 b1 _, VLam _ a2 b2 _ => list_eqb lamarg_eqb a1 a2 && expr_eqb b1 b2
  | VBuiltin x, VBuiltin y => builtin_eqb x y
  | VSpread x, VSpread y =>
      match x, y with
      | VList _, VList _ | VStr _, VStr _ | VRec _, VRec _ => equals x y
      | _, _ => false
      end
  | _, _ => false
  end.

(* Value::compare : None = "no natural ordering" (or a NaN involved) *)
Fixpoint compare (a b : value) {struct a} : option comparison :=
  match a, b with
  | VNum x, VNum y => ncmp x y
  | VBool x, VBool y => Some (bool_cmp x y)
  | VStr x, VStr y => Some (string_cmp x y)
  | VList l, VList m =>
      (fix go (l m : list value) {struct l} : option comparison :=
         match l, m with
         | [], [] => Some Eq
         | [], _ :: _ => Some Lt
         | _ :: _, [] => Some Gt
         | x :: l', y :: m' =>
             match compare x y with
             | Some Eq => go l' m'
             | other => other
             end
         end) l m
  | _, _ => None
  end.

(* the dot operators and the unchecked built-ins, as the evaluator computes them *)
Definition ord_in (o : comparison) (expected : list comparison) : bool :=
  existsb (fun e => match o, e with Lt, Lt | Eq, Eq | Gt, Gt => true | _, _ => false end) expected.

Definition check_ordering (o : option comparison) (expected : list comparison) : option bool :=
  match o with Some c => Some (ord_in c expected) | None => None end.   (* None = error *)

Definition dot_eq (a b : value) : bool := equals a b.
Definition dot_ne (a b : value) : bool := negb (equals a b).
Definition dot_lt (a b : value) := check_ordering (compare a b) [Lt].
Definition dot_le (a b : value) := check_ordering (compare a b) [Lt; Eq].
Definition dot_gt (a b : value) := check_ordering (compare a b) [Gt].
Definition dot_ge (a b : value) := check_ordering (compare a b) [Gt; Eq].

Definition ugt (a b : value) : bool := match compare a b with Some Gt => true | _ => false end.
Definition ult (a b : value) : bool := match compare a b with Some Lt => true | _ => false end.
Definition ugte (a b : value) : bool := match compare a b with Some Gt | Some Eq => true | _ => false end.
Definition ulte (a b : value) : bool := match compare a b with Some Lt | Some Eq => true | _ => false end.
