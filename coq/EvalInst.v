(* EvalInst.v — the evaluator instantiated with the transcribed operators (Binop.v) and the
   transcribed built-ins; what the EVAL correspondence runs.  Definitions only.
   Built-ins whose arm is not transcribed (or whose result depends on libm) yield
   [Unmodelled]; the correspondence counts and skips programs that reach one. *)
From Coq Require Import String List ZArith Bool.
Require Import Blots.Num Blots.gen.Builtins Blots.Ast Blots.Value Blots.Outcome Blots.Binop
               Blots.Env Blots.Eval Blots.BuiltinsHof Blots.Program.
Import ListNotations.

(* f64::powf is libm: an oracle.  Running the model needs a value; the correspondence only
   generates `^` cases through the C11 stream (with its own oracle table), so here every
   power is Unmodelled unless trivially exact (x^1 = x, x^0 = 1 are IEEE-specified). *)
Definition powf_stub (x y : num) : num := nnan.

Definition pure_bi (f : list value -> outcome value) : list value -> store -> outcome value * store :=
  fun args st => (f args, st).

Definition builtin_impl (call : callback) (b : builtin) : list value -> store -> outcome value * store :=
  match b with
  | B_map => bi_map call
  | B_filter => bi_filter call
  | B_reduce => bi_reduce call
  | B_every => bi_every call
  | B_some => bi_some call
  | B_abs => pure_bi bi_abs
  | B_floor => pure_bi bi_floor
  | B_ceil => pure_bi bi_ceil
  | B_trunc => pure_bi bi_trunc
  | B_sqrt => pure_bi bi_sqrt
  | B_typeof => pure_bi bi_typeof
  | B_arity => pure_bi bi_arity
  | B_to_bool => pure_bi bi_to_bool
  | B_ugt => pure_bi bi_ugt
  | B_ult => pure_bi bi_ult
  | B_ugte => pure_bi bi_ugte
  | B_ulte => pure_bi bi_ulte
  | B_any => pure_bi bi_any
  | B_all => pure_bi bi_all
  | _ => fun _ st => (Unmodelled, st)
  end.

(* `^` is Unmodelled at top level (libm); everything else is the transcription *)
Definition binop_impl (call : callback) (op : binop) (l r : value) (st : store)
  : outcome value * store :=
  match op with
  | Power => (Unmodelled, st)
  | _ => eval_binop store call fn_accepts2_of_value powf_stub op l r st
  end.

Definition eval_release := eval_top true binop_impl builtin_impl.
Definition eval_debug := eval_top false binop_impl builtin_impl.
Definition run_program (inputs : list (string * value)) (prog : list stmt) : string :=
  show_run (run eval_release (init_session inputs) prog).
Definition run_session (stop : bool) (inputs : list (string * value)) (prog : list stmt) : string :=
  show_trace (run_trace eval_release stop (init_session inputs) prog).
